package main

import (
	"bytes"
	"encoding/xml"
	"errors"
	"io"
	"sync"

	xmpp "gosrc.io/xmpp"
	"gosrc.io/xmpp/stanza"
)

// stubTransport is an in-memory xmpp.Transport: it records every Write, can fail chosen writes, and serves the
// decoder from a byte source chosen by the test (a fixed buffer or a pipe).
type stubTransport struct {
	mu       sync.Mutex
	writes   [][]byte
	nwrite   int
	failAt   map[int]bool // 1-based write numbers that fail
	failPrefix string     // a write whose payload begins like this fails (it is neither counted nor recorded)
	pings    int
	pingFail map[int]bool
	closes   int
	dec      *xml.Decoder
	secure   bool
	doesTLS  bool
	tlsErr   error
	onWrite  func(n int, p []byte) // called (unlocked) after recording
	closeCh  chan struct{}
	streamID string
	log      []string // event log: "w", "ping", "close", "starttls", "startstream"
	connects int
	onStartStream func() (string, error)
	onConnect     func() (string, error)
	onStartTLS    func() error
}

func newStub(in io.Reader) *stubTransport {
	s := &stubTransport{failAt: map[int]bool{}, pingFail: map[int]bool{}, closeCh: make(chan struct{}, 16)}
	if in != nil {
		s.dec = xml.NewDecoder(in)
	}
	return s
}

func (s *stubTransport) setInput(b []byte) { s.dec = xml.NewDecoder(bytes.NewReader(b)) }

func (s *stubTransport) Connect() (string, error) {
	s.mu.Lock()
	s.connects++
	f := s.onConnect
	s.mu.Unlock()
	if f != nil {
		return f()
	}
	return s.streamID, nil
}
func (s *stubTransport) DoesStartTLS() bool { return s.doesTLS }
func (s *stubTransport) StartTLS() error {
	s.mu.Lock()
	s.log = append(s.log, "starttls")
	f := s.onStartTLS
	s.mu.Unlock()
	if f != nil {
		return f()
	}
	if s.tlsErr == nil {
		s.secure = true
	}
	return s.tlsErr
}
func (s *stubTransport) LogTraffic(io.Writer) {}
func (s *stubTransport) StartStream() (string, error) {
	s.mu.Lock()
	s.log = append(s.log, "startstream")
	f := s.onStartStream
	s.mu.Unlock()
	if f != nil {
		return f()
	}
	return s.streamID, nil
}
func (s *stubTransport) GetDecoder() *xml.Decoder { return s.dec }
func (s *stubTransport) IsSecure() bool           { return s.secure }
func (s *stubTransport) Ping() error {
	s.mu.Lock()
	defer s.mu.Unlock()
	s.pings++
	s.log = append(s.log, "ping")
	if s.pingFail[s.pings] {
		return errors.New("stub: ping failed")
	}
	return nil
}
func (s *stubTransport) Read(p []byte) (int, error) { return 0, io.EOF }
func (s *stubTransport) Write(p []byte) (int, error) {
	s.mu.Lock()
	if s.failPrefix != "" && bytes.HasPrefix(p, []byte(s.failPrefix)) {
		s.mu.Unlock()
		return 0, errors.New("stub: write failed (broken pipe)")
	}
	s.nwrite++
	n := s.nwrite
	if s.failAt[n] {
		s.mu.Unlock()
		return 0, errors.New("stub: write failed")
	}
	cp := append([]byte(nil), p...)
	s.writes = append(s.writes, cp)
	s.log = append(s.log, "w")
	cb := s.onWrite
	s.mu.Unlock()
	if cb != nil {
		cb(n, cp)
	}
	return len(p), nil
}
func (s *stubTransport) Close() error {
	s.mu.Lock()
	s.closes++
	s.log = append(s.log, "close")
	s.mu.Unlock()
	select {
	case s.closeCh <- struct{}{}:
	default:
	}
	return nil
}
func (s *stubTransport) ReceivedStreamClose() {
	s.mu.Lock()
	s.log = append(s.log, "streamclose")
	s.mu.Unlock()
}

func (s *stubTransport) writeCount() int {
	s.mu.Lock()
	defer s.mu.Unlock()
	return s.nwrite
}

func (s *stubTransport) takeWrites() [][]byte {
	s.mu.Lock()
	defer s.mu.Unlock()
	w := s.writes
	s.writes = nil
	return w
}

// newStubClient builds a real Client (NewClient) and swaps its transport for a stub.
func newStubClient(cfg *xmpp.Config, router *xmpp.Router, eh func(error), st *stubTransport) (*xmpp.Client, error) {
	if cfg.Address == "" {
		cfg.Address = "127.0.0.1:1" // never dialled: avoids the SRV lookup in NewClient
	}
	if eh == nil {
		eh = func(error) {}
	}
	c, err := xmpp.NewClient(cfg, router, eh)
	if err != nil {
		return nil, err
	}
	xmpp.VerifSetTransport(c, st)
	return c, nil
}

var _ xmpp.Transport = (*stubTransport)(nil)
var _ = stanza.NSClient
