package main

import (
	"fmt"
	"math/rand"
	"strconv"
	"strings"

	"gosrc.io/xmpp/stanza"
)

// C17: stanza.UnAckQueue against the reference FIFO.
type c17 struct{}

func init() { register("C17", c17{}) }

func c17ents(qs []stanza.Queueable) string {
	var parts []string
	for _, q := range qs {
		e := q.(*stanza.UnAckedStz)
		parts = append(parts, fmt.Sprintf("%d,%s", e.Id, hx(e.Stz)))
	}
	return strings.Join(parts, ";")
}

func c17slice(q *stanza.UnAckQueue) string {
	if q == nil {
		return ""
	}
	var parts []string
	for _, e := range q.Uslice {
		parts = append(parts, fmt.Sprintf("%d,%s", e.Id, hx(e.Stz)))
	}
	return strings.Join(parts, ";")
}

func (c17) Exec(c Case) []string {
	var q *stanza.UnAckQueue
	if !(len(c.Variant) == 1 && c.Variant[0] == "nil") {
		q = stanza.NewUnAckQueue()
	}
	if len(c.Variant) == 2 && c.Variant[0] == "seed" {
		// a queue that already holds one entry with a large sequence number (as the tests of the library build them)
		id, _ := strconv.Atoi(c.Variant[1])
		q = &stanza.UnAckQueue{Uslice: []*stanza.UnAckedStz{{Id: id, Stz: "seed"}}}
	}
	var obs []string
	scratch := &stanza.UnAckedStz{} // one object re-used by every `pushsame`: the queue must hold copies
	for _, op := range c.Ops {
		var r string
		switch op[0] {
		case "pushsame":
			scratch.Id, scratch.Stz = 7, unhx(op[1])
			q.Push(scratch)
			r = ""
		case "pushpeek":
			// re-queue the head: Push(Peek()); on an empty queue Peek gives nothing and nothing is pushed
			if e := q.Peek(); e != nil {
				q.Push(e)
			}
			r = ""
		case "push":
			q.Push(&stanza.UnAckedStz{Id: 999, Stz: unhx(op[1])}) // the Id of the argument must be ignored
			r = ""
		case "pop":
			if e := q.Pop(); e != nil {
				r = c17ents([]stanza.Queueable{e})
			}
		case "popn":
			k, _ := strconv.Atoi(op[1])
			r = c17ents(q.PopN(k))
		case "peek":
			if e := q.Peek(); e != nil {
				r = c17ents([]stanza.Queueable{e})
			}
		case "peekn":
			k, _ := strconv.Atoi(op[1])
			r = c17ents(q.PeekN(k))
		case "empty":
			r = strconv.FormatBool(q.Empty())
		default:
			r = "bad-op"
		}
		obs = append(obs, "r:"+r+"|q:"+c17slice(q))
	}
	return obs
}

func (c17) Generate(rng *rand.Rand, tier string, st *Stats) []Case {
	var cases []Case
	// corpus: numbering must continue after the queue was drained (F-10)
	cases = append(cases, Case{ID: "corpus-drain", Ops: [][]string{{"push", hx("a")}, {"pop"}, {"push", hx("b")}, {"popn", "5"}, {"push", hx("c")}}})
	// the queue holds copies: a caller re-using one object, or re-queuing the head, changes nothing already queued
	cases = append(cases, Case{ID: "corpus-alias", Ops: [][]string{{"pushsame", hx("a")}, {"pushsame", hx("b")}, {"pushsame", hx("c")}, {"peekn", "3"}, {"pushpeek"}, {"peekn", "9"}, {"pop"}, {"pushpeek"}, {"popn", "9"}}})
	// "everything": n far beyond the length
	cases = append(cases, Case{ID: "corpus-huge-n", Ops: [][]string{{"push", hx("a")}, {"push", hx("b")}, {"peekn", "4611686018427387903"}, {"peekn", "9223372036854775807"}, {"popn", "9223372036854775807"}, {"popn", "4611686018427387903"}, {"peekn", "1000"}}})
	// bounded-exhaustive: all sequences up to length L over a small op alphabet
	alphabet := [][]string{
		{"push", hx("a")}, {"push", hx("b")}, {"pop"}, {"popn", "-1"}, {"popn", "0"}, {"popn", "1"}, {"popn", "2"},
		{"popn", "9"}, {"peek"}, {"peekn", "-2"}, {"peekn", "1"}, {"peekn", "3"}, {"empty"},
	}
	L := 4
	if tier == "thorough" {
		L = 5
	}
	var rec func(prefix [][]string, depth int)
	n := 0
	rec = func(prefix [][]string, depth int) {
		if depth == 0 {
			ops := make([][]string, len(prefix))
			copy(ops, prefix)
			cases = append(cases, Case{ID: fmt.Sprintf("ex%d", n), Ops: ops})
			n++
			return
		}
		for _, a := range alphabet {
			rec(append(prefix, a), depth-1)
		}
	}
	rec(nil, L)
	st.Add("exhaustive_cases", n)
	st.Exhaustive = true
	st.Note(fmt.Sprintf("all %d op sequences of length %d over a 13-op alphabet (two payloads, k in {-2,-1,0,1,2,3,9})", n, L))

	// random long sequences with arbitrary payloads and k around the current length
	R := 300
	if tier == "thorough" {
		R = 3000
	}
	for i := 0; i < R; i++ {
		ln := 1 + rng.Intn(200)
		var ops [][]string
		size := 0
		for j := 0; j < ln; j++ {
			switch x := rng.Intn(10); {
			case x < 4 && rng.Intn(6) == 0:
				ops = append(ops, []string{"pushsame", hx(randPayload(rng))})
				size++
				st.Inc("op_pushsame")
			case x < 4 && rng.Intn(8) == 0:
				ops = append(ops, []string{"pushpeek"})
				if size > 0 {
					size++
				}
				st.Inc("op_pushpeek")
			case x < 4:
				ops = append(ops, []string{"push", hx(randPayload(rng))})
				size++
				st.Inc("op_push")
			case x < 5:
				ops = append(ops, []string{"pop"})
				if size > 0 {
					size--
				}
				st.Inc("op_pop")
			case x < 7:
				k := rng.Intn(size+7) - 3
				ops = append(ops, []string{"popn", strconv.Itoa(k)})
				if k > 0 {
					if k > size {
						k = size
					}
					size -= k
				}
				st.Inc("op_popn")
			case x < 8:
				ops = append(ops, []string{"peek"})
				st.Inc("op_peek")
			case x < 9:
				ops = append(ops, []string{"peekn", strconv.Itoa(rng.Intn(size+7) - 3)})
				st.Inc("op_peekn")
			default:
				ops = append(ops, []string{"empty"})
				st.Inc("op_empty")
			}
		}
		cases = append(cases, Case{ID: fmt.Sprintf("rnd%d", i), Ops: ops})
	}
	// long queues: hundreds of stanzas outstanding (the backing array grows several times), drained in between
	longs := []int{70, 150, 400}
	if tier == "thorough" {
		longs = append(longs, 1100, 2100) // beyond 1024 and 2048 outstanding stanzas
	}
	for k, n := range longs {
		var ops [][]string
		for j := 0; j < n; j++ {
			ops = append(ops, []string{"push", hx(fmt.Sprintf("<m n='%d'/>", j))})
		}
		ops = append(ops, []string{"popn", strconv.Itoa(n / 5)}, []string{"peekn", "3"})
		for j := 0; j < n; j++ {
			ops = append(ops, []string{"push", hx(fmt.Sprintf("<n n='%d'/>", j))})
		}
		ops = append(ops, []string{"peek"}, []string{"pop"}, []string{"popn", strconv.Itoa(3 * n)}, []string{"empty"}, []string{"pushsame", hx("<after/>")}, []string{"peek"})
		cases = append(cases, Case{ID: fmt.Sprintf("long%d", k), Ops: ops})
		st.Inc("long_queue")
	}
	// sequence numbers around the 32-bit boundaries (and a large one): they go on increasing, nothing wraps
	for _, id := range []string{"2147483646", "4294967293", "4294967295", "1099511627775"} {
		var ops [][]string
		for j := 0; j < 5; j++ {
			ops = append(ops, []string{"push", hx(fmt.Sprintf("<m n='%d'/>", j))})
		}
		ops = append(ops, []string{"peekn", "3"}, []string{"popn", "2"}, []string{"push", hx("<z/>")}, []string{"popn", "9"}, []string{"push", hx("<after/>")}, []string{"peek"})
		cases = append(cases, Case{ID: "seed" + id, Variant: []string{"seed", id}, Ops: ops})
		st.Inc("large_sequence_numbers")
	}
	// nil receiver
	for i := 0; i < 20; i++ {
		var ops [][]string
		for j := 0; j < 10; j++ {
			ops = append(ops, alphabet[rng.Intn(len(alphabet))])
		}
		cases = append(cases, Case{ID: fmt.Sprintf("nil%d", i), Variant: []string{"nil"}, Ops: ops})
	}
	return cases
}

func randPayload(rng *rand.Rand) string {
	pool := []string{"", "<message/>", "<a>\t\n", "é", "\x00", "<iq id='1'/>", "x", "日本"}
	if rng.Intn(3) == 0 {
		n := rng.Intn(12)
		b := make([]rune, n)
		for i := range b {
			b[i] = rune(32 + rng.Intn(95))
		}
		return string(b)
	}
	return pool[rng.Intn(len(pool))]
}
