package main

import (
	"bufio"
	"bytes"
	"encoding/hex"
	"encoding/xml"
	"fmt"
	"io"
	"math/rand"
	"net"
	"strconv"
	"strings"
	"time"
	"unicode/utf8"

	xmpp "gosrc.io/xmpp"
)

// C02, byte level (cases with variant `bytes`): the SAME byte string is given to Go's real tokenizer - an
// xml.Decoder configured exactly as XMPPTransport / WebsocketTransport configure theirs (Strict, no CharsetReader,
// reading from bufio.NewReaderSize(conn, 32768)) - and to the Lean character-level model (Model/C02Bytes.lean) through
// the line protocol:
//
//	tok <hex bytes>  =>  <tokens>|ok|eof|err        (format: lean/XmppVerif/Drv/C02Bytes.lean)
//
// Every input is read in four ways (whole, one byte per Read, random chunks, random chunks behind the transport's
// bufio.Reader); the four token lists must be identical (else the observation is `chunk-mismatch`).

const c02bMaxPacket = 32768 // maxPacketSize of websocket_transport.go / xmpp_transport.go

func c02bName(n xml.Name) string { return hx(n.Space) + " " + hx(n.Local) }

// c02bTokens runs Token() until the first error and canonicalises what it returned.
func c02bTokens(r io.Reader, viaTransportBufio bool) (string, string) {
	if viaTransportBufio {
		r = bufio.NewReaderSize(r, c02bMaxPacket)
	}
	return c02bTokensDec(xml.NewDecoder(r))
}

// eofConn delivers data in random chunks and returns the LAST chunk together with io.EOF (what crypto/tls does when the
// peer's close_notify is already buffered behind the last record, and what any io.Reader may do).
type eofConn struct {
	chunkReader
}

func (c *eofConn) Read(p []byte) (int, error) {
	n, err := c.chunkReader.Read(p)
	if err == nil && len(c.data) == 0 {
		return n, io.EOF
	}
	return n, err
}
func (c *eofConn) Write(p []byte) (int, error)        { return len(p), nil }
func (c *eofConn) Close() error                       { return nil }
func (c *eofConn) LocalAddr() net.Addr                { return &net.TCPAddr{} }
func (c *eofConn) RemoteAddr() net.Addr               { return &net.TCPAddr{} }
func (c *eofConn) SetDeadline(t time.Time) error      { return nil }
func (c *eofConn) SetReadDeadline(t time.Time) error  { return nil }
func (c *eofConn) SetWriteDeadline(t time.Time) error { return nil }

// c02bTransportDecoder: the decoder of a real XMPPTransport (reader stack: connection, stream logger when traffic
// logging is on, bufio) over a connection that delivers `data`.
func c02bTransportDecoder(data []byte, seed int64, logged bool) *xml.Decoder {
	t := xmpp.NewClientTransport(xmpp.TransportConfiguration{Address: "127.0.0.1:1", Domain: "localhost"}).(*xmpp.XMPPTransport)
	if logged {
		t.LogTraffic(io.Discard)
	}
	xmpp.VerifXMPPTransportSetConn(t, &eofConn{chunkReader{data: append([]byte(nil), data...), rng: rand.New(rand.NewSource(seed)), max: 1 + int(seed%97)}})
	return t.GetDecoder()
}

func c02bTokensDec(d *xml.Decoder) (string, string) {
	var toks []string
	for {
		t, err := d.Token()
		if err != nil {
			stop := "err"
			if err == io.EOF {
				stop = "ok"
			} else if se, ok := err.(*xml.SyntaxError); ok && strings.HasPrefix(se.Msg, "unexpected EOF") {
				stop = "eof"
			}
			return strings.Join(toks, ";"), stop
		}
		switch v := t.(type) {
		case xml.StartElement:
			var sb strings.Builder
			fmt.Fprintf(&sb, "S %s %d", c02bName(v.Name), len(v.Attr))
			for _, a := range v.Attr {
				fmt.Fprintf(&sb, " %s %s", c02bName(a.Name), hx(a.Value))
			}
			toks = append(toks, sb.String())
		case xml.EndElement:
			toks = append(toks, "E "+c02bName(v.Name))
		case xml.CharData:
			toks = append(toks, "T "+hx(string(v)))
		case xml.Comment:
			toks = append(toks, "C "+hx(string(v)))
		case xml.ProcInst:
			toks = append(toks, "P "+hx(v.Target)+" "+hx(string(v.Inst)))
		case xml.Directive:
			toks = append(toks, "D "+hx(string(v)))
		}
		if len(toks) > 1<<20 {
			return strings.Join(toks, ";"), "toomany"
		}
	}
}

func c02bObserve(data []byte, seed int64) string {
	type res struct{ t, s string }
	ch := make(chan string, 1)
	go func() {
		defer func() {
			if r := recover(); r != nil {
				ch <- fmt.Sprintf("panic:%v", r)
			}
		}()
		modes := []string{"whole", "byte1", "rand:" + strconv.FormatInt(seed, 10), "rand:" + strconv.FormatInt(seed+1, 10)}
		var first res
		for i, m := range modes {
			t, s := c02bTokens(c02reader(data, m), i == 3 || i == 0)
			if i == 0 {
				first = res{t, s}
			} else if (res{t, s}) != first {
				ch <- "chunk-mismatch " + m
				return
			}
		}
		// and through the reader stack of the real transport, without and with traffic logging, the last bytes arriving
		// together with io.EOF
		for _, logged := range []bool{false, true} {
			t, s := c02bTokensDec(c02bTransportDecoder(data, seed+2, logged))
			if (res{t, s}) != first {
				ch <- "chunk-mismatch transport logged=" + strconv.FormatBool(logged)
				return
			}
		}
		ch <- first.t + "|" + first.s
	}()
	select {
	case o := <-ch:
		return o
	case <-time.After(10 * time.Second):
		return "timeout"
	}
}

func c02bExec(c Case) []string {
	var obs []string
	for i, op := range c.Ops {
		if op[0] != "tok" || len(op) < 2 {
			obs = append(obs, "bad-op")
			continue
		}
		obs = append(obs, c02bObserve([]byte(unhx(op[1])), int64(len(op[1])*31+i)))
	}
	return obs
}

// ---- generation ------------------------------------------------------------------------------------------

// c02bgen writes XML in the many ways a peer may: both quote kinds, white space inside tags, prefixes declared on
// the element or on an ancestor, redeclared and undeclared prefixes, default namespaces set and reset, entity and
// character references (decimal, hexadecimal, leading zeros) mixed with raw characters, CDATA, comments, processing
// instructions, \r\n, non-ASCII and astral characters. `wild` adds shapes the tokenizer must reject or that the model
// does not cover.
type c02bgen struct {
	rng  *rand.Rand
	st   *Stats
	wild bool
}

func (g *c02bgen) pick(xs ...string) string { return xs[g.rng.Intn(len(xs))] }

func (g *c02bgen) ws(min int) string {
	n := min + []int{0, 0, 0, 1, 2}[g.rng.Intn(5)]
	var sb strings.Builder
	for i := 0; i < n; i++ {
		sb.WriteString(g.pick(" ", " ", " ", "\n", "\t", "\r\n", "\r"))
	}
	return sb.String()
}

var c02bLocals = []string{"message", "presence", "iq", "body", "x", "a", "r", "query", "error", "stream", "features",
	"e-1", "n.2", "_u", "A9", "xmlns", "xml", "b"}
var c02bPrefixes = []string{"stream", "p", "q", "ns1", "xml", "xmlns", "u-1"}
var c02bURIs = []string{"jabber:client", "jabber:component:accept", "http://etherx.jabber.org/streams", "urn:xmpp:sm:3",
	"urn:u", "urn:v", "", "http://www.w3.org/XML/1998/namespace", "a b", "x&y"}

func (g *c02bgen) qname() string {
	r := g.rng
	l := c02bLocals[r.Intn(len(c02bLocals))]
	switch x := r.Intn(20); {
	case x < 6:
		return c02bPrefixes[r.Intn(len(c02bPrefixes))] + ":" + l
	case x == 6 && g.wild:
		return g.pick("a:b:c", ":a", "a:", "1a", "é", "aé", "-a", ".a", "a\xffb", "日本", "a:é", ":", "::")
	}
	return l
}

// text writes character data for the string s choosing a spelling per character
func (g *c02bgen) chars(s string, quote byte, sb *strings.Builder) {
	r := g.rng
	for _, c := range s {
		must := c == '<' || c == '&' || (quote != 0 && byte(c) == quote && c < 128)
		switch x := r.Intn(10); {
		case !must && x < 7:
			sb.WriteRune(c)
		case x < 8 || must && x < 5:
			switch c {
			case '<':
				sb.WriteString("&lt;")
			case '>':
				sb.WriteString("&gt;")
			case '&':
				sb.WriteString("&amp;")
			case '\'':
				sb.WriteString("&apos;")
			case '"':
				sb.WriteString("&quot;")
			default:
				fmt.Fprintf(sb, "&#%d;", c)
			}
		case x < 9:
			fmt.Fprintf(sb, "&#x%s%X;", g.pick("", "", "0", "000"), c)
		default:
			fmt.Fprintf(sb, "&#%s%d;", g.pick("", "00"), c)
		}
	}
}

var c02bTexts = []string{"hi", "a&b", "<tag/>", "x y", "42", " ", "é日", "]]>", "'q'\"", "a]]b>", "\n\t", "&amp;", "𝄞 astral", "]", "]]", ">", "a\rb", "a\r\nb", "\r", "tab\there", "\u00a0\u2028", "\ufffd", "-->", "?>"}

func (g *c02bgen) text(sb *strings.Builder) {
	r := g.rng
	s := c02bTexts[r.Intn(len(c02bTexts))]
	if g.wild && r.Intn(6) == 0 {
		sb.WriteString(g.pick("&bogus;", "&#;", "&#x;", "&#xD800;", "&#0;", "&#x110000;", "&#99999999999999999999999;", "&amp", "& ", "&;", "&#65", "&#x41 ;",
			"&#X41;", "&lt", "]]>", "\x00", "\x0b", "\xff", "\xc3", "\xed\xa0\x80", "\xf4\x90\x80\x80", "\xc0\xaf", "\uffff", "\ufffe", "&#xFFFE;", "&#1;", "&é;", "&a.b-c;", "&quot;&apos;",
			"\xf4\x8f\xbc\x80", "&#xd;&#10;", "&#x00000000000000041;"))
		g.st.Inc("bytes_wild_text")
		return
	}
	g.chars(s, 0, sb)
}

func (g *c02bgen) attr(sb *strings.Builder) {
	r := g.rng
	name := g.qname()
	val := g.pick("i1", "chat", "a@b/c", "", "x&y", "<", "'\"", "é", "a  b", "\t", "a\nb", "a\r\nb", ">", "]]>", "𝄞")
	switch r.Intn(8) {
	case 0:
		name = "xmlns"
		val = c02bURIs[r.Intn(len(c02bURIs))]
	case 1:
		name = "xmlns:" + c02bPrefixes[r.Intn(len(c02bPrefixes))]
		val = c02bURIs[r.Intn(len(c02bURIs))]
	case 2:
		name = g.pick("id", "type", "to", "from", "xml:lang", "h")
	}
	q := byte('\'')
	if r.Intn(2) == 0 {
		q = '"'
	}
	sb.WriteString(name)
	sb.WriteString(g.ws(0))
	sb.WriteByte('=')
	sb.WriteString(g.ws(0))
	if g.wild && r.Intn(25) == 0 {
		sb.WriteString(g.pick("v", "'v", "\"v'", "'a<b'", "'a&b'", "'\xff'", "'\x01'", "", "'&#0;'"))
		g.st.Inc("bytes_wild_attr")
		return
	}
	sb.WriteByte(q)
	g.chars(val, q, sb)
	sb.WriteByte(q)
}

func (g *c02bgen) element(sb *strings.Builder, depth int) {
	r := g.rng
	name := g.qname()
	sb.WriteString("<" + name)
	na := []int{0, 0, 1, 1, 2, 3, 5}[r.Intn(7)]
	for i := 0; i < na; i++ {
		if g.wild && r.Intn(30) == 0 {
			sb.WriteString("") // attribute glued to what precedes it (Go accepts after a quoted value)
		} else {
			sb.WriteString(g.ws(1))
		}
		g.attr(sb)
	}
	sb.WriteString(g.ws(0))
	if r.Intn(3) == 0 {
		sb.WriteString("/>")
		return
	}
	sb.WriteString(">")
	if depth > 0 {
		g.content(sb, depth-1, []int{0, 1, 1, 2, 3, 4}[r.Intn(6)])
	}
	end := name
	if g.wild && r.Intn(15) == 0 {
		end = g.pick(g.qname(), "x:"+name, strings.ToUpper(name), "")
		g.st.Inc("bytes_wild_endtag")
	}
	sb.WriteString("</" + end + g.ws(0) + ">")
}

func (g *c02bgen) content(sb *strings.Builder, depth, n int) {
	r := g.rng
	for i := 0; i < n; i++ {
		switch x := r.Intn(100); {
		case x < 22:
			g.text(sb)
		case x < 28:
			sb.WriteString("<![CDATA[" + g.pick("", "x", "<a>&amp;", "]]", "] ]>", "a\r\nb", "é𝄞", "]]]") + "]]>")
			g.st.Inc("bytes_cdata")
		case x < 33:
			sb.WriteString("<!--" + g.pick("", "c", " a - b ", "<x>&y;", "é", "->", "\xff") + "-->")
			g.st.Inc("bytes_comment")
		case x < 37:
			sb.WriteString("<?" + g.pick("pi", "xml-stylesheet", "p:q", "xml", "XML", "x.y") + g.pick("", " ", " d", " a='1' ?", "\n?x?") + "?>")
			g.st.Inc("bytes_procinst")
		case x < 39 && g.wild:
			sb.WriteString(g.pick("<!DOCTYPE x>", "<!ENTITY a 'b'>", "<!-x>", "<![CDATA[x", "<![cdata[x]]>", "<!--a--b-->", "<!--a--->", "<?xml version='1.1'?>",
				"<?xml version='1.0' encoding='latin1'?>", "<?xml encoding='UTF-8'?>", "<?xml version=1.0 version='1.0'?>", "<? x?>", "<?1?>", "<>", "< a>", "</>", "<a b>", "<a b=>", "<a/ >", "<a / >",
				"<!DOCTYPE x [<!ELEMENT a (b)> <!-- c --> ]>", "<?xml encoding=\"Utf-8\"?>", "<?xml versionencoding='x'?>", "<?xml version=''?>", "<?xml version='1.0?>"))
			g.st.Inc("bytes_wild_markup")
		default:
			g.element(sb, depth)
		}
	}
}

const c02bHeader = "<?xml version='1.0'?><stream:stream xmlns='jabber:client' xmlns:stream='http://etherx.jabber.org/streams' id='s1' version='1.0'>"

func (g *c02bgen) document() []byte {
	var sb strings.Builder
	r := g.rng
	if r.Intn(4) > 0 {
		sb.WriteString(c02bHeader)
		g.content(&sb, 1+r.Intn(4), 1+r.Intn(4))
		if r.Intn(3) == 0 {
			sb.WriteString("</stream:stream>")
		}
	} else {
		g.content(&sb, 1+r.Intn(4), 1+r.Intn(3))
	}
	return []byte(sb.String())
}

func c02bCorrupt(rng *rand.Rand, base []byte) []byte {
	junk := []byte("<>/&;'\"= \x00\xff!?-[]x:#")
	b := append([]byte{}, base...)
	if len(b) == 0 {
		return b
	}
	p := rng.Intn(len(b))
	switch rng.Intn(4) {
	case 0:
		b[p] = junk[rng.Intn(len(junk))]
	case 1:
		b = append(b[:p], b[p+1:]...)
	case 2:
		b = append(b[:p], append([]byte{junk[rng.Intn(len(junk))]}, b[p:]...)...)
	default:
		b[p] = byte(rng.Intn(256))
	}
	return b
}

// c02bClass predicts from the Go side what the model will not cover (for the statistics only; the authoritative
// count is the number of `unsupported` answers of the Lean model, reported by the orchestrator).
func c02bClass(data []byte, obs string) string {
	switch {
	case strings.Contains(obs, ";D ") || strings.HasPrefix(obs, "D "):
		return "go_saw_directive"
	case !utf8.Valid(data):
		return "invalid_utf8_input"
	}
	return ""
}

func c02bytesCases(rng *rand.Rand, g0 *c02gen, full bool, st *Stats) []Case {
	var cases []Case
	id := 0
	add := func(tag string, inputs ...[]byte) {
		c := Case{ID: fmt.Sprintf("b%s%d", tag, id), Variant: []string{"bytes"}}
		id++
		for _, b := range inputs {
			c.Ops = append(c.Ops, []string{"tok", hx(string(b))})
			st.Inc("bytes_inputs")
			if !dryRun {
				o := c02bObserve(b, 1)
				if i := strings.LastIndex(o, "|"); i >= 0 {
					st.Inc("bytes_go_outcome_" + o[i+1:])
				} else {
					st.Inc("bytes_go_outcome_" + strings.Fields(o + " x")[0])
				}
				if k := c02bClass(b, o); k != "" {
					st.Inc("bytes_" + k)
				}
			}
		}
		cases = append(cases, c)
	}
	nf, nw, ntr, nco, nno := 1000, 600, 12, 3000, 600
	if full {
		nf, nw, ntr, nco, nno = 8000, 4000, 30, 20000, 4000
	}
	// 0. corpus: shapes that once needed a decision in the model
	for _, s := range []string{
		"", "x", "<a/>", "<a></a>", "<a>", "</a>", "<a></b>", "<p:a xmlns:p='u'></a>", "<p:a xmlns:p='u'></q:a>", "<a b='1' b='2'/>",
		"<a xmlns='u' xmlns=''><b/></a>", "<a xmlns:p='1' xmlns:p='2'><p:b p:c='d'/></a>", "<u:a/>", "<xml:a xml:b='c'/>", "<xmlns:a xmlns:b='c'/>",
		"<xmlns/>", "<a xmlns:xmlns='u'><xmlns:b/></a>", "<a xmlns:xml='u'><xml:b/></a>", "<a:/>", "<:a/>", "<a:b:c/>", "<a>]]></a>", "<a b=']]>'/>",
		"<a>&#xD800;</a>", "<a>&#0;</a>", "<a>\r\n\r</a>", "<a>&#13;\n</a>", "<a>x\r&amp;\ny</a>", "<![CDATA[]]>", "<![CDATA[a]]]]><![CDATA[>]]>", "<!---->", "<!--->",
		"<!-- - -->", "<?x?>", "<?xml?>", "<?xml version='1.0' encoding='UTF-8'?>", "<?xml version='1.0' encoding='utf-16'?>", "<?xml version=\"2.0\"?>",
		"text only", "<a/>tail", "<a/><b/>", "\xef\xbb\xbf<a/>", "<a\x00/>", "<a>\xff</a>", "<a><!--\xff--></a>", "<a b='\xc3\xa9'>\xc3\xa9</a>", "<\xc3\xa9/>",
		"<a b = 'c' d= \"e\"f='g' />", "<a\n>\n</a\n>", "<a b='&lt;&#60;&#x3c;'/>", "<a>&apos;&quot;&gt;</a>", "<a>&unknown;</a>", "<a>&#x110000;</a>", "<a>&#1114111;</a>",
		c02bHeader + "<message to='a'><body>hi</body></message></stream:stream>", c02bHeader + "<stream:features/><stream:error><x xmlns='urn:y'/></stream:error>",
	} {
		add("corpus", []byte(s))
	}
	st.Add("bytes_corpus", id)
	// 1. rendered forests of the C02 generator (the class of the round-trip theorem, canonical escaping)
	var bases [][]byte
	for i := 0; i < nf; i++ {
		variant := []string{"client", "component"}[rng.Intn(2)]
		hdr, def := c02header(variant)
		var sb strings.Builder
		sb.WriteString(hdr)
		n := 1 + rng.Intn(4)
		for j := 0; j < n; j++ {
			tp := c02top[rng.Intn(len(c02top))]
			g0.tree(tp.n, nil, 0, 1+rng.Intn(5), true).render(&sb, def)
		}
		if rng.Intn(3) == 0 {
			sb.WriteString("</stream:stream>")
		}
		b := []byte(sb.String())
		if i < 40 {
			bases = append(bases, b)
		}
		add("forest", b)
		st.Inc("bytes_rendered_forest")
	}
	// 2. documents written in varied spellings; `wild` ones include what must be rejected
	g := &c02bgen{rng: rng, st: st}
	for i := 0; i < nf; i++ {
		b := g.document()
		if i < 40 {
			bases = append(bases, b)
		}
		add("doc", b)
		st.Inc("bytes_varied_document")
	}
	gw := &c02bgen{rng: rng, st: st, wild: true}
	for i := 0; i < nw; i++ {
		b := gw.document()
		if i < 10 {
			bases = append(bases, b)
		}
		add("wild", b)
		st.Inc("bytes_wild_document")
	}
	// 3. every truncation offset of several streams (one case per stream)
	for i := 0; i < ntr; i++ {
		b := bases[rng.Intn(len(bases))]
		if len(b) > 700 {
			b = b[:700]
		}
		var ins [][]byte
		for off := 0; off <= len(b); off++ {
			ins = append(ins, b[:off])
		}
		add("trunc", ins...)
		st.Add("bytes_truncation_offsets", len(ins))
	}
	// 4. single-byte corruptions (1-2 per input)
	for i := 0; i < nco; i++ {
		b := c02bCorrupt(rng, bases[rng.Intn(len(bases))])
		if rng.Intn(3) == 0 {
			b = c02bCorrupt(rng, b)
		}
		add("corrupt", b)
		st.Inc("bytes_corruption")
	}
	// 5. noise over an XML-ish alphabet
	alpha := []string{"<", ">", "/", "&", ";", "'", "\"", "=", " ", "a", "b", ":", "!", "?", "-", "[", "]", "#", "x", "1", "\n", "\r", "amp", "lt", "CDATA[", "xmlns", "\xff", "é", "\x00"}
	for i := 0; i < nno; i++ {
		var sb strings.Builder
		n := rng.Intn(40)
		for j := 0; j < n; j++ {
			sb.WriteString(alpha[rng.Intn(len(alpha))])
		}
		add("noise", []byte(sb.String()))
		st.Inc("bytes_noise")
	}
	st.Note("byte level: every input is tokenized by encoding/xml (Strict, no CharsetReader) read whole, byte by byte, in random chunks and in random chunks behind bufio.NewReaderSize(…, 32768) as the transports do - the four token lists must be identical - and by the Lean model; compared: token kinds, resolved namespaces, local names, attributes with their resolved namespaces and values, text, comment and PI content, the number of tokens before the first error and its class (ok / unexpected EOF / other error)")
	_ = hex.EncodeToString
	_ = bytes.Equal
	return cases
}
