package main

import (
	"bytes"
	"encoding/base64"
	"encoding/xml"
	"errors"
	"fmt"
	"io"
	"math/rand"
	"strconv"
	"strings"

	xmpp "gosrc.io/xmpp"
	"gosrc.io/xmpp/stanza"
)

// C14: authSASL / authPlain on an in-memory io.ReadWriter.
//
//	auth <password|token> <user-hex> <secret-hex> <offered: hex,hex,… | ~> <ok|fail|zero> <reply-class> <reply-bytes-hex>
//	  => <class NextPacket gives the reply> <all bytes written, hex | ~> <mechanism attr, hex | ~> <element text, hex | ~> <ok|perm|err>
//	b64 <bytes-hex> => hex(base64.StdEncoding of the bytes)
type c14 struct{}

func init() { register("C14", c14{}) }

const c14nsSASL = "urn:ietf:params:xml:ns:xmpp-sasl"
const c14streamOpen = "<?xml version='1.0'?><stream:stream xmlns='jabber:client' xmlns:stream='http://etherx.jabber.org/streams' id='s1' version='1.0'>"

// c14rw is the socket: it records what is written (unless the write is made to fail).
type c14rw struct {
	mode    string
	written []byte
	nwrites int
}

func (r *c14rw) Write(p []byte) (int, error) {
	r.nwrites++
	switch r.mode {
	case "fail":
		return 0, errors.New("c14: write failed")
	case "zero":
		return 0, nil
	}
	r.written = append(r.written, p...)
	return len(p), nil
}
func (r *c14rw) Read(p []byte) (int, error) { return 0, io.EOF }

// c14parse reads the written bytes back with an independent decoder: exactly one <auth xmlns=sasl mechanism=…>
// element whose content is character data only.
func c14parse(b []byte) (mech, text string, ok bool) {
	d := xml.NewDecoder(bytes.NewReader(b))
	t, err := d.Token()
	if err != nil {
		return "", "", false
	}
	se, isStart := t.(xml.StartElement)
	if !isStart || se.Name.Space != c14nsSASL || se.Name.Local != "auth" {
		return "", "", false
	}
	nm := 0
	for _, a := range se.Attr {
		if a.Name.Local == "mechanism" && a.Name.Space == "" {
			mech = a.Value
			nm++
		}
	}
	if nm != 1 {
		return "", "", false
	}
	var sb strings.Builder
	for {
		t, err := d.Token()
		if err != nil {
			return "", "", false
		}
		switch x := t.(type) {
		case xml.CharData:
			sb.Write(x)
		case xml.EndElement:
			if _, err := d.Token(); err != io.EOF {
				return "", "", false // something follows the element
			}
			return mech, sb.String(), true
		default:
			return "", "", false // child element, comment, PI: markup inside the payload
		}
	}
}

func c14features(offered []string) (stanza.StreamFeatures, error) {
	var sb strings.Builder
	sb.WriteString(c14streamOpen)
	sb.WriteString("<stream:features><mechanisms xmlns='" + c14nsSASL + "'>")
	for _, m := range offered {
		sb.WriteString("<mechanism>")
		xml.EscapeText(&sb, []byte(m))
		sb.WriteString("</mechanism>")
	}
	sb.WriteString("</mechanisms></stream:features>")
	d := xml.NewDecoder(strings.NewReader(sb.String()))
	if _, err := stanza.InitStream(d); err != nil {
		return stanza.StreamFeatures{}, err
	}
	p, err := stanza.NextPacket(d)
	if err != nil {
		return stanza.StreamFeatures{}, err
	}
	f, ok := p.(stanza.StreamFeatures)
	if !ok {
		return stanza.StreamFeatures{}, errors.New("not features")
	}
	return f, nil
}

func c14class(reply string) string {
	d := xml.NewDecoder(strings.NewReader(c14streamOpen + reply))
	if _, err := stanza.InitStream(d); err != nil {
		return "nostream"
	}
	p, err := stanza.NextPacket(d)
	if err != nil {
		return "decodeError"
	}
	switch p.(type) {
	case stanza.SASLSuccess:
		return "success"
	case stanza.SASLFailure:
		return "failure"
	}
	return "other"
}

func c14offered(s string) []string {
	if s == "~" {
		return nil
	}
	var out []string
	for _, h := range strings.Split(s, ",") {
		out = append(out, unhx(h))
	}
	return out
}

func c14encOffered(ms []string) string {
	if len(ms) == 0 {
		return "~"
	}
	hs := make([]string, len(ms))
	for i, m := range ms {
		hs[i] = hx(m)
	}
	return strings.Join(hs, ",")
}

func c14opt(present bool, s string) string {
	if !present {
		return "~"
	}
	return hx(s)
}

func (c14) Exec(c Case) []string {
	if len(c.Variant) > 0 && c.Variant[0] == "neg" {
		// a whole negotiation: the real Client.connect against the scripted server of the negotiation checks
		return negProp{"C14"}.Exec(Case{ID: c.ID, Variant: c.Variant[1:], Ops: c.Ops})
	}
	var obs []string
	for _, op := range c.Ops {
		switch op[0] {
		case "auth":
			user, secret := unhx(op[2]), unhx(op[3])
			var cred xmpp.Credential
			if op[1] == "password" {
				cred = xmpp.Password(secret)
			} else {
				cred = xmpp.OAuthToken(secret)
			}
			f, err := c14features(c14offered(op[4]))
			if err != nil {
				obs = append(obs, "features-err")
				continue
			}
			reply := unhx(op[7])
			rw := &c14rw{mode: op[5]}
			dec := xml.NewDecoder(strings.NewReader(c14streamOpen + reply))
			if _, err := stanza.InitStream(dec); err != nil {
				obs = append(obs, "stream-err")
				continue
			}
			err = xmpp.VerifAuthSASL(rw, dec, f, user, cred)
			out := "ok"
			if err != nil {
				out = "err"
				if xmpp.VerifIsPermanent(err) {
					out = "perm"
				}
			}
			sent, mech, text := "~", "~", "~"
			if len(rw.written) > 0 {
				sent = hx(string(rw.written))
				m, t, ok := c14parse(rw.written)
				if ok {
					mech, text = hx(m), hx(t)
				} else {
					mech, text = "!", "!"
				}
			}
			obs = append(obs, strings.Join([]string{c14class(reply), sent, mech, text, out}, " "))
		case "b64":
			b := []byte(unhx(op[1]))
			obs = append(obs, hx(base64.StdEncoding.EncodeToString(b)))
		default:
			obs = append(obs, "bad-op")
		}
	}
	return obs
}

type c14reply struct{ class, bytes string }

func c14replies() []c14reply {
	s := func(x string) string { return strings.ReplaceAll(x, "NS", c14nsSASL) }
	return []c14reply{
		{"success", s("<success xmlns='NS'/>")},
		{"success", s(" \n<success xmlns=\"NS\">dj1hYmM=</success>")},
		{"failure", s("<failure xmlns='NS'><not-authorized/></failure>")},
		{"failure", s("<failure xmlns='NS'><temporary-auth-failure/><text xml:lang='en'>later</text></failure>")},
		{"failure", s("<failure xmlns='NS'/>")},
		{"failure", s("<failure xmlns='NS'><temporary-auth-failure/></failure>")},
		{"failure", s("<failure xmlns='NS'><text xml:lang='en'>try later</text><temporary-auth-failure/></failure>")},
		{"failure", s("<failure xmlns='NS'><credentials-expired/></failure>")},
		{"failure", s("<failure xmlns='NS'><account-disabled/><text>x</text></failure>")},
		{"failure", s("<failure xmlns='NS'><aborted/></failure><success xmlns='NS'/>")},
		{"other", "<stream:features><bind xmlns='urn:ietf:params:xml:ns:xmpp-bind'/></stream:features>"},
		{"other", "<stream:error><not-authorized xmlns='urn:ietf:params:xml:ns:xmpp-streams'/></stream:error>"},
		{"other", "<message from='a@b' to='c@d'><body>success</body></message>"},
		{"other", "<iq type='result' id='x'/>"},
		{"other", "<presence/>"},
		{"other", "<a xmlns='urn:xmpp:sm:3' h='1'/>"},
		{"other", "<enabled xmlns='urn:xmpp:sm:3' id='z'/>"},
		{"other", "<handshake xmlns='jabber:component:accept'/>"},
		{"other", "</stream:stream>"},
		{"decodeError", ""},
		{"decodeError", "<<<"},
		{"decodeError", s("<success xmlns='NS'")},
		{"decodeError", "<success/>"},
		{"decodeError", "<success xmlns='urn:ietf:params:xml:ns:xmpp-tls'/>"},
		{"decodeError", s("<success xmlns='NS'><unclosed></success>")},
		{"decodeError", s("<failure xmlns='NS'><not-authorized>")},
		{"decodeError", s("<challenge xmlns='NS'>cmVhbG0=</challenge>")},
		{"decodeError", "<proceed xmlns='urn:ietf:params:xml:ns:xmpp-tls'/>"},
		{"decodeError", "<unknown xmlns='urn:example'/>"},
		{"decodeError", "plain text, then nothing"},
	}
}

// c14negCases: every reply class to <auth/> (the server goes on answering whatever it replied), in every
// configuration of the steps around it, as whole negotiations over TCP (+TLS).
func c14negCases(st *Stats) []Case {
	var cases []Case
	n := 0
	bools := []bool{false, true}
	for _, insecure := range bools {
		for _, tlsOff := range bools {
			if !insecure && !tlsOff {
				continue // the TLS gate ends the negotiation before SASL
			}
			for _, mand := range bools {
				for _, smAdv := range bools {
					for _, auth := range []string{"success", "failure", "other", "undec"} {
						for _, after := range [][]string{{}, {"bind", "error"}, {"o3", "false"}} {
							s := happy(tlsOff, mand, smAdv).with("auth", auth).with(after...)
							cases = append(cases, Case{ID: fmt.Sprintf("neg%d", n),
								Variant: []string{"neg", "insecure=" + strconv.FormatBool(insecure), "sm=" + strconv.FormatBool(smAdv)},
								Ops:     [][]string{s.op()}})
							n++
							st.Inc("session_auth_" + auth)
						}
					}
				}
			}
		}
	}
	// the mechanism list in force: offered before TLS but not after, offered on the first connection but not on the
	// second one of the same client (the Session is re-used), never offered
	noMech := func(tls bool) string {
		if tls {
			return "1000"
		}
		return "0000"
	}
	add := func(insecure bool, ops ...[]string) {
		cases = append(cases, Case{ID: fmt.Sprintf("neg%d", n), Variant: []string{"neg", "insecure=" + strconv.FormatBool(insecure), "sm=false"}, Ops: ops})
		n++
		st.Inc("session_mechanism_list")
	}
	for _, insecure := range bools {
		add(insecure, happy(true, false, false).with("f2", "0000").op())                                  // PLAIN before TLS, nothing after
		add(insecure, happy(true, false, false).op(), happy(true, false, false).with("f2", "0000").op()) // second connection
		add(true, happy(false, false, false).op(), happy(false, false, false).with("f1", noMech(false)).op())
		add(insecure, happy(true, false, false).with("f1", noMech(true), "f2", "0000").op())
	}
	// the server binds the session under a JID whose local part is spelled differently from the configured one (case
	// folding, a different resource): the NEXT connection of the same client still authenticates with the configured
	// local part - the scripted server compares the payload with base64(NUL test NUL secret) on every connection
	for _, bound := range []string{"TEST@localhost/srv-res", "other@localhost/res", "test@localhost/" + strings.Repeat("r", 40)} {
		cases = append(cases, Case{ID: fmt.Sprintf("neg%d", n), Variant: []string{"neg", "insecure=true", "sm=false"},
			Ops: [][]string{happy(false, false, false).with("jid", hx(bound)).op(), happy(false, false, false).op(), happy(false, false, false).op()}})
		n++
		st.Inc("session_bound_jid_differs")
	}
	// a configuration value that already served another account (struct copy, Jid and credential replaced): the
	// payload is the NEW account's
	for _, insecure := range bools {
		cases = append(cases, Case{ID: fmt.Sprintf("neg%d", n),
			Variant: []string{"neg", "insecure=" + strconv.FormatBool(insecure), "sm=false", "cfgreuse=true"},
			Ops:     [][]string{happy(true, false, false).op(), happy(true, false, false).op()}})
		n++
		st.Inc("session_config_reused")
	}
	cases = append(cases, Case{ID: fmt.Sprintf("neg%d", n), Variant: []string{"neg", "insecure=true", "sm=true", "cfgreuse=true"},
		Ops: [][]string{happy(false, true, true).op()}})
	n++
	st.Inc("session_config_reused")
	// a bearer token instead of a password (X-OAUTH2): the payload is NUL + local part + NUL + token - not the bare JID -
	// on the first connection and on a reconnection
	for _, insecure := range bools {
		cases = append(cases, Case{ID: fmt.Sprintf("neg%d", n),
			Variant: []string{"neg", "insecure=" + strconv.FormatBool(insecure), "sm=false", "cred=token"},
			Ops:     [][]string{happy(true, false, false).op(), happy(true, false, false).op()}})
		n++
		st.Inc("session_token_credential")
	}
	// traffic logging on: what reaches the server is still exactly the payload (the stream logger sits between the
	// transport and the socket - before and after STARTTLS)
	for _, insecure := range bools {
		for _, tlsOff := range bools {
			if !insecure && !tlsOff {
				continue
			}
			for _, auth := range []string{"success", "failure"} {
				cases = append(cases, Case{ID: fmt.Sprintf("neg%d", n),
					Variant: []string{"neg", "insecure=" + strconv.FormatBool(insecure), "sm=false", "logger=true"},
					Ops:     [][]string{happy(tlsOff, false, false).with("auth", auth).op()}})
				n++
				st.Inc("session_auth_logged")
			}
		}
	}
	st.Note(fmt.Sprintf("%d whole negotiations: reply classes {success, failure, other element, undecodable/closed} to <auth/> x insecure x STARTTLS x session-mandatory x sm, the server answering every later step as if nothing had happened", n))
	return cases
}

func (c14) Generate(rng *rand.Rand, tier string, st *Stats) []Case {
	var cases []Case
	cases = append(cases, c14negCases(st)...)
	n := 0
	add := func(op ...string) {
		cases = append(cases, Case{ID: fmt.Sprintf("c%d", n), Ops: [][]string{op}})
		n++
	}
	replies := c14replies()
	auth := func(kind, user, secret string, offered []string, wmode string, r c14reply) {
		add("auth", kind, hx(user), hx(secret), c14encOffered(offered), wmode, r.class, hx(r.bytes))
		st.Inc("auth_" + kind)
		st.Inc("reply_" + r.class)
		st.Inc("write_" + wmode)
	}
	kinds := []string{"password", "token"}

	// corpus
	auth("password", "juliet", "r0m30myr0m30", []string{"PLAIN"}, "ok", replies[0])
	auth("password", "juliet", "r0m30myr0m30", []string{"SCRAM-SHA-1", "X-OAUTH2"}, "ok", replies[0])
	auth("token", "juliet", "tok", []string{"PLAIN", "X-OAUTH2"}, "ok", replies[2])
	auth("password", "a\x00b", "\x00", []string{"PLAIN"}, "ok", replies[0])
	auth("password", "<&>\"'", "</auth><success xmlns='"+c14nsSASL+"'/>", []string{"PLAIN"}, "ok", replies[8])
	auth("password", "", "", []string{"PLAIN"}, "ok", replies[0])
	auth("password", "u", "p", nil, "ok", replies[0])
	auth("password", "u", "p", []string{"PLAIN"}, "fail", replies[0])
	auth("password", "u", "p", []string{"PLAIN"}, "zero", replies[0])

	// bounded exhaustive 1: every server list of length 0..4 over {PLAIN, X-OAUTH2, SCRAM-SHA-1, junk} (order and
	// duplicates included) x both credential kinds x every reply; the junk name rotates
	junk := []string{"", "plain", "PLAIN ", " PLAIN", "PLAINX", "X-OAUTH", "x-oauth2", "ANONYMOUS", "EXTERNAL", "<&>", "PLAIN ", "X-OAUTH2\n", "DIGEST-MD5", "ПЛАИН"}
	base := []string{"PLAIN", "X-OAUTH2", "SCRAM-SHA-1", "?"}
	maxLen := 4
	nl := 0
	var lists [][]string
	var rec func(cur []string)
	rec = func(cur []string) {
		lists = append(lists, append([]string(nil), cur...))
		if len(cur) == maxLen {
			return
		}
		for _, b := range base {
			rec(append(cur, b))
		}
	}
	rec(nil)
	for _, l := range lists {
		for _, k := range kinds {
			for ri, r := range replies {
				if tier != "thorough" && len(l) == 4 && (nl+ri)%4 != 0 {
					continue // quick tier: a quarter of the replies for the 256 longest lists
				}
				off := make([]string, len(l))
				for i, m := range l {
					if m == "?" {
						m = junk[(nl+i)%len(junk)]
					}
					off[i] = m
				}
				auth(k, "user", "secret", off, "ok", r)
			}
		}
		nl++
	}
	st.Exhaustive = true
	st.Note(fmt.Sprintf("every mechanism list of length 0..4 over {PLAIN, X-OAUTH2, SCRAM-SHA-1, junk} (%d lists, order and duplicates) x 2 credential kinds x %d replies (quick tier: a quarter of the replies for length 4)", len(lists), len(replies)))

	// bounded exhaustive 2: every single byte value as user and as secret; every (len user, len secret) in 0..12 x 0..12
	for b := 0; b < 256; b++ {
		auth(kinds[b%2], string([]byte{byte(b)}), "s", []string{"PLAIN", "X-OAUTH2"}, "ok", replies[b%2*2])
		auth(kinds[(b+1)%2], "u", string([]byte{byte(b)}), []string{"X-OAUTH2", "PLAIN"}, "ok", replies[0])
		st.Inc("single_byte")
	}
	rb := func(n int) string {
		b := make([]byte, n)
		for i := range b {
			switch rng.Intn(4) {
			case 0:
				b[i] = []byte{0, 0xff, '<', '>', '&', '"', '\'', '=', 0x80, 0xc3, 0x7f, '\n', '\t', ' '}[rng.Intn(14)]
			default:
				b[i] = byte(rng.Intn(256))
			}
		}
		return string(b)
	}
	for ul := 0; ul <= 12; ul++ {
		for sl := 0; sl <= 12; sl++ {
			auth(kinds[(ul+sl)%2], rb(ul), rb(sl), []string{"PLAIN", "X-OAUTH2"}, "ok", replies[0])
			st.Inc(fmt.Sprintf("pad_residue_%d", (2+ul+sl)%3))
		}
	}
	st.Note("every byte value 0..255 as a one-byte user and as a one-byte secret; every length pair 0..12 x 0..12 (all three padding residues)")

	// write failures x replies
	for _, w := range []string{"fail", "zero"} {
		for _, k := range kinds {
			for _, r := range replies {
				auth(k, "u", "p", []string{"PLAIN", "X-OAUTH2"}, w, r)
			}
		}
	}

	// random structured
	R := 3000
	if tier == "thorough" {
		R = 60000
	}
	utf := []string{"jul", "ié", "日本", "😀", "\u0000", "ÿ", "a b", "\"", "'", "<", "&amp;", "]]>", "\xff", "\xc3", "\xed\xa0\x80", "="}
	mix := func() string {
		switch rng.Intn(4) {
		case 0:
			return rb(rng.Intn(65))
		case 1:
			var sb strings.Builder
			for i, k := 0, rng.Intn(8); i < k; i++ {
				sb.WriteString(utf[rng.Intn(len(utf))])
			}
			return sb.String()
		case 2:
			return rb(rng.Intn(8))
		default:
			return rb(60 + rng.Intn(1200))
		}
	}
	names := append([]string{"PLAIN", "X-OAUTH2", "SCRAM-SHA-1", "SCRAM-SHA-1-PLUS", "PLAIN", "X-OAUTH2"}, junk...)
	for i := 0; i < R; i++ {
		var off []string
		for j, k := 0, rng.Intn(7); j < k; j++ {
			off = append(off, names[rng.Intn(len(names))])
		}
		w := "ok"
		if rng.Intn(12) == 0 {
			w = []string{"fail", "zero"}[rng.Intn(2)]
		}
		auth(kinds[rng.Intn(2)], mix(), mix(), off, w, replies[rng.Intn(len(replies))])
		st.Inc("auth_random")
	}

	// base64: the Lean b64enc against encoding/base64
	b64 := func(b []byte) {
		add("b64", hx(string(b)))
		st.Inc("b64")
	}
	b64(nil)
	for a := 0; a < 256; a++ {
		b64([]byte{byte(a)})
	}
	edge := []byte{0, 1, 3, 4, 15, 16, 63, 64, 127, 128, 252, 255}
	for _, a := range edge {
		for _, b := range edge {
			b64([]byte{a, b})
			for _, c := range edge {
				b64([]byte{a, b, c})
			}
		}
	}
	if tier == "thorough" {
		for a := 0; a < 256; a++ {
			for b := 0; b < 256; b++ {
				b64([]byte{byte(a), byte(b)})
			}
		}
	}
	for l := 0; l <= 130; l++ {
		b64([]byte(rb(l)))
	}
	B := 2000
	if tier == "thorough" {
		B = 40000
	}
	for i := 0; i < B; i++ {
		b := make([]byte, rng.Intn(200))
		rng.Read(b)
		b64(b)
	}
	st.Note("b64: every 1-byte string, 12^2 + 12^3 boundary pairs/triples, every length 0..130, random strings to 200 bytes (thorough: every 2-byte string)")
	return cases
}
