package main

import (
	"context"
	"encoding/xml"
	"errors"
	"fmt"
	"io"
	"math/rand"
	"net"
	"net/http"
	"os"
	"strconv"
	"strings"
	"sync"
	"time"

	xmpp "gosrc.io/xmpp"
	"gosrc.io/xmpp/stanza"
	"nhooyr.io/websocket"
)

// C08: the send paths. (1) sequential sends through a scripted net.Conn (ok / error / short write), with and
// without stream logger and stream management; (2) concurrent senders over real TCP, WebSocket and the stub, client
// and component, the server re-parsing the wire.
type c08 struct{}

func init() { register("C08", c08{}) }

// scriptConn is a net.Conn whose Write results are scripted; it records every Write call.
type scriptConn struct {
	mu     sync.Mutex
	calls  [][]byte
	script []string // per call: ok | err | short
}

func (c *scriptConn) Write(p []byte) (int, error) {
	c.mu.Lock()
	defer c.mu.Unlock()
	c.calls = append(c.calls, append([]byte(nil), p...))
	r := "ok"
	if len(c.script) > 0 {
		r, c.script = c.script[0], c.script[1:]
	}
	switch r {
	case "err":
		return 0, errors.New("scripted write error")
	case "short":
		if len(p) > 1 {
			return len(p) - 1, nil // a broken writer: fewer bytes, no error
		}
	}
	return len(p), nil
}
func (c *scriptConn) Read(p []byte) (int, error)         { return 0, io.EOF }
func (c *scriptConn) Close() error                       { return nil }
func (c *scriptConn) LocalAddr() net.Addr                { return &net.TCPAddr{} }
func (c *scriptConn) RemoteAddr() net.Addr               { return &net.TCPAddr{} }
func (c *scriptConn) SetDeadline(t time.Time) error      { return nil }
func (c *scriptConn) SetReadDeadline(t time.Time) error  { return nil }
func (c *scriptConn) SetWriteDeadline(t time.Time) error { return nil }

// c08resume: whether the clients built by c08client have Config.streamManagementResume set (a resumable session).
var c08resume bool

func c08client(sm, logger bool, conn net.Conn) (*xmpp.Client, *os.File, error) {
	cfg := &xmpp.Config{TransportConfiguration: xmpp.TransportConfiguration{Address: "127.0.0.1:1", Domain: "localhost"},
		Jid: "u@localhost/r", Credential: xmpp.Password("p"), StreamManagementEnable: sm}
	xmpp.VerifSetSMResume(cfg, c08resume)
	var lf *os.File
	if logger {
		lf, _ = os.OpenFile(os.DevNull, os.O_WRONLY, 0)
		cfg.StreamLogger = lf
	}
	client, err := xmpp.NewClient(cfg, xmpp.NewRouter(), func(error) {})
	if err != nil {
		return nil, nil, err
	}
	xt := xmpp.VerifTransport(client).(*xmpp.XMPPTransport)
	xmpp.VerifXMPPTransportSetConn(xt, conn)
	client.Session = &xmpp.Session{}
	if sm {
		client.Session.SMState = xmpp.SMState{Id: "sm", UnAckQueue: stanza.NewUnAckQueue()}
	}
	return client, lf, nil
}

func (c08) Exec(c Case) []string {
	v := opMap(c.Variant)
	sm, logger := v["sm"] == "true", v["logger"] == "true"
	c08resume = v["resume"] == "true"
	component := v["who"] == "component"
	var obs []string
	var seq *scriptConn
	var client *xmpp.Client
	var comp *xmpp.Component
	for _, op := range c.Ops {
		switch op[0] {
		case "wsfail":
			obs = append(obs, c08wsfail(sm))
			continue
		case "send", "sendraw", "sendiq":
			if client == nil && comp == nil {
				seq = &scriptConn{}
				if component {
					var err error
					comp, err = xmpp.NewComponent(xmpp.ComponentOptions{TransportConfiguration: xmpp.TransportConfiguration{Address: "127.0.0.1:1", Domain: "comp.localhost"},
						Domain: "comp.localhost", Secret: "s"}, xmpp.NewRouter(), func(error) {})
					if err != nil {
						return []string{"newcomponent-failed"}
					}
					t, err := xmpp.NewComponentTransport(xmpp.TransportConfiguration{Address: "127.0.0.1:1", Domain: "comp.localhost"})
					if err != nil {
						return []string{"newtransport-failed"}
					}
					xmpp.VerifXMPPTransportSetConn(t.(*xmpp.XMPPTransport), seq)
					xmpp.VerifSetComponentTransport(comp, t)
				} else {
					var err error
					var lf *os.File
					client, lf, err = c08client(sm, logger, seq)
					if err != nil {
						return []string{"newclient-failed"}
					}
					if lf != nil {
						defer lf.Close()
					}
				}
			}
			if comp != nil {
				seq.mu.Lock()
				seq.calls = nil
				seq.script = []string{op[len(op)-1]}
				seq.mu.Unlock()
				var err error
				if op[0] == "send" {
					err = comp.Send(c10packet(op[1], unhx(op[2])))
				} else {
					err = comp.SendRaw(unhx(op[1]))
				}
				seq.mu.Lock()
				calls := c10hexes(seq.calls)
				seq.mu.Unlock()
				ret := "ok"
				if err != nil {
					ret = "err"
				}
				obs = append(obs, "w:"+calls+"|ret:"+ret+"|q:0")
				continue
			}
			seq.mu.Lock()
			seq.calls = nil
			seq.script = []string{op[len(op)-1]}
			seq.mu.Unlock()
			var err error
			if op[0] == "send" {
				err = client.Send(c10packet(op[1], unhx(op[2])))
			} else if op[0] == "sendiq" {
				// SendIQ: also when a request with the same id is still pending, the request goes on the wire
				iq, _ := stanza.NewIQ(stanza.Attrs{Type: stanza.IQTypeGet, Id: unhx(op[1]), To: "srv"})
				iq.Payload = &stanza.Version{}
				ctx, cancel := context.WithCancel(context.Background())
				defer cancel()
				_, err = client.SendIQ(ctx, iq)
			} else {
				err = client.SendRaw(unhx(op[1]))
			}
			seq.mu.Lock()
			calls := c10hexes(seq.calls)
			seq.mu.Unlock()
			ret := "ok"
			if err != nil {
				ret = "err"
			}
			q := 0
			if uq := client.Session.SMState.UnAckQueue; uq != nil {
				q = len(uq.Uslice)
			}
			obs = append(obs, "w:"+calls+"|ret:"+ret+"|q:"+strconv.Itoa(q))
		case "stress":
			g, _ := strconv.Atoi(op[3])
			k, _ := strconv.Atoi(op[4])
			obs = append(obs, c08stress(op[1], op[2], g, k, sm, logger))
		default:
			obs = append(obs, "bad-op")
		}
	}
	return obs
}

// c08wsfail: a client on the WebSocket transport whose peer has closed the connection: Send and SendRaw must report
// the failure (WebsocketTransport.Write returns the full length together with the error).
func c08wsfail(sm bool) string {
	mux := http.NewServeMux()
	gone := make(chan struct{})
	mux.HandleFunc("/", func(w http.ResponseWriter, r *http.Request) {
		c, err := websocket.Accept(w, r, &websocket.AcceptOptions{Subprotocols: []string{"xmpp"}})
		if err != nil {
			return
		}
		ctx := context.Background()
		if _, _, err := c.Read(ctx); err == nil {
			c.Write(ctx, websocket.MessageText, []byte(`<open xmlns="urn:ietf:params:xml:ns:xmpp-framing" id="ws1" from="localhost" version="1.0"/>`))
			c.Read(ctx) // the first stanza
		}
		c.Close(websocket.StatusGoingAway, "bye")
		close(gone)
	})
	ln, err := net.Listen("tcp", "127.0.0.1:0")
	if err != nil {
		return "listen-failed"
	}
	srv := &http.Server{Handler: mux}
	go srv.Serve(ln)
	defer srv.Close()
	cfg := &xmpp.Config{TransportConfiguration: xmpp.TransportConfiguration{Address: "ws://" + ln.Addr().String() + "/", Domain: "localhost"},
		Jid: "u@localhost/r", Credential: xmpp.Password("p"), StreamManagementEnable: sm}
	client, err := xmpp.NewClient(cfg, xmpp.NewRouter(), func(error) {})
	if err != nil {
		return "newclient-failed"
	}
	if _, err := xmpp.VerifTransport(client).Connect(); err != nil {
		return "ws-connect-failed"
	}
	client.Session = &xmpp.Session{}
	if sm {
		client.Session.SMState = xmpp.SMState{Id: "sm", UnAckQueue: stanza.NewUnAckQueue()}
	}
	first := client.Send(stanza.Message{Attrs: stanza.Attrs{Id: "first", To: "a@b"}, Body: "x"})
	select {
	case <-gone:
	case <-time.After(3 * time.Second):
		return "server-did-not-close"
	}
	// the connection is closed: within a short while every send has to fail
	sendErr, rawErr := false, false
	deadline := time.Now().Add(3 * time.Second)
	for time.Now().Before(deadline) && !(sendErr && rawErr) {
		if client.Send(stanza.Message{Attrs: stanza.Attrs{Id: "late", To: "a@b"}, Body: "y"}) != nil {
			sendErr = true
		}
		if client.SendRaw("<presence id='late'/>") != nil {
			rawErr = true
		}
		time.Sleep(5 * time.Millisecond)
	}
	xmpp.VerifTransport(client).Close()
	return fmt.Sprintf("first=%v senderr=%v rawerr=%v", first == nil, sendErr, rawErr)
}

// ---- concurrent senders -----------------------------------------------------------------------------

type c08sink struct {
	mu      sync.Mutex
	got     []string // ids in arrival order
	garbled int
}

func (s *c08sink) element(id, body string) {
	s.mu.Lock()
	defer s.mu.Unlock()
	if body != c08body(id) {
		s.garbled++
	}
	s.got = append(s.got, id)
}

// c08body: every seventh stanza is larger than the buffers a chunking writer would use (4 KiB encoder buffer)
func c08body(id string) string {
	body := strings.Repeat(id+";", 3)
	h := 0
	for _, ch := range id {
		h = h*31 + int(ch)
	}
	if h%7 == 0 {
		body += strings.Repeat(id+"-0123456789abcdef;", 400)
	}
	return body
}

func c08iqBytes(id string) string {
	iq, _ := stanza.NewIQ(stanza.Attrs{Type: stanza.IQTypeGet, Id: id, To: "srv"})
	iq.Payload = &stanza.Version{}
	b, _ := xml.Marshal(iq)
	return string(b)
}

func c08payload(id string) (stanza.Packet, string) {
	body := c08body(id)
	return stanza.Message{Attrs: stanza.Attrs{Id: id, To: "a@b"}, Body: body},
		"<message id='" + id + "' to='a@b'><body>" + body + "</body></message>"
}

func c08stress(transport, who string, G, K int, sm, logger bool) string {
	sink := &c08sink{}
	var send func(p stanza.Packet) error
	var sendRaw func(s string) error
	var cleanup func()
	readDone := make(chan struct{})
	parse := func(r io.Reader) {
		defer close(readDone)
		dec := xml.NewDecoder(r)
		for {
			tok, err := dec.Token()
			if err != nil {
				return
			}
			if se, ok := tok.(xml.StartElement); ok && se.Name.Local == "message" {
				var m struct {
					ID   string `xml:"id,attr"`
					Body string `xml:"body"`
				}
				if dec.DecodeElement(&m, &se) != nil {
					sink.mu.Lock()
					sink.garbled++
					sink.mu.Unlock()
					return
				}
				sink.element(m.ID, m.Body)
			}
		}
	}
	switch {
	case transport == "tcp" && who == "client":
		ln, err := net.Listen("tcp", "127.0.0.1:0")
		if err != nil {
			return "listen-failed"
		}
		defer ln.Close()
		go func() {
			c, err := ln.Accept()
			if err != nil {
				close(readDone)
				return
			}
			parse(c)
		}()
		conn, err := net.Dial("tcp", ln.Addr().String())
		if err != nil {
			return "dial-failed"
		}
		client, lf, err := c08client(sm, logger, conn)
		if err != nil {
			return "newclient-failed"
		}
		send, sendRaw = client.Send, client.SendRaw
		cleanup = func() {
			conn.Close()
			if lf != nil {
				lf.Close()
			}
		}
	case transport == "tcp" && who == "component":
		ln, err := net.Listen("tcp", "127.0.0.1:0")
		if err != nil {
			return "listen-failed"
		}
		defer ln.Close()
		go func() {
			c, err := ln.Accept()
			if err != nil {
				close(readDone)
				return
			}
			// component handshake: header, then <handshake/>
			dec := xml.NewDecoder(c)
			for {
				tok, err := dec.Token()
				if err != nil {
					close(readDone)
					return
				}
				if se, ok := tok.(xml.StartElement); ok && se.Name.Local == "stream" {
					break
				}
			}
			c.Write([]byte("<?xml version='1.0'?><stream:stream xmlns='jabber:component:accept' xmlns:stream='http://etherx.jabber.org/streams' id='sid1' from='comp.localhost'>"))
			for {
				tok, err := dec.Token()
				if err != nil {
					close(readDone)
					return
				}
				if se, ok := tok.(xml.StartElement); ok && se.Name.Local == "handshake" {
					dec.Skip()
					break
				}
			}
			c.Write([]byte("<handshake/>"))
			defer close(readDone)
			for {
				tok, err := dec.Token()
				if err != nil {
					return
				}
				if se, ok := tok.(xml.StartElement); ok && se.Name.Local == "message" {
					var m struct {
						ID   string `xml:"id,attr"`
						Body string `xml:"body"`
					}
					if dec.DecodeElement(&m, &se) != nil {
						sink.mu.Lock()
						sink.garbled++
						sink.mu.Unlock()
						return
					}
					sink.element(m.ID, m.Body)
				}
			}
		}()
		comp, _ := xmpp.NewComponent(xmpp.ComponentOptions{TransportConfiguration: xmpp.TransportConfiguration{Address: ln.Addr().String(), Domain: "comp.localhost", ConnectTimeout: 1},
			Domain: "comp.localhost", Secret: "s"}, xmpp.NewRouter(), func(error) {})
		if err := comp.Connect(); err != nil {
			return "component-connect-failed"
		}
		send, sendRaw = comp.Send, comp.SendRaw
		cleanup = func() {
			if t := xmpp.VerifComponentTransport(comp); t != nil {
				if xt, ok := t.(*xmpp.XMPPTransport); ok {
					xt.Config.ConnectTimeout = 0
				}
			}
			comp.Disconnect()
		}
	case transport == "ws":
		// in-process WebSocket server: every message must be one whole stanza
		mux := http.NewServeMux()
		mux.HandleFunc("/", func(w http.ResponseWriter, r *http.Request) {
			c, err := websocket.Accept(w, r, &websocket.AcceptOptions{Subprotocols: []string{"xmpp"}})
			if err != nil {
				return
			}
			defer c.Close(websocket.StatusNormalClosure, "")
			c.SetReadLimit(1 << 20)
			ctx := context.Background()
			first := true
			for {
				_, data, err := c.Read(ctx)
				if err != nil {
					select {
					case <-readDone:
					default:
						close(readDone)
					}
					return
				}
				if first {
					first = false
					c.Write(ctx, websocket.MessageText, []byte(`<open xmlns="urn:ietf:params:xml:ns:xmpp-framing" id="ws1" from="localhost" version="1.0"/>`))
					continue
				}
				s := string(data)
				if strings.HasPrefix(s, "<close") {
					continue
				}
				var m struct {
					XMLName xml.Name `xml:"message"`
					ID      string   `xml:"id,attr"`
					Body    string   `xml:"body"`
				}
				if err := xml.Unmarshal(data, &m); err != nil {
					sink.mu.Lock()
					sink.garbled++ // a frame that is not exactly one whole stanza
					sink.mu.Unlock()
					continue
				}
				sink.element(m.ID, m.Body)
			}
		})
		ln, err := net.Listen("tcp", "127.0.0.1:0")
		if err != nil {
			return "listen-failed"
		}
		srv := &http.Server{Handler: mux}
		go srv.Serve(ln)
		defer srv.Close()
		cfg := &xmpp.Config{TransportConfiguration: xmpp.TransportConfiguration{Address: "ws://" + ln.Addr().String() + "/", Domain: "localhost"},
			Jid: "u@localhost/r", Credential: xmpp.Password("p"), StreamManagementEnable: sm}
		var lf *os.File
		if logger {
			lf, _ = os.OpenFile(os.DevNull, os.O_WRONLY, 0)
			cfg.StreamLogger = lf
		}
		client, err := xmpp.NewClient(cfg, xmpp.NewRouter(), func(error) {})
		if err != nil {
			return "newclient-failed"
		}
		if _, err := xmpp.VerifTransport(client).Connect(); err != nil {
			return "ws-connect-failed:" + strings.ReplaceAll(err.Error(), " ", "_")
		}
		client.Session = &xmpp.Session{}
		if sm {
			client.Session.SMState = xmpp.SMState{Id: "sm", UnAckQueue: stanza.NewUnAckQueue()}
		}
		send, sendRaw = client.Send, client.SendRaw
		cleanup = func() {
			xmpp.VerifTransport(client).Close()
			if lf != nil {
				lf.Close()
			}
		}
	default:
		return "bad-transport"
	}

	var wg sync.WaitGroup
	var emu sync.Mutex
	retErr := 0
	for g := 0; g < G; g++ {
		wg.Add(1)
		go func(g int) {
			defer wg.Done()
			for i := 0; i < K; i++ {
				id := fmt.Sprintf("g%d-%d", g, i)
				pkt, raw := c08payload(id)
				var err error
				if (g+i)%3 == 0 {
					err = sendRaw(raw)
				} else {
					err = send(pkt)
				}
				if err != nil {
					emu.Lock()
					retErr++
					emu.Unlock()
				}
			}
		}(g)
	}
	wg.Wait()
	// wait until the server has everything (or nothing more arrives)
	deadline := time.Now().Add(3 * time.Second)
	for time.Now().Before(deadline) {
		sink.mu.Lock()
		n := len(sink.got)
		sink.mu.Unlock()
		if n >= G*K {
			break
		}
		time.Sleep(2 * time.Millisecond)
	}
	cleanup()
	select {
	case <-readDone:
	case <-time.After(time.Second):
	}
	sink.mu.Lock()
	defer sink.mu.Unlock()
	seen := map[string]int{}
	last := map[string]int{}
	orderViol := 0
	for _, id := range sink.got {
		seen[id]++
		parts := strings.SplitN(id, "-", 2)
		if len(parts) == 2 {
			i, _ := strconv.Atoi(parts[1])
			if prev, ok := last[parts[0]]; ok && i <= prev {
				orderViol++
			}
			last[parts[0]] = i
		}
	}
	missing, dup := 0, 0
	for g := 0; g < G; g++ {
		for i := 0; i < K; i++ {
			n := seen[fmt.Sprintf("g%d-%d", g, i)]
			if n == 0 {
				missing++
			}
			if n > 1 {
				dup++
			}
		}
	}
	return fmt.Sprintf("count=%d missing=%d dup=%d garbled=%d order=%d reterr=%d", len(sink.got), missing, dup, sink.garbled, orderViol, retErr)
}

func (c08) Generate(rng *rand.Rand, tier string, st *Stats) []Case {
	var cases []Case
	n := 0
	bools := []bool{false, true}
	type vr struct {
		sm, lg, resume bool
		who            string
	}
	var variants []vr
	for _, sm := range bools {
		for _, lg := range bools {
			variants = append(variants, vr{sm, lg, false, "client"})
			if sm {
				variants = append(variants, vr{sm, lg, true, "client"}) // a resumable session: a failed write is still an error
			}
		}
	}
	variants = append(variants, vr{false, false, false, "component"})
	big := strings.Repeat("0123456789abcdef", 700) // > the 4 KiB buffer of an xml.Encoder, > one TLS record is not needed
	for _, vv := range variants {
		{
			sm, lg := vv.sm, vv.lg
			variant := []string{"sm=" + strconv.FormatBool(sm), "logger=" + strconv.FormatBool(lg), "resume=" + strconv.FormatBool(vv.resume), "who=" + vv.who}
			// sequential: every position of a write failure / short write in histories of sends
			L := 3
			var rec func(prefix [][]string, depth int)
			socks := []string{"ok", "err", "short"}
			cnt, rawCnt := 0, 0
			rec = func(prefix [][]string, depth int) {
				if depth == 0 {
					ops := append([][]string(nil), prefix...)
					cases = append(cases, Case{ID: fmt.Sprintf("c08-%d", n), Variant: variant, Ops: ops})
					n++
					return
				}
				for _, s := range socks {
					cnt++
					var op []string
					if (cnt+depth)%2 == 0 {
						body := fmt.Sprintf("m%d", cnt)
						if cnt%5 == 0 {
							body += big
						}
						b, _ := xml.Marshal(c10packet("message", body))
						op = []string{"send", "message", hx(body), hx(string(b)), s}
					} else {
						// raw strings are put on the wire as they are: also with printf verbs and escapes in them
						op = []string{"sendraw", hx(fmt.Sprintf("<presence id='p%d'><status>100%% %%s %%d %%!C(x) \\n</status></presence>", cnt)), s}
						rawCnt++
						if rawCnt%4 == 1 {
							// a raw string need not be an element: the white space "ping" goes on the wire as it is
							op = []string{"sendraw", hx([]string{" ", "\n", " \n\t ", "\r\n"}[(rawCnt/4)%4]), s}
						}
					}
					rec(append(prefix, op), depth-1)
				}
			}
			rec(nil, L)
			st.Add("sequential_histories", 27)
			if vv.who == "client" {
				// SendIQ, twice with the same id (the second while the first is pending), then a third id
				cases = append(cases, Case{ID: fmt.Sprintf("c08-%d", n), Variant: variant, Ops: [][]string{
					{"sendiq", hx("dup"), hx(c08iqBytes("dup")), "ok"}, {"sendiq", hx("dup"), hx(c08iqBytes("dup")), "ok"},
					{"sendiq", hx("other"), hx(c08iqBytes("other")), "err"}, {"sendiq", hx("dup"), hx(c08iqBytes("dup")), "ok"}}})
				n++
				if !vv.lg && !vv.resume {
					cases = append(cases, Case{ID: fmt.Sprintf("c08-%d", n), Variant: variant, Ops: [][]string{{"wsfail"}}})
					n++
				}
			}
			// concurrent
			if vv.resume || vv.who == "component" {
				continue
			}
			for _, tr := range []string{"tcp", "ws"} {
				for _, who := range []string{"client", "component"} {
					if tr == "ws" && who == "component" {
						continue // components do not support WebSocket (C20)
					}
					if who == "component" && (sm || lg) {
						continue // a component has neither
					}
					G, K := 8, 40
					if tier == "thorough" {
						G, K = 32, 200
					}
					cases = append(cases, Case{ID: fmt.Sprintf("c08-%d", n), Variant: variant,
						Ops: [][]string{{"stress", tr, who, strconv.Itoa(G), strconv.Itoa(K)}}})
					n++
					st.Inc("stress_" + tr + "_" + who)
				}
			}
		}
	}
	st.Exhaustive = true
	st.Note("for each of sm x logger: all 27 histories of 3 sends with the socket answering ok / error / short write at every position (through the real XMPPTransport + streamLogger on a scripted net.Conn); G goroutines x K stanzas (8x40 quick, 32x200 thorough; a third via SendRaw) over real TCP (client, component) and WebSocket (client), the server re-parsing the wire and checking whole stanzas, multiset and per-sender order")
	return cases
}
