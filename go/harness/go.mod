module verif/harness

go 1.21

require (
	gosrc.io/xmpp v0.0.0
	nhooyr.io/websocket v1.6.5
)

require (
	github.com/google/uuid v1.1.1 // indirect
	golang.org/x/xerrors v0.0.0-20190717185122-a985d3407aa7 // indirect
)

replace gosrc.io/xmpp => /repo
