module verif/harness

go 1.21

require gosrc.io/xmpp v0.0.0

require github.com/google/uuid v1.1.1 // indirect

replace gosrc.io/xmpp => /repo
