package main

import (
	"context"
	"errors"
	"fmt"
	"io"
	"math/rand"
	"crypto/tls"
	"net"
	"net/http"
	"strconv"
	"strings"
	"sync"
	"time"

	xmpp "gosrc.io/xmpp"
	"gosrc.io/xmpp/stanza"
	"nhooyr.io/websocket"
)

// C18: the real keepalive goroutine on a stub transport with controlled ping failures and session end.
type c18 struct{}

func init() { register("C18", c18{}) }

type kaTransport struct {
	*stubTransport
	mu       sync.Mutex
	pingAt   []time.Time
	failAt   int
	nclose   int
}

func (k *kaTransport) Ping() error {
	k.mu.Lock()
	defer k.mu.Unlock()
	k.pingAt = append(k.pingAt, time.Now())
	if k.failAt > 0 && len(k.pingAt) == k.failAt {
		return fmt.Errorf("stub: ping %d failed", k.failAt)
	}
	return nil
}
func (k *kaTransport) Close() error {
	k.mu.Lock()
	k.nclose++
	k.mu.Unlock()
	return nil
}

func c18run(intervalMs, failAt, quitAtMs int) string {
	tr := &kaTransport{stubTransport: newStub(nil), failAt: failAt}
	quit := make(chan struct{})
	done := make(chan struct{})
	start := time.Now()
	go func() {
		xmpp.VerifKeepalive(tr, time.Duration(intervalMs)*time.Millisecond, quit)
		close(done)
	}()
	var quitTime time.Time
	returned := false
	var retTime time.Time
	if quitAtMs > 0 {
		select {
		case <-done:
			returned, retTime = true, time.Now()
		case <-time.After(time.Duration(quitAtMs) * time.Millisecond):
			close(quit)
			quitTime = time.Now()
		}
	}
	if !returned {
		select {
		case <-done:
			returned, retTime = true, time.Now()
		case <-time.After(time.Duration(failAt+4)*time.Duration(intervalMs)*time.Millisecond + 2*time.Second):
		}
	}
	// watch for stray pings after the return
	time.Sleep(time.Duration(2*intervalMs) * time.Millisecond)
	tr.mu.Lock()
	defer tr.mu.Unlock()
	afterQuit, afterRet := 0, 0
	end := start
	for _, t := range tr.pingAt {
		if !quitTime.IsZero() && t.After(quitTime) {
			afterQuit++
		}
		if returned && t.After(retTime) {
			afterRet++
		}
	}
	switch {
	case failAt > 0 && len(tr.pingAt) >= failAt:
		end = tr.pingAt[failAt-1]
	case !quitTime.IsZero():
		end = quitTime
	default:
		end = time.Now()
	}
	// how long the goroutine took to notice the end of the session (a loaded machine delays it; every further interval
	// that passes meanwhile may produce one more tick that select can pick before it picks quit)
	quitLag := int64(0)
	if !quitTime.IsZero() && returned && retTime.After(quitTime) {
		quitLag = retTime.Sub(quitTime).Milliseconds()
	}
	return fmt.Sprintf("pings=%d closes=%d returned=%v afterquit=%d afterret=%d runms=%d quitlag=%d",
		len(tr.pingAt), tr.nclose, returned, afterQuit, afterRet, end.Sub(start).Milliseconds(), quitLag)
}

// deadConn: the stream header can be read, then the read side stays silent; the k-th keepalive write and every
// later write fail. Close unblocks the reader.
type deadConn struct {
	halfOpenConn
	failPing int
	pingAt   []time.Time
}

func (d *deadConn) Write(p []byte) (int, error) {
	d.mu.Lock()
	defer d.mu.Unlock()
	select {
	case <-d.closed:
		return 0, errClosedConn
	default:
	}
	if string(p) == "\n" {
		d.pingAt = append(d.pingAt, time.Now())
	}
	if len(d.pingAt) >= d.failPing {
		return 0, errors.New("harness: broken pipe")
	}
	return len(p), nil
}

// c18xrun: the real keepalive and the real receive loop of a Client on a real XMPPTransport over a dead connection.
func c18xrun(intervalMs, k int) string {
	errh, disc := 0, 0
	var mu sync.Mutex
	cfg := &xmpp.Config{TransportConfiguration: xmpp.TransportConfiguration{Address: "127.0.0.1:1", Domain: "localhost"},
		Jid: "u@localhost/r", Credential: xmpp.Password("p")}
	client, err := xmpp.NewClient(cfg, xmpp.NewRouter(), func(error) { mu.Lock(); errh++; mu.Unlock() })
	if err != nil {
		return "newclient-failed"
	}
	xt, ok := xmpp.VerifTransport(client).(*xmpp.XMPPTransport)
	if !ok {
		return "not-an-xmpp-transport"
	}
	xt.Config.ConnectTimeout = 0
	if k%2 == 0 {
		// the transport has had an earlier life (a client keeps ONE transport over its connections): a connection that
		// was closed - by Disconnect, after a failed attempt, after an earlier outage
		pre := &deadConn{failPing: 1000}
		pre.data = []byte("<?xml version='1.0'?><stream:stream xmlns='jabber:client' xmlns:stream='http://etherx.jabber.org/streams' version='1.0' id='s0'>")
		pre.rng, pre.max, pre.closed = rand.New(rand.NewSource(1)), 64, make(chan struct{})
		xmpp.VerifXMPPTransportSetConn(xt, pre)
		xt.Close()
	}
	dc := &deadConn{failPing: k}
	dc.data = []byte("<?xml version='1.0'?><stream:stream xmlns='jabber:client' xmlns:stream='http://etherx.jabber.org/streams' version='1.0' id='s1'>")
	dc.rng = rand.New(rand.NewSource(int64(k)))
	dc.max = 64
	dc.closed = make(chan struct{})
	xmpp.VerifXMPPTransportSetConn(xt, dc)
	if _, err := stanza.InitStream(xt.GetDecoder()); err != nil {
		return "initstream-failed"
	}
	client.SetHandler(func(e xmpp.Event) error {
		if xmpp.VerifEventState(e) == xmpp.StateDisconnected {
			mu.Lock()
			disc++
			mu.Unlock()
		}
		return nil
	})
	client.Session = &xmpp.Session{}
	quit := make(chan struct{})
	kdone, rdone := make(chan struct{}), make(chan struct{})
	go func() {
		defer close(kdone)
		xmpp.VerifKeepalive(xt, time.Duration(intervalMs)*time.Millisecond, quit)
	}()
	go func() {
		defer close(rdone)
		defer func() { recover() }()
		xmpp.VerifRecv(client, quit)
	}()
	returned := true
	deadline := time.Now().Add(time.Duration(k+4)*time.Duration(intervalMs)*time.Millisecond + 3*time.Second)
	for _, ch := range []chan struct{}{kdone, rdone} {
		select {
		case <-ch:
		case <-time.After(time.Until(deadline)):
			returned = false
		}
	}
	retTime := time.Now()
	time.Sleep(time.Duration(2*intervalMs) * time.Millisecond)
	dc.mu.Lock()
	pings, after := len(dc.pingAt), 0
	for _, t := range dc.pingAt {
		if returned && t.After(retTime) {
			after++
		}
	}
	closed := dc.nclosed > 0
	dc.mu.Unlock()
	dc.Close() // release a receive loop that is still blocked (it would leak into the next runs)
	mu.Lock()
	defer mu.Unlock()
	return fmt.Sprintf("pings=%d connclosed=%v errh=%d disc=%d returned=%v afterret=%d", pings, closed, errh, disc, returned, after)
}

// closingConn: the stream header, then - after a while - the server's </stream:stream>; every write succeeds.
type closingConn struct {
	halfOpenConn
	after  time.Duration
	start  time.Time
	sent   bool
	pingAt []time.Time
}

func (d *closingConn) Read(p []byte) (int, error) {
	d.mu.Lock()
	if len(d.data) > 0 {
		n := copy(p, d.data)
		d.data = d.data[n:]
		d.mu.Unlock()
		return n, nil
	}
	if d.sent {
		d.mu.Unlock()
		<-d.closed
		return 0, errClosedConn
	}
	d.mu.Unlock()
	select {
	case <-time.After(time.Until(d.start.Add(d.after))):
	case <-d.closed:
		return 0, errClosedConn
	}
	d.mu.Lock()
	d.sent = true
	d.mu.Unlock()
	return copy(p, "</stream:stream>"), nil
}

func (d *closingConn) Write(p []byte) (int, error) {
	d.mu.Lock()
	defer d.mu.Unlock()
	if string(p) == "\n" {
		d.pingAt = append(d.pingAt, time.Now())
	}
	return len(p), nil
}

// c18xclose: real keepalive + real receive loop on a real XMPPTransport; the server closes the stream gracefully.
func c18xclose(intervalMs, afterMs int) string {
	errh, disc := 0, 0
	var mu sync.Mutex
	cfg := &xmpp.Config{TransportConfiguration: xmpp.TransportConfiguration{Address: "127.0.0.1:1", Domain: "localhost"},
		Jid: "u@localhost/r", Credential: xmpp.Password("p")}
	client, err := xmpp.NewClient(cfg, xmpp.NewRouter(), func(error) { mu.Lock(); errh++; mu.Unlock() })
	if err != nil {
		return "newclient-failed"
	}
	xt, ok := xmpp.VerifTransport(client).(*xmpp.XMPPTransport)
	if !ok {
		return "not-an-xmpp-transport"
	}
	xt.Config.ConnectTimeout = 0
	dc := &closingConn{after: time.Duration(afterMs) * time.Millisecond, start: time.Now()}
	dc.data = []byte("<?xml version='1.0'?><stream:stream xmlns='jabber:client' xmlns:stream='http://etherx.jabber.org/streams' version='1.0' id='s1'>")
	dc.closed = make(chan struct{})
	xmpp.VerifXMPPTransportSetConn(xt, dc)
	if _, err := stanza.InitStream(xt.GetDecoder()); err != nil {
		return "initstream-failed"
	}
	client.SetHandler(func(e xmpp.Event) error {
		if xmpp.VerifEventState(e) == xmpp.StateDisconnected {
			mu.Lock()
			disc++
			mu.Unlock()
		}
		return nil
	})
	client.Session = &xmpp.Session{}
	quit := make(chan struct{})
	kdone, rdone := make(chan struct{}), make(chan struct{})
	go func() {
		defer close(kdone)
		xmpp.VerifKeepalive(xt, time.Duration(intervalMs)*time.Millisecond, quit)
	}()
	go func() {
		defer close(rdone)
		defer func() { recover() }()
		xmpp.VerifRecv(client, quit)
	}()
	returned := true
	deadline := time.Now().Add(time.Duration(afterMs+6*intervalMs)*time.Millisecond + 2*time.Second)
	for _, ch := range []chan struct{}{rdone, kdone} {
		select {
		case <-ch:
		case <-time.After(time.Until(deadline)):
			returned = false
		}
	}
	retTime := time.Now()
	time.Sleep(time.Duration(3*intervalMs) * time.Millisecond)
	dc.mu.Lock()
	pings, after := len(dc.pingAt), 0
	for _, t := range dc.pingAt {
		if t.After(retTime) {
			after++
		}
	}
	closed := dc.nclosed > 0
	dc.mu.Unlock()
	dc.Close()
	if !returned {
		// a keepalive that outlived the session: stop it, it would go on pinging during the next runs
		select {
		case <-quit:
		default:
			func() { defer func() { recover() }(); close(quit) }()
		}
	}
	mu.Lock()
	defer mu.Unlock()
	return fmt.Sprintf("pings=%d connclosed=%v errh=%d disc=%d returned=%v afterret=%d", pings, closed, errh, disc, returned, after)
}

// freezeConn: a server-side connection that can go silent without being closed - nothing more is read from it and
// what is written to it vanishes.
type freezeConn struct {
	net.Conn
	frozen chan struct{}
	gone   chan struct{}
}

func (f *freezeConn) Read(p []byte) (int, error) {
	select {
	case <-f.frozen:
		<-f.gone
		return 0, io.EOF
	default:
	}
	n, err := f.Conn.Read(p)
	select {
	case <-f.frozen:
		<-f.gone
		return 0, io.EOF
	default:
	}
	return n, err
}

func (f *freezeConn) Write(p []byte) (int, error) {
	select {
	case <-f.frozen:
		return len(p), nil
	default:
	}
	return f.Conn.Write(p)
}

type freezeListener struct {
	net.Listener
	frozen, gone chan struct{}
}

func (l *freezeListener) Accept() (net.Conn, error) {
	c, err := l.Listener.Accept()
	if err != nil {
		return nil, err
	}
	return &freezeConn{Conn: c, frozen: l.frozen, gone: l.gone}, nil
}

// c18wsdead: a WebSocket peer that silently stops answering (no pong, no TCP error): the keepalive's Ping runs into
// its timeout, which has to count as a failed keepalive - the transport is closed and the loss reported.
func c18wsdead(intervalMs, aliveMs int) string {
	stop := make(chan struct{})
	mux := http.NewServeMux()
	mux.HandleFunc("/", func(w http.ResponseWriter, r *http.Request) {
		conn, err := websocket.Accept(w, r, &websocket.AcceptOptions{Subprotocols: []string{"xmpp"}})
		if err != nil {
			return
		}
		ctx := context.Background()
		if _, _, err := conn.Read(ctx); err == nil { // the client's <open/>
			conn.Write(ctx, websocket.MessageText, []byte(`<open xmlns="urn:ietf:params:xml:ns:xmpp-framing" id="ws1" from="localhost" version="1.0"/>`))
			for { // pings are answered by the library while somebody reads - until the connection freezes
				if _, _, err := conn.Read(ctx); err != nil {
					break
				}
			}
		}
		<-stop
	})
	ln0, err := net.Listen("tcp", "127.0.0.1:0")
	if err != nil {
		return "listen-failed"
	}
	frozen, gone := make(chan struct{}), make(chan struct{})
	ln := &freezeListener{Listener: ln0, frozen: frozen, gone: gone}
	srv := &http.Server{Handler: mux}
	go srv.Serve(ln)
	defer srv.Close()
	defer close(stop)
	defer close(gone)
	// after a while the peer goes silent: no read, no pong, no FIN
	time.AfterFunc(time.Duration(aliveMs)*time.Millisecond, func() { close(frozen) })
	errh, disc := 0, 0
	var mu sync.Mutex
	cfg := &xmpp.Config{TransportConfiguration: xmpp.TransportConfiguration{Address: "ws://" + ln.Addr().String() + "/", Domain: "localhost"},
		Jid: "u@localhost/r", Credential: xmpp.Password("p")}
	client, err := xmpp.NewClient(cfg, xmpp.NewRouter(), func(error) { mu.Lock(); errh++; mu.Unlock() })
	if err != nil {
		return "newclient-failed"
	}
	raw := xmpp.VerifTransport(client)
	if _, err := raw.Connect(); err != nil {
		return "ws-connect-failed"
	}
	client.SetHandler(func(e xmpp.Event) error {
		if xmpp.VerifEventState(e) == xmpp.StateDisconnected {
			mu.Lock()
			disc++
			mu.Unlock()
		}
		return nil
	})
	client.Session = &xmpp.Session{}
	quit := make(chan struct{})
	kdone, rdone := make(chan struct{}), make(chan struct{})
	start := time.Now()
	go func() {
		defer close(kdone)
		xmpp.VerifKeepalive(raw, time.Duration(intervalMs)*time.Millisecond, quit)
	}()
	go func() {
		defer close(rdone)
		defer func() { recover() }()
		xmpp.VerifRecv(client, quit)
	}()
	returned := true
	// Ping gives up after 5 s (pingTimeout); allow twice that after the peer went silent
	deadline := start.Add(time.Duration(aliveMs)*time.Millisecond + 11*time.Second)
	for _, ch := range []chan struct{}{kdone, rdone} {
		select {
		case <-ch:
		case <-time.After(time.Until(deadline)):
			returned = false
		}
	}
	el := time.Since(start)
	if !returned {
		raw.Close() // release what is still blocked
		select {
		case <-quit:
		default:
			func() { defer func() { recover() }(); close(quit) }()
		}
	}
	mu.Lock()
	defer mu.Unlock()
	return fmt.Sprintf("returned=%v disc=%d errh=%d ms=%d", returned, disc, errh, el.Milliseconds())
}

// c18hookfail: Client.Resume on a connection the server confirms, but the application's PostResumeHook fails: Resume
// returns the error, no session is running - and so no keepalive may be running either, neither now nor next to the
// keepalive of a later successful Resume on the same client.
func c18hookfail(iv int) string {
	script := func() *stubTransport {
		st := newStub(strings.NewReader("<?xml version='1.0'?><stream:stream xmlns='jabber:client' xmlns:stream='http://etherx.jabber.org/streams' version='1.0' id='s2'>" +
			"<stream:features><mechanisms xmlns='urn:ietf:params:xml:ns:xmpp-sasl'><mechanism>PLAIN</mechanism></mechanisms></stream:features>" +
			"<success xmlns='urn:ietf:params:xml:ns:xmpp-sasl'/>" +
			"<stream:features><bind xmlns='urn:ietf:params:xml:ns:xmpp-bind'/></stream:features>" +
			"<iq type='result' id='x'><bind xmlns='urn:ietf:params:xml:ns:xmpp-bind'><jid>u@localhost/r</jid></bind></iq>"))
		stanza.InitStream(st.GetDecoder())
		return st
	}
	cfg := &xmpp.Config{Jid: "u@localhost/r", Credential: xmpp.Password("p"), Insecure: true, KeepaliveInterval: time.Duration(iv) * time.Millisecond}
	st1 := script()
	client, err := newStubClient(cfg, xmpp.NewRouter(), nil, st1)
	if err != nil {
		return "newclient-failed"
	}
	fail := true
	client.PostResumeHook = func() error {
		if fail {
			return errors.New("harness: post-resume hook failed")
		}
		return nil
	}
	type r struct{ err error }
	done := make(chan r, 1)
	go func() { done <- r{client.Resume()} }()
	var e1 error
	select {
	case x := <-done:
		e1 = x.err
	case <-time.After(3 * time.Second):
		return "hang"
	}
	time.Sleep(time.Duration(8*iv) * time.Millisecond)
	st1.mu.Lock()
	orphan := st1.pings
	st1.mu.Unlock()
	return fmt.Sprintf("resumeerr=%v orphanpings=%d", e1 != nil, orphan)
}

// c18lives: ONE client (made by NewClient alone) lives several sessions: Connect, a few keepalive periods, Disconnect,
// Connect again ... Every session is a STARTTLS session against a scripted server that counts the white space it
// receives inside TLS. "While a session is up the client writes a whitespace keepalive at the configured interval" -
// in every session of the client, not only in its first one.
// c18cfgInterval: the interval the client will use is the one the application configured, whatever the transport:
// NewClient fills in a default (30 s) only where none was given.
func c18cfgInterval(scheme string, ms int) string {
	addr := "127.0.0.1:1"
	if scheme != "tcp" {
		addr = scheme + "://127.0.0.1:1/"
	}
	cfg := &xmpp.Config{TransportConfiguration: xmpp.TransportConfiguration{Address: addr, Domain: "localhost"},
		Jid: "u@localhost/r", Credential: xmpp.Password("p"), KeepaliveInterval: time.Duration(ms) * time.Millisecond}
	if _, err := xmpp.NewClient(cfg, xmpp.NewRouter(), func(error) {}); err != nil {
		return "newclient-failed"
	}
	return fmt.Sprintf("interval=%d", cfg.KeepaliveInterval.Milliseconds())
}

func c18lives(intervalMs, lives int) string { return c18livesEnd(intervalMs, lives, false) }

// c18livesEnd with serverEnds: every session is ended by the SERVER (</stream:stream>), the application does what
// the StreamManager does (Resume on the Disconnected event) and never calls Disconnect in between: every end of a
// session is reported (one Disconnected event per life), so that the keepalive of that session stops.
func c18livesEnd(intervalMs, lives int, serverEnds bool) string {
	ln, err := net.Listen("tcp", "127.0.0.1:0")
	if err != nil {
		return "listen-failed"
	}
	defer ln.Close()
	cfg := &xmpp.Config{
		TransportConfiguration: xmpp.TransportConfiguration{Address: ln.Addr().String(), Domain: "localhost", TLSConfig: &tls.Config{RootCAs: getPKI().pool}},
		Jid:                    "test@localhost/res", Credential: xmpp.Password("secret"), ConnectTimeout: 2,
		KeepaliveInterval: time.Duration(intervalMs) * time.Millisecond,
	}
	client, err := xmpp.NewClient(cfg, xmpp.NewRouter(), func(error) {})
	if err != nil {
		return "newclient-failed"
	}
	var dmu sync.Mutex
	disc := 0
	client.SetHandler(func(e xmpp.Event) error {
		if xmpp.VerifEventState(e) == xmpp.StateDisconnected {
			dmu.Lock()
			disc++
			dmu.Unlock()
		}
		return nil
	})
	out := fmt.Sprintf("lives=%d", lives)
	for l := 1; l <= lives; l++ {
		sv := &negServer{m: happy(true, false, false)}
		var cmu sync.Mutex
		var srvConn net.Conn
		sv.after = func(kind string, conn net.Conn) {
			cmu.Lock()
			srvConn = conn
			cmu.Unlock()
		}
		srvDone := make(chan struct{})
		go func() {
			defer close(srvDone)
			c, err := ln.Accept()
			if err != nil {
				return
			}
			sv.serve(c)
		}()
		cerr := make(chan error, 1)
		go func() {
			defer func() {
				if r := recover(); r != nil {
					cerr <- fmt.Errorf("panic: %v", r)
				}
			}()
			if serverEnds && l > 1 {
				cerr <- client.Resume()
				return
			}
			cerr <- client.Connect()
		}()
		select {
		case e := <-cerr:
			if e != nil {
				return out + fmt.Sprintf(" connect%d=failed", l)
			}
			_ = e
		case <-time.After(10 * time.Second):
			return out + fmt.Sprintf(" connect%d=hang", l)
		}
		t0 := time.Now()
		time.Sleep(time.Duration(6*intervalMs) * time.Millisecond)
		if serverEnds {
			cmu.Lock()
			sc := srvConn
			cmu.Unlock()
			if sc == nil {
				return out + fmt.Sprintf(" noconn%d", l)
			}
			sc.Write([]byte("</stream:stream>"))
			// the end of the session is reported: wait for the l-th Disconnected event
			for dl := time.Now().Add(2 * time.Second); time.Now().Before(dl); time.Sleep(time.Millisecond) {
				dmu.Lock()
				d := disc
				dmu.Unlock()
				if d >= l {
					break
				}
			}
			dmu.Lock()
			out += fmt.Sprintf(" d%d=%d", l, disc)
			dmu.Unlock()
			sc.Close()
		} else {
			dd := make(chan struct{})
			go func() { defer close(dd); defer func() { recover() }(); client.Disconnect() }()
			select {
			case <-dd:
			case <-time.After(5 * time.Second):
				return out + fmt.Sprintf(" disconnect%d=hang", l)
			}
		}
		select {
		case <-srvDone:
		case <-time.After(3 * time.Second):
		}
		// the server's XML decoder hands the white space over when the next markup - the closing tag - arrives
		sv.mu.Lock()
		p := sv.pings
		sv.mu.Unlock()
		out += fmt.Sprintf(" p%d=%d t%d=%d", l, p, l, time.Since(t0).Milliseconds())
		time.Sleep(10 * time.Millisecond)
	}
	return out
}

func (c18) Exec(c Case) []string {
	obs := make([]string, len(c.Ops))
	var wg sync.WaitGroup
	for i, op := range c.Ops {
		if op[0] == "xrun" && len(op) == 3 {
			iv, _ := strconv.Atoi(op[1])
			k, _ := strconv.Atoi(op[2])
			wg.Add(1)
			go func(i int) {
				defer wg.Done()
				obs[i] = c18xrun(iv, k)
			}(i)
			continue
		}
		if op[0] == "wsdead" && len(op) == 3 {
			iv, _ := strconv.Atoi(op[1])
			al, _ := strconv.Atoi(op[2])
			wg.Add(1)
			go func(i int) {
				defer wg.Done()
				obs[i] = c18wsdead(iv, al)
			}(i)
			continue
		}
		if op[0] == "tlsrun" && len(op) == 3 {
			iv, _ := strconv.Atoi(op[1])
			tk, _ := strconv.Atoi(op[2])
			wg.Add(1)
			go func(i int) {
				defer wg.Done()
				obs[i] = tlsKeepalive(iv, tk)
			}(i)
			continue
		}
		if (op[0] == "lives" || op[0] == "liveserver") && len(op) == 3 {
			iv, _ := strconv.Atoi(op[1])
			nl, _ := strconv.Atoi(op[2])
			wg.Add(1)
			go func(i int, srvEnds bool) {
				defer wg.Done()
				obs[i] = c18livesEnd(iv, nl, srvEnds)
			}(i, op[0] == "liveserver")
			continue
		}
		if op[0] == "stale" && len(op) == 3 {
			iv, _ := strconv.Atoi(op[1])
			wg.Add(1)
			go func(i int, lives string) {
				defer wg.Done()
				// a supervised client whose keepalive ticks every few milliseconds, through losses with the server
				// refusing connections for a while: the real StreamManager, the fault-injecting server of C13
				obs[i] = c13runKA(time.Duration(iv)*time.Millisecond, false, false, "o", lives)
			}(i, op[2])
			continue
		}
		if op[0] == "cfginterval" && len(op) == 3 {
			ms, _ := strconv.Atoi(op[2])
			obs[i] = c18cfgInterval(op[1], ms)
			continue
		}
		if op[0] == "hookfail" && len(op) == 2 {
			iv, _ := strconv.Atoi(op[1])
			wg.Add(1)
			go func(i int) {
				defer wg.Done()
				obs[i] = c18hookfail(iv)
			}(i)
			continue
		}
		if op[0] == "xclose" && len(op) == 3 {
			iv, _ := strconv.Atoi(op[1])
			a, _ := strconv.Atoi(op[2])
			wg.Add(1)
			go func(i int) {
				defer wg.Done()
				obs[i] = c18xclose(iv, a)
			}(i)
			continue
		}
		if op[0] != "run" {
			obs[i] = "bad-op"
			continue
		}
		iv, _ := strconv.Atoi(op[1])
		fa, _ := strconv.Atoi(op[2])
		qa, _ := strconv.Atoi(op[3])
		wg.Add(1)
		go func(i int) {
			defer wg.Done()
			obs[i] = c18run(iv, fa, qa)
		}(i)
	}
	wg.Wait()
	return obs
}

func (c18) Generate(rng *rand.Rand, tier string, st *Stats) []Case {
	var cases []Case
	batches := 4
	if tier == "thorough" {
		batches = 30
	}
	n := 0
	for b := 0; b < batches; b++ {
		var ops [][]string
		// failure at the k-th keepalive for every k in 1..8, several intervals
		for k := 1; k <= 8; k++ {
			iv := []int{4, 7, 12}[(k+b)%3]
			ops = append(ops, []string{"run", strconv.Itoa(iv), strconv.Itoa(k), "0"})
			st.Inc("fail_at_k")
		}
		// session end at random phases relative to the ticker, no failure
		for j := 0; j < 12; j++ {
			iv := 3 + rng.Intn(18)
			q := 1 + rng.Intn(8*iv)
			ops = append(ops, []string{"run", strconv.Itoa(iv), "0", strconv.Itoa(q)})
			st.Inc("quit_random_phase")
		}
		// both: whichever comes first
		for j := 0; j < 6; j++ {
			iv := 3 + rng.Intn(10)
			ops = append(ops, []string{"run", strconv.Itoa(iv), strconv.Itoa(1 + rng.Intn(6)), strconv.Itoa(1 + rng.Intn(6*iv))})
			st.Inc("fail_or_quit")
		}
		// session end exactly on tick boundaries (select sees both channels ready)
		for j := 1; j <= 4; j++ {
			ops = append(ops, []string{"run", "5", "0", strconv.Itoa(5 * j)})
			st.Inc("quit_on_tick")
		}
		// the whole chain on a real XMPPTransport over a dead connection: k-th keepalive write fails, reads are silent
		for k := 1; k <= 4; k++ {
			ops = append(ops, []string{"xrun", strconv.Itoa([]int{4, 7, 12}[(k+b)%3]), strconv.Itoa(k)})
			st.Inc("dead_connection_real_transport")
		}
		// a WebSocket peer that goes silent (takes the 5 s ping timeout: once per run in the quick tier)
		if b == 0 || tier == "thorough" && b%5 == 0 {
			ops = append(ops, []string{"wsdead", "100", "300"})
			st.Inc("websocket_peer_goes_silent")
		}
		// keepalives of a STARTTLS session travel inside the TLS session
		ops = append(ops, []string{"tlsrun", strconv.Itoa([]int{15, 25, 40}[b%3]), "6"})
		st.Inc("keepalive_inside_tls")
		// the server closes the stream gracefully at various phases relative to the ticker
		for j := 0; j < 4; j++ {
			iv := []int{4, 7, 12}[(j+b)%3]
			ops = append(ops, []string{"xclose", strconv.Itoa(iv), strconv.Itoa([]int{0, iv / 2, iv, 3*iv + 1}[j])})
			st.Inc("server_closes_stream_real_transport")
		}
		// several sessions of one client, each with its keepalives (once per batch)
		ops = append(ops, []string{"lives", strconv.Itoa([]int{15, 25, 40}[b%3]), strconv.Itoa(2 + b%2)})
		st.Inc("sessions_of_one_client")
		// the same with sessions that the SERVER ends (</stream:stream>), the application resuming as the StreamManager does
		ops = append(ops, []string{"liveserver", strconv.Itoa([]int{15, 25, 40}[(b+1)%3]), strconv.Itoa(3 - b%2)})
		st.Inc("sessions_ended_by_the_server")
		// the interval the client uses is the configured one, on every transport
		for _, sch := range []string{"tcp", "ws", "wss"} {
			ops = append(ops, []string{"cfginterval", sch, strconv.Itoa([]int{0, 40, 1000, 4999, 5000, 30000, 60000}[(b+len(sch))%7])})
			st.Inc("configured_interval")
		}
		// F-18b: the keepalive of a lost session ticks while the StreamManager reconnects (connections refused for a
		// while): it must be gone by then - no crash on the transport without a connection, no Close of the new connection
		ops = append(ops, []string{"stale", strconv.Itoa([]int{3, 5, 8}[b%3]), []string{"drop:r,r,o", "graceful:r,o;drop:r,r,r,o", "drop:r,o;drop:r,o;drop:r,o"}[b%3]})
		st.Inc("keepalive_during_reconnection")
		// a Resume whose post-resume hook fails leaves no keepalive behind
		ops = append(ops, []string{"hookfail", strconv.Itoa([]int{4, 7, 12}[b%3])})
		st.Inc("resume_hook_fails")
		cases = append(cases, Case{ID: fmt.Sprintf("batch%d", n), Ops: ops})
		n++
	}
	st.Note("each batch runs its keepalive goroutines concurrently: failure at the k-th ping for every k in 1..8; session end at random phases and exactly on tick boundaries; both")
	return cases
}
