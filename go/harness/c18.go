package main

import (
	"fmt"
	"math/rand"
	"strconv"
	"sync"
	"time"

	xmpp "gosrc.io/xmpp"
)

// C18: the real keepalive goroutine on a stub transport with controlled ping failures and session end.
type c18 struct{}

func init() { register("C18", c18{}) }

type kaTransport struct {
	*stubTransport
	mu       sync.Mutex
	pingAt   []time.Time
	failAt   int
	nclose   int
}

func (k *kaTransport) Ping() error {
	k.mu.Lock()
	defer k.mu.Unlock()
	k.pingAt = append(k.pingAt, time.Now())
	if k.failAt > 0 && len(k.pingAt) == k.failAt {
		return fmt.Errorf("stub: ping %d failed", k.failAt)
	}
	return nil
}
func (k *kaTransport) Close() error {
	k.mu.Lock()
	k.nclose++
	k.mu.Unlock()
	return nil
}

func c18run(intervalMs, failAt, quitAtMs int) string {
	tr := &kaTransport{stubTransport: newStub(nil), failAt: failAt}
	quit := make(chan struct{})
	done := make(chan struct{})
	start := time.Now()
	go func() {
		xmpp.VerifKeepalive(tr, time.Duration(intervalMs)*time.Millisecond, quit)
		close(done)
	}()
	var quitTime time.Time
	returned := false
	var retTime time.Time
	if quitAtMs > 0 {
		select {
		case <-done:
			returned, retTime = true, time.Now()
		case <-time.After(time.Duration(quitAtMs) * time.Millisecond):
			close(quit)
			quitTime = time.Now()
		}
	}
	if !returned {
		select {
		case <-done:
			returned, retTime = true, time.Now()
		case <-time.After(time.Duration(failAt+4)*time.Duration(intervalMs)*time.Millisecond + 2*time.Second):
		}
	}
	// watch for stray pings after the return
	time.Sleep(time.Duration(2*intervalMs) * time.Millisecond)
	tr.mu.Lock()
	defer tr.mu.Unlock()
	afterQuit, afterRet := 0, 0
	end := start
	for _, t := range tr.pingAt {
		if !quitTime.IsZero() && t.After(quitTime) {
			afterQuit++
		}
		if returned && t.After(retTime) {
			afterRet++
		}
	}
	switch {
	case failAt > 0 && len(tr.pingAt) >= failAt:
		end = tr.pingAt[failAt-1]
	case !quitTime.IsZero():
		end = quitTime
	default:
		end = time.Now()
	}
	return fmt.Sprintf("pings=%d closes=%d returned=%v afterquit=%d afterret=%d runms=%d",
		len(tr.pingAt), tr.nclose, returned, afterQuit, afterRet, end.Sub(start).Milliseconds())
}

func (c18) Exec(c Case) []string {
	obs := make([]string, len(c.Ops))
	var wg sync.WaitGroup
	for i, op := range c.Ops {
		if op[0] != "run" {
			obs[i] = "bad-op"
			continue
		}
		iv, _ := strconv.Atoi(op[1])
		fa, _ := strconv.Atoi(op[2])
		qa, _ := strconv.Atoi(op[3])
		wg.Add(1)
		go func(i int) {
			defer wg.Done()
			obs[i] = c18run(iv, fa, qa)
		}(i)
	}
	wg.Wait()
	return obs
}

func (c18) Generate(rng *rand.Rand, tier string, st *Stats) []Case {
	var cases []Case
	batches := 4
	if tier == "thorough" {
		batches = 30
	}
	n := 0
	for b := 0; b < batches; b++ {
		var ops [][]string
		// failure at the k-th keepalive for every k in 1..8, several intervals
		for k := 1; k <= 8; k++ {
			iv := []int{4, 7, 12}[(k+b)%3]
			ops = append(ops, []string{"run", strconv.Itoa(iv), strconv.Itoa(k), "0"})
			st.Inc("fail_at_k")
		}
		// session end at random phases relative to the ticker, no failure
		for j := 0; j < 12; j++ {
			iv := 3 + rng.Intn(18)
			q := 1 + rng.Intn(8*iv)
			ops = append(ops, []string{"run", strconv.Itoa(iv), "0", strconv.Itoa(q)})
			st.Inc("quit_random_phase")
		}
		// both: whichever comes first
		for j := 0; j < 6; j++ {
			iv := 3 + rng.Intn(10)
			ops = append(ops, []string{"run", strconv.Itoa(iv), strconv.Itoa(1 + rng.Intn(6)), strconv.Itoa(1 + rng.Intn(6*iv))})
			st.Inc("fail_or_quit")
		}
		// session end exactly on tick boundaries (select sees both channels ready)
		for j := 1; j <= 4; j++ {
			ops = append(ops, []string{"run", "5", "0", strconv.Itoa(5 * j)})
			st.Inc("quit_on_tick")
		}
		cases = append(cases, Case{ID: fmt.Sprintf("batch%d", n), Ops: ops})
		n++
	}
	st.Note("each batch runs its keepalive goroutines concurrently: failure at the k-th ping for every k in 1..8; session end at random phases and exactly on tick boundaries; both")
	return cases
}
