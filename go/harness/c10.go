package main

import (
	"encoding/xml"
	"fmt"
	"math/rand"
	"strconv"
	"strings"

	xmpp "gosrc.io/xmpp"
	"gosrc.io/xmpp/stanza"
)

// C10: Client.Send / SendRaw / SendMissingStz with stream management active, on a stub transport.
type c10 struct{}

func init() { register("C10", c10{}) }

func c10packet(kind, param string) stanza.Packet {
	switch kind {
	case "message":
		return stanza.Message{Attrs: stanza.Attrs{To: "a@b", Id: param}, Body: param}
	case "presence":
		return stanza.Presence{Attrs: stanza.Attrs{Id: param}, Status: param}
	case "iq":
		iq, _ := stanza.NewIQ(stanza.Attrs{Type: stanza.IQTypeGet, Id: "i" + param, To: "srv"})
		iq.Payload = &stanza.Version{}
		return iq
	case "r":
		return stanza.SMRequest{}
	case "a":
		h, _ := strconv.Atoi(param)
		return stanza.SMAnswer{H: uint(h)}
	}
	return nil
}

func c10hexes(ws [][]byte) string {
	var p []string
	for _, w := range ws {
		p = append(p, hx(string(w)))
	}
	return strings.Join(p, ";")
}

func (c10) Exec(c Case) []string {
	st := newStub(nil)
	cfg := &xmpp.Config{Jid: "u@localhost/r", Credential: xmpp.Password("p"), StreamManagementEnable: true}
	router := xmpp.NewRouter()
	client, err := newStubClient(cfg, router, nil, st)
	if err != nil {
		return []string{"err:" + err.Error()}
	}
	client.Session = &xmpp.Session{SMState: xmpp.SMState{Id: "sm1", UnAckQueue: stanza.NewUnAckQueue()}}
	var obs []string
	for _, op := range c.Ops {
		switch op[0] {
		case "sendstanza", "sendnonza":
			client.Send(c10packet(op[1], unhx(op[2])))
		case "sendraw":
			client.SendRaw(unhx(op[1]))
		case "ack":
			h, _ := strconv.Atoi(op[1])
			xmpp.VerifRoute(router, client, stanza.SMAnswer{H: uint(h)})
		default:
			obs = append(obs, "bad-op")
			continue
		}
		obs = append(obs, "w:"+c10hexes(st.takeWrites())+"|q:"+c17slice(client.Session.SMState.UnAckQueue))
	}
	return obs
}

func c10op(kind, param string) []string {
	b, _ := xml.Marshal(c10packet(kind, param))
	tag := "sendstanza"
	if kind == "r" || kind == "a" {
		tag = "sendnonza"
	}
	return []string{tag, kind, hx(param), hx(string(b))}
}

func (c10) Generate(rng *rand.Rand, tier string, st *Stats) []Case {
	var cases []Case
	n := 0
	mk := func(id string, ops [][]string) {
		cases = append(cases, Case{ID: id, Ops: ops})
	}
	// corpus: the design's witnesses for F-10
	mk("corpus-ack1", [][]string{{"sendraw", hx("<x/>")}, {"sendraw", hx("<y/>")}, {"ack", "1"}})
	mk("corpus-stale", [][]string{{"sendraw", hx("<x/>")}, {"ack", "1"}, {"sendraw", hx("<y/>")}, {"ack", "1"}, {"ack", "2"}})
	mk("corpus-answer-not-held", [][]string{c10op("a", "3"), c10op("r", ""), {"ack", "0"}})
	// bounded-exhaustive: all histories of length <= L over a small alphabet
	uniq := 0
	alpha := []func() []string{
		func() []string { uniq++; return []string{"sendraw", hx(fmt.Sprintf("<s%d/>", uniq))} },
		func() []string { uniq++; return c10op("message", fmt.Sprintf("m%d", uniq)) },
		func() []string { return c10op("r", "") },
		func() []string { return c10op("a", "1") },
		func() []string { return []string{"ack", "0"} },
		func() []string { return []string{"ack", "1"} },
		func() []string { return []string{"ack", "2"} },
		func() []string { return []string{"ack", "9"} },
	}
	L := 4
	if tier == "thorough" {
		L = 5
	}
	var rec func(prefix []int, depth int)
	rec = func(prefix []int, depth int) {
		if depth == 0 {
			uniq = 0
			var ops [][]string
			for _, i := range prefix {
				ops = append(ops, alpha[i]())
			}
			mk(fmt.Sprintf("ex%d", n), ops)
			n++
			return
		}
		for i := range alpha {
			rec(append(prefix, i), depth-1)
		}
	}
	for l := 1; l <= L; l++ {
		rec(nil, l)
	}
	st.Exhaustive = true
	st.Note(fmt.Sprintf("%d histories: all sequences of length 1..%d over {sendraw, send message, send <r/>, send <a/>, ack 0/1/2/9}", n, L))
	// random long histories with h around the number sent, repeated and stale acks
	R := 300
	if tier == "thorough" {
		R = 4000
	}
	for i := 0; i < R; i++ {
		var ops [][]string
		sent := 0
		ln := 1 + rng.Intn(120)
		for j := 0; j < ln; j++ {
			switch x := rng.Intn(12); {
			case x < 3:
				ops = append(ops, []string{"sendraw", hx(fmt.Sprintf("<raw n='%d'>%s</raw>", sent, randPayload(rng)))})
				sent++
				st.Inc("op_sendraw")
			case x < 6:
				k := []string{"message", "presence", "iq"}[rng.Intn(3)]
				ops = append(ops, c10op(k, fmt.Sprintf("p%d", sent)))
				sent++
				st.Inc("op_send_" + k)
			case x < 7:
				ops = append(ops, c10op("r", ""))
				st.Inc("op_send_r")
			case x < 8:
				ops = append(ops, c10op("a", strconv.Itoa(rng.Intn(50))))
				st.Inc("op_send_a")
			default:
				h := sent - 3 + rng.Intn(7)
				if h < 0 || rng.Intn(10) == 0 {
					h = rng.Intn(sent + 5)
				}
				ops = append(ops, []string{"ack", strconv.Itoa(h)})
				switch {
				case h < sent:
					st.Inc("ack_below_sent")
				case h == sent:
					st.Inc("ack_equal_sent")
				default:
					st.Inc("ack_above_sent")
				}
			}
		}
		mk(fmt.Sprintf("rnd%d", i), ops)
	}
	return cases
}
