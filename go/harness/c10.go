package main

import (
	"encoding/xml"
	"fmt"
	"io"
	"math/rand"
	"strconv"
	"strings"
	"sync"
	"time"

	xmpp "gosrc.io/xmpp"
	"gosrc.io/xmpp/stanza"
)

// C10: Client.Send / SendRaw / SendMissingStz with stream management active, on a stub transport.
type c10 struct{}

func init() { register("C10", c10{}) }

func c10packet(kind, param string) stanza.Packet {
	switch kind {
	case "message":
		return stanza.Message{Attrs: stanza.Attrs{To: "a@b", Id: param}, Body: param}
	case "presence":
		return stanza.Presence{Attrs: stanza.Attrs{Id: param}, Status: param}
	case "iq":
		iq, _ := stanza.NewIQ(stanza.Attrs{Type: stanza.IQTypeGet, Id: "i" + param, To: "srv"})
		iq.Payload = &stanza.Version{}
		return iq
	case "r":
		return stanza.SMRequest{}
	case "a":
		h, _ := strconv.Atoi(param)
		return stanza.SMAnswer{H: uint(h)}
	}
	return nil
}

func c10hexes(ws [][]byte) string {
	var p []string
	for _, w := range ws {
		p = append(p, hx(string(w)))
	}
	return strings.Join(p, ";")
}

// gateT delays the write of one payload until another payload has been written (or a timeout): with the queue
// lock held across store-and-write nobody else can write meanwhile, so the delayed sender still comes first.
type gateT struct {
	*stubTransport
	mu      sync.Mutex
	hold    string
	release string
	seen    chan struct{}
}

func (g *gateT) Write(p []byte) (int, error) {
	g.mu.Lock()
	hold, release, seen := g.hold, g.release, g.seen
	g.mu.Unlock()
	if hold != "" && string(p) == hold {
		select {
		case <-seen:
		case <-time.After(120 * time.Millisecond):
		}
	}
	n, err := g.stubTransport.Write(p)
	if release != "" && string(p) == release {
		select {
		case <-seen:
		default:
			close(seen)
		}
	}
	return n, err
}

func (c10) Exec(c Case) []string {
	st := newStub(nil)
	cfg := &xmpp.Config{Jid: "test@localhost/res", Credential: xmpp.Password("secret"), StreamManagementEnable: true, Insecure: true}
	xmpp.VerifSetSMResume(cfg, true)
	router := xmpp.NewRouter()
	client, err := newStubClient(cfg, router, nil, st)
	if err != nil {
		return []string{"err:" + err.Error()}
	}
	gate := &gateT{stubTransport: st}
	xmpp.VerifSetTransport(client, gate)
	client.Session = &xmpp.Session{SMState: xmpp.SMState{Id: "sm1", UnAckQueue: stanza.NewUnAckQueue()}}
	// the real receive loop runs next to the senders, fed through a pipe: `req` and `inmsg` ops arrive there
	pr, pw := io.Pipe()
	st.dec = xml.NewDecoder(pr)
	quit := make(chan struct{})
	recvDone := make(chan struct{})
	go func() {
		defer close(recvDone)
		defer func() { recover() }()
		pw.Write([]byte("<?xml version='1.0'?><stream:stream xmlns='jabber:client' xmlns:stream='http://etherx.jabber.org/streams' version='1.0' id='s1'>"))
	}()
	if _, err := stanza.InitStream(st.GetDecoder()); err != nil {
		return []string{"err:initstream"}
	}
	<-recvDone
	recvDone = make(chan struct{})
	go func() {
		defer close(recvDone)
		defer func() { recover() }()
		xmpp.VerifRecv(client, quit)
	}()
	defer func() {
		pw.Close()
		select {
		case <-recvDone:
		case <-time.After(2 * time.Second):
		}
	}()
	inbound := 0
	var obs []string
	for _, op := range c.Ops {
		switch op[0] {
		case "race":
			// two concurrent senders; the first one's write is slow
			a, b := unhx(op[1]), unhx(op[2])
			gate.mu.Lock()
			gate.hold, gate.release, gate.seen = a, b, make(chan struct{})
			gate.mu.Unlock()
			var wg sync.WaitGroup
			wg.Add(2)
			go func() { defer wg.Done(); client.SendRaw(a) }()
			time.Sleep(3 * time.Millisecond)
			go func() { defer wg.Done(); client.SendRaw(b) }()
			wg.Wait()
			gate.mu.Lock()
			gate.hold, gate.release = "", ""
			gate.mu.Unlock()
		case "inmsg":
			// an inbound stanza: counted by the receive loop, nothing is written
			inbound++
			pw.Write([]byte(fmt.Sprintf("<message id='in%d' type='chat'><body>x</body></message>", inbound)))
			for dl := time.Now().Add(2 * time.Second); time.Now().Before(dl) && int(client.Session.SMState.Inbound) < inbound; {
				time.Sleep(50 * time.Microsecond)
			}
		case "req":
			// the server asks for an acknowledgement: wait for the answer to be written
			before := st.writeCount()
			pw.Write([]byte("<r xmlns='urn:xmpp:sm:3'/>"))
			for dl := time.Now().Add(2 * time.Second); time.Now().Before(dl) && st.writeCount() == before; {
				time.Sleep(50 * time.Microsecond)
			}
			time.Sleep(200 * time.Microsecond) // the loop goes on to route the element; nothing else is written
		case "sendstanza", "sendnonza":
			client.Send(c10packet(op[1], unhx(op[2])))
		case "sendraw":
			client.SendRaw(unhx(op[1]))
		case "sendrawfail":
			// the connection is broken for this one write: SendRaw returns an error
			st.mu.Lock()
			st.failAt[st.nwrite+1] = true
			st.mu.Unlock()
			client.SendRaw(unhx(op[1]))
		case "sendptr":
			// a stanza passed by pointer (Message and Presence implement Packet with value receivers, so &m is a
			// Packet too; IQs are always pointers)
			switch p := c10packet(op[1], unhx(op[2])).(type) {
			case stanza.Message:
				client.Send(&p)
			case stanza.Presence:
				client.Send(&p)
			default:
				client.Send(p)
			}
		case "newsession":
			// the connection is lost and the client reconnects: the REAL Client.connect negotiates against a scripted
			// server that answers <resume/> as the op says (same: <resumed/> with the id; failed / otherid: refusal,
			// after which the session is bound and stream management enabled anew). Afterwards the senders go on over
			// the recording transport.
			xt := xmpp.NewClientTransport(xmpp.TransportConfiguration{Address: "127.0.0.1:1", Domain: "localhost"}).(*xmpp.XMPPTransport)
			xmpp.VerifSetTransport(client, xt)
			xmpp.VerifSessionTransport(client.Session, xt)
			cfg.StreamManagementEnable = true
			// h of <resumed/>: what the server has handled = what was acknowledged so far (nothing more is acknowledged
			// by the resumption itself); the reconnection goes through Client.Resume
			rh := 0
			if q := client.Session.SMState.UnAckQueue; q != nil && len(q.Uslice) > 0 {
				rh = q.Uslice[0].Id - 1
			}
			// failed1: as failed, the server then enables stream management with resume='1' (the other spelling of true)
			kind, en := op[1], "enabled1"
			if kind == "failed1" {
				kind, en = "failed", "enabled1b"
			}
			res := negProp{}.oneConn(client, cfg, xt, happy(false, false, true).with("res", kind, "en", en, "smid", hx("sm-next"), "via", "resume", "resh", strconv.Itoa(rh)), 0)
			time.Sleep(5 * time.Millisecond)
			if op[1] == "otherid" && strings.HasPrefix(res, "out=failed") {
				// a <resumed/> that confirms another id ends that connection attempt with an error (and drops the
				// state); the application connects again and gets a new session
				xmpp.VerifSessionTransport(client.Session, xt)
				cfg.StreamManagementEnable = true
				res = negProp{}.oneConn(client, cfg, xt, happy(false, false, true).with("smid", hx("sm-next2")), 0)
			}
			xmpp.VerifSetTransport(client, gate)
			if client.Session != nil {
				xmpp.VerifSessionTransport(client.Session, gate)
			}
			if !strings.HasPrefix(res, "out=established") || client.Session == nil {
				obs = append(obs, "newsession:"+res)
				continue
			}
		case "ack":
			h, _ := strconv.Atoi(op[1])
			xmpp.VerifRoute(router, client, stanza.SMAnswer{H: uint(h)})
		case "ackfail":
			// the acknowledgement is handled while the connection is already dead: every write of the retransmission
			// fails. The session must stay usable afterwards (the next ops run under a time limit: see below).
			h, _ := strconv.Atoi(op[1])
			st.mu.Lock()
			for k := 1; k <= 64; k++ {
				st.failAt[st.nwrite+k] = true
			}
			st.mu.Unlock()
			xmpp.VerifRoute(router, client, stanza.SMAnswer{H: uint(h)})
			st.mu.Lock()
			for k := range st.failAt {
				delete(st.failAt, k)
			}
			st.mu.Unlock()
		default:
			obs = append(obs, "bad-op")
			continue
		}
		obs = append(obs, "w:"+c10hexes(st.takeWrites())+"|q:"+c17slice(client.Session.SMState.UnAckQueue))
	}
	return obs
}

// c10req: the server's <r/> after `inbound` stanzas were received; the expected answer bytes travel with the op.
func c10req(inbound int) []string {
	b, _ := xml.Marshal(stanza.SMAnswer{XMLName: xml.Name{Space: stanza.NSStreamManagement, Local: "a"}, H: uint(inbound)})
	return []string{"req", strconv.Itoa(inbound), hx(string(b))}
}

func c10op(kind, param string) []string {
	b, _ := xml.Marshal(c10packet(kind, param))
	tag := "sendstanza"
	if kind == "r" || kind == "a" {
		tag = "sendnonza"
	}
	return []string{tag, kind, hx(param), hx(string(b))}
}

func (c10) Generate(rng *rand.Rand, tier string, st *Stats) []Case {
	var cases []Case
	n := 0
	mk := func(id string, ops [][]string) {
		cases = append(cases, Case{ID: id, Ops: ops})
	}
	// corpus: the design's witnesses for F-10
	mk("corpus-ack1", [][]string{{"sendraw", hx("<x/>")}, {"sendraw", hx("<y/>")}, {"ack", "1"}})
	mk("corpus-stale", [][]string{{"sendraw", hx("<x/>")}, {"ack", "1"}, {"sendraw", hx("<y/>")}, {"ack", "1"}, {"ack", "2"}})
	mk("corpus-answer-not-held", [][]string{c10op("a", "3"), c10op("r", ""), {"ack", "0"}})
	mk("corpus-write-fails", [][]string{{"sendraw", hx("<a/>")}, {"sendrawfail", hx("<b/>")}, {"sendraw", hx("<c/>")}, {"ack", "1"}, {"sendrawfail", hx("<d/>")}, {"ack", "2"}})
	{
		pm := c10op("message", "pm")
		pp := c10op("presence", "pp")
		pm[0], pp[0] = "sendptr", "sendptr"
		mk("corpus-pointer-stanzas", [][]string{c10op("message", "m1"), pm, pp, {"ack", "1"}})
	}
	mk("corpus-race", [][]string{{"sendraw", hx("<x/>")}, {"race", hx("<slow/>"), hx("<fast/>")}, {"ack", "2"}, {"race", hx("<slow2/>"), hx("<fast2/>")}, {"ack", "3"}})
	mk("corpus-recv-answer-not-held", [][]string{{"sendraw", hx("<x/>")}, c10req(0), {"sendraw", hx("<y/>")}, {"ack", "1"}, {"inmsg"}, c10req(1), {"ack", "2"}})
	// raw stanzas whose TEXT mentions stream management (a disco result listing the feature, a body quoting <r/>,
	// element names that begin like the nonzas): stanzas all the same - held, numbered, retransmitted
	{
		disco := "<iq type='result' id='d1'><query xmlns='http://jabber.org/protocol/disco#info'><feature var='urn:xmpp:sm:3'/></query></iq>"
		quote := "<message id='q1'><body>&lt;r xmlns='urn:xmpp:sm:3'/&gt;</body></message>"
		mk("corpus-raw-mentions-sm", [][]string{{"sendraw", hx("<message id='m1'/>")}, {"sendraw", hx(disco)}, {"sendraw", hx(quote)}, {"ack", "0"}, {"ack", "2"}})
		mk("corpus-raw-lookalikes", [][]string{{"sendraw", hx("<route/>")}, {"sendraw", hx("<a:b xmlns:a='x'/>")}, {"sendraw", hx("<r2/>")}, {"sendraw", hx("<answer/>")}, {"ack", "1"}, {"ack", "3"}})
		mk("corpus-raw-blank", [][]string{{"sendraw", hx("<x/>")}, {"sendraw", hx(" \n\t ")}, {"sendraw", hx("<y/>")}, {"ack", "1"}})
	}
	// an acknowledgement handled on a dead connection (the retransmission cannot be written): the acknowledged stanzas
	// are gone, the others stay held, and the session goes on working - the next sends, acknowledgements and requests
	mk("corpus-ack-on-dead-connection", [][]string{{"sendraw", hx("<x/>")}, {"sendraw", hx("<y/>")}, {"sendraw", hx("<z/>")}, {"ackfail", "1"},
		{"sendraw", hx("<w/>")}, {"ack", "2"}, c10op("message", "after"), {"ackfail", "0"}, {"ack", "9"}})
	mk("corpus-ack-on-dead-connection-all", [][]string{{"sendraw", hx("<x/>")}, {"ackfail", "0"}, {"ackfail", "1"}, {"sendraw", hx("<y/>")}, {"ack", "1"}})
	// the same text sent twice in a row (a chat-state notification, a presence, a white space ping): two stanzas, both held,
	// both numbered - also when the first copy is still the last element of the queue
	{
		cs := "<message to='a@b'><composing xmlns='http://jabber.org/protocol/chatstates'/></message>"
		mk("corpus-identical-stanzas", [][]string{{"sendraw", hx(cs)}, {"sendraw", hx(cs)}, c10op("message", "body"), {"ack", "1"}, {"sendraw", hx(cs)}, {"sendraw", hx(cs)}, {"ack", "3"}, {"ack", "5"}})
		mk("corpus-identical-stanzas-2", [][]string{c10op("presence", "p"), c10op("presence", "p"), c10op("presence", "p"), {"ack", "2"}, {"ack", "3"}})
	}
	// a reconnection in the middle of a history (the real Client.connect against a scripted server): after a CONFIRMED
	// resumption the held stanzas and their numbers go on; after a REFUSED one (<failed/>, another id) the session that
	// is enabled anew starts empty and numbers from 1 - an <a h='1'/> of the new session acknowledges its first stanza,
	// nothing of the old session is transmitted on it
	for _, kind := range []string{"same", "failed", "otherid", "failed1"} {
		mk("corpus-reconnect-"+kind, [][]string{{"sendraw", hx("<old1/>")}, {"sendraw", hx("<old2/>")}, {"sendraw", hx("<old3/>")}, {"ack", "1"},
			{"newsession", kind}, {"sendraw", hx("<new1/>")}, {"ack", "1"}, {"sendraw", hx("<new2/>")}, {"ack", "2"}, {"ack", "4"}, {"ack", "5"}})
		mk("corpus-reconnect-empty-"+kind, [][]string{{"sendraw", hx("<old1/>")}, {"ack", "1"}, {"newsession", kind}, c10op("message", "n1"), {"ack", "0"}, {"ack", "1"}, {"ack", "2"}})
		mk("corpus-reconnect-twice-"+kind, [][]string{c10op("message", "o1"), {"newsession", kind}, c10op("message", "o2"), {"newsession", "same"}, {"ack", "1"}, {"newsession", kind}, {"sendraw", hx("<z/>")}, {"ack", "1"}})
		st.Inc("reconnect_" + kind)
	}
	// held stanzas with printf verbs and escapes in them: transmitted again exactly as they were
	mk("corpus-percent-in-held", [][]string{{"sendraw", hx("<message id='p1'><body>100% sure, %s %d %v %%</body></message>")}, c10op("message", "50%20off"),
		{"sendraw", hx("<x a='%!(EXTRA)'/>")}, {"ack", "0"}, {"ack", "1"}, {"ack", "2"}, {"ack", "3"}})
	// an acknowledgement that counts MORE than was sent (the server also counts what never went through the queue),
	// then more stanzas: their numbers go on from what was sent, an acknowledgement that covers them discards them
	mk("corpus-ack-ahead", [][]string{{"sendraw", hx("<a1/>")}, {"sendraw", hx("<a2/>")}, {"ack", "5"}, {"sendraw", hx("<a3/>")}, {"ack", "5"}, {"ack", "3"},
		{"sendraw", hx("<a4/>")}, {"ack", "3"}, {"ack", "4"}})
	// bounded-exhaustive: all histories of length <= L over a small alphabet
	uniq := 0
	alpha := []func() []string{
		func() []string { uniq++; return []string{"sendraw", hx(fmt.Sprintf("<s%d/>", uniq))} },
		func() []string { uniq++; return c10op("message", fmt.Sprintf("m%d", uniq)) },
		func() []string { return c10op("r", "") },
		func() []string { return c10op("a", "1") },
		func() []string { return []string{"ack", "0"} },
		func() []string { return []string{"ack", "1"} },
		func() []string { return []string{"ack", "2"} },
		func() []string { return []string{"ack", "9"} },
		func() []string { return c10req(0) },
	}
	L := 4
	if tier == "thorough" {
		L = 5
	}
	var rec func(prefix []int, depth int)
	rec = func(prefix []int, depth int) {
		if depth == 0 {
			uniq = 0
			var ops [][]string
			for _, i := range prefix {
				ops = append(ops, alpha[i]())
			}
			mk(fmt.Sprintf("ex%d", n), ops)
			n++
			return
		}
		for i := range alpha {
			rec(append(prefix, i), depth-1)
		}
	}
	for l := 1; l <= L; l++ {
		rec(nil, l)
	}
	st.Exhaustive = true
	st.Note(fmt.Sprintf("%d histories: all sequences of length 1..%d over {sendraw, send message, send <r/>, send <a/>, ack 0/1/2/9}", n, L))
	// random long histories with h around the number sent, repeated and stale acks
	R := 300
	if tier == "thorough" {
		R = 4000
	}
	for i := 0; i < R; i++ {
		var ops [][]string
		sent := 0
		inb := 0
		ln := 1 + rng.Intn(120)
		for j := 0; j < ln; j++ {
			if i%40 == 0 && j%30 == 7 {
				ops = append(ops, []string{"race", hx(fmt.Sprintf("<slow n='%d'/>", sent)), hx(fmt.Sprintf("<fast n='%d'/>", sent+1))})
				sent += 2
				st.Inc("op_race")
				continue
			}
			switch x := rng.Intn(16); {
			case x == 14:
				ops = append(ops, []string{"sendrawfail", hx(fmt.Sprintf("<lost n='%d'/>", sent))})
				sent++
				st.Inc("op_sendraw_write_fails")
			case x == 15:
				o := c10op([]string{"message", "presence"}[rng.Intn(2)], fmt.Sprintf("ptr%d", sent))
				o[0] = "sendptr"
				ops = append(ops, o)
				sent++
				st.Inc("op_send_pointer")
			case x == 12:
				ops = append(ops, []string{"inmsg"})
				inb++
				st.Inc("op_inbound_stanza")
			case x == 13:
				ops = append(ops, c10req(inb))
				st.Inc("op_inbound_r")
			case x < 3:
				ops = append(ops, []string{"sendraw", hx(fmt.Sprintf("<raw n='%d'>%s</raw>", sent, randPayload(rng)))})
				sent++
				st.Inc("op_sendraw")
			case x < 6:
				k := []string{"message", "presence", "iq"}[rng.Intn(3)]
				ops = append(ops, c10op(k, fmt.Sprintf("p%d", sent)))
				sent++
				st.Inc("op_send_" + k)
			case x < 7:
				ops = append(ops, c10op("r", ""))
				st.Inc("op_send_r")
			case x < 8:
				ops = append(ops, c10op("a", strconv.Itoa(rng.Intn(50))))
				st.Inc("op_send_a")
			default:
				h := sent - 3 + rng.Intn(7)
				if h < 0 || rng.Intn(10) == 0 {
					h = rng.Intn(sent + 5)
				}
				ops = append(ops, []string{"ack", strconv.Itoa(h)})
				switch {
				case h < sent:
					st.Inc("ack_below_sent")
				case h == sent:
					st.Inc("ack_equal_sent")
				default:
					st.Inc("ack_above_sent")
				}
			}
		}
		mk(fmt.Sprintf("rnd%d", i), ops)
	}
	return cases
}
