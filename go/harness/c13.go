package main

import (
	"os"
	"crypto/tls"
	"errors"
	"fmt"
	"math/rand"
	"net"
	"strconv"
	"strings"
	"sync"
	"time"

	xmpp "gosrc.io/xmpp"
	"gosrc.io/xmpp/stanza"
)

// C13: the real StreamManager + Client against a scripted multi-connection TCP server with fault injection.
type c13 struct{}

func init() { register("C13", c13{}) }

type c13srv struct {
	mu          sync.Mutex
	ln          net.Listener
	addr        string
	sm          bool
	tls         bool     // the server offers the mechanisms only after STARTTLS
	plan        []string // upcoming attempt outcomes: o t p x
	conns       int
	unexpected  int
	established chan net.Conn // signalled when a negotiation completed
	failedTry   chan string   // signalled when a non-ok attempt was served
	resumed     int
	hellos      int
	closing     bool
	smFirstOnly bool // stream management is advertised on the first connection only (a server restarted without the module)
}

func (s *c13srv) listen() error {
	var err error
	for i := 0; i < 50; i++ {
		s.ln, err = net.Listen("tcp", s.addr)
		if err == nil {
			go s.acceptLoop(s.ln)
			return nil
		}
		time.Sleep(10 * time.Millisecond)
	}
	return err
}

func (s *c13srv) acceptLoop(ln net.Listener) {
	for {
		c, err := ln.Accept()
		if err != nil {
			return
		}
		s.mu.Lock()
		s.conns++
		kind := "?"
		if len(s.plan) > 0 {
			kind, s.plan = s.plan[0], s.plan[1:]
		} else {
			s.unexpected++
		}
		s.mu.Unlock()
		go s.handle(c, kind)
	}
}

func (s *c13srv) handle(c net.Conn, kind string) {
	switch kind {
	case "x", "?":
		c.Close() // accepted, then dropped before the stream header
		if kind == "x" {
			s.failedTry <- kind
		}
		return
	}
	smbit := "0"
	s.mu.Lock()
	nth := s.conns
	s.mu.Unlock()
	if s.sm && !(s.smFirstOnly && nth > 1) {
		smbit = "1"
	}
	sc := happy(s.tls, false, s.sm).with("smid", hx("sm-c13"))
	sc["f1"], sc["f3"] = "01"+smbit+"0", "01"+smbit+"0"
	if s.tls {
		// STARTTLS is all the server offers before the TLS handshake; a client that skips it finds no mechanism
		sc["f1"], sc["f2"] = "1000", "01"+smbit+"0"
	}
	abrupt := false
	if s.tls {
		// the application reaches the server under a host name of its own (TLS ServerName alt.example), the XMPP
		// domain is localhost: the certificate has to be valid for the domain as well
		sc["cert"] = "both"
	}
	switch kind {
	case "h": // a certificate that is valid for the host name dialled but NOT for the XMPP domain: a TLS policy failure
		sc["cert"], kind = "altonly", "p"
	case "u": // a certificate from an unknown issuer
		sc["cert"], kind = "untrusted", "p"
	case "t":
		sc["auth"] = "other"
	case "p":
		sc["auth"] = "failure"
	case "T": // as t, but the server drops the TCP connection right after its reply (no </stream:stream>)
		sc["auth"], abrupt, kind = "other", true, "t"
	case "P":
		sc["auth"], abrupt, kind = "failure", true, "p"
	}
	sv := &negServer{m: sc}
	signalled := false
	sv.after = func(k string, conn net.Conn) {
		if signalled {
			return
		}
		done := false
		switch {
		case k == "resume":
			done = true
			s.mu.Lock()
			s.resumed++
			s.mu.Unlock()
		case k == "enable":
			done = true
		case k == "bind" && smbit == "0":
			done = true // no stream management on this connection: the session is there once the resource is bound
		}
		if done && kind == "o" {
			signalled = true
			s.established <- conn
		}
		if abrupt && k == "auth" {
			c.Close()
		}
	}
	sv.serve(c)
	sv.mu.Lock()
	for _, e := range sv.seen {
		if strings.HasPrefix(e, "other-presence#hello") {
			s.mu.Lock()
			s.hellos++
			s.mu.Unlock()
		}
	}
	sv.mu.Unlock()
	if kind != "o" {
		s.failedTry <- kind
	}
}

func (c13) Exec(c Case) []string {
	obs := make([]string, len(c.Ops))
	var wg sync.WaitGroup
	sem := make(chan struct{}, 12) // at most 12 supervised clients at a time
	for i, op := range c.Ops {
		if op[0] == "outage" && len(op) == 2 {
			obs[i] = c13outage(op[1])
			continue
		}
		if op[0] != "script" || len(op) != 4 {
			obs[i] = "bad-op"
			continue
		}
		wg.Add(1)
		go func(i int, op []string) {
			defer wg.Done()
			sem <- struct{}{}
			defer func() { <-sem }()
			obs[i] = c13run(strings.HasPrefix(op[1], "sm"), strings.HasSuffix(op[1], "tls"), op[2], op[3])
		}(i, op)
	}
	wg.Wait()
	return obs
}

// c13outage: the waits the retry loop of the StreamManager takes in an outage of n failed attempts (the back-off with
// the package defaults, as StreamManager.resume builds it): every one of them is computed without a panic and lies in
// [0, cap] - an outage of any length neither kills the supervisor nor makes it spin or sleep for ever.
func c13outage(ns string) string {
	n, err := strconv.Atoi(ns)
	if err != nil || n < 0 || n > 100000 {
		return "bad-op"
	}
	bo := xmpp.NewVerifBackoff(0, 0, 0, false)
	bad, max := "-", time.Duration(0)
	for k := 0; k < n && bad == "-"; k++ {
		func() {
			defer func() {
				if r := recover(); r != nil {
					bad = fmt.Sprintf("%d:panic", k)
				}
			}()
			d := bo.DurationForAttempt(k)
			if d < 0 {
				bad = fmt.Sprintf("%d:negative", k)
			}
			if d > max {
				max = d
			}
		}()
	}
	return fmt.Sprintf("bad=%s maxms=%d", bad, int64(max/time.Millisecond))
}

func waitConn(ch chan net.Conn, d time.Duration) net.Conn {
	select {
	case c := <-ch:
		return c
	case <-time.After(d):
		return nil
	}
}

func c13run(sm, useTLS bool, first, lives string) string {
	// a keepalive interval far beyond the duration of a script: no keepalive fires during a script
	return c13runKA(10*time.Minute, sm, useTLS, first, lives)
}

// c13runKA: the same with a given keepalive interval (C18 runs fault scripts with a keepalive that ticks every few
// milliseconds: the keepalive of a lost session must not disturb the reconnection - F-18b)
func c13runKA(ka time.Duration, sm, useTLS bool, first, lives string) string {
	ln, err := net.Listen("tcp", "127.0.0.1:0")
	if err != nil {
		return "listen-failed"
	}
	addr := ln.Addr().String()
	ln.Close()
	smFirstOnly := strings.HasPrefix(lives, "smonce!")
	lives = strings.TrimPrefix(lives, "smonce!")
	srv := &c13srv{addr: addr, sm: sm, tls: useTLS, smFirstOnly: smFirstOnly, established: make(chan net.Conn, 16), failedTry: make(chan string, 64)}
	if err := srv.listen(); err != nil {
		return "listen-failed"
	}
	defer func() {
		srv.mu.Lock()
		srv.closing = true
		srv.mu.Unlock()
		srv.ln.Close()
	}()

	var mu sync.Mutex
	var probes []string
	errh := 0
	router := xmpp.NewRouter()
	router.NewRoute().HandlerFunc(func(s xmpp.Sender, p stanza.Packet) {
		if m, ok := p.(stanza.Message); ok {
			mu.Lock()
			probes = append(probes, m.Id)
			mu.Unlock()
		}
	})
	cfg := &xmpp.Config{
		TransportConfiguration: xmpp.TransportConfiguration{Address: addr, Domain: "localhost"},
		Jid:                    "test@localhost/res", Credential: xmpp.Password("secret"), Insecure: true,
		ConnectTimeout: 1, StreamManagementEnable: sm, KeepaliveInterval: ka,
	}
	if useTLS {
		cfg.Insecure = false
		cfg.TLSConfig = &tls.Config{RootCAs: getPKI().pool, ServerName: "alt.example"}
	}
	xmpp.VerifSetSMResume(cfg, true)
	client, err := xmpp.NewClient(cfg, router, func(e error) {
		mu.Lock()
		errh++
		mu.Unlock()
		if os.Getenv("C13DEBUG") != "" {
			fmt.Fprintln(os.Stderr, "C13DEBUG errorhandler:", e)
		}
	})
	if err != nil {
		return "newclient-failed"
	}
	post := 0
	mgr := xmpp.NewStreamManager(client, func(s xmpp.Sender) {
		mu.Lock()
		post++
		n := post
		mu.Unlock()
		s.Send(stanza.Presence{Attrs: stanza.Attrs{Id: fmt.Sprintf("hello-%d", n)}})
	})
	srv.mu.Lock()
	srv.plan = []string{string(first[0])}
	srv.mu.Unlock()
	runRet := make(chan error, 1)
	go func() { runRet <- mgr.Run() }()

	sessions, recvOK, gaveUp, stalled := 0, 0, false, ""
	probeSession := func(conn net.Conn) {
		sessions++
		id := fmt.Sprintf("probe-%d", sessions)
		conn.Write([]byte("<message xmlns='jabber:client' id='" + id + "' from='srv'><body>x</body></message>"))
		deadline := time.Now().Add(2 * time.Second)
		for time.Now().Before(deadline) {
			mu.Lock()
			ok := false
			for _, p := range probes {
				if p == id {
					ok = true
				}
			}
			mu.Unlock()
			if ok {
				recvOK++
				break
			}
			time.Sleep(2 * time.Millisecond)
		}
		// give the post-connect presence time to arrive
		time.Sleep(20 * time.Millisecond)
	}
	runReturned, runErr := false, "-"
	stopEarly := ""
	var cur net.Conn
	if first == "o" {
		cur = waitConn(srv.established, 3*time.Second)
		if cur == nil {
			stalled = "first"
		} else {
			probeSession(cur)
		}
	} else {
		select {
		case e := <-runRet:
			runReturned = true
			runErr = errClass(e)
		case <-time.After(3 * time.Second):
			stalled = "first-return"
		}
	}
	if cur != nil && lives != "-" {
	lifeLoop:
		for _, life := range strings.Split(lives, ";") {
			parts := strings.SplitN(life, ":", 2)
			ending := parts[0]
			var atts []string
			if len(parts) > 1 && parts[1] != "" {
				atts = strings.Split(parts[1], ",")
			}
			// schedule what the reconnection attempts will meet
			refuseMs := 0
			var plan []string
			for _, a := range atts {
				if a == "r" {
					refuseMs += 60
				} else {
					plan = append(plan, a)
				}
			}
			srv.mu.Lock()
			srv.plan = plan
			srv.mu.Unlock()
			if refuseMs > 0 {
				srv.ln.Close() // connection refused for a while
			}
			if ending == "dropstop" {
				// the connection is lost, the server refuses connections, and while the manager is retrying the
				// application calls Stop: Stop returns and Run returns ("... and Stop makes Run return")
				srv.ln.Close()
				cur.Close()
				time.Sleep(120 * time.Millisecond)
				sdone := make(chan struct{})
				go func() { defer func() { recover() }(); mgr.Stop(); close(sdone) }()
				stopEarly = "true"
				select {
				case e := <-runRet:
					runErr = errClass(e)
				case <-time.After(3 * time.Second):
					stopEarly = "false"
				}
				select {
				case <-sdone:
				case <-time.After(2 * time.Second):
					stopEarly = "false"
				}
				runReturned = true
				break lifeLoop
			}
			switch ending {
			case "drop":
				cur.Close()
			case "graceful":
				cur.Write([]byte("</stream:stream>"))
				go func(c net.Conn) { time.Sleep(150 * time.Millisecond); c.Close() }(cur)
			case "wfail":
				// the client can still read but no longer write: the server's <r/> cannot be answered
				if xt, ok := xmpp.VerifTransport(client).(*xmpp.XMPPTransport); ok {
					if tc, ok := xmpp.VerifXMPPTransportConn(xt).(*net.TCPConn); ok {
						tc.CloseWrite()
					}
				}
				cur.Write([]byte("<r xmlns='urn:xmpp:sm:3'/>"))
				go func(c net.Conn) { time.Sleep(400 * time.Millisecond); c.Close() }(cur)
			}
			if refuseMs > 0 {
				// the application goes on sending while the connection is down: the send fails (the stanza stays held
				// for the resumed session) - and must leave the session usable for everything that follows. Only in lives
				// whose reconnection is refused for a while: there the send certainly meets the dead connection (a send
				// that lands on the NEW connection in the middle of its negotiation would be the application's fault)
				go func() {
					defer func() { recover() }()
					time.Sleep(3 * time.Millisecond)
					client.SendRaw("<message xmlns='jabber:client' id='while-down'><body>x</body></message>")
				}()
			}
			if refuseMs > 0 {
				time.Sleep(time.Duration(refuseMs) * time.Millisecond)
				if err := srv.listen(); err != nil {
					stalled = "relisten"
					break lifeLoop
				}
			}
			// wait for the outcome of this life: a new session, or the attempt that makes the client give up
			for _, a := range plan {
				if a == "o" {
					cur = waitConn(srv.established, 4*time.Second)
					if cur == nil {
						stalled = "life"
						break lifeLoop
					}
					probeSession(cur)
					break
				}
				select {
				case <-srv.failedTry:
				case <-time.After(4 * time.Second):
					stalled = "attempt-" + a
					break lifeLoop
				}
				if a == "p" || a == "P" || a == "h" || a == "u" {
					gaveUp = true
					break lifeLoop
				}
			}
		}
	}
	// storm detection: connections must not keep arriving
	time.Sleep(150 * time.Millisecond)
	srv.mu.Lock()
	conns1 := srv.conns
	srv.mu.Unlock()
	time.Sleep(350 * time.Millisecond)
	if gaveUp {
		// after an attempt that has to end the retry loop: closing the failed connection may wait ConnectTimeout (1 s)
		// for the peer's closing tag - a loop that goes on shows only after that
		time.Sleep(1200 * time.Millisecond)
	}
	srv.mu.Lock()
	conns2, unexpected, resumed, hellos := srv.conns, srv.unexpected, srv.resumed, srv.hellos
	srv.mu.Unlock()
	// Stop makes Run return
	stopOK := "-"
	if !runReturned {
		done := make(chan struct{})
		go func() { mgr.Stop(); close(done) }()
		select {
		case e := <-runRet:
			runErr = errClass(e)
			stopOK = "true"
		case <-time.After(3 * time.Second):
			stopOK = "false"
		}
		select {
		case <-done:
		case <-time.After(2 * time.Second):
		}
	}
	if stopEarly != "" {
		stopOK = stopEarly
	}
	// hellos are counted when a connection's serve loop ends: read the rest now
	time.Sleep(50 * time.Millisecond)
	srv.mu.Lock()
	hellos = srv.hellos
	srv.mu.Unlock()
	mu.Lock()
	p := post
	mu.Unlock()
	_ = gaveUp
	return fmt.Sprintf("sessions=%d post=%d recv=%d hellos=%d conns=%d later=%d unexpected=%d resumed=%d firstret=%v err=%s stop=%s stalled=%s",
		sessions, p, recvOK, hellos, conns1, conns2, unexpected, resumed, runReturned, runErr, stopOK, orDash(stalled))
}

func orDash(s string) string {
	if s == "" {
		return "-"
	}
	return s
}

func errClass(e error) string {
	if e == nil {
		return "nil"
	}
	var ce xmpp.ConnError
	if errors.As(e, &ce) {
		return "conn:" + strconv.FormatBool(ce.Permanent)
	}
	return "other"
}

func (c13) Generate(rng *rand.Rand, tier string, st *Stats) []Case {
	var cases []Case
	var ops [][]string
	mk := func(sm bool, first, lives string) {
		m := "nosm"
		if sm {
			m = "sm"
		}
		ops = append(ops, []string{"script", m, first, lives})
	}
	defer func() {}()
	// corpus: the defects found by reading (F-13a..d)
	mk(false, "o", "drop:o")         // F-13a: the new session must receive
	mk(false, "P", "-")              // F-13b: a permanent first failure must not start a reconnect storm
	mk(false, "o", "graceful:o")     // F-13c: graceful close must lead to a new session
	mk(false, "o", "drop:r,o")       // F-13d: a refused dial must be retried
	mk(false, "o", "drop:t,p")       // permanent error ends the loop
	mk(true, "o", "drop:o;drop:o")   // resumed sessions
	mk(true, "o", "drop:r,o;drop:o") // the application sends while the connection is down, then the session is resumed
	mk(true, "o", "graceful:r,r,o")
	// the server comes back WITHOUT stream management (advertised on the first connection only): the features of the
	// earlier connection are gone - no resumption is asked for, a session is bound afresh, once per loss
	mk(true, "o", "smonce!drop:o;drop:o")
	mk(true, "o", "smonce!graceful:t,o")
	mk(true, "o", "wfail:o;drop:o")  // a loss seen by a failed <a/> write: one new session, the old receiver is gone
	mk(false, "o", "wfail:t,o;wfail:o")
	// Stop while the manager is retrying (connections refused): Stop returns, Run returns
	mk(false, "o", "dropstop:")
	mk(true, "o", "drop:o;dropstop:")
	// sessions protected by STARTTLS (the server offers nothing else before the handshake): every new connection has
	// to go through STARTTLS again, whatever way the previous one ended
	mkm := func(m, first, lives string) { ops = append(ops, []string{"script", m, first, lives}) }
	mkm("nosmtls", "o", "drop:o;graceful:o")
	mkm("smtls", "o", "drop:o;drop:t,o")
	mkm("smtls", "o", "graceful:x,o;wfail:o")
	mkm("nosmtls", "o", "drop:t,p")
	// a TLS policy failure on a reconnection attempt ends the retry loop: certificate not valid for the XMPP domain
	// (though valid for the host name the TLS layer checks), certificate of an unknown issuer
	mkm("nosmtls", "o", "drop:h")
	mkm("smtls", "o", "drop:o;graceful:t,h")
	mkm("smtls", "o", "drop:u")
	// an outage of any length: the waits of 100, 1000 and (thorough) 20000 consecutive failed attempts (an hour and
	// more with the default back-off; the loop itself is run in real time for a few attempts only, by C19's check)
	for _, n := range []string{"100", "1000"} {
		ops = append(ops, []string{"outage", n})
		st.Inc("long_outage_waits")
	}
	if tier == "thorough" {
		ops = append(ops, []string{"outage", "20000"})
	}
	endings := []string{"drop", "graceful", "wfail"}
	attSeqs := []string{"o", "t,o", "x,o", "T,t,o", "r,o", "x,T,o", "p", "t,P"}
	for _, sm := range []bool{false, true} {
		for _, e := range endings {
			for _, a := range attSeqs {
				mk(sm, "o", e+":"+a)
				st.Inc("single_life")
			}
		}
	}
	for _, f := range []string{"t", "p", "x", "T", "P"} {
		mk(false, f, "-")
		st.Inc("first_fails")
	}
	R := 10
	if tier == "thorough" {
		R = 120
	}
	for i := 0; i < R; i++ {
		k := 1 + rng.Intn(4)
		var lives []string
		for j := 0; j < k; j++ {
			a := attSeqs[rng.Intn(6)] // sequences that end in success, so that the next life exists
			lives = append(lives, endings[rng.Intn(3)]+":"+a)
		}
		if rng.Intn(4) == 0 {
			lives = append(lives, endings[rng.Intn(3)]+":"+attSeqs[6+rng.Intn(2)])
		}
		mk(rng.Intn(2) == 0, "o", strings.Join(lives, ";"))
		st.Add("random_lives", len(lives))
	}
	// the scripts of one case run concurrently (each with its own server port)
	for i := 0; i < len(ops); i += 24 {
		j := i + 24
		if j > len(ops) {
			j = len(ops)
		}
		cases = append(cases, Case{ID: fmt.Sprintf("c13-batch%d", i/24), Ops: ops[i:j]})
	}
	st.Add("scripts", len(ops))
	st.Note("fault scripts: first attempt ok/transient/permanent/dropped; per established connection an ending (abrupt drop, graceful </stream:stream>) followed by reconnection attempts over {o ok, t negotiation failure (transient), x accepted then dropped, r refused dial for 60 ms, p permanent}; with and without stream management; k <= 4 (thorough: more) repetitions")
	return cases
}
