package main

import (
	"sync/atomic"
	"sync"
	"context"
	"encoding/xml"
	"fmt"
	"math/rand"
	"strconv"
	"strings"

	xmpp "gosrc.io/xmpp"
	"gosrc.io/xmpp/stanza"
)

// C06: Router.route through the public route builder API and the VerifRoute hook.
type c06 struct{}

func init() { register("C06", c06{}) }

// recSender records what the router sends back.
type recSender struct{ sent []stanza.Packet }

func (r *recSender) Send(p stanza.Packet) error { r.sent = append(r.sent, p); return nil }
func (r *recSender) SendIQ(ctx context.Context, iq *stanza.IQ) (chan stanza.IQ, error) {
	r.sent = append(r.sent, iq)
	return nil, nil
}
func (r *recSender) SendRaw(s string) error { r.sent = append(r.sent, rawPacket(s)); return nil }

type rawPacket string

func (rawPacket) Name() string { return "raw" }

// fakePayload is an IQ payload with an arbitrary namespace.
type fakePayload struct {
	XMLName xml.Name
	ns      string
}

func (f *fakePayload) Namespace() string        { return f.ns }
func (f *fakePayload) GetSet() *stanza.ResultSet { return nil }

func splitHex(s string) []string {
	if s == "" {
		return []string{}
	}
	var out []string
	for _, h := range strings.Split(s, ",") {
		out = append(out, unhx(h))
	}
	return out
}

// c06conc: a client routes every received packet in a goroutine of its own, so route() runs concurrently: packets of
// four kinds, each matching exactly one of four routes, from G goroutines. Every handler checks what it was given.
func c06conc(G, K int) string {
	router := xmpp.NewRouter()
	var handled, misrouted int64
	check := func(want string) xmpp.HandlerFunc {
		return func(s xmpp.Sender, p stanza.Packet) {
			got := "?"
			switch v := p.(type) {
			case stanza.Message:
				got = "message:" + string(v.Type)
			case stanza.Presence:
				got = "presence"
			case *stanza.IQ:
				got = "iq"
			}
			if got == want {
				atomic.AddInt64(&handled, 1)
			} else {
				atomic.AddInt64(&misrouted, 1)
			}
		}
	}
	router.NewRoute().Packet("message").StanzaType("chat").HandlerFunc(check("message:chat"))
	router.NewRoute().Packet("message").StanzaType("headline").HandlerFunc(check("message:headline"))
	router.NewRoute().Packet("presence").HandlerFunc(check("presence"))
	router.NewRoute().IQNamespaces("jabber:iq:version").HandlerFunc(check("iq"))
	snd := &recSender{}
	var wg sync.WaitGroup
	for g := 0; g < G; g++ {
		wg.Add(1)
		go func(g int) {
			defer wg.Done()
			defer func() { recover() }()
			for k := 0; k < K; k++ {
				var p stanza.Packet
				switch g % 4 {
				case 0:
					p = stanza.Message{Attrs: stanza.Attrs{Type: "chat", Id: "c"}}
				case 1:
					p = stanza.Message{Attrs: stanza.Attrs{Type: "headline", Id: "h"}}
				case 2:
					p = stanza.Presence{Attrs: stanza.Attrs{Id: "p"}}
				default:
					p = &stanza.IQ{Attrs: stanza.Attrs{Type: "get", Id: "i"}, Payload: &fakePayload{ns: "jabber:iq:version"}}
				}
				xmpp.VerifRoute(router, snd, p)
			}
		}(g)
	}
	wg.Wait()
	return fmt.Sprintf("handled=%d misrouted=%d replies=%d", atomic.LoadInt64(&handled), atomic.LoadInt64(&misrouted), len(snd.sent))
}

func (c06) Exec(c Case) []string {
	if len(c.Ops) == 1 && c.Ops[0][0] == "conc" && len(c.Ops[0]) == 3 {
		G, _ := strconv.Atoi(c.Ops[0][1])
		K, _ := strconv.Atoi(c.Ops[0][2])
		return []string{c06conc(G, K)}
	}
	router := xmpp.NewRouter()
	// the application has requests of its own pending under these ids; requests FROM other entities that happen to
	// carry the same id (ids are unique per sender only) are routed like any other request
	pctx, pcancel := context.WithCancel(context.Background())
	defer pcancel()
	router.NewIQResultRoute(pctx, "id-get")
	router.NewIQResultRoute(pctx, "id-set")
	var log []int
	nroutes := 0
	var obs []string
	for _, op := range c.Ops {
		switch op[0] {
		case "route":
			idx := nroutes
			nroutes++
			h := func(s xmpp.Sender, p stanza.Packet) { log = append(log, idx) }
			ms := op[1:]
			var r *xmpp.Route
			if len(ms) > 0 && strings.HasPrefix(ms[0], "name:") && idx%2 == 1 {
				// the convenience API: Router.HandleFunc / Router.Handle register a route for a packet name, further
				// matchers are chained onto the route they return (every call adds a route of its own)
				if idx%4 == 1 {
					r = router.HandleFunc(unhx(ms[0][5:]), h)
				} else {
					r = router.Handle(unhx(ms[0][5:]), xmpp.HandlerFunc(h))
				}
				ms = ms[1:]
			} else {
				r = router.NewRoute()
			}
			for _, m := range ms {
				switch {
				case strings.HasPrefix(m, "name:"):
					r.Packet(unhx(m[5:]))
				case strings.HasPrefix(m, "type:"):
					r.StanzaType(splitHex(m[5:])...)
				case strings.HasPrefix(m, "ns:"):
					r.IQNamespaces(splitHex(m[3:])...)
				}
			}
			r.HandlerFunc(h)
			obs = append(obs, "ok")
		case "pkt":
			attrs := stanza.Attrs{Type: stanza.StanzaType(unhx(op[2])), Id: unhx(op[4]), From: unhx(op[5]), To: unhx(op[6])}
			var p stanza.Packet
			switch {
			case op[1] == "message":
				p = stanza.Message{Attrs: attrs}
			case op[1] == "presence":
				p = stanza.Presence{Attrs: attrs}
			case op[1] == "iq":
				iq := &stanza.IQ{Attrs: attrs}
				if strings.HasPrefix(op[3], "@") {
					// a payload nobody registered: the parser keeps it as a generic node in IQ.Any
					iq.Any = &stanza.Node{XMLName: xml.Name{Space: unhx(op[3][1:]), Local: "query"}}
				} else if op[3] != "~" {
					iq.Payload = &fakePayload{ns: unhx(op[3])}
				}
				if attrs.Type == stanza.IQTypeError {
					// an error response carries its <error/> (next to the echoed payload, if any)
					iq.Error = &stanza.Err{Type: stanza.ErrorTypeCancel, Reason: "item-not-found"}
				}
				p = iq
			case op[1] == "other:streamerror":
				p = stanza.StreamError{}
			case op[1] == "other:smr":
				p = stanza.SMRequest{}
			case op[1] == "other:sma":
				p = stanza.SMAnswer{H: 3}
			case op[1] == "other:features":
				p = stanza.StreamFeatures{}
			default:
				p = stanza.Handshake{}
			}
			log = nil
			snd := &recSender{}
			xmpp.VerifRoute(router, snd, p)
			var hs, rs []string
			for _, i := range log {
				hs = append(hs, strconv.Itoa(i))
			}
			for _, s := range snd.sent {
				iq, ok := s.(*stanza.IQ)
				if !ok {
					rs = append(rs, "notiq")
					continue
				}
				code, et, reason := 0, "", ""
				if iq.Error != nil {
					code, et, reason = iq.Error.Code, string(iq.Error.Type), iq.Error.Reason
				}
				rs = append(rs, strings.Join([]string{hx(string(iq.Type)), hx(iq.Id), hx(iq.From), hx(iq.To), strconv.Itoa(code), hx(et), hx(reason)}, ","))
			}
			obs = append(obs, "h:"+strings.Join(hs, ",")+" r:"+strings.Join(rs, ";"))
		default:
			obs = append(obs, "bad-op")
		}
	}
	return obs
}

var c06names = []string{"message", "iq", "presence", "IQ", "Message", "", "x"}
var c06types = []string{"get", "set", "result", "error", "chat", "normal", "", "GET", "subscribe", "groupchat"}
var c06ns = []string{"jabber:iq:version", "urn:x", "URN:X", "http://jabber.org/protocol/disco#info"}

func c06matcher(rng *rand.Rand) string {
	pickList := func(pool []string) string {
		k := rng.Intn(3)
		var hs []string
		for i := 0; i < k; i++ {
			hs = append(hs, hx(pool[rng.Intn(len(pool))]))
		}
		return strings.Join(hs, ",")
	}
	switch rng.Intn(3) {
	case 0:
		return "name:" + hx(c06names[rng.Intn(len(c06names))])
	case 1:
		return "type:" + pickList(c06types)
	default:
		return "ns:" + pickList(c06ns)
	}
}

func c06packets() [][]string {
	var ps [][]string
	for _, t := range []string{"", "chat", "normal", "error", "groupchat"} {
		ps = append(ps, []string{"pkt", "message", hx(t), "~", hx("m1"), hx("a@x/r"), hx("b@y")})
	}
	for _, t := range []string{"", "subscribe", "error", "unavailable"} {
		ps = append(ps, []string{"pkt", "presence", hx(t), "~", hx("p1"), hx("a@x"), hx("b@y")})
	}
	for _, t := range []string{"get", "set", "result", "error", "", "GET"} {
		for _, ns := range []string{"~", hx("jabber:iq:version"), hx("urn:x"), hx("URN:X")} {
			ps = append(ps, []string{"pkt", "iq", hx(t), ns, hx("i<1>"), hx("srv"), hx("me@x/r")})
		}
	}
	// addressing variants of IQ requests: from the server itself (no from, as a server writes to its own client), no
	// to, neither, an id with markup; the automatic error must still be exactly one, id kept, from/to swapped
	for _, t := range []string{"get", "set"} {
		for _, ft := range [][2]string{{"", "me@x/r"}, {"srv", ""}, {"", ""}, {"a@x/r\"<", "b@y/'&"}} {
			f, to := "-", "-"
			if ft[0] != "" {
				f = hx(ft[0])
			}
			if ft[1] != "" {
				to = hx(ft[1])
			}
			ps = append(ps, []string{"pkt", "iq", hx(t), hx("urn:x"), hx("id-" + t), f, to})
		}
	}
	// requests without an id (or with an unusual one): the error carries the request's id - here none - and nothing else
	for _, t := range []string{"get", "set"} {
		ps = append(ps, []string{"pkt", "iq", hx(t), hx("urn:x"), "-", hx("srv"), hx("me@x/r")})
		ps = append(ps, []string{"pkt", "iq", hx(t), "~", "-", "-", "-"})
		ps = append(ps, []string{"pkt", "iq", hx(t), hx("urn:x"), hx(" "), hx("srv"), hx("me@x/r")})
	}
	// requests and responses whose payload nobody registered (kept in IQ.Any): unmatched requests get the same automatic
	// error as any other
	for _, t := range []string{"get", "set", "result", "error"} {
		ps = append(ps, []string{"pkt", "iq", hx(t), "@" + hx("urn:verif:unregistered"), hx("any-" + t), hx("srv"), hx("me@x/r")})
		ps = append(ps, []string{"pkt", "iq", hx(t), "@" + hx("jabber:iq:version"), hx("anyv-" + t), hx("a@x/r"), "-"})
	}
	for _, o := range []string{"other:streamerror", "other:smr", "other:sma", "other:features", "other:handshake"} {
		ps = append(ps, []string{"pkt", o, "-", "~", "-", "-", "-"})
	}
	return ps
}

func (c06) Generate(rng *rand.Rand, tier string, st *Stats) []Case {
	var cases []Case
	pkts := c06packets()
	// bounded-exhaustive: every table of <= 2 routes, each with <= 2 matchers from a fixed 9-matcher alphabet
	alpha := []string{"name:" + hx("message"), "name:" + hx("IQ"), "name:" + hx("presence"), "name:" + hx(""),
		"type:" + hx("get") + "," + hx("chat"), "type:" + hx("normal"), "type:",
		"ns:" + hx("jabber:iq:version"), "ns:" + hx("URN:X") + "," + hx("urn:y")}
	var routesets [][]string
	routesets = append(routesets, nil) // catch-all (no matchers)
	for _, a := range alpha {
		routesets = append(routesets, []string{a})
		for _, b := range alpha {
			routesets = append(routesets, []string{a, b})
		}
	}
	// concurrent routing (the client's receive loop starts one goroutine per packet)
	cases = append(cases, Case{ID: "conc", Ops: [][]string{{"conc", "8", "4000"}}})
	st.Inc("concurrent_routing")
	n := 0
	mk := func(routes [][]string) {
		var ops [][]string
		for _, r := range routes {
			ops = append(ops, append([]string{"route"}, r...))
		}
		ops = append(ops, pkts...)
		cases = append(cases, Case{ID: fmt.Sprintf("t%d", n), Ops: ops})
		n++
	}
	mk(nil) // empty table
	// the same packet name registered several times (set-up code that runs twice, a generic route and a narrower one
	// after it): every registration is a route of its own, the first one that accepts wins
	for _, nm := range []string{"iq", "message", "presence", "IQ"} {
		a := "name:" + hx(nm)
		mk([][]string{{a}, {a}})
		mk([][]string{{a}, {a, "ns:" + hx("jabber:iq:version")}, nil})
		mk([][]string{nil, {a}, {a, "type:" + hx("chat")}})
		mk([][]string{{a, "type:" + hx("get") + "," + hx("chat")}, {a}, {a}, nil})
		mk([][]string{{"name:" + hx("x")}, {a}, {"name:" + hx("x")}, {a}})
		st.Inc("same_name_twice")
	}
	for _, r1 := range routesets {
		mk([][]string{r1})
	}
	step := 1
	if tier != "thorough" {
		step = 7 // quick: a deterministic 1/7 slice of the pair space
	}
	k := 0
	for _, r1 := range routesets {
		for _, r2 := range routesets {
			if k%step == 0 {
				mk([][]string{r1, r2})
			}
			k++
		}
	}
	st.Exhaustive = tier == "thorough"
	st.Note(fmt.Sprintf("%d route shapes (0-2 matchers over a 9-matcher alphabet); all single-route tables; pair tables: %s; each table x %d packets covering every kind/type/payload", len(routesets), map[bool]string{true: "all", false: "every 7th"}[tier == "thorough"], len(pkts)))
	// random larger tables
	R := 300
	if tier == "thorough" {
		R = 5000
	}
	for i := 0; i < R; i++ {
		nr := rng.Intn(13)
		var routes [][]string
		for j := 0; j < nr; j++ {
			nm := rng.Intn(4)
			var ms []string
			for q := 0; q < nm; q++ {
				ms = append(ms, c06matcher(rng))
			}
			routes = append(routes, ms)
		}
		st.Add("random_routes", nr)
		mk(routes)
	}
	return cases
}
