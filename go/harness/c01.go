package main

import (
	"bytes"
	"encoding/xml"
	"fmt"
	"math/rand"
	"strconv"
	"strings"
	"unicode/utf8"

	"gosrc.io/xmpp/stanza"
)

// C01: stanza encode/decode round trip; text never injects XML.
type c01 struct{}

func init() { register("C01", c01{}) }

// escape through the two entry points of encoding/xml's escapeText:
// nl=true: xml.EscapeText (attribute values, reflection path); nl=false: Encoder.EncodeToken(CharData).
func c01escape(nl bool, s string) string {
	var b bytes.Buffer
	if nl {
		xml.EscapeText(&b, []byte(s))
		return b.String()
	}
	e := xml.NewEncoder(&b)
	if err := e.EncodeToken(xml.CharData(s)); err != nil {
		return "ERR"
	}
	e.Flush()
	return b.String()
}

func (c01) Exec(c Case) []string {
	var obs []string
	for _, op := range c.Ops {
		obs = append(obs, c01exec(op))
	}
	return obs
}

func c01exec(op []string) (out string) {
	defer func() {
		if r := recover(); r != nil {
			out = "panic"
		}
	}()
	switch op[0] {
	case "escape":
		return hx(c01escape(op[1] == "true", unhx(op[2])))
	case "escrange":
		nl := op[1] == "true"
		lo, _ := strconv.Atoi(op[2])
		hi, _ := strconv.Atoi(op[3])
		var items []string
		for r := lo; r < hi; r++ {
			if r >= 0xD800 && r <= 0xDFFF {
				continue
			}
			s := string(rune(r))
			if e := c01escape(nl, s); e != s {
				items = append(items, strconv.Itoa(r)+"="+hx(e))
			}
		}
		return strings.Join(items, ",")
	case "body":
		s := unhx(op[1])
		b, err := xml.Marshal(stanza.Message{Body: s})
		if err != nil {
			return "err:marshal"
		}
		inner := ""
		if i := bytes.Index(b, []byte("<body>")); i >= 0 {
			j := bytes.LastIndex(b, []byte("</body>"))
			if j < i {
				return "err:shape"
			}
			inner = string(b[i+len("<body>") : j])
		}
		var m stanza.Message
		if err := xml.Unmarshal(b, &m); err != nil {
			return "err:unmarshal"
		}
		return hx(inner) + " " + hx(m.Body)
	case "node":
		return c01nodeOp(unhx(op[1]), op[2:])
	case "flat":
		return c01flatOp(op[1], unhx(op[2]), op[3:])
	case "smfailed":
		return c01smFailedOp(unhx(op[1]), op[2:])
	case "err":
		return c01errOp(unhx(op[1]), op[2:])
	case "msg":
		return c01msgOp(unhx(op[1]), op[2:])
	case "pres":
		return c01presOp(unhx(op[1]), op[2:])
	case "iq":
		return c01iqOp(unhx(op[1]), op[2:])
	case "schema":
		if len(op) < 5 {
			return "bad-op"
		}
		return c01schemaOp(op[1], op[2], unhx(op[3]), op[4:])
	case "dispatch":
		if len(op) < 6 {
			return "bad-op"
		}
		return c01dispatchOp(op[1], op[2], unhx(op[3]), op[4:])
	case "command":
		if len(op) < 4 {
			return "bad-op"
		}
		return c01commandOp(op[1], unhx(op[2]), op[3:])
	case "msgx":
		return c01msgxOp(unhx(op[1]), op[2:])
	case "presx":
		return c01presxOp(unhx(op[1]), op[2:])
	case "iqx":
		return c01iqxOp(unhx(op[1]), op[2:])
	case "sample":
		seed, err := strconv.ParseInt(op[3], 10, 64)
		if err != nil {
			return "bad-op"
		}
		o := c01sampleOp(op[1], op[2], seed)
		c01record(op[1], op[2], op[3], o)
		return o
	}
	return "bad-op"
}

// the metacharacter-heavy alphabet of the property's quantifier
var c01alpha = []string{"<", ">", "&", "\"", "'", "]]>", "\t", "\r", "\n", " ", "a", "é", "日", "😀", ";", "#", "&amp;", "&#xD;", "\u0085", "\u2028", "\ufffd", "x"}

func c01randText(rng *rand.Rand, max int) string {
	k := rng.Intn(max + 1)
	var sb strings.Builder
	for i := 0; i < k; i++ {
		sb.WriteString(c01alpha[rng.Intn(len(c01alpha))])
	}
	s := sb.String()
	switch rng.Intn(6) {
	case 0:
		s = " " + s
	case 1:
		s = s + " "
	case 2:
		s = "\n " + s + "\t"
	}
	return s
}

func (c01) Generate(rng *rand.Rand, tier string, st *Stats) []Case {
	var cases []Case
	n := 0
	add := func(op ...string) {
		cases = append(cases, Case{ID: fmt.Sprintf("c%d", n), Ops: [][]string{op}})
		n++
	}
	// ---- stage 1: characters -------------------------------------------------------------------------------
	corpus := []string{"", "a", "<", ">", "&", "\"", "'", "]]>", "\r", "\n", "\t", "\r\n", " a ", "a\r\nb", "<![CDATA[x]]>",
		"&amp;", "&#xD;", "&lt;inj/&gt;", "x><inj/><y", "</body><body>", "\x00", "\x0b", "\ufffe", "\uffff", "\ufffd", "é日😀",
		"\U0010ffff", "\ud7ff\ue000"}
	for _, s := range corpus {
		add("escape", "true", hx(s))
		add("escape", "false", hx(s))
		add("body", hx(s))
		st.Inc("esc_corpus")
	}
	// every code point, both modes
	for _, nl := range []string{"true", "false"} {
		for lo := 0; lo < 0x110000; lo += 0x2000 {
			add("escrange", nl, strconv.Itoa(lo), strconv.Itoa(lo+0x2000))
		}
	}
	st.Note("escaper compared with the model on every code point 0..0x10FFFF (surrogates excluded), both escapeNewline modes")
	st.Exhaustive = true
	// all strings of length <= 2 over a 12-letter metacharacter alphabet through Message.Body
	small := []string{"<", ">", "&", "\"", "'", "]", "\r", "\n", "\t", " ", "a", ";"}
	for _, a := range small {
		for _, b := range small {
			add("body", hx(a+b))
			st.Inc("body_pairs")
		}
	}
	R := 1500
	if tier == "thorough" {
		R = 30000
	}
	for i := 0; i < R; i++ {
		s := c01randText(rng, 8)
		switch rng.Intn(3) {
		case 0:
			add("escape", "true", hx(s))
		case 1:
			add("escape", "false", hx(s))
		default:
			add("body", hx(s))
		}
		st.Inc("esc_random")
	}
	// ---- stage 2: generic Node trees -------------------------------------------------------------------------
	c01genNodes(rng, tier, st, add)
	// ---- stage 3: envelopes and nonzas ------------------------------------------------------------------------
	c01genStanzas(rng, tier, st, add)
	// ---- stage 3b: schema-coded types (generic codec of Model/C01Schema.lean) -------------------------------------------
	c01genSchema(rng, tier, st, add)
	c01genCompose(rng, tier, st, add)
	c01genDispatch(rng, tier, st, add)
	c01genCommand(rng, tier, st, add)
	// ---- stage 4: every registered type, sampled -----------------------------------------------------------------
	c01genSamples(rng, tier, st, add)
	// invalid UTF-8 is outside the Lean model: Go-side only, "no markup character survives"
	bad := 0
	for i := 0; i < 2000; i++ {
		b := make([]byte, 1+rng.Intn(6))
		for j := range b {
			b[j] = []byte{'<', '&', 0xff, 0xc3, 0x80, 0xed, 0xa0, '"'}[rng.Intn(8)]
		}
		if utf8.Valid(b) {
			continue
		}
		e := c01escape(true, string(b))
		if strings.ContainsAny(e, "<>\"'") || !utf8.ValidString(e) {
			bad++
		}
	}
	st.Extra["invalid_utf8_escape_failures"] = strconv.Itoa(bad)
	return cases
}
