package main

import (
	"bytes"
	"encoding/xml"
	"fmt"
	"math/rand"
	"reflect"
	"sort"
	"strconv"
	"strings"
	"time"

	"gosrc.io/xmpp/stanza"
)

// Stage 4 of C01: breadth by sampling over EVERY registered type (no Lean model behind these ops).
// op: sample <kind> <Type> <seed>   kind = msgext | presext | iqpayload | packet | unmarshal | msgmix
// observation: rt-ok | rt-fail <class> <path> <hex xml>
//   class: marshal | parse | kind (other packet type) | value (dump differs) | bytes (second serialization differs) |
//          shape (element skeleton depends on text)
//   path:  first differing field path (types and field names, no indices)

var (
	c01typeName     = reflect.TypeOf(xml.Name{})
	c01typeTime     = reflect.TypeOf(time.Time{})
	c01typeNode     = reflect.TypeOf(stanza.Node{})
	c01typeErr      = reflect.TypeOf(stanza.Err{})
	c01typeNullInt  = reflect.TypeOf(stanza.NullableInt{})
	c01typeCtlField = reflect.TypeOf(stanza.ControlField{})
	c01typeMsgX     = reflect.TypeOf((*stanza.MsgExtension)(nil)).Elem()
	c01typePreX     = reflect.TypeOf((*stanza.PresExtension)(nil)).Elem()
	c01typeIQPl     = reflect.TypeOf((*stanza.IQPayload)(nil)).Elem()
)

// implementers of the interface-typed fields of stanza, per interface (hand-listed: reflection cannot enumerate a
// package, and the method sets overlap: several of these interfaces are just `Name() string`)
var c01implFor = map[string][]interface{}{
	"Packet":         {&stanza.Message{}, &stanza.Presence{}, &stanza.IQ{}},
	"CommandElement": {&stanza.Actions{}, &stanza.Note{}, &stanza.Form{}, &stanza.Node{}},
	"EventElement": {&stanza.CollectionEvent{}, &stanza.ConfigurationEvent{}, &stanza.DeleteEvent{}, &stanza.ItemsEvent{},
		&stanza.PurgeEvent{}, &stanza.SubscriptionEvent{}},
	"AssocDisassoc": {&stanza.AssociateEvent{}, &stanza.DisassociateEvent{}},
	"OwnerUseCase": {&stanza.AffiliationsOwner{}, &stanza.ConfigureOwner{}, &stanza.DefaultOwner{}, &stanza.DeleteOwner{},
		&stanza.PurgeOwner{}, &stanza.SubscriptionsOwner{}},
}

type c01reg struct {
	kind string // msgext | presext | iqpayload
	name xml.Name
	typ  reflect.Type
}

func c01registry() []c01reg {
	var out []c01reg
	for _, e := range stanza.VerifRegistryEntries() {
		k := map[stanza.PacketType]string{stanza.PKTMessage: "msgext", stanza.PKTPresence: "presext", stanza.PKTIQ: "iqpayload"}[e.Packet]
		out = append(out, c01reg{k, e.Name, e.Type})
	}
	return out
}

// top-level types: decodable by NextPacket inside a stream ("packet") or only by xml.Unmarshal ("unmarshal")
var c01topTypes = []struct {
	kind string
	typ  reflect.Type
	ns   string // default namespace of the stream wrapper
}{
	{"packet", reflect.TypeOf(stanza.Message{}), "jabber:client"},
	{"packet", reflect.TypeOf(stanza.Presence{}), "jabber:client"},
	{"packet", reflect.TypeOf(stanza.IQ{}), "jabber:client"},
	{"packet", reflect.TypeOf(stanza.SMEnabled{}), "jabber:client"},
	{"packet", reflect.TypeOf(stanza.SMRequest{}), "jabber:client"},
	{"packet", reflect.TypeOf(stanza.SMAnswer{}), "jabber:client"},
	{"packet", reflect.TypeOf(stanza.SMResumed{}), "jabber:client"},
	{"packet", reflect.TypeOf(stanza.SMResume{}), "jabber:client"},
	{"packet", reflect.TypeOf(stanza.SMFailed{}), "jabber:client"},
	{"packet", reflect.TypeOf(stanza.Handshake{}), "jabber:component:accept"},
	{"unmarshal", reflect.TypeOf(stanza.SMEnable{}), ""},
	{"unmarshal", reflect.TypeOf(stanza.SASLAuth{}), ""},
	{"unmarshal", reflect.TypeOf(stanza.Err{}), ""},
	{"unmarshal", reflect.TypeOf(stanza.Node{}), ""},
}

// ---- type-directed generator ------------------------------------------------------------------------------------------

type c01gen struct {
	rng *rand.Rand
	reg []c01reg
}

func (g *c01gen) text(tag string) string {
	switch {
	case strings.Contains(tag, ",innerxml"):
		// raw by design: plain character data only
		return []string{"", "AGFiYw==", "plain text", "x"}[g.rng.Intn(4)]
	case strings.Contains(tag, ",cdata"):
		// CDATA sections are not escaped: make sure the end-of-line characters are exercised
		return []string{"", "a\r\nb", "]]>", "\r"}[g.rng.Intn(4)] + c01randText(g.rng, 3)
	case g.rng.Intn(3) == 0:
		return ""
	}
	return c01randText(g.rng, 5)
}

func (g *c01gen) candidates(it reflect.Type) []reflect.Type {
	var out []reflect.Type
	switch it {
	case c01typeMsgX:
		for _, r := range g.reg {
			if r.kind == "msgext" {
				out = append(out, r.typ)
			}
		}
		return out
	case c01typePreX:
		for _, r := range g.reg {
			if r.kind == "presext" {
				out = append(out, r.typ)
			}
		}
		return out
	case c01typeIQPl:
		for _, r := range g.reg {
			if r.kind == "iqpayload" {
				out = append(out, reflect.PtrTo(r.typ))
			}
		}
		return out
	}
	// the method sets of these interfaces overlap (several have just Name() string): candidates are listed per interface
	for _, p := range c01implFor[it.Name()] {
		pt := reflect.TypeOf(p)
		if pt.Elem().Implements(it) {
			out = append(out, pt.Elem())
		} else if pt.Implements(it) {
			out = append(out, pt)
		}
	}
	if it.Name() == "StanzaErrorGroup" {
		for _, e := range c01streamErrs {
			out = append(out, reflect.TypeOf(e))
		}
	}
	return out
}

// fill sets v (addressable) to a random value of its type.
func (g *c01gen) fill(v reflect.Value, depth int, tag string) {
	t := v.Type()
	switch {
	case t == c01typeName, t == c01typeTime:
		return
	case t == c01typeNode:
		budget := 0
		v.Set(reflect.ValueOf(c01randNode(g.rng, g.rng.Intn(3), "x", 0, &budget)))
		return
	case t == c01typeErr:
		// tag "nonempty": behind a pointer or at top level (the empty Err has no wire form)
		if tag == "nonempty" || g.rng.Intn(2) == 0 {
			e := c01parseErr(c01randErrFields(g.rng, 1))
			if e.Type == "" {
				e.Type = "cancel"
			}
			v.Set(reflect.ValueOf(e))
		}
		return
	case t == c01typeNullInt:
		if g.rng.Intn(2) == 0 {
			v.Set(reflect.ValueOf(stanza.NewNullableInt([]int{0, 1, -1, 250}[g.rng.Intn(4)])))
		}
		return
	case t == c01typeCtlField:
		// the element NAME is the value of XMLName (raw by design); with its own namespace, or none
		f := stanza.ControlField{Name: g.text(""), Value: g.text("")}
		f.XMLName.Local = []string{"boolean", "int", "string", "x-1"}[g.rng.Intn(4)]
		f.XMLName.Space = "urn:xmpp:iot:control"
		v.Set(reflect.ValueOf(f))
		return
	}
	switch t.Kind() {
	case reflect.String:
		v.SetString(g.text(tag))
	case reflect.Bool:
		v.SetBool(g.rng.Intn(2) == 0)
	case reflect.Int, reflect.Int8, reflect.Int16, reflect.Int32, reflect.Int64:
		v.SetInt(int64([]int{0, 0, 1, -1, 7, 100, -100}[g.rng.Intn(7)]))
	case reflect.Uint, reflect.Uint8, reflect.Uint16, reflect.Uint32, reflect.Uint64:
		v.SetUint(uint64([]int{0, 0, 1, 7, 200}[g.rng.Intn(5)]))
	case reflect.Float32, reflect.Float64:
		v.SetFloat([]float64{0, 1.5, -2}[g.rng.Intn(3)])
	case reflect.Ptr:
		if depth <= 0 || g.rng.Intn(3) == 0 {
			return
		}
		p := reflect.New(t.Elem())
		if t.Elem() == c01typeErr {
			tag = "nonempty"
		}
		g.fill(p.Elem(), depth-1, tag)
		v.Set(p)
	case reflect.Slice:
		if t.Elem().Kind() == reflect.Uint8 {
			v.SetBytes([]byte(g.text(tag)))
			return
		}
		if depth <= 0 {
			return
		}
		n := g.rng.Intn(3)
		for i := 0; i < n; i++ {
			e := reflect.New(t.Elem()).Elem()
			g.fill(e, depth-1, tag)
			if (e.Kind() == reflect.Interface || e.Kind() == reflect.Ptr) && e.IsNil() {
				continue
			}
			v.Set(reflect.Append(v, e))
		}
	case reflect.Struct:
		for i := 0; i < t.NumField(); i++ {
			f := t.Field(i)
			ftag := f.Tag.Get("xml")
			if f.PkgPath != "" || ftag == "-" || f.Anonymous && f.Type.Kind() == reflect.Interface {
				continue
			}
			g.fill(v.Field(i), depth-1, ftag)
		}
	case reflect.Interface:
		cs := g.candidates(t)
		if depth <= 0 || len(cs) == 0 || g.rng.Intn(4) == 0 {
			return
		}
		ct := cs[g.rng.Intn(len(cs))]
		var cv reflect.Value
		if ct.Kind() == reflect.Ptr {
			cv = reflect.New(ct.Elem())
			g.fill(cv.Elem(), depth-1, "")
		} else {
			cv = reflect.New(ct).Elem()
			g.fill(cv, depth-1, "")
			if g.rng.Intn(2) == 0 && reflect.PtrTo(ct).Implements(t) {
				p := reflect.New(ct)
				p.Elem().Set(cv)
				cv = p
			}
		}
		if cv.Type().Implements(t) {
			v.Set(cv)
		}
	}
}

// ---- canonical dump / first difference ---------------------------------------------------------------------------------

func c01skipField(f reflect.StructField) bool {
	if f.PkgPath != "" {
		return true
	}
	// a tagged XMLName is determined by the type, not part of the value
	if f.Name == "XMLName" && f.Type == c01typeName && f.Tag.Get("xml") != "" {
		return true
	}
	return f.Anonymous && f.Type.Kind() == reflect.Interface
}

func c01deref(v reflect.Value) reflect.Value {
	for v.IsValid() && (v.Kind() == reflect.Ptr || v.Kind() == reflect.Interface) && !v.IsNil() {
		v = v.Elem()
	}
	return v
}

func c01isNilish(v reflect.Value) bool {
	if !v.IsValid() {
		return true
	}
	switch v.Kind() {
	case reflect.Ptr, reflect.Interface:
		return v.IsNil()
	case reflect.Slice:
		return v.Len() == 0
	}
	return false
}

// c01diff returns "" when a and b are equal up to: nil vs empty slice, pointer vs value, tagged XMLName fields.
// Otherwise the path of the first difference.
func c01diff(a, b reflect.Value, path string) string {
	if c01isNilish(a) || c01isNilish(b) {
		if c01isNilish(a) && c01isNilish(b) {
			return ""
		}
		return path + ":nil"
	}
	if a.Kind() == reflect.Ptr || a.Kind() == reflect.Interface || b.Kind() == reflect.Ptr || b.Kind() == reflect.Interface {
		a, b = c01deref(a), c01deref(b)
		if a.Type() != b.Type() {
			return path + ":type(" + a.Type().Name() + "/" + b.Type().Name() + ")"
		}
		return c01diff(a, b, path+"("+a.Type().Name()+")")
	}
	if a.Type() != b.Type() {
		return path + ":type"
	}
	switch a.Kind() {
	case reflect.Struct:
		if a.Type() == c01typeTime {
			if !a.Interface().(time.Time).Equal(b.Interface().(time.Time)) {
				return path + ":time"
			}
			return ""
		}
		if a.Type() == c01typeNullInt {
			av, aok := a.Interface().(stanza.NullableInt).Get()
			bv, bok := b.Interface().(stanza.NullableInt).Get()
			if aok != bok || (aok && av != bv) {
				return path
			}
			return ""
		}
		for i := 0; i < a.NumField(); i++ {
			f := a.Type().Field(i)
			if c01skipField(f) {
				continue
			}
			// an untagged XMLName left empty is filled in by the decoder with the name that was read
			if f.Name == "XMLName" && f.Type == c01typeName && a.Field(i).IsZero() {
				continue
			}
			if d := c01diff(a.Field(i), b.Field(i), path+"."+f.Name); d != "" {
				return d
			}
		}
		return ""
	case reflect.Slice:
		if a.Len() != b.Len() {
			return path + ":len"
		}
		for i := 0; i < a.Len(); i++ {
			if d := c01diff(a.Index(i), b.Index(i), path+"[]"); d != "" {
				return d
			}
		}
		return ""
	case reflect.String:
		if a.String() != b.String() {
			return path
		}
	case reflect.Bool:
		if a.Bool() != b.Bool() {
			return path
		}
	case reflect.Int, reflect.Int8, reflect.Int16, reflect.Int32, reflect.Int64:
		if a.Int() != b.Int() {
			return path
		}
	case reflect.Uint, reflect.Uint8, reflect.Uint16, reflect.Uint32, reflect.Uint64:
		if a.Uint() != b.Uint() {
			return path
		}
	case reflect.Float32, reflect.Float64:
		if a.Float() != b.Float() {
			return path
		}
	}
	return ""
}

// c01neutral: a deep copy of v in which every string that is not already a plain ASCII name is replaced by "x"
// (element and attribute names held in xml.Name values are kept).
func c01neutral(v reflect.Value) reflect.Value {
	out := reflect.New(v.Type()).Elem()
	switch v.Kind() {
	case reflect.String:
		s := v.String()
		if s != "" && !c01isName(s) {
			s = "x"
		}
		out.SetString(s)
	case reflect.Ptr:
		if !v.IsNil() {
			p := reflect.New(v.Type().Elem())
			p.Elem().Set(c01neutral(v.Elem()))
			out.Set(p)
		}
	case reflect.Interface:
		if !v.IsNil() {
			out.Set(c01neutral(v.Elem()))
		}
	case reflect.Slice:
		if !v.IsNil() {
			out.Set(reflect.MakeSlice(v.Type(), v.Len(), v.Len()))
			for i := 0; i < v.Len(); i++ {
				out.Index(i).Set(c01neutral(v.Index(i)))
			}
		}
	case reflect.Struct:
		if v.Type() == c01typeName || v.Type() == c01typeTime {
			out.Set(v)
			return out
		}
		out.Set(v) // keeps the unexported fields (NullableInt.isSet)
		for i := 0; i < v.NumField(); i++ {
			if v.Type().Field(i).PkgPath != "" {
				continue
			}
			out.Field(i).Set(c01neutral(v.Field(i)))
		}
	default:
		out.Set(v)
	}
	return out
}

func c01isName(s string) bool {
	for i, r := range s {
		ok := r == '_' || (r >= 'a' && r <= 'z') || (r >= 'A' && r <= 'Z')
		if i > 0 {
			ok = ok || r == '-' || r == '.' || (r >= '0' && r <= '9')
		}
		if !ok {
			return false
		}
	}
	return s != ""
}

func c01shapeOf(b []byte) string {
	d := xml.NewDecoder(bytes.NewReader(b))
	var sh []string
	for {
		t, err := d.Token()
		if err != nil {
			if len(sh) > 0 && err.Error() == "EOF" {
				return strings.Join(sh, " ")
			}
			return "err"
		}
		switch t := t.(type) {
		case xml.StartElement:
			sh = append(sh, "<"+t.Name.Local)
		case xml.EndElement:
			sh = append(sh, ">")
		}
	}
}

// ---- one sample -----------------------------------------------------------------------------------------------------------

type c01sampleT struct {
	kind string
	name string
	typ  reflect.Type
	ns   string
}

func c01sampleTypes() []c01sampleT {
	var out []c01sampleT
	for _, r := range c01registry() {
		out = append(out, c01sampleT{r.kind, r.typ.Name(), r.typ, "jabber:client"})
	}
	out = append(out, c01sampleT{"cmd-elements", "Command", reflect.TypeOf(stanza.Command{}), "jabber:client"})
	// Roster is registered too, but under the same key as RosterItems, which replaces it
	out = append(out, c01sampleT{"iqpayload", "Roster", reflect.TypeOf(stanza.Roster{}), "jabber:client"})
	for _, t := range c01topTypes {
		out = append(out, c01sampleT{t.kind, t.typ.Name(), t.typ, t.ns})
	}
	return out
}

// c01build makes the top-level value for a sample: the type itself, or a stanza carrying it.
func c01build(g *c01gen, st c01sampleT) interface{} {
	mk := func(t reflect.Type, depth int) reflect.Value {
		p := reflect.New(t)
		g.fill(p.Elem(), depth, "")
		return p
	}
	attrs := func() stanza.Attrs { return c01parseAttrs(c01randAttrFields(g.rng)) }
	switch st.kind {
	case "msgext":
		m := stanza.Message{Attrs: attrs(), Body: g.text("")}
		e := mk(st.typ, 4)
		if g.rng.Intn(2) == 0 {
			m.Extensions = []stanza.MsgExtension{e.Interface()}
		} else {
			m.Extensions = []stanza.MsgExtension{e.Elem().Interface()}
		}
		return m
	case "msgmix":
		m := stanza.Message{Attrs: attrs(), Subject: g.text(""), Body: g.text(""), Thread: g.text("")}
		var ts []reflect.Type
		for _, r := range g.reg {
			if r.kind == "msgext" {
				ts = append(ts, r.typ)
			}
		}
		g.rng.Shuffle(len(ts), func(i, j int) { ts[i], ts[j] = ts[j], ts[i] })
		for _, t := range ts[:g.rng.Intn(5)] {
			m.Extensions = append(m.Extensions, mk(t, 3).Interface())
		}
		return m
	case "presext":
		p := stanza.Presence{Attrs: attrs(), Status: g.text("")}
		p.Extensions = []stanza.PresExtension{mk(st.typ, 4).Interface()}
		return p
	case "iqpayload":
		q := stanza.IQ{Attrs: attrs()}
		q.Payload = mk(st.typ, 4).Interface().(stanza.IQPayload)
		return &q
	case "cmd-elements":
		// a Command made of attributes and command elements only (no error flags, no result set)
		c := mk(st.typ, 4).Interface().(*stanza.Command)
		c.BadAction, c.BadLocale, c.BadPayload, c.BadSessionId, c.MalformedAction, c.SessionExpired, c.ResultSet = nil, nil, nil, nil, nil, nil, nil
		return &stanza.IQ{Attrs: attrs(), Payload: c}
	}
	if st.typ == c01typeErr {
		p := reflect.New(st.typ)
		g.fill(p.Elem(), 4, "nonempty")
		return p.Interface()
	}
	return mk(st.typ, 4).Interface()
}

func c01sampleOp(kind, name string, seed int64) string {
	var st *c01sampleT
	for _, t := range c01sampleTypes() {
		if t.kind == kind && t.name == name {
			tt := t
			st = &tt
		}
	}
	if kind == "msgmix" {
		st = &c01sampleT{"msgmix", "Message", reflect.TypeOf(stanza.Message{}), "jabber:client"}
	}
	if st == nil {
		return "bad-op"
	}
	g := &c01gen{rng: rand.New(rand.NewSource(seed)), reg: c01registry()}
	v := c01build(g, *st)
	fail := func(class, path string, b []byte) string {
		if path == "" {
			path = "-"
		}
		return "rt-fail " + class + " " + strings.ReplaceAll(path, " ", "_") + " " + hx(string(b))
	}
	b, err := xml.Marshal(v)
	if err != nil {
		return fail("marshal", "", nil)
	}
	var back interface{}
	if st.kind == "unmarshal" {
		p := reflect.New(st.typ)
		if err := xml.Unmarshal(b, p.Interface()); err != nil {
			return fail("parse", "", b)
		}
		back = p.Interface()
	} else {
		var w bytes.Buffer
		w.WriteString(`<stream:stream xmlns="` + st.ns + `" xmlns:stream="http://etherx.jabber.org/streams" version="1.0" id="s1">`)
		w.Write(b)
		d := xml.NewDecoder(&w)
		if _, err := stanza.InitStream(d); err != nil {
			return fail("parse", "stream", b)
		}
		p, err := stanza.NextPacket(d)
		if err != nil {
			return fail("parse", "", b)
		}
		back = p
	}
	a0, b0 := c01deref(reflect.ValueOf(v)), c01deref(reflect.ValueOf(back))
	if a0.Type() != b0.Type() {
		return fail("kind", b0.Type().Name(), b)
	}
	if d := c01diff(a0, b0, a0.Type().Name()); d != "" {
		return fail("value", d, b)
	}
	b2, err := xml.Marshal(back)
	if err != nil || !bytes.Equal(b, b2) {
		return fail("bytes", "", b)
	}
	// text never injects XML: the skeleton must not depend on what the strings contain
	nv := c01neutral(reflect.ValueOf(v))
	nb, err := xml.Marshal(nv.Interface())
	if err != nil || c01shapeOf(nb) != c01shapeOf(b) || c01shapeOf(b) == "err" {
		return fail("shape", "", b)
	}
	return "rt-ok"
}

// ---- generator and the per-type table -------------------------------------------------------------------------------------

var c01modelled = map[string]string{
	"Message": "modelled (envelope, Err; extensions sampled)", "Presence": "modelled (envelope, Err; extensions sampled)",
	"IQ": "modelled (envelope, Err, Any; registered payloads sampled)", "Err": "modelled", "Node": "modelled",
	"SMEnable": "modelled", "SMEnabled": "modelled", "SMRequest": "modelled", "SMAnswer": "modelled", "SMResumed": "modelled",
	"SMResume": "modelled", "SMFailed": "modelled", "SASLAuth": "modelled", "Handshake": "modelled",
}

type c01row struct {
	cases, fails int
	classes      map[string]int
	first        string
}

var (
	c01stats *Stats // set by Generate; the rows are filled while the cases are executed
	c01table = map[string]*c01row{}
)

// c01record updates the per-type table in stats.Extra after one executed sample.
func c01record(kind, name, seed, obs string) {
	if c01stats == nil {
		return
	}
	key := kind + ":" + name
	r := c01table[key]
	if r == nil {
		r = &c01row{classes: map[string]int{}}
		c01table[key] = r
	}
	r.cases++
	if obs != "rt-ok" {
		r.fails++
		f := strings.Fields(obs)
		if len(f) >= 3 {
			r.classes[f[1]+":"+f[2]]++
		}
		if r.first == "" {
			r.first = "first failing seed=" + seed
		}
	}
	cov := c01modelled[name]
	if cov == "" || kind == "msgext" || kind == "presext" || kind == "iqpayload" {
		cov = "sampled-only"
		if (kind == "msgext" || kind == "presext" || kind == "iqpayload") && c01sIsModelled(name) {
			cov = "modelled (schema codec, C01_roundtrip_" + name + "; also sampled here inside its stanza)"
		}
		if _, ok := c01sDispatch[name]; (ok || name == "Command") && (kind == "msgext" || kind == "iqpayload" || kind == "cmd-elements") {
			cov = "modelled by hand over the schema codec (dispatch decoder, C01_roundtrip_" + name + "; class excludes the recorded regions); also sampled here inside its stanza"
		}
	}
	var cl []string
	for c, n := range r.classes {
		cl = append(cl, fmt.Sprintf("%s x%d", c, n))
	}
	sort.Strings(cl)
	c01stats.Extra["type "+key] = strings.TrimSpace(fmt.Sprintf("%s; cases=%d rt-fail=%d %s %s", cov, r.cases, r.fails, strings.Join(cl, ", "), r.first))
}

func c01genSamples(rng *rand.Rand, tier string, st *Stats, add func(op ...string)) {
	per := 40
	if tier == "thorough" {
		per = 600
	}
	c01stats = st
	n := 0
	// types whose samples mostly land in the region of a recorded finding get a small fixed number of cases
	// (the orchestrator examines at most 200 violating cases per run)
	few := map[string]int{"iqpayload:Roster": 4, "iqpayload:Command": 8, "iqpayload:PubSubOwner": 8, "msgext:PubSubEvent": 10}
	if tier == "thorough" {
		// these carry random registered payloads / extensions, a fraction of which lands in those regions
		few["cmd-elements:Command"], few["msgmix:Message"], few["packet:IQ"] = 60, 120, 120
	}
	run := func(kind, name string) {
		n++
		k := per
		if f, ok := few[kind+":"+name]; ok {
			k = f
		}
		for i := 0; i < k; i++ {
			add("sample", kind, name, strconv.FormatInt(rng.Int63n(1<<40), 10))
		}
	}
	// corpus: the witness of the repaired F-01j (HTML.Lang) and of the recorded findings of the sampled types
	add("sample", "msgext", "HTML", "884273109335")
	add("sample", "cmd-elements", "Command", "1049727456487")
	for _, t := range c01sampleTypes() {
		run(t.kind, t.name)
	}
	run("msgmix", "Message")
	st.Extra["coverage modelled"] = "Message(envelope+Err), Presence(envelope+Err), IQ(envelope+Err+Any), Err, Node, SMEnable, SMEnabled, SMRequest, SMAnswer, SMResumed, SMResume, SMFailed, SASLAuth, Handshake"
	st.Extra["coverage modelled"] += "; schema codec (one generic theorem, schemas regenerated from the struct tags): " + strings.Join(c01sModelled, ", ") + "; hand-written decoders modelled by hand: PubSubOwner, PubSubEvent, Command (Note.Text `,cdata` excluded); composition: Message / Presence / IQ with modelled extensions / payload"
	st.Extra["coverage uncovered"] = "no Lean model (sampled only): ControlSet (`,any` slice of elements with dynamic names), HTML (xml:lang attribute, `,innerxml` body), and a stanza TOGETHER with its extensions / payload (rows `type msgmix:*`, `packet:*`); not exercised at all: StreamFeatures, StreamError, SASLSuccess, SASLFailure, TLSProceed, Tune, Mood"
	st.Extra["raw by design"] = "element/attribute names: Node.XMLName, Node.Attrs[].Name, Err.Reason, ControlField.XMLName; innerxml: SASLAuth.Value, Handshake.Value, HTMLBody.InnerXML (generated as plain names / plain character data)"
	st.Note(fmt.Sprintf("sampling: %d type-directed random values for each of %d registered / top-level types through marshal -> stream -> NextPacket (or xml.Unmarshal) -> dump comparison -> second marshal -> skeleton independence", per, n))
}
