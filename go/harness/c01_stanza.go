package main

import (
	"encoding/xml"
	"math/rand"
	"reflect"
	"strconv"
	"strings"

	"gosrc.io/xmpp/stanza"
)

// c01rt: marshal v, look at the bytes with a decoder under the default namespace ctx, decode into a fresh value,
// marshal that again. Returns the five sections of the observation.
func c01rt(ctx string, v interface{}, fresh func() interface{}, show func(interface{}) string) string {
	b, err := xml.Marshal(v)
	if err != nil {
		return "err:marshal"
	}
	if len(b) == 0 {
		return "-;err;err;err;err"
	}
	toks, shape := c01tokens(ctx, b)
	back, xml2 := "err", "err"
	v2 := fresh()
	if err := c01decode(ctx, b, v2); err == nil {
		back = show(v2)
		if b2, err := xml.Marshal(v2); err == nil {
			xml2 = hx(string(b2))
		}
	}
	return strings.Join([]string{hx(string(b)), toks, back, xml2, shape}, ";")
}

// ---- reflection-coded nonzas ----------------------------------------------------------------------------------------

var c01flatTypes = map[string]reflect.Type{
	"SMEnable": reflect.TypeOf(stanza.SMEnable{}), "SMEnabled": reflect.TypeOf(stanza.SMEnabled{}),
	"SMRequest": reflect.TypeOf(stanza.SMRequest{}), "SMAnswer": reflect.TypeOf(stanza.SMAnswer{}),
	"SMResumed": reflect.TypeOf(stanza.SMResumed{}), "SMResume": reflect.TypeOf(stanza.SMResume{}),
	"SASLAuth": reflect.TypeOf(stanza.SASLAuth{}), "Handshake": reflect.TypeOf(stanza.Handshake{}),
}
var c01flatNames = []string{"SMEnable", "SMEnabled", "SMRequest", "SMAnswer", "SMResumed", "SMResume", "SASLAuth", "Handshake"}

// attribute fields in declaration order, then the innerxml field (if any)
func c01flatFields(t reflect.Type) (attrs []int, inner int) {
	inner = -1
	for i := 0; i < t.NumField(); i++ {
		tag := t.Field(i).Tag.Get("xml")
		switch {
		case t.Field(i).Name == "XMLName":
		case strings.Contains(tag, ",attr"):
			attrs = append(attrs, i)
		case strings.Contains(tag, ",innerxml"):
			inner = i
		}
	}
	return
}

func c01flatSet(f reflect.Value, s string) bool {
	switch f.Kind() {
	case reflect.String:
		f.SetString(unhx(s))
	case reflect.Uint:
		n, err := strconv.ParseUint(s, 10, 64)
		if err != nil {
			return false
		}
		f.SetUint(n)
	case reflect.Ptr:
		if s == "nil" {
			return true
		}
		p := reflect.New(f.Type().Elem())
		switch p.Elem().Kind() {
		case reflect.Uint:
			n, err := strconv.ParseUint(s, 10, 64)
			if err != nil {
				return false
			}
			p.Elem().SetUint(n)
		case reflect.Bool:
			p.Elem().SetBool(s == "true")
		default:
			return false
		}
		f.Set(p)
	default:
		return false
	}
	return true
}

func c01flatShowField(f reflect.Value) string {
	switch f.Kind() {
	case reflect.String:
		return hx(f.String())
	case reflect.Uint:
		return strconv.FormatUint(f.Uint(), 10)
	case reflect.Ptr:
		if f.IsNil() {
			return "nil"
		}
		if f.Elem().Kind() == reflect.Bool {
			return strconv.FormatBool(f.Elem().Bool())
		}
		return strconv.FormatUint(f.Elem().Uint(), 10)
	}
	return "?"
}

func c01flatShow(v interface{}) string {
	rv := reflect.ValueOf(v).Elem()
	attrs, inner := c01flatFields(rv.Type())
	var out []string
	for _, i := range attrs {
		out = append(out, c01flatShowField(rv.Field(i)))
	}
	if inner >= 0 {
		out = append(out, hx(rv.Field(inner).String()))
	} else {
		out = append(out, "-")
	}
	return strings.Join(out, " ")
}

func c01flatOp(ty, ctx string, fs []string) string {
	t, ok := c01flatTypes[ty]
	if !ok {
		return "bad-op"
	}
	attrs, inner := c01flatFields(t)
	if len(fs) != len(attrs)+1 {
		return "bad-op"
	}
	pv := reflect.New(t)
	for k, i := range attrs {
		if !c01flatSet(pv.Elem().Field(i), fs[k]) {
			return "bad-op"
		}
	}
	if inner >= 0 {
		pv.Elem().Field(inner).SetString(unhx(fs[len(attrs)]))
	}
	return c01rt(ctx, pv.Interface(), func() interface{} { return reflect.New(t).Interface() }, c01flatShow)
}

// ---- SMFailed -------------------------------------------------------------------------------------------------------

var c01streamErrs = []stanza.StanzaErrorGroup{
	&stanza.BadFormat{}, &stanza.BadNamespacePrefix{}, &stanza.Conflict{}, &stanza.ConnectionTimeout{}, &stanza.HostGone{},
	&stanza.HostUnknown{}, &stanza.ImproperAddressing{}, &stanza.InternalServerError{}, &stanza.InvalidForm{}, &stanza.InvalidId{},
	&stanza.InvalidNamespace{}, &stanza.InvalidXML{}, &stanza.NotAuthorized{}, &stanza.NotWellFormed{}, &stanza.PolicyViolation{},
	&stanza.RemoteConnectionFailed{}, &stanza.Reset{}, &stanza.ResourceConstraint{}, &stanza.RestrictedXML{}, &stanza.SeeOtherHost{},
	&stanza.SystemShutdown{}, &stanza.UndefinedCondition{}, &stanza.UnsupportedEncoding{}, &stanza.UnexpectedRequest{},
	&stanza.UnsupportedStanzaType{}, &stanza.UnsupportedVersion{}, &stanza.XMLNotWellFormed{},
}

func c01streamErr(name string) stanza.StanzaErrorGroup {
	for _, e := range c01streamErrs {
		if e.GroupErrorName() == name {
			return reflect.New(reflect.TypeOf(e).Elem()).Interface().(stanza.StanzaErrorGroup)
		}
	}
	return nil
}

func c01optUint(s string) *uint {
	if s == "nil" {
		return nil
	}
	n, _ := strconv.ParseUint(s, 10, 64)
	u := uint(n)
	return &u
}

func c01showOptUint(p *uint) string {
	if p == nil {
		return "nil"
	}
	return strconv.FormatUint(uint64(*p), 10)
}

func c01smFailedOp(ctx string, fs []string) string {
	if len(fs) != 2 {
		return "bad-op"
	}
	v := stanza.SMFailed{H: c01optUint(fs[0])}
	if fs[1] != "nil" {
		e := c01streamErr(unhx(fs[1]))
		if e == nil {
			return "bad-op"
		}
		v.StreamErrorGroup = e
	}
	return c01rt(ctx, v, func() interface{} { return &stanza.SMFailed{} }, func(x interface{}) string {
		f := x.(*stanza.SMFailed)
		c := "nil"
		if f.StreamErrorGroup != nil {
			c = hx(f.StreamErrorGroup.GroupErrorName())
		}
		return c01showOptUint(f.H) + " " + c
	})
}

// ---- Err, Message, Presence, IQ -------------------------------------------------------------------------------------

func c01parseErr(fs []string) stanza.Err {
	c, _ := strconv.Atoi(fs[0])
	return stanza.Err{Code: c, Type: stanza.ErrorType(unhx(fs[1])), Reason: unhx(fs[2]), Text: unhx(fs[3])}
}
func c01showErr(e stanza.Err) []string {
	return []string{strconv.Itoa(e.Code), hx(string(e.Type)), hx(e.Reason), hx(e.Text)}
}
func c01parseAttrs(fs []string) stanza.Attrs {
	return stanza.Attrs{Type: stanza.StanzaType(unhx(fs[0])), Id: unhx(fs[1]), From: unhx(fs[2]), To: unhx(fs[3]), Lang: unhx(fs[4])}
}
func c01showAttrs(a stanza.Attrs) []string {
	return []string{hx(string(a.Type)), hx(a.Id), hx(a.From), hx(a.To), hx(a.Lang)}
}

func c01errOp(ctx string, fs []string) string {
	if len(fs) != 4 {
		return "bad-op"
	}
	return c01rt(ctx, c01parseErr(fs), func() interface{} { return &stanza.Err{} }, func(x interface{}) string {
		return strings.Join(c01showErr(*x.(*stanza.Err)), " ")
	})
}

func c01msgOp(ctx string, fs []string) string {
	if len(fs) != 12 {
		return "bad-op"
	}
	m := stanza.Message{Attrs: c01parseAttrs(fs), Subject: unhx(fs[5]), Body: unhx(fs[6]), Thread: unhx(fs[7]), Error: c01parseErr(fs[8:])}
	return c01rt(ctx, m, func() interface{} { return &stanza.Message{} }, func(x interface{}) string {
		v := x.(*stanza.Message)
		if len(v.Extensions) != 0 {
			return "err:extensions"
		}
		return strings.Join(append(append(c01showAttrs(v.Attrs), hx(v.Subject), hx(v.Body), hx(v.Thread)), c01showErr(v.Error)...), " ")
	})
}

func c01presOp(ctx string, fs []string) string {
	if len(fs) != 12 {
		return "bad-op"
	}
	pr, err := strconv.ParseInt(fs[7], 10, 8)
	if err != nil {
		return "bad-op"
	}
	p := stanza.Presence{Attrs: c01parseAttrs(fs), Show: stanza.PresenceShow(unhx(fs[5])), Status: unhx(fs[6]), Priority: int8(pr), Error: c01parseErr(fs[8:])}
	return c01rt(ctx, p, func() interface{} { return &stanza.Presence{} }, func(x interface{}) string {
		v := x.(*stanza.Presence)
		if len(v.Extensions) != 0 {
			return "err:extensions"
		}
		return strings.Join(append(append(c01showAttrs(v.Attrs), hx(string(v.Show)), hx(v.Status), strconv.Itoa(int(v.Priority))), c01showErr(v.Error)...), " ")
	})
}

func c01iqOp(ctx string, fs []string) string {
	if len(fs) < 11 {
		return "bad-op"
	}
	q := stanza.IQ{Attrs: c01parseAttrs(fs)}
	if fs[5] == "E" {
		e := c01parseErr(fs[6:10])
		q.Error = &e
	}
	if !(len(fs) == 11 && fs[10] == "-") {
		n, rest, err := c01parseNode(fs[10:])
		if err != nil || len(rest) != 0 {
			return "bad-op"
		}
		q.Any = &n
	}
	return c01rt(ctx, q, func() interface{} { return &stanza.IQ{} }, func(x interface{}) string {
		v := x.(*stanza.IQ)
		if v.Payload != nil {
			return "err:payload"
		}
		out := c01showAttrs(v.Attrs)
		if v.Error != nil {
			out = append(append(out, "E"), c01showErr(*v.Error)...)
		} else {
			out = append(out, "N", "0", "-", "-", "-")
		}
		if v.Any != nil {
			out = append(out, c01nodeFields(*v.Any)...)
		} else {
			out = append(out, "-")
		}
		return strings.Join(out, " ")
	})
}

// ---- generator ------------------------------------------------------------------------------------------------------

var c01ctxs = []string{"", "jabber:client", "jabber:component:accept"}

func c01pick(rng *rand.Rand, xs ...string) string { return xs[rng.Intn(len(xs))] }

func c01randErrFields(rng *rand.Rand, mode int) []string {
	// mode 0: empty; 1: ordinary; 2: code 0 (F-01b); 3: reason text/gone (F-01g); 4: reason not a name (F-01c)
	switch mode {
	case 0:
		return []string{"0", "-", "-", "-"}
	case 2:
		return []string{"0", hx(c01pick(rng, "cancel", "", "modify")), hx(c01pick(rng, "item-not-found", "", "conflict")), hx(c01randText(rng, 5))}
	case 3:
		return []string{strconv.Itoa(rng.Intn(600)), hx(c01pick(rng, "cancel", "modify")), hx(c01pick(rng, "gone", "text")), hx(c01randText(rng, 4))}
	case 4:
		return []string{strconv.Itoa(1 + rng.Intn(600)), hx("cancel"), hx(c01pick(rng, "x><inj/><y", "a b", "1a", "a:b", "é", "<", "a\"b")), hx(c01randText(rng, 3))}
	}
	code := []int{404, 1, -1, 500, 0, 9223372036854775807, -9223372036854775808}[rng.Intn(7)]
	return []string{strconv.Itoa(code), hx(c01pick(rng, "cancel", "auth", "", "wait", "a<b")), hx(c01pick(rng, "item-not-found", "bad-request", "", "not-allowed", "_x.1")), hx(c01randText(rng, 6))}
}

func c01randAttrFields(rng *rand.Rand) []string {
	f := func() string {
		if rng.Intn(3) == 0 {
			return "-"
		}
		return hx(c01randText(rng, 4))
	}
	return []string{hx(c01pick(rng, "", "get", "set", "chat", "error", "a\"b")), f(), f(), f(), hx(c01pick(rng, "", "en", "fr", "x<y"))}
}

func c01genStanzas(rng *rand.Rand, tier string, st *Stats, add func(op ...string)) {
	cat := func(parts ...[]string) []string {
		var out []string
		for _, p := range parts {
			out = append(out, p...)
		}
		return out
	}
	noAttrs := []string{"-", "-", "-", "-", "-"}
	noErr := []string{"0", "-", "-", "-"}
	// corpus: the witnesses of the defects found by reading (F-01a, F-01b, F-01c) and with the check (F-01g, F-01h, F-01i)
	add(cat([]string{"iq", "-"}, []string{hx("get"), hx("1"), "-", "-", hx("en")}, []string{"N"}, noErr, []string{"-"})...)                                               // F-01a
	add(cat([]string{"msg", "-"}, noAttrs, []string{"-", "-", "-"}, []string{"0", hx("cancel"), hx("item-not-found"), "-"})...)                                           // F-01b
	add(cat([]string{"iq", "-"}, []string{hx("error"), hx("1"), "-", "-", "-"}, []string{"E"}, []string{"0", hx("cancel"), hx("item-not-found"), "-"}, []string{"-"})...) // F-01b in an IQ
	add("err", "-", "404", hx("cancel"), hx("x><inj/><y"), "-")                                                                                                           // F-01c
	add("err", "-", "404", hx("modify"), hx("gone"), "-")                                                                                                                 // F-01g
	add("smfailed", "-", "5", "nil")                                                                                                                                      // F-01h
	add("smfailed", "-", "nil", hx("reset"))                                                                                                                              // F-01i
	st.Add("stanza_corpus", 7)
	// bounded exhaustive: every reflection-coded nonza over a small value alphabet per field kind
	cnt := 0
	for _, ty := range c01flatNames {
		attrs, inner := c01flatFields(c01flatTypes[ty])
		var choices [][]string
		for _, i := range attrs {
			f := c01flatTypes[ty].Field(i)
			switch f.Type.Kind() {
			case reflect.String:
				choices = append(choices, []string{"-", hx("a"), hx("<\"&'>\r\n\t ")})
			case reflect.Uint:
				choices = append(choices, []string{"0", "1", "18446744073709551615"})
			default:
				if f.Type.Elem().Kind() == reflect.Bool {
					choices = append(choices, []string{"nil", "true", "false"})
				} else {
					choices = append(choices, []string{"nil", "0", "7", "18446744073709551615"})
				}
			}
		}
		if inner >= 0 {
			choices = append(choices, []string{"-", hx("AGFiYw=="), hx(" a\r\nb ")})
		} else {
			choices = append(choices, []string{"-"})
		}
		idx := make([]int, len(choices))
		for {
			fs := make([]string, len(choices))
			for k := range choices {
				fs[k] = choices[k][idx[k]]
			}
			for _, ctx := range []string{"", "jabber:client"} {
				add(append([]string{"flat", ty, hx(ctx)}, fs...)...)
				cnt++
			}
			k := 0
			for k < len(idx) {
				idx[k]++
				if idx[k] < len(choices[k]) {
					break
				}
				idx[k] = 0
				k++
			}
			if k == len(idx) {
				break
			}
		}
	}
	st.Add("flat_exhaustive", cnt)
	st.Note("reflection-coded nonzas: every combination of a 3-4 value alphabet per attribute (empty, plain, metacharacters / nil, 0, max) for all 8 types, contexts {none, jabber:client}")
	// SMFailed: every condition x h in {nil, 0, 7}
	for _, e := range c01streamErrs {
		for _, h := range []string{"nil", "0", "7"} {
			add("smfailed", hx(c01pick(rng, "", "jabber:client")), h, hx(e.GroupErrorName()))
			st.Inc("smfailed_exhaustive")
		}
	}
	for _, h := range []string{"nil", "0", "18446744073709551615"} {
		add("smfailed", "-", h, "nil")
	}
	// attribute subsets: all 32 presence/absence patterns on the three stanzas
	for mask := 0; mask < 32; mask++ {
		a := make([]string, 5)
		for i := range a {
			a[i] = "-"
			if mask&(1<<i) != 0 {
				a[i] = hx([]string{"chat", "id<1>", "a@b/c", "d@e", "en"}[i])
			}
		}
		add(cat([]string{"msg", hx("jabber:client")}, a, []string{"-", hx("hi"), "-"}, noErr)...)
		add(cat([]string{"pres", hx("jabber:client")}, a, []string{"-", "-", "0"}, noErr)...)
		add(cat([]string{"iq", hx("jabber:client")}, a, []string{"N"}, noErr, []string{"-"})...)
		st.Add("attr_subsets", 3)
	}
	R := 700
	if tier == "thorough" {
		R = 15000
	}
	txt := func() string {
		if rng.Intn(3) == 0 {
			return "-"
		}
		return hx(c01randText(rng, 6))
	}
	one := func(kind, emode, nmode int) {
		ctx := hx(c01ctxs[rng.Intn(len(c01ctxs))])
		ef := c01randErrFields(rng, emode)
		st.Inc([]string{"err_empty", "err_ordinary", "err_code0", "err_reason_text_gone", "err_reason_not_name"}[emode])
		switch kind {
		case 0:
			add(append([]string{"err", ctx}, ef...)...)
		case 1:
			add(cat([]string{"msg", ctx}, c01randAttrFields(rng), []string{txt(), txt(), txt()}, ef)...)
		case 2:
			pr := []int{0, 0, 1, -1, 127, -128, 5}[rng.Intn(7)]
			add(cat([]string{"pres", ctx}, c01randAttrFields(rng), []string{hx(c01pick(rng, "", "away", "dnd", "x y")), txt(), strconv.Itoa(pr)}, ef)...)
		default:
			e := []string{"N", "0", "-", "-", "-"}
			if emode >= 3 || rng.Intn(2) == 0 {
				e = append([]string{"E"}, ef...)
			}
			any := []string{"-"}
			if nmode > 0 || rng.Intn(2) == 0 {
				budget := 1
				n := c01randNode(rng, rng.Intn(4), unhx(ctx), nmode, &budget)
				if n.XMLName.Local == "error" {
					n.XMLName.Local = "q"
				}
				any = c01nodeFields(n)
				st.Inc([]string{"iq_any_exact", "iq_any_free_ns", "iq_any_ns_attr"}[nmode])
			}
			add(cat([]string{"iq", ctx}, c01randAttrFields(rng), e, any)...)
		}
	}
	for i := 0; i < R; i++ {
		one([]int{0, 1, 2, 3, 3}[rng.Intn(5)], []int{0, 1, 1, 1, 2, 2}[rng.Intn(6)], 0)
	}
	// the recorded regions: a fixed small number of cases each (see c01genNodes)
	for kind := 0; kind < 4; kind++ {
		for i := 0; i < 5; i++ {
			one(kind, 3, 0)
			one(kind, 4, 0)
		}
	}
	for i := 0; i < 6; i++ {
		one(3, 1, 1)
		one(3, 1, 2)
	}
}
