// Command harness runs the real go-xmpp code (built from /repo's working tree with -tags verif)
// on generated or replayed cases and prints, per operation, the canonical observation.
//
//	harness gen  <Cxx> -seed N -tier quick|thorough -out FILE -stats FILE
//	harness exec <Cxx> -in FILE -out FILE          (re-run the ops of FILE, ignoring recorded observations)
//
// File format (tab separated): `begin <id> [variant…]`, op lines `f1 f2 … => <observation>`, `end`.
package main

import (
	"bufio"
	"encoding/hex"
	"encoding/json"
	"flag"
	"fmt"
	"math/rand"
	"os"
	"sort"
	"strings"
	"time"
)

type Case struct {
	ID      string
	Variant []string
	Ops     [][]string
}

// Prop is one property's generator and executor.
type Prop interface {
	// Generate returns the cases for this run: corpus first, bounded-exhaustive next, random last.
	Generate(rng *rand.Rand, tier string, st *Stats) []Case
	// Exec runs the implementation on a case and returns one observation per op.
	Exec(c Case) []string
}

type Stats struct {
	Counters   map[string]int    `json:"counters"`
	Exhaustive bool              `json:"exhaustive_part"`
	Notes      []string          `json:"notes"`
	Extra      map[string]string `json:"extra"`
}

func (s *Stats) Inc(k string)        { s.Counters[k]++ }
func (s *Stats) Add(k string, n int) { s.Counters[k] += n }
func (s *Stats) Note(n string)       { s.Notes = append(s.Notes, n) }

var props = map[string]Prop{}

func register(id string, p Prop) { props[id] = p }

func hx(s string) string {
	if s == "" {
		return "-"
	}
	return hex.EncodeToString([]byte(s))
}

func unhx(h string) string {
	if h == "-" {
		return ""
	}
	b, err := hex.DecodeString(h)
	if err != nil {
		panic("bad hex " + h)
	}
	return string(b)
}

var dryRun bool

func writeCases(path string, p Prop, cases []Case) error {
	f, err := os.Create(path)
	if err != nil {
		return err
	}
	w := bufio.NewWriterSize(f, 1<<20)
	for _, c := range cases {
		var obs []string
		if dryRun {
			obs = make([]string, len(c.Ops))
		} else {
			if hungCases >= maxHungCases {
				break // the cases after the third hang are not executed
			}
			obs = safeExec(p, c)
		}
		fmt.Fprintf(w, "begin\t%s", c.ID)
		for _, v := range c.Variant {
			fmt.Fprintf(w, "\t%s", v)
		}
		fmt.Fprintln(w)
		for i, op := range c.Ops {
			o := "missing"
			if i < len(obs) {
				o = obs[i]
			}
			fmt.Fprintf(w, "%s\t=>\t%s\n", strings.Join(op, "\t"), o)
		}
		fmt.Fprintln(w, "end")
	}
	if err := w.Flush(); err != nil {
		return err
	}
	return f.Close()
}

// caseTimeout bounds one case: a library call that blocks for ever (a lock never released, a send nobody receives)
// must not block the check. The case is abandoned (its goroutine leaks), every op gets the observation `hang`, and
// after a few such cases the run stops: what was seen is enough for a verdict.
var caseTimeout = 90 * time.Second
var hungCases = 0

const maxHungCases = 3

func safeExec(p Prop, c Case) []string {
	if hungCases >= maxHungCases {
		return nil
	}
	done := make(chan []string, 1)
	go func() {
		var obs []string
		defer func() {
			if r := recover(); r != nil {
				for len(obs) < len(c.Ops) {
					obs = append(obs, fmt.Sprintf("panic:%v", r))
				}
			}
			done <- obs
		}()
		obs = p.Exec(c)
	}()
	select {
	case obs := <-done:
		return obs
	case <-time.After(caseTimeout):
		hungCases++
		obs := make([]string, len(c.Ops))
		for i := range obs {
			obs[i] = "hang"
		}
		return obs
	}
}

func readCases(path string) ([]Case, error) {
	f, err := os.Open(path)
	if err != nil {
		return nil, err
	}
	defer f.Close()
	var cases []Case
	var cur *Case
	sc := bufio.NewScanner(f)
	sc.Buffer(make([]byte, 1<<20), 1<<28)
	for sc.Scan() {
		line := sc.Text()
		fs := strings.Split(line, "\t")
		switch {
		case fs[0] == "begin" && len(fs) >= 2:
			cases = append(cases, Case{ID: fs[1], Variant: fs[2:]})
			cur = &cases[len(cases)-1]
		case line == "end":
			cur = nil
		case cur != nil:
			var op []string
			for _, f := range fs {
				if f == "=>" {
					break
				}
				op = append(op, f)
			}
			cur.Ops = append(cur.Ops, op)
		}
	}
	return cases, sc.Err()
}

func main() {
	if len(os.Args) < 3 {
		fmt.Fprintln(os.Stderr, "usage: harness gen|exec <Cxx> [flags]")
		os.Exit(2)
	}
	mode, id := os.Args[1], os.Args[2]
	p, ok := props[id]
	if !ok {
		var ids []string
		for k := range props {
			ids = append(ids, k)
		}
		sort.Strings(ids)
		fmt.Fprintf(os.Stderr, "unknown property %s (have %v)\n", id, ids)
		os.Exit(2)
	}
	// cases of these properties run many scripted connections / timed goroutines concurrently and legitimately take
	// tens of seconds; everywhere else a case is a handful of in-memory operations
	switch id {
	case "C13", "C08", "C18", "C07", "C16":
		caseTimeout = 150 * time.Second
	default:
		caseTimeout = 20 * time.Second
	}
	fs := flag.NewFlagSet(mode, flag.ExitOnError)
	seed := fs.Int64("seed", 1, "PRNG seed")
	tier := fs.String("tier", "quick", "quick|thorough")
	in := fs.String("in", "", "input case file (exec)")
	out := fs.String("out", "", "output case file")
	stats := fs.String("stats", "", "stats json")
	fs.BoolVar(&dryRun, "dry", false, "gen: write the cases without executing them")
	fs.Parse(os.Args[3:])

	switch mode {
	case "gen":
		st := &Stats{Counters: map[string]int{}, Extra: map[string]string{}}
		rng := rand.New(rand.NewSource(*seed))
		cases := p.Generate(rng, *tier, st)
		st.Add("cases", len(cases))
		for _, c := range cases {
			st.Add("ops", len(c.Ops))
		}
		if err := writeCases(*out, p, cases); err != nil {
			fmt.Fprintln(os.Stderr, err)
			os.Exit(2)
		}
		if *stats != "" {
			b, _ := json.MarshalIndent(st, "", " ")
			os.WriteFile(*stats, b, 0o644)
		}
	case "exec":
		cases, err := readCases(*in)
		if err != nil {
			fmt.Fprintln(os.Stderr, err)
			os.Exit(2)
		}
		if err := writeCases(*out, p, cases); err != nil {
			fmt.Fprintln(os.Stderr, err)
			os.Exit(2)
		}
	default:
		fmt.Fprintln(os.Stderr, "unknown mode", mode)
		os.Exit(2)
	}
}
