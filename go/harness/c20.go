package main

import (
	"fmt"
	"io"
	"math/rand"
	"net"
	"strconv"
	"time"

	xmpp "gosrc.io/xmpp"
)

// C20: ensurePort and transport choice.
type c20 struct{}

func init() { register("C20", c20{}) }

func c20render(kind, host string, port *string) string {
	h := host
	if kind == "v6br" {
		h = "[" + host + "]"
	}
	if port != nil {
		h += ":" + *port
	}
	return h
}

// c20viaAPI: the address the transport of a client made by NewClient (of a component made by NewComponent) will dial,
// "" when the path does not apply (empty address: NewClient then falls back to the JID's domain and DNS).
func c20viaAPI(component bool, addr string) string {
	if addr == "" {
		return ""
	}
	if component {
		c, err := xmpp.NewComponent(xmpp.ComponentOptions{
			TransportConfiguration: xmpp.TransportConfiguration{Address: addr, Domain: "comp.localhost"},
			Domain:                 "comp.localhost", Secret: "s"}, xmpp.NewRouter(), func(error) {})
		if err != nil || c == nil {
			return "!refused-by-NewComponent"
		}
		// Resume builds the transport from the options the component holds
		ct, err := xmpp.NewComponentTransport(c.ComponentOptions.TransportConfiguration)
		if err != nil {
			return "!not-xmpp"
		}
		if xt, ok := ct.(*xmpp.XMPPTransport); ok {
			return xt.Config.Address
		}
		return "!not-xmpp"
	}
	cfg := xmpp.Config{TransportConfiguration: xmpp.TransportConfiguration{Address: addr}, Jid: "user@localhost", Credential: xmpp.Password("p")}
	c, err := xmpp.NewClient(&cfg, xmpp.NewRouter(), func(error) {})
	if err != nil || c == nil {
		return "!refused-by-NewClient"
	}
	if xt, ok := xmpp.VerifTransport(c).(*xmpp.XMPPTransport); ok {
		return xt.Config.Address
	}
	return "!not-xmpp"
}

func (c20) Exec(c Case) []string {
	var obs []string
	for _, op := range c.Ops {
		switch op[0] {
		case "ensure":
			p, _ := strconv.Atoi(op[2])
			obs = append(obs, hx(xmpp.VerifEnsurePort(unhx(op[1]), p)))
		case "form", "cform":
			var port *string
			if op[3] != "~" {
				s := unhx(op[3])
				port = &s
			}
			addr := c20render(op[1], unhx(op[2]), port)
			// go through the public constructor: this is the address the transport will dial
			var t xmpp.Transport
			if op[0] == "cform" {
				// the component constructor: same normalisation, same default port
				ct, err := xmpp.NewComponentTransport(xmpp.TransportConfiguration{Address: addr})
				if err != nil {
					obs = append(obs, "not-xmpp")
					continue
				}
				t = ct
			} else {
				t = xmpp.NewClientTransport(xmpp.TransportConfiguration{Address: addr})
			}
			xt, ok := t.(*xmpp.XMPPTransport)
			if !ok {
				obs = append(obs, "not-xmpp")
				continue
			}
			out := xt.Config.Address
			// the same address through the PUBLIC constructors (NewClient / NewComponent): what the application writes
			// in its configuration must reach the transport constructor untouched
			if api := c20viaAPI(op[0] == "cform", addr); api != "" && api != out {
				obs = append(obs, "api:"+hx(api)+" constructor:"+hx(out))
				continue
			}
			h, p, err := net.SplitHostPort(out)
			if err != nil {
				obs = append(obs, hx(out)+" err")
			} else {
				obs = append(obs, hx(out)+" "+hx(h)+" "+hx(p))
			}
		case "dial":
			// the transport keeps dialling the CONFIGURED address: connect to a listener reached under a name, then look
			// at the address the transport holds (a reconnection must resolve the name again)
			ln, err := net.Listen("tcp", "127.0.0.1:0")
			if err != nil {
				obs = append(obs, "listen-failed")
				continue
			}
			_, port, _ := net.SplitHostPort(ln.Addr().String())
			addr := unhx(op[1]) + ":" + port
			go func() {
				c, err := ln.Accept()
				if err == nil {
					io.WriteString(c, "<?xml version='1.0'?><stream:stream xmlns='jabber:client' xmlns:stream='http://etherx.jabber.org/streams' version='1.0' id='s1'>")
					time.Sleep(50 * time.Millisecond)
					c.Close()
				}
			}()
			xt := xmpp.NewClientTransport(xmpp.TransportConfiguration{Address: addr, Domain: "localhost", ConnectTimeout: 2}).(*xmpp.XMPPTransport)
			_, cerr := xt.Connect()
			ln.Close()
			xt.Config.ConnectTimeout = 0
			xt.Close()
			if cerr != nil {
				obs = append(obs, "connect-failed")
			} else if xt.Config.Address == addr {
				obs = append(obs, "kept")
			} else {
				obs = append(obs, "changed:"+hx(xt.Config.Address))
			}
		case "split":
			h, p, err := net.SplitHostPort(unhx(op[1]))
			if err != nil {
				obs = append(obs, "err")
			} else {
				obs = append(obs, "ok "+hx(h)+" "+hx(p))
			}
		case "transport":
			addr := unhx(op[2])
			if op[1] == "client" {
				switch t := xmpp.NewClientTransport(xmpp.TransportConfiguration{Address: addr}).(type) {
				case *xmpp.XMPPTransport:
					obs = append(obs, "xmpp "+hx(t.Config.Address))
				case *xmpp.WebsocketTransport:
					obs = append(obs, "ws")
				default:
					obs = append(obs, "other")
				}
			} else {
				t, err := xmpp.NewComponentTransport(xmpp.TransportConfiguration{Address: addr})
				if err != nil {
					obs = append(obs, "refused")
				} else if xt, ok := t.(*xmpp.XMPPTransport); ok {
					obs = append(obs, "xmpp "+hx(xt.Config.Address))
				} else {
					obs = append(obs, "other")
				}
			}
		default:
			obs = append(obs, "bad-op")
		}
	}
	return obs
}

func (c20) Generate(rng *rand.Rand, tier string, st *Stats) []Case {
	var cases []Case
	n := 0
	add := func(op ...string) {
		cases = append(cases, Case{ID: fmt.Sprintf("c%d", n), Ops: [][]string{op}})
		n++
	}
	plain := []string{"example.org", "localhost", "a", "xn--bcher-kva.example", "host-1.example.com.", "1.2.3.4", "255.255.255.255",
		"0", "123", "a_b", "UPPER.Example", "", "ws", "wss", "w s", "日本.example",
		// names that begin like a scheme or with every letter once (prefix / cutset confusions)
		"3com.example", "163.example", "xmpp.1und1.example", "10-0-0-12.xmpp.pod.cluster.local", "0-9.example.", "tcp.example.com", "chat.example.com", "proxy.example.net", "ttt", "xmpp.example", "http.example", "wsx.example", "s.example", "5222", "host5222"}
	v6 := []string{"fe80::a00:27ff:fe4e:66a1%eth0", "2001:db8::8:800:200c:417a%3", "::", "::1", "1::", "fe80::1", "2001:db8::8a2e:370:7334", "2001:0db8:0000:0000:0000:ff00:0042:8329",
		"::ffff:1.2.3.4", "fe80::1%eth0", "fe80::1%25eth0", "1:2:3:4:5:6:7:8", "a::b:c", "::1.2.3.4",
		// literals whose last group reads like a port (the default ones, 80, 0)
		"2001:db8::5222", "::5222", "fe80::1:5222", "2001:db8:0:0:0:0:0:5222", "::5347", "2001:db8::80", "1::0", "5222::5222", "::5223"}
	var ports []string
	if tier == "thorough" {
		for p := 0; p < 65536; p++ {
			ports = append(ports, strconv.Itoa(p))
		}
	} else {
		for _, p := range []int{0, 1, 22, 80, 443, 5222, 5223, 5269, 5347, 8080, 65535} {
			ports = append(ports, strconv.Itoa(p))
		}
		for i := 0; i < 200; i++ {
			ports = append(ports, strconv.Itoa(rng.Intn(65536)))
		}
	}
	ports = append(ports, "05222", "000", "99999999")
	add("dial", hx("localhost"))
	add("dial", hx("127.0.0.1"))
	// net.SplitHostPort itself (the model of it is what C20_dialable is stated over): every short string over the
	// structural alphabet, plus random longer ones
	alphaS := []byte("[]:a%1")
	var recS func(prefix []byte, depth int)
	recS = func(prefix []byte, depth int) {
		add("split", hx(string(prefix)))
		st.Inc("split_exhaustive")
		if depth == 0 {
			return
		}
		for _, c := range alphaS {
			recS(append(append([]byte(nil), prefix...), c), depth-1)
		}
	}
	depthS := 4
	if tier == "thorough" {
		depthS = 6
	}
	recS(nil, depthS)
	for i := 0; i < 600; i++ {
		ln := 1 + rng.Intn(24)
		b := make([]byte, ln)
		for j := range b {
			b[j] = "[]::%.abc019"[rng.Intn(12)]
		}
		add("split", hx(string(b)))
		st.Inc("split_random")
	}
	for _, h := range plain {
		add("cform", "plain", hx(h), "~")
		add("cform", "plain", hx(h), hx("5347"))
		add("form", "plain", hx(h), "~")
		st.Inc("form_plain")
		for _, p := range ports {
			add("form", "plain", hx(h), hx(p))
			st.Inc("form_plain_port")
		}
	}
	for _, h := range v6 {
		add("form", "v6bare", hx(h), "~")
		add("form", "v6br", hx(h), "~")
		add("cform", "v6bare", hx(h), "~")
		add("cform", "v6br", hx(h), "~")
		add("cform", "v6br", hx(h), hx("5347"))
		st.Inc("form_v6bare")
		st.Inc("form_v6br")
		for _, p := range ports {
			add("form", "v6br", hx(h), hx(p))
			st.Inc("form_v6br_port")
		}
	}
	st.Exhaustive = tier == "thorough"
	st.Note(fmt.Sprintf("%d host shapes x %d port texts (thorough: all 65536 ports)", len(plain)+2*len(v6), len(ports)))
	// transport choice and arbitrary strings
	schemes := []string{"ws:", "wss:", "ws://h/x", "wss://h:443/xmpp", "WS://h", "wsx:", "w", "ws", "wss", "http://h", "xmpp:h", " ws:", "ws:[::1]", "wss:1.2.3.4:5"}
	for _, s := range schemes {
		add("transport", "client", hx(s))
		add("transport", "component", hx(s))
		st.Inc("transport_scheme")
	}
	alpha := []rune("[]:%a1.:[]ws:/-")
	R := 2000
	if tier == "thorough" {
		R = 50000
	}
	for i := 0; i < R; i++ {
		ln := rng.Intn(12)
		b := make([]rune, ln)
		for j := range b {
			b[j] = alpha[rng.Intn(len(alpha))]
		}
		s := string(b)
		switch rng.Intn(3) {
		case 0:
			add("ensure", hx(s), strconv.Itoa(rng.Intn(70000)))
			st.Inc("ensure_random")
		case 1:
			add("transport", "client", hx(s))
			st.Inc("transport_random")
		default:
			add("transport", "component", hx(s))
			st.Inc("transport_random")
		}
	}
	return cases
}
