package main

import (
	"bytes"
	"encoding/xml"
	"errors"
	"math/rand"
	"strconv"
	"strings"

	"gosrc.io/xmpp/stanza"
)

// ---- trees on the wire: ( space local content k k*(aspace alocal avalue) child... ) ----------------------------------

func c01showNode(n stanza.Node, out *[]string) {
	*out = append(*out, "(", hx(n.XMLName.Space), hx(n.XMLName.Local), hx(n.Content), strconv.Itoa(len(n.Attrs)))
	for _, a := range n.Attrs {
		*out = append(*out, hx(a.Name.Space), hx(a.Name.Local), hx(a.Value))
	}
	for _, k := range n.Nodes {
		c01showNode(k, out)
	}
	*out = append(*out, ")")
}

func c01nodeFields(n stanza.Node) []string {
	var out []string
	c01showNode(n, &out)
	return out
}

func c01parseNode(fs []string) (stanza.Node, []string, error) {
	var n stanza.Node
	if len(fs) < 5 || fs[0] != "(" {
		return n, nil, errors.New("bad tree")
	}
	n.XMLName = xml.Name{Space: unhx(fs[1]), Local: unhx(fs[2])}
	n.Content = unhx(fs[3])
	k, err := strconv.Atoi(fs[4])
	if err != nil || len(fs) < 5+3*k {
		return n, nil, errors.New("bad tree")
	}
	fs = fs[5:]
	for i := 0; i < k; i++ {
		n.Attrs = append(n.Attrs, xml.Attr{Name: xml.Name{Space: unhx(fs[0]), Local: unhx(fs[1])}, Value: unhx(fs[2])})
		fs = fs[3:]
	}
	for {
		if len(fs) == 0 {
			return n, nil, errors.New("bad tree")
		}
		if fs[0] == ")" {
			return n, fs[1:], nil
		}
		var c stanza.Node
		c, fs, err = c01parseNode(fs)
		if err != nil {
			return n, nil, err
		}
		n.Nodes = append(n.Nodes, c)
	}
}

// c01wrap puts the serialized element into a wrapper that sets the default namespace `ctx` (none when empty).
func c01wrap(ctx string, b []byte) []byte {
	if ctx == "" {
		return b
	}
	var w bytes.Buffer
	w.WriteString(`<w xmlns="`)
	xml.EscapeText(&w, []byte(ctx))
	w.WriteString(`">`)
	w.Write(b)
	w.WriteString(`</w>`)
	return w.Bytes()
}

// c01inner positions a fresh decoder on the start tag of the wrapped element.
func c01inner(ctx string, b []byte) (*xml.Decoder, xml.StartElement, error) {
	d := xml.NewDecoder(bytes.NewReader(c01wrap(ctx, b)))
	skip := 0
	if ctx != "" {
		skip = 1
	}
	for {
		t, err := d.Token()
		if err != nil {
			return nil, xml.StartElement{}, err
		}
		if se, ok := t.(xml.StartElement); ok {
			if skip == 0 {
				return d, se.Copy(), nil
			}
			skip--
		}
	}
}

// c01tokens returns the decoder's token stream of the wrapped element and its skeleton (names only).
func c01tokens(ctx string, b []byte) (toks string, shape string) {
	d, se, err := c01inner(ctx, b)
	if err != nil {
		return "err", "err"
	}
	var tk, sh []string
	emitStart := func(se xml.StartElement) {
		tk = append(tk, "S", hx(se.Name.Space), hx(se.Name.Local), strconv.Itoa(len(se.Attr)))
		for _, a := range se.Attr {
			tk = append(tk, hx(a.Name.Space), hx(a.Name.Local), hx(a.Value))
		}
		sh = append(sh, "<"+hx(se.Name.Local))
	}
	emitStart(se)
	depth := 1
	for depth > 0 {
		t, err := d.Token()
		if err != nil {
			return "err", "err"
		}
		switch t := t.(type) {
		case xml.StartElement:
			emitStart(t)
			depth++
		case xml.EndElement:
			tk = append(tk, "E", hx(t.Name.Space), hx(t.Name.Local))
			sh = append(sh, ">")
			depth--
		case xml.CharData:
			tk = append(tk, "T", hx(string(t)))
		default:
			tk = append(tk, "X")
		}
	}
	return strings.Join(tk, " "), strings.Join(sh, " ")
}

// c01decode decodes the wrapped element into v with Decoder.DecodeElement.
func c01decode(ctx string, b []byte, v interface{}) error {
	d, se, err := c01inner(ctx, b)
	if err != nil {
		return err
	}
	return d.DecodeElement(v, &se)
}

func c01nodeOp(ctx string, fs []string) string {
	n, rest, err := c01parseNode(fs)
	if err != nil || len(rest) != 0 {
		return "bad-op"
	}
	b, err := xml.Marshal(n)
	if err != nil {
		return "err:marshal"
	}
	toks, shape := c01tokens(ctx, b)
	back, xml2 := "err", "err"
	var n2 stanza.Node
	if err := c01decode(ctx, b, &n2); err == nil {
		back = strings.Join(c01nodeFields(n2), " ")
		if b2, err := xml.Marshal(n2); err == nil {
			xml2 = hx(string(b2))
		}
	}
	return strings.Join([]string{hx(string(b)), toks, back, xml2, shape}, ";")
}

// ---- generator ----------------------------------------------------------------------------------------------------

var c01names = []string{"q", "title", "x", "a-b", "_n.1", "item", "body", "message", "xmlns2"}
var c01spaces = []string{"", "", "ns:a", "urn:x:1", "jabber:client", "http://e.org/p/", "a&b\"<>"}

// c01randNode: mode 0 = exact class for ctx (own namespace everywhere, or none anywhere when ctx is empty),
// 1 = free namespaces (F-01d region likely), 2 = exact class plus ONE element with namespaced attributes (F-01e).
func c01randNode(rng *rand.Rand, depth int, ctx string, mode int, nsAttrBudget *int) stanza.Node {
	var n stanza.Node
	n.XMLName.Local = c01names[rng.Intn(len(c01names))]
	switch {
	case mode == 1:
		n.XMLName.Space = c01spaces[rng.Intn(len(c01spaces))]
	case ctx == "" && rng.Intn(2) == 0:
		n.XMLName.Space = ""
	default:
		n.XMLName.Space = c01spaces[2+rng.Intn(len(c01spaces)-2)]
	}
	inner := ctx
	if n.XMLName.Space != "" {
		inner = n.XMLName.Space
	}
	na := rng.Intn(3)
	used := map[string]bool{}
	for i := 0; i < na; i++ {
		l := []string{"k", "id", "type", "to", "v-1"}[rng.Intn(5)]
		if used[l] {
			continue
		}
		used[l] = true
		n.Attrs = append(n.Attrs, xml.Attr{Name: xml.Name{Local: l}, Value: c01randText(rng, 4)})
	}
	if mode == 2 && *nsAttrBudget > 0 && rng.Intn(3) == 0 {
		*nsAttrBudget = 0
		urls := []string{"ns:b", "http://e.org/p/", "http://e.org/xmlthing", "pfx"} // pairwise distinct generated prefixes: _, p, _xmlthing, pfx
		rng.Shuffle(len(urls), func(i, j int) { urls[i], urls[j] = urls[j], urls[i] })
		for i := 0; i < 1+rng.Intn(2); i++ {
			n.Attrs = append(n.Attrs, xml.Attr{Name: xml.Name{Space: urls[i], Local: "n" + strconv.Itoa(i)}, Value: c01randText(rng, 3)})
		}
	}
	if rng.Intn(2) == 0 {
		n.Content = c01randText(rng, 6)
	}
	if depth > 0 {
		for i := rng.Intn(3); i > 0; i-- {
			n.Nodes = append(n.Nodes, c01randNode(rng, depth-1, inner, mode, nsAttrBudget))
		}
	}
	return n
}

func c01genNodes(rng *rand.Rand, tier string, st *Stats, add func(op ...string)) {
	node := func(ctx string, n stanza.Node) {
		add(append([]string{"node", hx(ctx)}, c01nodeFields(n)...)...)
	}
	N := func(sp, lo string, kids ...stanza.Node) stanza.Node {
		return stanza.Node{XMLName: xml.Name{Space: sp, Local: lo}, Nodes: kids}
	}
	// corpus: the witnesses of F-01d and F-01e, then neighbours
	node("", N("ns:a", "q", N("", "title")))
	node("", stanza.Node{XMLName: xml.Name{Local: "q"}, Attrs: []xml.Attr{{Name: xml.Name{Space: "ns:b", Local: "k"}, Value: "v"}}})
	node("", N("", "q", N("", "title")))
	node("jabber:client", N("", "q"))
	node("jabber:client", N("ns:a", "q", N("ns:a", "title"), N("ns:c", "t")))
	node("", stanza.Node{XMLName: xml.Name{Space: "ns:a", Local: "q"}, Content: " a<b>&\"'\r\n]]> ", Attrs: []xml.Attr{{Name: xml.Name{Local: "k"}, Value: "<\"'&>\t\r\n"}}})
	st.Add("node_corpus", 6)
	// bounded exhaustive: every namespace assignment from {none, ns:a, ns:b} on the trees with <= 2 elements under
	// contexts {none, ns:a}, and on the 3-element chain and the 3-element fan without context
	sp := []string{"", "ns:a", "ns:b"}
	cnt := 0
	for _, ctx := range []string{"", "ns:a"} {
		for _, a := range sp {
			node(ctx, N(a, "r"))
			cnt++
			for _, b := range sp {
				node(ctx, N(a, "r", N(b, "c")))
				cnt++
			}
		}
	}
	for _, a := range sp {
		for _, b := range sp {
			for _, c := range sp {
				node("", N(a, "r", N(b, "c", N(c, "d"))))
				node("", N(a, "r", N(b, "c"), N(c, "d")))
				cnt += 2
			}
		}
	}
	st.Add("node_exhaustive_ns", cnt)
	st.Note("Node: all namespace assignments from {none, ns:a, ns:b} on trees with <= 2 elements under contexts {none, ns:a} and on both 3-element shapes without context")
	// random trees to depth 6: the exact class scales with the tier; the two recorded regions get a fixed small
	// number of cases (the orchestrator examines at most 200 violating cases per run)
	R := 900
	if tier == "thorough" {
		R = 20000
	}
	gen := func(n int, mode int) {
		for i := 0; i < n; i++ {
			ctx := []string{"", "", "jabber:client", "ns:a"}[rng.Intn(4)]
			budget := 1
			node(ctx, c01randNode(rng, 1+rng.Intn(6), ctx, mode, &budget))
			st.Inc([]string{"node_random_exact", "node_random_free_ns", "node_random_ns_attr"}[mode])
		}
	}
	gen(R, 0)
	gen(20, 1)
	gen(20, 2)
}
