package main

import (
	"strings"
	"context"
	"fmt"
	"math/rand"
	"runtime"
	"strconv"
	"sync"
	"sync/atomic"
	"time"

	xmpp "gosrc.io/xmpp"
	"gosrc.io/xmpp/stanza"
)

// C07: SendIQ / IQ-result routing under real concurrency on a stub transport: concurrent requests, responses
// arriving immediately after the write, duplicates from several goroutines, foreign and clashing ids, cancellation,
// readers that abandon the channel. The scenario's summary is judged by the Lean oracle.
type c07 struct{}

func init() { register("C07", c07{}) }

type c07req struct {
	id        string
	ch        chan stanza.IQ
	cancel    context.CancelFunc
	cancelled bool
	abandon   bool
	got       int32
	wrong     int32
	closed    int32
	senderr   bool
}

func c07scenario(who string, nreq, dups int, immediate bool, cancelPct, abandonPct int, clash bool, seed int64) string {
	rng := rand.New(rand.NewSource(seed))
	st := newStub(nil)
	router := xmpp.NewRouter()
	var ordinary, ordinaryReq int64
	// a route restricted to a payload namespace comes first: responses without a child element are none of its business
	router.NewRoute().IQNamespaces("jabber:iq:version", "urn:xmpp:ping").HandlerFunc(func(s xmpp.Sender, p stanza.Packet) {})
	router.NewRoute().HandlerFunc(func(s xmpp.Sender, p stanza.Packet) {
		if iq, ok := p.(*stanza.IQ); ok {
			if iq.Type == stanza.IQTypeGet || iq.Type == stanza.IQTypeSet {
				atomic.AddInt64(&ordinaryReq, 1)
			} else {
				atomic.AddInt64(&ordinary, 1)
			}
		}
	})
	var sender interface {
		SendIQ(ctx context.Context, iq *stanza.IQ) (chan stanza.IQ, error)
	}
	var asSender xmpp.Sender
	if who == "component" {
		comp, _ := xmpp.NewComponent(xmpp.ComponentOptions{Domain: "c.localhost", Secret: "s"}, router, func(error) {})
		xmpp.VerifSetComponentTransport(comp, st)
		sender, asSender = comp, comp
	} else {
		cfg := &xmpp.Config{Jid: "u@localhost/r", Credential: xmpp.Password("p")}
		client, err := newStubClient(cfg, router, nil, st)
		if err != nil {
			return "newclient-failed"
		}
		client.Session = &xmpp.Session{}
		sender, asSender = client, client
	}
	var panics, blocked, responses int64
	var wg sync.WaitGroup // route calls
	route := func(p stanza.Packet) {
		wg.Add(1)
		go func() {
			done := make(chan struct{})
			go func() {
				defer close(done)
				defer func() {
					if r := recover(); r != nil {
						atomic.AddInt64(&panics, 1)
					}
				}()
				xmpp.VerifRoute(router, asSender, p)
			}()
			select {
			case <-done:
			case <-time.After(2 * time.Second):
				atomic.AddInt64(&blocked, 1)
			}
			wg.Done()
		}()
	}
	respond := func(id, typ string, n int) {
		for i := 0; i < n; i++ {
			if len(id) > 0 && id[0] == 'q' {
				atomic.AddInt64(&responses, 1) // a response carrying the id of a request
			}
			iq := &stanza.IQ{Attrs: stanza.Attrs{Type: stanza.StanzaType(typ), Id: id, From: "srv"}}
			route(iq)
		}
	}
	reqs := make([]*c07req, nreq)
	for i := range reqs {
		id := fmt.Sprintf("q%d", i)
		if clash && i%2 == 1 {
			id = fmt.Sprintf("q%d", i-1) // two requests with the same id
		}
		reqs[i] = &c07req{id: id, cancelled: rng.Intn(100) < cancelPct, abandon: rng.Intn(100) < abandonPct}
	}
	if immediate {
		// the response arrives immediately after the request was written, before SendIQ returns
		st.onWrite = func(n int, p []byte) {
			s := string(p)
			if i := indexOf(s, `id="q`); i >= 0 {
				j := i + 4
				k := j
				for k < len(s) && s[k] != '"' {
					k++
				}
				id := s[j:k]
				done := make(chan struct{})
				go func() {
					defer close(done)
					defer func() {
						if r := recover(); r != nil {
							atomic.AddInt64(&panics, 1)
						}
					}()
					atomic.AddInt64(&responses, 1)
					xmpp.VerifRoute(router, asSender, &stanza.IQ{Attrs: stanza.Attrs{Type: "result", Id: id, From: "srv"}})
				}()
				select {
				case <-done:
				case <-time.After(time.Second):
					atomic.AddInt64(&blocked, 1)
				}
			}
		}
	}
	var cw sync.WaitGroup // callers
	for _, r := range reqs {
		cw.Add(1)
		go func(r *c07req) {
			defer cw.Done()
			ctx, cancel := context.WithCancel(context.Background())
			r.cancel = cancel
			iq, _ := stanza.NewIQ(stanza.Attrs{Type: stanza.IQTypeGet, Id: r.id, To: "srv"})
			iq.Payload = &stanza.Version{}
			ch, err := sender.SendIQ(ctx, iq)
			if err != nil {
				r.senderr = true
				return
			}
			r.ch = ch
			if !immediate {
				respond(r.id, []string{"result", "error"}[rng.Intn(2)], dups)
			} else if dups > 1 {
				respond(r.id, "result", dups-1)
			}
			if r.cancelled {
				if rng.Intn(2) == 0 {
					runtime.Gosched()
				}
				cancel()
			}
			if r.abandon {
				return
			}
			// read until closed, or give up
			timeout := time.After(600 * time.Millisecond)
			for {
				select {
				case v, ok := <-ch:
					if !ok {
						atomic.StoreInt32(&r.closed, 1)
						return
					}
					if v.Id != r.id {
						atomic.AddInt32(&r.wrong, 1)
					}
					atomic.AddInt32(&r.got, 1)
				case <-timeout:
					return
				}
			}
		}(r)
	}
	// foreign responses and requests with clashing ids, concurrently
	for i := 0; i < nreq; i++ {
		respond(fmt.Sprintf("foreign%d", i), "result", 1)
	}
	foreign := int64(nreq)
	getset := 0
	for i := 0; i < nreq/2; i++ {
		route(&stanza.IQ{Attrs: stanza.Attrs{Type: stanza.IQTypeGet, Id: fmt.Sprintf("q%d", i), From: "srv"}, Payload: &stanza.Version{}})
		getset++
	}
	cw.Wait()
	wg.Wait()
	for _, r := range reqs {
		if r.cancel != nil {
			r.cancel()
		}
	}
	// cleanup goroutines of the cancelled contexts
	deadline := time.Now().Add(time.Second)
	pending := -1
	for time.Now().Before(deadline) {
		router.IQResultRouteLock.RLock()
		pending = len(router.IQResultRoutes)
		router.IQResultRouteLock.RUnlock()
		if pending == 0 {
			break
		}
		time.Sleep(2 * time.Millisecond)
	}
	delivered, multi, wrong, closedAfter, live, liveGot, senderr := 0, 0, 0, 0, 0, 0, 0
	// what nobody read: a response delivered to a channel whose caller had gone stays in its one-slot buffer
	drained := 0
	for _, r := range reqs {
		if r.ch == nil {
			continue
		}
	drain:
		for {
			select {
			case _, ok := <-r.ch:
				if !ok {
					break drain
				}
				drained++
			default:
				break drain
			}
		}
	}
	for _, r := range reqs {
		if r.senderr {
			senderr++
			continue
		}
		g := int(atomic.LoadInt32(&r.got))
		delivered += g
		if g > 1 {
			multi++
		}
		wrong += int(atomic.LoadInt32(&r.wrong))
		if g >= 1 && atomic.LoadInt32(&r.closed) == 1 {
			closedAfter++
		}
		if !r.cancelled && !r.abandon && !clash {
			live++
			if g == 1 && atomic.LoadInt32(&r.closed) == 1 {
				liveGot++
			}
		}
	}
	return fmt.Sprintf("panics=%d blocked=%d multi=%d wrong=%d delivered=%d closedafter=%d live=%d livegot=%d ordinary=%d ordinaryreq=%d responses=%d foreign=%d getset=%d pending=%d senderr=%d drained=%d",
		panics, blocked, multi, wrong, delivered, closedAfter, live, liveGot, atomic.LoadInt64(&ordinary), atomic.LoadInt64(&ordinaryReq),
		atomic.LoadInt64(&responses), foreign, getset, pending, senderr, drained)
}

// c07reuse: a multi-step history with a re-used id. Request A (id X) is answered; request B re-uses X and is
// pending; A's context is cancelled (the usual deferred cancel()) - its clean-up must not remove B's entry; then
// the response to B arrives: B's caller gets it, exactly once, and it does not go to the ordinary routes.
func c07reuse(who string, settleMs int) string {
	st := newStub(nil)
	router := xmpp.NewRouter()
	var ordinary int64
	// a route restricted to a payload namespace comes first: responses without a child element are none of its business
	router.NewRoute().IQNamespaces("jabber:iq:version", "urn:xmpp:ping").HandlerFunc(func(s xmpp.Sender, p stanza.Packet) {})
	router.NewRoute().HandlerFunc(func(s xmpp.Sender, p stanza.Packet) {
		if iq, ok := p.(*stanza.IQ); ok && (iq.Type == stanza.IQTypeResult || iq.Type == stanza.IQTypeError) {
			atomic.AddInt64(&ordinary, 1)
		}
	})
	var sender interface {
		SendIQ(ctx context.Context, iq *stanza.IQ) (chan stanza.IQ, error)
	}
	var asSender xmpp.Sender
	if who == "component" {
		comp, _ := xmpp.NewComponent(xmpp.ComponentOptions{Domain: "c.localhost", Secret: "s"}, router, func(error) {})
		xmpp.VerifSetComponentTransport(comp, st)
		sender, asSender = comp, comp
	} else {
		client, err := newStubClient(&xmpp.Config{Jid: "u@localhost/r", Credential: xmpp.Password("p")}, router, nil, st)
		if err != nil {
			return "newclient-failed"
		}
		client.Session = &xmpp.Session{}
		sender, asSender = client, client
	}
	panics, blocked := 0, 0
	route := func(id string) {
		// the receive loop of a component routes synchronously: a route call that blocks stops packet processing
		done := make(chan struct{})
		go func() {
			defer close(done)
			defer func() {
				if r := recover(); r != nil {
					panics++
				}
			}()
			xmpp.VerifRoute(router, asSender, &stanza.IQ{Attrs: stanza.Attrs{Type: "result", Id: id, From: "srv"}})
		}()
		select {
		case <-done:
		case <-time.After(time.Second):
			blocked++
		}
	}
	mkreq := func() *stanza.IQ {
		iq, _ := stanza.NewIQ(stanza.Attrs{Type: stanza.IQTypeGet, Id: "X", To: "srv"})
		iq.Payload = &stanza.Version{}
		return iq
	}
	read := func(ch chan stanza.IQ) int {
		n := 0
		timeout := time.After(300 * time.Millisecond)
		for {
			select {
			case _, ok := <-ch:
				if !ok {
					return n
				}
				n++
			case <-timeout:
				return n
			}
		}
	}
	ctxA, cancelA := context.WithCancel(context.Background())
	chA, err := sender.SendIQ(ctxA, mkreq())
	if err != nil {
		return "senderr"
	}
	route("X")
	a := read(chA)
	ctxB, cancelB := context.WithCancel(context.Background())
	defer cancelB()
	chB, err := sender.SendIQ(ctxB, mkreq())
	if err != nil {
		return "senderr"
	}
	cancelA()
	time.Sleep(time.Duration(settleMs) * time.Millisecond)
	route("X")
	b := read(chB)
	return fmt.Sprintf("a=%d b=%d ordinary=%d panics=%d blocked=%d", a, b, atomic.LoadInt64(&ordinary), panics, blocked)
}

// c07edge: two situations around the pending table.
// "sendfail": the write of the request fails (SendIQ returns the error while the caller's context lives on): no entry
// may stay behind - a response with that id that arrives later (the peer re-uses the id, a retransmission after a
// resumption) is routed like any other packet. "handlersend": a response nobody waits for reaches an ordinary handler
// that sends a request of its own: routing that response must not hold anything SendIQ needs (a component routes in
// its receive loop: a blocked route call stops packet processing for good).
func c07edge(kind, who string) string {
	st := newStub(nil)
	router := xmpp.NewRouter()
	var ordinary, nested, nestedErr int64
	var sender interface {
		SendIQ(ctx context.Context, iq *stanza.IQ) (chan stanza.IQ, error)
	}
	mkreq := func(id string) *stanza.IQ {
		iq, _ := stanza.NewIQ(stanza.Attrs{Type: stanza.IQTypeGet, Id: id, To: "srv"})
		iq.Payload = &stanza.Version{}
		return iq
	}
	ctx, cancel := context.WithCancel(context.Background())
	defer cancel()
	// a route restricted to a payload namespace comes first: responses without a child element are none of its business
	router.NewRoute().IQNamespaces("jabber:iq:version", "urn:xmpp:ping").HandlerFunc(func(s xmpp.Sender, p stanza.Packet) {})
	router.NewRoute().HandlerFunc(func(s xmpp.Sender, p stanza.Packet) {
		if iq, ok := p.(*stanza.IQ); ok && (iq.Type == stanza.IQTypeResult || iq.Type == stanza.IQTypeError) {
			atomic.AddInt64(&ordinary, 1)
			if kind == "handlersend" {
				if _, err := sender.SendIQ(ctx, mkreq("from-handler-"+iq.Id)); err != nil {
					atomic.AddInt64(&nestedErr, 1)
				}
				atomic.AddInt64(&nested, 1)
			}
		}
	})
	var asSender xmpp.Sender
	if who == "component" {
		comp, _ := xmpp.NewComponent(xmpp.ComponentOptions{Domain: "c.localhost", Secret: "s"}, router, func(error) {})
		xmpp.VerifSetComponentTransport(comp, st)
		sender, asSender = comp, comp
	} else {
		client, err := newStubClient(&xmpp.Config{Jid: "u@localhost/r", Credential: xmpp.Password("p")}, router, nil, st)
		if err != nil {
			return "newclient-failed"
		}
		client.Session = &xmpp.Session{}
		sender, asSender = client, client
	}
	panics, blocked := 0, 0
	route := func(id string) {
		done := make(chan struct{})
		go func() {
			defer close(done)
			defer func() {
				if r := recover(); r != nil {
					panics++
				}
			}()
			xmpp.VerifRoute(router, asSender, &stanza.IQ{Attrs: stanza.Attrs{Type: "result", Id: id, From: "srv"}})
		}()
		select {
		case <-done:
		case <-time.After(time.Second):
			blocked++
		}
	}
	sendErr := false
	if kind == "sendfail" {
		st.mu.Lock()
		st.failAt[st.nwrite+1] = true
		st.mu.Unlock()
		_, err := sender.SendIQ(ctx, mkreq("lost"))
		sendErr = err != nil
		route("lost")
	} else {
		route("nobody-waits")
		route("nobody-waits-2")
	}
	return fmt.Sprintf("senderr=%v ordinary=%d nested=%d nestederr=%d panics=%d blocked=%d", sendErr, atomic.LoadInt64(&ordinary),
		atomic.LoadInt64(&nested), atomic.LoadInt64(&nestedErr), panics, blocked)
}

// c07wire: the responses arrive as BYTES on the stream and go through the real receive loop (decoder, NextPacket,
// route): error responses in the shapes servers send - legacy code attribute numeric, empty, not a number, absent;
// with and without a condition; a result without a child. Each pending request gets exactly its response.
func c07wire(who string) string {
	ns := "jabber:client"
	if who == "component" {
		ns = "jabber:component:accept"
	}
	bodies := []string{
		"<iq type='error' id='w0' from='srv'><error code='404' type='cancel'><item-not-found xmlns='urn:ietf:params:xml:ns:xmpp-stanzas'/></error></iq>",
		"<iq type='error' id='w1' from='srv'><error code='' type='cancel'><item-not-found xmlns='urn:ietf:params:xml:ns:xmpp-stanzas'/></error></iq>",
		"<iq type='error' id='w2' from='srv'><error code='abc' type='wait'/></iq>",
		"<iq type='error' id='w3' from='srv'><error type='modify'><bad-request xmlns='urn:ietf:params:xml:ns:xmpp-stanzas'/><text xmlns='urn:ietf:params:xml:ns:xmpp-stanzas'>no</text></error></iq>",
		"<iq type='result' id='w4' from='srv'/>",
		"<iq type='error' id='w5' from='srv'/>",
	}
	stream := "<?xml version='1.0'?><stream:stream xmlns='" + ns + "' xmlns:stream='http://etherx.jabber.org/streams' version='1.0' id='s1'>" + strings.Join(bodies, "")
	st := newStub(strings.NewReader(stream))
	if _, err := stanza.InitStream(st.GetDecoder()); err != nil {
		return "initstream-failed"
	}
	router := xmpp.NewRouter()
	var ordinary int64
	router.NewRoute().IQNamespaces("jabber:iq:version").HandlerFunc(func(s xmpp.Sender, p stanza.Packet) {})
	router.NewRoute().HandlerFunc(func(s xmpp.Sender, p stanza.Packet) { atomic.AddInt64(&ordinary, 1) })
	var sender interface {
		SendIQ(ctx context.Context, iq *stanza.IQ) (chan stanza.IQ, error)
	}
	var run func()
	if who == "component" {
		comp, _ := xmpp.NewComponent(xmpp.ComponentOptions{Domain: "c.localhost", Secret: "s"}, router, func(error) {})
		xmpp.VerifSetComponentTransport(comp, st)
		sender, run = comp, func() { xmpp.VerifComponentRecv(comp) }
	} else {
		client, err := newStubClient(&xmpp.Config{Jid: "u@localhost/r", Credential: xmpp.Password("p")}, router, nil, st)
		if err != nil {
			return "newclient-failed"
		}
		client.Session = &xmpp.Session{}
		sender, run = client, func() { xmpp.VerifRecv(client, make(chan struct{})) }
	}
	ctx, cancel := context.WithCancel(context.Background())
	defer cancel()
	var chans []chan stanza.IQ
	for i := range bodies {
		iq, _ := stanza.NewIQ(stanza.Attrs{Type: stanza.IQTypeGet, Id: fmt.Sprintf("w%d", i), To: "srv"})
		iq.Payload = &stanza.Version{}
		ch, err := sender.SendIQ(ctx, iq)
		if err != nil {
			return "senderr"
		}
		chans = append(chans, ch)
	}
	panics := 0
	done := make(chan struct{})
	go func() {
		defer close(done)
		defer func() {
			if r := recover(); r != nil {
				panics++
			}
		}()
		run()
	}()
	select {
	case <-done:
	case <-time.After(5 * time.Second):
		return "hang"
	}
	got, closed := 0, 0
	for _, ch := range chans {
		timeout := time.After(300 * time.Millisecond)
	loop:
		for {
			select {
			case _, ok := <-ch:
				if !ok {
					closed++
					break loop
				}
				got++
			case <-timeout:
				break loop
			}
		}
	}
	return fmt.Sprintf("got=%d closed=%d ordinary=%d panics=%d", got, closed, atomic.LoadInt64(&ordinary), panics)
}

// c07pendreconnect: a request is pending when the connection is lost and the session resumed (the real
// Client.connect against a scripted server that confirms the resumption): the response, delivered on the resumed
// session, still reaches the caller's channel - exactly once, channel closed, nothing to the ordinary routes.
func c07pendreconnect() string {
	st := newStub(nil)
	router := xmpp.NewRouter()
	var ordinary int64
	// a route restricted to a payload namespace comes first: responses without a child element are none of its business
	router.NewRoute().IQNamespaces("jabber:iq:version", "urn:xmpp:ping").HandlerFunc(func(s xmpp.Sender, p stanza.Packet) {})
	router.NewRoute().HandlerFunc(func(s xmpp.Sender, p stanza.Packet) {
		if iq, ok := p.(*stanza.IQ); ok && (iq.Type == stanza.IQTypeResult || iq.Type == stanza.IQTypeError) {
			atomic.AddInt64(&ordinary, 1)
		}
	})
	cfg := &xmpp.Config{Jid: "u@localhost/r", Credential: xmpp.Password("p"), StreamManagementEnable: true}
	client, err := newStubClient(cfg, router, nil, st)
	if err != nil {
		return "newclient-failed"
	}
	sess := &xmpp.Session{SMState: xmpp.SMState{Id: "sm1", UnAckQueue: stanza.NewUnAckQueue()}}
	client.Session = sess
	ctx, cancel := context.WithCancel(context.Background())
	defer cancel()
	iq, _ := stanza.NewIQ(stanza.Attrs{Type: stanza.IQTypeGet, Id: "across", To: "srv"})
	iq.Payload = &stanza.Version{}
	ch, err := client.SendIQ(ctx, iq)
	if err != nil {
		return "senderr"
	}
	res := reconnect(client, cfg, sess, "sm1", false)
	panics := 0
	func() {
		defer func() {
			if r := recover(); r != nil {
				panics++
			}
		}()
		xmpp.VerifRoute(router, client, &stanza.IQ{Attrs: stanza.Attrs{Type: "result", Id: "across", From: "srv"}})
	}()
	got, closed := 0, false
	timeout := time.After(300 * time.Millisecond)
loop:
	for {
		select {
		case _, ok := <-ch:
			if !ok {
				closed = true
				break loop
			}
			got++
		case <-timeout:
			break loop
		}
	}
	return fmt.Sprintf("resume=%v got=%d closed=%v ordinary=%d panics=%d", res != "none" && res != "hang" && res != "panic", got, closed, atomic.LoadInt64(&ordinary), panics)
}

func indexOf(s, sub string) int {
	for i := 0; i+len(sub) <= len(s); i++ {
		if s[i:i+len(sub)] == sub {
			return i
		}
	}
	return -1
}

func (c07) Exec(c Case) []string {
	var obs []string
	for _, op := range c.Ops {
		if op[0] == "pendreconnect" {
			obs = append(obs, c07pendreconnect())
			continue
		}
		if op[0] == "wire" && len(op) == 2 {
			obs = append(obs, c07wire(op[1]))
			continue
		}
		if op[0] == "edge" && len(op) == 3 {
			obs = append(obs, c07edge(op[1], op[2]))
			continue
		}
		if op[0] == "reuse" && len(op) == 3 {
			ms, _ := strconv.Atoi(op[2])
			obs = append(obs, c07reuse(op[1], ms))
			continue
		}
		if op[0] != "scen" || len(op) != 9 {
			obs = append(obs, "bad-op")
			continue
		}
		n, _ := strconv.Atoi(op[2])
		d, _ := strconv.Atoi(op[3])
		cp, _ := strconv.Atoi(op[5])
		ap, _ := strconv.Atoi(op[6])
		seed, _ := strconv.ParseInt(op[8], 10, 64)
		obs = append(obs, c07scenario(op[1], n, d, op[4] == "imm", cp, ap, op[7] == "clash", seed))
	}
	return obs
}

func (c07) Generate(rng *rand.Rand, tier string, st *Stats) []Case {
	var cases []Case
	n := 0
	mk := func(who string, nreq, dups int, imm bool, cancelPct, abandonPct int, clash bool) {
		im, cl := "later", "distinct"
		if imm {
			im = "imm"
		}
		if clash {
			cl = "clash"
		}
		cases = append(cases, Case{ID: fmt.Sprintf("c07-%d", n), Ops: [][]string{{"scen", who, strconv.Itoa(nreq), strconv.Itoa(dups), im,
			strconv.Itoa(cancelPct), strconv.Itoa(abandonPct), cl, strconv.FormatInt(rng.Int63(), 10)}}})
		n++
	}
	// corpus: the three defects of F-07
	mk("client", 1, 1, true, 0, 0, false)   // response immediately after the write
	mk("client", 8, 4, false, 0, 0, false)  // duplicates from several goroutines
	mk("client", 8, 1, false, 100, 100, false) // cancelled and abandoned: late responses must not block
	mk("component", 8, 3, false, 50, 50, false)
	cases = append(cases, Case{ID: fmt.Sprintf("c07-%d", n), Ops: [][]string{{"pendreconnect"}}})
	n++
	st.Inc("pending_across_resumption")
	for _, who := range []string{"client", "component"} {
		for _, ms := range []int{0, 1, 20} {
			cases = append(cases, Case{ID: fmt.Sprintf("c07-%d", n), Ops: [][]string{{"reuse", who, strconv.Itoa(ms)}}})
			n++
			st.Inc("reuse_id_after_answer")
		}
	}
	for _, who := range []string{"client", "component"} {
		cases = append(cases, Case{ID: fmt.Sprintf("c07-%d", n), Ops: [][]string{{"wire", who}}})
		n++
		st.Inc("responses_on_the_wire")
	}
	for _, who := range []string{"client", "component"} {
		for _, kind := range []string{"sendfail", "handlersend"} {
			cases = append(cases, Case{ID: fmt.Sprintf("c07-%d", n), Ops: [][]string{{"edge", kind, who}}})
			n++
			st.Inc("edge_" + kind)
		}
	}
	R := 40
	if tier == "thorough" {
		R = 600
	}
	for i := 0; i < R; i++ {
		who := []string{"client", "component"}[rng.Intn(2)]
		mk(who, 1+rng.Intn(24), 1+rng.Intn(5), rng.Intn(3) == 0, []int{0, 0, 30, 100}[rng.Intn(4)], []int{0, 0, 30, 100}[rng.Intn(4)], rng.Intn(5) == 0)
		st.Inc("scenario_" + who)
	}
	st.Note("each scenario: N concurrent SendIQ callers on a stub transport; responses routed from their own goroutines (d duplicates each, or synchronously from inside the transport write = before SendIQ returns); N foreign responses; N/2 get requests with clashing ids; a share of the requests cancelled and/or never read; optionally pairs of requests sharing one id")
	return cases
}
