package main

import (
	"fmt"
	"math/rand"
	"strconv"
	"strings"
	"unicode"
	"unicode/utf8"

	"gosrc.io/xmpp/stanza"
)

// C15: stanza.NewJid / Full / Bare.
type c15 struct{}

func init() { register("C15", c15{}) }

func c15jid(j *stanza.Jid, err error) string {
	if err != nil {
		return "err"
	}
	return hx(j.Node) + "," + hx(j.Domain) + "," + hx(j.Resource)
}

func (c15) Exec(c Case) []string {
	var obs []string
	for _, op := range c.Ops {
		switch op[0] {
		case "newjid":
			s := unhx(op[1])
			j, err := stanza.NewJid(s)
			if err != nil {
				obs = append(obs, "err")
				continue
			}
			f, b := j.Full(), j.Bare()
			obs = append(obs, "ok "+c15jid(j, nil)+" "+hx(f)+" "+hx(b)+" "+c15jid(stanza.NewJid(f))+" "+c15jid(stanza.NewJid(b)))
		case "spaces":
			lo, _ := strconv.Atoi(op[1])
			hi, _ := strconv.Atoi(op[2])
			var cps []string
			for r := lo; r < hi; r++ {
				if unicode.IsSpace(rune(r)) {
					cps = append(cps, strconv.Itoa(r))
				}
			}
			obs = append(obs, strings.Join(cps, ","))
		default:
			obs = append(obs, "bad-op")
		}
	}
	return obs
}

func (c15) Generate(rng *rand.Rand, tier string, st *Stats) []Case {
	var cases []Case
	n := 0
	add := func(op ...string) {
		cases = append(cases, Case{ID: fmt.Sprintf("c%d", n), Ops: [][]string{op}})
		n++
	}
	// corpus: F-15 witness and friends
	for _, s := range []string{"d\\27artagnan@musketeers.lit/stable", "space\\20cadet@example.com", "a\\b@c\\d/e\\f", "\\", "example.com/res", "a@b/c", "a@b", "b", "", "@b", "a@", "a@/r", "a b@c", "a@b c", "a@b/c/d@e", "d/r@x", "a@b@c", "/r", "a@b/"} {
		add("newjid", hx(s))
	}
	// unicode.IsSpace table, every code point (17 planes in 4096-wide windows)
	for lo := 0; lo < 0x110000; lo += 0x1000 {
		add("spaces", strconv.Itoa(lo), strconv.Itoa(lo+0x1000))
	}
	st.Note("unicode.IsSpace compared with the model's isSpace on all 0x110000 code points (exhaustive)")
	// structured triples over accepted / rejected character classes
	// accepted everywhere: letters, digits, punctuation that is none of the forbidden characters - among it the backslash
	// (the escape character of XEP-0106), the other ASCII punctuation and characters next to the forbidden ones
	okc := []string{"a", "z", "0", "-", ".", "_", "é", "日", "😀", "A", "+", "%", "!", "­", "\\", "\\20", "&", ";", "=", "?", "#", "$", "*", "(", ")", "[", "]", "{", "}", "|", "~", "^", "`", ",", "\x00", "\x1f", "\x7f", "\u2060", "\ufeff"}
	userBad := []string{"'", "\"", ":", "<", ">"}
	spaces := []string{" ", "\t", "\n", "\r", " ", " ", "　", "\u0085", " ", " ", " ", "\v", "\f"}
	resc := []string{"/", "@", " ", "<", ">", "&", "'", "\""}
	part := func(max int, pools ...[]string) string {
		var all []string
		for _, p := range pools {
			all = append(all, p...)
		}
		k := rng.Intn(max + 1)
		var sb strings.Builder
		for i := 0; i < k; i++ {
			sb.WriteString(all[rng.Intn(len(all))])
		}
		return sb.String()
	}
	R := 6000
	if tier == "thorough" {
		R = 120000
	}
	for i := 0; i < R; i++ {
		var l, d, r string
		switch rng.Intn(6) {
		case 0: // all valid
			l, d, r = part(5, okc), part(6, okc), part(6, okc, resc)
			st.Inc("triple_valid")
		case 1: // forbidden user char
			l, d, r = part(3, okc)+userBad[rng.Intn(len(userBad))]+part(2, okc), part(5, okc), part(4, okc, resc)
			st.Inc("triple_bad_local")
		case 2: // whitespace somewhere
			l, d, r = part(3, okc, spaces), part(4, okc, spaces), part(3, okc, resc)
			st.Inc("triple_whitespace")
		case 3: // domain JID with resource containing @ and /
			l, d, r = "", part(5, okc), part(6, okc, resc)
			st.Inc("triple_domain_resource")
		case 4: // empty parts
			l, d, r = part(1, okc), part(1, okc), part(1, okc, resc)
			st.Inc("triple_tiny")
		default:
			l, d, r = part(4, okc, userBad, spaces, []string{"@", "/"}), part(4, okc, spaces, []string{"@", "/"}), part(4, okc, resc)
			st.Inc("triple_anything")
		}
		s := d
		if l != "" || rng.Intn(8) == 0 {
			s = l + "@" + d
		}
		if r != "" || rng.Intn(8) == 0 {
			s += "/" + r
		}
		add("newjid", hx(s))
	}
	// random strings over the structural alphabet
	alpha := []rune("@@//ab .'\"<>: é")
	for i := 0; i < R/2; i++ {
		ln := rng.Intn(9)
		b := make([]rune, ln)
		for j := range b {
			b[j] = alpha[rng.Intn(len(alpha))]
		}
		add("newjid", hx(string(b)))
		st.Inc("random_string")
	}
	// invalid UTF-8 is outside the Lean model: check the Go-side round trip directly (reported, not compared)
	bad := 0
	for i := 0; i < 2000; i++ {
		b := make([]byte, 1+rng.Intn(8))
		for j := range b {
			b[j] = []byte{'a', '@', '/', 0xff, 0xc3, 0x80, ' '}[rng.Intn(7)]
		}
		s := string(b)
		if utf8.ValidString(s) {
			continue
		}
		j, err := stanza.NewJid(s)
		if err != nil {
			continue
		}
		j2, err2 := stanza.NewJid(j.Full())
		if err2 != nil || *j2 != *j {
			bad++
		}
	}
	st.Extra["invalid_utf8_roundtrip_failures"] = strconv.Itoa(bad)
	return cases
}
