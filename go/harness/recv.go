package main

import (
	"bytes"
	"errors"
	"context"
	"fmt"
	"hash/fnv"
	"io"
	"math/rand"
	"runtime"
	"sort"
	"strconv"
	"strings"
	"sync"
	"time"

	xmpp "gosrc.io/xmpp"
	"gosrc.io/xmpp/stanza"
)

// C05 / C09 / C12: the receive loops of Client and Component on a stub transport fed with a real XML stream.
type recvProp struct {
	id        string
	resumeObs string // observation of the `resume` op of the case being executed
}

func init() {
	register("C05", recvProp{id: "C05"})
	register("C09", recvProp{id: "C09"})
	register("C12", recvProp{id: "C12"})
}

// chunkReader returns the stream in pseudo-random read sizes (segmentation of the byte stream).
type chunkReader struct {
	data []byte
	rng  *rand.Rand
	max  int
}

// pauseMark: the server pauses for a moment at this point of the stream (an XML comment: nothing for the parser)
const pauseMark = "<!--pause-->"

func (c *chunkReader) Read(p []byte) (int, error) {
	if len(c.data) == 0 {
		return 0, io.EOF
	}
	if bytes.HasPrefix(c.data, []byte(pauseMark)) {
		time.Sleep(time.Millisecond)
	}
	n := 1 + c.rng.Intn(c.max)
	if n > len(p) {
		n = len(p)
	}
	if n > len(c.data) {
		n = len(c.data)
	}
	if i := bytes.Index(c.data[1:], []byte(pauseMark)); i >= 0 && n > i+1 {
		n = i + 1 // a read ends where the server pauses
	}
	copy(p, c.data[:n])
	c.data = c.data[n:]
	return n, nil
}

func recvXML(kind, arg string, component bool, pad int) string {
	filler := strings.Repeat("x", pad)
	switch kind {
	case "msg":
		return fmt.Sprintf("<message id='%s' from='a@b/c' to='d@e' type='chat'><body>hi %s</body><x xmlns='unknown:ns'><y attr='1'>deep<z/></y></x></message>", arg, filler)
	case "pres":
		return fmt.Sprintf("<presence id='%s' from='a@b/c'><show>away</show><status>%s</status></presence>", arg, filler)
	case "iq":
		// the shapes of IQ a server sends: a result with a registered payload, an empty result (the usual answer to a
		// ping or a set), an error that carries only <error/>, an error echoing the request, a result with a payload
		// nobody registered
		sum := 0
		for _, ch := range arg {
			sum += int(ch)
		}
		switch sum % 5 {
		case 1:
			return fmt.Sprintf("<iq id='%s' type='result' from='srv'/>", arg)
		case 2:
			return fmt.Sprintf("<iq id='%s' type='error' from='srv'><error type='cancel'><service-unavailable xmlns='urn:ietf:params:xml:ns:xmpp-stanzas'/><text xmlns='urn:ietf:params:xml:ns:xmpp-stanzas'>%s</text></error></iq>", arg, filler)
		case 3:
			return fmt.Sprintf("<iq id='%s' type='error' from='srv'><query xmlns='jabber:iq:version'/><error type='wait' code=''><internal-server-error xmlns='urn:ietf:params:xml:ns:xmpp-stanzas'/></error></iq>", arg)
		case 4:
			return fmt.Sprintf("<iq id='%s' type='result' from='srv'><thing xmlns='urn:verif:unregistered'><name>%s</name></thing></iq>", arg, filler)
		}
		return fmt.Sprintf("<iq id='%s' type='result' from='srv'><query xmlns='jabber:iq:version'><name>%s</name></query></iq>", arg, filler)
	case "r":
		return "<r xmlns='urn:xmpp:sm:3'/>"
	case "a":
		return fmt.Sprintf("<a xmlns='urn:xmpp:sm:3' h='%s'/>", arg)
	case "serr":
		return "<stream:error><host-unknown xmlns='urn:ietf:params:xml:ns:xmpp-streams'/></stream:error>"
	case "close":
		return "</stream:stream>"
	case "nonza":
		switch arg {
		case "features":
			return "<stream:features><bind xmlns='urn:ietf:params:xml:ns:xmpp-bind'/></stream:features>"
		case "success":
			return "<success xmlns='urn:ietf:params:xml:ns:xmpp-sasl'/>"
		case "failure":
			return "<failure xmlns='urn:ietf:params:xml:ns:xmpp-sasl'><not-authorized/></failure>"
		case "enabled":
			return "<enabled xmlns='urn:xmpp:sm:3' id='other'/>"
		case "resumed":
			return "<resumed xmlns='urn:xmpp:sm:3' previd='other' h='1'/>"
		case "failed":
			return "<failed xmlns='urn:xmpp:sm:3'/>"
		}
	}
	return "<unknown xmlns='no:such:ns'/>"
}

func recvArg(op []string) string {
	switch op[1] {
	case "msg", "pres", "iq", "nonza":
		return unhx(op[2])
	}
	return op[2]
}

func recvKey(p stanza.Packet) string {
	switch v := p.(type) {
	case stanza.Message:
		return "msg:" + hx(v.Id)
	case stanza.Presence:
		return "pres:" + hx(v.Id)
	case *stanza.IQ:
		return "iq:" + hx(v.Id)
	case stanza.SMRequest:
		return "r:-"
	case stanza.SMAnswer:
		return "a:" + strconv.Itoa(int(v.H))
	case stanza.StreamError:
		return "serr:-"
	case stanza.StreamFeatures:
		return "nonza:" + hx("features")
	case stanza.SASLSuccess:
		return "nonza:" + hx("success")
	case stanza.SASLFailure:
		return "nonza:" + hx("failure")
	case stanza.SMEnabled:
		return "nonza:" + hx("enabled")
	case stanza.SMResumed:
		return "nonza:" + hx("resumed")
	case stanza.SMFailed:
		return "nonza:" + hx("failed")
	case stanza.StreamClosePacket:
		return "close:-"
	}
	return "nonza:" + hx(fmt.Sprintf("%T", p))
}

func (rp recvProp) Exec(c Case) []string {
	component := c.Variant[0] == "component"
	smid := unhx(c.Variant[1])
	n0, _ := strconv.Atoi(c.Variant[2])
	h := fnv.New64a()
	h.Write([]byte(c.ID))
	rng := rand.New(rand.NewSource(int64(h.Sum64())))
	rp.resumeObs = "none"
	rp2 := &rp
	summary := rp2.run(c, component, smid, n0, rng)
	obs := make([]string, 0, len(c.Ops))
	for _, op := range c.Ops {
		switch op[0] {
		case "finish":
			obs = append(obs, summary)
		case "resume":
			obs = append(obs, rp2.resumeObs)
		default:
			obs = append(obs, "-")
		}
	}
	return obs
}

// reconnect does what Client.Resume does after the Disconnected event - Client.connect on the kept Session - against
// a scripted server that offers stream management and confirms the resumption, and reports the <resume/> request.
// stagedReader delivers its stages one after the other, stage k+1 only once gate k has been closed, and blocks after
// the last one until the last gate is closed (then EOF): a connection that stays open and silent.
type stagedReader struct {
	stages [][]byte
	gates  []chan struct{}
	i      int
	buf    []byte
}

func newStaged(stages ...string) *stagedReader {
	r := &stagedReader{}
	for _, s := range stages {
		r.stages = append(r.stages, []byte(s))
		r.gates = append(r.gates, make(chan struct{}))
	}
	return r
}

func (r *stagedReader) Read(p []byte) (int, error) {
	for len(r.buf) == 0 {
		if r.i > 0 {
			<-r.gates[r.i-1]
		}
		if r.i >= len(r.stages) {
			return 0, io.EOF
		}
		r.buf = r.stages[r.i]
		r.i++
	}
	n := copy(p, r.buf)
	r.buf = r.buf[n:]
	return n, nil
}

func reconnect(client *xmpp.Client, cfg *xmpp.Config, sess *xmpp.Session, smid string, refuse bool, again ...bool) string {
	reply := "<resumed xmlns='urn:xmpp:sm:3' previd='" + smid + "' h='57'/>"
	if refuse {
		// the server refuses the resumption: a fresh session is bound and stream management enabled anew
		reply = "<failed xmlns='urn:xmpp:sm:3'><item-not-found xmlns='urn:ietf:params:xml:ns:xmpp-stanzas'/></failed>"
	}
	script := "<?xml version='1.0'?><stream:stream xmlns='jabber:client' xmlns:stream='http://etherx.jabber.org/streams' version='1.0' id='s2'>" +
		"<stream:features><mechanisms xmlns='urn:ietf:params:xml:ns:xmpp-sasl'><mechanism>PLAIN</mechanism></mechanisms><sm xmlns='urn:xmpp:sm:3'/></stream:features>" +
		"<success xmlns='urn:ietf:params:xml:ns:xmpp-sasl'/>" +
		"<stream:features><bind xmlns='urn:ietf:params:xml:ns:xmpp-bind'/><sm xmlns='urn:xmpp:sm:3'/></stream:features>" +
		reply
	// what a refused resumption goes on with (a confirmed one does not read it during the negotiation)
	bindTail := "<iq type='result' id='x'><bind xmlns='urn:ietf:params:xml:ns:xmpp-bind'><jid>u@localhost/r</jid></bind></iq>" +
		"<enabled xmlns='urn:xmpp:sm:3' id='sm-new' resume='true'/>"
	// again: the resumed session then receives three more stanzas, stays open, and the application reconnects once
	// more on its own (no Disconnected event in between): the second <resume/> presents the count of the session as it
	// is then
	var staged *stagedReader
	var st2 *stubTransport
	if len(again) > 0 && again[0] && !refuse {
		staged = newStaged(script, "<message id='m1'/><presence/><iq type='result' id='zz'/>")
		st2 = newStub(staged)
	} else {
		st2 = newStub(strings.NewReader(script + bindTail))
	}
	if _, err := stanza.InitStream(st2.GetDecoder()); err != nil {
		return "initstream-failed"
	}
	cfg.Insecure = true
	xmpp.VerifSetSMResume(cfg, true)
	xmpp.VerifSetTransport(client, st2)
	xmpp.VerifSessionTransport(sess, st2)
	client.SetHandler(nil)
	done := make(chan string, 1)
	go func() {
		defer func() {
			if r := recover(); r != nil {
				done <- "panic"
			}
		}()
		if staged != nil {
			// the whole of Client.Resume: the receiver of the resumed session is started
			client.Resume()
		} else {
			xmpp.VerifClientConnect(client)
		}
		done <- ""
	}()
	select {
	case r := <-done:
		if r != "" {
			return r
		}
	case <-time.After(5 * time.Second):
		return "hang"
	}
	for _, w := range st2.takeWrites() {
		s := string(w)
		if strings.HasPrefix(s, "<resume ") {
			attr := func(name string) string {
				i := strings.Index(s, name+`="`)
				if i < 0 {
					return "?"
				}
				j := strings.Index(s[i+len(name)+2:], `"`)
				return s[i+len(name)+2 : i+len(name)+2+j]
			}
			if refuse {
				// what the NEW session starts with
				if client.Session == nil {
					return "nosession"
				}
				return hx(attr("previd")) + ":" + attr("h") + ":" + hx(client.Session.SMState.Id) + ":" + strconv.Itoa(int(client.Session.SMState.Inbound))
			}
			// a confirmed resumption continues the session: the count it goes on with is the one it presented (the h of
			// <resumed/> is the SERVER's count of the client's stanzas - here 57 - and has nothing to do with it)
			after := "nosession"
			if client.Session != nil {
				after = strconv.Itoa(int(client.Session.SMState.Inbound))
			}
			res := hx(attr("previd")) + ":" + attr("h") + ":" + after
			if staged != nil && client.Session != nil {
				base := client.Session.SMState.Inbound
				close(staged.gates[0])
				for i := 0; i < 400 && client.Session.SMState.Inbound < base+3; i++ {
					time.Sleep(5 * time.Millisecond)
				}
				second := reconnect(client, cfg, client.Session, smid, false)
				close(staged.gates[1])
				h2 := "?"
				if f := strings.Split(second, ":"); len(f) == 3 {
					h2 = f[1]
				}
				res += ":" + h2
			}
			return res
		}
	}
	return "none"
}

// resumeFails: the application answers the Disconnected event with Client.Resume, but the server cannot be reached.
// The ONE loss has been reported already: the failed attempt returns its error and raises no further Disconnected event.
func resumeFails(client *xmpp.Client) string {
	st := newStub(nil)
	st.onConnect = func() (string, error) {
		return "", xmpp.NewConnError(errors.New("harness: connection refused"), false)
	}
	xmpp.VerifSetTransport(client, st)
	var mu sync.Mutex
	disc := 0
	client.SetHandler(func(e xmpp.Event) error {
		if xmpp.VerifEventState(e) == xmpp.StateDisconnected {
			mu.Lock()
			disc++
			mu.Unlock()
		}
		return nil
	})
	errc := make(chan error, 1)
	go func() {
		defer func() {
			if r := recover(); r != nil {
				errc <- nil
			}
		}()
		errc <- client.Resume()
	}()
	var err error
	select {
	case err = <-errc:
	case <-time.After(5 * time.Second):
		return "hang"
	}
	time.Sleep(20 * time.Millisecond) // an event raised by a goroutine the attempt left behind
	mu.Lock()
	defer mu.Unlock()
	return fmt.Sprintf("fails:disc=%d:err=%v", disc, err != nil)
}

// run renders the history as one XML stream, feeds it to the real receive loop and summarises what happened.
func (rp *recvProp) run(c Case, component bool, smid string, n0 int, rng *rand.Rand) string {
	if who := c.Variant[0]; who == "client-tcp" || who == "client-ws" {
		return (*rp).runReal(c, who, smid, n0, rng)
	}
	ns := "jabber:client"
	if component {
		ns = "jabber:component:accept"
	}
	var sb strings.Builder
	fmt.Fprintf(&sb, "<?xml version='1.0'?><stream:stream xmlns='%s' xmlns:stream='http://etherx.jabber.org/streams' version='1.0' id='s1'>", ns)
	failAt := map[int]bool{}
	nreq := 0
	for _, op := range c.Ops {
		switch op[0] {
		case "in":
			pad := 0
			if rng.Intn(4) == 0 {
				pad = rng.Intn(2000)
			}
			if rng.Intn(40) == 0 {
				pad = 20000 + rng.Intn(10000)
			}
			sb.WriteString(recvXML(op[1], recvArg(op), component, pad))
			if op[1] == "a" && strings.HasSuffix(c.Variant[0], "-sent") {
				// the server pauses after its acknowledgement: what follows arrives while the client is still busy
				// with the retransmission the acknowledgement caused
				sb.WriteString(pauseMark)
			}
			if rng.Intn(3) == 0 {
				sb.WriteString("\n  ")
			}
			if op[1] == "r" {
				nreq++
				if op[3] == "fail" {
					failAt[nreq] = true
				}
			}
		case "cut":
			sb.WriteString(unhx(op[1]))
		}
	}
	maxChunk := []int{1, 7, 64, 4096, 1 << 16}[rng.Intn(5)]
	st := newStub(&chunkReader{data: []byte(sb.String()), rng: rng, max: maxChunk})
	st.failAt = failAt
	if _, err := stanza.InitStream(st.GetDecoder()); err != nil {
		return "initstream-failed"
	}

	var mu sync.Mutex
	var routed []string
	errh := 0
	var disc []string
	serr := 0
	router := xmpp.NewRouter()
	// routes an application typically has in front of its catch-all: by IQ payload namespace, by type
	router.NewRoute().IQNamespaces("urn:verif:never", "urn:verif:never2").HandlerFunc(func(s xmpp.Sender, p stanza.Packet) {})
	router.NewRoute().Packet("iq").StanzaType("get").IQNamespaces("urn:verif:never").HandlerFunc(func(s xmpp.Sender, p stanza.Packet) {})
	replies := c.Variant[0] == "client-replies"
	if replies {
		// the outbound half of the connection is already dead: what the handlers send cannot be written
		st.failPrefix = "<message id='reply-"
	}
	router.NewRoute().HandlerFunc(func(s xmpp.Sender, p stanza.Packet) {
		mu.Lock()
		routed = append(routed, recvKey(p))
		k := len(routed)
		mu.Unlock()
		if replies {
			// the application answers what it receives (raw, and as a stanza): each call returns - with an error, the
			// connection being dead - and the routing goroutine ends
			s.SendRaw(fmt.Sprintf("<message id='reply-%d' to='a@b'><body>ack</body></message>", k))
			s.Send(stanza.Message{Attrs: stanza.Attrs{Id: fmt.Sprintf("reply-%d", k), To: "a@b"}, Body: "ack"})
		}
	})
	eh := func(error) { mu.Lock(); errh++; mu.Unlock() }
	handler := func(e xmpp.Event) error {
		mu.Lock()
		defer mu.Unlock()
		switch xmpp.VerifEventState(e) {
		case xmpp.StateDisconnected:
			disc = append(disc, hx(e.SMState.Id)+":"+strconv.Itoa(int(e.SMState.Inbound)))
		case xmpp.StateStreamError:
			serr++
		}
		return nil
	}

	base := runtime.NumGoroutine()
	done := make(chan bool, 1)
	quit := make(chan struct{})
	panicked := false
	var pendCh chan stanza.IQ
	pendCancel := func() {}
	var rcClient *xmpp.Client
	var rcCfg *xmpp.Config
	var rcSess *xmpp.Session
	if component {
		comp, _ := xmpp.NewComponent(xmpp.ComponentOptions{Domain: "comp.localhost", Secret: "s"}, router, eh)
		comp.SetHandler(handler)
		xmpp.VerifSetComponentTransport(comp, st)
		go func() {
			defer func() {
				if r := recover(); r != nil {
					panicked = true
				}
				done <- true
			}()
			xmpp.VerifComponentRecv(comp)
		}()
	} else {
		// client-noresume: the session after <enabled/> WITHOUT resumption - EnableStreamManagement has switched
		// Config.StreamManagementEnable off, stream management (counting, answering <r/>) goes on
		cfg := &xmpp.Config{Jid: "u@localhost/r", Credential: xmpp.Password("p"), StreamManagementEnable: smid != "" && c.Variant[0] != "client-noresume"}
		client, err := newStubClient(cfg, router, eh, st)
		rcClient, rcCfg = client, cfg
		if err != nil {
			return "newclient-failed"
		}
		client.SetHandler(handler)
		sess := &xmpp.Session{}
		if smid != "" {
			sess.SMState = xmpp.SMState{Id: smid, Inbound: uint(n0), UnAckQueue: stanza.NewUnAckQueue()}
		} else {
			sess.SMState = xmpp.SMState{Inbound: uint(n0)}
		}
		client.Session = sess
		rcSess = sess
		// a request is pending under the id "pend": responses with that id (the server may send several) go to its
		// channel - the first one - or to the routes like any other stanza; all of them count as routed
		for _, op := range c.Ops {
			if op[0] == "in" && op[1] == "iq" && unhx(op[2]) == "pend" {
				iq, _ := stanza.NewIQ(stanza.Attrs{Type: stanza.IQTypeGet, Id: "pend", To: "srv"})
				iq.Payload = &stanza.Version{}
				ctx, cancel := context.WithCancel(context.Background())
				pendCancel = cancel
				if ch, err := client.SendIQ(ctx, iq); err == nil {
					pendCh = ch
				}
				st.takeWrites()
				break
			}
		}
		if strings.HasSuffix(c.Variant[0], "-sent") {
			// the application has sent three stanzas on the stream-managed session before the history starts: an <a/>
			// of the server that acknowledges fewer makes the client transmit the others again and ask once more -
			// from the routing goroutine, next to the receive loop, which goes on answering and routing
			for k := 1; k <= 3; k++ {
				client.SendRaw(fmt.Sprintf("<message id='out%d' to='x@y'><body>o</body></message>", k))
			}
			st.takeWrites()
			st.mu.Lock()
			st.nwrite = 0
			// the retransmission takes a moment (a real socket): the routing goroutine that handles the <a/> is still at
			// it while the receive loop goes on counting
			st.onWrite = func(n int, p []byte) {
				if bytes.HasPrefix(p, []byte("<message id='out")) {
					time.Sleep(2 * time.Millisecond)
				}
			}
			st.mu.Unlock()
		}
		go func() {
			defer func() {
				if r := recover(); r != nil {
					panicked = true
				}
				done <- true
			}()
			xmpp.VerifRecv(client, quit)
		}()
	}
	hang := false
	select {
	case <-done:
	case <-time.After(5 * time.Second):
		hang = true
	}
	pendCancel()
	// let the routing goroutines finish (quiescence: goroutine count back to the baseline)
	deadline := time.Now().Add(2 * time.Second)
	for runtime.NumGoroutine() > base && time.Now().Before(deadline) {
		time.Sleep(200 * time.Microsecond)
	}
	if rcSess != nil && !hang && pendCh == nil {
		awaitRouted(&mu, &routed, int(rcSess.SMState.Inbound)-n0)
	}
	leaked := runtime.NumGoroutine() - base
	if hang {
		hungCases++ // a blocked receive loop: the run stops after three such cases (each costs its full time limit)
		return fmt.Sprintf("hang leaked=%d", leaked)
	}
	quitClosed := false
	if !component {
		select {
		case <-quit:
			quitClosed = true
		default:
		}
	}
	mu.Lock()
	defer mu.Unlock()
	if pendCh != nil {
	drainPend:
		for {
			select {
			case v, ok := <-pendCh:
				if !ok {
					break drainPend
				}
				routed = append(routed, "iq:"+hx(v.Id))
			default:
				break drainPend
			}
		}
	}
	if !component {
		sort.Strings(routed)
	}
	var ans []string
	for _, w := range st.takeWrites() {
		s := string(w)
		if strings.HasPrefix(s, "<a ") {
			i := strings.Index(s, `h="`)
			j := strings.Index(s[i+3:], `"`)
			ans = append(ans, s[i+3:i+3+j])
		}
	}
	st.mu.Lock()
	closes, sclose := st.closes, 0
	for _, l := range st.log {
		if l == "streamclose" {
			sclose++
		}
	}
	st.mu.Unlock()
	out := []string{
		"routed=" + strings.Join(routed, ","),
		"ans=" + strings.Join(ans, ","),
		"errh=" + strconv.Itoa(errh),
		"disc=" + strings.Join(disc, ","),
		"serr=" + strconv.Itoa(serr),
		"quit=" + strconv.FormatBool(quitClosed),
		"closes=" + strconv.Itoa(closes),
		"sclose=" + strconv.Itoa(sclose),
		"panic=" + strconv.FormatBool(panicked),
	}
	s := strings.Join(out, ";")
	if leaked > 0 {
		s += fmt.Sprintf(";leaked=%d", leaked)
	}
	if strings.HasPrefix(c.Variant[0], "client-resume") && rcClient != nil {
		mu.Unlock()
		refuse, fails := false, false
		for _, op := range c.Ops {
			if op[0] == "resume" && len(op) > 1 && op[1] == "refused" {
				refuse = true
			}
			if op[0] == "resume" && len(op) > 1 && op[1] == "fails" {
				fails = true
			}
		}
		if fails {
			rp.resumeObs = resumeFails(rcClient)
		} else {
			rp.resumeObs = reconnect(rcClient, rcCfg, rcSess, smid, refuse, true)
		}
		mu.Lock()
	}
	return s
}

// awaitRouted: every stanza the receive loop COUNTED was handed to a routing goroutine started with `go`; on a loaded
// machine such a goroutine can still be waiting for a processor when the goroutine count has already fallen back to the
// baseline (other goroutines of the case end too). Wait (at most 2 s more) until as many stanzas were routed as were
// counted. A library that counts wrongly only makes this wait useless, not the observation wrong.
var awaitRoutedTimeouts = 0

func awaitRouted(mu *sync.Mutex, routed *[]string, want int) {
	if awaitRoutedTimeouts >= 3 {
		return // the library counts what it does not route: waiting again would only cost 2 s per case
	}
	defer func(t0 time.Time) {
		if time.Since(t0) >= 2*time.Second {
			awaitRoutedTimeouts++
		}
	}(time.Now())
	deadline := time.Now().Add(2 * time.Second)
	for time.Now().Before(deadline) {
		mu.Lock()
		k := 0
		for _, r := range *routed {
			if strings.HasPrefix(r, "msg:") || strings.HasPrefix(r, "pres:") || strings.HasPrefix(r, "iq:") {
				k++
			}
		}
		mu.Unlock()
		if k >= want {
			return
		}
		time.Sleep(200 * time.Microsecond)
	}
}

// ---- generators ------------------------------------------------------------------------------------

func recvOp(kind, arg string, fail bool) []string {
	f := "ok"
	if fail {
		f = "fail"
	}
	if arg == "" {
		arg = "-"
	}
	return []string{"in", kind, arg, f}
}

func (rp recvProp) Generate(rng *rand.Rand, tier string, st *Stats) []Case {
	var cases []Case
	n := 0
	mk := func(who, smid string, n0 int, ops [][]string) {
		ops = append(ops, []string{"finish"})
		cases = append(cases, Case{ID: fmt.Sprintf("%s-%d", rp.id, n), Variant: []string{who, hx(smid), strconv.Itoa(n0)}, Ops: ops})
		n++
	}
	nres := 0
	mkResume := func(smid string, n0 int, ops [][]string) {
		nres++
		if nres%3 == 0 {
			ops = append(ops, []string{"finish"}, []string{"resume", "refused"})
		} else {
			ops = append(ops, []string{"finish"}, []string{"resume"})
		}
		cases = append(cases, Case{ID: fmt.Sprintf("%s-%d", rp.id, n), Variant: []string{"client-resume", hx(smid), strconv.Itoa(n0)}, Ops: ops})
		n++
	}
	idc := 0
	nextID := func() string { idc++; return hx(fmt.Sprintf("id%d", idc)) }
	gen := func(kind string) []string {
		switch kind {
		case "msg", "pres", "iq":
			return recvOp(kind, nextID(), false)
		case "a":
			return recvOp("a", strconv.Itoa(idc%4), false)
		case "r", "serr", "close":
			return recvOp(kind, "-", false)
		case "rfail":
			return recvOp("r", "-", true)
		default: // nonza:<name>
			return recvOp("nonza", hx(strings.TrimPrefix(kind, "nonza:")), false)
		}
	}
	seq := func(kinds []string) [][]string {
		idc = 0
		var ops [][]string
		for _, k := range kinds {
			if k == "cut" {
				// the stream ends inside a stanza: inside its start tag, inside its content, inside its end tag
				forms := []string{"<message id='trunc' ", "<message id='trunc'><body>hal", "<presence id='trunc'><show>away</show></pres",
					"<iq id='trunc' type='get'><query xmlns='jabber:iq:version'/>"}
				ops = append(ops, []string{"cut", hx(forms[(len(ops)+len(kinds))%len(forms)])})
			} else if k == "junk" {
				ops = append(ops, []string{"cut", hx("<unknown xmlns='no:such:ns'/>")})
			} else {
				ops = append(ops, gen(k))
			}
		}
		return ops
	}
	// a pending request and several responses carrying its id, back to back (each is routed in its own goroutine)
	if rp.id == "C05" {
		dup := func(k int) [][]string {
			var ops [][]string
			for i := 0; i < k; i++ {
				ops = append(ops, recvOp("iq", hx("pend"), false))
			}
			return ops
		}
		for _, k := range []int{2, 4, 16, 200} {
			for r := 0; r < 10; r++ {
				mk("client", "sm1", 0, append(append(seq([]string{"msg"}), dup(k)...), seq([]string{"r", "msg"})...))
			}
		}
	}
	// responses to the client's own pending request are stanzas like any other: received, so counted
	if rp.id == "C09" {
		for _, n0 := range []int{0, 3} {
			mk("client", "sm1", n0, append(append(seq([]string{"msg"}), recvOp("iq", hx("pend"), false)), seq([]string{"pres", "r", "msg", "r"})...))
			mkResume("sm1", n0, append(append(seq([]string{"r", "msg"}), recvOp("iq", hx("pend"), false), recvOp("iq", hx("pend"), false)), seq([]string{"r"})...))
		}
	}
	// the connection is lost in the middle of a stanza: not received, so not counted - neither in the Disconnected event
	// nor in the resumption request that follows
	if rp.id == "C09" {
		for _, n0 := range []int{0, 3} {
			for _, ks := range [][]string{{"msg", "pres", "r", "cut"}, {"msg", "r", "iq", "cut"}, {"cut"}, {"r", "msg", "msg", "cut"}, {"msg", "cut"}} {
				mkResume("sm1", n0, seq(ks))
				mk("client", "sm1", n0, seq(ks))
			}
		}
	}
	// the reconnection attempt that follows the loss fails (server unreachable): still ONE report of the loss
	if rp.id == "C12" {
		for _, ks := range [][]string{{"msg", "cut"}, {"msg", "pres", "r"}, {"serr"}, {"msg", "rfail", "msg"}, {}} {
			ops := append(seq(ks), []string{"finish"}, []string{"resume", "fails"})
			cases = append(cases, Case{ID: fmt.Sprintf("%s-%d", rp.id, n), Variant: []string{"client-resume", hx("sm1"), "0"}, Ops: ops})
			n++
		}
	}
	// handlers that ANSWER what they receive while the outbound half of the connection is already dead (every such write
	// fails): each Send / SendRaw returns, the routing goroutines end, the loss is reported once - with stream management
	// (store-then-write under the queue lock) and without
	if rp.id == "C12" || rp.id == "C05" {
		for _, smid := range []string{"sm1", ""} {
			for _, ks := range [][]string{{"msg", "msg", "msg"}, {"msg", "pres", "iq", "msg", "cut"}, {"iq", "iq"}, {"msg", "pres", "msg", "pres", "msg", "junk"}} {
				mk("client-replies", smid, 0, seq(ks))
			}
		}
	}
	// an acknowledgement that covers only part of what the client has sent (three stanzas sent before the history): the
	// retransmission and the new request are written from a routing goroutine while the loop goes on: the <r/> that
	// follows is answered, the stanzas after it are routed
	if rp.id == "C05" || rp.id == "C12" || rp.id == "C09" {
		for _, h := range []string{"0", "1", "2", "3", "7"} {
			for _, tail := range [][]string{{"r", "msg", "r"}, {"msg", "r", "pres", "iq", "r"}, {"r"}} {
				ops := append([][]string{recvOp("a", h, false)}, seq(tail)...)
				mk("client-sent", "sm1", 0, ops)
			}
		}
		mk("client-sent", "sm1", 0, append(append([][]string{recvOp("a", "1", false), recvOp("a", "1", false)}, seq([]string{"r", "msg"})...), recvOp("a", "2", false), recvOp("r", "-", false)))
		// ... and the count the session goes on with - in the Disconnected event and in the resumption request that
		// follows, after every goroutine has finished - is still the number of stanzas received (an acknowledgement is
		// handled next to the receive loop: it must not put an older count back)
		if rp.id == "C09" || rp.id == "C12" {
			for _, h := range []string{"0", "1", "2"} {
				ops := append([][]string{recvOp("a", h, false)}, seq([]string{"msg", "pres", "msg", "iq", "msg", "r"})...)
				ops = append(ops, []string{"finish"}, []string{"resume"})
				cases = append(cases, Case{ID: fmt.Sprintf("%s-%d", rp.id, n), Variant: []string{"client-resume-sent", hx("sm1"), "0"}, Ops: ops})
				n++
			}
		}
	}
	// corpus (witnesses of F-09, F-05, F-12)
	mk("client", "sm1", 0, seq([]string{"a", "r"}))
	if rp.id == "C05" {
		mk("client", "", 0, seq([]string{"msg", "a"}))
	}
	if rp.id != "C09" {
		mk("client", "sm1", 0, seq([]string{"msg", "rfail", "msg"}))
	}

	var alpha []string
	L := 4
	switch rp.id {
	case "C09":
		alpha = []string{"msg", "pres", "iq", "r", "a"}
		L = 5
	case "C05":
		alpha = []string{"msg", "iq", "r", "a", "nonza:features", "serr", "close", "cut"}
	case "C12":
		alpha = []string{"msg", "pres", "r", "a", "cut", "rfail", "junk", "serr"}
	}
	if tier == "thorough" {
		L++
	}
	var rec func(prefix []string, depth int)
	ex := 0
	rec = func(prefix []string, depth int) {
		if depth == 0 {
			kinds := append([]string(nil), prefix...)
			mk("client", "sm1", 0, seq(kinds))
			ex++
			if rp.id == "C05" && ex%3 == 0 {
				mk("component", "", 0, seq(kinds))
				mk("client", "", 0, seq(kinds)) // stream management never enabled
			}
			if rp.id == "C09" && ex%5 == 0 {
				mk("client", "sm-resumed", 7, seq(kinds)) // a resumed session continues from its count
			}
			if rp.id == "C09" && ex%7 == 0 {
				mkResume("sm1", ex%3, seq(kinds)) // the count presented by the resumption request that follows
			}
			if rp.id == "C09" && ex%11 == 0 {
				// stream management enabled without resumption: the config flag is off, the count goes on
				ops := append(seq(kinds), []string{"finish"})
				cases = append(cases, Case{ID: fmt.Sprintf("%s-%d", rp.id, n), Variant: []string{"client-noresume", hx("sm1"), "0"}, Ops: ops})
				n++
			}
			return
		}
		for _, a := range alpha {
			rec(append(prefix, a), depth-1)
		}
	}
	for l := 1; l <= L; l++ {
		rec(nil, l)
	}
	st.Exhaustive = true
	st.Note(fmt.Sprintf("%d histories: every sequence of length 1..%d over %v (client with SM; C05 adds component and SM-never-enabled runs, C09 resumed sessions starting at 7)", ex, L, alpha))

	// random long histories over the full alphabet
	full := []string{"msg", "pres", "iq", "r", "a", "nonza:features", "nonza:success", "nonza:enabled", "nonza:resumed", "nonza:failed", "nonza:failure"}
	R := 150
	maxLen := 300
	if tier == "thorough" {
		R = 1500
	}
	for i := 0; i < R; i++ {
		ln := 1 + rng.Intn(maxLen)
		var kinds []string
		for j := 0; j < ln; j++ {
			kinds = append(kinds, full[rng.Intn(len(full))])
			st.Inc("kind_" + kinds[len(kinds)-1])
		}
		switch rng.Intn(6) {
		case 0:
			kinds = append(kinds, "close")
		case 1:
			kinds = append(kinds, "rfail")
		case 2:
			kinds = append(kinds, "junk")
		case 3:
			kinds = append(kinds, "serr", "msg", "cut")
		}
		who, smid, n0 := "client", "sm1", 0
		switch {
		case rp.id == "C05" && i%4 == 1:
			who, smid = "component", ""
		case rp.id == "C05" && i%4 == 2:
			smid = ""
		case rp.id == "C09" && i%3 == 1:
			smid, n0 = "sm-resumed", rng.Intn(1000)
		}
		mk(who, smid, n0, seq(kinds))
		if rp.id == "C09" && i%3 == 0 {
			mkResume(smid, n0, seq(kinds))
			st.Inc("resume_after_history")
		}
	}

	// the same loop over the real transports: XMPPTransport on a connection that goes half-open after the history
	// (only the keepalive can notice), WebsocketTransport against an in-process server that sends whole, fragmented
	// and batched messages. A stream error makes the client close the transport, so it can only come last; the
	// WebSocket framing has no </stream:stream> and the harness cannot fail a WebSocket write.
	realAlpha := map[string][]string{
		"C05": {"msg", "iq", "pres", "r", "a", "nonza:features"},
		"C09": {"msg", "pres", "iq", "r", "a"},
		"C12": {"msg", "pres", "r", "a"},
	}[rp.id]
	RR := 24
	if tier == "thorough" {
		RR = 240
	}
	for i := 0; i < RR; i++ {
		who := []string{"client-tcp", "client-ws"}[i%2]
		ln := rng.Intn(12)
		if i%8 == 7 {
			ln = 30 + rng.Intn(60)
		}
		var kinds []string
		for j := 0; j < ln; j++ {
			kinds = append(kinds, realAlpha[rng.Intn(len(realAlpha))])
		}
		switch rng.Intn(6) {
		case 0:
			kinds = append(kinds, "serr")
		case 1:
			kinds = append(kinds, "cut")
		case 2:
			kinds = append(kinds, "junk")
		case 3:
			if who == "client-tcp" {
				kinds = append(kinds, "close")
			}
		case 4:
			if who == "client-tcp" {
				kinds = append(kinds, "rfail")
			}
		}
		smid := "sm1"
		if rp.id == "C05" && i%6 >= 4 {
			smid = ""
		}
		mk(who, smid, 0, seq(kinds))
		st.Inc("real_transport_" + who)
	}
	st.Note(fmt.Sprintf("%d histories over the real transports (XMPPTransport on a half-open in-memory connection with the keepalive running; WebsocketTransport against an in-process server with whole / fragmented / batched messages)", RR))

	// C12: every byte offset of generated streams
	if rp.id == "C12" {
		S := 6
		if tier == "thorough" {
			S = 60
		}
		cuts := 0
		for s := 0; s < S; s++ {
			k := 2 + rng.Intn(5)
			var kinds []string
			for j := 0; j < k; j++ {
				kinds = append(kinds, []string{"msg", "pres", "iq", "r", "a"}[rng.Intn(5)])
			}
			ops := seq(kinds)
			// cut inside each element at every byte offset (the harness renders the same XML without padding here)
			for e := 0; e < len(ops); e++ {
				el := recvXML(ops[e][1], recvArg(ops[e]), false, 0)
				for b := 0; b < len(el); b++ {
					pre := append([][]string(nil), ops[:e]...)
					pre = append(pre, []string{"cut", hx(el[:b])})
					mk("client", "sm1", 0, pre)
					cuts++
				}
			}
		}
		st.Add("byte_cut_cases", cuts)
		st.Note(fmt.Sprintf("%d byte-offset cuts: every byte offset inside every element of %d generated streams (inside tags, attribute values, text, child elements)", cuts, S))
	}
	return cases
}
