package main

import (
	"bytes"
	"encoding/xml"
	"errors"
	"fmt"
	"math/rand"
	"reflect"
	"sort"
	"strconv"
	"strings"

	"gosrc.io/xmpp/stanza"
)

// C01, schema-coded types: correspondence of the Lean generic codec (Model/C01Schema.lean) with encoding/xml's
// reflection walk on the real struct types of stanza/.
//
// op:  schema <kind> <Type> <ctx> <value tokens…>
//      kind = msgext | presext | iqpayload | plain;  value tokens: see Drv/C01Schema.lean
// obs: xml;decoder tokens;value parsed back|err;second xml|err;skeleton|err;np
//      (xml.Marshal; the decoder's view of the bytes under the default namespace ctx; Decoder.DecodeElement into a fresh
//      value, dumped; xml.Marshal of that; names-only skeleton; np = the same value inside a Message / Presence / IQ
//      through a stream and stanza.NextPacket: same | diff | type:<T> | err | -)

// every struct type of stanza/ reachable from the registry that the Lean table (Model/C01SchemaTypes.lean) knows
var c01sTypes = map[string]reflect.Type{}

func init() {
	for _, v := range []interface{}{
		stanza.Delegated{}, stanza.First{}, stanza.ResultSet{}, stanza.Delegation{}, stanza.ControlField{}, stanza.ControlSet{},
		stanza.Identity{}, stanza.Feature{}, stanza.DiscoInfo{}, stanza.DiscoItem{}, stanza.DiscoItems{}, stanza.Roster{},
		stanza.RosterItem{}, stanza.RosterItems{}, stanza.Version{}, stanza.Markable{}, stanza.MarkReceived{}, stanza.MarkDisplayed{},
		stanza.MarkAcknowledged{}, stanza.StateActive{}, stanza.StateComposing{}, stanza.StateGone{}, stanza.StateInactive{},
		stanza.StatePaused{}, stanza.HintNoPermanentStore{}, stanza.HintNoStore{}, stanza.HintNoCopy{}, stanza.HintStore{},
		stanza.HTMLBody{}, stanza.HTML{}, stanza.OOB{}, stanza.ReceiptRequest{}, stanza.ReceiptReceived{}, stanza.Create{},
		stanza.Option{}, stanza.Field{}, stanza.FormItem{}, stanza.Form{}, stanza.Configure{}, stanza.SubInfo{}, stanza.SubOptions{},
		stanza.Item{}, stanza.Publish{}, stanza.PublishOptions{}, stanza.Affiliation{}, stanza.Affiliations{}, stanza.Default{},
		stanza.Items{}, stanza.Retract{}, stanza.Subscription{}, stanza.Subscriptions{}, stanza.PubSubGeneric{}, stanza.Bind{},
		stanza.StreamSession{}, stanza.MucPresence{},
		stanza.AffiliationOwner{}, stanza.AffiliationsOwner{}, stanza.ConfigureOwner{}, stanza.DefaultOwner{}, stanza.RedirectOwner{},
		stanza.DeleteOwner{}, stanza.PurgeOwner{}, stanza.SubscriptionOwner{}, stanza.SubscriptionsOwner{}, stanza.CollectionEvent{},
		stanza.ConfigurationEvent{}, stanza.RedirectEvent{}, stanza.DeleteEvent{}, stanza.ItemEvent{}, stanza.RetractEvent{},
		stanza.ItemsEvent{}, stanza.PurgeEvent{}, stanza.SubscriptionEvent{}, stanza.Actions{}, stanza.Note{},
	} {
		t := reflect.TypeOf(v)
		c01sTypes[t.Name()] = t
	}
}

// the types the Lean model claims (Model.C01S.modelled): the generator draws from these
var c01sModelled = []string{
	"Delegated", "First", "ResultSet", "Delegation", "Identity", "Feature", "DiscoInfo", "DiscoItem", "DiscoItems",
	"Roster", "RosterItem", "RosterItems", "Version", "Markable", "MarkReceived", "MarkDisplayed", "MarkAcknowledged",
	"StateActive", "StateComposing", "StateGone", "StateInactive", "StatePaused", "HintNoPermanentStore", "HintNoStore",
	"HintNoCopy", "HintStore", "OOB", "ReceiptRequest", "ReceiptReceived", "Create", "Option", "Field", "SubInfo",
	"Affiliation", "Affiliations", "Subscription", "Subscriptions", "Bind", "StreamSession",
	"Form", "Configure", "SubOptions", "Item", "Publish", "PublishOptions", "Default", "Items", "Retract", "PubSubGeneric",
	"AffiliationOwner", "AffiliationsOwner", "ConfigureOwner", "DefaultOwner", "RedirectOwner", "DeleteOwner", "PurgeOwner",
	"SubscriptionOwner", "SubscriptionsOwner", "CollectionEvent", "ConfigurationEvent", "RedirectEvent", "DeleteEvent",
	"ItemEvent", "RetractEvent", "ItemsEvent", "PurgeEvent", "SubscriptionEvent", "MucPresence", "Actions",
}

func c01sIsModelled(name string) bool {
	for _, n := range c01sModelled {
		if n == name {
			return true
		}
	}
	return false
}

// ---- typeInfo mirror -------------------------------------------------------------------------------------------------

type c01sField struct {
	idx  []int
	mode string // attr | elem | any | innerxml | other
	typ  reflect.Type
	name string // fieldInfo.name: the tag's name, else the XMLName of the field's struct type, else the Go field name
}

// c01sXMLNameOf: lookupXMLName of typeinfo.go (local name only)
func c01sXMLNameOf(t reflect.Type) string {
	for t.Kind() == reflect.Ptr {
		t = t.Elem()
	}
	if t.Kind() != reflect.Struct {
		return ""
	}
	if f, ok := t.FieldByName("XMLName"); ok {
		tag := f.Tag.Get("xml")
		return strings.Split(tag[strings.Index(tag, " ")+1:], ",")[0]
	}
	return ""
}

type c01sInfo struct {
	dyn    []int // index path of an untagged XMLName (nil: none / tagged)
	fields []c01sField
}

var c01sInfoCache = map[reflect.Type]*c01sInfo{}

// c01sTypeInfo mirrors encoding/xml's getTypeInfo for what the value dump needs: the order of typeInfo.fields
// (embedded structs flattened, XMLName / unexported / "-" dropped) and where a dynamic XMLName lives.
func c01sTypeInfo(t reflect.Type) *c01sInfo {
	if ti, ok := c01sInfoCache[t]; ok {
		return ti
	}
	ti := &c01sInfo{}
	haveXN := false
	for i := 0; i < t.NumField(); i++ {
		f := t.Field(i)
		tag := f.Tag.Get("xml")
		if (f.PkgPath != "" && !f.Anonymous) || tag == "-" {
			continue
		}
		if f.Anonymous {
			ft := f.Type
			if ft.Kind() == reflect.Ptr {
				ft = ft.Elem()
			}
			if ft.Kind() == reflect.Struct {
				inner := c01sTypeInfo(ft)
				if !haveXN && inner.dyn != nil {
					ti.dyn, haveXN = append([]int{i}, inner.dyn...), true
				}
				for _, fi := range inner.fields {
					fi.idx = append([]int{i}, fi.idx...)
					ti.fields = append(ti.fields, fi)
				}
				continue
			}
		}
		if f.Name == "XMLName" {
			if !haveXN {
				haveXN = true
				if strings.Split(strings.TrimSpace(tag[strings.Index(tag, " ")+1:]), ",")[0] == "" {
					ti.dyn = []int{i}
				}
			}
			continue
		}
		mode := "elem"
		for _, fl := range strings.Split(tag, ",")[1:] {
			switch fl {
			case "attr":
				mode = "attr"
			case "any":
				mode = "any"
			case "innerxml":
				mode = "innerxml"
			case "cdata", "chardata", "comment":
				mode = "other"
			}
		}
		name := strings.Split(tag[strings.Index(tag, " ")+1:], ",")[0]
		if name == "" {
			if name = c01sXMLNameOf(f.Type); name == "" {
				name = f.Name
			}
		}
		ti.fields = append(ti.fields, c01sField{idx: []int{i}, mode: mode, typ: f.Type, name: name})
	}
	c01sInfoCache[t] = ti
	return ti
}

var c01sErrType = errors.New("value does not fit the Go type")

var c01sTypeHistory = reflect.TypeOf(stanza.History{})

// ---- tokens -> Go value ------------------------------------------------------------------------------------------------

func c01sBuild(t reflect.Type, v reflect.Value, fs []string) ([]string, error) {
	if len(fs) == 0 {
		return nil, c01sErrType
	}
	if t == c01typeNode {
		if fs[0] != "N" {
			return nil, c01sErrType
		}
		n, rest, err := c01parseNode(fs[1:])
		if err != nil {
			return nil, err
		}
		v.Set(reflect.ValueOf(n))
		return rest, nil
	}
	if t == c01sTypeHistory {
		// H <maxchars> <maxstanzas> <seconds>   (nil | int); Since stays the zero time
		if len(fs) < 4 || fs[0] != "H" {
			return nil, c01sErrType
		}
		var h stanza.History
		for i, dst := range []*stanza.NullableInt{&h.MaxChars, &h.MaxStanzas, &h.Seconds} {
			if fs[1+i] == "nil" {
				continue
			}
			n, err := strconv.Atoi(fs[1+i])
			if err != nil {
				return nil, err
			}
			*dst = stanza.NewNullableInt(n)
		}
		v.Set(reflect.ValueOf(h))
		return fs[4:], nil
	}
	w := fs[0]
	switch t.Kind() {
	case reflect.String:
		if !strings.HasPrefix(w, "s:") {
			return nil, c01sErrType
		}
		v.SetString(unhx(w[2:]))
		return fs[1:], nil
	case reflect.Bool:
		if w != "b:true" && w != "b:false" {
			return nil, c01sErrType
		}
		v.SetBool(w == "b:true")
		return fs[1:], nil
	case reflect.Int, reflect.Int8, reflect.Int16, reflect.Int32, reflect.Int64:
		if !strings.HasPrefix(w, "i:") {
			return nil, c01sErrType
		}
		n, err := strconv.ParseInt(w[2:], 10, t.Bits())
		if err != nil {
			return nil, err
		}
		v.SetInt(n)
		return fs[1:], nil
	case reflect.Uint, reflect.Uint64:
		if !strings.HasPrefix(w, "u:") {
			return nil, c01sErrType
		}
		n, err := strconv.ParseUint(w[2:], 10, 64)
		if err != nil {
			return nil, err
		}
		v.SetUint(n)
		return fs[1:], nil
	case reflect.Interface:
		if w != "nil" {
			return nil, c01sErrType
		}
		return fs[1:], nil
	case reflect.Ptr:
		if w == "nil" {
			return fs[1:], nil
		}
		if w != "&" {
			return nil, c01sErrType
		}
		p := reflect.New(t.Elem())
		rest, err := c01sBuild(t.Elem(), p.Elem(), fs[1:])
		if err != nil {
			return nil, err
		}
		v.Set(p)
		return rest, nil
	case reflect.Slice:
		if w != "[" {
			return nil, c01sErrType
		}
		fs = fs[1:]
		for {
			if len(fs) == 0 {
				return nil, c01sErrType
			}
			if fs[0] == "]" {
				return fs[1:], nil
			}
			e := reflect.New(t.Elem()).Elem()
			rest, err := c01sBuild(t.Elem(), e, fs)
			if err != nil {
				return nil, err
			}
			v.Set(reflect.Append(v, e))
			fs = rest
		}
	case reflect.Struct:
		if w != "{" || len(fs) < 3 {
			return nil, c01sErrType
		}
		ti := c01sTypeInfo(t)
		dn := xml.Name{Space: unhx(fs[1]), Local: unhx(fs[2])}
		if ti.dyn != nil {
			v.FieldByIndex(ti.dyn).Set(reflect.ValueOf(dn))
		} else if dn.Space != "" || dn.Local != "" {
			return nil, c01sErrType
		}
		fs = fs[3:]
		for _, f := range ti.fields {
			rest, err := c01sBuild(f.typ, v.FieldByIndex(f.idx), fs)
			if err != nil {
				return nil, err
			}
			fs = rest
		}
		if len(fs) == 0 || fs[0] != "}" {
			return nil, c01sErrType
		}
		return fs[1:], nil
	}
	return nil, c01sErrType
}

// ---- Go value -> tokens ------------------------------------------------------------------------------------------------

func c01sDump(v reflect.Value, out *[]string) {
	t := v.Type()
	if t == c01typeNode {
		*out = append(*out, "N")
		*out = append(*out, c01nodeFields(v.Interface().(stanza.Node))...)
		return
	}
	if t == c01sTypeHistory {
		h := v.Interface().(stanza.History)
		*out = append(*out, "H")
		for _, n := range []stanza.NullableInt{h.MaxChars, h.MaxStanzas, h.Seconds} {
			if x, ok := n.Get(); ok {
				*out = append(*out, strconv.Itoa(x))
			} else {
				*out = append(*out, "nil")
			}
		}
		if !h.Since.IsZero() {
			*out = append(*out, "?since")
		}
		return
	}
	switch t.Kind() {
	case reflect.String:
		*out = append(*out, "s:"+hx(v.String()))
	case reflect.Bool:
		*out = append(*out, "b:"+strconv.FormatBool(v.Bool()))
	case reflect.Int, reflect.Int8, reflect.Int16, reflect.Int32, reflect.Int64:
		*out = append(*out, "i:"+strconv.FormatInt(v.Int(), 10))
	case reflect.Uint, reflect.Uint64:
		*out = append(*out, "u:"+strconv.FormatUint(v.Uint(), 10))
	case reflect.Interface:
		if v.IsNil() {
			*out = append(*out, "nil")
		} else {
			*out = append(*out, "?iface")
		}
	case reflect.Ptr:
		if v.IsNil() {
			*out = append(*out, "nil")
			return
		}
		*out = append(*out, "&")
		c01sDump(v.Elem(), out)
	case reflect.Slice:
		*out = append(*out, "[")
		for i := 0; i < v.Len(); i++ {
			c01sDump(v.Index(i), out)
		}
		*out = append(*out, "]")
	case reflect.Struct:
		ti := c01sTypeInfo(t)
		dn := xml.Name{}
		if ti.dyn != nil {
			dn = v.FieldByIndex(ti.dyn).Interface().(xml.Name)
		}
		*out = append(*out, "{", hx(dn.Space), hx(dn.Local))
		for _, f := range ti.fields {
			c01sDump(v.FieldByIndex(f.idx), out)
		}
		*out = append(*out, "}")
	default:
		*out = append(*out, "?"+t.Kind().String())
	}
}

func c01sShow(v reflect.Value) string {
	var out []string
	c01sDump(v, &out)
	return strings.Join(out, " ")
}

// ---- the op -------------------------------------------------------------------------------------------------------------

func c01schemaOp(kind, ty, ctx string, fs []string) string {
	t, ok := c01sTypes[ty]
	if !ok {
		return "bad-op"
	}
	pv := reflect.New(t)
	rest, err := c01sBuild(t, pv.Elem(), fs)
	if err != nil || len(rest) != 0 {
		return "bad-op"
	}
	b, err := xml.Marshal(pv.Interface())
	if err != nil {
		return "err:marshal"
	}
	if len(b) == 0 {
		return "-;err;err;err;err;-"
	}
	toks, shape := c01tokens(ctx, b)
	back, xml2 := "err", "err"
	p2 := reflect.New(t)
	if err := c01decode(ctx, b, p2.Interface()); err == nil {
		back = c01sShow(p2.Elem())
		if b2, err := xml.Marshal(p2.Interface()); err == nil {
			xml2 = hx(string(b2))
		}
	}
	return strings.Join([]string{hx(string(b)), toks, back, xml2, shape, c01sNextPacket(kind, t, pv, back)}, ";")
}

// c01sNextPacket: the value as an extension / payload of a stanza, through a stream and stanza.NextPacket.
func c01sNextPacket(kind string, t reflect.Type, pv reflect.Value, back string) string {
	return c01sNextPacketWith(kind, t, pv, back, c01sShow)
}

func c01sNextPacketWith(kind string, t reflect.Type, pv reflect.Value, back string, show func(reflect.Value) string) string {
	var pkt interface{}
	attrs := stanza.Attrs{Id: "np1", From: "a@b/c"}
	switch kind {
	case "plain":
		return "-"
	case "msgext":
		pkt = stanza.Message{Attrs: attrs, Extensions: []stanza.MsgExtension{pv.Interface()}}
	case "presext":
		pkt = stanza.Presence{Attrs: attrs, Extensions: []stanza.PresExtension{pv.Interface()}}
	case "iqpayload":
		pl, ok := pv.Interface().(stanza.IQPayload)
		if !ok {
			return "err"
		}
		attrs.Type = stanza.IQTypeSet
		pkt = &stanza.IQ{Attrs: attrs, Payload: pl}
	default:
		return "err"
	}
	b, err := xml.Marshal(pkt)
	if err != nil {
		return "err"
	}
	var w bytes.Buffer
	w.WriteString(`<stream:stream xmlns="jabber:client" xmlns:stream="http://etherx.jabber.org/streams" version="1.0" id="s1">`)
	w.Write(b)
	d := xml.NewDecoder(&w)
	if _, err := stanza.InitStream(d); err != nil {
		return "err"
	}
	p, err := stanza.NextPacket(d)
	if err != nil {
		return "err"
	}
	var got interface{}
	switch q := p.(type) {
	case stanza.Message:
		if kind != "msgext" || len(q.Extensions) != 1 {
			return "diff"
		}
		got = q.Extensions[0]
	case stanza.Presence:
		if kind != "presext" || len(q.Extensions) != 1 {
			return "diff"
		}
		got = q.Extensions[0]
	case *stanza.IQ:
		if kind != "iqpayload" || q.Payload == nil {
			return "diff"
		}
		got = q.Payload
	default:
		return "diff"
	}
	gv := reflect.ValueOf(got)
	for gv.Kind() == reflect.Ptr && !gv.IsNil() {
		gv = gv.Elem()
	}
	if gv.Type() != t {
		return "type:" + gv.Type().Name()
	}
	if show(gv) != back {
		return "diff"
	}
	b2, err := xml.Marshal(p)
	if err != nil || !bytes.Equal(b, b2) {
		return "diff"
	}
	return "same"
}

// ---- type-directed generator -------------------------------------------------------------------------------------------

type c01sGenT struct {
	rng  *rand.Rand
	st   *Stats
	size int  // value tokens produced
	adv  bool // leave the proved class on purpose (the model must still agree): nil slice elements, free dynamic names, Node payloads with inherited namespaces
}

func (g *c01sGenT) str() string {
	if g.rng.Intn(3) == 0 {
		return "s:-"
	}
	return "s:" + hx(c01randText(g.rng, 5))
}

// gen appends the tokens of a random value of type t. small=true: the smallest interesting values only.
// fname = the name of the field holding the value ("" at top level): what the decoder stores in a dynamic XMLName.
func (g *c01sGenT) gen(t reflect.Type, depth int, out *[]string, fname string) {
	g.size++
	if t == c01typeNode {
		// the exact class of the Node theorems: every element with a namespace of its own; a root no field takes by name
		budget := 0
		mode := 0
		if g.adv && g.rng.Intn(2) == 0 {
			mode = 1
		}
		n := c01randNode(g.rng, g.rng.Intn(3), "x", mode, &budget)
		if n.XMLName.Local == "item" || n.XMLName.Local == "x" {
			n.XMLName.Local = "payload"
		}
		g.st.Inc("schema_kind_node")
		*out = append(*out, "N")
		*out = append(*out, c01nodeFields(n)...)
		return
	}
	if t == c01sTypeHistory {
		g.st.Inc("schema_kind_history")
		*out = append(*out, "H")
		for i := 0; i < 3; i++ {
			*out = append(*out, []string{"nil", "nil", "0", "1", "-1", "250", "9223372036854775807", "-9223372036854775808"}[g.rng.Intn(8)])
		}
		return
	}
	switch t.Kind() {
	case reflect.String:
		g.st.Inc("schema_kind_string")
		*out = append(*out, g.str())
	case reflect.Bool:
		g.st.Inc("schema_kind_bool")
		*out = append(*out, "b:"+strconv.FormatBool(g.rng.Intn(2) == 0))
	case reflect.Int, reflect.Int8, reflect.Int16, reflect.Int32, reflect.Int64:
		g.st.Inc("schema_kind_int")
		vals := []int64{0, 0, 1, -1, 7, 100, -100, 9223372036854775807, -9223372036854775808}
		n := vals[g.rng.Intn(len(vals))]
		if t.Bits() < 64 {
			n = vals[g.rng.Intn(7)]
		}
		*out = append(*out, "i:"+strconv.FormatInt(n, 10))
	case reflect.Uint, reflect.Uint64:
		g.st.Inc("schema_kind_uint")
		*out = append(*out, "u:"+[]string{"0", "1", "7", "18446744073709551615"}[g.rng.Intn(4)])
	case reflect.Interface:
		g.st.Inc("schema_kind_iface_nil")
		*out = append(*out, "nil")
	case reflect.Ptr:
		// pointers to types with a hand-written codec stay nil (outside the model)
		et := t.Elem()
		_, custom := reflect.New(et).Interface().(xml.Unmarshaler)
		if custom && et != c01typeNode || depth <= 0 || g.rng.Intn(3) == 0 {
			g.st.Inc("schema_kind_ptr_nil")
			*out = append(*out, "nil")
			return
		}
		g.st.Inc("schema_kind_ptr_set")
		*out = append(*out, "&")
		g.gen(et, depth-1, out, fname)
	case reflect.Slice:
		*out = append(*out, "[")
		n := 0
		if depth > 0 {
			n = g.rng.Intn(4)
		}
		g.st.Inc("schema_kind_slice_len" + strconv.Itoa(n))
		for i := 0; i < n; i++ {
			if t.Elem().Kind() == reflect.Ptr {
				// a nil element is dropped by the encoder: outside the class
				if g.adv && g.rng.Intn(3) == 0 {
					*out = append(*out, "nil")
					continue
				}
				*out = append(*out, "&")
				g.gen(t.Elem().Elem(), depth-1, out, fname)
			} else {
				g.gen(t.Elem(), depth-1, out, fname)
			}
		}
		*out = append(*out, "]")
	case reflect.Struct:
		g.st.Inc("schema_kind_struct")
		ti := c01sTypeInfo(t)
		if ti.dyn != nil && g.adv {
			g.st.Inc("schema_kind_struct_dynamic_name_free")
			*out = append(*out, "{", []string{"-", "-", hx("ns:a")}[g.rng.Intn(3)], []string{"-", hx(fname), hx("zzz"), hx("field")}[g.rng.Intn(4)])
		} else if ti.dyn != nil {
			g.st.Inc("schema_kind_struct_dynamic_name")
			*out = append(*out, "{", "-", hx(fname))
		} else {
			*out = append(*out, "{", "-", "-")
		}
		for _, f := range ti.fields {
			g.st.Inc("schema_field_" + f.mode)
			g.gen(f.typ, depth-1, out, f.name)
		}
		*out = append(*out, "}")
	default:
		*out = append(*out, "?")
	}
}

// registered kind of a type (plain when it is not registered on its own)
func c01sKinds() map[string][]string {
	out := map[string][]string{}
	for _, r := range c01registry() {
		out[r.typ.Name()] = append(out[r.typ.Name()], r.kind)
	}
	// Roster is registered too, but under the same key as RosterItems, which replaces it (F-01n)
	if len(out["Roster"]) == 0 {
		out["Roster"] = []string{"iqpayload"}
	}
	return out
}

func c01genSchema(rng *rand.Rand, tier string, st *Stats, add func(op ...string)) {
	per := 25
	if tier == "thorough" {
		per = 400
	}
	kinds := c01sKinds()
	names := append([]string{}, c01sModelled...)
	sort.Strings(names)
	total, maxSize := 0, 0
	for _, name := range names {
		t := c01sTypes[name]
		ks := append([]string{"plain"}, kinds[name]...)
		g := &c01sGenT{rng: rng, st: st}
		// the zero value first, then random values of growing depth
		n := per
		if name == "Roster" {
			n = 6 // every iqpayload case of Roster is inside the region of F-01n
		}
		for i := 0; i < n; i++ {
			var toks []string
			g.size = 0
			depth := 0
			if i > 0 {
				depth = 1 + rng.Intn(5)
			}
			g.adv = i > 0 && i%8 == 7
			if g.adv {
				st.Inc("schema_outside_class_on_purpose")
			}
			g.gen(t, depth, &toks, "")
			g.adv = false
			if g.size > maxSize {
				maxSize = g.size
			}
			st.Inc("schema_size_" + c01sBucket(g.size))
			kind := ks[i%len(ks)]
			if name == "Roster" && i >= 2 {
				kind = "plain"
			}
			ctx := c01ctxs[rng.Intn(len(c01ctxs))]
			add(append([]string{"schema", kind, name, hx(ctx)}, toks...)...)
			st.Inc("schema_type_" + name)
			st.Inc("schema_kind_" + kind)
			total++
		}
	}
	st.Extra["schema modelled types"] = strings.Join(names, ", ")
	st.Note(fmt.Sprintf("schema codec: %d type-directed random values (zero value first, depth 1-5) for each of %d struct types whose schema is well-formed, as plain elements and - for registered types - through stream + NextPacket; %d cases, largest value %d nodes", per, len(names), total, maxSize))
}

func c01sBucket(n int) string {
	switch {
	case n <= 4:
		return "01-04"
	case n <= 10:
		return "05-10"
	case n <= 30:
		return "11-30"
	case n <= 100:
		return "31-100"
	}
	return "101+"
}

// ---- a stanza TOGETHER with its extensions / payload (Model/C01Compose.lean) ------------------------------------------------
//
// ops:  msgx  <ctx> <type id from to lang> <subject body thread> <code type reason text> { <Type> <value…> }*
//       presx <ctx> <type id from to lang> <show status priority> <code type reason text> { <Type> <value…> }*
//       iqx   <ctx> <type id from to lang> <E|N> <code type reason text> <tree…|-> [ <Type> <value…> | - ]
// obs:  xml;decoder tokens;value parsed back|err;second xml|err;skeleton|err      (value: same field syntax as the op)

// c01sParseExts reads a sequence of (Go type name, value) pairs; each value becomes a pointer to a fresh struct.
func c01sParseExts(fs []string) ([]reflect.Value, error) {
	var out []reflect.Value
	for len(fs) > 0 {
		t, ok := c01sTypes[fs[0]]
		if !ok {
			return nil, c01sErrType
		}
		pv := reflect.New(t)
		rest, err := c01sBuild(t, pv.Elem(), fs[1:])
		if err != nil {
			return nil, err
		}
		out = append(out, pv)
		fs = rest
	}
	return out, nil
}

func c01sShowExt(x interface{}) string {
	v := reflect.ValueOf(x)
	for v.Kind() == reflect.Ptr && !v.IsNil() {
		v = v.Elem()
	}
	if v.Kind() != reflect.Struct {
		return "?"
	}
	return v.Type().Name() + " " + c01sShow(v)
}

func c01msgxOp(ctx string, fs []string) string {
	if len(fs) < 12 {
		return "bad-op"
	}
	exts, err := c01sParseExts(fs[12:])
	if err != nil {
		return "bad-op"
	}
	m := stanza.Message{Attrs: c01parseAttrs(fs), Subject: unhx(fs[5]), Body: unhx(fs[6]), Thread: unhx(fs[7]), Error: c01parseErr(fs[8:12])}
	for _, e := range exts {
		m.Extensions = append(m.Extensions, e.Interface())
	}
	return c01rt(ctx, m, func() interface{} { return &stanza.Message{} }, func(x interface{}) string {
		v := x.(*stanza.Message)
		out := append(append(c01showAttrs(v.Attrs), hx(v.Subject), hx(v.Body), hx(v.Thread)), c01showErr(v.Error)...)
		for _, e := range v.Extensions {
			out = append(out, c01sShowExt(e))
		}
		return strings.Join(out, " ")
	})
}

func c01presxOp(ctx string, fs []string) string {
	if len(fs) < 12 {
		return "bad-op"
	}
	pr, err := strconv.ParseInt(fs[7], 10, 8)
	if err != nil {
		return "bad-op"
	}
	exts, err := c01sParseExts(fs[12:])
	if err != nil {
		return "bad-op"
	}
	p := stanza.Presence{Attrs: c01parseAttrs(fs), Show: stanza.PresenceShow(unhx(fs[5])), Status: unhx(fs[6]), Priority: int8(pr), Error: c01parseErr(fs[8:12])}
	for _, e := range exts {
		p.Extensions = append(p.Extensions, e.Interface())
	}
	return c01rt(ctx, p, func() interface{} { return &stanza.Presence{} }, func(x interface{}) string {
		v := x.(*stanza.Presence)
		out := append(append(c01showAttrs(v.Attrs), hx(string(v.Show)), hx(v.Status), strconv.Itoa(int(v.Priority))), c01showErr(v.Error)...)
		for _, e := range v.Extensions {
			out = append(out, c01sShowExt(e))
		}
		return strings.Join(out, " ")
	})
}

func c01iqxOp(ctx string, fs []string) string {
	if len(fs) < 12 {
		return "bad-op"
	}
	q := stanza.IQ{Attrs: c01parseAttrs(fs)}
	if fs[5] == "E" {
		e := c01parseErr(fs[6:10])
		q.Error = &e
	}
	rest := fs[10:]
	if rest[0] == "-" {
		rest = rest[1:]
	} else {
		n, r, err := c01parseNode(rest)
		if err != nil {
			return "bad-op"
		}
		q.Any, rest = &n, r
	}
	if len(rest) == 0 {
		return "bad-op"
	}
	if !(len(rest) == 1 && rest[0] == "-") {
		exts, err := c01sParseExts(rest)
		if err != nil || len(exts) != 1 {
			return "bad-op"
		}
		pl, ok := exts[0].Interface().(stanza.IQPayload)
		if !ok {
			return "bad-op"
		}
		q.Payload = pl
	}
	return c01rt(ctx, q, func() interface{} { return &stanza.IQ{} }, func(x interface{}) string {
		v := x.(*stanza.IQ)
		out := c01showAttrs(v.Attrs)
		if v.Error != nil {
			out = append(append(out, "E"), c01showErr(*v.Error)...)
		} else {
			out = append(out, "N", "0", "-", "-", "-")
		}
		if v.Any != nil {
			out = append(out, c01nodeFields(*v.Any)...)
		} else {
			out = append(out, "-")
		}
		if v.Payload != nil {
			out = append(out, c01sShowExt(v.Payload))
		} else {
			out = append(out, "-")
		}
		return strings.Join(out, " ")
	})
}

// c01genCompose: stanzas with random lists of modelled registered extensions / one modelled payload.
func c01genCompose(rng *rand.Rand, tier string, st *Stats, add func(op ...string)) {
	R := 250
	if tier == "thorough" {
		R = 6000
	}
	byKind := map[string][]string{}
	kinds := c01sKinds()
	for _, name := range c01sModelled {
		for _, k := range kinds[name] {
			byKind[k] = append(byKind[k], name)
		}
	}
	for _, k := range []string{"msgext", "presext", "iqpayload"} {
		sort.Strings(byKind[k])
	}
	g := &c01sGenT{rng: rng, st: st}
	ext := func(kind string) []string {
		names := byKind[kind]
		name := names[rng.Intn(len(names))]
		var toks []string
		g.gen(c01sTypes[name], 1+rng.Intn(4), &toks, "")
		st.Inc("compose_ext_" + name)
		return append([]string{name}, toks...)
	}
	txt := func() string {
		if rng.Intn(3) == 0 {
			return "-"
		}
		return hx(c01randText(rng, 6))
	}
	cat := func(parts ...[]string) []string {
		var out []string
		for _, p := range parts {
			out = append(out, p...)
		}
		return out
	}
	for i := 0; i < R; i++ {
		ctx := hx(c01ctxs[rng.Intn(len(c01ctxs))])
		ef := c01randErrFields(rng, []int{0, 0, 1}[rng.Intn(3)])
		switch rng.Intn(4) {
		case 0, 1:
			op := cat([]string{"msgx", ctx}, c01randAttrFields(rng), []string{txt(), txt(), txt()}, ef)
			n := rng.Intn(5)
			for j := 0; j < n; j++ {
				op = append(op, ext("msgext")...)
			}
			st.Inc("compose_msg_exts_" + strconv.Itoa(n))
			add(op...)
		case 2:
			pr := []int{0, 0, 1, -1, 127, -128, 5}[rng.Intn(7)]
			op := cat([]string{"presx", ctx}, c01randAttrFields(rng), []string{hx(c01pick(rng, "", "away", "dnd", "x y")), txt(), strconv.Itoa(pr)}, ef)
			n := rng.Intn(3)
			for j := 0; j < n; j++ {
				op = append(op, ext("presext")...)
			}
			st.Inc("compose_pres_exts_" + strconv.Itoa(n))
			add(op...)
		default:
			e := []string{"N", "0", "-", "-", "-"}
			if rng.Intn(3) == 0 {
				e = append([]string{"E"}, c01randErrFields(rng, 1)...)
			}
			any := []string{"-"}
			if rng.Intn(4) == 0 {
				budget := 0
				n := c01randNode(rng, rng.Intn(3), unhx(ctx), 0, &budget)
				if n.XMLName.Local == "error" {
					n.XMLName.Local = "q"
				}
				any = c01nodeFields(n)
				st.Inc("compose_iq_any")
			}
			pl := []string{"-"}
			if rng.Intn(5) != 0 {
				pl = ext("iqpayload")
				st.Inc("compose_iq_payload")
			}
			add(cat([]string{"iqx", ctx}, c01randAttrFields(rng), e, any, pl)...)
		}
	}
	st.Note(fmt.Sprintf("composition: %d stanzas: messages with 0-4 extensions drawn (with repetition, any order) from the %d modelled registered message extension types, presences, IQs with a payload drawn from the %d modelled registered payload types (Roster included: outside the class, F-01n), an error and / or a generic payload", R, len(byKind["msgext"]), len(byKind["iqpayload"])))
}


// ---- the name-dispatching hand-written decoders (Model/C01Dispatch.lean) ---------------------------------------------------
//
// op:  dispatch <kind> <Wrapper> <ctx> <set: nil | & value…> <- | Type value…>
// obs: xml;decoder tokens;<set> <-|Type value…> | err;second xml|err;skeleton|err;np

type c01sDisp struct {
	typ    reflect.Type
	field  string
	hasSet bool
	kind   string
	cases  []string // Go types of the arms
}

var c01sDispatch = map[string]c01sDisp{
	"PubSubOwner": {reflect.TypeOf(stanza.PubSubOwner{}), "OwnerUseCase", true, "iqpayload",
		[]string{"AffiliationsOwner", "ConfigureOwner", "DefaultOwner", "DeleteOwner", "PurgeOwner", "SubscriptionsOwner"}},
	"PubSubEvent": {reflect.TypeOf(stanza.PubSubEvent{}), "EventElement", false, "msgext",
		[]string{"CollectionEvent", "ConfigurationEvent", "DeleteEvent", "ItemsEvent", "PurgeEvent", "SubscriptionEvent"}},
}

func c01sDispShow(d c01sDisp, v reflect.Value) string {
	var out []string
	if d.hasSet {
		c01sDump(v.FieldByName("ResultSet"), &out)
	} else {
		out = append(out, "nil")
	}
	f := v.FieldByName(d.field)
	if f.IsNil() {
		out = append(out, "-")
	} else {
		out = append(out, c01sShowExt(f.Interface()))
	}
	return strings.Join(out, " ")
}

func c01dispatchOp(kind, name, ctx string, fs []string) string {
	d, ok := c01sDispatch[name]
	if !ok {
		return "bad-op"
	}
	pv := reflect.New(d.typ)
	rest := fs
	if d.hasSet {
		r, err := c01sBuild(reflect.TypeOf((*stanza.ResultSet)(nil)), pv.Elem().FieldByName("ResultSet"), fs)
		if err != nil {
			return "bad-op"
		}
		rest = r
	} else {
		if len(fs) == 0 || fs[0] != "nil" {
			return "bad-op"
		}
		rest = fs[1:]
	}
	if !(len(rest) == 1 && rest[0] == "-") {
		exts, err := c01sParseExts(rest)
		if err != nil || len(exts) != 1 {
			return "bad-op"
		}
		f := pv.Elem().FieldByName(d.field)
		if !exts[0].Type().Implements(f.Type()) {
			return "bad-op"
		}
		f.Set(exts[0])
	}
	b, err := xml.Marshal(pv.Interface())
	if err != nil {
		return "err:marshal"
	}
	toks, shape := c01tokens(ctx, b)
	back, xml2 := "err", "err"
	p2 := reflect.New(d.typ)
	if err := c01decode(ctx, b, p2.Interface()); err == nil {
		back = c01sDispShow(d, p2.Elem())
		if b2, err := xml.Marshal(p2.Interface()); err == nil {
			xml2 = hx(string(b2))
		}
	}
	np := "-"
	if kind != "plain" {
		np = c01sNextPacketWith(kind, d.typ, pv, back, func(v reflect.Value) string { return c01sDispShow(d, v) })
	}
	return strings.Join([]string{hx(string(b)), toks, back, xml2, shape, np}, ";")
}

func c01genDispatch(rng *rand.Rand, tier string, st *Stats, add func(op ...string)) {
	per := 40
	if tier == "thorough" {
		per = 800
	}
	names := []string{"PubSubEvent", "PubSubOwner"}
	g := &c01sGenT{rng: rng, st: st}
	for _, name := range names {
		d := c01sDispatch[name]
		for i := 0; i < per; i++ {
			set := []string{"nil"}
			// a ResultSet is never read back (F-01l): a fixed small number of cases
			if d.hasSet && i%20 == 19 {
				set = []string{"&"}
				g.gen(reflect.TypeOf(stanza.ResultSet{}), 2, &set, "set")
				st.Inc("dispatch_with_resultset")
			}
			sel := []string{"-"}
			if i > 0 {
				// the arms whose type has no XMLName (F-01k) get a fixed small share
				c := d.cases[rng.Intn(len(d.cases))]
				if name == "PubSubEvent" && i%10 != 9 {
					c = []string{"ItemsEvent", "PurgeEvent"}[rng.Intn(2)]
				}
				sel = []string{c}
				g.gen(c01sTypes[c], 1+rng.Intn(4), &sel, "")
				st.Inc("dispatch_arm_" + c)
			}
			kind := []string{"plain", d.kind}[i%2]
			ctx := c01ctxs[rng.Intn(len(c01ctxs))]
			add(append(append([]string{"dispatch", kind, name, hx(ctx)}, set...), sel...)...)
			st.Inc("dispatch_" + name)
		}
	}
	st.Note(fmt.Sprintf("dispatch decoders: %d values each of PubSubOwner and PubSubEvent (every arm; a fixed share with a ResultSet / with an event type that has no XMLName: outside the class, recorded findings F-01l / F-01k), as plain elements and through stream + NextPacket", per))
}


// ---- stanza.Command (Model/C01Command.lean) ---------------------------------------------------------------------------------
//
// op:  command <kind> <ctx> <action node sessionid status lang> <6 flags: 0|1> <set: nil | & value…> <k> k x ( E <Type> <value…> | N <tree…> )
// obs: xml;decoder tokens;<5 attrs> <6 flags> <set> <k> k x (…) | err;second xml|err;skeleton|err;np

var c01sCmdFlags = []string{"BadAction", "BadLocale", "BadPayload", "BadSessionId", "MalformedAction", "SessionExpired"}

func c01sCmdShow(c *stanza.Command) string {
	out := []string{hx(c.Action), hx(c.Node), hx(c.SessionId), hx(c.Status), hx(c.Lang)}
	rv := reflect.ValueOf(c).Elem()
	for _, f := range c01sCmdFlags {
		if rv.FieldByName(f).IsNil() {
			out = append(out, "0")
		} else {
			out = append(out, "1")
		}
	}
	c01sDump(rv.FieldByName("ResultSet"), &out)
	out = append(out, strconv.Itoa(len(c.CommandElements)))
	for _, e := range c.CommandElements {
		if n, ok := e.(*stanza.Node); ok {
			out = append(out, "N")
			out = append(out, c01nodeFields(*n)...)
		} else {
			out = append(out, "E", c01sShowExt(e))
		}
	}
	return strings.Join(out, " ")
}

func c01commandOp(kind, ctx string, fs []string) string {
	if len(fs) < 13 {
		return "bad-op"
	}
	c := &stanza.Command{Action: unhx(fs[0]), Node: unhx(fs[1]), SessionId: unhx(fs[2]), Status: unhx(fs[3]), Lang: unhx(fs[4])}
	rv := reflect.ValueOf(c).Elem()
	for i, f := range c01sCmdFlags {
		if fs[5+i] == "1" {
			rv.FieldByName(f).Set(reflect.ValueOf(&struct{}{}))
		}
	}
	rest, err := c01sBuild(reflect.TypeOf((*stanza.ResultSet)(nil)), rv.FieldByName("ResultSet"), fs[11:])
	if err != nil || len(rest) == 0 {
		return "bad-op"
	}
	k, err := strconv.Atoi(rest[0])
	if err != nil {
		return "bad-op"
	}
	rest = rest[1:]
	for i := 0; i < k; i++ {
		if len(rest) < 2 {
			return "bad-op"
		}
		switch rest[0] {
		case "N":
			n, r, err := c01parseNode(rest[1:])
			if err != nil {
				return "bad-op"
			}
			c.CommandElements = append(c.CommandElements, &n)
			rest = r
		case "E":
			t, ok := c01sTypes[rest[1]]
			if !ok {
				return "bad-op"
			}
			pv := reflect.New(t)
			r, err := c01sBuild(t, pv.Elem(), rest[2:])
			if err != nil {
				return "bad-op"
			}
			ce, ok := pv.Interface().(stanza.CommandElement)
			if !ok {
				return "bad-op"
			}
			c.CommandElements = append(c.CommandElements, ce)
			rest = r
		default:
			return "bad-op"
		}
	}
	if len(rest) != 0 {
		return "bad-op"
	}
	b, err := xml.Marshal(c)
	if err != nil {
		return "err:marshal"
	}
	toks, shape := c01tokens(ctx, b)
	back, xml2 := "err", "err"
	c2 := &stanza.Command{}
	if err := c01decode(ctx, b, c2); err == nil {
		back = c01sCmdShow(c2)
		if b2, err := xml.Marshal(c2); err == nil {
			xml2 = hx(string(b2))
		}
	}
	np := "-"
	if kind != "plain" {
		np = c01sNextPacketWith(kind, reflect.TypeOf(stanza.Command{}), reflect.ValueOf(c), back, func(v reflect.Value) string {
			return c01sCmdShow(v.Addr().Interface().(*stanza.Command))
		})
	}
	return strings.Join([]string{hx(string(b)), toks, back, xml2, shape, np}, ";")
}

func c01genCommand(rng *rand.Rand, tier string, st *Stats, add func(op ...string)) {
	R := 80
	if tier == "thorough" {
		R = 2000
	}
	g := &c01sGenT{rng: rng, st: st}
	txt := func() string {
		if rng.Intn(3) == 0 {
			return "-"
		}
		return hx(c01randText(rng, 5))
	}
	for i := 0; i < R; i++ {
		op := []string{"command", []string{"plain", "iqpayload"}[i%2], hx(c01ctxs[rng.Intn(len(c01ctxs))]),
			hx(c01pick(rng, "", "execute", "next", "a\"b")), txt(), txt(), hx(c01pick(rng, "", "executing", "completed")), hx(c01pick(rng, "", "en", "x<y"))}
		// an error flag or a ResultSet comes back as a Node (F-01m): a fixed small share
		flagged := i%16 == 15
		for f := 0; f < 6; f++ {
			if flagged && rng.Intn(3) == 0 {
				op = append(op, "1")
			} else {
				op = append(op, "0")
			}
		}
		if flagged && rng.Intn(2) == 0 {
			set := []string{"&"}
			g.gen(reflect.TypeOf(stanza.ResultSet{}), 2, &set, "set")
			op = append(op, set...)
			st.Inc("command_with_resultset")
		} else {
			op = append(op, "nil")
		}
		if flagged {
			st.Inc("command_in_F01m_region")
		}
		k := rng.Intn(4)
		if i == 0 {
			k = 0
		}
		op = append(op, strconv.Itoa(k))
		for j := 0; j < k; j++ {
			switch rng.Intn(3) {
			case 0:
				op = append(op, "E", "Actions")
				g.gen(c01sTypes["Actions"], 2, &op, "")
				st.Inc("command_el_actions")
			case 1:
				op = append(op, "E", "Form")
				g.gen(c01sTypes["Form"], 1+rng.Intn(3), &op, "")
				st.Inc("command_el_form")
			default:
				budget := 0
				n := c01randNode(rng, rng.Intn(3), "http://jabber.org/protocol/commands", 0, &budget)
				if n.XMLName.Local == "x" {
					n.XMLName.Local = "payload"
				}
				op = append(op, "N")
				op = append(op, c01nodeFields(n)...)
				st.Inc("command_el_node")
			}
		}
		add(op...)
		st.Inc("command_cases")
	}
	st.Note(fmt.Sprintf("Command: %d values with 0-3 elements drawn from Actions / Form / Node (Note is `,cdata`: sample op only), one in 16 with error flags or a ResultSet (F-01m region), as plain elements and through stream + NextPacket", R))
}
