package main

import (
	"crypto/sha1"
	"encoding/xml"
	"fmt"
	"io"
	"math/rand"
	"net"
	"strconv"
	"strings"
	"sync"
	"time"
	"unicode/utf8"

	xmpp "gosrc.io/xmpp"
	"gosrc.io/xmpp/stanza"
)

// C16: component handshake.
//
//	sha1 <bytes-hex>                       => hex(crypto/sha1 sum)                (ties the Lean sha1 to the stdlib)
//	digest <id-hex> <secret-hex>           => hex(Component.handshake(id))        (the library function, any bytes)
//	connect <attrs> <esc> <secret-hex> <reply-class> <reply-hex> <posts>
//	    attrs: ~ | !refused | !nostream | prefix|local|value-hex,…   (extra attributes of the server's stream header)
//	    esc:   named | numeric   (how attribute values are escaped on the wire)
//	    => <class NextPacket gives the reply> <text received in <handshake>, hex | ~> <nil|perm|err> <states 2,4 | ~> <routed>
//	  end to end: a real Component against a TCP listener on 127.0.0.1 playing the server.
type c16 struct{}

func init() { register("C16", c16{}) }

const c16nsComp = "jabber:component:accept"
const c16nsStream = "http://etherx.jabber.org/streams"

func c16escape(v, mode string) string {
	var sb strings.Builder
	for _, r := range v {
		switch {
		case mode == "numeric":
			fmt.Fprintf(&sb, "&#x%X;", r)
		case r == '&':
			sb.WriteString("&amp;")
		case r == '<':
			sb.WriteString("&lt;")
		case r == '>':
			sb.WriteString("&gt;")
		case r == '\'':
			sb.WriteString("&#39;")
		case r == '"':
			sb.WriteString("&quot;")
		case r == '\t' || r == '\n' || r == '\r':
			fmt.Fprintf(&sb, "&#%d;", r)
		default:
			sb.WriteRune(r)
		}
	}
	return sb.String()
}

type c16attr struct{ prefix, local, value string }

func c16parseAttrs(s string) []c16attr {
	if s == "~" {
		return nil
	}
	var out []c16attr
	for _, f := range strings.Split(s, ",") {
		p := strings.Split(f, "|")
		out = append(out, c16attr{p[0], p[1], unhx(p[2])})
	}
	return out
}

func c16encAttrs(as []c16attr) string {
	if len(as) == 0 {
		return "~"
	}
	var fs []string
	for _, a := range as {
		fs = append(fs, a.prefix+"|"+a.local+"|"+hx(a.value))
	}
	return strings.Join(fs, ",")
}

func c16header(as []c16attr, esc string) string {
	var sb strings.Builder
	sb.WriteString("<?xml version='1.0'?><stream:stream xmlns='" + c16nsComp + "' xmlns:stream='" + c16nsStream + "' xmlns:x='urn:x' from='comp.localhost'")
	for _, a := range as {
		name := a.local
		if a.prefix != "" {
			name = a.prefix + ":" + a.local
		}
		sb.WriteString(" " + name + "='" + c16escape(a.value, esc) + "'")
	}
	sb.WriteString(">")
	return sb.String()
}

func c16class(reply string) string {
	d := xml.NewDecoder(strings.NewReader(c16header(nil, "named") + reply))
	if _, err := stanza.InitStream(d); err != nil {
		return "nostream"
	}
	p, err := stanza.NextPacket(d)
	if err != nil {
		return "decodeError"
	}
	switch p.(type) {
	case stanza.Handshake:
		return "handshake"
	case stanza.StreamError:
		return "streamError"
	}
	return "other"
}

// c16serve plays the server on one accepted connection.
func c16serve(conn net.Conn, header, reply string, posts int, nostream, accept bool, got *string, sent chan<- struct{}, finish <-chan struct{}) {
	defer conn.Close()
	conn.SetDeadline(time.Now().Add(8 * time.Second))
	dec := xml.NewDecoder(conn)
	signalled := false
	sig := func() {
		if !signalled {
			signalled = true
			close(sent)
		}
	}
	defer sig()
	// the component's stream header
	for {
		t, err := dec.Token()
		if err != nil {
			return
		}
		if _, ok := t.(xml.StartElement); ok {
			break
		}
	}
	if nostream {
		io.WriteString(conn, "<notastream xmlns='urn:x'/>")
		return
	}
	io.WriteString(conn, header)
	// the handshake element
	for {
		t, err := dec.Token()
		if err != nil {
			return
		}
		se, ok := t.(xml.StartElement)
		if !ok {
			continue
		}
		if se.Name.Local != "handshake" || se.Name.Space != c16nsComp || len(se.Attr) != 0 {
			*got = "!"
			return
		}
		break
	}
	var sb strings.Builder
	for {
		t, err := dec.Token()
		if err != nil {
			*got = "!"
			return
		}
		if cd, ok := t.(xml.CharData); ok {
			sb.Write(cd)
			continue
		}
		if _, ok := t.(xml.EndElement); ok {
			break
		}
		*got = "!" // markup inside the handshake text
		return
	}
	*got = hx(sb.String())
	io.WriteString(conn, reply)
	for i := 0; i < posts; i++ {
		fmt.Fprintf(conn, "<message from='a@b/c' to='comp.localhost' id='p%d'><body>hi</body></message>", i)
	}
	sig()
	if !accept {
		if strings.Contains(reply, "<!--open-->") {
			// a server that sends something else than a handshake and leaves the stream open: the component has its
			// answer all the same (an error) - it does not wait for more
			time.Sleep(1500 * time.Millisecond)
		}
		return // not a handshake: everything was sent, close the connection
	}
	select {
	case <-finish:
	case <-time.After(6 * time.Second):
	}
	io.WriteString(conn, "</stream:stream>")
	// drain until the component closes
	conn.SetReadDeadline(time.Now().Add(2 * time.Second))
	io.Copy(io.Discard, conn)
}

func c16connect(op []string) string {
	attrsField, esc, secret, reply := op[1], op[2], unhx(op[3]), unhx(op[5])
	posts, _ := strconv.Atoi(op[6])
	cls := c16class(reply)

	var mu sync.Mutex
	var states []string
	routed, errh := 0, 0
	router := xmpp.NewRouter()
	router.NewRoute().HandlerFunc(func(s xmpp.Sender, p stanza.Packet) {
		mu.Lock()
		routed++
		mu.Unlock()
	})
	snapshot := func(got string, err error) string {
		mu.Lock()
		defer mu.Unlock()
		e := "nil"
		if err != nil {
			e = "err"
			if xmpp.VerifIsPermanent(err) {
				e = "perm"
			}
		}
		st := "~"
		if len(states) > 0 {
			st = strings.Join(states, ",")
		}
		return strings.Join([]string{cls, got, e, st, strconv.Itoa(routed)}, " ")
	}

	ln, err := net.Listen("tcp", "127.0.0.1:0")
	if err != nil {
		return "listen-failed"
	}
	addr := ln.Addr().String()
	got := "~"
	sent := make(chan struct{})
	finish := make(chan struct{})
	served := make(chan struct{})
	if attrsField == "!refused" {
		ln.Close()
		addr = "127.0.0.1:1" // nobody listens there
		close(sent)
		close(served)
	} else {
		nostream := attrsField == "!nostream"
		var header string
		if !nostream {
			header = c16header(c16parseAttrs(attrsField), esc)
		}
		go func() {
			defer close(served)
			conn, err := ln.Accept()
			ln.Close()
			if err != nil {
				close(sent)
				return
			}
			c16serve(conn, header, reply, posts, nostream, cls == "handshake", &got, sent, finish)
		}()
	}

	opts := xmpp.ComponentOptions{
		TransportConfiguration: xmpp.TransportConfiguration{Address: addr, Domain: "comp.localhost", ConnectTimeout: 1},
		Domain:                 "comp.localhost",
		Secret:                 secret,
		Name:                   "verif",
		Category:               "gateway",
		Type:                   "service",
	}
	c, err := xmpp.NewComponent(opts, router, func(error) { mu.Lock(); errh++; mu.Unlock() })
	if err != nil {
		return "newcomponent-failed"
	}
	c.SetHandler(func(e xmpp.Event) error {
		mu.Lock()
		states = append(states, strconv.Itoa(int(xmpp.VerifEventState(e))))
		mu.Unlock()
		return nil
	})
	t0 := time.Now()
	cerr := c.Connect()
	late := strings.Contains(reply, "<!--open-->") && time.Since(t0) > 900*time.Millisecond
	<-sent // the server has written its reply and everything after it (or gave up)

	if cerr == nil {
		// established: wait for the stanzas the server sent to reach the route
		deadline := time.Now().Add(3 * time.Second)
		for time.Now().Before(deadline) {
			mu.Lock()
			n := routed
			mu.Unlock()
			if n >= posts {
				break
			}
			time.Sleep(2 * time.Millisecond)
		}
		obs := snapshot(got, cerr)
		close(finish)
		c.Disconnect()
		<-served
		return obs
	}
	// failed: the server sent its stanzas too and closes; give a (wrongly) running receive loop time to route them
	close(finish)
	<-served
	time.Sleep(120 * time.Millisecond)
	obs := snapshot(got, cerr)
	if late {
		// Connect returned only when the server gave up, not when its reply had arrived
		if f := strings.Split(obs, " "); len(f) == 5 {
			f[2] = "late"
			obs = strings.Join(f, " ")
		}
	}
	if t := xmpp.VerifComponentTransport(c); t != nil {
		go t.Close() // waits ConnectTimeout for a stream close that never comes; not awaited
	}
	return obs
}

// c16reconnect: a component session is established, the server closes the stream gracefully (the receive loop
// stops, the state stays "established"), then Resume() meets a server that answers the handshake with `reply`.
// Observation: the class of the reply, the error class of Resume, the component's state afterwards.
func c16reconnect(reply string, viaConnect bool) string {
	cls := c16class(reply)
	ln, err := net.Listen("tcp", "127.0.0.1:0")
	if err != nil {
		return "listen-failed"
	}
	defer ln.Close()
	header := c16header([]c16attr{{"", "id", "sid"}}, "named")
	firstClosed := make(chan struct{})
	sent2 := make(chan struct{})
	got := "~" // what the server read inside <handshake> on the connection it is serving
	go func() {
		// connection 1: a proper handshake, then </stream:stream>
		conn, err := ln.Accept()
		if err != nil {
			close(firstClosed)
			close(sent2)
			return
		}
		s1 := make(chan struct{})
		fin := make(chan struct{})
		close(fin)
		c16serve(conn, header, "<handshake/>", 0, false, true, &got, s1, fin)
		got = "~"
		close(firstClosed)
		// connection 2: the reply under test
		conn2, err := ln.Accept()
		if err != nil {
			close(sent2)
			return
		}
		fin2 := make(chan struct{})
		go func() { time.Sleep(300 * time.Millisecond); close(fin2) }()
		c16serve(conn2, header, reply, 0, false, cls == "handshake", &got, sent2, fin2)
	}()
	opts := xmpp.ComponentOptions{
		TransportConfiguration: xmpp.TransportConfiguration{Address: ln.Addr().String(), Domain: "comp.localhost", ConnectTimeout: 1},
		Domain:                 "comp.localhost", Secret: "s", Name: "verif", Category: "gateway", Type: "service",
	}
	c, err := xmpp.NewComponent(opts, xmpp.NewRouter(), func(error) {})
	if err != nil {
		return "newcomponent-failed"
	}
	c.SetHandler(func(e xmpp.Event) error { return nil })
	if err := c.Connect(); err != nil {
		return "first-connect-failed"
	}
	select {
	case <-firstClosed:
	case <-time.After(5 * time.Second):
		return "first-close-timeout"
	}
	time.Sleep(20 * time.Millisecond) // the receive loop has seen the closing tag
	before := int(xmpp.VerifComponentState(c))
	// the application calls Connect again (or Resume, which Connect forwards to)
	var rerr error
	if viaConnect {
		rerr = c.Connect()
	} else {
		rerr = c.Resume()
	}
	select {
	case <-sent2:
	case <-time.After(5 * time.Second):
	}
	e := "nil"
	if rerr != nil {
		e = "err"
		if xmpp.VerifIsPermanent(rerr) {
			e = "perm"
		}
	}
	after := int(xmpp.VerifComponentState(c))
	if t := xmpp.VerifComponentTransport(c); t != nil {
		go t.Close()
	}
	return fmt.Sprintf("%s %d %s %d %s", cls, before, e, after, got)
}

// c16lives: several lives of ONE Component value. In each life the server answers the handshake with the life's reply;
// an accepted session is closed gracefully by the server right away. Observation per life: the class of the reply, the
// error class of Connect / Resume, the component's state afterwards, and how many times the event handler was told
// "session established" during that life.
func c16lives(how string, replies []string) string {
	ln, err := net.Listen("tcp", "127.0.0.1:0")
	if err != nil {
		return "listen-failed"
	}
	defer ln.Close()
	header := c16header([]c16attr{{"", "id", "sid"}}, "named")
	type lifeSync struct{ done chan struct{} }
	syncs := make([]lifeSync, len(replies))
	for i := range syncs {
		syncs[i].done = make(chan struct{})
	}
	go func() {
		for i, reply := range replies {
			conn, err := ln.Accept()
			if err != nil {
				for j := i; j < len(syncs); j++ {
					close(syncs[j].done)
				}
				return
			}
			got := "~"
			sent := make(chan struct{})
			fin := make(chan struct{})
			close(fin)
			c16serve(conn, header, reply, 0, false, c16class(reply) == "handshake", &got, sent, fin)
			close(syncs[i].done)
		}
	}()
	opts := xmpp.ComponentOptions{
		TransportConfiguration: xmpp.TransportConfiguration{Address: ln.Addr().String(), Domain: "comp.localhost", ConnectTimeout: 1},
		Domain:                 "comp.localhost", Secret: "s", Name: "verif", Category: "gateway", Type: "service",
	}
	c, err := xmpp.NewComponent(opts, xmpp.NewRouter(), func(error) {})
	if err != nil {
		return "newcomponent-failed"
	}
	var mu sync.Mutex
	est := 0
	c.SetHandler(func(e xmpp.Event) error {
		if xmpp.VerifEventState(e) == xmpp.StateSessionEstablished {
			mu.Lock()
			est++
			mu.Unlock()
		}
		return nil
	})
	var parts []string
	for i, reply := range replies {
		mu.Lock()
		est = 0
		mu.Unlock()
		var rerr error
		if how == "connect" || (how == "mixed" && i%2 == 0) {
			rerr = c.Connect()
		} else {
			rerr = c.Resume()
		}
		select {
		case <-syncs[i].done:
		case <-time.After(5 * time.Second):
		}
		time.Sleep(20 * time.Millisecond) // the receive loop has seen the closing tag
		e := "nil"
		if rerr != nil {
			e = "err"
			if xmpp.VerifIsPermanent(rerr) {
				e = "perm"
			}
		}
		mu.Lock()
		n := est
		mu.Unlock()
		parts = append(parts, fmt.Sprintf("%s %s %d %d", c16class(reply), e, int(xmpp.VerifComponentState(c)), n))
		if t := xmpp.VerifComponentTransport(c); t != nil {
			if xt, ok := t.(*xmpp.XMPPTransport); ok {
				xt.Config.ConnectTimeout = 0
			}
			go t.Close()
		}
	}
	return strings.Join(parts, ";")
}

func (c16) Exec(c Case) []string {
	obs := make([]string, len(c.Ops))
	var wg sync.WaitGroup
	for i, op := range c.Ops {
		switch op[0] {
		case "sha1":
			s := sha1.Sum([]byte(unhx(op[1])))
			obs[i] = hx(string(s[:]))
		case "digest":
			comp, _ := xmpp.NewComponent(xmpp.ComponentOptions{Secret: unhx(op[2])}, xmpp.NewRouter(), func(error) {})
			obs[i] = hx(xmpp.VerifComponentHandshake(comp, unhx(op[1])))
		case "reconnect":
			wg.Add(1)
			go func(i int, op []string) {
				defer wg.Done()
				defer func() {
					if r := recover(); r != nil {
						obs[i] = fmt.Sprintf("panic:%v", r)
					}
				}()
				obs[i] = c16reconnect(unhx(op[2]), len(op) > 3 && op[3] == "connect")
			}(i, op)
		case "lives":
			wg.Add(1)
			go func(i int, op []string) {
				defer wg.Done()
				defer func() {
					if r := recover(); r != nil {
						obs[i] = fmt.Sprintf("panic:%v", r)
					}
				}()
				var rs []string
				for _, f := range op[2:] {
					rs = append(rs, unhx(f[strings.Index(f, "|")+1:]))
				}
				obs[i] = c16lives(op[1], rs)
			}(i, op)
		case "connect":
			wg.Add(1)
			go func(i int, op []string) {
				defer wg.Done()
				defer func() {
					if r := recover(); r != nil {
						obs[i] = fmt.Sprintf("panic:%v", r)
					}
				}()
				obs[i] = c16connect(op)
			}(i, op)
		default:
			obs[i] = "bad-op"
		}
	}
	wg.Wait()
	return obs
}

type c16reply struct{ class, bytes string }

func c16replies() []c16reply {
	se := func(c string) string {
		return "<stream:error><" + c + " xmlns='urn:ietf:params:xml:ns:xmpp-streams'/></stream:error>"
	}
	return []c16reply{
		{"handshake", "<handshake/>"},
		{"handshake", "<handshake></handshake>"},
		{"handshake", "\n<handshake xmlns='jabber:component:accept'>ignored</handshake>"},
		{"streamError", se("conflict")},
		{"streamError", se("host-unknown") + "</stream:stream>"},
		{"streamError", se("not-authorized")},
		{"streamError", "<stream:error><invalid-namespace xmlns='urn:ietf:params:xml:ns:xmpp-streams'/><text xmlns='urn:ietf:params:xml:ns:xmpp-streams'>no</text></stream:error>"},
		{"streamError", "<stream:error/>"},
		{"other", "<message from='a@b' to='comp.localhost'><body>x</body></message>"},
		{"other", "<iq type='get' id='1' from='a@b' to='comp.localhost'><ping xmlns='urn:xmpp:ping'/></iq>"},
		{"other", "<presence from='a@b'/>"},
		{"other", "<stream:features/>"},
		{"other", "</stream:stream>"},
		{"other", "<a xmlns='urn:xmpp:sm:3' h='0'/>"},
		{"other", "<success xmlns='urn:ietf:params:xml:ns:xmpp-sasl'/>"},
		{"decodeError", ""},
		{"decodeError", "<<"},
		{"decodeError", "<unknown xmlns='urn:example'/>"},
		{"decodeError", "<!--open--><notice xmlns='urn:example:maintenance'>back at three</notice>"},
		{"other", "<!--open--><message from='a@b' to='comp.localhost'><body>x</body></message>"},
		{"decodeError", "<handshake xmlns='jabber:client'/>"},
		{"decodeError", "<handshake><unclosed></handshake>"},
		{"decodeError", "<handshake"},
		{"decodeError", "<error/>"},
		{"decodeError", "<stream:unknown/>"},
	}
}

func (c16) Generate(rng *rand.Rand, tier string, st *Stats) []Case {
	var cases []Case
	n := 0
	add := func(ops ...[]string) {
		cases = append(cases, Case{ID: fmt.Sprintf("c%d", n), Ops: ops})
		n++
	}
	replies := c16replies()
	var pending [][]string
	flush := func() {
		if len(pending) > 0 {
			add(pending...)
			pending = nil
		}
	}
	connect := func(attrs []c16attr, special, esc, secret string, r c16reply, posts int) {
		af := c16encAttrs(attrs)
		if special != "" {
			af = special
		}
		pending = append(pending, []string{"connect", af, esc, hx(secret), r.class, hx(r.bytes), strconv.Itoa(posts)})
		st.Inc("connect")
		st.Inc("reply_" + r.class)
		if len(pending) == 16 {
			flush()
		}
	}
	id := func(v string) c16attr { return c16attr{"", "id", v} }
	ok, conflict := replies[0], replies[3]

	// corpus: a namespaced attribute named id after the stream id (finding F-16), XEP-0114's example, escapes
	connect([]c16attr{id("real"), {"xml", "id", "decoy"}}, "", "named", "secret", ok, 1)
	connect([]c16attr{id("3BF96D32")}, "", "named", "test", ok, 1)
	connect([]c16attr{id("a&b<c>'d\"")}, "", "named", "s&<'", ok, 1)
	connect([]c16attr{id("s1")}, "", "named", "secret", conflict, 1)
	flush()

	ids := []string{"", "s1", "91bd0bba-012f-4d92-bb17-5fc41e6fe545", "a&b", "<id>", "it's", "say \"x\"", "&amp;", "&#39;", "é",
		"日本語", "😀", "a b", "a\tb", "x\ny\r", strings.Repeat("0123456789abcdef", 20), "]]>", "0", "%s%d%!", "<handshake>", "  "}
	secrets := []string{"secret", "", "p&ss<w>rd'\"", "ключ", "\xff\x00\xfe", strings.Repeat("k", 70)}
	// every id x both escapings, handshake accepted
	for i, v := range ids {
		for _, esc := range []string{"named", "numeric"} {
			connect([]c16attr{{"", "version", "1.0"}, id(v)}, "", esc, secrets[i%len(secrets)], replies[i%3], 1+i%2)
		}
	}
	// every reply x three ids
	for i, r := range replies {
		for j := 0; j < 3; j++ {
			connect([]c16attr{id(ids[(i+7*j)%len(ids)])}, "", "named", secrets[(i+j)%len(secrets)], r, j)
		}
	}
	// attribute sets: no id, decoys before / after the id
	sets := [][]c16attr{
		nil,
		{{"", "version", "1.0"}},
		{{"xml", "id", "decoy"}, id("real")},
		{id("real"), {"xml", "id", "decoy"}},
		{id("real"), {"xmlns", "id", "urn:decoy"}},
		{id("real"), {"x", "id", "decoy"}},
		{{"x", "id", "only-qualified"}},
		{{"xml", "lang", "en"}, id("real"), {"", "version", "1.0"}, {"x", "idx", "n"}},
	}
	for _, s := range sets {
		connect(s, "", "named", "secret", ok, 1)
		connect(s, "", "numeric", "secret", conflict, 1)
	}
	// no connection / no stream header
	connect(nil, "!refused", "named", "secret", ok, 1)
	connect(nil, "!nostream", "named", "secret", ok, 1)
	flush()
	st.Note(fmt.Sprintf("end to end: %d stream ids x 2 escapings, %d replies x 3 ids, %d attribute sets x {handshake, conflict}, refused dial, missing stream header", len(ids), len(replies), len(sets)))

	// random end to end
	R := 32
	if tier == "thorough" {
		R = 320
	}
	pool := []string{"a", "Z", "9", "-", "&", "<", ">", "'", "\"", "é", "ß", "日", "😀", " ", "=", "/", ";", "#", "%"}
	rid := func() string {
		var sb strings.Builder
		for i, k := 0, rng.Intn(24); i < k; i++ {
			sb.WriteString(pool[rng.Intn(len(pool))])
		}
		return sb.String()
	}
	for i := 0; i < R; i++ {
		as := []c16attr{id(rid())}
		if rng.Intn(3) == 0 {
			d := c16attr{[]string{"xml", "x", "xmlns"}[rng.Intn(3)], "id", "d" + rid()}
			if rng.Intn(2) == 0 {
				as = append(as, d)
			} else {
				as = append([]c16attr{d}, as...)
			}
		}
		sec := make([]byte, rng.Intn(20))
		rng.Read(sec)
		connect(as, "", []string{"named", "numeric"}[rng.Intn(2)], string(sec), replies[rng.Intn(len(replies))], rng.Intn(3))
	}
	flush()

	// a second life: established, closed gracefully by the server, then Resume() against every reply
	for ri, r := range replies {
		how := "resume"
		if ri%2 == 0 {
			how = "connect"
		}
		pending = append(pending, []string{"reconnect", r.class, hx(r.bytes), how})
		st.Inc("reconnect_after_graceful_close")
		if len(pending) >= 12 {
			flush()
		}
	}
	flush()

	// several lives of one Component value: every ordered pair and a selection of triples of reply classes (the state
	// and whatever else a life leaves behind must not influence how the next handshake reply is reported)
	pick := map[string]c16reply{}
	for _, r := range replies {
		if _, ok := pick[r.class]; !ok {
			pick[r.class] = r
		}
	}
	classes := []string{"handshake", "streamError", "other", "decodeError"}
	lifeTok := func(cl string) string { r := pick[cl]; return r.class + "|" + hx(r.bytes) }
	hows := []string{"connect", "resume", "mixed"}
	li := 0
	for _, a := range classes {
		for _, b := range classes {
			pending = append(pending, []string{"lives", hows[li%3], lifeTok(a), lifeTok(b)})
			li++
			st.Inc("lives_pairs")
			for _, c3 := range classes {
				if tier == "thorough" || (li+len(c3))%3 == 0 {
					pending = append(pending, []string{"lives", hows[li%3], lifeTok(a), lifeTok(b), lifeTok(c3)})
					li++
					st.Inc("lives_triples")
				}
			}
			if len(pending) >= 12 {
				flush()
			}
		}
	}
	// the same refusal twice with an accepted session in between, and the other way round
	pending = append(pending, []string{"lives", "resume", lifeTok("streamError"), lifeTok("handshake"), lifeTok("streamError"), lifeTok("handshake")})
	pending = append(pending, []string{"lives", "connect", lifeTok("other"), lifeTok("other"), lifeTok("handshake"), lifeTok("handshake")})
	flush()

	// the digest function and SHA-1 itself
	one := func(op ...string) { add(op) }
	rb := func(n int) string {
		b := make([]byte, n)
		rng.Read(b)
		return string(b)
	}
	for _, v := range []string{"", "abc", "abcdbcdecdefdefgefghfghighijhijkijkljklmklmnlmnomnopnopq", "3BF96D32test"} {
		one("sha1", hx(v))
	}
	for l := 0; l <= 130; l++ {
		one("sha1", hx(rb(l)))
		one("sha1", hx(strings.Repeat("\x00", l)))
		one("sha1", hx(strings.Repeat("\xff", l)))
		il := rng.Intn(l + 1)
		one("digest", hx(rb(il)), hx(rb(l-il)))
		st.Inc("sha1_len_boundary")
	}
	st.Note("sha1 / digest: every total length 0..130 (padding boundaries 55/56/63/64/119/120/127/128), all-zero and all-0xff messages, FIPS vectors, random")
	D := 1500
	if tier == "thorough" {
		D = 30000
	}
	for i := 0; i < D; i++ {
		switch rng.Intn(3) {
		case 0:
			one("sha1", hx(rb(rng.Intn(400))))
			st.Inc("sha1_random")
		default:
			a, b := rb(rng.Intn(80)), rb(rng.Intn(80))
			if rng.Intn(2) == 0 {
				a = ids[rng.Intn(len(ids))]
			}
			one("digest", hx(a), hx(b))
			st.Inc("digest_random")
		}
	}
	for _, v := range ids {
		if !utf8.ValidString(v) {
			panic("id not valid UTF-8")
		}
	}
	return cases
}
