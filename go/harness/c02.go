package main

import (
	"context"
	"net"
	"net/http"

	xmpp "gosrc.io/xmpp"
	"nhooyr.io/websocket"
	"bufio"
	"bytes"
	"encoding/xml"
	"fmt"
	"io"
	"math/rand"
	"os"
	"strconv"
	"strings"
	"time"

	"gosrc.io/xmpp/stanza"
)

// C02: stanza.InitStream + repeated stanza.NextPacket on ONE xml.Decoder reading a generated stream.
//
// A case is a forest of top-level items (one `item` op each, as an s-expression of the token view of the element:
// names and attributes exactly as encoding/xml's tokenizer reports them) followed by `run <mode>` ops that render
// the forest to bytes, wrap it in a stream header and read it back packet by packet through a reader that delivers
// the bytes whole, one byte at a time, or in random pieces. `mal <hex> <mode>` ops feed arbitrary bytes (no model).
//
//	item E <space> <local> <nattr> (<aspace> <alocal> <aval>)* <nkids> item*  |  T <text>  |  M  |  X
//	run  whole | byte1 | rand:<seed> | bufio:<seed>
//	  => pkt <kind> <type> <id> <from> <to> <summary>;…;err     (summary: message body / presence status)
//	mal <hex> <mode>   => done <n> | panic | timeout
//	trunc <hex> <mode> => done <prefixes> <packets> | panic@<offset> | timeout@<offset>   (every prefix of the bytes)
type c02 struct{}

func init() { register("C02", c02{}) }

const (
	c02NSStream = "http://etherx.jabber.org/streams"
	c02NSClient = "jabber:client"
	c02NSComp   = "jabber:component:accept"
	c02NSSASL   = "urn:ietf:params:xml:ns:xmpp-sasl"
	c02NSSM     = "urn:xmpp:sm:3"
	c02NSTLS    = "urn:ietf:params:xml:ns:xmpp-tls"
	c02NSStz    = "urn:ietf:params:xml:ns:xmpp-stanzas"
	c02XMLURL   = "http://www.w3.org/XML/1998/namespace"
	c02NSQ      = "urn:q" // the namespace bound to the attribute prefix q:
)

type c02attr struct{ Space, Local, Val string }

// c02tree is the token view of an element / text / comment. Attrs holds the attributes as the tokenizer reports
// them EXCEPT the default-namespace declaration `xmlns='…'`, which render() inserts (and view() adds) whenever
// the element's namespace differs from the inherited default.
type c02tree struct {
	Kind      byte // 'E' element, 'T' text, 'D' text written as CDATA, 'M' comment, 'X' stream close (top level only)
	Space     string
	Local     string
	Attrs     []c02attr
	Kids      []*c02tree
	Text      string
	Prefixed  bool // write as <stream:local> (only for the stream namespace; no xmlns attribute, default unchanged)
	SelfClose bool
}

func c02esc(s string, attr bool) string {
	var sb strings.Builder
	for _, r := range s {
		switch r {
		case '&':
			sb.WriteString("&amp;")
		case '<':
			sb.WriteString("&lt;")
		case '>':
			sb.WriteString("&gt;")
		case '\'':
			if attr {
				sb.WriteString("&apos;")
			} else {
				sb.WriteRune(r)
			}
		case '"':
			if attr {
				sb.WriteString("&#34;")
			} else {
				sb.WriteRune(r)
			}
		default:
			sb.WriteRune(r)
		}
	}
	return sb.String()
}

// fullAttrs is the attribute list the tokenizer reports for t under the inherited default namespace def.
func (t *c02tree) fullAttrs(def string) []c02attr {
	if t.Prefixed || t.Space == def {
		return t.Attrs
	}
	return append([]c02attr{{"", "xmlns", t.Space}}, t.Attrs...)
}

func (t *c02tree) render(sb *strings.Builder, def string) {
	switch t.Kind {
	case 'T':
		sb.WriteString(c02esc(t.Text, false))
	case 'D':
		sb.WriteString("<![CDATA[" + t.Text + "]]>")
	case 'M':
		sb.WriteString("<!--" + t.Text + "-->")
	case 'X':
		sb.WriteString("</stream:stream>")
	case 'E':
		name := t.Local
		inner := t.Space
		if t.Prefixed {
			name = "stream:" + t.Local
			inner = def
		}
		sb.WriteString("<" + name)
		for _, a := range t.fullAttrs(def) {
			sb.WriteByte(' ')
			switch a.Space {
			case "":
				sb.WriteString(a.Local)
			case "xmlns":
				sb.WriteString("xmlns:" + a.Local)
			case c02XMLURL:
				sb.WriteString("xml:" + a.Local)
			case c02NSQ:
				sb.WriteString("q:" + a.Local)
			default:
				panic("c02: attribute namespace without a prefix: " + a.Space)
			}
			sb.WriteString("='" + c02esc(a.Val, true) + "'")
		}
		if len(t.Kids) == 0 && t.SelfClose {
			sb.WriteString("/>")
			return
		}
		sb.WriteString(">")
		for _, k := range t.Kids {
			k.render(sb, inner)
		}
		sb.WriteString("</" + name + ">")
	}
}

// sexpr is the token view sent to the Lean model.
func (t *c02tree) sexpr(sb *strings.Builder, def string) {
	switch t.Kind {
	case 'T', 'D':
		sb.WriteString("T " + hx(t.Text))
	case 'M':
		sb.WriteString("M")
	case 'X':
		sb.WriteString("X")
	case 'E':
		as := t.fullAttrs(def)
		fmt.Fprintf(sb, "E %s %s %d", hx(t.Space), hx(t.Local), len(as))
		for _, a := range as {
			fmt.Fprintf(sb, " %s %s %s", hx(a.Space), hx(a.Local), hx(a.Val))
		}
		fmt.Fprintf(sb, " %d", len(t.Kids))
		inner := t.Space
		if t.Prefixed {
			inner = def
		}
		for _, k := range t.Kids {
			sb.WriteByte(' ')
			k.sexpr(sb, inner)
		}
	}
}

func c02parseSexpr(f []string, pos *int) (*c02tree, string) {
	next := func() string {
		if *pos >= len(f) {
			panic("c02: truncated s-expression")
		}
		s := f[*pos]
		*pos++
		return s
	}
	switch k := next(); k {
	case "T":
		return &c02tree{Kind: 'T', Text: unhx(next())}, ""
	case "M":
		return &c02tree{Kind: 'M', Text: "c"}, ""
	case "X":
		return &c02tree{Kind: 'X'}, ""
	case "E":
		t := &c02tree{Kind: 'E', Space: unhx(next()), Local: unhx(next())}
		na, _ := strconv.Atoi(next())
		decl := "\x00"
		for i := 0; i < na; i++ {
			a := c02attr{unhx(next()), unhx(next()), unhx(next())}
			if i == 0 && a.Space == "" && a.Local == "xmlns" && a.Val == t.Space {
				decl = a.Val // re-inserted by fullAttrs
				continue
			}
			t.Attrs = append(t.Attrs, a)
		}
		nk, _ := strconv.Atoi(next())
		for i := 0; i < nk; i++ {
			k, _ := c02parseSexpr(f, pos)
			t.Kids = append(t.Kids, k)
		}
		return t, decl
	default:
		panic("c02: bad s-expression tag " + k)
	}
}

// ---- execution ---------------------------------------------------------------------------------------------

// c02chunks delivers the bytes in pieces of the given sizes (cycled); size 0 entries are skipped.
type c02chunks struct {
	data  []byte
	sizes []int
	i     int
}

func (r *c02chunks) Read(p []byte) (int, error) {
	if len(r.data) == 0 {
		return 0, io.EOF
	}
	n := len(r.data)
	if len(r.sizes) > 0 {
		n = r.sizes[r.i%len(r.sizes)]
		r.i++
		if n < 1 {
			n = 1
		}
	}
	if n > len(r.data) {
		n = len(r.data)
	}
	if n > len(p) {
		n = len(p)
	}
	copy(p, r.data[:n])
	r.data = r.data[n:]
	return n, nil
}

func c02reader(data []byte, mode string) io.Reader {
	switch {
	case mode == "whole":
		return bytes.NewReader(data)
	case mode == "byte1":
		return &c02chunks{data: data, sizes: []int{1}}
	case strings.HasPrefix(mode, "rand:"), strings.HasPrefix(mode, "bufio:"):
		seed, _ := strconv.ParseInt(mode[strings.Index(mode, ":")+1:], 10, 64)
		rng := rand.New(rand.NewSource(seed))
		sizes := make([]int, 64)
		for i := range sizes {
			switch rng.Intn(4) {
			case 0:
				sizes[i] = 1
			case 1:
				sizes[i] = 1 + rng.Intn(4)
			case 2:
				sizes[i] = 1 + rng.Intn(24)
			default:
				sizes[i] = 1 + rng.Intn(200)
			}
		}
		var r io.Reader = &c02chunks{data: data, sizes: sizes}
		if strings.HasPrefix(mode, "bufio:") {
			// what XMPPTransport does: xml.NewDecoder(bufio.NewReaderSize(conn, maxPacketSize))
			r = bufio.NewReaderSize(r, 32768)
		}
		return r
	}
	return bytes.NewReader(data)
}

func c02kind(p stanza.Packet) (kind string, a stanza.Attrs, sum string) {
	switch v := p.(type) {
	case stanza.Message:
		return "message", v.Attrs, v.Body
	case *stanza.Message:
		return "message", v.Attrs, v.Body
	case stanza.Presence:
		return "presence", v.Attrs, v.Status
	case *stanza.Presence:
		return "presence", v.Attrs, v.Status
	case *stanza.IQ:
		return "iq", v.Attrs, ""
	case stanza.StreamFeatures:
		return "streamFeatures", a, ""
	case stanza.StreamError:
		return "streamError", a, ""
	case stanza.SASLSuccess:
		return "saslSuccess", a, ""
	case stanza.SASLFailure:
		return "saslFailure", a, ""
	case stanza.SMEnabled:
		return "smEnabled", a, ""
	case stanza.SMResumed:
		return "smResumed", a, ""
	case stanza.SMResume:
		return "smResume", a, ""
	case stanza.SMRequest:
		return "smRequest", a, ""
	case stanza.SMAnswer:
		return "smAnswer", a, ""
	case stanza.SMFailed:
		return "smFailed", a, ""
	case stanza.Handshake:
		return "handshake", a, ""
	case stanza.StreamClosePacket:
		return "streamClose", a, ""
	}
	return fmt.Sprintf("other(%T)", p), a, ""
}

// c02read runs InitStream once and NextPacket until the first error; at most limit packets.
func c02read(r io.Reader, limit int) (obs []string, npkt int) {
	d := xml.NewDecoder(r)
	if _, err := stanza.InitStream(d); err != nil {
		return []string{"initerr"}, 0
	}
	for i := 0; i < limit; i++ {
		p, err := stanza.NextPacket(d)
		if err != nil {
			if c02debug {
				fmt.Fprintln(os.Stderr, "C02DEBUG", err)
			}
			obs = append(obs, "err")
			return obs, npkt
		}
		npkt++
		k, a, sum := c02kind(p)
		obs = append(obs, strings.Join([]string{"pkt", k, hx(string(a.Type)), hx(a.Id), hx(a.From), hx(a.To), hx(sum)}, " "))
	}
	obs = append(obs, "limit")
	return obs, npkt
}

var c02debug = os.Getenv("C02DEBUG") != ""

type c02out struct {
	obs  []string
	n    int
	what string
}

// c02bounded runs c02read under recover and a wall-clock bound.
func c02bounded(data []byte, mode string, limit int, bound time.Duration) c02out {
	ch := make(chan c02out, 1)
	go func() {
		defer func() {
			if r := recover(); r != nil {
				ch <- c02out{what: "panic"}
			}
		}()
		o, n := c02read(c02reader(data, mode), limit)
		ch <- c02out{obs: o, n: n, what: "done"}
	}()
	select {
	case o := <-ch:
		return o
	case <-time.After(bound):
		return c02out{what: "timeout"}
	}
}

// c02viaWS serves `pieces` as WebSocket text messages (burst) and reads them back through the library's
// WebsocketTransport (reader goroutine, queue, Read, bufio, decoder) with InitStream / NextPacket.
func c02viaWS(pieces []string, limit int) string {
	for _, p := range pieces {
		if len(p) > 30000 {
			pieces = nil // larger than the transport's message limit: not a case for this path
		}
	}
	if pieces == nil {
		return "ws-skipped"
	}
	srvDone := make(chan struct{})
	mux := http.NewServeMux()
	mux.HandleFunc("/", func(w http.ResponseWriter, r *http.Request) {
		defer close(srvDone)
		conn, err := websocket.Accept(w, r, &websocket.AcceptOptions{Subprotocols: []string{"xmpp"}})
		if err != nil {
			return
		}
		ctx, cancel := context.WithTimeout(context.Background(), 10*time.Second)
		defer cancel()
		if _, _, err := conn.Read(ctx); err != nil { // the client's <open/>
			return
		}
		conn.Write(ctx, websocket.MessageText, []byte(`<open xmlns="urn:ietf:params:xml:ns:xmpp-framing" id="ws1" from="localhost" version="1.0"/>`))
		for _, p := range pieces {
			if p == "" {
				continue
			}
			if conn.Write(ctx, websocket.MessageText, []byte(p)) != nil {
				return
			}
		}
		// over WebSocket the end of the connection is noticed by the keepalive only; the harness has none, so the
		// stream ends with an element of an unknown namespace: reading it is the error that ends a run over a byte
		// reader as well (there: end of input)
		conn.Write(ctx, websocket.MessageText, []byte("<end-of-run xmlns='urn:verif:no-such-namespace'/>"))
		// keep reading (control frames, the client's <close/>) until the client closes, or the time is up
		for {
			if _, _, err := conn.Read(ctx); err != nil {
				return
			}
		}
	})
	ln, err := net.Listen("tcp", "127.0.0.1:0")
	if err != nil {
		return "listen-failed"
	}
	srv := &http.Server{Handler: mux}
	go srv.Serve(ln)
	defer srv.Close()
	t := xmpp.NewClientTransport(xmpp.TransportConfiguration{Address: "ws://" + ln.Addr().String() + "/", Domain: "localhost", ConnectTimeout: 5})
	ch := make(chan string, 1)
	go func() {
		defer func() {
			if r := recover(); r != nil {
				ch <- "panic"
			}
		}()
		if _, err := t.Connect(); err != nil {
			ch <- "ws-connect-failed"
			return
		}
		time.Sleep(40 * time.Millisecond) // the burst is in the transport's queue by now
		d := t.GetDecoder()
		if _, err := stanza.InitStream(d); err != nil {
			ch <- "initerr"
			return
		}
		var obs []string
		for i := 0; ; i++ {
			if i == limit {
				obs = append(obs, "limit")
				break
			}
			p, err := stanza.NextPacket(d)
			if err != nil {
				obs = append(obs, "err")
				break
			}
			k, a, sum := c02kind(p)
			obs = append(obs, strings.Join([]string{"pkt", k, hx(string(a.Type)), hx(a.Id), hx(a.From), hx(a.To), hx(sum)}, " "))
		}
		ch <- strings.Join(obs, ";")
	}()
	var out string
	select {
	case out = <-ch:
	case <-time.After(10 * time.Second):
		out = "timeout"
	}
	t.Close()
	select {
	case <-srvDone:
	case <-time.After(time.Second):
	}
	return out
}

func c02header(variant string) (string, string) {
	def := c02NSClient
	if variant == "component" {
		def = c02NSComp
	}
	return "<?xml version='1.0'?><stream:stream xmlns='" + def + "' xmlns:stream='" + c02NSStream + "' id='s1' version='1.0'>", def
}

func (c02) Exec(c Case) []string {
	variant := "client"
	if len(c.Variant) > 0 {
		variant = c.Variant[0]
	}
	if variant == "bytes" { // byte-level tokenizer tie: c02bytes.go
		return c02bExec(c)
	}
	hdr, def := c02header(variant)
	var items []*c02tree
	var obs []string
	for _, op := range c.Ops {
		switch op[0] {
		case "item":
			f := strings.Fields(op[1])
			pos := 0
			t, _ := c02parseSexpr(f, &pos)
			if len(op) > 2 {
				c02applyStyle(t, op[2])
			}
			items = append(items, t)
			obs = append(obs, "-")
		case "run":
			var sb strings.Builder
			sb.WriteString(hdr)
			for _, t := range items {
				t.render(&sb, def)
			}
			data := []byte(sb.String())
			if bad := c02tokenCheck(data, items, def); bad != "" {
				obs = append(obs, "tokenizer-view-mismatch "+bad)
				continue
			}
			if op[1] == "ws" {
				// the same bytes through the REAL WebsocketTransport: the stream header and every top-level element as
				// one WebSocket message each, sent in one burst (the reader goroutine queues them faster than the
				// decoder takes them)
				pieces := []string{hdr}
				for _, t := range items {
					var ib strings.Builder
					t.render(&ib, def)
					pieces = append(pieces, ib.String())
				}
				obs = append(obs, c02viaWS(pieces, len(items)+8))
				continue
			}
			o := c02bounded(data, op[1], len(items)+8, 10*time.Second)
			if o.what != "done" {
				obs = append(obs, o.what)
				continue
			}
			obs = append(obs, strings.Join(o.obs, ";"))
		case "mal":
			data := []byte(unhx(op[1]))
			o := c02bounded(data, op[2], 1<<20, 5*time.Second)
			if o.what != "done" {
				obs = append(obs, o.what)
			} else {
				obs = append(obs, "done "+strconv.Itoa(o.n))
			}
		case "trunc": // every prefix of the byte string
			data := []byte(unhx(op[1]))
			total, bad := 0, ""
			for off := 0; off <= len(data) && bad == ""; off++ {
				o := c02bounded(data[:off], op[2], 1<<20, 5*time.Second)
				if o.what != "done" {
					bad = fmt.Sprintf("%s@%d", o.what, off)
				}
				total += o.n
			}
			if bad != "" {
				obs = append(obs, bad)
			} else {
				obs = append(obs, fmt.Sprintf("done %d %d", len(data)+1, total))
			}
		default:
			obs = append(obs, "bad-op")
		}
	}
	return obs
}

// style string: one character per node in pre-order: 's' self-closing when empty, 'o' open/close pair, 'p'/'P' the
// same written with the stream: prefix (no default-namespace declaration), 'd' on a text node = CDATA.
// It fixes the bytes for a given token view.
func c02applyStyle(t *c02tree, style string) {
	i := 0
	var walk func(t *c02tree)
	walk = func(t *c02tree) {
		ch := byte('o')
		if i < len(style) {
			ch = style[i]
		}
		i++
		switch t.Kind {
		case 'E':
			t.SelfClose = ch == 's' || ch == 'P'
			t.Prefixed = ch == 'p' || ch == 'P'
			for _, k := range t.Kids {
				walk(k)
			}
		case 'T':
			if ch == 'd' && !strings.Contains(t.Text, "]]>") {
				t.Kind = 'D'
			}
		}
	}
	walk(t)
}

func c02style(t *c02tree) string {
	var sb strings.Builder
	var walk func(t *c02tree)
	walk = func(t *c02tree) {
		switch {
		case t.Kind == 'E' && t.Prefixed && t.SelfClose:
			sb.WriteByte('P')
		case t.Kind == 'E' && t.Prefixed:
			sb.WriteByte('p')
		case t.Kind == 'E' && t.SelfClose:
			sb.WriteByte('s')
		case t.Kind == 'D':
			sb.WriteByte('d')
		default:
			sb.WriteByte('o')
		}
		for _, k := range t.Kids {
			walk(k)
		}
	}
	walk(t)
	return sb.String()
}

// c02tokenCheck tokenizes the rendered bytes with a plain decoder and compares with the token view sent to the
// model (adjacent character data merged). This is the sampled part of "the tokenizer is trusted".
func c02tokenCheck(data []byte, items []*c02tree, def string) string {
	type tk struct {
		k           byte
		space, name string
		attrs       []c02attr
		text        string
	}
	var want []tk
	var flat func(t *c02tree, def string)
	addText := func(s string) {
		if n := len(want); n > 0 && want[n-1].k == 'T' {
			want[n-1].text += s
			return
		}
		want = append(want, tk{k: 'T', text: s})
	}
	flat = func(t *c02tree, def string) {
		switch t.Kind {
		case 'T', 'D':
			addText(t.Text)
		case 'M':
			want = append(want, tk{k: 'M'})
		case 'X':
			want = append(want, tk{k: 'e', space: c02NSStream, name: "stream"})
		case 'E':
			want = append(want, tk{k: 's', space: t.Space, name: t.Local, attrs: t.fullAttrs(def)})
			inner := t.Space
			if t.Prefixed {
				inner = def
			}
			for _, k := range t.Kids {
				flat(k, inner)
			}
			want = append(want, tk{k: 'e', space: t.Space, name: t.Local})
		}
	}
	for _, t := range items {
		flat(t, def)
	}
	d := xml.NewDecoder(bytes.NewReader(data))
	var got []tk
	depth := 0
	for {
		t, err := d.Token()
		if err != nil {
			break
		}
		switch v := t.(type) {
		case xml.StartElement:
			depth++
			if depth == 1 {
				continue
			}
			x := tk{k: 's', space: v.Name.Space, name: v.Name.Local}
			for _, a := range v.Attr {
				x.attrs = append(x.attrs, c02attr{a.Name.Space, a.Name.Local, a.Value})
			}
			got = append(got, x)
		case xml.EndElement:
			depth--
			got = append(got, tk{k: 'e', space: v.Name.Space, name: v.Name.Local})
		case xml.CharData:
			if depth == 0 {
				continue
			}
			if n := len(got); n > 0 && got[n-1].k == 'T' {
				got[n-1].text += string(v)
			} else {
				got = append(got, tk{k: 'T', text: string(v)})
			}
		case xml.Comment:
			got = append(got, tk{k: 'M'})
		}
	}
	if len(got) != len(want) {
		return fmt.Sprintf("len %d/%d", len(got), len(want))
	}
	for i := range got {
		g, w := got[i], want[i]
		if g.k != w.k || g.space != w.space || g.name != w.name || g.text != w.text || len(g.attrs) != len(w.attrs) {
			return fmt.Sprintf("tok %d", i)
		}
		for j := range g.attrs {
			if g.attrs[j] != w.attrs[j] {
				return fmt.Sprintf("tok %d attr %d", i, j)
			}
		}
	}
	return ""
}

// ---- generation --------------------------------------------------------------------------------------------

type c02nm struct{ Space, Local string }

const (
	c02NSPSOwner = "http://jabber.org/protocol/pubsub#owner"
	c02NSPSEvent = "http://jabber.org/protocol/pubsub#event"
	c02NSCmd     = "http://jabber.org/protocol/commands"
	c02NSDeleg   = "urn:xmpp:delegation:1"
	c02NSFwd     = "urn:xmpp:forward:0"
	c02NSMuc     = "http://jabber.org/protocol/muc"
	c02NSData    = "jabber:x:data"
)

// top-level names of the dispatch table, with the stream variant under which they are native
var c02top = []struct {
	n       c02nm
	variant string
}{
	{c02nm{c02NSClient, "message"}, "client"}, {c02nm{c02NSClient, "presence"}, "client"}, {c02nm{c02NSClient, "iq"}, "client"},
	{c02nm{c02NSComp, "handshake"}, "component"}, {c02nm{c02NSComp, "message"}, "component"},
	{c02nm{c02NSComp, "presence"}, "component"}, {c02nm{c02NSComp, "iq"}, "component"},
	{c02nm{c02NSStream, "error"}, "client"}, {c02nm{c02NSStream, "features"}, "client"},
	{c02nm{c02NSSASL, "success"}, "client"}, {c02nm{c02NSSASL, "failure"}, "client"},
	{c02nm{c02NSSM, "enabled"}, "client"}, {c02nm{c02NSSM, "resumed"}, "client"}, {c02nm{c02NSSM, "resume"}, "client"},
	{c02nm{c02NSSM, "r"}, "client"}, {c02nm{c02NSSM, "a"}, "client"}, {c02nm{c02NSSM, "failed"}, "client"},
}

var c02unknownTop = []c02nm{
	{c02NSClient, "foo"}, {c02NSClient, "handshake"}, {c02NSClient, "stream"}, {c02NSComp, "foo"}, {c02NSStream, "stream"},
	{c02NSStream, "bar"}, {c02NSSASL, "challenge"}, {c02NSSASL, "mechanisms"}, {c02NSSM, "enable"}, {c02NSSM, "x"},
	{"urn:u", "message"}, {"", "message"}, {c02NSTLS, "proceed"}, {"jabber:server", "message"}, {c02NSStz, "iq"},
}

var c02msgExt = []c02nm{
	{"urn:xmpp:receipts", "request"}, {"urn:xmpp:receipts", "received"}, {"jabber:x:oob", "x"},
	{"urn:xmpp:chat-markers:0", "markable"}, {"urn:xmpp:chat-markers:0", "received"}, {"urn:xmpp:chat-markers:0", "displayed"},
	{"urn:xmpp:chat-markers:0", "acknowledged"}, {"http://jabber.org/protocol/chatstates", "active"},
	{"http://jabber.org/protocol/chatstates", "composing"}, {"http://jabber.org/protocol/chatstates", "gone"},
	{"http://jabber.org/protocol/chatstates", "inactive"}, {"http://jabber.org/protocol/chatstates", "paused"},
	{c02NSDeleg, "delegation"}, {"urn:xmpp:hints", "no-permanent-store"}, {"urn:xmpp:hints", "no-store"},
	{"urn:xmpp:hints", "no-copy"}, {"urn:xmpp:hints", "store"}, {"http://jabber.org/protocol/xhtml-im", "html"},
	{c02NSPSEvent, "event"},
}
var c02presExt = []c02nm{{c02NSMuc, "x"}}
var c02iqExt = []c02nm{
	{c02NSCmd, "command"}, {"http://jabber.org/protocol/disco#info", "query"}, {"http://jabber.org/protocol/disco#items", "query"},
	{"urn:xmpp:iot:control", "set"}, {"jabber:iq:roster", "query"}, {c02NSPSOwner, "pubsub"}, {"jabber:iq:version", "query"},
	{c02NSDeleg, "delegation"}, {"http://jabber.org/protocol/pubsub", "pubsub"}, {"urn:ietf:params:xml:ns:xmpp-bind", "bind"},
	{"urn:ietf:params:xml:ns:xmpp-session", "session"},
}

func c02in(ns string, locals ...string) []c02nm {
	var o []c02nm
	for _, l := range locals {
		o = append(o, c02nm{ns, l})
	}
	return o
}

// c02pool: names a decoder of this context knows about (generator guidance only; the model has its own tables)
func c02pool(ctx c02nm) []c02nm {
	switch {
	case ctx.Local == "message" && (ctx.Space == c02NSClient || ctx.Space == c02NSComp):
		return append(c02in(ctx.Space, "body", "thread", "subject", "error"), c02msgExt...)
	case ctx.Local == "presence" && (ctx.Space == c02NSClient || ctx.Space == c02NSComp):
		return append(c02in(ctx.Space, "show", "status", "priority", "error"), c02presExt...)
	case ctx.Local == "iq" && (ctx.Space == c02NSClient || ctx.Space == c02NSComp):
		return append(c02in(ctx.Space, "error", "query"), c02iqExt...)
	case ctx.Local == "error" && ctx.Space != c02NSStream:
		return append(c02in(c02NSStz, "text", "gone", "item-not-found", "bad-request"), c02nm{"http://jabber.org/protocol/pubsub#errors", "closed-node"})
	case ctx.Local == "error":
		return c02in("urn:ietf:params:xml:ns:xmpp-streams", "text", "host-unknown", "conflict")
	case ctx.Local == "features":
		return []c02nm{{c02NSTLS, "starttls"}, {c02NSSASL, "mechanisms"}, {"urn:ietf:params:xml:ns:xmpp-bind", "bind"},
			{c02NSSM, "sm"}, {"urn:ietf:params:xml:ns:xmpp-session", "session"}, {"http://jabber.org/protocol/caps", "c"},
			{"p1:push", "push"}, {"p1:rebind", "rebind"}, {"p1:ack", "ack"}}
	case ctx.Local == "starttls":
		return c02in(c02NSTLS, "required")
	case ctx.Local == "mechanisms":
		return c02in(c02NSSASL, "mechanism")
	case ctx.Local == "failure":
		return c02in(c02NSSASL, "not-authorized", "text")
	case ctx.Local == "failed":
		return c02in(c02NSStz, "item-not-found", "bad-format", "unexpected-request", "conflict")
	case ctx == c02nm{c02NSPSOwner, "pubsub"}:
		return c02in(c02NSPSOwner, "affiliations", "configure", "default", "delete", "purge", "subscriptions")
	case ctx == c02nm{c02NSPSEvent, "event"}:
		return c02in(c02NSPSEvent, "collection", "configuration", "delete", "items", "purge", "subscription")
	case ctx == c02nm{c02NSCmd, "command"}:
		return append(c02in(c02NSCmd, "actions", "note"), c02nm{c02NSData, "x"})
	case ctx == c02nm{c02NSDeleg, "delegation"}:
		return append(c02in(c02NSDeleg, "delegated", "set"), c02nm{c02NSFwd, "forwarded"})
	case ctx == c02nm{c02NSFwd, "forwarded"}:
		return c02in(c02NSClient, "message", "presence", "iq")
	case ctx == c02nm{c02NSMuc, "x"}:
		return c02in(c02NSMuc, "history", "password")
	}
	return nil
}

var c02texts = []string{"hi", "a&b", "<tag/>", "x y", "42", " ", "é日", "]]>", "'q'\"", "-1", "true", "\n\t", "&amp;"}
var c02unknown = []c02nm{{"urn:u", "ext"}, {"urn:u", "y"}, {"urn:v", "ext"}, {"", "ext"}}

type c02gen struct {
	rng *rand.Rand
	st  *Stats
	all []c02nm // every known name (for "known name under unknown parent")
	// safe: do not produce values that a typed Go field rejects (numbers, times, namespace-constrained children)
	safe bool
}

func newC02gen(rng *rand.Rand, st *Stats) *c02gen {
	g := &c02gen{rng: rng, st: st, safe: true}
	seen := map[c02nm]bool{}
	add := func(ns []c02nm) {
		for _, n := range ns {
			if !seen[n] {
				seen[n] = true
				g.all = append(g.all, n)
			}
		}
	}
	for _, t := range c02top {
		add([]c02nm{t.n})
		add(c02pool(t.n))
	}
	add(c02msgExt)
	add(c02presExt)
	add(c02iqExt)
	for _, n := range append([]c02nm{}, g.all...) {
		add(c02pool(n))
	}
	return g
}

func (g *c02gen) pick(ns []c02nm) c02nm { return ns[g.rng.Intn(len(ns))] }

func (g *c02gen) attrs(n c02nm, top bool) []c02attr {
	var as []c02attr
	r := g.rng
	addr := []string{"id", "type", "to", "from"}
	vals := []string{"i1", "chat", "a@b/c", "srv", "get", "result", "error", "", "x&y", "<", "'\"", "é"}
	if top || r.Intn(3) == 0 {
		for _, k := range addr {
			if r.Intn(2) == 0 {
				as = append(as, c02attr{"", k, vals[r.Intn(len(vals))]})
			}
		}
	}
	switch r.Intn(12) {
	case 0:
		as = append(as, c02attr{c02XMLURL, "lang", "en"})
		g.st.Inc("attr_xml_lang")
	case 1: // duplicate addressing attribute: the last one wins in the attribute loops
		as = append(as, c02attr{"", "id", "dup"})
		g.st.Inc("attr_duplicate_id")
	case 2: // a prefixed attribute with local name id / to
		as = append(as, c02attr{"xmlns", "q", c02NSQ}, c02attr{c02NSQ, addr[r.Intn(4)], "pfx"})
		g.st.Inc("attr_prefixed_addressing")
	case 3: // a namespace declaration whose prefix is an addressing name
		as = append(as, c02attr{"xmlns", addr[r.Intn(4)], "urn:decl"})
		g.st.Inc("attr_xmlns_decl_named_like_addressing")
	case 4:
		as = append(as, c02attr{"", "code", []string{"404", "x", ""}[r.Intn(3)]})
	}
	// shuffle
	r.Shuffle(len(as), func(i, j int) {
		// keep a prefix declaration before or after its use: the tokenizer resolves after reading all attributes
		as[i], as[j] = as[j], as[i]
	})
	return as
}

// tree generates an element named n; anc = names of the ancestors (nearest last)
func (g *c02gen) tree(n c02nm, anc []c02nm, depth, maxDepth int, top bool) *c02tree {
	r := g.rng
	t := &c02tree{Kind: 'E', Space: n.Space, Local: n.Local, SelfClose: r.Intn(2) == 0}
	t.Attrs = g.attrs(n, top)
	if n.Space == c02NSStream && r.Intn(2) == 0 {
		t.Prefixed = true
	}
	if depth >= maxDepth {
		return t
	}
	nk := []int{0, 0, 1, 1, 1, 2, 2, 3, 4}[r.Intn(9)]
	if depth >= 3 {
		nk = []int{0, 1, 1, 1, 2}[r.Intn(5)]
	}
	chain := append(append([]c02nm{}, anc...), n)
	pool := c02pool(n)
	for i := 0; i < nk; i++ {
		switch x := r.Intn(100); {
		case x < 12:
			t.Kids = append(t.Kids, &c02tree{Kind: 'T', Text: c02texts[r.Intn(len(c02texts))]})
			if r.Intn(4) == 0 && !strings.Contains(t.Kids[len(t.Kids)-1].Text, "]]>") {
				t.Kids[len(t.Kids)-1].Kind = 'D'
			}
			continue
		case x < 15:
			t.Kids = append(t.Kids, &c02tree{Kind: 'M', Text: "c"})
			continue
		}
		var kn c02nm
		switch x := r.Intn(100); {
		case x < 40 && len(pool) > 0:
			kn = g.pick(pool)
			g.st.Inc("kid_known_to_parent")
		case x < 58: // named like an ancestor (message in message, error in error, x in x …)
			kn = chain[len(chain)-1-r.Intn(min(len(chain), 3))]
			g.st.Inc("kid_named_like_ancestor")
		case x < 64: // same local name as an ancestor, other namespace
			kn = c02nm{"urn:u", chain[r.Intn(len(chain))].Local}
			g.st.Inc("kid_ancestor_local_other_ns")
		case x < 82:
			kn = g.pick(c02unknown)
			g.st.Inc("kid_unknown")
		default: // any known name anywhere (known names under unknown parents)
			kn = g.pick(g.all)
			g.st.Inc("kid_known_anywhere")
		}
		if g.safe {
			kn = c02safeName(n, kn)
		}
		t.Kids = append(t.Kids, g.tree(kn, chain, depth+1, maxDepth, false))
	}
	if g.safe && n.Local == "priority" {
		// an int8 field: keep the value inside the region of the theorems (Model.C02.int8Ok)
		t.Kids = nil
		if v := []string{"5", "-1", " 7 ", "", "127", "-128", "+3", "007"}[r.Intn(8)]; v != "" {
			t.Kids = []*c02tree{{Kind: 'T', Text: v}}
		}
	}
	return t
}

var c02conds = map[string]bool{}

func init() {
	for _, c := range strings.Fields("bad-format bad-namespace-prefix conflict connection-timeout host-gone host-unknown improper-addressing internal-server-error invalid-from invalid-id invalid-namespace invalid-xml not-authorized not-well-formed policy-violation remote-connection-failed resource-constraint restricted-xml see-other-host system-shutdown undefined-condition unexpected-request unsupported-encoding unsupported-stanza-type unsupported-version xml-not-well-formed") {
		c02conds[c] = true
	}
}

// c02safeName keeps the random forests inside the region of the theorems and of the stated assumption
// ("payloads of registered extensions are schema-valid for their Go types"): encoding/xml matches a child to a
// struct field by LOCAL name when the field tag has no namespace and then fails if the field's type demands another
// namespace (`x` -> Form in jabber:x:data, `set` -> ResultSet in …/rsm, the <failed/> conditions in xmpp-stanzas).
// Such children are only generated where no struct field can claim them; the rejected shapes that the model covers
// are generated separately (c02typedCases).
func c02safeName(parent, kid c02nm) c02nm {
	stanzaLevel := parent.Local == "message" || parent.Local == "presence" || parent.Local == "iq" || parent.Local == "error"
	switch {
	case kid.Local == "x" && kid.Space != c02NSData && !stanzaLevel,
		kid.Local == "set" && kid.Space != "http://jabber.org/protocol/rsm" && !stanzaLevel,
		parent.Local == "failed" && c02conds[kid.Local] && kid.Space != c02NSStz:
		return c02nm{"urn:u", "ext"}
	}
	return kid
}

func c02depth(t *c02tree) int {
	d := 0
	for _, k := range t.Kids {
		if x := c02depth(k); x > d {
			d = x
		}
	}
	if t.Kind == 'E' {
		return d + 1
	}
	return d
}

func c02itemOp(t *c02tree, def string) []string {
	var sb strings.Builder
	t.sexpr(&sb, def)
	return []string{"item", sb.String(), c02style(t)}
}

func c02def(variant string) string {
	if variant == "component" {
		return c02NSComp
	}
	return c02NSClient
}

func c02E(n c02nm, kids ...*c02tree) *c02tree {
	return &c02tree{Kind: 'E', Space: n.Space, Local: n.Local, Kids: kids, SelfClose: true}
}
func c02T(s string) *c02tree { return &c02tree{Kind: 'T', Text: s} }
func (t *c02tree) with(k, v string) *c02tree {
	t.Attrs = append(t.Attrs, c02attr{"", k, v})
	return t
}

func (c02) Generate(rng *rand.Rand, tier string, st *Stats) []Case {
	var cases []Case
	g := newC02gen(rng, st)
	nid := 0
	addCase := func(tag, variant string, items []*c02tree, modes ...string) {
		def := c02def(variant)
		c := Case{ID: fmt.Sprintf("%s%d", tag, nid), Variant: []string{variant}}
		nid++
		for _, t := range items {
			c.Ops = append(c.Ops, c02itemOp(t, def))
		}
		for _, m := range modes {
			c.Ops = append(c.Ops, []string{"run", m})
		}
		cases = append(cases, c)
	}
	std := func() []string {
		return []string{"whole", "byte1", "rand:" + strconv.Itoa(rng.Intn(1 << 30)), "bufio:" + strconv.Itoa(rng.Intn(1 << 30))}
	}
	after := func(variant string) *c02tree {
		return c02E(c02nm{c02def(variant), "message"}).with("id", "after")
	}
	cm, cp, ci := c02nm{c02NSClient, "message"}, c02nm{c02NSClient, "presence"}, c02nm{c02NSClient, "iq"}
	ux := c02nm{"urn:u", "x"}
	ue := c02nm{"urn:u", "ext"}

	// 1. corpus: the F-02 family (a descendant named like the element whose loop ignores unknown children, and a
	// known child name under an unknown parent), each followed by a stanza that must not be lost
	corpus := [][]*c02tree{
		{c02E(cm, c02E(ux, c02E(cm))).with("id", "m1"), after("client")},
		{c02E(cm, c02E(ux, c02E(c02nm{c02NSClient, "body"}, c02T("nested")))).with("id", "m2"), after("client")},
		{c02E(cp, c02E(ux, c02E(cp))).with("id", "p1"), after("client")},
		{c02E(cp, c02E(ux, c02E(c02nm{c02NSClient, "status"}, c02T("nested")))).with("id", "p2"), after("client")},
		{c02E(ci, c02E(c02nm{c02NSPSOwner, "pubsub"}, c02E(ux, c02E(c02nm{c02NSPSOwner, "pubsub"})))).with("id", "q1").with("type", "result"), after("client")},
		{c02E(cm, c02E(c02nm{c02NSPSEvent, "event"}, c02E(ux, c02E(c02nm{c02NSPSEvent, "event"})))).with("id", "m3"), after("client")},
		{c02E(cm, c02E(c02nm{c02NSDeleg, "delegation"}, c02E(c02nm{c02NSFwd, "forwarded"}, c02E(ux, c02E(c02nm{c02NSFwd, "forwarded"}))))).with("id", "m4"), after("client")},
		{c02E(cp, c02E(c02nm{c02NSMuc, "x"}, c02E(c02nm{c02NSMuc, "history"}, c02E(c02nm{c02NSMuc, "history"})))).with("id", "p3"), after("client")},
		{c02E(ci, c02E(c02nm{c02NSDeleg, "delegation"}, c02E(c02nm{c02NSFwd, "forwarded"}, c02E(ux, c02E(c02nm{c02NSFwd, "forwarded"}))))).with("id", "q2").with("type", "set"), after("client")},
		{c02E(ci, c02E(ci)).with("id", "q3").with("type", "get"), after("client")},
		{c02E(cm, c02E(c02nm{c02NSClient, "error"}, c02E(c02nm{c02NSClient, "error"}))).with("id", "m5").with("type", "error"), after("client")},
		{c02E(cm, c02E(c02nm{c02NSClient, "body"}, c02T("one")), c02E(c02nm{c02NSClient, "body"}, c02T("t"), c02E(ux, c02T("no")), c02T("wo"))).with("id", "m6"), after("client")},
	}
	// stream features that advertise things under a KNOWN local name in a namespace the library does not know (another
	// version of stream management, a vendor's bind): still one features packet, the next element untouched
	{
		feat := c02nm{c02NSStream, "features"}
		for _, kid := range []c02nm{{"urn:xmpp:sm:2", "sm"}, {"urn:vendor:bind", "bind"}, {"urn:vendor:sasl", "mechanisms"}, {"urn:vendor:tls", "starttls"},
			{"urn:vendor:caps", "c"}, {"urn:vendor:session", "session"}, {"urn:vendor", "push"}, {"urn:vendor", "rebind"}} {
			corpus = append(corpus, []*c02tree{c02E(feat, c02E(kid), c02E(c02nm{c02NSSM, "sm"})), after("client")})
			corpus = append(corpus, []*c02tree{c02E(feat, c02E(c02nm{"urn:ietf:params:xml:ns:xmpp-bind", "bind"}), c02E(kid, c02E(c02nm{kid.Space, "required"}))), after("client")})
		}
	}
	for _, items := range corpus {
		addCase("corpus", "client", items, "whole", "byte1", "rand:7", "ws")
	}
	st.Add("corpus", len(corpus))

	// 2. bounded-exhaustive: every dispatch-table name x every forest of <= 2 children with <= 1 grandchild each over the
	// alphabet {same name, unknown, first name the decoder knows, same local name in another namespace, error}
	full := tier == "thorough"
	for _, top := range c02top {
		alpha := []c02nm{top.n, ue, {"urn:u", top.n.Local}, {top.n.Space, "error"}}
		if p := c02pool(top.n); len(p) > 0 {
			alpha = append(alpha, p[0])
		}
		if top.n.Local == "iq" { // the payloads with hand-written loops
			alpha = append(alpha, c02nm{c02NSPSOwner, "pubsub"}, c02nm{c02NSCmd, "command"})
		}
		if top.n.Local == "message" {
			alpha = append(alpha, c02nm{c02NSPSEvent, "event"})
		}
		if top.n.Local == "presence" {
			alpha = append(alpha, c02nm{c02NSMuc, "x"})
		}
		var l1 []*c02tree
		for _, a := range alpha {
			l1 = append(l1, c02E(a))
			for _, b := range alpha {
				l1 = append(l1, c02E(a, c02E(b)))
			}
		}
		forests := [][]*c02tree{{}}
		for _, a := range l1 {
			forests = append(forests, []*c02tree{a})
		}
		for _, a := range l1 {
			for j, b := range l1 {
				if !full && len(b.Kids) > 0 {
					continue
				}
				_ = j
				forests = append(forests, []*c02tree{a, b})
			}
		}
		for _, f := range forests {
			t := c02E(top.n, f...).with("id", "e")
			addCase("ex", top.variant, []*c02tree{t, after(top.variant)}, "whole", "byte1")
			st.Inc("exhaustive_forest")
		}
	}
	st.Exhaustive = true
	st.Note("bounded-exhaustive: for each of the 17 dispatch-table names, every child forest of <= 2 children (<= 1 grandchild each; second child without grandchild in the quick tier) over an alphabet of 5-7 names {the element's own name, an unknown element, its local name in a foreign namespace, error, the first child name its decoder knows, payloads with hand-written loops}, each followed by a sentinel stanza, read whole and byte by byte")

	// 3. unknown top-level names (each alone, after a good stanza, with arbitrary content)
	for _, variant := range []string{"client", "component"} {
		for _, u := range c02unknownTop {
			t := g.tree(u, nil, 0, 2, true)
			addCase("unk", variant, []*c02tree{after(variant), t, after(variant)}, "whole", "byte1")
			st.Inc("unknown_toplevel")
		}
	}

	// 4. seeded random forests
	R := 1500
	if full {
		R = 30000
	}
	for i := 0; i < R; i++ {
		variant := "client"
		if rng.Intn(4) == 0 {
			variant = "component"
		}
		var items []*c02tree
		n := 1 + rng.Intn(5)
		maxd := 1 + rng.Intn(8)
		for j := 0; j < n; j++ {
			switch x := rng.Intn(100); {
			case x < 6:
				items = append(items, c02T([]string{" ", "\n", "junk"}[rng.Intn(3)]))
				st.Inc("top_text")
			case x < 8:
				items = append(items, &c02tree{Kind: 'M', Text: "c"})
			case x < 12:
				items = append(items, g.tree(g.pick(c02unknownTop), nil, 0, 2, true))
				st.Inc("top_unknown")
			default:
				tp := c02top[rng.Intn(len(c02top))]
				if rng.Intn(3) > 0 { // prefer the stanzas: their decoders are the hand-written ones
					tp = c02top[rng.Intn(7)]
				}
				t := g.tree(tp.n, nil, 0, maxd, true)
				items = append(items, t)
				st.Inc("top_" + tp.n.Local)
				st.Inc(fmt.Sprintf("depth_%d", c02depth(t)))
			}
		}
		if rng.Intn(6) == 0 {
			items = append(items, &c02tree{Kind: 'X'})
			st.Inc("top_streamclose")
		}
		modes := std()
		if len(cases)%12 == 0 && len(items) >= 2 {
			modes = append(modes, "ws") // every twelfth forest also through the WebSocket transport, one message per element
			st.Inc("run_ws")
		}
		addCase("rnd", variant, items, modes...)
	}

	// 5. values a typed Go field rejects (outside the theorems' region; the as-is model predicts the error)
	for _, c := range c02typedCases() {
		addCase("typed", "client", []*c02tree{c, after("client")}, "whole", "byte1")
		st.Inc("typed_value_rejected")
	}

	// 6. malformed streams: truncations at every offset and random corruptions (no model; bounded time, no panic)
	cases = append(cases, c02malformed(rng, g, full, st)...)

	// 7. byte level: the tokenizer of encoding/xml against the Lean character-level model (c02bytes.go)
	cases = append(cases, c02bytesCases(rng, g, full, st)...)
	return cases
}

// c02typedCases: well-formed elements with a value the Go field type rejects, at the positions the model covers
// (known finding F-02b): the as-is model predicts the error.
func c02typedCases() []*c02tree {
	cp := c02nm{c02NSClient, "presence"}
	ci := c02nm{c02NSClient, "iq"}
	cm := c02nm{c02NSClient, "message"}
	sm := func(l string) c02nm { return c02nm{c02NSSM, l} }
	var out []*c02tree
	for _, v := range []string{"high", " ", "128", "-129", "1.5", "0x10", "1_0", "--1", "+"} {
		out = append(out, c02E(cp, c02E(c02nm{c02NSClient, "priority"}, c02T(v))).with("id", "t"))
	}
	for _, v := range []string{"x", "-1", "18446744073709551616", " ", "+1", "1 2"} {
		out = append(out, c02E(sm("a")).with("h", v), c02E(sm("resumed")).with("h", v).with("previd", "p"),
			c02E(sm("resume")).with("h", v), c02E(sm("enabled")).with("max", v))
	}
	out = append(out,
		c02E(sm("failed"), c02E(c02nm{"urn:ietf:params:xml:ns:xmpp-streams", "conflict"})),
		c02E(sm("failed"), c02E(c02nm{"urn:u", "not-authorized"})),
		c02E(sm("failed"), c02E(c02nm{c02NSSM, "bad-format"})),
		c02E(ci, c02E(c02nm{c02NSCmd, "command"}, c02E(c02nm{"urn:u", "x"}))).with("id", "t").with("type", "result"),
		c02E(ci, c02E(c02nm{c02NSCmd, "command"}, c02E(c02nm{c02NSCmd, "x"}))).with("id", "t").with("type", "result"),
		c02E(ci, c02E(c02nm{c02NSDeleg, "delegation"}, c02E(c02nm{"urn:u", "set"}))).with("id", "t").with("type", "set"),
		c02E(cm, c02E(c02nm{c02NSDeleg, "delegation"}, c02E(c02nm{c02NSDeleg, "set"}))).with("id", "t"),
		c02E(cm, c02E(c02nm{c02NSDeleg, "delegation"}, c02E(c02nm{c02NSFwd, "forwarded"},
			c02E(cp, c02E(c02nm{c02NSClient, "priority"}, c02T("low")))))).with("id", "t"),
	)
	return out
}

func c02malformed(rng *rand.Rand, g *c02gen, full bool, st *Stats) []Case {
	var cases []Case
	nstreams, ncorrupt := 6, 400
	if full {
		nstreams, ncorrupt = 40, 6000
	}
	counts := map[string]int{}
	var bases [][]byte
	for i := 0; i < nstreams; i++ {
		variant := []string{"client", "component"}[i%2]
		hdr, def := c02header(variant)
		var sb strings.Builder
		sb.WriteString(hdr)
		for j := 0; j < 3; j++ {
			tp := c02top[rng.Intn(7)]
			if j == 2 {
				tp = c02top[rng.Intn(len(c02top))]
			}
			g.tree(tp.n, nil, 0, 4, true).render(&sb, def)
		}
		sb.WriteString("</stream:stream>")
		bases = append(bases, []byte(sb.String()))
	}
	// corpus base with the classic shapes
	bases = append(bases, []byte("<?xml version='1.0'?><stream:stream xmlns='jabber:client' xmlns:stream='http://etherx.jabber.org/streams' id='x'><message to='a' id='1'><body>hi &amp; bye</body><x xmlns='urn:u'><![CDATA[z]]></x></message><iq type='get' id='2'><query xmlns='jabber:iq:version'/></iq><stream:error><conflict xmlns='urn:ietf:params:xml:ns:xmpp-streams'/></stream:error></stream:stream>"))
	id := 0
	// outcome counts (reported in the evidence; the runs are repeated by Exec, which is what the oracle judges)
	outcome := func(data []byte, mode string, full int) {
		if dryRun {
			return
		}
		o := c02bounded(data, mode, 1<<20, 5*time.Second)
		switch {
		case o.what != "done":
			counts[o.what]++
		case o.n >= full:
			counts["ok_all_packets_then_end_of_input"]++
		case o.n == 0:
			counts["error_before_any_packet"]++
		default:
			counts["error_after_some_packets"]++
		}
		counts["runs"]++
	}
	fullCount := func(b []byte) int {
		if dryRun {
			return 0
		}
		return c02bounded(b, "whole", 1<<20, 5*time.Second).n
	}
	add := func(data []byte, mode, what string, full int) {
		c := Case{ID: fmt.Sprintf("mal%d", id), Variant: []string{"client"}, Ops: [][]string{{"mal", hx(string(data)), mode}}}
		id++
		cases = append(cases, c)
		outcome(data, mode, full)
	}
	for i, b := range bases {
		mode := []string{"whole", "byte1"}[i%2]
		cases = append(cases, Case{ID: fmt.Sprintf("trunc%d", i), Variant: []string{"client"}, Ops: [][]string{{"trunc", hx(string(b)), mode}}})
		st.Add("malformed_truncation_offsets", len(b)+1)
		full := fullCount(b)
		for off := 0; off <= len(b); off++ {
			outcome(b[:off], mode, full)
		}
	}
	junk := []byte("<>/&;'\"= \x00\xff!?-[]x:")
	for i := 0; i < ncorrupt; i++ {
		base := bases[rng.Intn(len(bases))]
		b := append([]byte{}, base...)
		k := 1 + rng.Intn(3)
		for j := 0; j < k; j++ {
			p := rng.Intn(len(b))
			switch rng.Intn(4) {
			case 0:
				b[p] = junk[rng.Intn(len(junk))]
			case 1:
				b = append(b[:p], b[p+1:]...)
			case 2:
				b = append(b[:p], append([]byte{junk[rng.Intn(len(junk))]}, b[p:]...)...)
			default:
				b[p] = byte(rng.Intn(256))
			}
		}
		mode := []string{"whole", "byte1", "rand:" + strconv.Itoa(i)}[rng.Intn(3)]
		add(b, mode, "corruption", fullCount(base))
		st.Inc("malformed_corruption")
	}
	// pure noise
	for i := 0; i < ncorrupt/4; i++ {
		b := make([]byte, rng.Intn(60))
		for j := range b {
			b[j] = junk[rng.Intn(len(junk))]
		}
		add(b, "whole", "noise", 1<<30)
		st.Inc("malformed_noise")
	}
	for k, v := range counts {
		st.Extra["malformed_"+k] = strconv.Itoa(v)
	}
	st.Note("malformed streams have no Lean model: the oracle only rejects `panic` and `timeout` (each run under recover and a 5 s wall-clock bound)")
	return cases
}
