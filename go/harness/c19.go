package main

import (
	"strings"
	"context"
	"errors"
	"fmt"
	"hash/fnv"
	"math/rand"
	"strconv"
	"time"

	xmpp "gosrc.io/xmpp"
	"gosrc.io/xmpp/stanza"
)

// C19: backoff durations (stateful sequence and per-attempt query) against min(cap, base*factor^n).
type c19 struct{}

func init() { register("C19", c19{}) }

// smClient is a StreamClient whose Resume fails a given number of times with a transient error.
type smClient struct {
	plain  bool // the failures are plain errors (a failed post-resume hook), not ConnErrors
	fails  int
	starts []time.Time
	ends   []time.Time
}

func (f *smClient) Connect() error { return nil }
func (f *smClient) Resume() error {
	f.starts = append(f.starts, time.Now())
	defer func() { f.ends = append(f.ends, time.Now()) }()
	if len(f.starts) <= f.fails {
		if f.plain {
			return errors.New("harness: the post-resume hook failed")
		}
		return xmpp.NewConnError(errors.New("harness: transient failure"), false)
	}
	return nil
}
func (f *smClient) Send(stanza.Packet) error { return nil }
func (f *smClient) SendIQ(context.Context, *stanza.IQ) (chan stanza.IQ, error) {
	return nil, errors.New("not connected")
}
func (f *smClient) SendRaw(string) error          { return nil }
func (f *smClient) Disconnect() error             { return nil }
func (f *smClient) SetHandler(xmpp.EventHandler) {}

// smBounds: min(cap, base*2^n) ms with the package defaults (checked against the Lean model by the driver).
func smBound(n int) int {
	d := 20
	for i := 0; i < n && d < 180000; i++ {
		d *= 2
	}
	if d > 180000 {
		d = 180000
	}
	return d
}

// execSupervisor runs the real retry loop of StreamManager.resume against a client that fails k times. The global
// math/rand source is seeded, the draws the loop must make (rand.Intn(bound_n)) are taken once from that seed,
// the source is seeded again and the loop runs: the n-th wait has to be the n-th draw.
func execSupervisor(c Case) []string {
	// the ops describe one or more outages: `smwait` = a failed attempt followed by a wait, `smnew` = the attempt
	// that succeeds and ends the outage (the next smwait belongs to a new outage, whose back-off starts again)
	var outages []int
	cur := 0
	for _, op := range c.Ops {
		if op[0] == "smnew" {
			outages = append(outages, cur)
			cur = 0
		} else {
			cur++
		}
	}
	outages = append(outages, cur)
	total := 0
	for _, k := range outages {
		total += k
	}
	h := fnv.New64a()
	h.Write([]byte(c.ID))
	seed := int64(h.Sum64() >> 1)
	var draws []int
	for ; ; seed++ {
		// the draws the loop must make: rand.Intn(bound_n), n restarting at 0 with every outage
		rand.Seed(seed)
		draws = draws[:0]
		sum := 0
		for _, k := range outages {
			for n := 0; n < k; n++ {
				draws = append(draws, rand.Intn(smBound(n)))
				sum += draws[len(draws)-1]
			}
		}
		// and the draws a loop whose attempt counter is NOT reset between outages would make: the seed is chosen so
		// that the two differ visibly at the first wait of the second outage
		discriminates := true
		if len(outages) > 1 && outages[1] > 0 {
			rand.Seed(seed)
			pos, n := 0, 0
			wrong := 0
			for oi, k := range outages {
				for j := 0; j < k; j++ {
					v := rand.Intn(smBound(n))
					if oi == 1 && j == 0 {
						wrong = v
					}
					n++
					pos++
				}
			}
			thr := smBound(outages[0]) / 2
			if thr > 900 {
				thr = 900
			}
			discriminates = outages[0] == 0 || wrong >= thr
		}
		last := draws[len(draws)-1]
		if len(outages) == 1 {
			last = draws[total-1]
		}
		if sum <= 1300 && discriminates && (len(outages) > 1 || total < 3 || last >= 3*smBound(0)) {
			break
		}
	}
	rand.Seed(seed)
	obs := make([]string, 0, len(c.Ops))
	di := 0
	for oi, k := range outages {
		fc := &smClient{fails: k, plain: strings.Contains(c.ID, "plain")}
		sm := xmpp.NewStreamManager(fc, nil)
		if oi > 0 {
			sm = smShared
			fc = smSharedClient
			fc.fails, fc.starts, fc.ends = k, nil, nil
		} else {
			smShared, smSharedClient = sm, fc
		}
		done := make(chan error, 1)
		go func() { done <- xmpp.VerifStreamManagerResume(sm) }()
		select {
		case <-done:
		case <-time.After(20 * time.Second):
			for len(obs) < len(c.Ops) {
				obs = append(obs, "hang")
			}
			return obs
		}
		for n := 0; n < k; n++ {
			if n+1 >= len(fc.starts) {
				obs = append(obs, "missing-attempt")
			} else {
				gap := fc.starts[n+1].Sub(fc.ends[n])
				obs = append(obs, fmt.Sprintf("%d %d %d", int64(gap), int64(draws[di])*1000000, int64(smBound(n))*1000000))
			}
			di++
		}
		if oi+1 < len(outages) {
			obs = append(obs, "ok")
		}
	}
	return obs
}

// one StreamManager (and its client) serves all the outages of a case
var smShared *xmpp.StreamManager
var smSharedClient *smClient

func (c19) Exec(c Case) []string {
	if len(c.Ops) > 0 && (c.Ops[0][0] == "smwait" || c.Ops[0][0] == "smnew") {
		return execSupervisor(c)
	}
	b, _ := strconv.Atoi(c.Variant[0])
	f, _ := strconv.Atoi(c.Variant[1])
	cp, _ := strconv.Atoi(c.Variant[2])
	nj := c.Variant[3] == "true"
	bo := xmpp.NewVerifBackoff(b, f, cp, nj)
	var obs []string
	for _, op := range c.Ops {
		switch op[0] {
		case "dur":
			obs = append(obs, strconv.FormatInt(int64(bo.Duration()), 10))
		case "durfor":
			n, _ := strconv.Atoi(op[1])
			obs = append(obs, strconv.FormatInt(int64(bo.DurationForAttempt(n)), 10))
		case "reset":
			bo.Reset()
			obs = append(obs, "0")
		default:
			obs = append(obs, "bad-op")
		}
	}
	return obs
}

func (c19) Generate(rng *rand.Rand, tier string, st *Stats) []Case {
	var cases []Case
	mk := func(id string, b, f, cp int, nj bool, ops [][]string) {
		cases = append(cases, Case{ID: id, Variant: []string{strconv.Itoa(b), strconv.Itoa(f), strconv.Itoa(cp), strconv.FormatBool(nj)}, Ops: ops})
	}
	// corpus: the witness of F-19a (durationForAttempt must not depend on the stateful counter)
	mk("corpus-f19a", 0, 0, 0, true, [][]string{{"durfor", "5"}, {"dur"}, {"dur"}, {"durfor", "0"}, {"durfor", "100000"}})
	// bounded-exhaustive: small settings x all op sequences of length <= 4 over {dur, durfor 0, durfor 3, durfor 70, reset}
	alpha := [][]string{{"dur"}, {"durfor", "0"}, {"durfor", "3"}, {"durfor", "70"}, {"reset"}}
	settings := [][3]int{{0, 0, 0}, {1, 1, 1}, {3, 3, 1000}, {20, 2, 180000}, {7, 10, 5}, {1, 2, 9223372036854}}
	n := 0
	var rec func(prefix [][]string, depth int, s [3]int, nj bool)
	rec = func(prefix [][]string, depth int, s [3]int, nj bool) {
		if depth == 0 {
			ops := make([][]string, len(prefix))
			copy(ops, prefix)
			mk(fmt.Sprintf("ex%d", n), s[0], s[1], s[2], nj, ops)
			n++
			return
		}
		for _, a := range alpha {
			rec(append(prefix, a), depth-1, s, nj)
		}
	}
	for _, s := range settings {
		for _, nj := range []bool{true, false} {
			rec(nil, 4, s, nj)
		}
	}
	st.Exhaustive = true
	st.Note(fmt.Sprintf("%d cases: 6 settings x jitter on/off x all op sequences of length 4 over 5 ops", n))
	// random: settings straddling the cap and 2^53, attempts up to 10^18, long stateful runs
	R := 400
	if tier == "thorough" {
		R = 5000
	}
	bigs := []int{0, 1, 2, 3, 10, 63, 64, 65, 100, 1000, 1 << 20, 1 << 40, 1<<62 + 12345, 1<<63 - 1}
	for i := 0; i < R; i++ {
		b := 1 + rng.Intn(1000)
		if rng.Intn(5) == 0 {
			b = 0
		}
		f := []int{0, 1, 2, 2, 3, 7, 10, 1 + rng.Intn(100)}[rng.Intn(8)]
		cp := []int{0, 1, b, 1 + rng.Intn(500000), 1 + rng.Intn(1<<40), 9223372036854, 1 + rng.Int()%9223372036854}[rng.Intn(7)]
		nj := rng.Intn(3) != 0
		var ops [][]string
		ln := 1 + rng.Intn(80)
		for j := 0; j < ln; j++ {
			switch x := rng.Intn(10); {
			case x < 6:
				ops = append(ops, []string{"dur"})
				st.Inc("op_dur")
			case x < 9:
				var a int
				if rng.Intn(2) == 0 {
					a = bigs[rng.Intn(len(bigs))]
				} else {
					a = rng.Intn(80)
				}
				ops = append(ops, []string{"durfor", strconv.Itoa(a)})
				st.Inc("op_durfor")
			default:
				ops = append(ops, []string{"reset"})
				st.Inc("op_reset")
			}
		}
		if nj {
			st.Inc("cfg_nojitter")
		} else {
			st.Inc("cfg_jitter")
		}
		mk(fmt.Sprintf("rnd%d", i), b, f, cp, nj, ops)
	}
	// the real reconnection loop of the StreamManager: k consecutive failed attempts of one loss
	ks := []int{1, 3, 6}
	if tier == "thorough" {
		ks = []int{1, 2, 3, 4, 5, 6, 7, 8, 6, 6}
	}
	for i, k := range ks {
		var ops [][]string
		for j := 0; j < k; j++ {
			ops = append(ops, []string{"smwait"})
		}
		mk(fmt.Sprintf("sm-%d-%d", i, k), 0, 0, 0, false, ops)
		st.Add("supervisor_waits", k)
	}
	// failures that are not connection errors (the session came up, the application's post-resume hook failed): one
	// wait per failed attempt, like any other transient failure
	for i, k := range []int{2, 5} {
		var ops [][]string
		for j := 0; j < k; j++ {
			ops = append(ops, []string{"smwait"})
		}
		mk(fmt.Sprintf("sm-plain-%d-%d", i, k), 0, 0, 0, false, ops)
		st.Add("supervisor_waits_plain_error", k)
	}
	// two outages on one StreamManager: the back-off of the second starts again at the base
	{
		var ops [][]string
		for j := 0; j < 7; j++ {
			ops = append(ops, []string{"smwait"})
		}
		ops = append(ops, []string{"smnew"}, []string{"smwait"}, []string{"smwait"})
		mk("sm-two-outages", 0, 0, 0, false, ops)
		st.Add("supervisor_waits", 9)
	}
	// region of the recorded finding F-19b: cap (ms) * 10^6 does not fit int64; powers of two only (exact float64)
	for i, cp := range []int{1 << 44, 1 << 50, 1 << 62} {
		mk(fmt.Sprintf("f19b-%d", i), 20, 2, cp, true, [][]string{{"durfor", "100"}, {"dur"}})
		st.Inc("cfg_overflow_region")
	}
	return cases
}
