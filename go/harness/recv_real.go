package main

import (
	"io"
	"context"
	"errors"
	"fmt"
	"math/rand"
	"net"
	"net/http"
	"runtime"
	"sort"
	"strconv"
	"strings"
	"sync"
	"time"

	xmpp "gosrc.io/xmpp"
	"gosrc.io/xmpp/stanza"
	"nhooyr.io/websocket"
)

// Receive loop over the REAL transports (variants "client-tcp" and "client-ws" of C05 / C09 / C12).
//
// client-tcp: a real XMPPTransport whose net.Conn is an in-memory connection. The history is served in random
// segments; afterwards the connection is HALF-OPEN: reads stay silent and every write fails. Only the keepalive
// (run with a short interval next to the receive loop, as Client.Connect does) can notice: its Ping fails, it calls
// transport.Close(), which has to close the connection so that the receive loop's read fails and the loss is
// reported.
// client-ws: a real WebsocketTransport against an in-process WebSocket server that sends each element as one text
// message - whole, fragmented into several frames, or two elements in one message - and then drops the connection.

// countT counts what the receive loop asks of its transport and records what it writes.
type countT struct {
	xmpp.Transport
	mu      sync.Mutex
	closes  int
	sclose  int
	writes  [][]byte
	failAt  map[int]bool
	nwrite  int
	dead    func() bool
	lateErr int
}

func (c *countT) Close() error {
	c.mu.Lock()
	c.closes++
	c.mu.Unlock()
	return c.Transport.Close()
}
func (c *countT) ReceivedStreamClose() {
	c.mu.Lock()
	c.sclose++
	c.mu.Unlock()
	c.Transport.ReceivedStreamClose()
}
func (c *countT) Write(p []byte) (int, error) {
	c.mu.Lock()
	c.nwrite++
	n := c.nwrite
	fail := c.failAt[n]
	if !fail {
		c.writes = append(c.writes, append([]byte(nil), p...))
	}
	c.mu.Unlock()
	if fail {
		return 0, errors.New("harness: write failed")
	}
	return c.Transport.Write(p)
}

// errClosedConn is what a real net.Conn returns once it has been closed locally ("use of closed network connection")
var errClosedConn error = &net.OpError{Op: "read", Net: "tcp", Err: net.ErrClosed}

// halfOpenConn serves a byte stream in random segments, then stays silent; once the reader waits for more every
// write fails (the peer is gone but no FIN/RST arrives). Close unblocks the pending read.
type halfOpenConn struct {
	mu      sync.Mutex
	data    []byte
	rng     *rand.Rand
	max     int
	closed  chan struct{}
	once    sync.Once
	pings   int
	nclosed int
	dead    bool
	eofLast bool // the connection ends instead of going silent, and the last bytes arrive TOGETHER with io.EOF
	eof     bool
}

func (h *halfOpenConn) Read(p []byte) (int, error) {
	h.mu.Lock()
	if len(h.data) > 0 {
		n := 1 + h.rng.Intn(h.max)
		if n > len(p) {
			n = len(p)
		}
		if n > len(h.data) {
			n = len(h.data)
		}
		copy(p, h.data[:n])
		h.data = h.data[n:]
		if h.eofLast && len(h.data) == 0 {
			h.eof = true
			h.mu.Unlock()
			return n, io.EOF
		}
		h.mu.Unlock()
		return n, nil
	}
	if h.eof {
		h.mu.Unlock()
		return 0, io.EOF
	}
	// the receive loop has handled everything that was sent (it only asks for more once its buffer is empty): from
	// now on the peer is gone
	h.dead = true
	h.mu.Unlock()
	<-h.closed
	return 0, errClosedConn
}
func (h *halfOpenConn) Write(p []byte) (int, error) {
	h.mu.Lock()
	defer h.mu.Unlock()
	select {
	case <-h.closed:
		return 0, errClosedConn
	default:
	}
	if string(p) == "\n" {
		h.pings++
	}
	if h.dead {
		return 0, errors.New("harness: broken pipe")
	}
	return len(p), nil
}
func (h *halfOpenConn) Close() error {
	h.mu.Lock()
	h.nclosed++
	h.mu.Unlock()
	h.once.Do(func() { close(h.closed) })
	return nil
}
func (h *halfOpenConn) LocalAddr() net.Addr                { return &net.TCPAddr{IP: net.IPv4(127, 0, 0, 1), Port: 1} }
func (h *halfOpenConn) RemoteAddr() net.Addr               { return &net.TCPAddr{IP: net.IPv4(127, 0, 0, 1), Port: 2} }
func (h *halfOpenConn) SetDeadline(t time.Time) error      { return nil }
func (h *halfOpenConn) SetReadDeadline(t time.Time) error  { return nil }
func (h *halfOpenConn) SetWriteDeadline(t time.Time) error { return nil }

func withNS(el string) string {
	// over WebSocket every message is a document of its own: the stanza has to declare its namespace
	for _, name := range []string{"<message", "<presence", "<iq"} {
		if strings.HasPrefix(el, name+" ") || strings.HasPrefix(el, name+">") {
			return name + " xmlns='jabber:client'" + el[len(name):]
		}
	}
	if strings.HasPrefix(el, "<stream:error>") {
		return "<stream:error xmlns:stream='http://etherx.jabber.org/streams'>" + el[len("<stream:error>"):]
	}
	if strings.HasPrefix(el, "<stream:features>") {
		return "<stream:features xmlns:stream='http://etherx.jabber.org/streams'>" + el[len("<stream:features>"):]
	}
	return el
}

// runReal is recvProp.run for the variants client-tcp and client-ws.
func (rp recvProp) runReal(c Case, who, smid string, n0 int, rng *rand.Rand) string {
	ws := who == "client-ws"
	var elems []string // one entry per op: the element (or the partial bytes of a cut)
	failAt := map[int]bool{}
	nreq := 0
	for _, op := range c.Ops {
		switch op[0] {
		case "in":
			pad := 0
			if rng.Intn(4) == 0 {
				pad = rng.Intn(2000)
			}
			if rng.Intn(40) == 0 {
				pad = 12000 + rng.Intn(10000)
			}
			el := recvXML(op[1], recvArg(op), false, pad)
			if ws {
				el = withNS(el)
			}
			elems = append(elems, el)
			if op[1] == "r" {
				nreq++
				if op[3] == "fail" {
					failAt[nreq] = true
				}
			}
		case "cut":
			el := unhx(op[1])
			if ws {
				el = withNS(el)
			}
			elems = append(elems, el)
		}
	}

	// answers the server may wait for: the requests before the first element that ends the loop
	wantAnswers := 0
	for _, op := range c.Ops {
		if op[0] == "cut" || (op[0] == "in" && (op[1] == "serr" || op[1] == "close")) {
			break
		}
		if op[0] == "in" && op[1] == "r" {
			wantAnswers++
		}
	}
	var mu sync.Mutex
	var routed []string
	errh := 0
	var disc []string
	serr := 0
	router := xmpp.NewRouter()
	router.NewRoute().IQNamespaces("urn:verif:never", "urn:verif:never2").HandlerFunc(func(s xmpp.Sender, p stanza.Packet) {})
	router.NewRoute().HandlerFunc(func(s xmpp.Sender, p stanza.Packet) {
		mu.Lock()
		routed = append(routed, recvKey(p))
		mu.Unlock()
	})
	eh := func(error) { mu.Lock(); errh++; mu.Unlock() }
	var client *xmpp.Client
	handlerCloses := 0
	handler := func(e xmpp.Event) error {
		mu.Lock()
		switch xmpp.VerifEventState(e) {
		case xmpp.StateDisconnected:
			disc = append(disc, hx(e.SMState.Id)+":"+strconv.Itoa(int(e.SMState.Inbound)))
		case xmpp.StateStreamError:
			serr++
			// what the handler installed by StreamManager.Run does on a stream error
			handlerCloses++
			mu.Unlock()
			client.Disconnect()
			return nil
		}
		mu.Unlock()
		return nil
	}

	base := runtime.NumGoroutine()
	var raw xmpp.Transport
	var cleanup func()
	addr := "127.0.0.1:1"
	var srvDone chan struct{}
	if ws {
		// in-process WebSocket server
		srvDone = make(chan struct{})
		mux := http.NewServeMux()
		mux.HandleFunc("/", func(w http.ResponseWriter, r *http.Request) {
			defer close(srvDone)
			conn, err := websocket.Accept(w, r, &websocket.AcceptOptions{Subprotocols: []string{"xmpp"}})
			if err != nil {
				return
			}
			ctx, cancel := context.WithTimeout(context.Background(), 10*time.Second)
			defer cancel()
			if _, _, err := conn.Read(ctx); err != nil { // the client's <open/>
				return
			}
			conn.Write(ctx, websocket.MessageText, []byte(`<open xmlns="urn:ietf:params:xml:ns:xmpp-framing" id="ws1" from="localhost" version="1.0"/>`))
			// the client's writes (<a/> answers, <close/>) are read and dropped: a reader must run for the
			// control frames (pong) to be handled
			var amu sync.Mutex
			answers := 0
			go func() {
				for {
					_, data, err := conn.Read(ctx)
					if err != nil {
						return
					}
					if strings.HasPrefix(string(data), "<a ") {
						amu.Lock()
						answers++
						amu.Unlock()
					}
				}
			}()
			for i := 0; i < len(elems); i++ {
				el := elems[i]
				switch m := rng.Intn(6); {
				case m == 0 && len(el) > 1: // fragmented into two frames
					wr, err := conn.Writer(ctx, websocket.MessageText)
					if err != nil {
						return
					}
					k := 1 + rng.Intn(len(el)-1)
					wr.Write([]byte(el[:k]))
					wr.Write([]byte(el[k:]))
					wr.Close()
				case m == 1 && len(el) > 8: // many small frames
					wr, err := conn.Writer(ctx, websocket.MessageText)
					if err != nil {
						return
					}
					for j := 0; j < len(el); j += 7 {
						e := j + 7
						if e > len(el) {
							e = len(el)
						}
						wr.Write([]byte(el[j:e]))
					}
					wr.Close()
				case m == 2 && i+1 < len(elems) && len(el)+len(elems[i+1]) < 30000: // two elements in one message
					conn.Write(ctx, websocket.MessageText, []byte(el+elems[i+1]))
					i++
				default:
					conn.Write(ctx, websocket.MessageText, []byte(el))
				}
			}
			// the connection is lost - after the client has answered what it was asked (a server that drops the
			// connection while an answer is being written is a history with a failed write, which this variant
			// cannot inject deterministically)
			for dl := time.Now().Add(1500 * time.Millisecond); time.Now().Before(dl); time.Sleep(time.Millisecond) {
				amu.Lock()
				a := answers
				amu.Unlock()
				if a >= wantAnswers {
					break
				}
			}
			conn.Close(websocket.StatusGoingAway, "")
		})
		ln, err := net.Listen("tcp", "127.0.0.1:0")
		if err != nil {
			return "listen-failed"
		}
		srv := &http.Server{Handler: mux}
		go srv.Serve(ln)
		cleanup = func() { srv.Close() }
		addr = "ws://" + ln.Addr().String() + "/"
		base = runtime.NumGoroutine()
	}
	cfg := &xmpp.Config{TransportConfiguration: xmpp.TransportConfiguration{Address: addr, Domain: "localhost"},
		Jid: "u@localhost/r", Credential: xmpp.Password("p"), StreamManagementEnable: smid != ""}
	var err error
	client, err = xmpp.NewClient(cfg, router, eh)
	if err != nil {
		return "newclient-failed"
	}
	raw = xmpp.VerifTransport(client)
	var hc *halfOpenConn
	if ws {
		if _, err := raw.Connect(); err != nil {
			cleanup()
			return "ws-connect-failed:" + strings.ReplaceAll(err.Error(), " ", "_")
		}
	} else {
		xt, ok := raw.(*xmpp.XMPPTransport)
		if !ok {
			return "not-an-xmpp-transport"
		}
		xt.Config.ConnectTimeout = 0
		var sb strings.Builder
		sb.WriteString("<?xml version='1.0'?><stream:stream xmlns='jabber:client' xmlns:stream='http://etherx.jabber.org/streams' version='1.0' id='s1'>")
		for _, el := range elems {
			sb.WriteString(el)
			if rng.Intn(3) == 0 {
				sb.WriteString("\n  ")
			}
		}
		hc = &halfOpenConn{data: []byte(sb.String()), rng: rng, max: []int{1, 7, 64, 4096, 1 << 16}[rng.Intn(5)], closed: make(chan struct{})}
		if rng.Intn(3) == 0 {
			// traffic logging on, and a connection that ends (rather than going silent) with its last bytes and io.EOF
			// in ONE read - what crypto/tls does when close_notify is already buffered behind the last record
			xt.LogTraffic(io.Discard)
			hc.eofLast = true
		}
		xmpp.VerifXMPPTransportSetConn(xt, hc)
		if _, err := stanza.InitStream(xt.GetDecoder()); err != nil {
			return "initstream-failed"
		}
		cleanup = func() {}
	}
	ct := &countT{Transport: raw, failAt: failAt}
	xmpp.VerifSetTransport(client, ct)
	client.SetHandler(handler)
	sess := &xmpp.Session{}
	if smid != "" {
		sess.SMState = xmpp.SMState{Id: smid, Inbound: uint(n0), UnAckQueue: stanza.NewUnAckQueue()}
	} else {
		sess.SMState = xmpp.SMState{Inbound: uint(n0)}
	}
	client.Session = sess

	done := make(chan bool, 1)
	kdone := make(chan struct{})
	quit := make(chan struct{})
	panicked := false
	// the keepalive runs on the transport itself (its Close is not one of the receive loop's)
	kt := &countT{Transport: raw}
	go func() {
		defer close(kdone)
		xmpp.VerifKeepalive(kt, 4*time.Millisecond, quit)
	}()
	go func() {
		defer func() {
			if r := recover(); r != nil {
				panicked = true
			}
			done <- true
		}()
		xmpp.VerifRecv(client, quit)
	}()
	hang := false
	select {
	case <-done:
	case <-time.After(8 * time.Second):
		hang = true
	}
	if !hang {
		select {
		case <-kdone:
		case <-time.After(2 * time.Second):
			hang = true
		}
	}
	if ws {
		kt.mu.Lock()
		ct.mu.Lock()
		closed := kt.closes+ct.closes > 0
		ct.mu.Unlock()
		kt.mu.Unlock()
		if !closed {
			raw.Close()
		}
		select {
		case <-srvDone:
		case <-time.After(2 * time.Second):
		}
	} else if hc != nil {
		hc.Close()
	}
	cleanup()
	deadline := time.Now().Add(2 * time.Second)
	for runtime.NumGoroutine() > base && time.Now().Before(deadline) {
		time.Sleep(200 * time.Microsecond)
	}
	// the routing goroutines are started with `go`: the goroutine count is only an approximation of "all of them ran"
	// over WebSocket (the server's and the HTTP client's goroutines of the case end too), so there also wait until the
	// list of routed packets has been stable for a while
	for stable, last := 0, -1; ws && stable < 40 && time.Now().Before(deadline.Add(2*time.Second)); {
		mu.Lock()
		n := len(routed)
		mu.Unlock()
		if n == last {
			stable++
		} else {
			stable, last = 0, n
		}
		time.Sleep(500 * time.Microsecond)
	}
	if !hang {
		awaitRouted(&mu, &routed, int(sess.SMState.Inbound)-n0)
	}
	leaked := runtime.NumGoroutine() - base
	if hang {
		hungCases++ // a blocked receive loop: the run stops after three such cases (each costs its full time limit)
		return fmt.Sprintf("hang leaked=%d", leaked)
	}
	quitClosed := false
	select {
	case <-quit:
		quitClosed = true
	default:
	}
	mu.Lock()
	defer mu.Unlock()
	sort.Strings(routed)
	var ans []string
	ct.mu.Lock()
	for _, w := range ct.writes {
		s := string(w)
		if strings.HasPrefix(s, "<a ") {
			i := strings.Index(s, `h="`)
			j := strings.Index(s[i+3:], `"`)
			ans = append(ans, s[i+3:i+3+j])
		}
	}
	closes, sclose := ct.closes-handlerCloses, ct.sclose
	ct.mu.Unlock()
	out := []string{
		"routed=" + strings.Join(routed, ","),
		"ans=" + strings.Join(ans, ","),
		"errh=" + strconv.Itoa(errh),
		"disc=" + strings.Join(disc, ","),
		"serr=" + strconv.Itoa(serr),
		"quit=" + strconv.FormatBool(quitClosed),
		"closes=" + strconv.Itoa(closes),
		"sclose=" + strconv.Itoa(sclose),
		"panic=" + strconv.FormatBool(panicked),
	}
	s := strings.Join(out, ";")
	if leaked > 0 && !ws {
		s += fmt.Sprintf(";leaked=%d", leaked)
	}
	return s
}
