package main

import (
	"bytes"
	"context"
	"crypto/ecdsa"
	"crypto/elliptic"
	crand "crypto/rand"
	"crypto/tls"
	"crypto/x509"
	"crypto/x509/pkix"
	"encoding/base64"
	"encoding/xml"
	"errors"
	"fmt"
	"io"
	"math/big"
	"math/rand"
	"net"
	"net/http"
	"os"
	"strconv"
	"strings"
	"sync"
	"sync/atomic"
	"time"

	xmpp "gosrc.io/xmpp"
	"gosrc.io/xmpp/stanza"
	"nhooyr.io/websocket"
)

// C03 / C04 / C11: the real Client.connect (TCP dial, STARTTLS with run-time minted certificates, SASL, resume or
// bind, session, enable) against a scripted in-process server, one reply class per step.
type negProp struct{ id string }

func init() {
	register("C03", negProp{"C03"})
	register("C04", negProp{"C04"})
	register("C11", negProp{"C11"})
}

// ---- certificates ----------------------------------------------------------------------------------

type negPKI struct {
	pool  *x509.CertPool
	certs map[string]tls.Certificate // valid, wronghost, untrusted, expired, both (localhost + alt.example)
}

var pkiOnce sync.Once
var pki negPKI

func mintCA(cn string) (*x509.Certificate, *ecdsa.PrivateKey) {
	key, _ := ecdsa.GenerateKey(elliptic.P256(), crand.Reader)
	tpl := &x509.Certificate{SerialNumber: big.NewInt(1), Subject: pkix.Name{CommonName: cn},
		NotBefore: time.Now().Add(-time.Hour), NotAfter: time.Now().Add(24 * time.Hour),
		IsCA: true, KeyUsage: x509.KeyUsageCertSign, BasicConstraintsValid: true}
	der, _ := x509.CreateCertificate(crand.Reader, tpl, tpl, &key.PublicKey, key)
	c, _ := x509.ParseCertificate(der)
	return c, key
}

func mintLeaf(ca *x509.Certificate, cakey *ecdsa.PrivateKey, names []string, expired bool) tls.Certificate {
	nb, na := time.Now().Add(-time.Hour), time.Now().Add(24*time.Hour)
	if expired {
		nb, na = time.Now().Add(-48*time.Hour), time.Now().Add(-24*time.Hour)
	}
	return mintLeafAt(ca, cakey, names, nb, na)
}

func mintLeafAt(ca *x509.Certificate, cakey *ecdsa.PrivateKey, names []string, nb, na time.Time) tls.Certificate {
	key, _ := ecdsa.GenerateKey(elliptic.P256(), crand.Reader)
	tpl := &x509.Certificate{SerialNumber: big.NewInt(2), Subject: pkix.Name{CommonName: names[0]},
		NotBefore: nb, NotAfter: na, DNSNames: names,
		KeyUsage: x509.KeyUsageDigitalSignature, ExtKeyUsage: []x509.ExtKeyUsage{x509.ExtKeyUsageServerAuth}}
	der, _ := x509.CreateCertificate(crand.Reader, tpl, ca, &key.PublicKey, cakey)
	return tls.Certificate{Certificate: [][]byte{der}, PrivateKey: key}
}

func getPKI() *negPKI {
	pkiOnce.Do(func() {
		ca, cakey := mintCA("verif test CA")
		other, otherkey := mintCA("some other CA")
		pki.pool = x509.NewCertPool()
		pki.pool.AddCert(ca)
		pki.certs = map[string]tls.Certificate{
			"valid":     mintLeaf(ca, cakey, []string{"localhost"}, false),
			"wronghost": mintLeaf(ca, cakey, []string{"other.example"}, false),
			"untrusted": mintLeaf(other, otherkey, []string{"localhost"}, false),
			"expired":   mintLeaf(ca, cakey, []string{"localhost"}, true),
			// validity periods that end, or begin, a few minutes away from now: expired is expired, not yet valid is
			// not yet valid, whatever the margin
			"justexpired": mintLeafAt(ca, cakey, []string{"localhost"}, time.Now().Add(-48*time.Hour), time.Now().Add(-3*time.Minute)),
			"notyet":      mintLeafAt(ca, cakey, []string{"localhost"}, time.Now().Add(3*time.Minute), time.Now().Add(48*time.Hour)),
			"both":        mintLeaf(ca, cakey, []string{"localhost", "alt.example"}, false),
			"altonly":     mintLeaf(ca, cakey, []string{"alt.example"}, false),
		}
	})
	return &pki
}

// certificate class -> model parameters (ca, unexp, names)
func certParams(class string) (ca, unexp bool, names []string) {
	switch class {
	case "valid":
		return true, true, []string{"localhost"}
	case "wronghost":
		return true, true, []string{"other.example"}
	case "untrusted":
		return false, true, []string{"localhost"}
	case "expired", "justexpired", "notyet":
		return true, false, []string{"localhost"}
	case "both":
		return true, true, []string{"localhost", "alt.example"}
	case "altonly":
		return true, true, []string{"alt.example"}
	}
	return false, false, nil
}

// ---- scripted server -------------------------------------------------------------------------------

const (
	nsTLS  = "urn:ietf:params:xml:ns:xmpp-tls"
	nsSASL = "urn:ietf:params:xml:ns:xmpp-sasl"
	nsBind = "urn:ietf:params:xml:ns:xmpp-bind"
	nsSess = "urn:ietf:params:xml:ns:xmpp-session"
	nsSM   = "urn:xmpp:sm:3"
)

type negServer struct {
	m       map[string]string
	mu      sync.Mutex
	seen    []string
	variant int
	pings   int // white-space keepalives received INSIDE the TLS session
	// after is called (if set) after the reply to a client element was written; conn is the current (possibly TLS) connection
	after func(kind string, conn net.Conn)
}

// xmlAttrEscape: a server-chosen id may contain anything attribute-legal
func xmlAttrEscape(s string) string {
	var b strings.Builder
	xml.EscapeText(&b, []byte(s))
	return b.String()
}

func (sv *negServer) rec(kind string, secure bool) {
	sv.mu.Lock()
	b := "0"
	if secure {
		b = "1"
	}
	sv.seen = append(sv.seen, kind+":"+b)
	sv.mu.Unlock()
}

func featuresXML(f string) string {
	if len(f) != 4 {
		return "<notfeatures xmlns='no:such:ns'/>"
	}
	var sb strings.Builder
	sb.WriteString("<stream:features>")
	if f[0] == '1' {
		sb.WriteString("<starttls xmlns='" + nsTLS + "'><required/></starttls>")
	}
	if f[1] == '1' {
		sb.WriteString("<mechanisms xmlns='" + nsSASL + "'><mechanism>SCRAM-SHA-1</mechanism><mechanism>X-OAUTH2</mechanism><mechanism>PLAIN</mechanism></mechanisms>")
	} else {
		sb.WriteString("<mechanisms xmlns='" + nsSASL + "'><mechanism>SCRAM-SHA-1</mechanism></mechanisms>")
	}
	sb.WriteString("<bind xmlns='" + nsBind + "'/>")
	if f[3] == '1' {
		sb.WriteString("<session xmlns='" + nsSess + "'/>")
	} else {
		sb.WriteString("<session xmlns='" + nsSess + "'><optional/></session>")
	}
	if f[2] == '1' {
		sb.WriteString("<sm xmlns='" + nsSM + "'/>")
	}
	sb.WriteString("</stream:features>")
	return sb.String()
}

const negHeader = "<?xml version='1.0'?><stream:stream xmlns='jabber:client' xmlns:stream='http://etherx.jabber.org/streams' id='srv-stream-1' version='1.0' from='localhost'>"

// sniffConn records what arrives on the raw socket once the TLS handshake is over: a client that goes on in clear
// text after a successful handshake (its TLS layer by-passed) is answered in clear text, as an attacker in the
// middle would, so that what it then sends is seen.
type sniffConn struct {
	net.Conn
	mu     sync.Mutex
	record bool
	plain  bool
	post   []byte
}

func (s *sniffConn) Read(p []byte) (int, error) {
	n, err := s.Conn.Read(p)
	s.mu.Lock()
	defer s.mu.Unlock()
	if s.record {
		if s.plain {
			return 0, errors.New("clear text after the TLS handshake")
		}
		// TLS records never contain this in the clear: the client is talking in clear text from here on. The TLS
		// layer only gets what came before (it must not answer with an alert, which would garble the clear text)
		if i := bytes.Index(p[:n], []byte("<?xml")); i >= 0 {
			s.post = append([]byte(nil), p[i:n]...)
			s.plain = true
			if i == 0 {
				return 0, errors.New("clear text after the TLS handshake")
			}
			return i, nil
		}
	}
	return n, err
}

type prefixConn struct {
	net.Conn
	r io.Reader
}

func (p *prefixConn) Read(b []byte) (int, error) { return p.r.Read(b) }

func (sv *negServer) serve(conn net.Conn) {
	defer conn.Close()
	m := sv.m
	raw := &sniffConn{Conn: conn}
	conn = raw
	dec := xml.NewDecoder(conn)
	secure, tlsDone, authDone := false, false, false
	w := func(s string) { conn.Write([]byte(s)) }
	undecodable := func() { w("<unknown xmlns='no:such:ns'/>") }
	lastKind := ""
	for {
		if sv.after != nil && lastKind != "" {
			sv.after(lastKind, conn)
		}
		lastKind = ""
		tok, err := dec.Token()
		if err != nil {
			raw.mu.Lock()
			post := append([]byte(nil), raw.post...)
			raw.record = false
			raw.mu.Unlock()
			if secure && len(post) > 0 {
				// clear text after the handshake: go on in clear text
				conn = &prefixConn{Conn: raw, r: io.MultiReader(bytes.NewReader(post), raw)}
				dec = xml.NewDecoder(conn)
				w = func(s string) { conn.Write([]byte(s)) }
				secure = false
				continue
			}
			return
		}
		se, ok := tok.(xml.StartElement)
		if !ok {
			if cd, ok := tok.(xml.CharData); ok && secure && bytes.Contains(cd, []byte("\n")) {
				sv.mu.Lock()
				sv.pings += bytes.Count(cd, []byte("\n"))
				sv.mu.Unlock()
			}
			if ee, ok := tok.(xml.EndElement); ok && ee.Name.Local == "stream" {
				if m["mute"] == "true" {
					// a peer that does not answer the closing tag and keeps the connection open: whatever the client
					// still writes on it is seen
					continue
				}
				w("</stream:stream>")
				return
			}
			continue
		}
		lastKind = se.Name.Local
		switch se.Name.Local {
		case "stream":
			sv.rec("open", secure)
			hdrOK, feat := true, ""
			switch {
			case authDone:
				hdrOK, feat = m["o3"] == "true", m["f3"]
			case tlsDone:
				hdrOK, feat = m["o2"] == "true", m["f2"]
			default:
				hdrOK, feat = m["conn"] == "ok", m["f1"]
			}
			if !hdrOK {
				w("<?xml version='1.0'?><foo xmlns='no:such:ns'>")
				continue
			}
			w(negHeader)
			w(featuresXML(feat))
			if m["mute"] == "true" && !secure && !tlsDone && len(feat) > 0 && feat[0] == '0' {
				// a peer that offers no STARTTLS and goes on talking: a request and a message right behind the features.
				// Whatever the client makes of them, no answer may travel over the connection it has to refuse.
				w("<iq type='get' id='probe' from='localhost' to='test@localhost/res'><ping xmlns='urn:xmpp:ping'/></iq>" +
					"<message from='a@localhost/x' to='test@localhost/res' id='probe-m' type='chat'><body>probe</body></message>")
			}
		case "starttls":
			dec.Skip()
			sv.rec("starttls", secure)
			switch m["tls"] {
			case "proceed":
				w("<proceed xmlns='" + nsTLS + "'/>")
				if m["hs"] == "alert" {
					// an attacker in the middle: the handshake is broken off with a fatal alert, and the peer goes on
					// talking XMPP in clear text on the raw connection. A client that took the failed upgrade for a
					// success would now authenticate in the clear.
					buf := make([]byte, 4096)
					conn.SetReadDeadline(time.Now().Add(2 * time.Second))
					if n, _ := conn.Read(buf); n == 0 {
						return
					}
					conn.SetReadDeadline(time.Time{})
					conn.Write([]byte{0x15, 0x03, 0x03, 0x00, 0x02, 0x02, 0x28}) // alert: fatal, handshake_failure
					// whatever the client's TLS layer still writes (its own alert) is skipped: the next thing of interest
					// is an XML declaration or a stream header in clear text
					var acc []byte
					conn.SetReadDeadline(time.Now().Add(2 * time.Second))
					for {
						n, err := conn.Read(buf)
						acc = append(acc, buf[:n]...)
						if i := bytes.Index(acc, []byte("<?xml")); i >= 0 {
							acc = acc[i:]
							break
						}
						if i := bytes.Index(acc, []byte("<stream:stream")); i >= 0 {
							acc = acc[i:]
							break
						}
						if err != nil || len(acc) > 1<<16 {
							return
						}
					}
					conn.SetReadDeadline(time.Time{})
					conn = &prefixConn{Conn: conn, r: io.MultiReader(bytes.NewReader(acc), conn)}
					w = func(s string) { conn.Write([]byte(s)) }
					dec = xml.NewDecoder(conn)
					tlsDone = true // the script goes on as if TLS were up (f2 / o2 for the restarted stream)
					continue
				}
				if m["hs"] != "true" {
					return // the server drops the connection instead of handshaking
				}
				raw.mu.Lock()
				raw.record = true
				raw.mu.Unlock()
				tc := tls.Server(conn, &tls.Config{Certificates: []tls.Certificate{getPKI().certs[m["cert"]]}})
				if err := tc.Handshake(); err != nil {
					return
				}
				conn = tc
				dec = xml.NewDecoder(conn)
				w = func(s string) { conn.Write([]byte(s)) }
				secure, tlsDone = true, true
			case "failure":
				w("<failure xmlns='" + nsTLS + "'/>")
			case "other":
				w("<message xmlns='jabber:client'/>")
			default:
				return
			}
		case "auth":
			// the credentials must arrive exactly: base64(NUL user NUL secret) as the element's text, mechanism PLAIN
			var au struct {
				Mechanism string `xml:"mechanism,attr"`
				Value     string `xml:",chardata"`
			}
			if err := dec.DecodeElement(&au, &se); err != nil {
				return
			}
			// (a bearer token travels under X-OAUTH2 with the same payload shape: NUL local part NUL token)
			if (au.Mechanism == "PLAIN" || au.Mechanism == "X-OAUTH2" && sv.m["cred"] == "token") && au.Value == base64.StdEncoding.EncodeToString([]byte("\x00test\x00secret")) {
				sv.rec("auth", secure)
			} else {
				sv.rec("auth-payload-mismatch", secure)
			}
			switch m["auth"] {
			case "success":
				w("<success xmlns='" + nsSASL + "'/>")
				authDone = true
			case "failure":
				w("<failure xmlns='" + nsSASL + "'><not-authorized/></failure>")
			case "other":
				w("<message xmlns='jabber:client' id='x'/>")
			case "undecL":
				// malformed XML of the kind a lenient parser repairs (a child that is never closed); the server goes on
				// answering as if it had sent <success/>
				w("<success xmlns='" + nsSASL + "'><br></success>")
				authDone = true
			default:
				if sv.variant%2 == 0 {
					undecodable()
				} else {
					return
				}
			}
		case "resume":
			// both attributes have to be PRESENT (h='0' is not the same as no h): an absent one is recorded as such
			previd, h := "", "absent"
			hasPrev := false
			for _, a := range se.Attr {
				if a.Name.Local == "previd" {
					previd, hasPrev = a.Value, true
				}
				if a.Name.Local == "h" {
					h = a.Value
				}
			}
			if !hasPrev {
				h = "noprevid-" + h
			}
			dec.Skip()
			sv.rec("resume/"+hx(previd)+"/"+h, secure)
			switch m["res"] {
			case "same":
				// h: how many of the client's stanzas the server has handled (script key resh, default 0)
				rh := m["resh"]
				if rh == "" {
					rh = "0"
				}
				w("<resumed xmlns='" + nsSM + "' previd='" + xmlAttrEscape(previd) + "' h='" + rh + "'/>")
			case "otherid":
				w("<resumed xmlns='" + nsSM + "' previd='not-" + xmlAttrEscape(previd) + "' h='0'/>")
			case "noprev":
				// a confirmation that names no session (no previd at all, or an empty one): it does not confirm the
				// session the client asked for
				if sv.variant%2 == 0 {
					w("<resumed xmlns='" + nsSM + "' h='0'/>")
				} else {
					w("<resumed xmlns='" + nsSM + "' previd='' h='0'/>")
				}
			case "failed":
				// a refusal with the usual condition (not one the decoder knows), without any, with one it knows
				switch sv.variant % 3 {
				case 0:
					w("<failed xmlns='" + nsSM + "'><item-not-found xmlns='urn:ietf:params:xml:ns:xmpp-stanzas'/></failed>")
				case 1:
					w("<failed xmlns='" + nsSM + "'/>")
				default:
					w("<failed xmlns='" + nsSM + "'><unexpected-request xmlns='urn:ietf:params:xml:ns:xmpp-stanzas'/></failed>")
				}
			case "other":
				w("<message xmlns='jabber:client'/>")
			case "undecL":
				// an attribute value without quotes (a lenient parser accepts it)
				w("<resumed xmlns='" + nsSM + "' previd=" + previd + " h='0'/>")
			default:
				if sv.variant%2 == 0 {
					undecodable()
				} else {
					return
				}
			}
		case "iq":
			var iq struct {
				ID   string    `xml:"id,attr"`
				Bind *struct{} `xml:"urn:ietf:params:xml:ns:xmpp-bind bind"`
				Sess *struct{} `xml:"urn:ietf:params:xml:ns:xmpp-session session"`
			}
			if dec.DecodeElement(&iq, &se) != nil {
				return
			}
			if iq.Bind != nil {
				lastKind = "bind"
				sv.rec("bind", secure)
				jid := unhx(m["jid"])
				switch m["bind"] {
				case "result":
					w("<iq type='result' id='" + iq.ID + "'><bind xmlns='" + nsBind + "'><jid>" + jid + "</jid></bind></iq>")
				case "error":
					// an error IQ that echoes the request payload
					w("<iq type='error' id='" + iq.ID + "'><bind xmlns='" + nsBind + "'/><error type='cancel'><conflict xmlns='urn:ietf:params:xml:ns:xmpp-stanzas'/></error></iq>")
				case "nobind":
					w("<iq type='result' id='" + iq.ID + "'/>")
				case "noniq":
					if sv.variant%2 == 0 {
						w("<message xmlns='jabber:client'><bind xmlns='" + nsBind + "'><jid>" + jid + "</jid></bind></message>")
					} else {
						w("<message xmlns='jabber:client'/>")
					}
				case "undecL":
					// the <jid> element is never closed / an HTML entity: a lenient parser would read a bind result
					if sv.variant%2 == 0 {
						w("<iq type='result' id='" + iq.ID + "'><bind xmlns='" + nsBind + "'><jid>" + jid + "</bind></iq>")
					} else {
						w("<iq type='result' id='" + iq.ID + "'><bind xmlns='" + nsBind + "'><jid>" + jid + "</jid>&nbsp;</bind></iq>")
					}
				default:
					w("<iq type='result'><bind")
					return
				}
			} else if iq.Sess != nil {
				sv.rec("session", secure)
				switch m["sess"] {
				case "result":
					w("<iq type='result' id='" + iq.ID + "'/>")
				case "error":
					// a refusal is a refusal, whatever its type and condition
					switch sv.variant % 3 {
					case 0:
						w("<iq type='error' id='" + iq.ID + "'><error type='wait'><internal-server-error xmlns='urn:ietf:params:xml:ns:xmpp-stanzas'/></error></iq>")
					case 1:
						w("<iq type='error' id='" + iq.ID + "'><session xmlns='urn:ietf:params:xml:ns:xmpp-session'/><error type='cancel'><not-allowed xmlns='urn:ietf:params:xml:ns:xmpp-stanzas'/></error></iq>")
					default:
						w("<iq type='error' id='" + iq.ID + "'><error type='cancel'><feature-not-implemented xmlns='urn:ietf:params:xml:ns:xmpp-stanzas'/></error></iq>")
					}
				case "noniq":
					w("<message xmlns='jabber:client' type='result'/>")
				case "undecL":
					w("<iq type=result id='" + iq.ID + "'/>")
				default:
					w("<iq type='result'")
					return
				}
			} else {
				sv.rec("iq-other", secure)
			}
		case "enable":
			dec.Skip()
			sv.rec("enable", secure)
			id := xmlAttrEscape(unhx(m["smid"]))
			switch m["en"] {
			case "enabled1":
				w("<enabled xmlns='" + nsSM + "' id='" + id + "' resume='true'/>")
			case "enabled1b":
				// the other lexical form of an XML boolean
				w("<enabled xmlns='" + nsSM + "' id='" + id + "' resume='1'/>")
			case "enabled0":
				if sv.variant%2 == 0 {
					w("<enabled xmlns='" + nsSM + "' id='" + id + "' resume='false'/>")
				} else {
					w("<enabled xmlns='" + nsSM + "' id='" + id + "'/>")
				}
			case "failed":
				if sv.variant%2 == 0 {
					w("<failed xmlns='" + nsSM + "'><unexpected-request xmlns='urn:ietf:params:xml:ns:xmpp-stanzas'/></failed>")
				} else {
					w("<failed xmlns='" + nsSM + "'/>")
				}
			case "other":
				w("<message xmlns='jabber:client'/>")
			case "undecL":
				w("<enabled xmlns='" + nsSM + "' id='" + id + "' resume=true/>")
			default:
				if sv.variant%2 == 0 {
					undecodable()
				} else {
					return
				}
			}
		default:
			id := ""
			for _, a := range se.Attr {
				if a.Name.Local == "id" {
					id = a.Value
				}
			}
			dec.Skip()
			sv.rec("other-"+se.Name.Local+"#"+id, secure)
		}
	}
}

// ---- executor --------------------------------------------------------------------------------------

func opMap(fields []string) map[string]string {
	m := map[string]string{}
	for _, f := range fields {
		if i := strings.Index(f, "="); i > 0 {
			m[f[:i]] = f[i+1:]
		}
	}
	return m
}

// wsConn: Client.connect over a plain ws:// WebSocket transport against an in-process server that answers every step
// it is asked for (open, features with PLAIN, success, open, features, bind result) and records what it receives.
func wsConn(insecure bool, scheme string) string {
	var mu sync.Mutex
	var seen []string
	rec := func(k string) { mu.Lock(); seen = append(seen, k+":0"); mu.Unlock() }
	mux := http.NewServeMux()
	done := make(chan struct{})
	mux.HandleFunc("/", func(w http.ResponseWriter, r *http.Request) {
		defer close(done)
		conn, err := websocket.Accept(w, r, &websocket.AcceptOptions{Subprotocols: []string{"xmpp"}})
		if err != nil {
			return
		}
		defer conn.Close(websocket.StatusNormalClosure, "")
		ctx, cancel := context.WithTimeout(context.Background(), 8*time.Second)
		defer cancel()
		authDone := false
		for {
			_, data, err := conn.Read(ctx)
			if err != nil {
				return
			}
			s := string(data)
			wr := func(x string) { conn.Write(ctx, websocket.MessageText, []byte(x)) }
			switch {
			case strings.HasPrefix(s, "<open"):
				rec("open")
				wr(`<open xmlns="urn:ietf:params:xml:ns:xmpp-framing" id="ws1" from="localhost" version="1.0"/>`)
				if !authDone {
					wr("<stream:features xmlns:stream='http://etherx.jabber.org/streams'><mechanisms xmlns='urn:ietf:params:xml:ns:xmpp-sasl'><mechanism>PLAIN</mechanism></mechanisms></stream:features>")
				} else {
					wr("<stream:features xmlns:stream='http://etherx.jabber.org/streams'><bind xmlns='urn:ietf:params:xml:ns:xmpp-bind'/></stream:features>")
				}
			case strings.HasPrefix(s, "<auth"):
				rec("auth")
				authDone = true
				wr("<success xmlns='urn:ietf:params:xml:ns:xmpp-sasl'/>")
			case strings.HasPrefix(s, "<iq"):
				rec("bind")
				id := "x"
				if i := strings.Index(s, `id="`); i >= 0 {
					id = s[i+4 : i+4+strings.Index(s[i+4:], `"`)]
				}
				wr("<iq xmlns='jabber:client' type='result' id='" + id + "'><bind xmlns='urn:ietf:params:xml:ns:xmpp-bind'><jid>test@localhost/res</jid></bind></iq>")
			case strings.HasPrefix(s, "<close"):
				return
			}
		}
	})
	ln, err := net.Listen("tcp", "127.0.0.1:0")
	if err != nil {
		return "listen-failed"
	}
	srv := &http.Server{Handler: mux}
	go srv.Serve(ln)
	defer srv.Close()
	cfg := &xmpp.Config{
		TransportConfiguration: xmpp.TransportConfiguration{Address: scheme + "://" + ln.Addr().String() + "/", Domain: "localhost"},
		Jid:                    "test@localhost/res", Credential: xmpp.Password("secret"), Insecure: insecure, ConnectTimeout: 2,
	}
	client, err := xmpp.NewClient(cfg, xmpp.NewRouter(), func(error) {})
	if err != nil {
		return "newclient:" + err.Error()
	}
	res := make(chan error, 1)
	go func() {
		defer func() {
			if r := recover(); r != nil {
				res <- fmt.Errorf("panic: %v", r)
			}
		}()
		res <- xmpp.VerifClientConnect(client)
	}()
	out := "hang"
	select {
	case e := <-res:
		switch {
		case e == nil:
			out = "established"
		case strings.HasPrefix(e.Error(), "panic:"):
			out = "panic"
		default:
			out = "failed:" + strconv.FormatBool(xmpp.VerifIsPermanent(e))
		}
	case <-time.After(10 * time.Second):
	}
	if out == "established" {
		xmpp.VerifTransport(client).Close()
	}
	select {
	case <-done:
	case <-time.After(2 * time.Second):
	}
	mu.Lock()
	defer mu.Unlock()
	return "out=" + out + " w=" + strings.Join(seen, ",")
}

// tlsKeepalive: a client negotiates STARTTLS with a verified certificate, then the real keepalive runs on its
// transport for a while: the white space has to arrive INSIDE the TLS session (a keepalive written to the raw socket
// is clear text under an encrypted stream: the server's TLS layer rejects it and drops the healthy session).
func tlsKeepalive(intervalMs, ticks int) string {
	ln, err := net.Listen("tcp", "127.0.0.1:0")
	if err != nil {
		return "listen-failed"
	}
	defer ln.Close()
	sv := &negServer{m: happy(true, false, false)}
	srvDone := make(chan struct{})
	go func() {
		defer close(srvDone)
		c, err := ln.Accept()
		if err != nil {
			return
		}
		sv.serve(c)
	}()
	cfg := &xmpp.Config{
		TransportConfiguration: xmpp.TransportConfiguration{Address: ln.Addr().String(), Domain: "localhost"},
		Jid:                    "test@localhost/res", Credential: xmpp.Password("secret"),
	}
	client, err := xmpp.NewClient(cfg, xmpp.NewRouter(), func(error) {})
	if err != nil {
		return "newclient-failed"
	}
	xt := xmpp.NewClientTransport(xmpp.TransportConfiguration{Address: ln.Addr().String(), Domain: "localhost",
		TLSConfig: &tls.Config{RootCAs: getPKI().pool}}).(*xmpp.XMPPTransport)
	xmpp.VerifSetTransport(client, xt)
	if err := xmpp.VerifClientConnect(client); err != nil {
		return "connect-failed"
	}
	quit := make(chan struct{})
	kdone := make(chan struct{})
	go func() {
		defer close(kdone)
		xmpp.VerifKeepalive(xt, time.Duration(intervalMs)*time.Millisecond, quit)
	}()
	time.Sleep(time.Duration(intervalMs*ticks+intervalMs/2) * time.Millisecond)
	srvAlive := true
	select {
	case <-srvDone:
		srvAlive = false // the server gave the stream up while the session was supposed to be healthy
	default:
	}
	close(quit)
	select {
	case <-kdone:
	case <-time.After(2 * time.Second):
	}
	xt.Close()
	select {
	case <-srvDone:
	case <-time.After(2 * time.Second):
	}
	sv.mu.Lock()
	defer sv.mu.Unlock()
	return fmt.Sprintf("tlspings=%d srvalive=%v secure=%v ticks=%d", sv.pings, srvAlive, xt.IsSecure(), ticks)
}

func (np negProp) Exec(c Case) []string {
	v := opMap(c.Variant)
	cfg := &xmpp.Config{
		TransportConfiguration: xmpp.TransportConfiguration{Address: "127.0.0.1:1", Domain: "localhost"},
		Jid:                    "test@localhost/res",
		Credential:             xmpp.Password("secret"),
		Insecure:               v["insecure"] == "true",
		StreamManagementEnable: v["sm"] == "true",
	}
	xmpp.VerifSetSMResume(cfg, true)
	// the application's TLS settings are part of the configuration NewClient sees (those of the first connection of
	// the case; per connection they are set on the transport)
	for _, op := range c.Ops {
		if op[0] == "conn" {
			m := opMap(op[1:])
			tc := &tls.Config{InsecureSkipVerify: m["skip"] == "true", ServerName: unhx(m["sn"])}
			if m["roots"] == "true" {
				tc.RootCAs = getPKI().pool
			}
			cfg.TLSConfig = tc
			break
		}
	}
	if v["logger"] == "true" {
		if lf, err := os.OpenFile(os.DevNull, os.O_WRONLY, 0); err == nil {
			cfg.StreamLogger = lf // traffic logging on: the stream logger wraps the connection
			defer lf.Close()
		}
	}
	if v["cred"] == "token" {
		cfg.Credential = xmpp.OAuthToken("secret") // a bearer token instead of a password: X-OAUTH2, same payload shape
	}
	if v["cfgreuse"] == "true" {
		// the application re-uses a configuration value that already went through NewClient for ANOTHER account of the
		// same server (a struct copy with Jid and credential replaced): the new client is the new account's
		decoy := *cfg
		decoy.Jid = "decoy@localhost/other"
		decoy.Credential = xmpp.Password("decoy-secret")
		if _, err := xmpp.NewClient(&decoy, xmpp.NewRouter(), func(error) {}); err != nil {
			return []string{"newclient-decoy:" + err.Error()}
		}
		c2 := decoy
		c2.Jid = cfg.Jid
		c2.Credential = cfg.Credential
		cfg = &c2
	}
	client, err := xmpp.NewClient(cfg, xmpp.NewRouter(), func(error) {})
	if err != nil {
		return []string{"newclient:" + err.Error()}
	}
	// a transport with ConnectTimeout 0: Close() does not wait for the peer's </stream:stream>
	xt := xmpp.NewClientTransport(xmpp.TransportConfiguration{Address: "127.0.0.1:1", Domain: "localhost"}).(*xmpp.XMPPTransport)
	xmpp.VerifSetTransport(client, xt)
	if cfg.StreamLogger != nil {
		xt.LogTraffic(cfg.StreamLogger)
	}
	var obs []string
	apiDom := ""
	for i, op := range c.Ops {
		switch op[0] {
		case "wsconn":
			scheme := "ws"
			if len(op) > 1 {
				scheme = op[1]
			}
			obs = append(obs, wsConn(cfg.Insecure, scheme))
		case "hold", "heldcheck":
			// hold n k: the application has sent n stanzas on the stream-managed session, the server has acknowledged
			// k of them: n-k stay held. heldcheck: what the session holds now (a confirmed resumption keeps it).
			r := "noqueue"
			if client.Session != nil && client.Session.SMState.UnAckQueue != nil {
				q := client.Session.SMState.UnAckQueue
				if op[0] == "hold" {
					n, _ := strconv.Atoi(op[1])
					k, _ := strconv.Atoi(op[2])
					for j := 0; j < n; j++ {
						q.Push(&stanza.UnAckedStz{Stz: fmt.Sprintf("<message id='held%d'/>", j)})
					}
					q.PopN(k)
				}
				r = "held:" + c17slice(q)
			}
			obs = append(obs, r)
		case "setinbound":
			// stanzas received meanwhile: counted by the REAL receive loop on the kept session (fed through a stub
			// transport), so that the count the next <resume/> presents is the one the loop keeps; only a value
			// below the current one is set directly
			n, _ := strconv.Atoi(op[1])
			if client.Session != nil {
				cur := int(client.Session.SMState.Inbound)
				if n >= cur {
					var sb strings.Builder
					sb.WriteString("<?xml version='1.0'?><stream:stream xmlns='jabber:client' xmlns:stream='http://etherx.jabber.org/streams' version='1.0' id='s'>")
					for k := cur; k < n; k++ {
						fmt.Fprintf(&sb, "<message id='in%d' type='chat'><body>x</body></message>", k)
					}
					st := newStub(strings.NewReader(sb.String()))
					if _, err := stanza.InitStream(st.GetDecoder()); err == nil {
						xmpp.VerifSetTransport(client, st)
						quit := make(chan struct{})
						done := make(chan struct{})
						go func() {
							defer close(done)
							defer func() { recover() }()
							xmpp.VerifRecv(client, quit)
						}()
						select {
						case <-done:
						case <-time.After(5 * time.Second):
						}
						xmpp.VerifSetTransport(client, xt)
					}
				} else {
					client.Session.SMState.Inbound = uint(n)
				}
			}
			obs = append(obs, "ok")
		case "pubapi":
			obs = append(obs, negPubAPI())
		case "apiconn":
			if apiDom == "" {
				apiDom = fmt.Sprintf("api%d.example", atomic.AddInt64(&apiCases, 1))
			}
			obs = append(obs, np.oneConn(nil, cfg, nil, opMap(op[1:]), i+len(c.ID), apiDom))
		case "conn":
			hsh := 0
			for _, ch := range c.ID {
				hsh = hsh*31 + int(ch)
			}
			mm := opMap(op[1:])
			if v["cred"] == "token" {
				mm["cred"] = "token"
			}
			obs = append(obs, np.oneConn(client, cfg, xt, mm, i+hsh))
		default:
			obs = append(obs, "bad-op")
		}
	}
	return obs
}

var apiCases int64

// negPubAPI drives the PUBLIC entry points - Client.Connect for the first connection, Client.Resume for the next ones,
// as a StreamManager does - against scripted streams and counts the session-established announcements: exactly one per
// call that returns nil, none for a call that returns an error.
func negPubAPI() string {
	hdr := "<?xml version='1.0'?><stream:stream xmlns='jabber:client' xmlns:stream='http://etherx.jabber.org/streams' version='1.0' id='s'>"
	feat1 := "<stream:features><mechanisms xmlns='urn:ietf:params:xml:ns:xmpp-sasl'><mechanism>PLAIN</mechanism></mechanisms></stream:features>"
	succ := "<success xmlns='urn:ietf:params:xml:ns:xmpp-sasl'/>"
	feat2 := "<stream:features><bind xmlns='urn:ietf:params:xml:ns:xmpp-bind'/><sm xmlns='urn:xmpp:sm:3'/></stream:features>"
	bind := "<iq type='result' id='x'><bind xmlns='urn:ietf:params:xml:ns:xmpp-bind'><jid>u@localhost/r</jid></bind></iq>"
	enabled := "<enabled xmlns='urn:xmpp:sm:3' id='sm-pub' resume='true'/>"
	resumed := "<resumed xmlns='urn:xmpp:sm:3' previd='sm-pub' h='0'/>"
	mkStub := func(script string) *stubTransport {
		st := newStub(strings.NewReader(script))
		st.onConnect = func() (string, error) { return stanza.InitStream(st.GetDecoder()) }
		return st
	}
	cfg := &xmpp.Config{Jid: "u@localhost/r", Credential: xmpp.Password("p"), Insecure: true, StreamManagementEnable: true,
		KeepaliveInterval: time.Hour}
	xmpp.VerifSetSMResume(cfg, true)
	client, err := newStubClient(cfg, xmpp.NewRouter(), nil, mkStub(hdr+feat1+succ+feat2+bind+enabled))
	if err != nil {
		return "newclient-failed"
	}
	var mu sync.Mutex
	est := 0
	client.SetHandler(func(e xmpp.Event) error {
		if xmpp.VerifEventState(e) == xmpp.StateSessionEstablished {
			mu.Lock()
			est++
			mu.Unlock()
		}
		return nil
	})
	call := func(f func() error) string {
		mu.Lock()
		before := est
		mu.Unlock()
		errc := make(chan error, 1)
		go func() {
			defer func() {
				if r := recover(); r != nil {
					errc <- fmt.Errorf("panic: %v", r)
				}
			}()
			errc <- f()
		}()
		var e error
		select {
		case e = <-errc:
		case <-time.After(10 * time.Second):
			return "hang"
		}
		time.Sleep(5 * time.Millisecond)
		mu.Lock()
		defer mu.Unlock()
		r := "ok"
		if e != nil {
			r = "err"
			if os.Getenv("VERIF_DEBUG") != "" {
				fmt.Fprintln(os.Stderr, "pubapi:", e)
			}
		}
		return fmt.Sprintf("%s:%d", r, est-before)
	}
	out := "connect=" + call(client.Connect)
	time.Sleep(10 * time.Millisecond) // the receiver of that session meets the end of the scripted stream
	// a real client keeps ONE transport object over its connections; here each scripted stream is a stub of its own,
	// installed in the client and in the session the client keeps
	swap := func(script string) {
		st := mkStub(script)
		xmpp.VerifSetTransport(client, st)
		if client.Session != nil {
			xmpp.VerifSessionTransport(client.Session, st)
		}
	}
	swap(hdr + feat1 + succ + feat2 + resumed)
	out += " resume=" + call(client.Resume)
	time.Sleep(10 * time.Millisecond)
	swap(hdr + feat1 + "<failure xmlns='urn:ietf:params:xml:ns:xmpp-sasl'><not-authorized/></failure>")
	out += " resumefail=" + call(client.Resume)
	swap(hdr + feat1 + succ + feat2 + resumed)
	out += " resume2=" + call(client.Resume)
	return out
}

func (np negProp) oneConn(client *xmpp.Client, cfg *xmpp.Config, xt *xmpp.XMPPTransport, m map[string]string, variant int, apiDom ...string) string {
	ln, err := net.Listen("tcp", "127.0.0.1:0")
	if err != nil {
		return "listen-failed"
	}
	addr := ln.Addr().String()
	if variant < 0 {
		variant = -variant
	}
	sv := &negServer{m: m, variant: variant}
	var srvConn net.Conn
	var connMu sync.Mutex
	srvDone := make(chan struct{})
	if m["conn"] == "dial" {
		ln.Close() // nothing listens: the dial fails
		close(srvDone)
	} else {
		go func() {
			defer close(srvDone)
			c, err := ln.Accept()
			if err != nil {
				return
			}
			connMu.Lock()
			srvConn = c
			connMu.Unlock()
			sv.serve(c)
		}()
	}
	// client-side TLS settings for this connection
	tc := &tls.Config{}
	if m["roots"] == "true" {
		tc.RootCAs = getPKI().pool
	} else {
		tc.RootCAs = x509.NewCertPool() // an empty pool: nothing is trusted
	}
	tc.InsecureSkipVerify = m["skip"] == "true"
	tc.ServerName = unhx(m["sn"])
	if xt != nil {
		xt.Config.TLSConfig = tc
		xt.Config.Address = addr
	} else {
		// through the API only: a NEW client made by NewClient from a configuration that carries the address and the
		// TLS settings, connecting over the transport NewClient built for it (nothing is poked into the transport)
		c2 := *cfg
		c2.Address, c2.TLSConfig, c2.ConnectTimeout = addr, tc, 1
		if len(apiDom) == 1 {
			// a domain no other case of this process uses
			c2.Domain, c2.Jid = apiDom[0], "test@"+apiDom[0]+"/res"
		}
		nc, err := xmpp.NewClient(&c2, xmpp.NewRouter(), func(error) {})
		if err != nil {
			ln.Close()
			return "newclient-failed"
		}
		client, cfg = nc, &c2
	}

	type res struct{ err error }
	done := make(chan res, 1)
	go func() {
		defer func() {
			if r := recover(); r != nil {
				done <- res{fmt.Errorf("panic: %v", r)}
			}
		}()
		if m["via"] == "resume" {
			// through the public entry point: Client.Resume (connect, post-resume hook, keepalive and receiver)
			done <- res{client.Resume()}
			return
		}
		done <- res{xmpp.VerifClientConnect(client)}
	}()
	var out string
	select {
	case r := <-done:
		switch {
		case r.err == nil:
			out = "established"
		case strings.HasPrefix(r.err.Error(), "panic:"):
			out = "panic"
		default:
			var ce xmpp.ConnError
			if errors.As(r.err, &ce) {
				out = "failed:" + strconv.FormatBool(ce.Permanent)
			} else {
				out = "failed:false"
			}
		}
	case <-time.After(10 * time.Second):
		out = "hang"
	}
	if strings.HasPrefix(out, "failed") && m["mute"] == "true" {
		// the application goes on using the client although Connect returned an error: whatever it sends must not
		// reach the peer over the connection the negotiation refused
		func() {
			defer func() { recover() }()
			client.SendRaw("<message xmlns='jabber:client' id='after-fail'><body>secret</body></message>")
		}()
		time.Sleep(30 * time.Millisecond)
	}
	ln.Close()
	connMu.Lock()
	if srvConn != nil {
		srvConn.Close()
	}
	connMu.Unlock()
	select {
	case <-srvDone:
	case <-time.After(time.Second):
	}
	sv.mu.Lock()
	seen := append([]string(nil), sv.seen...)
	sv.mu.Unlock()
	if os.Getenv("NEGDEBUG") != "" {
		fmt.Fprintln(os.Stderr, "NEGDEBUG", out, seen)
	}
	// the first "open" of a connection whose stream header failed is still a client write
	hasBind := false
	var ws []string
	for _, s := range seen {
		if strings.HasPrefix(s, "other-message#after-fail") {
			ws = append(ws, "afterfail"+s[strings.LastIndex(s, ":"):])
			continue
		}
		if m["mute"] == "true" && out != "established" && (strings.HasPrefix(s, "iq-other") || strings.HasPrefix(s, "other-iq#") || strings.HasPrefix(s, "other-message#probe")) {
			// an answer to what the peer sent behind its features
			ws = append(ws, "afterfail-reply"+s[strings.LastIndex(s, ":"):])
			continue
		}
		if strings.HasPrefix(s, "other-") || strings.HasPrefix(s, "iq-other") {
			continue
		}
		if strings.HasPrefix(s, "bind:") {
			hasBind = true
		}
		ws = append(ws, s)
	}
	sess := "false,-,0,-," + strconv.FormatBool(cfg.StreamManagementEnable)
	if s := client.Session; s != nil {
		sess = "true," + hx(s.SMState.Id) + "," + strconv.Itoa(int(s.SMState.Inbound)) + "," + hx(s.BindJid) + "," + strconv.FormatBool(cfg.StreamManagementEnable)
	}
	secure := xmpp.VerifTransport(client).IsSecure()
	if out != "established" {
		// after a failed connect the transport was closed; the model reports the flag reached during the attempt
		secure = secure && true
	}
	resumed := out == "established" && !hasBind
	return "out=" + out + " w=" + strings.Join(ws, ",") + " sess=" + sess + " secure=" + strconv.FormatBool(secure) + " resumed=" + strconv.FormatBool(resumed)
}

// ---- generator -------------------------------------------------------------------------------------

type negScript map[string]string

func happy(tlsOffered, sessMand, sm bool) negScript {
	f := func(tls bool) string {
		b := func(x bool) string {
			if x {
				return "1"
			}
			return "0"
		}
		return b(tls) + "1" + b(sm) + b(sessMand)
	}
	return negScript{"conn": "ok", "f1": f(tlsOffered), "tls": "proceed", "hs": "true", "cert": "valid", "roots": "true",
		"skip": "false", "sn": "-", "dom": hx("localhost"), "o2": "true", "f2": f(false), "auth": "success", "o3": "true", "f3": f(false),
		"res": "same", "bind": "result", "sess": "result", "en": "enabled1", "smid": hx("sm-A"), "jid": hx("test@localhost/res")}
}

func (s negScript) with(kv ...string) negScript {
	n := negScript{}
	for k, v := range s {
		n[k] = v
	}
	for i := 0; i+1 < len(kv); i += 2 {
		n[kv[i]] = kv[i+1]
	}
	return n
}

func (s negScript) op() []string {
	ca, unexp, names := certParams(s["cert"])
	var hn []string
	for _, n := range names {
		hn = append(hn, hx(n))
	}
	keys := []string{"conn", "f1", "tls", "hs", "cert", "roots", "skip", "sn", "dom", "o2", "f2", "auth", "o3", "f3", "res", "bind", "sess", "en", "smid", "jid", "mute", "resh"}
	out := []string{"conn"}
	for _, k := range keys {
		out = append(out, k+"="+s[k])
	}
	out = append(out, "ca="+strconv.FormatBool(ca), "unexp="+strconv.FormatBool(unexp), "names="+strings.Join(hn, "+"))
	return out
}

var negAlt = map[string][]string{
	"conn": {"dial", "header"},
	"f1":   {"none"},
	"tls":  {"failure", "other", "closed"},
	"hs":   {"false", "alert"},
	"cert": {"wronghost", "untrusted", "expired", "justexpired", "notyet"},
	"o2":   {"false"},
	"f2":   {"none", "0011"},
	"auth": {"failure", "other", "undec", "undecL"},
	"o3":   {"false"},
	"f3":   {"none"},
	"res":  {"otherid", "noprev", "failed", "other", "undec", "undecL"},
	"bind": {"error", "nobind", "noniq", "undec", "undecL"},
	"sess": {"error", "noniq", "undec", "undecL"},
	"en":   {"enabled0", "failed", "other", "undec", "undecL"},
}
var negSteps = []string{"conn", "f1", "tls", "hs", "cert", "o2", "f2", "auth", "o3", "f3", "res", "bind", "sess", "en"}

func (np negProp) Generate(rng *rand.Rand, tier string, st *Stats) []Case {
	var cases []Case
	n := 0
	logger := false
	mk := func(insecure, sm bool, ops ...[]string) {
		v := []string{"insecure=" + strconv.FormatBool(insecure), "sm=" + strconv.FormatBool(sm)}
		if logger {
			v = append(v, "logger=true")
		}
		cases = append(cases, Case{ID: fmt.Sprintf("%s-%d", np.id, n), Variant: v, Ops: ops})
		n++
	}
	bools := []bool{false, true}
	// corpus: F-03 (error IQ echoing <bind/>, any element as session reply), F-04 (second connection without TLS)
	mk(true, false, happy(false, true, false).with("bind", "error").op())
	mk(true, false, happy(false, true, false).with("sess", "noniq").op())
	mk(false, true, happy(true, false, true).op(), happy(false, false, true).op())
	mk(true, true, happy(true, false, true).op(), happy(false, false, true).op())

	// single deviations from every happy path, for every configuration; with resumable state: a first connection
	// that enables stream management, then the connection under test
	for _, insecure := range bools {
		for _, sm := range bools {
			for _, tlsOff := range bools {
				for _, mand := range bools {
					for _, smAdv := range bools {
						h := happy(tlsOff, mand, smAdv)
						for _, resumable := range bools {
							if resumable && !(sm && smAdv) {
								continue
							}
							var pre [][]string
							if resumable {
								pre = [][]string{happy(tlsOff, mand, true).with("smid", hx("sm-PREV")).op(), {"setinbound", "5"}}
							}
							mk(insecure, sm, append(append([][]string{}, pre...), h.with("smid", hx("sm-NEW")).op())...)
							for _, step := range negSteps {
								for _, alt := range negAlt[step] {
									mk(insecure, sm, append(append([][]string{}, pre...), h.with(step, alt, "smid", hx("sm-NEW")).op())...)
									st.Inc("deviation_" + step)
									if step == "res" && resumable {
										// what the NEXT connection presents after this reply to <resume/> (a stale id must
										// never be presented again); the refusal in all its three spellings
										for k := 0; k < 3; k++ {
											mk(insecure, sm, append(append([][]string{}, pre...), h.with(step, alt, "smid", hx("sm-NEW")).op(),
												happy(tlsOff, mand, true).with("smid", hx("sm-THIRD")).op())...)
											st.Inc("third_connection_after_resume_reply")
										}
									}
								}
							}
						}
					}
				}
			}
		}
	}
	st.Exhaustive = true
	st.Note("every single-step deviation (all reply classes of all 14 script fields) from every happy path: insecure x sm-requested x starttls-offered x session-mandatory x sm-advertised x resumable-state")

	// the same gate on the WebSocket transport (plain ws://: no STARTTLS, never secure)
	if np.id == "C04" || np.id == "C03" {
		for _, insecure := range bools {
			for _, sm := range bools {
				mk(insecure, sm, []string{"wsconn"})
				st.Inc("websocket_gate")
				// the scheme test is case-sensitive (C20): another spelling is not a WebSocket address at all - and is
				// certainly not a SECURE one
				if !sm {
					mk(insecure, sm, []string{"wsconn", []string{"WS", "Ws"}[map[bool]int{false: 0, true: 1}[insecure]]})
				}
			}
		}
	}

	// held stanzas across a reconnection: n sent, k acknowledged before the loss; the server confirms the resumption and
	// states how many it has handled (k: nothing more is acknowledged by the resumption) - the n-k others stay held, with
	// their numbers; after a refusal the new session holds nothing of the old one (C10's check looks at that)
	if np.id == "C11" {
		for _, nk := range [][2]int{{3, 2}, {4, 0}, {5, 5}, {1, 0}, {6, 3}} {
			mk(true, true, happy(false, false, true).op(), []string{"hold", strconv.Itoa(nk[0]), strconv.Itoa(nk[1])},
				happy(false, false, true).with("resh", strconv.Itoa(nk[1])).op(), []string{"heldcheck"},
				happy(false, false, true).with("resh", strconv.Itoa(nk[1])).op(), []string{"heldcheck"})
			st.Inc("held_stanzas_across_resumption")
		}
		mk(true, true, happy(false, false, true).op(), []string{"hold", "3", "1"}, happy(false, false, true).with("res", "failed", "smid", hx("sm-n")).op(), []string{"heldcheck"})
	}

	// a stream-management id with markup characters in it: what the client presents on the next connection is that
	// id, properly escaped
	for _, id := range []string{"sm&1'<x>\"y", "a b\tc", "é<![CDATA[", " sm-lead", "sm-trail ", "\tsm-both \n"} {
		mk(true, true, happy(false, false, true).with("smid", hx(id)).op(), []string{"setinbound", "2"},
			happy(false, false, true).with("smid", hx("sm-next")).op())
		st.Inc("sm_id_with_markup")
	}

	// traffic logging on (the stream logger sits between the transport and the socket, also after STARTTLS)
	logger = true
	for _, insecure := range bools {
		for _, sm := range bools {
			mk(insecure, sm, happy(true, false, sm).op(), happy(false, false, sm).op())
			mk(insecure, sm, happy(true, true, sm).with("cert", "altonly", "sn", hx("alt.example")).op())
			st.Inc("stream_logger_on")
		}
	}
	logger = false

	// a peer that refuses (or cannot prove) TLS, does not answer the closing tag and keeps the connection open: the
	// application's later sends must not travel over it - on the first failed attempt and on the next one of the same
	// client; through the hook transport (no wait for the closing tag) and through NewClient alone (ConnectTimeout 1 s)
	if np.id == "C04" {
		noTLS := happy(false, false, false).with("mute", "true")
		wrongHost := happy(true, false, false).with("cert", "wronghost", "mute", "true")
		api := func(s negScript) []string { o := s.op(); o[0] = "apiconn"; return o }
		mk(false, false, noTLS.op(), noTLS.op(), wrongHost.op())
		mk(false, false, api(noTLS), api(wrongHost))
		mk(false, false, happy(true, false, false).op(), noTLS.op(), noTLS.op())
		st.Add("send_after_refused_negotiation", 8)
	}
	// the public entry points announce the established session exactly when they succeed
	if np.id == "C03" {
		mk(true, true, []string{"pubapi"})
		st.Inc("public_entry_points")
	}
	// two clients of one domain in one process, made by NewClient alone: the first with certificate verification
	// switched off by its application, the second strict - and in the other order; the server's certificate comes from
	// an unknown issuer. What the first client was allowed must not rub off on the second.
	if np.id == "C04" || np.id == "C03" {
		api := func(s negScript) []string { o := s.op(); o[0] = "apiconn"; return o }
		lenient := happy(true, false, false).with("roots", "false", "skip", "true", "cert", "untrusted")
		strict := happy(true, false, false).with("roots", "false", "skip", "false", "cert", "untrusted")
		mk(false, false, api(lenient), api(strict), api(strict), api(lenient))
		mk(false, false, api(strict), api(lenient), api(strict))
		st.Add("api_only_clients", 7)
	}

	// certificate verification disabled does NOT mean that running without TLS is allowed: STARTTLS not offered,
	// refused, or broken off, with InsecureSkipVerify set
	if np.id != "C11" {
		for _, insecure := range bools {
			for _, sn := range []string{"-", hx("alt.example")} {
				mk(insecure, false, happy(false, false, false).with("skip", "true", "sn", sn).op())
				mk(insecure, false, happy(true, false, false).with("skip", "true", "sn", sn, "tls", "failure").op())
				mk(insecure, false, happy(true, false, false).with("skip", "true", "sn", sn, "hs", "false").op())
				st.Inc("skip_verify_without_tls")
			}
		}
	}

	// TLS matrix (C04): client settings x certificate classes x STARTTLS behaviour
	if np.id != "C11" {
		for _, insecure := range bools {
			for _, roots := range []string{"true", "false"} {
				for _, skip := range []string{"true", "false"} {
					for _, sn := range []string{"-", hx("localhost"), hx("alt.example")} {
						for _, cert := range []string{"valid", "wronghost", "untrusted", "expired", "both", "altonly", "justexpired", "notyet"} {
							mk(insecure, false, happy(true, false, false).with("roots", roots, "skip", skip, "sn", sn, "cert", cert).op())
							st.Inc("tls_matrix")
						}
					}
				}
			}
		}
	}

	// random scripts over the full product, histories of up to 4 connections
	R := 150
	if tier == "thorough" {
		R = 3000
	}
	pick := func(k string, succ string) string {
		if rng.Intn(4) == 0 {
			a := negAlt[k]
			return a[rng.Intn(len(a))]
		}
		return succ
	}
	for i := 0; i < R; i++ {
		nconn := 1 + rng.Intn(4)
		var ops [][]string
		for j := 0; j < nconn; j++ {
			h := happy(rng.Intn(2) == 0, rng.Intn(2) == 0, rng.Intn(3) != 0)
			s := h
			for _, k := range negSteps {
				s = s.with(k, pick(k, h[k]))
			}
			s = s.with("smid", hx(fmt.Sprintf("sm-%d-%d", i, j)), "skip", []string{"false", "false", "true"}[rng.Intn(3)])
			if rng.Intn(6) == 0 {
				s = s.with("smid", "-")
			}
			ops = append(ops, s.op())
			if rng.Intn(2) == 0 {
				ops = append(ops, []string{"setinbound", strconv.Itoa(rng.Intn(50))})
			}
		}
		mk(rng.Intn(2) == 0, rng.Intn(3) != 0, ops...)
		st.Add("random_connections", nconn)
	}
	return cases
}

var _ = stanza.NSClient
