// go2lean: a translator from a small, purely sequential subset of Go to Lean 4 definitions.
//
// Unlike the fact extractors in the other files (which read off the SHAPE of a function), this file translates the
// BODY of selected functions into Lean terms over the hand-written run-time library lean/XmppVerif/GoRT.lean. The
// result (Gen/Tr*.lean) is regenerated from /repo's working tree on every run; Tie/Tr*.lean proves, for ALL inputs,
// that each translated function equals the hand-written model the property theorems are about. A change of the Go
// code changes the Lean definition and the proof is re-checked against what the code says now.
//
// The subset (anything else makes the function "untranslatable": a sentinel is emitted and the tie fails):
//
//	types       string -> List Char (code points), int/intN -> Int, bool -> Bool, rune -> Char, error -> Bool (is an
//	            error), []T -> List T, *T and T for a struct T declared in the package -> a Lean structure with the
//	            translatable fields and an extra flag isNil, func types, interfaces named in trIfaceAs
//	statements  := and = (also to fields of a struct variable), x++ / x--, op=, var x T, if / else, switch on a tag
//	            without fallthrough, return, `for i := a; i < b; i++` whose body does not assign i, `for .. range` over a
//	            slice or string, expression statements that are calls without effect on translated state are rejected
//	expressions literals, arithmetic, comparisons, && || !, len, append, new, composite literals of translated structs
//	            and of slices, indexing, slicing, field selection, calls of translated functions / methods and of the
//	            library functions GoRT defines (strings.*, strconv.Itoa, unicode.IsSpace, fmt.Errorf / errors.New as
//	            "an error"), function literals, `v, ok := x.(*T)` for an interface in trIfaceAs
//
// Control flow is made functional by continuation duplication: `if c {A}; rest` becomes
// `if c then [A; rest] else [rest]`; a statement list that ends in `return e` becomes `e`. Loops become folds
// (GoRT.forRange / GoRT.forEach) over the tuple of variables the body assigns, with an early-exit alternative for
// `return` inside the body. Assignments become shadowing `let`s. A pointer receiver whose fields are assigned is
// returned as an additional last component of the result. Panics (nil dereference, index out of range) are NOT
// modelled: indexing outside a list yields the default value; the correspondence check covers those.
package main

import (
	"fmt"
	"go/ast"
	"go/importer"
	"go/token"
	"go/types"
	"os"
	"sort"
	"strconv"
	"strings"
)

// trIfaceAs: interfaces represented by the one struct type that implements them in the library.
var trIfaceAs = map[string]string{"Queueable": "UnAckedStz"}

type trFn struct {
	recv, name string // Go receiver type name ("" for a plain function) and function name
}

// trDispatch: entries of the translation list whose receiver is an interface represented as a sum: the definition
// dispatches on the alternative.
var trDispatch = map[string]bool{"Matcher.Match": true}

func (f trFn) key() string {
	if f.recv == "" {
		return f.name
	}
	return f.recv + "." + f.name
}
func (f trFn) lean() string {
	if f.recv == "" {
		return leanIdent(f.name)
	}
	return f.recv + "_" + f.name
}

// trIfaceSum: interfaces represented by a sum of the struct types that implement them in the translated code.
// An alternative is the name of a type of the interface's package, with a leading * when the dynamic type is the pointer.
// open: the sum has one more alternative `other` for every dynamic type that is not listed.
type trSum struct {
	alts []string
	open bool
}

var trIfaceSum = map[string]trSum{
	"Transport": {[]string{"*WebsocketTransport", "*XMPPTransport"}, false},
	"Packet":    {[]string{"Message", "*IQ", "Presence"}, true},
	"Matcher":   {[]string{"nameMatcher", "nsTypeMatcher", "nsIQMatcher"}, false},
}

// trIfaceRecord: interfaces represented by the record of the results of their (pure, parameterless) methods.
var trIfaceRecord = map[string][]string{"IQPayload": {"Namespace"}}

// trExtern: functions the translation does not enter. A call becomes a call of a PARAMETER of the translated function
// (named ext_<name>) with the translatable arguments only; the tie theorems hold for every such parameter.
var trExtern = map[string]bool{"authPlain": true}

type trCtx struct {
	needRnd     map[string]bool        // key -> calls rand.Intn, directly or through a translated callee
	needExt     map[string][]string    // key -> extern functions called, directly or through a translated callee
	sumDefs     map[string][][2]string // lean sum name -> (constructor, payload type)
	sumOpen     map[string]bool
	sumGo       map[string]string      // lean sum name -> Go interface name
	records     map[string][][2]string // lean record name -> (method, result type)
	seenSum     map[string]bool
	p           *pkg
	info        *types.Info
	tpkg        *types.Package
	funcs       map[string]trFn  // key -> fn (translated in this file, callable)
	mutRecv     map[string]bool  // key -> receiver is assigned
	mutParams   map[string][]int // key -> indices of the pointer parameters whose fields are assigned (directly or by a callee)
	globals     map[string]bool
	globalDecls []string
	structs     []string // struct names in emission order
	stTypes     map[string]*types.Struct
	inProgress  map[string]bool
	seenSt      map[string]bool
	cur         *trFnState
}

type trFnState struct {
	fd       *ast.FuncDecl
	recv     string // receiver variable name ("" if none)
	mut      bool
	results  *types.Tuple
	scope    map[string]int // variable -> block depth of declaration
	depth    int
	fuel     int
	loop     int             // > 0 inside a loop body: `return e` is `Step.ret e`
	loopVars [][]string      // the assigned-variable tuples of the enclosing loops
	inSwitch int             // > 0 inside a switch nested in the innermost loop (break would leave the switch)
	shadowed map[string]int  // variable -> depth of a := that shadows an outer variable
	mutVars  []string        // receiver and pointer parameters that are assigned: returned after the results
	named    []string        // named results
	dropped  map[string]bool // parameters of types outside the subset: not translated, any use fails
	key      string
	tmp      int
}

type trErr struct{ msg string }

func (e trErr) Error() string { return e.msg }

func (t *trCtx) fail(n ast.Node, f string, a ...interface{}) {
	pos := ""
	if n != nil {
		pos = t.p.fset.Position(n.Pos()).String() + ": "
	}
	panic(trErr{pos + fmt.Sprintf(f, a...)})
}

type trImporter struct {
	src   types.Importer
	local map[string]*types.Package
}

func (i trImporter) Import(path string) (*types.Package, error) {
	if p, ok := i.local[path]; ok {
		return p, nil
	}
	if strings.Contains(path, ".") { // module packages: not needed by the translated functions
		return types.NewPackage(path, path[strings.LastIndex(path, "/")+1:]), nil
	}
	p, err := i.src.Import(path)
	if err != nil {
		return types.NewPackage(path, path[strings.LastIndex(path, "/")+1:]), nil
	}
	return p, nil
}

var trSrcImporter types.Importer

func typecheck(p *pkg, name string, local map[string]*types.Package) (*types.Info, *types.Package) {
	if trSrcImporter == nil {
		trSrcImporter = importer.ForCompiler(token.NewFileSet(), "source", nil)
	}
	info := &types.Info{Types: map[ast.Expr]types.TypeAndValue{}, Defs: map[*ast.Ident]types.Object{}, Uses: map[*ast.Ident]types.Object{},
		Selections: map[*ast.SelectorExpr]*types.Selection{}, Implicits: map[ast.Node]types.Object{}}
	conf := types.Config{Importer: trImporter{trSrcImporter, local}, Error: func(error) {}}
	tp, _ := conf.Check(name, p.fset, p.files, info)
	return info, tp
}

var leanKeywords = map[string]bool{"end": true, "from": true, "to": true, "at": true, "open": true, "fun": true, "then": true, "match": true,
	"with": true, "do": true, "if": true, "else": true, "let": true, "have": true, "show": true, "in": true, "by": true, "def": true, "theorem": true,
	"instance": true, "structure": true, "where": true, "namespace": true, "section": true, "import": true, "Type": true, "Prop": true, "Sort": true,
	"default": true, "id": true}

func leanIdent(s string) string {
	if leanKeywords[s] {
		return "«" + s + "»"
	}
	if s == "_" {
		return "_"
	}
	return s
}

func leanChar(r rune) string {
	switch r {
	case '\'':
		return `'\''`
	case '\\':
		return `'\\'`
	case '\n':
		return `'\n'`
	case '\t':
		return `'\t'`
	case '\r':
		return `'\r'`
	}
	if r < 0x20 || r == 0x7f || r > 0x7e {
		return fmt.Sprintf("(Char.ofNat 0x%x)", r)
	}
	return "'" + string(r) + "'"
}

func leanCharList(s string) string {
	var parts []string
	for _, r := range s {
		parts = append(parts, leanChar(r))
	}
	return "([" + strings.Join(parts, ", ") + "] : List Char)"
}

// ---------------------------------------------------------------------------------------------------------------
// types

func (t *trCtx) typ(n ast.Node, ty types.Type) string {
	switch u := ty.(type) {
	case *types.Basic:
		if u.Name() == "rune" || u.Kind() == types.UntypedRune {
			return "Char"
		}
		switch {
		case u.Kind() == types.String || u.Kind() == types.UntypedString:
			return "List Char"
		case u.Info()&types.IsInteger != 0:
			return "Int"
		case u.Kind() == types.Bool || u.Kind() == types.UntypedBool:
			return "Bool"
		case u.Kind() == types.Float64 || u.Kind() == types.UntypedFloat:
			return "GoRT.F64"
		}
	case *types.Pointer:
		return t.typ(n, u.Elem())
	case *types.Named:
		name := u.Obj().Name()
		if name == "error" {
			return "GoRT.Err"
		}
		foreign := u.Obj().Pkg() != nil && u.Obj().Pkg() != t.tpkg
		if foreign && u.Obj().Pkg().Path() == "time" && name == "Duration" {
			return "Int"
		}
		isStanza := foreign && (u.Obj().Pkg().Path() == "stanza" || strings.HasSuffix(u.Obj().Pkg().Path(), "/stanza"))
		if foreign && !isStanza {
			t.fail(n, "type %s.%s is outside the subset", u.Obj().Pkg().Path(), name)
		}
		ln := name
		if isStanza {
			ln = "stanza_" + name
		}
		switch under := u.Underlying().(type) {
		case *types.Struct:
			if t.inProgress[ln] {
				t.fail(n, "recursive structure %s is outside the subset", ln)
			}
			t.needStructT(ln, u)
			return ln
		case *types.Interface:
			if as, ok := trIfaceAs[name]; ok && !foreign {
				t.needStruct(as)
				return as
			}
			if ms, ok := trIfaceRecord[name]; ok {
				if !t.seenSum[ln] {
					t.seenSum[ln] = true
					var fs [][2]string
					for _, m := range ms {
						for i := 0; i < under.NumMethods(); i++ {
							if under.Method(i).Name() == m {
								sig := under.Method(i).Type().(*types.Signature)
								fs = append(fs, [2]string{m, t.tuple(n, sig.Results())})
							}
						}
					}
					t.records[ln] = fs
					t.structs = append(t.structs, "record:"+ln)
				}
				return ln
			}
			if sum, ok := trIfaceSum[name]; ok {
				if !t.seenSum[ln] {
					t.seenSum[ln] = true
					var cs [][2]string
					for _, a := range sum.alts {
						obj := u.Obj().Pkg().Scope().Lookup(strings.TrimPrefix(a, "*"))
						if obj == nil {
							t.fail(n, "alternative %s of %s not found", a, name)
						}
						cs = append(cs, [2]string{strings.TrimPrefix(a, "*"), t.typ(n, obj.Type())})
					}
					t.sumDefs[ln], t.sumOpen[ln], t.sumGo[ln] = cs, sum.open, name
					t.structs = append(t.structs, "sum:"+ln)
				}
				return ln
			}
			t.fail(n, "interface %s is outside the subset", name)
		}
		return t.typ(n, u.Underlying())
	case *types.Slice:
		return "List " + paren(t.typ(n, u.Elem()))
	case *types.Signature:
		var ps []string
		for i := 0; i < u.Params().Len(); i++ {
			ps = append(ps, paren(t.typ(n, u.Params().At(i).Type())))
		}
		return strings.Join(append(ps, t.tuple(n, u.Results())), " → ")
	case *types.Tuple:
		return t.tuple(n, u)
	}
	t.fail(n, "type %s is outside the subset", ty)
	return ""
}

func (t *trCtx) tuple(n ast.Node, u *types.Tuple) string {
	if u == nil || u.Len() == 0 {
		return "Unit"
	}
	var rs []string
	for i := 0; i < u.Len(); i++ {
		rs = append(rs, paren(t.typ(n, u.At(i).Type())))
	}
	return strings.Join(rs, " × ")
}

func paren(s string) string {
	if strings.ContainsAny(s, " ") && !strings.HasPrefix(s, "(") {
		return "(" + s + ")"
	}
	return s
}

func (t *trCtx) needStruct(name string) {
	obj := t.tpkg.Scope().Lookup(name)
	if obj == nil {
		t.fail(nil, "struct %s not found", name)
	}
	t.needStructT(name, obj.Type())
}

func (t *trCtx) needStructT(name string, ty types.Type) {
	if t.seenSt[name] {
		return
	}
	t.seenSt[name] = true
	// fields first, so that the structures they mention are emitted before this one
	st, ok := ty.Underlying().(*types.Struct)
	if !ok {
		t.fail(nil, "%s is not a struct", name)
	}
	t.stTypes[name] = st
	t.inProgress[name] = true
	defer delete(t.inProgress, name)
	for i := 0; i < st.NumFields(); i++ {
		func() {
			defer func() { recover() }()
			t.typ(nil, st.Field(i).Type())
		}()
	}
	t.structs = append(t.structs, name)
}

func (t *trCtx) structDecl(name string) string {
	st := t.stTypes[name]
	t.inProgress[name] = true
	defer delete(t.inProgress, name)
	var sb strings.Builder
	var skipped []string
	fmt.Fprintf(&sb, "structure %s where\n  isNil : Bool := false\n", name)
	for i := 0; i < st.NumFields(); i++ {
		f := st.Field(i)
		ty := ""
		func() {
			defer func() {
				if r := recover(); r != nil {
					skipped = append(skipped, f.Name())
				}
			}()
			ty = t.typ(nil, f.Type())
		}()
		if ty != "" {
			fmt.Fprintf(&sb, "  %s : %s := default\n", leanIdent(f.Name()), ty)
		}
	}
	fmt.Fprintf(&sb, "  deriving Inhabited, DecidableEq, Repr\n")
	if len(skipped) > 0 {
		fmt.Fprintf(&sb, "-- fields of %s outside the subset (not translated): %s\n", name, strings.Join(skipped, ", "))
	}
	fmt.Fprintf(&sb, "/-- the nil pointer / nil interface of type %s -/\ndef %s.nil : %s := { isNil := true }\n\n", name, name, name)
	return sb.String()
}

// ---------------------------------------------------------------------------------------------------------------
// expressions

func (t *trCtx) tyOf(e ast.Expr) types.Type {
	if tv, ok := t.info.Types[e]; ok && tv.Type != nil {
		return tv.Type
	}
	if id, ok := e.(*ast.Ident); ok {
		if o := t.info.Uses[id]; o != nil {
			return o.Type()
		}
		if o := t.info.Defs[id]; o != nil {
			return o.Type()
		}
	}
	return nil
}

func isNilIdent(e ast.Expr) bool {
	id, ok := e.(*ast.Ident)
	return ok && id.Name == "nil"
}

func isString(ty types.Type) bool {
	if ty == nil {
		return false
	}
	b, ok := ty.Underlying().(*types.Basic)
	return ok && b.Info()&types.IsString != 0
}

func isErrorType(ty types.Type) bool {
	n, ok := ty.(*types.Named)
	return ok && n.Obj().Name() == "error" && n.Obj().Pkg() == nil
}

// zero value of a Go type, as a Lean term
func (t *trCtx) zero(n ast.Node, ty types.Type) string {
	lt := t.typ(n, ty)
	switch u := ty.Underlying().(type) {
	case *types.Pointer, *types.Interface:
		_ = u
		if !isErrorType(ty) {
			return lt + ".nil"
		}
		return "GoRT.Err.none"
	}
	return "(default : " + lt + ")"
}

func (t *trCtx) nilOf(n ast.Node, ty types.Type) string {
	if ty == nil {
		t.fail(n, "nil of unknown type")
	}
	if isErrorType(ty) {
		return "GoRT.Err.none"
	}
	switch ty.Underlying().(type) {
	case *types.Slice:
		return "([] : " + t.typ(n, ty) + ")"
	case *types.Pointer, *types.Interface:
		return t.typ(n, ty) + ".nil"
	}
	t.fail(n, "nil of type %s", ty)
	return ""
}

func (t *trCtx) expr(e ast.Expr) string {
	switch x := e.(type) {
	case *ast.ParenExpr:
		return "(" + t.expr(x.X) + ")"
	case *ast.Ident:
		switch x.Name {
		case "true", "false":
			return x.Name
		case "nil":
			return t.nilOf(x, t.tyOf(x))
		}
		if o := t.info.Uses[x]; o != nil {
			if _, isFn := o.(*types.Func); isFn {
				if f, ok := t.funcs[x.Name]; ok {
					return f.lean()
				}
				t.fail(x, "function %s is not translated", x.Name)
			}
			if c, isConst := o.(*types.Const); isConst && o.Parent() != nil && o.Parent() == t.tpkg.Scope() {
				return t.constVal(x, c)
			}
			if v, isVar := o.(*types.Var); isVar && o.Parent() == t.tpkg.Scope() {
				// a package-level variable: an opaque constant of the generated module (its value is not translated)
				if !t.globals[x.Name] {
					t.globals[x.Name] = true
					t.globalDecls = append(t.globalDecls, "/-- package-level variable `"+x.Name+"`: its value is not translated -/\nopaque "+leanIdent(x.Name)+" : "+t.typ(x, v.Type())+"\n")
				}
			}
		}
		if t.cur != nil && t.cur.dropped[x.Name] {
			if _, local := t.cur.scope[x.Name]; !local {
				t.fail(x, "use of %s, whose type is outside the subset", x.Name)
			}
		}
		return leanIdent(x.Name)
	case *ast.BasicLit:
		switch x.Kind {
		case token.INT:
			return "(" + x.Value + " : Int)"
		case token.STRING:
			s, err := strconv.Unquote(x.Value)
			if err != nil {
				t.fail(x, "string literal %s", x.Value)
			}
			return leanCharList(s)
		case token.CHAR:
			r, _, _, err := strconv.UnquoteChar(x.Value[1:len(x.Value)-1], '\'')
			if err != nil {
				t.fail(x, "rune literal %s", x.Value)
			}
			return leanChar(r)
		}
		t.fail(x, "literal %s is outside the subset", x.Value)
	case *ast.UnaryExpr:
		switch x.Op {
		case token.AND:
			return t.expr(x.X)
		case token.NOT:
			return "(!" + t.expr(x.X) + ")"
		case token.SUB:
			return "(-" + t.expr(x.X) + ")"
		}
		t.fail(x, "unary %s is outside the subset", x.Op)
	case *ast.StarExpr:
		return t.expr(x.X)
	case *ast.BinaryExpr:
		return t.binary(x)
	case *ast.SelectorExpr:
		if id, ok := x.X.(*ast.Ident); ok {
			if _, isPkg := t.info.Uses[id].(*types.PkgName); isPkg {
				if c, ok := t.info.Uses[x.Sel].(*types.Const); ok {
					return t.constVal(x, c)
				}
				t.fail(x, "%s.%s used as a value is outside the subset", id.Name, x.Sel.Name)
			}
		}
		base := t.atom(x.X)
		if sel, ok := t.info.Selections[x]; ok && sel.Kind() == types.FieldVal && len(sel.Index()) > 1 {
			// a field promoted from embedded structs: spell the path out
			ty := sel.Recv()
			for _, i := range sel.Index()[:len(sel.Index())-1] {
				if p, ok := ty.Underlying().(*types.Pointer); ok {
					ty = p.Elem()
				}
				st, ok := ty.Underlying().(*types.Struct)
				if !ok {
					t.fail(x, "selector %s is outside the subset", exprString(x))
				}
				base += "." + leanIdent(st.Field(i).Name())
				ty = st.Field(i).Type()
			}
		}
		return base + "." + leanIdent(x.Sel.Name)
	case *ast.IndexExpr:
		return "(GoRT.idx " + t.atom(x.X) + " " + t.atom(x.Index) + ")"
	case *ast.SliceExpr:
		if x.Slice3 {
			t.fail(x, "3-index slice is outside the subset")
		}
		lo, hi := "(0 : Int)", ""
		if x.Low != nil {
			lo = t.atom(x.Low)
		}
		if x.High != nil {
			hi = t.atom(x.High)
			return "(GoRT.slice " + t.atom(x.X) + " " + lo + " " + hi + ")"
		}
		return "(GoRT.sliceFrom " + t.atom(x.X) + " " + lo + ")"
	case *ast.CompositeLit:
		return t.composite(x)
	case *ast.CallExpr:
		return t.call(x)
	case *ast.FuncLit:
		return t.funcLit(x)
	}
	t.fail(e, "expression %T is outside the subset", e)
	return ""
}

func (t *trCtx) atom(e ast.Expr) string {
	s := t.expr(e)
	if strings.ContainsAny(s, " ") && !(strings.HasPrefix(s, "(") && balancedOuter(s)) {
		return "(" + s + ")"
	}
	return s
}

func balancedOuter(s string) bool {
	d := 0
	for i, c := range s {
		switch c {
		case '(':
			d++
		case ')':
			d--
			if d == 0 && i != len(s)-1 {
				return false
			}
		}
	}
	return d == 0
}

func (t *trCtx) constVal(n ast.Node, c *types.Const) string {
	if isString(c.Type()) {
		s, err := strconv.Unquote(c.Val().ExactString())
		if err != nil {
			t.fail(n, "constant %s", c.Name())
		}
		return leanCharList(s)
	}
	if b, ok := c.Type().Underlying().(*types.Basic); ok && b.Info()&types.IsInteger != 0 {
		return "(" + c.Val().ExactString() + " : Int)"
	}
	t.fail(n, "constant %s of type %s is outside the subset", c.Name(), c.Type())
	return ""
}

func (t *trCtx) binary(x *ast.BinaryExpr) string {
	// comparisons with nil
	if x.Op == token.EQL || x.Op == token.NEQ {
		var other ast.Expr
		if isNilIdent(x.Y) {
			other = x.X
		} else if isNilIdent(x.X) {
			other = x.Y
		}
		if other != nil {
			ty := t.tyOf(other)
			if ty == nil {
				t.fail(x, "comparison of a value of unknown type with nil")
			}
			var isnil string
			switch {
			case isErrorType(ty):
				isnil = "(!" + t.atom(other) + ".isErr)"
			default:
				switch ty.Underlying().(type) {
				case *types.Pointer, *types.Interface:
					t.typ(x, ty)
					isnil = t.atom(other) + ".isNil"
				default:
					t.fail(x, "comparison of a %s with nil is outside the subset", ty)
				}
			}
			if x.Op == token.EQL {
				return "(" + isnil + ")"
			}
			return "(!" + isnil + ")"
		}
	}
	l, r := t.atom(x.X), t.atom(x.Y)
	switch x.Op {
	case token.ADD:
		if isString(t.tyOf(x.X)) || isString(t.tyOf(x.Y)) || isString(t.tyOf(x)) {
			return "(" + l + " ++ " + r + ")"
		}
		return "(" + l + " + " + r + ")"
	case token.SUB:
		return "(" + l + " - " + r + ")"
	case token.MUL:
		return "(" + l + " * " + r + ")"
	case token.EQL:
		return "(" + l + " == " + r + ")"
	case token.NEQ:
		return "(" + l + " != " + r + ")"
	case token.LSS:
		return "(decide (" + l + " < " + r + "))"
	case token.LEQ:
		return "(decide (" + l + " ≤ " + r + "))"
	case token.GTR:
		return "(decide (" + l + " > " + r + "))"
	case token.GEQ:
		return "(decide (" + l + " ≥ " + r + "))"
	case token.LAND:
		return "(" + l + " && " + r + ")"
	case token.LOR:
		return "(" + l + " || " + r + ")"
	}
	t.fail(x, "operator %s is outside the subset", x.Op)
	return ""
}

func (t *trCtx) composite(x *ast.CompositeLit) string {
	ty := t.tyOf(x)
	if ty == nil {
		t.fail(x, "composite literal of unknown type")
	}
	switch u := ty.Underlying().(type) {
	case *types.Slice:
		_ = u
		var el []string
		for _, e := range x.Elts {
			if _, kv := e.(*ast.KeyValueExpr); kv {
				t.fail(x, "keyed slice literal is outside the subset")
			}
			el = append(el, t.expr(e))
		}
		return "([" + strings.Join(el, ", ") + "] : " + t.typ(x, ty) + ")"
	case *types.Struct:
		lt := t.typ(x, ty)
		var fs []string
		for _, e := range x.Elts {
			kv, ok := e.(*ast.KeyValueExpr)
			if !ok {
				t.fail(x, "positional struct literal is outside the subset")
			}
			k := kv.Key.(*ast.Ident).Name
			// a field that is not translated (e.g. a mutex) is left out
			if !t.fieldTranslated(u, k) {
				continue
			}
			fs = append(fs, leanIdent(k)+" := "+t.expr(kv.Value))
		}
		if len(fs) == 0 {
			return "(default : " + lt + ")"
		}
		return "({ " + strings.Join(fs, ", ") + " } : " + lt + ")"
	}
	t.fail(x, "composite literal of type %s is outside the subset", ty)
	return ""
}

func (t *trCtx) translatable(ty types.Type) (ok bool) {
	defer func() {
		if recover() != nil {
			ok = false
		}
	}()
	t.typ(nil, ty)
	return true
}

func (t *trCtx) fieldTranslated(st *types.Struct, name string) (ok bool) {
	for i := 0; i < st.NumFields(); i++ {
		if st.Field(i).Name() == name {
			defer func() {
				if recover() != nil {
					ok = false
				}
			}()
			t.typ(nil, st.Field(i).Type())
			return true
		}
	}
	return false
}

// float64 library functions over the ideal (integer valued, unrounded) floats of GoRT
var trFloat = map[string]string{"math.Min": "GoRT.math_Min", "math.Max": "GoRT.math_Max", "math.Pow": "GoRT.math_Pow", "math.Trunc": "GoRT.math_Trunc"}

// library functions GoRT defines; the value is the Lean name
var trLib = map[string]string{
	"strings.HasPrefix": "GoRT.strings_HasPrefix", "strings.HasSuffix": "GoRT.strings_HasSuffix", "strings.LastIndex": "GoRT.strings_LastIndex",
	"strings.Index": "GoRT.strings_Index", "strings.Count": "GoRT.strings_Count", "strings.SplitN": "GoRT.strings_SplitN",
	"strings.IndexFunc": "GoRT.strings_IndexFunc", "strings.Contains": "GoRT.strings_Contains",
	"strconv.Itoa": "GoRT.strconv_Itoa", "unicode.IsSpace": "GoRT.unicode_IsSpace",
}

func (t *trCtx) call(x *ast.CallExpr) string {
	args := func() string {
		var as []string
		for _, a := range x.Args {
			as = append(as, t.atom(a))
		}
		return strings.Join(as, " ")
	}
	switch f := x.Fun.(type) {
	case *ast.Ident:
		switch f.Name {
		case "len":
			return "(GoRT.len " + t.atom(x.Args[0]) + ")"
		case "append":
			if x.Ellipsis != token.NoPos {
				return "(" + t.atom(x.Args[0]) + " ++ " + t.atom(x.Args[1]) + ")"
			}
			var el []string
			for _, a := range x.Args[1:] {
				el = append(el, t.expr(a))
			}
			return "(" + t.atom(x.Args[0]) + " ++ [" + strings.Join(el, ", ") + "])"
		case "new":
			ty := t.tyOf(x)
			if ty == nil {
				t.fail(x, "new of unknown type")
			}
			return "(default : " + t.typ(x, ty) + ")"
		case "int", "int64", "int32", "uint", "string", "rune", "float64":
			if tv, ok := t.info.Types[f]; ok && tv.IsType() {
				return t.convert(x, x.Args[0], t.tyOf(x))
			}
		}
		if o, ok := t.info.Uses[f].(*types.Func); ok && o.Pkg() == t.tpkg && trExtern[f.Name] {
			s := "ext_" + f.Name
			for _, a := range x.Args {
				if at := t.tyOf(a); at != nil && t.translatable(at) {
					s += " " + t.atom(a)
				}
			}
			return "(" + s + ")"
		}
		if o, ok := t.info.Uses[f].(*types.Func); ok && o.Pkg() == t.tpkg && f.Name == "NewConnError" && len(x.Args) == 2 {
			return "(GoRT.Err.conn " + t.atom(x.Args[1]) + ")"
		}
		if o, ok := t.info.Uses[f].(*types.Func); ok && o.Pkg() == t.tpkg {
			fn, ok := t.funcs[f.Name]
			if !ok {
				t.fail(x, "function %s is not translated", f.Name)
			}
			if len(x.Args) == 0 && t.extraArgs(fn.key()) == "" {
				return fn.lean()
			}
			return "(" + fn.lean() + t.extraArgs(fn.key()) + " " + args() + ")"
		}
		// a call of a function-valued variable
		if _, ok := t.tyOf(f).(*types.Signature); ok {
			return "(" + leanIdent(f.Name) + " " + args() + ")"
		}
		t.fail(x, "call of %s is outside the subset", f.Name)
	case *ast.SelectorExpr:
		if tv, ok := t.info.Types[f]; ok && tv.IsType() && len(x.Args) == 1 {
			return t.convert(x, x.Args[0], tv.Type) // e.g. time.Duration(d)
		}
		if id, ok := f.X.(*ast.Ident); ok {
			if pn, isPkg := t.info.Uses[id].(*types.PkgName); isPkg {
				q := pn.Imported().Path() + "." + f.Sel.Name
				if q == "fmt.Errorf" || q == "errors.New" {
					return "GoRT.Err.plain"
				}
				if l, ok := trFloat[q]; ok {
					return "(" + l + " " + args() + ")"
				}
				if q == "math/rand.Intn" {
					return "(rnd " + args() + ")"
				}
				if l, ok := trLib[q]; ok {
					return "(" + l + " " + args() + ")"
				}
				t.fail(x, "library function %s is outside the subset", q)
			}
		}
		// method call on a value of a translated struct type
		rt := t.tyOf(f.X)
		if rt != nil {
			if nt, ok := rt.(*types.Named); ok {
				if _, isIf := nt.Underlying().(*types.Interface); isIf {
					ln := t.typ(x, rt)
					for _, m := range t.records[ln] {
						if m[0] == f.Sel.Name && len(x.Args) == 0 {
							return t.atom(f.X) + "." + leanIdent(f.Sel.Name)
						}
					}
					if _, isSum := t.sumDefs[ln]; isSum {
						// dynamic dispatch over the alternatives of the sum
						d := trFn{recv: nt.Obj().Name(), name: f.Sel.Name}
						if _, ok := t.funcs[d.key()]; !ok {
							t.fail(x, "method %s of the interface %s has no dispatcher in the translation list", f.Sel.Name, nt.Obj().Name())
						}
						return "(" + d.lean() + " " + t.atom(f.X) + " " + args() + ")"
					}
				}
			}
			name := ""
			if p, ok := rt.(*types.Pointer); ok {
				rt = p.Elem()
			}
			if n, ok := rt.(*types.Named); ok {
				name = n.Obj().Name()
			}
			if fn, ok := t.funcs[name+"."+f.Sel.Name]; ok {
				if t.mutRecv[fn.key()] || len(t.mutParams[fn.key()]) > 0 {
					t.fail(x, "call of %s, which assigns its receiver or a parameter, in expression position is outside the subset", fn.key())
				}
				s := fn.lean() + t.extraArgs(fn.key()) + " " + t.atom(f.X)
				if len(x.Args) > 0 {
					s += " " + args()
				}
				return "(" + s + ")"
			}
		}
		t.fail(x, "method call %s is outside the subset", exprString(x.Fun))
	case *ast.ArrayType:
		t.fail(x, "conversion to %s is outside the subset", exprString(x.Fun))
	}
	// call of a call: f(a)(b)
	if inner, ok := x.Fun.(*ast.CallExpr); ok {
		return "(" + t.call(inner) + " " + args() + ")"
	}
	t.fail(x, "call %s is outside the subset", exprString(x.Fun))
	return ""
}

// intoSum wraps the translation v of e when e (of a concrete type) flows into a position of an interface type that is
// represented as a sum
func (t *trCtx) intoSum(e ast.Expr, v string, target types.Type) string {
	nt, ok := target.(*types.Named)
	if !ok {
		return v
	}
	if _, isSum := trIfaceSum[nt.Obj().Name()]; !isSum {
		return v
	}
	et := t.tyOf(e)
	if et == nil {
		return v
	}
	if pt, ok := et.(*types.Pointer); ok {
		et = pt.Elem()
	}
	en, ok := et.(*types.Named)
	if !ok || en == nt {
		return v
	}
	ln := t.typ(e, target)
	for _, c := range t.sumDefs[ln] {
		if c[0] == en.Obj().Name() {
			if strings.ContainsAny(v, " ") && !(strings.HasPrefix(v, "(") && balancedOuter(v)) {
				v = "(" + v + ")"
			}
			return "(" + ln + "." + leanIdent(c[0]) + " " + v + ")"
		}
	}
	t.fail(e, "a %s flows into a %s: not an alternative of the sum", en.Obj().Name(), nt.Obj().Name())
	return ""
}

// convert translates the conversion T(arg)
func (t *trCtx) convert(n ast.Node, arg ast.Expr, to types.Type) string {
	at := t.tyOf(arg)
	if at == nil || to == nil {
		t.fail(n, "conversion of unknown type")
	}
	from, dst := t.typ(n, at), t.typ(n, to)
	switch {
	case from == dst:
		return t.expr(arg)
	case from == "Int" && dst == "GoRT.F64":
		return "(GoRT.F64.ofInt " + t.atom(arg) + ")"
	case from == "GoRT.F64" && dst == "Int":
		return "(GoRT.F64.toInt " + t.atom(arg) + ")"
	}
	t.fail(n, "conversion from %s to %s is outside the subset", at, to)
	return ""
}

func (t *trCtx) funcLit(x *ast.FuncLit) string {
	sig, ok := t.tyOf(x).(*types.Signature)
	if !ok {
		t.fail(x, "function literal of unknown type")
	}
	saved := t.cur
	st := &trFnState{results: sig.Results(), scope: map[string]int{}, fuel: saved.fuel}
	for k, v := range saved.scope {
		st.scope[k] = v
	}
	st.depth = saved.depth + 1
	t.cur = st
	defer func() { saved.fuel = t.cur.fuel; t.cur = saved }()
	var ps []string
	for _, f := range x.Type.Params.List {
		for _, n := range f.Names {
			ps = append(ps, "("+leanIdent(n.Name)+" : "+t.typ(x, t.tyOf(f.Type))+")")
			st.scope[n.Name] = st.depth
		}
	}
	body := t.stmts(x.Body.List, "      ", nil)
	return "(fun " + strings.Join(ps, " ") + " =>\n" + body + ")"
}

// ---------------------------------------------------------------------------------------------------------------
// statements

// ret builds the value of `return es`
func (t *trCtx) ret(n ast.Node, es []ast.Expr) string {
	c := t.cur
	var parts []string
	nres := 0
	if c.results != nil {
		nres = c.results.Len()
	}
	if len(es) == 0 && len(c.named) == nres {
		for _, nm := range c.named {
			parts = append(parts, leanIdent(nm))
		}
	} else if len(es) != nres {
		t.fail(n, "return with %d values for %d results", len(es), nres)
	}
	for i, e := range es {
		rty := c.results.At(i).Type()
		if isNilIdent(e) {
			parts = append(parts, t.nilOf(e, rty))
			continue
		}
		v := t.expr(e)
		v = t.intoSum(e, v, rty)
		parts = append(parts, v)
	}
	for _, mv := range c.mutVars {
		parts = append(parts, leanIdent(mv))
	}
	v := ""
	switch len(parts) {
	case 0:
		v = "()"
	case 1:
		v = parts[0]
	default:
		v = "(" + strings.Join(parts, ", ") + ")"
	}
	if c.loop > 0 {
		if strings.ContainsAny(v, " ") && !(strings.HasPrefix(v, "(") && balancedOuter(v)) {
			v = "(" + v + ")"
		}
		return "GoRT.Step.ret " + v
	}
	return v
}

// assigned returns, sorted, the variables (declared outside) that a statement list assigns
func (t *trCtx) assigned(list []ast.Stmt) []string {
	set := map[string]bool{}
	declared := map[string]bool{}
	var lhs func(e ast.Expr)
	lhs = func(e ast.Expr) {
		switch x := e.(type) {
		case *ast.Ident:
			if x.Name != "_" && !declared[x.Name] {
				set[x.Name] = true
			}
		case *ast.SelectorExpr:
			lhs(x.X)
		case *ast.IndexExpr:
			lhs(x.X)
		case *ast.StarExpr:
			lhs(x.X)
		case *ast.ParenExpr:
			lhs(x.X)
		}
	}
	for _, s := range list {
		ast.Inspect(s, func(n ast.Node) bool {
			switch x := n.(type) {
			case *ast.FuncLit:
				return false
			case *ast.AssignStmt:
				if x.Tok == token.DEFINE {
					for _, l := range x.Lhs {
						if id, ok := l.(*ast.Ident); ok {
							if _, known := t.cur.scope[id.Name]; known {
								set[id.Name] = true // re-assignment of an existing variable through :=
							} else {
								declared[id.Name] = true
							}
						}
					}
				} else {
					for _, l := range x.Lhs {
						lhs(l)
					}
				}
			case *ast.IncDecStmt:
				lhs(x.X)
			case *ast.CallExpr:
				if _, vars, ok := t.mutCall(x); ok {
					for _, v := range vars {
						if !declared[v] {
							set[v] = true
						}
					}
				}
			case *ast.DeclStmt:
				if gd, ok := x.Decl.(*ast.GenDecl); ok {
					for _, sp := range gd.Specs {
						if vs, ok := sp.(*ast.ValueSpec); ok {
							for _, n := range vs.Names {
								declared[n.Name] = true
							}
						}
					}
				}
			}
			return true
		})
	}
	var out []string
	for k := range set {
		out = append(out, k)
	}
	sort.Strings(out)
	return out
}

func tupleOf(vs []string) string {
	if len(vs) == 0 {
		return "()"
	}
	var l []string
	for _, v := range vs {
		l = append(l, leanIdent(v))
	}
	if len(l) == 1 {
		return l[0]
	}
	return "(" + strings.Join(l, ", ") + ")"
}

func hasReturn(list []ast.Stmt) bool {
	found := false
	for _, s := range list {
		ast.Inspect(s, func(n ast.Node) bool {
			switch n.(type) {
			case *ast.FuncLit:
				return false
			case *ast.ReturnStmt:
				found = true
			}
			return true
		})
	}
	return found
}

// stmts translates a statement list; k (may be nil) yields the term for "the list ran to its end".
func (t *trCtx) stmts(list []ast.Stmt, ind string, k func(ind string) string) string {
	t.cur.fuel--
	if t.cur.fuel < 0 {
		t.fail(nil, "translation too large (continuation duplication)")
	}
	if len(list) == 0 {
		if k == nil {
			if t.cur.results == nil || t.cur.results.Len() == 0 {
				return ind + t.ret(nil, nil)
			}
			t.fail(t.cur.fd, "control reaches the end of a function with results")
		}
		return k(ind)
	}
	s, rest := list[0], list[1:]
	cont := func(ind string) string { return t.stmts(rest, ind, k) }
	switch x := s.(type) {
	case *ast.ReturnStmt:
		return ind + t.ret(x, x.Results)
	case *ast.BlockStmt:
		return t.block(x.List, ind, cont)
	case *ast.AssignStmt:
		return t.assign(x, ind) + cont(ind)
	case *ast.IncDecStmt:
		op := " + "
		if x.Tok == token.DEC {
			op = " - "
		}
		return t.store(x.X, "("+t.atom(x.X)+op+"(1 : Int))", ind) + cont(ind)
	case *ast.DeclStmt:
		gd, ok := x.Decl.(*ast.GenDecl)
		if !ok || gd.Tok != token.VAR {
			t.fail(x, "declaration is outside the subset")
		}
		out := ""
		for _, sp := range gd.Specs {
			vs := sp.(*ast.ValueSpec)
			for i, n := range vs.Names {
				t.declare(n)
				ty := t.tyOf(n)
				if ty == nil {
					t.fail(x, "variable %s of unknown type", n.Name)
				}
				val := t.zero(x, ty)
				if _, isSlice := ty.Underlying().(*types.Slice); isSlice {
					val = "[]"
				}
				if i < len(vs.Values) {
					val = t.expr(vs.Values[i])
				}
				out += ind + "let " + leanIdent(n.Name) + " : " + t.typ(x, ty) + " := " + val + "\n"
			}
		}
		return out + cont(ind)
	case *ast.IfStmt:
		if x.Init != nil {
			// `if v := e; cond {..} else {..}`: the initialiser, then the plain if, in a block of their own
			plain := *x
			plain.Init = nil
			return t.block([]ast.Stmt{x.Init, &plain}, ind, cont)
		}
		pre := ""
		var c string
		if call, ok := x.Cond.(*ast.CallExpr); ok {
			if fn, vars, ok := t.mutCall(call); ok {
				// the condition is a call that assigns through its receiver / pointer parameters: evaluate it first
				if t.resultCount(fn) != 1 {
					t.fail(x, "condition %s is outside the subset", exprString(x.Cond))
				}
				t.cur.tmp++
				tmp := fmt.Sprintf("cond%d", t.cur.tmp)
				pre = ind + "let " + leanTuple(append([]string{tmp}, vars...)) + " := " + t.callMut(call, fn) + "\n"
				c = tmp
			}
		}
		if c == "" {
			c = t.expr(x.Cond)
		}
		thenB := t.block(x.Body.List, ind+"  ", cont)
		var elseB string
		switch e := x.Else.(type) {
		case nil:
			elseB = cont(ind + "  ")
		case *ast.BlockStmt:
			elseB = t.block(e.List, ind+"  ", cont)
		case *ast.IfStmt:
			elseB = t.stmts([]ast.Stmt{e}, ind+"  ", cont)
		}
		return pre + ind + "if " + c + " then\n" + thenB + "\n" + ind + "else\n" + elseB
	case *ast.SwitchStmt:
		if x.Init != nil || x.Tag == nil {
			t.fail(x, "switch without a tag or with an initialiser is outside the subset")
		}
		tag := t.atom(x.Tag)
		t.cur.inSwitch++
		defer func() { t.cur.inSwitch-- }()
		contSw := cont
		cont = func(ind string) string {
			t.cur.inSwitch--
			defer func() { t.cur.inSwitch++ }()
			return contSw(ind)
		}
		var def []ast.Stmt
		hasDef := false
		out := ""
		cur := ind
		n := 0
		for _, cc := range x.Body.List {
			c := cc.(*ast.CaseClause)
			for _, b := range c.Body {
				if br, ok := b.(*ast.BranchStmt); ok && br.Tok == token.FALLTHROUGH {
					t.fail(x, "fallthrough is outside the subset")
				}
			}
			if c.List == nil {
				def, hasDef = c.Body, true
				continue
			}
			var conds []string
			for _, e := range c.List {
				conds = append(conds, "("+tag+" == "+t.atom(e)+")")
			}
			out += cur + "if " + strings.Join(conds, " || ") + " then\n" + t.block(c.Body, cur+"  ", cont) + "\n" + cur + "else\n"
			cur += "  "
			n++
		}
		_ = hasDef
		return out + t.block(def, cur, cont)
	case *ast.TypeSwitchStmt:
		return t.typeSwitch(x, ind, cont)
	case *ast.ForStmt:
		return t.forStmt(x, ind, cont)
	case *ast.RangeStmt:
		return t.rangeStmt(x, ind, cont)
	case *ast.ExprStmt:
		if c, ok := x.X.(*ast.CallExpr); ok {
			if fn, vars, ok := t.mutCall(c); ok {
				var names []string
				for i := 0; i < t.resultCount(fn); i++ {
					names = append(names, "_")
				}
				return ind + "let " + leanTuple(append(names, vars...)) + " := " + t.callMut(c, fn) + "\n" + cont(ind)
			}
		}
		t.fail(x, "expression statement %s is outside the subset", exprString(x.X))
	case *ast.BranchStmt:
		if x.Label != nil || t.cur.loop == 0 || len(t.cur.loopVars) == 0 {
			t.fail(x, "%s here is outside the subset", x.Tok)
		}
		vs := t.cur.loopVars[len(t.cur.loopVars)-1]
		switch x.Tok {
		case token.BREAK:
			if t.cur.inSwitch > 0 {
				t.fail(x, "break inside a switch is outside the subset")
			}
			return ind + "GoRT.Step.brk " + tupleOf(vs)
		case token.CONTINUE:
			return ind + "GoRT.Step.next " + tupleOf(vs)
		}
		t.fail(x, "%s is outside the subset", x.Tok)
	}
	t.fail(s, "statement %T is outside the subset", s)
	return ""
}

// sumOf: the Lean name of the sum that represents the (interface) type of e
func (t *trCtx) sumOf(e ast.Expr) string {
	ty := t.tyOf(e)
	if ty == nil {
		t.fail(e, "value of unknown type")
	}
	ln := t.typ(e, ty)
	if _, ok := t.sumDefs[ln]; !ok {
		t.fail(e, "a type switch / assertion on a %s is outside the subset", ty)
	}
	return ln
}

// ctorOf: the constructor of sum `ln` for the dynamic type written as `te` (e.g. *stanza.IQ)
func (t *trCtx) ctorOf(ln string, te ast.Expr) string {
	ptr := false
	if st, ok := te.(*ast.StarExpr); ok {
		ptr, te = true, st.X
	}
	name := ""
	switch x := te.(type) {
	case *ast.Ident:
		name = x.Name
	case *ast.SelectorExpr:
		name = x.Sel.Name
	}
	want := name
	if ptr {
		want = "*" + name
	}
	for _, a := range trIfaceSum[t.sumGo[ln]].alts {
		if a == want {
			return leanIdent(name)
		}
	}
	t.fail(te, "dynamic type %s is not an alternative of the sum %s: outside the subset", exprString(te), ln)
	return ""
}

// typeSwitch: `switch v := x.(type) { case A: ..; case *B: ..; default: .. }` over an interface represented as a sum
func (t *trCtx) typeSwitch(x *ast.TypeSwitchStmt, ind string, cont func(string) string) string {
	if x.Init != nil {
		t.fail(x, "type switch with an initialiser is outside the subset")
	}
	var subject ast.Expr
	bind := ""
	switch a := x.Assign.(type) {
	case *ast.ExprStmt:
		subject = a.X.(*ast.TypeAssertExpr).X
	case *ast.AssignStmt:
		subject = a.Rhs[0].(*ast.TypeAssertExpr).X
		bind = a.Lhs[0].(*ast.Ident).Name
	}
	ln := t.sumOf(subject)
	t.cur.inSwitch++
	defer func() { t.cur.inSwitch-- }()
	contSw := cont
	cont = func(ind string) string {
		t.cur.inSwitch--
		defer func() { t.cur.inSwitch++ }()
		return contSw(ind)
	}
	out := ind + "match " + t.expr(subject) + " with\n"
	var def []ast.Stmt
	for _, cc := range x.Body.List {
		c := cc.(*ast.CaseClause)
		if c.List == nil {
			def = c.Body
			continue
		}
		for _, te := range c.List {
			if isNilIdent(te) {
				out += ind + "| .nil =>\n" + t.block(c.Body, ind+"  ", cont) + "\n"
				continue
			}
			ctor := t.ctorOf(ln, te)
			v := "_"
			if bind != "" && len(c.List) == 1 {
				v = leanIdent(bind)
			}
			t.cur.depth++
			if v != "_" {
				t.cur.scope[bind] = t.cur.depth
			}
			body := t.block(c.Body, ind+"  ", cont)
			if v != "_" {
				delete(t.cur.scope, bind)
			}
			t.cur.depth--
			out += ind + "| ." + ctor + " " + v + " =>\n" + body + "\n"
		}
	}
	return out + ind + "| _ =>\n" + t.block(def, ind+"  ", cont)
}

func (t *trCtx) block(list []ast.Stmt, ind string, cont func(string) string) string {
	t.cur.depth++
	saved := map[string]int{}
	for k, v := range t.cur.scope {
		saved[k] = v
	}
	d := t.cur.depth
	savedSh := map[string]int{}
	for k, v := range t.cur.shadowed {
		savedSh[k] = v
	}
	defer func() { t.cur.shadowed = savedSh }()
	out := t.stmts(list, ind, func(ind string) string {
		// leaving the block: its declarations go out of scope
		for name, dd := range t.cur.shadowed {
			if dd >= d {
				t.fail(nil, "variable %s shadows an outer variable in a block that control can leave through its end: outside the subset", name)
			}
		}
		inner := t.cur.scope
		t.cur.scope = saved
		t.cur.depth = d - 1
		r := cont(ind)
		t.cur.scope = inner
		t.cur.depth = d
		return r
	})
	t.cur.scope = saved
	t.cur.depth = d - 1
	return out
}

func (t *trCtx) declare(id *ast.Ident) {
	if id.Name == "_" {
		return
	}
	if d, ok := t.cur.scope[id.Name]; ok && d < t.cur.depth {
		// harmless as long as control never leaves the block through its end (checked in block)
		if t.cur.shadowed == nil {
			t.cur.shadowed = map[string]int{}
		}
		t.cur.shadowed[id.Name] = t.cur.depth
	}
	t.cur.scope[id.Name] = t.cur.depth
}

// store emits the let that performs `target = val`
func (t *trCtx) store(target ast.Expr, val string, ind string) string {
	switch x := target.(type) {
	case *ast.Ident:
		if x.Name == "_" {
			return ""
		}
		return ind + "let " + leanIdent(x.Name) + " := " + val + "\n"
	case *ast.SelectorExpr:
		if id, ok := x.X.(*ast.Ident); ok {
			// a field outside the subset (a handler, a connection, a lock) is not part of the translated structure:
			// the assignment is left out
			if ft := t.tyOf(x); ft != nil && !t.translatable(ft) {
				return ""
			}
			return ind + "let " + leanIdent(id.Name) + " := { " + leanIdent(id.Name) + " with " + leanIdent(x.Sel.Name) + " := " + val + " }\n"
		}
	case *ast.StarExpr:
		return t.store(x.X, val, ind)
	}
	t.fail(target, "assignment to %s is outside the subset", exprString(target))
	return ""
}

func (t *trCtx) assign(x *ast.AssignStmt, ind string) string {
	switch x.Tok {
	case token.ASSIGN, token.DEFINE:
	case token.ADD_ASSIGN, token.SUB_ASSIGN, token.MUL_ASSIGN:
		op := map[token.Token]token.Token{token.ADD_ASSIGN: token.ADD, token.SUB_ASSIGN: token.SUB, token.MUL_ASSIGN: token.MUL}[x.Tok]
		be := &ast.BinaryExpr{X: x.Lhs[0], Op: op, Y: x.Rhs[0]}
		t.info.Types[be] = t.info.Types[x.Lhs[0]]
		return t.store(x.Lhs[0], t.binary(be), ind)
	default:
		t.fail(x, "assignment operator %s is outside the subset", x.Tok)
	}
	if x.Tok == token.DEFINE {
		for _, l := range x.Lhs {
			if id, ok := l.(*ast.Ident); ok {
				if _, known := t.cur.scope[id.Name]; !known || t.cur.scope[id.Name] < t.cur.depth {
					t.declare(id)
				}
			}
		}
	}
	// v, ok := s.(*T) for an interface represented by T
	if len(x.Lhs) == 2 && len(x.Rhs) == 1 {
		if ta, ok := x.Rhs[0].(*ast.TypeAssertExpr); ok {
			it := t.tyOf(ta.X)
			tt := t.tyOf(ta.Type)
			if it == nil || tt == nil {
				t.fail(x, "type assertion of unknown type")
			}
			if _, isSum := t.sumDefs[t.typ(x, it)]; isSum {
				ln := t.sumOf(ta.X)
				ctor := t.ctorOf(ln, ta.Type)
				return ind + "let " + leanTuple([]string{exprString(x.Lhs[0]), exprString(x.Lhs[1])}) + " := (match " + t.expr(ta.X) + " with | ." + ctor +
					" v => (v, true) | _ => ((default : " + t.typ(x, tt) + "), false))\n"
			}
			if t.typ(x, it) != t.typ(x, tt) {
				t.fail(x, "type assertion %s is outside the subset", exprString(ta))
			}
			v := t.atom(ta.X)
			return t.store(x.Lhs[0], v, ind) + t.store(x.Lhs[1], "(!"+v+".isNil)", ind)
		}
		// a, b := f(x) with a tuple result
		if c, ok := x.Rhs[0].(*ast.CallExpr); ok {
			if fn, vars, ok := t.mutCall(c); ok {
				return ind + "let " + leanTuple(append([]string{exprString(x.Lhs[0]), exprString(x.Lhs[1])}, vars...)) + " := " + t.callMut(c, fn) + "\n"
			}
			return ind + "let (" + t.lhsName(x.Lhs[0]) + ", " + t.lhsName(x.Lhs[1]) + ") := " + t.call(c) + "\n"
		}
	}
	if len(x.Lhs) != len(x.Rhs) {
		t.fail(x, "assignment with %d targets and %d values is outside the subset", len(x.Lhs), len(x.Rhs))
	}
	if len(x.Lhs) == 1 {
		if sel, ok := x.Lhs[0].(*ast.SelectorExpr); ok {
			if ft := t.tyOf(sel); ft != nil && !t.translatable(ft) {
				return "" // see store: the field is not part of the translated structure
			}
		}
		if c, ok := x.Rhs[0].(*ast.CallExpr); ok {
			if fn, vars, ok := t.mutCall(c); ok {
				return ind + "let " + leanTuple(append([]string{exprString(x.Lhs[0])}, vars...)) + " := " + t.callMut(c, fn) + "\n"
			}
		}
		val := ""
		if isNilIdent(x.Rhs[0]) {
			val = t.nilOf(x, t.tyOf(x.Lhs[0]))
		} else {
			val = t.expr(x.Rhs[0])
		}
		return t.store(x.Lhs[0], val, ind)
	}
	// parallel assignment: evaluate all right-hand sides first
	out := ""
	for i, r := range x.Rhs {
		out += ind + fmt.Sprintf("let tmp%d := %s\n", i, t.expr(r))
	}
	for i, l := range x.Lhs {
		out += t.store(l, fmt.Sprintf("tmp%d", i), ind)
	}
	return out
}

// calleeOf: the translated function or method a call refers to
func (t *trCtx) calleeOf(c *ast.CallExpr) (trFn, bool) {
	switch f := c.Fun.(type) {
	case *ast.Ident:
		if o, ok := t.info.Uses[f].(*types.Func); ok && o.Pkg() == t.tpkg {
			fn, ok := t.funcs[f.Name]
			return fn, ok
		}
	case *ast.SelectorExpr:
		if o, ok := t.info.Uses[f.Sel].(*types.Func); ok {
			if sig, ok := o.Type().(*types.Signature); ok && sig.Recv() != nil {
				rt := sig.Recv().Type()
				if p, ok := rt.(*types.Pointer); ok {
					rt = p.Elem()
				}
				if nt, ok := rt.(*types.Named); ok {
					fn, ok := t.funcs[nt.Obj().Name()+"."+f.Sel.Name]
					return fn, ok
				}
			}
		}
	}
	return trFn{}, false
}

// mutCall recognises a call of a translated function that assigns its receiver or pointer parameters; it returns the
// caller's variables (receiver first) that have to be bound to the values the callee returns for them.
func (t *trCtx) mutCall(c *ast.CallExpr) (trFn, []string, bool) {
	fn, ok := t.calleeOf(c)
	if !ok || (!t.mutRecv[fn.key()] && len(t.mutParams[fn.key()]) == 0) {
		return trFn{}, nil, false
	}
	var vars []string
	if t.mutRecv[fn.key()] {
		sel, ok := c.Fun.(*ast.SelectorExpr)
		if !ok {
			return trFn{}, nil, false
		}
		id, ok := sel.X.(*ast.Ident)
		if !ok {
			t.fail(c, "call of %s, which assigns its receiver, on something that is not a variable: outside the subset", fn.key())
		}
		vars = append(vars, id.Name)
	}
	for _, mi := range t.mutParams[fn.key()] {
		id, ok := c.Args[mi].(*ast.Ident)
		if !ok {
			t.fail(c, "call of %s, which assigns through parameter %d, with an argument that is not a variable: outside the subset", fn.key(), mi)
		}
		vars = append(vars, id.Name)
	}
	return fn, vars, true
}

func leanTuple(names []string) string {
	var l []string
	for _, n := range names {
		l = append(l, leanIdent(n))
	}
	if len(l) == 1 {
		return l[0]
	}
	return "(" + strings.Join(l, ", ") + ")"
}

func (t *trCtx) resultCount(fn trFn) int {
	fd := t.p.fn(fn.recv, fn.name)
	if fd == nil || fd.Type.Results == nil {
		return 0
	}
	n := 0
	for _, f := range fd.Type.Results.List {
		if len(f.Names) == 0 {
			n++
		} else {
			n += len(f.Names)
		}
	}
	return n
}

func (t *trCtx) callMut(c *ast.CallExpr, fn trFn) string {
	s := fn.lean() + t.extraArgs(fn.key())
	if sel, ok := c.Fun.(*ast.SelectorExpr); ok && fn.recv != "" {
		s += " " + t.atom(sel.X)
	}
	for _, a := range c.Args {
		if at := t.tyOf(a); at != nil && !t.translatable(at) {
			continue
		}
		s += " " + t.atom(a)
	}
	return "(" + s + ")"
}

// extraArgs: the oracle / extern parameters a translated function takes before its own
func (t *trCtx) extraArgs(key string) string {
	s := ""
	if t.needRnd[key] {
		s += " rnd"
	}
	for _, e := range t.needExt[key] {
		s += " ext_" + e
	}
	return s
}

func (t *trCtx) lhsName(e ast.Expr) string {
	id, ok := e.(*ast.Ident)
	if !ok {
		t.fail(e, "tuple assignment to %s is outside the subset", exprString(e))
	}
	return leanIdent(id.Name)
}

func (t *trCtx) retType() string {
	c := t.cur
	var parts []string
	if c.results != nil {
		for i := 0; i < c.results.Len(); i++ {
			parts = append(parts, paren(t.typ(nil, c.results.At(i).Type())))
		}
	}
	if c.fd != nil {
		if obj, ok := t.info.Defs[c.fd.Name].(*types.Func); ok {
			sig := obj.Type().(*types.Signature)
			for _, mv := range c.mutVars {
				if sig.Recv() != nil && mv == c.recv {
					parts = append(parts, paren(t.typ(nil, sig.Recv().Type())))
					continue
				}
				for i := 0; i < sig.Params().Len(); i++ {
					if sig.Params().At(i).Name() == mv {
						parts = append(parts, paren(t.typ(nil, sig.Params().At(i).Type())))
					}
				}
			}
		}
	}
	if len(parts) == 0 {
		return "Unit"
	}
	return strings.Join(parts, " × ")
}

func (t *trCtx) loopTail(vs []string, ind string, cont func(string) string) string {
	rv := "v"
	if t.cur.loop > 0 {
		rv = "GoRT.Step.ret v"
	}
	return ind + "with\n" + ind + "| .ret v => " + rv + "\n" + ind + "| .fin " + tupleOf(vs) + " =>\n" + cont(ind+"  ")
}

func (t *trCtx) forStmt(x *ast.ForStmt, ind string, cont func(string) string) string {
	// for i := a; i < b; i++ { body }
	init, ok1 := x.Init.(*ast.AssignStmt)
	cond, ok2 := x.Cond.(*ast.BinaryExpr)
	post, ok3 := x.Post.(*ast.IncDecStmt)
	if !ok1 || !ok2 || !ok3 || init.Tok != token.DEFINE || len(init.Lhs) != 1 || post.Tok != token.INC {
		t.fail(x, "only `for i := a; i < b; i++` loops are inside the subset")
	}
	iv, ok := init.Lhs[0].(*ast.Ident)
	if !ok || exprString(cond.X) != iv.Name || exprString(post.X) != iv.Name || (cond.Op != token.LSS && cond.Op != token.LEQ) {
		t.fail(x, "only `for i := a; i < b; i++` loops are inside the subset")
	}
	vs := t.assigned(x.Body.List)
	bound := map[string]bool{}
	ast.Inspect(cond.Y, func(n ast.Node) bool {
		if id, ok := n.(*ast.Ident); ok {
			bound[id.Name] = true
		}
		return true
	})
	for _, v := range vs {
		if v == iv.Name || bound[v] {
			t.fail(x, "the loop body assigns %s, which the loop header uses: outside the subset", v)
		}
	}
	lo := t.atom(init.Rhs[0])
	hi := t.atom(cond.Y)
	if cond.Op == token.LEQ {
		hi = "(" + hi + " + (1 : Int))"
	}
	t.cur.depth++
	t.cur.scope[iv.Name] = t.cur.depth
	t.cur.loop++
	t.cur.loopVars = append(t.cur.loopVars, vs)
	savedSw := t.cur.inSwitch
	t.cur.inSwitch = 0
	body := t.block(x.Body.List, ind+"    ", func(ind string) string { return ind + "GoRT.Step.next " + tupleOf(vs) })
	t.cur.loop--
	t.cur.loopVars = t.cur.loopVars[:len(t.cur.loopVars)-1]
	t.cur.inSwitch = savedSw
	delete(t.cur.scope, iv.Name)
	t.cur.depth--
	return ind + "match (GoRT.forRange " + lo + " " + hi + " (fun (" + leanIdent(iv.Name) + " : Int) " + tupleOf(vs) + " =>\n" + body + ")\n" +
		ind + "    " + tupleOf(vs) + " : GoRT.Done (" + t.retType() + ") _)\n" + t.loopTail(vs, ind, cont)
}

func (t *trCtx) rangeStmt(x *ast.RangeStmt, ind string, cont func(string) string) string {
	if x.Tok != token.DEFINE && (x.Key != nil || x.Value != nil) {
		t.fail(x, "range with = is outside the subset")
	}
	ty := t.tyOf(x.X)
	if ty == nil {
		t.fail(x, "range over a value of unknown type")
	}
	switch ty.Underlying().(type) {
	case *types.Slice:
	case *types.Basic:
		if !isString(ty) {
			t.fail(x, "range over %s is outside the subset", ty)
		}
	default:
		t.fail(x, "range over %s is outside the subset", ty)
	}
	vs := t.assigned(x.Body.List)
	key, val := "_", "_"
	t.cur.depth++
	if id, ok := x.Key.(*ast.Ident); ok && id.Name != "_" {
		key = leanIdent(id.Name)
		t.cur.scope[id.Name] = t.cur.depth
		if isString(ty) {
			t.fail(x, "the index of a range over a string (a byte offset) is outside the subset")
		}
	}
	if id, ok := x.Value.(*ast.Ident); ok && id.Name != "_" {
		val = leanIdent(id.Name)
		t.cur.scope[id.Name] = t.cur.depth
	}
	for _, v := range vs {
		if v == exprString(x.X) {
			t.fail(x, "the loop body assigns the slice it ranges over: outside the subset")
		}
	}
	t.cur.loop++
	t.cur.loopVars = append(t.cur.loopVars, vs)
	savedSw := t.cur.inSwitch
	t.cur.inSwitch = 0
	body := t.block(x.Body.List, ind+"    ", func(ind string) string { return ind + "GoRT.Step.next " + tupleOf(vs) })
	t.cur.loop--
	t.cur.loopVars = t.cur.loopVars[:len(t.cur.loopVars)-1]
	t.cur.inSwitch = savedSw
	if id, ok := x.Key.(*ast.Ident); ok {
		delete(t.cur.scope, id.Name)
	}
	if id, ok := x.Value.(*ast.Ident); ok {
		delete(t.cur.scope, id.Name)
	}
	t.cur.depth--
	return ind + "match (GoRT.forEach " + t.atom(x.X) + " (fun (" + key + " : Int) " + val + " " + tupleOf(vs) + " =>\n" + body + ")\n" +
		ind + "    " + tupleOf(vs) + " : GoRT.Done (" + t.retType() + ") _)\n" + t.loopTail(vs, ind, cont)
}

// ---------------------------------------------------------------------------------------------------------------
// functions and files

// fieldAssigned: does the body assign a field of the variable `name`
func fieldAssigned(body *ast.BlockStmt, name string) bool {
	found := false
	ast.Inspect(body, func(n ast.Node) bool {
		if a, ok := n.(*ast.AssignStmt); ok && a.Tok != token.DEFINE {
			for _, l := range a.Lhs {
				if s, ok := l.(*ast.SelectorExpr); ok && exprString(s.X) == name {
					found = true
				}
			}
		}
		return true
	})
	return found
}

// paramIndex: position of the parameter `name` of fd, or -1
func paramIndex(fd *ast.FuncDecl, name string) int {
	idx := 0
	if fd.Type.Params != nil {
		for _, fld := range fd.Type.Params.List {
			for _, nm := range fld.Names {
				if nm.Name == name {
					return idx
				}
				idx++
			}
		}
	}
	return -1
}

func recvAssigned(fd *ast.FuncDecl) bool {
	if fd.Recv == nil || len(fd.Recv.List) != 1 || len(fd.Recv.List[0].Names) != 1 {
		return false
	}
	if _, ptr := fd.Recv.List[0].Type.(*ast.StarExpr); !ptr {
		return false
	}
	r := fd.Recv.List[0].Names[0].Name
	found := false
	ast.Inspect(fd.Body, func(n ast.Node) bool {
		if a, ok := n.(*ast.AssignStmt); ok && a.Tok != token.DEFINE {
			for _, l := range a.Lhs {
				if s, ok := l.(*ast.SelectorExpr); ok && exprString(s.X) == r {
					found = true
				}
			}
		}
		if a, ok := n.(*ast.IncDecStmt); ok {
			if s, ok := a.X.(*ast.SelectorExpr); ok && exprString(s.X) == r {
				found = true
			}
		}
		return true
	})
	return found
}

// dispatcher: the method `name` of an interface represented as a sum, by cases on the alternative
func (t *trCtx) dispatcher(f trFn) string {
	obj := t.tpkg.Scope().Lookup(f.recv)
	if obj == nil {
		t.fail(nil, "interface %s not found", f.recv)
	}
	it, ok := obj.Type().Underlying().(*types.Interface)
	if !ok {
		t.fail(nil, "%s is not an interface", f.recv)
	}
	ln := t.typ(nil, obj.Type())
	var sig *types.Signature
	for i := 0; i < it.NumMethods(); i++ {
		if it.Method(i).Name() == f.name {
			sig = it.Method(i).Type().(*types.Signature)
		}
	}
	if sig == nil {
		t.fail(nil, "method %s.%s not found", f.recv, f.name)
	}
	var ps, as []string
	for i := 0; i < sig.Params().Len(); i++ {
		ps = append(ps, fmt.Sprintf("(a%d : %s)", i, t.typ(nil, sig.Params().At(i).Type())))
		as = append(as, fmt.Sprintf("a%d", i))
	}
	var sb strings.Builder
	fmt.Fprintf(&sb, "/-- dynamic dispatch of `%s.%s` over the alternatives of the sum -/\ndef %s (m : %s) %s : %s :=\n  match m with\n", f.recv, f.name, f.lean(), ln, strings.Join(ps, " "), t.tuple(nil, sig.Results()))
	for _, c := range t.sumDefs[ln] {
		callee, ok := t.funcs[c[0]+"."+f.name]
		if !ok {
			t.fail(nil, "%s.%s is not in the translation list", c[0], f.name)
		}
		if t.mutRecv[callee.key()] || len(t.mutParams[callee.key()]) > 0 {
			t.fail(nil, "%s assigns its receiver or a parameter: dispatch is outside the subset", callee.key())
		}
		fmt.Fprintf(&sb, "  | .%s v => %s%s v %s\n", leanIdent(c[0]), callee.lean(), t.extraArgs(callee.key()), strings.Join(as, " "))
	}
	fmt.Fprintf(&sb, "  | _ => default\n\n")
	return sb.String()
}

func (t *trCtx) function(f trFn) (out string) {
	fd := t.p.fn(f.recv, f.name)
	defer func() {
		if r := recover(); r != nil {
			e, ok := r.(trErr)
			if !ok {
				panic(r)
			}
			out = fmt.Sprintf("/-- %s could not be translated: the tie that mentions it fails -/\ndef %s_untranslatable : String := %s\n\n", f.key(), f.lean(), leanStr(e.msg))
			fmt.Fprintf(os.Stderr, "extract: go2lean: %s: %s\n", f.key(), e.msg)
		}
	}()
	if trDispatch[f.key()] {
		return t.dispatcher(f)
	}
	if fd == nil || fd.Body == nil {
		t.fail(nil, "function %s not found", f.key())
	}
	obj, _ := t.info.Defs[fd.Name].(*types.Func)
	if obj == nil {
		t.fail(fd, "no type information")
	}
	sig := obj.Type().(*types.Signature)
	st := &trFnState{fd: fd, results: sig.Results(), scope: map[string]int{}, fuel: 400, key: f.key()}
	t.cur = st
	var ps []string
	if fd.Recv != nil {
		if len(fd.Recv.List[0].Names) == 1 {
			st.recv = fd.Recv.List[0].Names[0].Name
			st.mut = t.mutRecv[f.key()]
			if st.mut {
				st.mutVars = append(st.mutVars, st.recv)
			}
			ps = append(ps, "("+leanIdent(st.recv)+" : "+t.typ(fd, sig.Recv().Type())+")")
			st.scope[st.recv] = 0
		} else {
			ps = append(ps, "(_ : "+t.typ(fd, sig.Recv().Type())+")")
		}
	}
	st.dropped = map[string]bool{}
	for _, i := range t.mutParams[f.key()] {
		st.mutVars = append(st.mutVars, sig.Params().At(i).Name())
	}
	for i := 0; i < sig.Params().Len(); i++ {
		p := sig.Params().At(i)
		if !t.translatable(p.Type()) {
			st.dropped[p.Name()] = true
			continue
		}
		ps = append(ps, "("+leanIdent(p.Name())+" : "+t.typ(fd, p.Type())+")")
		st.scope[p.Name()] = 0
	}
	pre := ""
	if sig.Results() != nil {
		for i := 0; i < sig.Results().Len(); i++ {
			r := sig.Results().At(i)
			if r.Name() != "" && r.Name() != "_" {
				st.named = append(st.named, r.Name())
				st.scope[r.Name()] = 0
				pre += "  let " + leanIdent(r.Name()) + " : " + t.typ(fd, r.Type()) + " := " + t.zero(fd, r.Type()) + "\n"
			}
		}
	}
	var extra []string
	if t.needRnd[f.key()] {
		extra = append(extra, "(rnd : Int → Int)")
	}
	for _, e := range t.needExt[f.key()] {
		extra = append(extra, "(ext_"+e+" : "+t.externType(fd, e)+")")
	}
	ps = append(extra, ps...)
	rt := t.retType()
	body := pre + t.stmts(fd.Body.List, "  ", nil)
	pos := t.p.fset.Position(fd.Pos())
	return fmt.Sprintf("/-- translation of `%s` (%s) -/\ndef %s %s : %s :=\n%s\n\n", f.key(), shortPath(pos.Filename), f.lean(), strings.Join(ps, " "), rt, body)
}

// externType: the Lean type of the parameter that stands for an extern function (translatable parameters only)
func (t *trCtx) externType(n ast.Node, name string) string {
	obj, _ := t.tpkg.Scope().Lookup(name).(*types.Func)
	if obj == nil {
		t.fail(n, "extern %s not found", name)
	}
	sig := obj.Type().(*types.Signature)
	var ps []string
	for i := 0; i < sig.Params().Len(); i++ {
		if t.translatable(sig.Params().At(i).Type()) {
			ps = append(ps, paren(t.typ(n, sig.Params().At(i).Type())))
		}
	}
	return strings.Join(append(ps, paren(t.tuple(n, sig.Results()))), " → ")
}

// analyse computes, to a fixed point over the translated functions, which of them assign their receiver, draw random
// numbers or call externs (directly or through a translated callee).
func (t *trCtx) analyse(fns []trFn) {
	type facts struct {
		callees []string
		selfMut []string // translated methods called on the function's own receiver
	}
	fs := map[string]*facts{}
	for _, f := range fns {
		fd := t.p.fn(f.recv, f.name)
		if fd == nil || fd.Body == nil {
			continue
		}
		fc := &facts{}
		fs[f.key()] = fc
		t.mutRecv[f.key()] = recvAssigned(fd)
		// pointer parameters whose fields the body assigns
		if fd.Type.Params != nil {
			idx := 0
			for _, fld := range fd.Type.Params.List {
				for _, nm := range fld.Names {
					if _, ptr := fld.Type.(*ast.StarExpr); ptr && fieldAssigned(fd.Body, nm.Name) {
						t.mutParams[f.key()] = append(t.mutParams[f.key()], idx)
					}
					idx++
				}
			}
		}
		recv := ""
		if fd.Recv != nil && len(fd.Recv.List[0].Names) == 1 {
			recv = fd.Recv.List[0].Names[0].Name
		}
		ext := map[string]bool{}
		ast.Inspect(fd.Body, func(n ast.Node) bool {
			c, ok := n.(*ast.CallExpr)
			if !ok {
				return true
			}
			switch fun := c.Fun.(type) {
			case *ast.Ident:
				if trExtern[fun.Name] {
					ext[fun.Name] = true
				} else if _, ok := t.funcs[fun.Name]; ok {
					fc.callees = append(fc.callees, fun.Name)
				}
			case *ast.SelectorExpr:
				if id, ok := fun.X.(*ast.Ident); ok {
					if pn, isPkg := t.info.Uses[id].(*types.PkgName); isPkg {
						if pn.Imported().Path() == "math/rand" && fun.Sel.Name == "Intn" {
							t.needRnd[f.key()] = true
						}
						return true
					}
				}
				if o, ok := t.info.Uses[fun.Sel].(*types.Func); ok {
					if sig, ok := o.Type().(*types.Signature); ok && sig.Recv() != nil {
						rt := sig.Recv().Type()
						if p, ok := rt.(*types.Pointer); ok {
							rt = p.Elem()
						}
						if nt, ok := rt.(*types.Named); ok {
							k := nt.Obj().Name() + "." + fun.Sel.Name
							if _, ok := t.funcs[k]; ok {
								fc.callees = append(fc.callees, k)
								if recv != "" && exprString(fun.X) == recv {
									fc.selfMut = append(fc.selfMut, k)
								}
							}
						}
					}
				}
			}
			return true
		})
		for e := range ext {
			t.needExt[f.key()] = append(t.needExt[f.key()], e)
		}
		sort.Strings(t.needExt[f.key()])
	}
	for changed := true; changed; {
		changed = false
		for _, f := range fns {
			fd := t.p.fn(f.recv, f.name)
			if fd == nil || fd.Body == nil {
				continue
			}
			ast.Inspect(fd.Body, func(n ast.Node) bool {
				c, ok := n.(*ast.CallExpr)
				if !ok {
					return true
				}
				callee, ok := t.calleeOf(c)
				if !ok {
					return true
				}
				for _, mi := range t.mutParams[callee.key()] {
					if mi < len(c.Args) {
						if id, ok := c.Args[mi].(*ast.Ident); ok {
							if pi := paramIndex(fd, id.Name); pi >= 0 {
								has := false
								for _, x := range t.mutParams[f.key()] {
									has = has || x == pi
								}
								if !has {
									t.mutParams[f.key()] = append(t.mutParams[f.key()], pi)
									sort.Ints(t.mutParams[f.key()])
									changed = true
								}
							}
						}
					}
				}
				return true
			})
		}
		for k, fc := range fs {
			for _, c := range fc.selfMut {
				if t.mutRecv[c] && !t.mutRecv[k] {
					t.mutRecv[k], changed = true, true
				}
			}
			for _, c := range fc.callees {
				if t.needRnd[c] && !t.needRnd[k] {
					t.needRnd[k], changed = true, true
				}
				for _, e := range t.needExt[c] {
					has := false
					for _, e2 := range t.needExt[k] {
						has = has || e2 == e
					}
					if !has {
						t.needExt[k] = append(t.needExt[k], e)
						sort.Strings(t.needExt[k])
						changed = true
					}
				}
			}
		}
	}
}

func shortPath(p string) string {
	if i := strings.Index(p, "/stanza/"); i >= 0 {
		return p[i+1:]
	}
	return p[strings.LastIndex(p, "/")+1:]
}

// genTr translates the listed functions of one package into Gen/<name>.lean.
func genTr(name string, p *pkg, info *types.Info, tp *types.Package, fns []trFn) *genFile {
	g := &genFile{name: name}
	fmt.Fprintf(&g.sb, "-- GENERATED by /verif/go/extract (go2lean, tr.go) from /repo's working tree. Do not edit; never committed as truth.\nimport XmppVerif.GoRT\nset_option linter.unusedVariables false\nnamespace XmppVerif.Gen.%s\nopen XmppVerif\n\n", name)
	t := &trCtx{p: p, info: info, tpkg: tp, funcs: map[string]trFn{}, mutRecv: map[string]bool{}, mutParams: map[string][]int{}, seenSt: map[string]bool{},
		globals: map[string]bool{}, needRnd: map[string]bool{}, needExt: map[string][]string{}, seenSum: map[string]bool{}, sumDefs: map[string][][2]string{}, sumOpen: map[string]bool{}, sumGo: map[string]string{}, records: map[string][][2]string{}, stTypes: map[string]*types.Struct{}, inProgress: map[string]bool{}}
	for _, f := range fns {
		t.funcs[f.key()] = f
	}
	t.analyse(fns)
	var bodies []string
	for _, f := range fns {
		bodies = append(bodies, t.function(f))
	}
	for _, s := range t.structs {
		switch {
		case strings.HasPrefix(s, "sum:"):
			ln := s[4:]
			fmt.Fprintf(&g.sb, "/-- the interface %s as the sum of the types that implement it in the translated code -/\ninductive %s where\n  | nil\n", t.sumGo[ln], ln)
			for _, c := range t.sumDefs[ln] {
				fmt.Fprintf(&g.sb, "  | %s (v : %s)\n", leanIdent(c[0]), c[1])
			}
			if t.sumOpen[ln] {
				fmt.Fprintf(&g.sb, "  | other   -- any other dynamic type\n")
			}
			fmt.Fprintf(&g.sb, "  deriving Inhabited, DecidableEq, Repr\ndef %s.isNil : %s → Bool\n  | .nil => true\n  | _ => false\n\n", ln, ln)
		case strings.HasPrefix(s, "record:"):
			ln := s[7:]
			fmt.Fprintf(&g.sb, "/-- an interface value as the record of what its methods return -/\nstructure %s where\n  isNil : Bool := false\n", ln)
			for _, f := range t.records[ln] {
				fmt.Fprintf(&g.sb, "  %s : %s := default\n", leanIdent(f[0]), f[1])
			}
			fmt.Fprintf(&g.sb, "  deriving Inhabited, DecidableEq, Repr\ndef %s.nil : %s := { isNil := true }\n\n", ln, ln)
		default:
			g.sb.WriteString(t.structDecl(s))
		}
	}
	for _, d := range t.globalDecls {
		g.sb.WriteString(d + "\n")
	}
	for _, b := range bodies {
		g.sb.WriteString(b)
	}
	return g
}
