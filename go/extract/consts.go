package main

import (
	"go/ast"
	"go/token"
	"strconv"
	"strings"
)

const missingNat = "999999999" // sentinel: makes the Tie obligation fail

func natConst(p *pkg, name string) string {
	v, ok := p.constant(name)
	if !ok {
		return missingNat
	}
	if _, err := strconv.Atoi(v); err != nil {
		return missingNat
	}
	return v
}

// hasPrefixLiterals collects the string literals X in `strings.HasPrefix(_, X)` calls inside fn.
func hasPrefixLiterals(fd *ast.FuncDecl) []string {
	var out []string
	if fd == nil {
		return []string{"<missing function>"}
	}
	ast.Inspect(fd.Body, func(n ast.Node) bool {
		c, ok := n.(*ast.CallExpr)
		if !ok {
			return true
		}
		if exprString(c.Fun) == "strings.HasPrefix" && len(c.Args) == 2 {
			if bl, ok := c.Args[1].(*ast.BasicLit); ok && bl.Kind == token.STRING {
				s, _ := strconv.Unquote(bl.Value)
				out = append(out, s)
			}
		}
		return true
	})
	return out
}

// ensurePortDefault finds the literal second argument of the ensurePort(...) call in fn.
func ensurePortDefault(fd *ast.FuncDecl) string {
	res := missingNat
	if fd == nil {
		return res
	}
	ast.Inspect(fd.Body, func(n ast.Node) bool {
		c, ok := n.(*ast.CallExpr)
		if !ok {
			return true
		}
		if exprString(c.Fun) == "ensurePort" && len(c.Args) == 2 {
			if bl, ok := c.Args[1].(*ast.BasicLit); ok && bl.Kind == token.INT {
				res = bl.Value
			}
		}
		return true
	})
	return res
}

// runeList finds `invalidRunes := []rune{...}` in fn and returns the code points.
func runeList(fd *ast.FuncDecl) []int {
	var out []int
	if fd == nil {
		return []int{-1}
	}
	ast.Inspect(fd.Body, func(n ast.Node) bool {
		cl, ok := n.(*ast.CompositeLit)
		if !ok {
			return true
		}
		if at, ok := cl.Type.(*ast.ArrayType); ok && exprString(at.Elt) == "rune" {
			for _, e := range cl.Elts {
				if bl, ok := e.(*ast.BasicLit); ok && bl.Kind == token.CHAR {
					if u, err := strconv.Unquote(bl.Value); err == nil {
						for _, r := range u {
							out = append(out, int(r))
						}
					}
				}
			}
		}
		return true
	})
	return out
}

// returnShapes lists, in source order, the return expressions of fn as strings.
func returnShapes(fd *ast.FuncDecl) []string {
	var out []string
	if fd == nil {
		return []string{"<missing function>"}
	}
	ast.Inspect(fd.Body, func(n ast.Node) bool {
		if _, ok := n.(*ast.FuncLit); ok {
			return false
		}
		r, ok := n.(*ast.ReturnStmt)
		if !ok {
			return true
		}
		var parts []string
		for _, e := range r.Results {
			parts = append(parts, exprString(e))
		}
		out = append(out, strings.Join(parts, ", "))
		return true
	})
	return out
}

// mechanisms finds `mechanisms: []string{...}` in a constructor function.
func mechanisms(fd *ast.FuncDecl) []string {
	var out []string
	if fd == nil {
		return []string{"<missing function>"}
	}
	ast.Inspect(fd.Body, func(n ast.Node) bool {
		kv, ok := n.(*ast.KeyValueExpr)
		if !ok || exprString(kv.Key) != "mechanisms" {
			return true
		}
		if cl, ok := kv.Value.(*ast.CompositeLit); ok {
			for _, e := range cl.Elts {
				if bl, ok := e.(*ast.BasicLit); ok {
					s, _ := strconv.Unquote(bl.Value)
					out = append(out, s)
				}
			}
		}
		return true
	})
	return out
}

func strConst(p *pkg, name string) string {
	v, ok := p.constant(name)
	if !ok {
		return "<missing>"
	}
	s, err := strconv.Unquote(v)
	if err != nil {
		return "<missing>"
	}
	return s
}

func genConsts(root, st *pkg) *genFile {
	g := newGen("Consts")
	g.def("defaultBase", "Nat", natConst(root, "defaultBase"), "backoff.go const defaultBase")
	g.def("defaultFactor", "Nat", natConst(root, "defaultFactor"), "backoff.go const defaultFactor")
	g.def("defaultCap", "Nat", natConst(root, "defaultCap"), "backoff.go const defaultCap")
	g.def("clientDefaultPort", "Nat", ensurePortDefault(root.fn("", "NewClientTransport")), "literal port in NewClientTransport's ensurePort call")
	g.def("componentDefaultPort", "Nat", ensurePortDefault(root.fn("", "NewComponentTransport")), "literal port in NewComponentTransport's ensurePort call")
	g.def("clientWsPrefixes", "List String", leanStrList(hasPrefixLiterals(root.fn("", "NewClientTransport"))), "strings.HasPrefix literals in NewClientTransport")
	g.def("componentWsPrefixes", "List String", leanStrList(hasPrefixLiterals(root.fn("", "NewComponentTransport"))), "strings.HasPrefix literals in NewComponentTransport")
	g.def("ensurePortPrefix", "List String", leanStrList(hasPrefixLiterals(root.fn("", "ensurePort"))), "strings.HasPrefix literal in ensurePort")
	g.def("jidUserForbidden", "List Nat", leanNatList(runeList(st.fn("", "isUsernameValid"))), "invalidRunes of isUsernameValid (code points)")
	g.def("jidDomainForbidden", "List Nat", leanNatList(runeList(st.fn("", "isDomainValid"))), "invalidRunes of isDomainValid (code points)")
	g.def("passwordMechs", "List String", leanStrList(mechanisms(root.fn("", "Password"))), "mechanisms of Password(...)")
	g.def("oauthMechs", "List String", leanStrList(mechanisms(root.fn("", "OAuthToken"))), "mechanisms of OAuthToken(...)")
	g.def("nsStreamManagement", "String", leanStr(strConst(st, "NSStreamManagement")), "stanza.NSStreamManagement")
	g.def("initialPresence", "String", leanStr(strConst(root, "InitialPresence")), "InitialPresence")
	return g
}
