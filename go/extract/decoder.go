package main

import (
	"go/ast"
	"sort"
	"strings"
)

// genDecoder: how the library constructs and configures its xml.Decoders (byte-level part of C02). The Lean model of
// the tokenizer (Model/C02Bytes.lean) is a model of encoding/xml in its DEFAULT configuration (Strict, no Entity map,
// no AutoClose, DefaultSpace "") with the CharsetReader handed through from the user's Config (nil unless set), reading
// from a bufio.Reader of maxPacketSize bytes. Tie/C02Bytes.lean proves that the sites and option writes found here are
// exactly those.
func genDecoder(root, st *pkg) *genFile {
	g := newGen("Decoder")
	options := map[string]bool{"Strict": true, "AutoClose": true, "Entity": true, "CharsetReader": true, "DefaultSpace": true}
	var sites, writes, raw []string
	scan := func(p *pkg, prefix string) {
		for _, f := range p.files {
			for _, d := range f.Decls {
				fd, ok := d.(*ast.FuncDecl)
				if !ok || fd.Body == nil {
					continue
				}
				name := fd.Name.Name
				if fd.Recv != nil && len(fd.Recv.List) == 1 {
					name = typeName(fd.Recv.List[0].Type) + "." + name
				}
				name = prefix + name
				ast.Inspect(fd.Body, func(n ast.Node) bool {
					switch s := n.(type) {
					case *ast.CallExpr:
						switch fn := exprString(s.Fun); {
						case fn == "xml.NewDecoder" || fn == "xml.NewTokenDecoder":
							arg := ""
							if len(s.Args) > 0 {
								arg = exprString(s.Args[0])
							}
							sites = append(sites, name+": "+fn+"("+arg+")")
						case strings.HasSuffix(fn, ".RawToken"):
							raw = append(raw, name+": "+fn)
						}
					case *ast.AssignStmt:
						for i, l := range s.Lhs {
							if se, ok := l.(*ast.SelectorExpr); ok && options[se.Sel.Name] {
								// any field of that name, whatever the receiver is called
								rhs := ""
								if i < len(s.Rhs) {
									rhs = exprString(s.Rhs[i])
								}
								writes = append(writes, name+": "+exprString(l)+"="+rhs)
							}
						}
					}
					return true
				})
			}
		}
	}
	scan(root, "")
	scan(st, "stanza.")
	sort.Strings(sites)
	sort.Strings(writes)
	sort.Strings(raw)
	g.def("sites", "List String", leanStrList(sites), "every xml.NewDecoder / xml.NewTokenDecoder call outside tests and hooks: function: call(argument)")
	g.def("optionWrites", "List String", leanStrList(writes), "every assignment to Strict / AutoClose / Entity / CharsetReader / DefaultSpace of a decoder")
	g.def("rawTokenCalls", "List String", leanStrList(raw), "calls of Decoder.RawToken (which skips namespace translation and the nesting check)")
	mps, ok := root.constant("maxPacketSize")
	if !ok {
		mps = "0"
	}
	g.def("maxPacketSize", "Nat", mps, "size of the bufio.Reader in front of the decoder")
	return g
}
