package main

import (
	"fmt"
	"go/ast"
	"go/token"
	"sort"
	"strings"
)

// Gen/C01Schema.lean: for every struct type of stanza/ that is reachable from a TypeRegistry entry (and the entry
// types themselves), the type as encoding/xml's getTypeInfo sees it, printed as a term of Model.C01S.Ty:
// XMLName (tagged / dynamic / none), then per field of typeInfo.fields (embedded structs flattened, XMLName,
// unexported and `xml:"-"` fields dropped) the fieldInfo header (mode, (xmlns, name), omitempty) and the field's type.
// Anything outside the Lean model is printed as `.unsupported "<why>"` / `Mode.other`, never dropped, so that the
// tie (Tie/C01Schema.lean) breaks instead of the model silently covering less.

type sField struct {
	mode   string // attr | elem | any | innerxml | other
	space  string
	name   string
	om     bool
	ty     string // Lean term
	goName string
}

type sStruct struct {
	xn     string // Lean term of XN
	fields []sField
	bad    string // non-empty: the whole struct is unsupported
}

type schemaGen struct {
	p       *pkg
	done    map[string]bool
	order   []string          // named struct types in dependency order
	terms   map[string]string // Lean term per named struct type
	custom  map[string]string // type name -> "MarshalXML" / "UnmarshalXML" / both
	visited map[string]bool
}

func (p *pkg) typeSpec(name string) *ast.TypeSpec {
	for _, f := range p.files {
		for _, d := range f.Decls {
			gd, ok := d.(*ast.GenDecl)
			if !ok || gd.Tok != token.TYPE {
				continue
			}
			for _, s := range gd.Specs {
				ts := s.(*ast.TypeSpec)
				if ts.Name.Name == name {
					return ts
				}
			}
		}
	}
	return nil
}

// customCodecs: receiver type name -> which of MarshalXML / UnmarshalXML / MarshalText / UnmarshalText /
// MarshalXMLAttr / UnmarshalXMLAttr it declares
func customCodecs(p *pkg) map[string]string {
	out := map[string]string{}
	for _, f := range p.files {
		for _, d := range f.Decls {
			fd, ok := d.(*ast.FuncDecl)
			if !ok || fd.Recv == nil || len(fd.Recv.List) != 1 {
				continue
			}
			switch fd.Name.Name {
			case "MarshalXML", "UnmarshalXML", "MarshalText", "UnmarshalText", "MarshalXMLAttr", "UnmarshalXMLAttr":
				r := typeName(fd.Recv.List[0].Type)
				if out[r] != "" {
					out[r] += "+"
				}
				out[r] += fd.Name.Name
			}
		}
	}
	return out
}

func leanChars(s string) string {
	if s == "" {
		return "[]"
	}
	return "(" + leanStr(s) + ").toList"
}

func leanName(space, local string) string {
	return "⟨" + leanChars(space) + ", " + leanChars(local) + "⟩"
}

var sPrims = map[string]string{
	"string": ".prim .str", "bool": ".prim .bool",
	"int": ".prim (.int 64)", "int8": ".prim (.int 8)", "int16": ".prim (.int 16)", "int32": ".prim (.int 32)", "int64": ".prim (.int 64)",
	"uint": ".prim .uint",
}

func unsup(why string) string { return "(.unsupported " + leanStr(why) + ")" }

// tyTerm: the Lean term for a Go type expression.
func (g *schemaGen) tyTerm(e ast.Expr) string {
	switch t := e.(type) {
	case *ast.Ident:
		if p, ok := sPrims[t.Name]; ok {
			return "(" + p + ")"
		}
		ts := g.p.typeSpec(t.Name)
		if ts == nil {
			return unsup("type " + t.Name)
		}
		if c := g.custom[t.Name]; c != "" {
			if t.Name == "Node" {
				return ".node"
			}
			if t.Name == "History" {
				// hand-written MarshalXML / UnmarshalXML modelled as a leaf of the schema type (Model/C01Schema.lean)
				return ".history"
			}
			return unsup("custom codec " + t.Name + ": " + c)
		}
		switch u := ts.Type.(type) {
		case *ast.StructType:
			g.named(t.Name, u)
			return "ty" + t.Name
		case *ast.InterfaceType:
			return ".iface"
		case *ast.Ident:
			// a defined type over a primitive (`type StanzaType string`): same kind
			return g.tyTerm(u)
		}
		return unsup("type " + t.Name)
	case *ast.StarExpr:
		return "(.ptr " + g.tyTerm(t.X) + ")"
	case *ast.ArrayType:
		if t.Len != nil {
			return unsup("array")
		}
		if id, ok := t.Elt.(*ast.Ident); ok && (id.Name == "byte" || id.Name == "uint8") {
			return unsup("[]byte")
		}
		return "(.slice " + g.tyTerm(t.Elt) + ")"
	case *ast.StructType:
		return g.structTerm("", t)
	case *ast.InterfaceType:
		return ".iface"
	case *ast.SelectorExpr:
		return unsup(exprString(t))
	}
	return unsup(exprString(e))
}

func (g *schemaGen) named(name string, st *ast.StructType) {
	if g.done[name] {
		return
	}
	if g.visited[name] {
		// a recursive reflection-coded type: outside the model
		g.terms[name] = unsup("recursive type " + name)
		return
	}
	g.visited[name] = true
	term := g.structTerm(name, st)
	if _, cyc := g.terms[name]; !cyc {
		g.terms[name] = term
	}
	g.done[name] = true
	g.order = append(g.order, name)
}

// isStructType: the named type (pointer stripped) whose underlying type is a struct and that has no custom codec
func (g *schemaGen) embeddedStruct(e ast.Expr) (string, *ast.StructType, bool) {
	ptr := false
	if s, ok := e.(*ast.StarExpr); ok {
		e, ptr = s.X, true
	}
	id, ok := e.(*ast.Ident)
	if !ok {
		return "", nil, false
	}
	ts := g.p.typeSpec(id.Name)
	if ts == nil {
		return "", nil, false
	}
	st, ok := ts.Type.(*ast.StructType)
	if !ok {
		return "", nil, false
	}
	_ = ptr
	return id.Name, st, true
}

// lookupXMLName of typeinfo.go: pointers stripped, struct kind only, a valid XMLName tag with a non-empty name.
func (g *schemaGen) lookupXMLName(e ast.Expr) (space, name string, ok bool) {
	for {
		s, isPtr := e.(*ast.StarExpr)
		if !isPtr {
			break
		}
		e = s.X
	}
	var st *ast.StructType
	switch t := e.(type) {
	case *ast.Ident:
		ts := g.p.typeSpec(t.Name)
		if ts == nil {
			return
		}
		st, _ = ts.Type.(*ast.StructType)
	case *ast.StructType:
		st = t
	}
	if st == nil {
		return
	}
	for _, f := range st.Fields.List {
		for _, n := range f.Names {
			if n.Name == "XMLName" {
				tag := xmlTag(f)
				sp := ""
				if i := strings.Index(tag, " "); i >= 0 {
					sp, tag = tag[:i], tag[i+1:]
				}
				nm := strings.Split(tag, ",")[0]
				if nm != "" {
					return sp, nm, true
				}
				return
			}
		}
	}
	return
}

// collect mirrors getTypeInfo for one struct type.
func (g *schemaGen) collect(st *ast.StructType) sStruct {
	out := sStruct{xn: ".absent"}
	haveXN := false
	for _, f := range st.Fields.List {
		tag := xmlTag(f)
		names := []string{}
		anonymous := len(f.Names) == 0
		if anonymous {
			names = []string{strings.TrimPrefix(typeName(f.Type), "xml.")}
		} else {
			for _, n := range f.Names {
				names = append(names, n.Name)
			}
		}
		for _, fname := range names {
			if (!ast.IsExported(fname) && !anonymous) || tag == "-" {
				continue
			}
			if anonymous {
				if _, est, ok := g.embeddedStruct(f.Type); ok {
					if _, isPtr := f.Type.(*ast.StarExpr); isPtr {
						out.bad = "embedded pointer to struct"
						continue
					}
					if c := g.custom[typeName(f.Type)]; c != "" {
						out.bad = "embedded type with custom codec"
						continue
					}
					inner := g.collect(est)
					if inner.bad != "" {
						out.bad = inner.bad
					}
					if !haveXN && inner.xn != ".absent" {
						out.xn, haveXN = inner.xn, true
					}
					out.fields = append(out.fields, inner.fields...)
					continue
				}
			}
			// structFieldInfo
			sp := ""
			if i := strings.Index(tag, " "); i >= 0 {
				sp, tag = tag[:i], tag[i+1:]
			}
			toks := strings.Split(tag, ",")
			nm := toks[0]
			mode, om := "elem", false
			nmodes := 0
			for _, fl := range toks[1:] {
				switch fl {
				case "attr":
					mode = "attr"
					nmodes++
				case "any":
					if mode == "attr" {
						mode = "other"
					} else {
						mode = "any"
					}
					nmodes++
				case "innerxml":
					mode = "innerxml"
					nmodes++
				case "cdata", "chardata", "comment":
					mode = "other"
					nmodes++
				case "omitempty":
					om = true
				}
			}
			if nmodes > 1 {
				mode = "other"
			}
			if fname == "XMLName" {
				if !haveXN {
					haveXN = true
					switch {
					case exprString(f.Type) != "xml.Name":
						out.bad = "XMLName is not an xml.Name"
					case nm != "":
						out.xn = "(.tag " + leanName(sp, nm) + ")"
					default:
						out.xn = ".dyn"
					}
				}
				continue
			}
			fld := sField{mode: mode, space: sp, name: nm, om: om, goName: fname}
			if nm == "" {
				if xs, xn, ok := g.lookupXMLName(f.Type); ok {
					fld.space, fld.name = xs, xn
				} else {
					fld.name = fname
				}
			} else if strings.Contains(nm, ">") {
				fld.mode = "other"
			} else if mode == "elem" {
				if _, xn, ok := g.lookupXMLName(f.Type); ok && xn != nm {
					out.bad = "field name conflicts with XMLName of its type"
				}
			}
			fld.ty = g.tyTerm(f.Type)
			out.fields = append(out.fields, fld)
		}
	}
	// addFieldInfo: two fields of the same mode with the same name conflict (shadowing by depth is not modelled)
	for i := range out.fields {
		for j := i + 1; j < len(out.fields); j++ {
			a, b := out.fields[i], out.fields[j]
			if a.mode == b.mode && a.name == b.name && (a.space == "" || b.space == "" || a.space == b.space) {
				out.bad = "conflicting fields " + a.goName + " / " + b.goName
			}
		}
	}
	return out
}

func (g *schemaGen) structTerm(name string, st *ast.StructType) string {
	s := g.collect(st)
	if s.bad != "" {
		return unsup(name + ": " + s.bad)
	}
	var hs, ts []string
	for _, f := range s.fields {
		hs = append(hs, fmt.Sprintf("⟨.%s, %s, %v⟩", f.mode, leanName(f.space, f.name), f.om))
		ts = append(ts, f.ty)
	}
	return fmt.Sprintf("(.struct %s %s\n    [%s]\n    [%s])", leanChars(name), s.xn, strings.Join(hs, ", "), strings.Join(ts, ", "))
}

// registryTypeNames: the Go type of every MapExtension call, in file order, without duplicates.
func registryTypeNames(p *pkg) []string {
	var out []string
	seen := map[string]bool{}
	for _, e := range registryEntries(p) {
		// (kind, space, local, type)
		i := strings.LastIndex(e, ", \"")
		t := strings.Trim(e[i+2:], "\")")
		if !seen[t] {
			seen[t] = true
			out = append(out, t)
		}
	}
	return out
}

// dispatchCases: for a type whose hand-written UnmarshalXML switches on the child's local name and decodes into a
// value of a fixed Go type per arm: (case label, Go type of the first composite literal / &T{} in the arm), in
// source order. Arms without a composite literal (default, skip) are left out.
func dispatchCases(p *pkg, recv string) [][2]string {
	fd := p.fn(recv, "UnmarshalXML")
	var out [][2]string
	if fd == nil {
		return [][2]string{{"<missing>", ""}}
	}
	ast.Inspect(fd.Body, func(n ast.Node) bool {
		cc, ok := n.(*ast.CaseClause)
		if !ok || len(cc.List) != 1 {
			return true
		}
		bl, ok := cc.List[0].(*ast.BasicLit)
		if !ok || bl.Kind != token.STRING {
			return true
		}
		label := strings.Trim(bl.Value, "\"")
		typ := ""
		for _, st := range cc.Body {
			ast.Inspect(st, func(m ast.Node) bool {
				if cl, ok := m.(*ast.CompositeLit); ok && typ == "" {
					typ = exprString(cl.Type)
				}
				return true
			})
		}
		if typ != "" {
			out = append(out, [2]string{label, typ})
		}
		return true
	})
	return out
}

// the types with a hand-written name-dispatching UnmarshalXML that Model/C01Dispatch.lean describes
var dispatchTypes = []string{"PubSubOwner", "PubSubEvent", "Command"}

// fieldNamesOf: Go field names and type expressions of a struct, in order (XMLName and embedded interfaces included)
func fieldNamesOf(p *pkg, name string) []string {
	st := p.structType(name)
	var out []string
	if st == nil {
		return []string{"<missing>"}
	}
	for _, f := range st.Fields.List {
		tag := xmlTag(f)
		if len(f.Names) == 0 {
			out = append(out, exprString(f.Type)+" "+exprString(f.Type)+" "+tag)
		}
		for _, n := range f.Names {
			out = append(out, n.Name+" "+strings.ReplaceAll(exprString(f.Type), "<*ast.StructType>", "struct{}")+" "+tag)
		}
	}
	return out
}

func genC01Schema(st *pkg) *genFile {
	g := &schemaGen{p: st, done: map[string]bool{}, terms: map[string]string{}, custom: customCodecs(st), visited: map[string]bool{}}
	gf := &genFile{name: "C01Schema"}
	fmt.Fprintf(&gf.sb, "import XmppVerif.Model.C01Schema\n-- GENERATED by /verif/go/extract from /repo's working tree. Do not edit; never committed as truth.\nnamespace XmppVerif.Gen.C01Schema\nopen XmppVerif.Model.C01S\n\n")
	roots := registryTypeNames(st)
	// reflection-coded parts of the types with a hand-written decoder, and helper types worth a standalone theorem
	var top []string
	for _, r := range roots {
		ts := st.typeSpec(r)
		if ts == nil {
			g.terms[r] = unsup("type " + r + " not found")
			g.order = append(g.order, r)
			top = append(top, r)
			continue
		}
		top = append(top, r)
		if c := g.custom[r]; c != "" {
			g.terms[r] = unsup("custom codec " + r + ": " + c)
			g.done[r] = true
			g.order = append(g.order, r)
			continue
		}
		if u, ok := ts.Type.(*ast.StructType); ok {
			g.named(r, u)
		} else {
			g.terms[r] = unsup("type " + r + " is not a struct")
			g.order = append(g.order, r)
		}
	}
	// the types decoded by the arms of the name-dispatching hand-written decoders
	var disp []string
	for _, dt := range dispatchTypes {
		var rows []string
		for _, c := range dispatchCases(st, dt) {
			rows = append(rows, fmt.Sprintf("(%s, %s)", leanStr(c[0]), leanStr(c[1])))
			if ts := st.typeSpec(c[1]); ts != nil {
				if u, ok := ts.Type.(*ast.StructType); ok && g.custom[c[1]] == "" {
					g.named(c[1], u)
				}
			}
		}
		disp = append(disp, fmt.Sprintf("(%s, [%s], %s)", leanStr(dt), strings.Join(rows, ", "), leanStrList(fieldNamesOf(st, dt))))
	}
	for _, n := range g.order {
		gf.def("ty"+n, "Ty", g.terms[n], "stanza."+n+" as encoding/xml's getTypeInfo sees it")
	}
	gf.def("dispatch", "List (String × List (String × String) × List String)", "["+strings.Join(disp, ",\n  ")+"]", "hand-written UnmarshalXML that switches on the child's local name: (type, [(case label, Go type decoded in that arm)], the struct's fields as `name type tag`)")
	var rows []string
	for _, r := range top {
		rows = append(rows, fmt.Sprintf("(%s, ty%s)", leanStr(r), r))
	}
	gf.def("registryTypes", "List (String × Ty)", "["+strings.Join(rows, ",\n  ")+"]", "the Go type registered by every TypeRegistry.MapExtension call (file order, no duplicates)")
	var all []string
	for _, n := range g.order {
		all = append(all, fmt.Sprintf("(%s, ty%s)", leanStr(n), n))
	}
	gf.def("allTypes", "List (String × Ty)", "["+strings.Join(all, ",\n  ")+"]", "every struct type reachable from the registry, dependency order")
	var cc []string
	for k, v := range g.custom {
		cc = append(cc, fmt.Sprintf("(%s, %s)", leanStr(k), leanStr(v)))
	}
	sort.Strings(cc)
	gf.def("customCodecs", "List (String × String)", "["+strings.Join(cc, ",\n  ")+"]", "types of stanza/ with hand-written codec methods (the reflection schema does not describe them)")
	return gf
}
