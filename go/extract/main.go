// Command extract regenerates /verif/lean/XmppVerif/Gen/*.lean from the CURRENT working tree of /repo.
// It is deliberately tiny: go/parser + go/ast visitors that read off facts (constants, literal tables, the
// shape of a few functions) and print them as plain Lean data. The Tie/*.lean modules then prove, by `decide`,
// that these facts equal what the hand-written models assume. A fact that cannot be found is emitted as a
// sentinel value so that the Tie obligation fails (never silently defaulted).
package main

import (
	"flag"
	"fmt"
	"go/ast"
	"go/parser"
	"go/token"
	"go/types"
	"os"
	"path/filepath"
	"sort"
	"strconv"
	"strings"
)

type pkg struct {
	fset  *token.FileSet
	files []*ast.File
}

func load(dir string) *pkg {
	p := &pkg{fset: token.NewFileSet()}
	ents, err := os.ReadDir(dir)
	if err != nil {
		fmt.Fprintln(os.Stderr, err)
		os.Exit(1)
	}
	var names []string
	for _, e := range ents {
		n := e.Name()
		if e.IsDir() || !strings.HasSuffix(n, ".go") || strings.HasSuffix(n, "_test.go") {
			continue
		}
		names = append(names, n)
	}
	sort.Strings(names)
	for _, n := range names {
		src, err := os.ReadFile(filepath.Join(dir, n))
		if err != nil {
			continue
		}
		// skip the verification hooks themselves (build tag verif)
		if strings.Contains(string(src[:min(len(src), 200)]), "go:build verif") {
			continue
		}
		f, err := parser.ParseFile(p.fset, filepath.Join(dir, n), src, parser.ParseComments)
		if err != nil {
			fmt.Fprintf(os.Stderr, "extract: parse %s: %v\n", n, err)
			continue
		}
		p.files = append(p.files, f)
	}
	return p
}

// fn finds a function or method: recv == "" for plain functions, else the receiver's type name (pointer stripped).
func (p *pkg) fn(recv, name string) *ast.FuncDecl {
	for _, f := range p.files {
		for _, d := range f.Decls {
			fd, ok := d.(*ast.FuncDecl)
			if !ok || fd.Name.Name != name {
				continue
			}
			r := ""
			if fd.Recv != nil && len(fd.Recv.List) == 1 {
				r = typeName(fd.Recv.List[0].Type)
			}
			if r == recv {
				return fd
			}
		}
	}
	return nil
}

func typeName(e ast.Expr) string {
	switch t := e.(type) {
	case *ast.StarExpr:
		return typeName(t.X)
	case *ast.Ident:
		return t.Name
	case *ast.SelectorExpr:
		return typeName(t.X) + "." + t.Sel.Name
	}
	return "?"
}

// constant finds a package-level const/var with a basic literal value.
func (p *pkg) constant(name string) (string, bool) {
	for _, f := range p.files {
		for _, d := range f.Decls {
			gd, ok := d.(*ast.GenDecl)
			if !ok {
				continue
			}
			for _, s := range gd.Specs {
				vs, ok := s.(*ast.ValueSpec)
				if !ok {
					continue
				}
				for i, n := range vs.Names {
					if n.Name == name && i < len(vs.Values) {
						if bl, ok := vs.Values[i].(*ast.BasicLit); ok {
							return bl.Value, true
						}
					}
				}
			}
		}
	}
	return "", false
}

func exprString(e ast.Expr) string {
	switch t := e.(type) {
	case *ast.Ident:
		return t.Name
	case *ast.BasicLit:
		return t.Value
	case *ast.SelectorExpr:
		return exprString(t.X) + "." + t.Sel.Name
	case *ast.CallExpr:
		var args []string
		for _, a := range t.Args {
			args = append(args, exprString(a))
		}
		return exprString(t.Fun) + "(" + strings.Join(args, ",") + ")"
	case *ast.BinaryExpr:
		return "(" + exprString(t.X) + t.Op.String() + exprString(t.Y) + ")"
	case *ast.UnaryExpr:
		return t.Op.String() + exprString(t.X)
	case *ast.StarExpr:
		return "*" + exprString(t.X)
	case *ast.ParenExpr:
		return exprString(t.X)
	case *ast.IndexExpr:
		return exprString(t.X) + "[" + exprString(t.Index) + "]"
	case *ast.TypeAssertExpr:
		if t.Type == nil {
			return exprString(t.X) + ".(type)"
		}
		return exprString(t.X) + ".(" + exprString(t.Type) + ")"
	case *ast.CompositeLit:
		return exprString(t.Type) + "{…}"
	case *ast.FuncLit:
		return "func{…}"
	case *ast.ArrayType:
		return "[]" + exprString(t.Elt)
	case *ast.SliceExpr:
		return exprString(t.X) + "[:]"
	case *ast.KeyValueExpr:
		return exprString(t.Key) + ":" + exprString(t.Value)
	case nil:
		return ""
	}
	return fmt.Sprintf("<%T>", e)
}

// ---- Lean printing ---------------------------------------------------------------------------

func leanStr(s string) string {
	var sb strings.Builder
	sb.WriteByte('"')
	for _, r := range s {
		switch {
		case r == '"':
			sb.WriteString("\\\"")
		case r == '\\':
			sb.WriteString("\\\\")
		case r == '\n':
			sb.WriteString("\\n")
		case r == '\t':
			sb.WriteString("\\t")
		case r < 32 || r == 127:
			fmt.Fprintf(&sb, "\\x%02x", r)
		default:
			sb.WriteRune(r)
		}
	}
	sb.WriteByte('"')
	return sb.String()
}

func leanStrList(xs []string) string {
	q := make([]string, len(xs))
	for i, x := range xs {
		q[i] = leanStr(x)
	}
	return "[" + strings.Join(q, ", ") + "]"
}

func leanNatList(xs []int) string {
	q := make([]string, len(xs))
	for i, x := range xs {
		q[i] = strconv.Itoa(x)
	}
	return "[" + strings.Join(q, ", ") + "]"
}

type genFile struct {
	name string
	sb   strings.Builder
}

func newGen(name string) *genFile {
	g := &genFile{name: name}
	fmt.Fprintf(&g.sb, "-- GENERATED by /verif/go/extract from /repo's working tree. Do not edit; never committed as truth.\nnamespace XmppVerif.Gen.%s\n\n", name)
	return g
}
func (g *genFile) def(name, typ, val, comment string) {
	if comment != "" {
		fmt.Fprintf(&g.sb, "/-- %s -/\n", comment)
	}
	fmt.Fprintf(&g.sb, "def %s : %s := %s\n\n", name, typ, val)
}
func (g *genFile) write(dir string) error {
	fmt.Fprintf(&g.sb, "end XmppVerif.Gen.%s\n", g.name)
	return os.WriteFile(filepath.Join(dir, g.name+".lean"), []byte(g.sb.String()), 0o644)
}

func main() {
	repo := flag.String("repo", "/repo", "repository root")
	out := flag.String("out", "", "output directory for Gen/*.lean")
	flag.Parse()
	if *out == "" {
		fmt.Fprintln(os.Stderr, "extract: -out required")
		os.Exit(2)
	}
	os.MkdirAll(*out, 0o755)
	root := load(*repo)
	st := load(filepath.Join(*repo, "stanza"))
	ok := true
	for _, g := range []*genFile{genConsts(root, st)} {
		if err := g.write(*out); err != nil {
			fmt.Fprintln(os.Stderr, err)
			ok = false
		}
	}
	stInfo, stPkg := typecheck(st, "stanza", nil)
	rootInfo, rootPkg := typecheck(root, "xmpp", map[string]*types.Package{"gosrc.io/xmpp/stanza": stPkg})
	for _, g := range []*genFile{
		genTr("TrStanza", st, stInfo, stPkg, []trFn{{"UnAckQueue", "Peek"}, {"UnAckQueue", "PeekN"}, {"UnAckQueue", "Pop"}, {"UnAckQueue", "PopN"},
			{"UnAckQueue", "Push"}, {"UnAckQueue", "Empty"}, {"", "isInvalid"}, {"", "isUsernameValid"}, {"", "isDomainValid"}, {"", "NewJid"},
			{"Jid", "Bare"}, {"Jid", "Full"}}),
		genTr("TrRoot", root, rootInfo, rootPkg, []trFn{{"", "ensurePort"}, {"", "NewClientTransport"}, {"", "NewComponentTransport"},
			{"backoff", "setDefault"}, {"backoff", "durationForAttempt"}, {"backoff", "duration"}, {"backoff", "reset"},
			{"", "isSupportedMech"}, {"", "authSASL"},
			{"", "matchInArray"}, {"nameMatcher", "Match"}, {"nsTypeMatcher", "Match"}, {"nsIQMatcher", "Match"},
			{"Matcher", "Match"}, {"Route", "Match"}, {"Router", "Match"}}),
	} {
		if err := g.write(*out); err != nil {
			fmt.Fprintln(os.Stderr, err)
			ok = false
		}
	}
	if err := genFx(*out, []struct {
		p    *pkg
		info *types.Info
		tag  string
	}{{root, rootInfo, ""}, {st, stInfo, "stanza/"}}, map[string]bool{"Client.Send": true, "Client.SendRaw": true, "resendStz": true,
		"Client.Connect": true, "Client.Resume": true, "Client.connect": true, "Component.Resume": true, "Component.Connect": true,
		"XMPPTransport.StartTLS": true, "XMPPTransport.Connect": true, "Component.Send": true, "Component.SendRaw": true, "iqNotImplemented": true, "NewClient": true, "NewComponent": true, "NewSession": true, "Client.recv": true, "Component.recv": true, "keepalive": true, "Client.Disconnect": true, "Component.Disconnect": true, "StreamManager.Stop": true, "StreamManager.connect": true}); err != nil {
		fmt.Fprintln(os.Stderr, err)
		ok = false
	}
	for _, g := range extraGens(root, st) {
		if err := g.write(*out); err != nil {
			fmt.Fprintln(os.Stderr, err)
			ok = false
		}
	}
	if !ok {
		os.Exit(1)
	}
	fmt.Println("extract: wrote Gen/*.lean")
}
