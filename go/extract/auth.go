package main

import (
	"go/ast"
	"go/token"
	"strconv"
	"strings"
)

// Facts for C14 (auth.go, stanza/sasl_auth.go, session.go) and C16 (component.go, stanza/parser.go).

// concatOperands flattens a chain of string `+` into its operands, in order.
func concatOperands(e ast.Expr) []string {
	if p, ok := e.(*ast.ParenExpr); ok {
		return concatOperands(p.X)
	}
	if b, ok := e.(*ast.BinaryExpr); ok && b.Op == token.ADD {
		return append(concatOperands(b.X), concatOperands(b.Y)...)
	}
	return []string{exprString(e)}
}

// assignedExpr finds the right-hand side of the first `name := …` / `name = …` in fn.
func assignedExpr(fd *ast.FuncDecl, name string) ast.Expr {
	var res ast.Expr
	if fd == nil {
		return nil
	}
	ast.Inspect(fd.Body, func(n ast.Node) bool {
		if res != nil {
			return false
		}
		a, ok := n.(*ast.AssignStmt)
		if !ok || len(a.Lhs) != 1 || len(a.Rhs) != 1 {
			return true
		}
		if id, ok := a.Lhs[0].(*ast.Ident); ok && id.Name == name {
			res = a.Rhs[0]
		}
		return true
	})
	return res
}

// stmtStrings renders simple statements (assignments, break, return, calls) of a block, in order.
func stmtStrings(stmts []ast.Stmt) []string {
	var out []string
	for _, st := range stmts {
		switch s := st.(type) {
		case *ast.AssignStmt:
			var l, r []string
			for _, e := range s.Lhs {
				l = append(l, exprString(e))
			}
			for _, e := range s.Rhs {
				r = append(r, exprString(e))
			}
			out = append(out, strings.Join(l, ",")+s.Tok.String()+strings.Join(r, ","))
		case *ast.BranchStmt:
			out = append(out, s.Tok.String())
		case *ast.ReturnStmt:
			var r []string
			for _, e := range s.Results {
				r = append(r, exprString(e))
			}
			out = append(out, "return "+strings.Join(r, ","))
		case *ast.ExprStmt:
			out = append(out, exprString(s.X))
		case *ast.GoStmt:
			out = append(out, "go "+exprString(s.Call))
		case *ast.IfStmt:
			out = append(out, "if "+exprString(s.Cond)+" {"+strings.Join(stmtStrings(s.Body.List), "; ")+"}")
		case *ast.SwitchStmt:
			var arms []string
			for _, cc := range s.Body.List {
				cl := cc.(*ast.CaseClause)
				var ts []string
				for _, t := range cl.List {
					ts = append(ts, exprString(t))
				}
				if cl.List == nil {
					ts = []string{"default"}
				}
				arms = append(arms, "case "+strings.Join(ts, ",")+": "+strings.Join(stmtStrings(cl.Body), "; "))
			}
			out = append(out, "switch "+exprString(s.Tag)+" {"+strings.Join(arms, " | ")+"}")
		default:
			out = append(out, "<stmt>")
		}
	}
	return out
}

// firstRange describes the first `for … := range X { if COND { BODY } }` of fn: [X, COND, BODY…].
func firstRange(fd *ast.FuncDecl) []string {
	if fd == nil {
		return []string{"<missing function>"}
	}
	var out []string
	ast.Inspect(fd.Body, func(n ast.Node) bool {
		if out != nil {
			return false
		}
		r, ok := n.(*ast.RangeStmt)
		if !ok {
			return true
		}
		out = []string{exprString(r.X)}
		out = append(out, stmtStrings(r.Body.List)...)
		return false
	})
	if out == nil {
		return []string{"<no range loop>"}
	}
	return out
}

// switchArms describes the first switch (expression or type switch) of fn whose tag renders as `tag`:
// per arm the case expressions ("default" for the default arm) and the rendered statements.
func switchArms(fd *ast.FuncDecl, tag string) []swCase {
	if fd == nil {
		return []swCase{{types: []string{"<missing function>"}}}
	}
	var body *ast.BlockStmt
	ast.Inspect(fd.Body, func(n ast.Node) bool {
		if body != nil {
			return false
		}
		switch s := n.(type) {
		case *ast.SwitchStmt:
			if exprString(s.Tag) == tag {
				body = s.Body
			}
		case *ast.TypeSwitchStmt:
			t := ""
			switch a := s.Assign.(type) {
			case *ast.AssignStmt:
				t = exprString(a.Rhs[0])
			case *ast.ExprStmt:
				t = exprString(a.X)
			}
			if t == tag {
				body = s.Body
			}
		}
		return true
	})
	if body == nil {
		return []swCase{{types: []string{"<no switch on " + tag + ">"}}}
	}
	var out []swCase
	for _, cc := range body.List {
		cl := cc.(*ast.CaseClause)
		var c swCase
		for _, t := range cl.List {
			c.types = append(c.types, exprString(t))
		}
		if cl.List == nil {
			c.types = []string{"default"}
		}
		c.actions = stmtStrings(cl.Body)
		out = append(out, c)
	}
	return out
}

// structTags lists "Field type `tag`" for a struct type.
func structTags(p *pkg, name string) []string {
	for _, f := range p.files {
		for _, d := range f.Decls {
			gd, ok := d.(*ast.GenDecl)
			if !ok {
				continue
			}
			for _, s := range gd.Specs {
				ts, ok := s.(*ast.TypeSpec)
				if !ok || ts.Name.Name != name {
					continue
				}
				stt, ok := ts.Type.(*ast.StructType)
				if !ok {
					continue
				}
				var out []string
				for _, fl := range stt.Fields.List {
					tag := ""
					if fl.Tag != nil {
						tag, _ = strconv.Unquote(fl.Tag.Value)
					}
					for _, n := range fl.Names {
						out = append(out, n.Name+" "+exprString(fl.Type)+" "+tag)
					}
				}
				return out
			}
		}
	}
	return []string{"<missing type " + name + ">"}
}

// callsNamed lists the rendered calls to `callee` inside fn.
func callsNamed(fd *ast.FuncDecl, callee string) []string {
	if fd == nil {
		return []string{"<missing function>"}
	}
	var out []string
	ast.Inspect(fd.Body, func(n ast.Node) bool {
		if c, ok := n.(*ast.CallExpr); ok && exprString(c.Fun) == callee {
			out = append(out, exprString(c))
		}
		return true
	})
	return out
}

func operandsOf(fd *ast.FuncDecl, name string) []string {
	e := assignedExpr(fd, name)
	if e == nil {
		return []string{"<missing assignment " + name + ">"}
	}
	return concatOperands(e)
}

func genAuth(root, st *pkg) *genFile {
	g := newGen("Auth")
	sasl, plain := root.fn("", "authSASL"), root.fn("", "authPlain")
	g.def("authSASLLoop", "List String", leanStrList(firstRange(sasl)), "authSASL: range expression and body of the mechanism loop")
	g.def("authSASLSwitch", "List (List String × List String)", leanCases(switchArms(sasl, "matchingMech")), "authSASL: switch matchingMech")
	g.def("authPlainRaw", "List String", leanStrList(operandsOf(plain, "raw")), "authPlain: operands of raw := …")
	g.def("authPlainActions", "List String", leanStrList(fnActions(plain)), "authPlain: flattened calls")
	g.def("authPlainSwitch", "List (List String × List String)", leanCases(switchArms(plain, "val.(type)")), "authPlain: type switch on the reply")
	g.def("authPlainReturns", "List String", leanStrList(returnShapes(plain)), "authPlain: return expressions in source order")
	g.def("saslAuthFields", "List String", leanStrList(structTags(st, "SASLAuth")), "stanza.SASLAuth fields and tags")
	g.def("isSupportedMechBody", "List String", leanStrList(firstRange(root.fn("", "isSupportedMech"))), "isSupportedMech: loop")
	g.def("sessionAuthCall", "List String", leanStrList(callsNamed(root.fn("Session", "auth"), "authSASL")), "Session.auth: the authSASL call")
	return g
}

func genComponent(root, st *pkg) *genFile {
	g := newGen("Component")
	resume, hs := root.fn("Component", "Resume"), root.fn("Component", "handshake")
	g.def("handshakeSprintf", "List String", leanStrList(callsNamed(resume, "fmt.Sprintf")), "Component.Resume: the fmt.Sprintf call that builds the handshake element")
	g.def("handshakeConcat", "List String", leanStrList(operandsOf(hs, "concatStr")), "Component.handshake: operands of concatStr := …")
	g.def("handshakeActions", "List String", leanStrList(fnActions(hs)), "Component.handshake: flattened calls")
	g.def("handshakeReturns", "List String", leanStrList(returnShapes(hs)), "Component.handshake: return expressions")
	g.def("resumeSwitch", "List (List String × List String)", leanCases(switchArms(resume, "val.(type)")), "Component.Resume: type switch on the reply to the handshake")
	g.def("resumeActions", "List String", leanStrList(fnActions(resume)), "Component.Resume: flattened calls")
	g.def("connectBody", "List String", leanStrList(stmtStrings(bodyOf(root.fn("Component", "Connect")))), "Component.Connect")
	g.def("initStreamAttrLoop", "List String", leanStrList(firstRange(st.fn("", "InitStream"))), "stanza.InitStream: the loop over the stream header attributes")
	g.def("stateConsts", "List String", leanStrList(iotaBlock(root, "StateDisconnected")), "the ConnState constants in declaration order (iota)")
	return g
}

func bodyOf(fd *ast.FuncDecl) []ast.Stmt {
	if fd == nil || fd.Body == nil {
		return nil
	}
	return fd.Body.List
}

// iotaBlock returns the names of the implicit-iota run starting the const block whose first name is `first`
// (their values are 0, 1, 2, … in this order).
func iotaBlock(p *pkg, first string) []string {
	for _, f := range p.files {
		for _, d := range f.Decls {
			gd, ok := d.(*ast.GenDecl)
			if !ok || gd.Tok != token.CONST || len(gd.Specs) == 0 {
				continue
			}
			vs, ok := gd.Specs[0].(*ast.ValueSpec)
			if !ok || len(vs.Names) == 0 || vs.Names[0].Name != first {
				continue
			}
			if len(vs.Values) != 1 || exprString(vs.Values[0]) != "iota" {
				return []string{"<not iota>"}
			}
			var out []string
			for _, s := range gd.Specs {
				v := s.(*ast.ValueSpec)
				if s != gd.Specs[0] && len(v.Values) != 0 {
					break // the implicit-iota run ends at the first explicit value
				}
				for _, n := range v.Names {
					out = append(out, n.Name)
				}
			}
			return out
		}
	}
	return []string{"<missing const block>"}
}
