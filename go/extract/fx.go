// fx: the control-flow / effect skeleton of every function (and function literal) of the library that performs a lock
// operation, as a term of the Lean type XmppVerif.Fx.Fx (lean/XmppVerif/Fx.lean). Regenerated on every run into
// Gen/Fx.lean; Tie/Fx.lean proves `balanced` for every one of them, which by `Fx.balanced_sound` is a statement about
// every path of the body and every iteration count of its loops.
//
// What is kept: if / switch / type switch / select as uninterpreted branches, for / range as loops, return, break,
// continue, and - in evaluation order - every call: lock operations (by lock CLASS: the named type that owns the mutex,
// plus the field name when the mutex is a named field), deferred unlocks, `go`, channel send / close, UnAckQueue.Push
// (store), writes to the transport (a method named Write, sendWithWriter, fmt.Fprint*), every other call by name.
// What is outside (the function is listed in `unsupported`, which the tie demands to be empty): goto, labels,
// fallthrough.
package main

import (
	"fmt"
	"sort"
	"go/ast"
	"go/token"
	"go/types"
	"os"
	"path/filepath"
	"strings"
)

type fxCtx struct {
	info *types.Info
	n    int // fresh names
	bad  string
	// break target: "" = innermost loop (emit .brk), otherwise the name of the continuation of the enclosing switch/select
	brk []string
	// post statements of the enclosing for loops (run before `continue`)
	post [][]ast.Stmt
	inLoop int
}

// fxStr: a Lean string literal, shortened (labels only document the skeleton)
func fxStr(s string) string {
	s = strings.Join(strings.Fields(s), " ")
	if len(s) > 60 && !strings.HasPrefix(s, "type switch: case") && !strings.HasPrefix(s, "@case") {
		s = s[:57] + "..."
	}
	return leanStr(s)
}

func (c *fxCtx) fresh() string { c.n++; return fmt.Sprintf("k%d", c.n) }

// lockClass: the class of the mutex that expression x denotes (x is the receiver of Lock / Unlock / RLock / RUnlock)
func (c *fxCtx) lockClass(x ast.Expr) string {
	named := func(t types.Type) string {
		if p, ok := t.(*types.Pointer); ok {
			t = p.Elem()
		}
		if n, ok := t.(*types.Named); ok {
			return n.Obj().Name()
		}
		return ""
	}
	isMutex := func(t types.Type) bool {
		n := named(t)
		return n == "Mutex" || n == "RWMutex"
	}
	if c.info != nil {
		if tv, ok := c.info.Types[x]; ok && tv.Type != nil {
			if !isMutex(tv.Type) {
				// a struct that embeds its mutex: uaq.Lock()
				if n := named(tv.Type); n != "" {
					return n
				}
			} else if sel, ok := x.(*ast.SelectorExpr); ok {
				// a mutex field: owner type + field name; an embedded field (uaq.RWMutex) is the owner itself
				owner := ""
				if tv2, ok := c.info.Types[sel.X]; ok && tv2.Type != nil {
					owner = named(tv2.Type)
				}
				if sel.Sel.Name == "Mutex" || sel.Sel.Name == "RWMutex" {
					if owner != "" {
						return owner
					}
				}
				if owner != "" {
					return owner + "." + sel.Sel.Name
				}
			}
		}
	}
	return exprString(x)
}

func lockOp(name string) (kind string, read bool) {
	switch name {
	case "Lock":
		return "lock", false
	case "RLock":
		return "lock", true
	case "Unlock":
		return "unlock", false
	case "RUnlock":
		return "unlock", true
	}
	return "", false
}

// callAct: the act of one call expression
func (c *fxCtx) callAct(call *ast.CallExpr, deferred bool) string {
	switch f := call.Fun.(type) {
	case *ast.SelectorExpr:
		if kind, read := lockOp(f.Sel.Name); kind != "" && len(call.Args) == 0 {
			cls := c.lockClass(f.X)
			if read {
				cls += ":R"
			}
			if deferred {
				if kind == "unlock" {
					return ".deferUnlock " + fxStr(cls)
				}
				return ".call " + fxStr("defer "+exprString(call.Fun))
			}
			return "." + kind + " " + fxStr(cls)
		}
		name := f.Sel.Name
		recv := ""
		if c.info != nil {
			if tv, ok := c.info.Types[f.X]; ok && tv.Type != nil {
				t := tv.Type
				if p, ok := t.(*types.Pointer); ok {
					t = p.Elem()
				}
				if n, ok := t.(*types.Named); ok {
					recv = n.Obj().Name()
				}
			}
			if id, ok := f.X.(*ast.Ident); ok {
				if pn, ok := c.info.Uses[id].(*types.PkgName); ok {
					recv = pn.Imported().Name()
				}
			}
		}
		if recv == "" {
			recv = exprString(f.X)
		}
		full := recv + "." + name
		if deferred {
			return ".call " + fxStr("defer "+full)
		}
		switch {
		case name == "Push" && recv == "UnAckQueue":
			return ".store"
		case name == "Write" || name == "sendWithWriter" || full == "fmt.Fprintf" || full == "fmt.Fprint" || full == "fmt.Fprintln" || full == "io.WriteString":
			return ".write"
		}
		return ".call " + fxStr(full+c.constArgs(call))
	case *ast.Ident:
		if deferred {
			return ".call " + fxStr("defer "+f.Name)
		}
		if f.Name == "close" && len(call.Args) == 1 {
			return ".chclose " + fxStr(c.typed(call.Args[0]))
		}
		return ".call " + fxStr(f.Name+c.constArgs(call))
	case *ast.FuncLit:
		if deferred {
			return ".call \"defer func literal\""
		}
		return ".call \"func literal\""
	}
	return ".call " + fxStr(exprString(call.Fun))
}

// typed: an expression rendered with the root variable of a selector chain replaced by the name of its type
// (c.Session.SMState.Inbound -> Client.Session.SMState.Inbound, t.isSecure -> XMPPTransport.isSecure): the names of
// locals and receivers do not show in the skeleton
func (c *fxCtx) typed(e ast.Expr) string {
	switch x := e.(type) {
	case *ast.SelectorExpr:
		return c.typed(x.X) + "." + x.Sel.Name
	case *ast.Ident:
		if c.info != nil {
			if obj, ok := c.info.Uses[x].(*types.Var); ok && !obj.IsField() {
				t := obj.Type()
				if p, ok := t.(*types.Pointer); ok {
					t = p.Elem()
				}
				if n, ok := t.(*types.Named); ok {
					return n.Obj().Name()
				}
			}
		}
		return x.Name
	}
	return exprString(e)
}

// assertMarker: `v, ok := x.(*T)` leaves a marker act `@assert T` (the branch on `ok` that follows knows the dynamic type)
func (c *fxCtx) assertMarker(x *ast.AssignStmt) []string {
	if len(x.Lhs) == 2 && len(x.Rhs) == 1 {
		if ta, ok := x.Rhs[0].(*ast.TypeAssertExpr); ok && ta.Type != nil {
			return []string{".call " + fxStr("@assert "+typeName(ta.Type))}
		}
	}
	return nil
}

// constArgs: "(a,b)" when every argument of the call is a constant or a literal (updateState(StateSessionEstablished),
// streamError("conflict", "no auth loop")), else ""
func (c *fxCtx) constArgs(call *ast.CallExpr) string {
	if len(call.Args) == 0 || c.info == nil {
		return ""
	}
	var parts []string
	consts := 0
	for _, a := range call.Args {
		switch x := a.(type) {
		case *ast.BasicLit:
			parts = append(parts, x.Value)
			consts++
			continue
		case *ast.Ident:
			if _, ok := c.info.Uses[x].(*types.Const); ok || x.Name == "true" || x.Name == "false" || x.Name == "nil" {
				parts = append(parts, x.Name)
				consts++
				continue
			}
		}
		if cl, ok := a.(*ast.CompositeLit); ok && len(cl.Elts) == 0 && cl.Type != nil {
			// an empty composite literal: its type is what matters (Send(stanza.SMRequest{}))
			tn := exprString(cl.Type)
			if i := strings.LastIndex(tn, "."); i >= 0 {
				tn = tn[i+1:]
			}
			parts = append(parts, tn+"{}")
			consts++
			continue
		}
		parts = append(parts, "_") // not a constant
	}
	if consts == 0 {
		return ""
	}
	return "(" + strings.Join(parts, ",") + ")"
}

// acts: the acts of the calls (and channel receives) inside an expression, in source order, inner calls first;
// function literals are not entered
func (c *fxCtx) acts(n ast.Node) []string {
	var out []string
	if n == nil {
		return nil
	}
	var walk func(n ast.Node)
	walk = func(n ast.Node) {
		switch x := n.(type) {
		case nil:
			return
		case *ast.FuncLit:
			return
		case *ast.CallExpr:
			if _, isLit := x.Fun.(*ast.FuncLit); !isLit {
				walk(x.Fun)
			}
			for _, a := range x.Args {
				walk(a)
			}
			// conversions and builtins without effect are not acts
			if id, ok := x.Fun.(*ast.Ident); ok {
				switch id.Name {
				case "len", "cap", "append", "make", "new", "string", "int", "uint", "byte", "panic", "copy", "min", "max":
					return
				}
				if c.info != nil {
					if tv, ok := c.info.Types[x.Fun]; ok && tv.IsType() {
						return
					}
				}
			}
			if c.info != nil {
				if tv, ok := c.info.Types[x.Fun]; ok && tv.IsType() {
					return
				}
			}
			out = append(out, c.callAct(x, false))
			return
		case *ast.UnaryExpr:
			walk(x.X)
			if x.Op == token.ARROW {
				out = append(out, ".call "+fxStr("<-"+c.typed(x.X)))
			}
			return
		}
		ast.Inspect(n, func(m ast.Node) bool {
			if m == n {
				return true
			}
			switch m.(type) {
			case *ast.FuncLit, *ast.CallExpr, *ast.UnaryExpr:
				walk(m)
				return false
			}
			return true
		})
	}
	walk(n)
	return out
}

func wrapActs(acts []string, k string) string {
	for i := len(acts) - 1; i >= 0; i-- {
		k = "(.act (" + acts[i] + ") " + k + ")"
	}
	return k
}

// stmts translates a statement list; k is the Lean term of what follows the list
func (c *fxCtx) stmts(list []ast.Stmt, k string) string {
	if len(list) == 0 {
		return k
	}
	s, rest := list[0], list[1:]
	switch x := s.(type) {
	case *ast.ReturnStmt:
		var acts []string
		var labs []string
		for _, r := range x.Results {
			acts = append(acts, c.acts(r)...)
			labs = append(labs, c.typed(r))
		}
		return wrapActs(acts, "(.ret "+fxStr(strings.Join(labs, ", "))+")")
	case *ast.BranchStmt:
		if x.Label != nil {
			c.bad = "labelled " + x.Tok.String()
			return ".brk"
		}
		switch x.Tok {
		case token.BREAK:
			if len(c.brk) == 0 {
				c.bad = "break outside a loop / switch"
				return ".brk"
			}
			if t := c.brk[len(c.brk)-1]; t != "" {
				return t
			}
			return ".brk"
		case token.CONTINUE:
			if len(c.post) == 0 {
				c.bad = "continue outside a loop"
				return ".cont"
			}
			return c.stmtsNoBrk(c.post[len(c.post)-1], ".cont")
		}
		c.bad = x.Tok.String()
		return ".brk"
	}
	kk := c.stmts(rest, k)
	switch x := s.(type) {
	case *ast.ExprStmt:
		return wrapActs(c.acts(x.X), kk)
	case *ast.AssignStmt:
		var acts []string
		for _, r := range x.Rhs {
			acts = append(acts, c.acts(r)...)
		}
		for _, l := range x.Lhs {
			acts = append(acts, c.acts(l)...)
		}
		acts = append(acts, c.assertMarker(x)...)
		// a constant assigned to a field (t.isSecure = true, s.TlsEnabled = false): an act of its own
		if x.Tok == token.ASSIGN && len(x.Lhs) == 1 && len(x.Rhs) == 1 {
			if sel, ok := x.Lhs[0].(*ast.SelectorExpr); ok {
				if id, ok := x.Rhs[0].(*ast.Ident); ok && (id.Name == "true" || id.Name == "false" || id.Name == "nil") {
					acts = append(acts, ".call "+fxStr("set "+c.typed(sel)+"="+id.Name))
				}
			}
		}
		return wrapActs(acts, kk)
	case *ast.IncDecStmt:
		op := "inc "
		if x.Tok == token.DEC {
			op = "dec "
		}
		return wrapActs(append(c.acts(x.X), ".call "+fxStr(op+c.typed(x.X))), kk)
	case *ast.DeclStmt:
		var acts []string
		if gd, ok := x.Decl.(*ast.GenDecl); ok {
			for _, sp := range gd.Specs {
				if vs, ok := sp.(*ast.ValueSpec); ok {
					for _, v := range vs.Values {
						acts = append(acts, c.acts(v)...)
					}
				}
			}
		}
		return wrapActs(acts, kk)
	case *ast.SendStmt:
		acts := append(c.acts(x.Value), c.acts(x.Chan)...)
		acts = append(acts, ".chsend "+fxStr(c.typed(x.Chan)))
		return wrapActs(acts, kk)
	case *ast.GoStmt:
		var acts []string
		for _, a := range x.Call.Args {
			acts = append(acts, c.acts(a)...)
		}
		name := c.typed(x.Call.Fun)
		if _, ok := x.Call.Fun.(*ast.FuncLit); ok {
			name = "func literal"
		}
		acts = append(acts, ".spawn "+fxStr(name))
		return wrapActs(acts, kk)
	case *ast.DeferStmt:
		var acts []string
		for _, a := range x.Call.Args {
			acts = append(acts, c.acts(a)...)
		}
		acts = append(acts, c.callAct(x.Call, true))
		return wrapActs(acts, kk)
	case *ast.BlockStmt:
		return c.stmts(x.List, kk)
	case *ast.EmptyStmt:
		return kk
	case *ast.IfStmt:
		kn := c.fresh()
		var pre []string
		if x.Init != nil {
			pre = c.stmtActs(x.Init)
		}
		pre = append(pre, c.acts(x.Cond)...)
		thenB := c.stmts(x.Body.List, kn)
		elseB := kn
		switch e := x.Else.(type) {
		case *ast.BlockStmt:
			elseB = c.stmts(e.List, kn)
		case *ast.IfStmt:
			elseB = c.stmts([]ast.Stmt{e}, kn)
		}
		return "(let " + kn + " : Fx := " + kk + "; " + wrapActs(pre, "(.branch "+fxStr(exprString(x.Cond))+" "+thenB+" "+elseB+")") + ")"
	case *ast.SwitchStmt, *ast.TypeSwitchStmt, *ast.SelectStmt:
		kn := c.fresh()
		var pre []string
		var clauses []ast.Stmt
		what := "switch"
		switch y := x.(type) {
		case *ast.SwitchStmt:
			if y.Init != nil {
				pre = c.stmtActs(y.Init)
			}
			if y.Tag != nil {
				pre = append(pre, c.acts(y.Tag)...)
				what = "switch " + exprString(y.Tag)
			}
			clauses = y.Body.List
		case *ast.TypeSwitchStmt:
			if y.Init != nil {
				pre = c.stmtActs(y.Init)
			}
			pre = append(pre, c.stmtActs(y.Assign)...)
			what = "type switch"
			clauses = y.Body.List
		case *ast.SelectStmt:
			what = "select"
			clauses = y.Body.List
		}
		c.brk = append(c.brk, kn)
		hasDefault := false
		out := ""
		defaultArm := ""
		var arms []string
		for _, cl := range clauses {
			var body []ast.Stmt
			var head []string
			label := "default"
			switch cc := cl.(type) {
			case *ast.CaseClause:
				body = cc.Body
				if cc.List == nil {
					hasDefault = true
				} else {
					var ls []string
					for _, e := range cc.List {
						head = append(head, c.acts(e)...)
						ls = append(ls, exprString(e))
					}
					label = "case " + strings.Join(ls, ", ")
				}
			case *ast.CommClause:
				body = cc.Body
				if cc.Comm == nil {
					hasDefault = true
				} else {
					head = c.stmtActs(cc.Comm)
					label = "comm"
				}
			}
			for _, b := range body {
				if br, ok := b.(*ast.BranchStmt); ok && br.Tok == token.FALLTHROUGH {
					c.bad = "fallthrough"
				}
			}
			if what == "type switch" {
				// the arm taken is part of the trace (a marker act): which packet kinds lead where
				head = append(head, ".call "+fxStr("@"+label))
			}
			arm := fxStr(what+": "+label) + "\x00" + wrapActs(head, c.stmts(body, kn))
			if label == "default" {
				defaultArm = arm
			} else {
				arms = append(arms, arm)
			}
		}
		if defaultArm != "" {
			arms = append(arms, defaultArm) // the default arm is what runs when no other does: it goes last
		}
		c.brk = c.brk[:len(c.brk)-1]
		// nested branches: arm1 | (arm2 | (... | no arm taken))
		out = kn
		_, isSelect := x.(*ast.SelectStmt)
		if (hasDefault || isSelect) && len(arms) > 0 {
			// with a default arm "no arm taken" is not a path (the default arm, placed last, stands for it);
			// a select without default blocks until one arm is ready: "no arm" is not a path; the last arm stands for it
			parts := strings.SplitN(arms[len(arms)-1], "\x00", 2)
			out = parts[1]
			arms = arms[:len(arms)-1]
		}
		for i := len(arms) - 1; i >= 0; i-- {
			parts := strings.SplitN(arms[i], "\x00", 2)
			out = "(.branch " + parts[0] + " " + parts[1] + " " + out + ")"
		}
		return "(let " + kn + " : Fx := " + kk + "; " + wrapActs(pre, out) + ")"
	case *ast.ForStmt:
		var pre []string
		if x.Init != nil {
			pre = c.stmtActs(x.Init)
		}
		var postS []ast.Stmt
		if x.Post != nil {
			postS = []ast.Stmt{x.Post}
		}
		c.brk = append(c.brk, "")
		c.post = append(c.post, postS)
		body := c.stmts(x.Body.List, c.stmtsNoBrk(postS, ".cont"))
		c.brk = c.brk[:len(c.brk)-1]
		c.post = c.post[:len(c.post)-1]
		body = wrapActs(c.acts(x.Cond), body)
		after := kk
		if x.Cond == nil {
			// `for { }`: left only through break / return; the exit-by-condition path of the semantics then leads to a
			// continuation nobody reaches - harmless for the analysis (an over-approximation)
		}
		return wrapActs(pre, "(.loop "+body+" "+after+")")
	case *ast.RangeStmt:
		pre := c.acts(x.X)
		c.brk = append(c.brk, "")
		c.post = append(c.post, nil)
		body := c.stmts(x.Body.List, ".cont")
		c.brk = c.brk[:len(c.brk)-1]
		c.post = c.post[:len(c.post)-1]
		return wrapActs(pre, "(.loop "+body+" "+kk+")")
	case *ast.LabeledStmt:
		c.bad = "label"
		return kk
	}
	c.bad = fmt.Sprintf("statement %T", s)
	return kk
}

// stmtsNoBrk translates simple statements (a for loop's post statement) in front of k
func (c *fxCtx) stmtsNoBrk(list []ast.Stmt, k string) string {
	var acts []string
	for _, s := range list {
		acts = append(acts, c.stmtActs(s)...)
	}
	return wrapActs(acts, k)
}

// stmtActs: the acts of a simple statement (initialiser, post statement, comm clause)
func (c *fxCtx) stmtActs(s ast.Stmt) []string {
	switch x := s.(type) {
	case *ast.ExprStmt:
		return c.acts(x.X)
	case *ast.AssignStmt:
		var acts []string
		for _, r := range x.Rhs {
			acts = append(acts, c.acts(r)...)
		}
		return append(acts, c.assertMarker(x)...)
	case *ast.IncDecStmt:
		return c.acts(x.X)
	case *ast.SendStmt:
		acts := append(c.acts(x.Value), c.acts(x.Chan)...)
		return append(acts, ".chsend "+fxStr(c.typed(x.Chan)))
	case *ast.DeclStmt:
		var acts []string
		if gd, ok := x.Decl.(*ast.GenDecl); ok {
			for _, sp := range gd.Specs {
				if vs, ok := sp.(*ast.ValueSpec); ok {
					for _, v := range vs.Values {
						acts = append(acts, c.acts(v)...)
					}
				}
			}
		}
		return acts
	}
	return nil
}

func hasLockOp(n ast.Node, skipLits bool) bool {
	found := false
	ast.Inspect(n, func(m ast.Node) bool {
		if m == nil || found {
			return false
		}
		if _, ok := m.(*ast.FuncLit); ok && skipLits && m != n {
			return false
		}
		if call, ok := m.(*ast.CallExpr); ok {
			if sel, ok := call.Fun.(*ast.SelectorExpr); ok && len(call.Args) == 0 {
				if k, _ := lockOp(sel.Sel.Name); k != "" {
					found = true
				}
			}
		}
		return true
	})
	return found
}

type fxEntry struct{ name, lean, term string }

// genFx writes Gen/Fx.lean: one skeleton per function / function literal (of both packages) that performs a lock
// operation in its own body, plus the functions named in `also`
func genFx(outDir string, pkgs []struct {
	p    *pkg
	info *types.Info
	tag  string
}, also map[string]bool) error {
	var entries, graph []fxEntry
	seenGraph := map[string]bool{}
	var unsupported []string
	for _, pk := range pkgs {
		for _, f := range pk.p.files {
			for _, d := range f.Decls {
				fd, ok := d.(*ast.FuncDecl)
				if !ok || fd.Body == nil {
					continue
				}
				recv := ""
				if fd.Recv != nil && len(fd.Recv.List) == 1 {
					recv = typeName(fd.Recv.List[0].Type)
				}
				name := fd.Name.Name
				if recv != "" {
					name = recv + "." + name
				}
				name = pk.tag + name
				emit := func(nm string, body *ast.BlockStmt) {
					c := &fxCtx{info: pk.info}
					term := c.stmts(body.List, "(.ret \"\")")
					if c.bad != "" {
						unsupported = append(unsupported, nm+": "+c.bad)
						return
					}
					ln := strings.NewReplacer(".", "_", "/", "_", "#", "_lit").Replace(nm)
					entries = append(entries, fxEntry{nm, ln, term})
				}
				if hasLockOp(fd.Body, true) || also[name] {
					emit(name, fd.Body)
				}
				// every function, for the call graph (a body outside the subset is left out: a call of it is then
				// taken for one that may lock anything)
				if fd.Name.Name != "init" && !seenGraph[name] {
					seenGraph[name] = true
					c := &fxCtx{info: pk.info}
					term := c.stmts(fd.Body.List, "(.ret \"\")")
					if c.bad == "" && len(term) < 20000 {
						ln := "g_" + strings.NewReplacer(".", "_", "/", "_", "#", "_lit").Replace(name)
						graph = append(graph, fxEntry{name, ln, term})
					}
				}
				k := 0
				ast.Inspect(fd.Body, func(m ast.Node) bool {
					if fl, ok := m.(*ast.FuncLit); ok {
						k++
						if hasLockOp(fl.Body, true) {
							emit(fmt.Sprintf("%s#%d", name, k), fl.Body)
						}
					}
					return true
				})
			}
		}
	}
	var sb strings.Builder
	sb.WriteString("-- GENERATED by /verif/go/extract (fx.go) from /repo's working tree. Do not edit; never committed as truth.\nimport XmppVerif.Fx\nset_option linter.unusedVariables false\nnamespace XmppVerif.Gen.Fx\nopen XmppVerif.Fx\nopen XmppVerif.Fx.Fx\nopen XmppVerif.Fx.Act\n\n")
	for _, e := range entries {
		fmt.Fprintf(&sb, "/-- skeleton of %s -/\ndef %s : Fx :=\n  %s\n\n", e.name, e.lean, e.term)
	}
	for _, e := range graph {
		fmt.Fprintf(&sb, "def %s : Fx :=\n  %s\n\n", e.lean, e.term)
	}
	sb.WriteString("/-- the skeleton of EVERY function of both packages (the call graph) -/\ndef fns : List (String × Fx) := [")
	for i, e := range graph {
		if i > 0 {
			sb.WriteString(", ")
		}
		fmt.Fprintf(&sb, "(%s, %s)", leanStr(e.name), e.lean)
	}
	sb.WriteString("]\n\n")
	sb.WriteString("/-- every function and function literal that performs a lock operation in its own body (and the ones asked for by name) -/\ndef all : List (String × Fx) := [")
	for i, e := range entries {
		if i > 0 {
			sb.WriteString(", ")
		}
		fmt.Fprintf(&sb, "(%s, %s)", fxStr(e.name), e.lean)
	}
	sb.WriteString("]\n\n/-- the named types of the package that implement each of its interfaces (dynamic dispatch of `Iface.Method` calls) -/\ndef impls : List (String × List String) := [")
	first := true
	for _, pk := range pkgs {
		if pk.info == nil {
			continue
		}
		var ifaces, named []*types.TypeName
		for _, obj := range pk.info.Defs {
			tn, ok := obj.(*types.TypeName)
			if !ok || tn.Parent() == nil || tn.Parent() != tn.Pkg().Scope() {
				continue
			}
			if _, isIf := tn.Type().Underlying().(*types.Interface); isIf {
				ifaces = append(ifaces, tn)
			} else {
				named = append(named, tn)
			}
		}
		sort.Slice(ifaces, func(i, j int) bool { return ifaces[i].Name() < ifaces[j].Name() })
		sort.Slice(named, func(i, j int) bool { return named[i].Name() < named[j].Name() })
		for _, it := range ifaces {
			iface := it.Type().Underlying().(*types.Interface)
			if iface.NumMethods() == 0 {
				continue
			}
			var im []string
			for _, n := range named {
				if types.Implements(n.Type(), iface) || types.Implements(types.NewPointer(n.Type()), iface) {
					im = append(im, n.Name())
				}
			}
			if !first {
				sb.WriteString(", ")
			}
			first = false
			fmt.Fprintf(&sb, "(%s, %s)", leanStr(pk.tag+it.Name()), leanStrList(im))
		}
	}
	sb.WriteString("]\n\n/-- bodies the skeleton extractor does not cover (goto, labels, fallthrough) -/\ndef unsupported : List String := " + leanStrList(unsupported) + "\n\nend XmppVerif.Gen.Fx\n")
	return os.WriteFile(filepath.Join(outDir, "Fx.lean"), []byte(sb.String()), 0o644)
}
