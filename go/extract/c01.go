package main

import (
	"fmt"
	"go/ast"
	"go/token"
	"reflect"
	"strconv"
	"strings"
)

// Facts for C01 (stanza codec): the struct tags of the reflection-coded nonzas, the registry entries, the case
// labels of SMFailed.UnmarshalXML with the XMLName tags of the types they decode into, the attribute names read by
// the three stanza loops.

func (p *pkg) structType(name string) *ast.StructType {
	for _, f := range p.files {
		for _, d := range f.Decls {
			gd, ok := d.(*ast.GenDecl)
			if !ok || gd.Tok != token.TYPE {
				continue
			}
			for _, s := range gd.Specs {
				ts := s.(*ast.TypeSpec)
				if ts.Name.Name == name {
					if st, ok := ts.Type.(*ast.StructType); ok {
						return st
					}
				}
			}
		}
	}
	return nil
}

func xmlTag(f *ast.Field) string {
	if f.Tag == nil {
		return ""
	}
	s, err := strconv.Unquote(f.Tag.Value)
	if err != nil {
		return "<bad>"
	}
	return reflect.StructTag(s).Get("xml")
}

// schemaOf renders `(space, local, [(attr name, go type, omitempty)], inner)`; anything else in the struct
// (an element field, chardata, an embedded struct) makes the fact unusable on purpose.
func schemaOf(p *pkg, name string) string {
	st := p.structType(name)
	if st == nil {
		return `("<missing>", "", [], false)`
	}
	space, local, inner := "", "", false
	var fields []string
	for _, f := range st.Fields.List {
		tag := xmlTag(f)
		parts := strings.Split(tag, ",")
		nm, opts := parts[0], parts[1:]
		has := func(o string) bool {
			for _, x := range opts {
				if x == o {
					return true
				}
			}
			return false
		}
		fname := "<embedded>"
		if len(f.Names) == 1 {
			fname = f.Names[0].Name
		}
		switch {
		case fname == "XMLName":
			if i := strings.LastIndex(nm, " "); i >= 0 {
				space, local = nm[:i], nm[i+1:]
			} else {
				local = nm
			}
		case has("attr"):
			fields = append(fields, fmt.Sprintf("(%s, %s, %v)", leanStr(nm), leanStr(exprString(f.Type)), has("omitempty")))
		case has("innerxml") && exprString(f.Type) == "string":
			inner = true
		default:
			fields = append(fields, fmt.Sprintf("(%s, %s, false)", leanStr("<unsupported:"+fname+">"), leanStr(tag)))
		}
	}
	return fmt.Sprintf("(%s, %s, [%s], %v)", leanStr(space), leanStr(local), strings.Join(fields, ", "), inner)
}

// registryEntries lists the MapExtension calls of all init functions: (packet type, namespace, local name, Go type).
func registryEntries(p *pkg) []string {
	var out []string
	for _, f := range p.files {
		ast.Inspect(f, func(n ast.Node) bool {
			ce, ok := n.(*ast.CallExpr)
			if !ok {
				return true
			}
			se, ok := ce.Fun.(*ast.SelectorExpr)
			if !ok || se.Sel.Name != "MapExtension" || len(ce.Args) != 3 {
				return true
			}
			if x, ok := se.X.(*ast.Ident); !ok || x.Name != "TypeRegistry" {
				return true
			}
			space, local := "<missing>", "<missing>"
			if cl, ok := ce.Args[1].(*ast.CompositeLit); ok {
				for _, e := range cl.Elts {
					kv, ok := e.(*ast.KeyValueExpr)
					if !ok {
						continue
					}
					val := "<missing>"
					switch v := kv.Value.(type) {
					case *ast.BasicLit:
						val, _ = strconv.Unquote(v.Value)
					case *ast.Ident:
						val = strConst(p, v.Name)
					}
					switch exprString(kv.Key) {
					case "Space":
						space = val
					case "Local":
						local = val
					}
				}
			}
			typ := "<missing>"
			if cl, ok := ce.Args[2].(*ast.CompositeLit); ok {
				typ = exprString(cl.Type)
			}
			out = append(out, fmt.Sprintf("(%s, %s, %s, %s)", leanStr(exprString(ce.Args[0])), leanStr(space), leanStr(local), leanStr(typ)))
			return true
		})
	}
	return out
}

// smFailedCases: for every `case "x":` of the switch in SMFailed.UnmarshalXML the label, and the XMLName tag of the
// struct literal built in that arm.
func smFailedCases(p *pkg) []string {
	fd := p.fn("SMFailed", "UnmarshalXML")
	var out []string
	if fd == nil {
		return []string{`("<missing>", "", "")`}
	}
	ast.Inspect(fd.Body, func(n ast.Node) bool {
		cc, ok := n.(*ast.CaseClause)
		if !ok || len(cc.List) != 1 {
			return true
		}
		bl, ok := cc.List[0].(*ast.BasicLit)
		if !ok || bl.Kind != token.STRING {
			return true
		}
		label, _ := strconv.Unquote(bl.Value)
		typ := "<missing>"
		for _, s := range cc.Body {
			ast.Inspect(s, func(m ast.Node) bool {
				if cl, ok := m.(*ast.CompositeLit); ok && typ == "<missing>" {
					typ = exprString(cl.Type)
				}
				return true
			})
		}
		tag := "<missing>"
		if st := p.structType(typ); st != nil && len(st.Fields.List) == 1 {
			tag = xmlTag(st.Fields.List[0])
		}
		out = append(out, fmt.Sprintf("(%s, %s)", leanStr(label), leanStr(tag)))
		return true
	})
	return out
}

// attrNamesRead: the string literals compared with attr.Name.Local in the method's attribute loop.
func attrNamesRead(p *pkg, recv string) []string {
	fd := p.fn(recv, "UnmarshalXML")
	var out []string
	if fd == nil {
		return []string{"<missing>"}
	}
	ast.Inspect(fd.Body, func(n ast.Node) bool {
		be, ok := n.(*ast.BinaryExpr)
		if !ok || be.Op != token.EQL {
			return true
		}
		if exprString(be.X) != "attr.Name.Local" {
			return true
		}
		if bl, ok := be.Y.(*ast.BasicLit); ok {
			s, _ := strconv.Unquote(bl.Value)
			out = append(out, s)
		}
		return true
	})
	return out
}

func genC01(st *pkg) *genFile {
	g := newGen("C01")
	for _, t := range []string{"SMEnable", "SMEnabled", "SMRequest", "SMAnswer", "SMResumed", "SMResume", "SASLAuth", "Handshake", "SMFailed"} {
		g.def("schema"+t, "String × String × List (String × String × Bool) × Bool", schemaOf(st, t), "struct tags of stanza."+t)
	}
	g.def("registry", "List (String × String × String × String)", "["+strings.Join(registryEntries(st), ",\n  ")+"]", "TypeRegistry.MapExtension calls, in file order")
	g.def("smFailedCases", "List (String × String)", "["+strings.Join(smFailedCases(st), ",\n  ")+"]", "case labels of SMFailed.UnmarshalXML and the XMLName tag of the type decoded in that arm")
	for _, t := range []string{"Message", "Presence", "IQ", "Err"} {
		g.def("attrsRead"+t, "List String", leanStrList(attrNamesRead(st, t)), "attr.Name.Local == … literals of "+t+".UnmarshalXML")
	}
	return g
}
