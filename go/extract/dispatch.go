package main

import (
	"go/ast"
	"go/token"
	"sort"
	"strconv"
	"strings"
)

// ---- C02: the dispatch of NextPacket and the shape of the hand-written UnmarshalXML loops -------------------

// resolveStr turns a string literal or a package-level string constant into its value.
func resolveStr(st *pkg, e ast.Expr) string {
	switch t := e.(type) {
	case *ast.BasicLit:
		if t.Kind == token.STRING {
			if s, err := strconv.Unquote(t.Value); err == nil {
				return s
			}
		}
	case *ast.Ident:
		return strConst(st, t.Name)
	}
	return "<unresolved:" + exprString(e) + ">"
}

// returnTarget: the callee of the call in `return f(…)` (first statement of a case clause).
func returnTarget(body []ast.Stmt) string {
	for _, s := range body {
		if r, ok := s.(*ast.ReturnStmt); ok && len(r.Results) > 0 {
			if c, ok := r.Results[0].(*ast.CallExpr); ok {
				return exprString(c.Fun)
			}
			return "error"
		}
	}
	return "<no return>"
}

// switchOn finds the first `switch <tag>` in fd (searching inside `inside`, if given, else the whole body).
func switchOn(root ast.Node, tag string) *ast.SwitchStmt {
	var sw *ast.SwitchStmt
	if root == nil {
		return nil
	}
	ast.Inspect(root, func(n ast.Node) bool {
		if sw != nil {
			return false
		}
		if s, ok := n.(*ast.SwitchStmt); ok && exprString(s.Tag) == tag {
			sw = s
			return false
		}
		return true
	})
	return sw
}

// caseTable: (label value, return target) per case label; "default" for the default clause.
func caseTable(st *pkg, sw *ast.SwitchStmt) [][2]string {
	if sw == nil {
		return [][2]string{{"<no switch>", "<no switch>"}}
	}
	var out [][2]string
	for _, cc := range sw.Body.List {
		cl := cc.(*ast.CaseClause)
		tgt := returnTarget(cl.Body)
		if cl.List == nil {
			out = append(out, [2]string{"default", tgt})
		}
		for _, l := range cl.List {
			out = append(out, [2]string{resolveStr(st, l), tgt})
		}
	}
	return out
}

func fnBody(fd *ast.FuncDecl) ast.Node {
	if fd == nil {
		return nil
	}
	return fd.Body
}

// consumes reports whether the statement list calls a token consumer (d.Skip, d.DecodeElement, p.DecodeElement,
// decodeClient) on EVERY path that falls through or continues (a return of an error counts as handled).
func consumes(stmts []ast.Stmt) bool {
	for _, s := range stmts {
		if stmtConsumes(s) {
			return true
		}
	}
	return false
}

func exprConsumes(n ast.Node) bool {
	found := false
	if n == nil {
		return false
	}
	ast.Inspect(n, func(x ast.Node) bool {
		if _, ok := x.(*ast.FuncLit); ok {
			return false
		}
		if c, ok := x.(*ast.CallExpr); ok {
			switch exprString(c.Fun) {
			case "d.Skip", "d.DecodeElement", "p.Skip", "p.DecodeElement", "decodeClient":
				found = true
			}
		}
		return !found
	})
	return found
}

func stmtConsumes(s ast.Stmt) bool {
	switch t := s.(type) {
	case *ast.ExprStmt:
		return exprConsumes(t.X)
	case *ast.AssignStmt:
		for _, r := range t.Rhs {
			if exprConsumes(r) {
				return true
			}
		}
	case *ast.ReturnStmt:
		for _, r := range t.Results {
			if exprConsumes(r) {
				return true
			}
		}
	case *ast.BlockStmt:
		return consumes(t.List)
	case *ast.IfStmt:
		if t.Init != nil && stmtConsumes(t.Init) {
			return true
		}
		if exprConsumes(t.Cond) {
			return true
		}
		if t.Else == nil {
			return false
		}
		return consumes(t.Body.List) && stmtConsumes(t.Else)
	case *ast.SwitchStmt:
		hasDefault := false
		for _, cc := range t.Body.List {
			cl := cc.(*ast.CaseClause)
			if cl.List == nil {
				hasDefault = true
			}
			if !consumes(cl.Body) {
				return false
			}
		}
		return hasDefault
	}
	return false
}

// loopFacts describes the `for { t, err := d.Token(); switch tt := t.(type) {…} }` loop of an UnmarshalXML method.
type loopFact struct {
	typ          string
	hasLoop      bool
	startConsume bool     // the StartElement clause consumes the child on every path
	exitCond     string   // the condition under which the EndElement clause returns
	localCases   []string // labels of the switch on tt.Name.Local inside the StartElement clause (in order)
	hasDefault   bool
}

func unmarshalers(st *pkg) []*ast.FuncDecl {
	var out []*ast.FuncDecl
	for _, f := range st.files {
		for _, d := range f.Decls {
			if fd, ok := d.(*ast.FuncDecl); ok && fd.Name.Name == "UnmarshalXML" && fd.Recv != nil {
				out = append(out, fd)
			}
		}
	}
	sort.Slice(out, func(i, j int) bool { return typeName(out[i].Recv.List[0].Type) < typeName(out[j].Recv.List[0].Type) })
	return out
}

func loopOf(st *pkg, fd *ast.FuncDecl) loopFact {
	lf := loopFact{typ: typeName(fd.Recv.List[0].Type), exitCond: "<none>"}
	// the LAST for statement of the body (History has an attribute loop first)
	var loop *ast.ForStmt
	for _, s := range fd.Body.List {
		if f, ok := s.(*ast.ForStmt); ok {
			loop = f
		}
	}
	if loop == nil {
		return lf
	}
	lf.hasLoop = true
	var ts *ast.TypeSwitchStmt
	ast.Inspect(loop, func(n ast.Node) bool {
		if ts != nil {
			return false
		}
		if t, ok := n.(*ast.TypeSwitchStmt); ok {
			ts = t
			return false
		}
		return true
	})
	if ts == nil {
		return lf
	}
	for _, cc := range ts.Body.List {
		cl := cc.(*ast.CaseClause)
		for _, l := range cl.List {
			switch exprString(l) {
			case "xml.StartElement":
				lf.startConsume = consumes(cl.Body)
				if sw := switchOn(&ast.BlockStmt{List: cl.Body}, "tt.Name.Local"); sw != nil {
					for _, c2 := range sw.Body.List {
						c := c2.(*ast.CaseClause)
						if c.List == nil {
							lf.hasDefault = true
						}
						for _, l2 := range c.List {
							lf.localCases = append(lf.localCases, resolveStr(st, l2))
						}
					}
				}
			case "xml.EndElement":
				for _, s := range cl.Body {
					if is, ok := s.(*ast.IfStmt); ok {
						lf.exitCond = exprString(is.Cond)
					}
				}
			}
		}
	}
	return lf
}

// registry: every TypeRegistry.MapExtension(PKTx, xml.Name{Space: …, Local: …}, T{}) call of the package
func registryCalls(st *pkg) [][4]string {
	var out [][4]string
	for _, f := range st.files {
		ast.Inspect(f, func(n ast.Node) bool {
			c, ok := n.(*ast.CallExpr)
			if !ok || exprString(c.Fun) != "TypeRegistry.MapExtension" || len(c.Args) != 3 {
				return true
			}
			e := [4]string{exprString(c.Args[0]), "<?>", "<?>", "<?>"}
			if cl, ok := c.Args[1].(*ast.CompositeLit); ok {
				for _, el := range cl.Elts {
					if kv, ok := el.(*ast.KeyValueExpr); ok {
						switch exprString(kv.Key) {
						case "Space":
							e[1] = resolveStr(st, kv.Value)
						case "Local":
							e[2] = resolveStr(st, kv.Value)
						}
					}
				}
			}
			if cl, ok := c.Args[2].(*ast.CompositeLit); ok {
				e[3] = exprString(cl.Type)
			}
			out = append(out, e)
			return true
		})
	}
	sort.Slice(out, func(i, j int) bool {
		return strings.Join(out[i][:3], "\x00") < strings.Join(out[j][:3], "\x00")
	})
	return out
}

func leanPairs(xs [][2]string) string {
	q := make([]string, len(xs))
	for i, x := range xs {
		q[i] = "(" + leanStr(x[0]) + ", " + leanStr(x[1]) + ")"
	}
	return "[" + strings.Join(q, ", ") + "]"
}

func genDispatch(st *pkg) *genFile {
	g := newGen("Dispatch")
	np := st.fn("", "NextPacket")
	nsTable := caseTable(st, switchOn(fnBody(np), "se.Name.Space"))
	g.def("nsSwitch", "List (String × String)", leanPairs(nsTable), "NextPacket: `switch se.Name.Space`: namespace ↦ decoder function (default ↦ error)")
	// compose with the local-name switches
	fnOf := map[string]*ast.FuncDecl{
		"decodeStream": st.fn("", "decodeStream"), "decodeSASL": st.fn("", "decodeSASL"),
		"decodeClient": st.fn("", "decodeClient"), "decodeComponent": st.fn("", "decodeComponent"),
		"sm.decode": st.fn("smDecoder", "decode"),
	}
	var table []string
	defaultsError := true
	for _, ns := range nsTable {
		if ns[0] == "default" {
			if ns[1] != "error" {
				defaultsError = false
			}
			continue
		}
		fd, ok := fnOf[ns[1]]
		if !ok {
			table = append(table, "(("+leanStr(ns[0])+", "+leanStr("<unknown decoder "+ns[1]+">")+"), \"?\")")
			continue
		}
		hasDefault := false
		for _, c := range caseTable(st, switchOn(fnBody(fd), "se.Name.Local")) {
			if c[0] == "default" {
				hasDefault = true
				if c[1] != "error" {
					defaultsError = false
				}
				continue
			}
			table = append(table, "(("+leanStr(ns[0])+", "+leanStr(c[0])+"), "+leanStr(c[1])+")")
		}
		if !hasDefault {
			defaultsError = false
		}
	}
	g.def("table", "List ((String × String) × String)", "[\n  "+strings.Join(table, ",\n  ")+"]",
		"(namespace, local name) ↦ the decode call the start element is handed to, in source order")
	g.def("defaultsReturnError", "Bool", strconv.FormatBool(defaultsError), "every `default:` arm of these switches returns an error (no decoder is called)")
	// the end-element path
	endCond := "<none>"
	if fd := st.fn("", "NextXmppToken"); fd != nil {
		ast.Inspect(fd.Body, func(n ast.Node) bool {
			if cl, ok := n.(*ast.CaseClause); ok && len(cl.List) == 1 && exprString(cl.List[0]) == "xml.EndElement" {
				for _, s := range cl.Body {
					if is, ok := s.(*ast.IfStmt); ok {
						endCond = exprString(is.Cond)
					}
				}
			}
			return true
		})
	}
	g.def("endElementReturned", "String", leanStr(endCond), "NextXmppToken: the only end element handed to NextPacket")
	g.def("nsStreamValue", "String", leanStr(strConst(st, "NSStream")), "")

	// hand-written loops
	var names []string
	var facts []string
	var exits []string
	var cases []string
	for _, fd := range unmarshalers(st) {
		lf := loopOf(st, fd)
		names = append(names, lf.typ)
		if !lf.hasLoop {
			continue
		}
		facts = append(facts, "("+leanStr(lf.typ)+", "+strconv.FormatBool(lf.startConsume)+")")
		exits = append(exits, "("+leanStr(lf.typ)+", "+leanStr(lf.exitCond)+")")
		if lf.localCases != nil {
			cases = append(cases, "("+leanStr(lf.typ)+", "+leanStrList(lf.localCases)+", "+strconv.FormatBool(lf.hasDefault)+")")
		}
	}
	g.def("unmarshalers", "List String", leanStrList(names), "every type of package stanza with a hand-written UnmarshalXML")
	g.def("loopConsumesChild", "List (String × Bool)", "["+strings.Join(facts, ", ")+"]",
		"per hand-written token loop: the StartElement clause calls d.Skip / d.DecodeElement / decodeClient on every path")
	g.def("loopExit", "List (String × String)", "["+strings.Join(exits, ", ")+"]", "per loop: the condition under which the EndElement clause returns")
	g.def("loopLocalCases", "List (String × List String × Bool)", "[\n  "+strings.Join(cases, ",\n  ")+"]",
		"per loop with a `switch tt.Name.Local`: the case labels in order, and whether there is a default clause")
	// IQ dispatches on the local name `error` with an if, not a switch
	iqErr := "<none>"
	if fd := st.fn("IQ", "UnmarshalXML"); fd != nil {
		ast.Inspect(fd.Body, func(n ast.Node) bool {
			if is, ok := n.(*ast.IfStmt); ok && strings.Contains(exprString(is.Cond), "tt.Name.Local") && iqErr == "<none>" {
				iqErr = exprString(is.Cond)
			}
			return true
		})
	}
	g.def("iqErrorTest", "String", leanStr(iqErr), "IQ.UnmarshalXML: the first test on a child start element")

	// which Go type each decode function fills: `var packet T` + DecodeElement(&packet, &se)
	var dts []string
	for _, f := range st.files {
		for _, d := range f.Decls {
			fd, ok := d.(*ast.FuncDecl)
			if !ok || fd.Recv == nil || !strings.HasPrefix(fd.Name.Name, "decode") || fd.Body == nil {
				continue
			}
			typ, dec := "", false
			ast.Inspect(fd.Body, func(n ast.Node) bool {
				switch x := n.(type) {
				case *ast.ValueSpec:
					if len(x.Names) == 1 && x.Names[0].Name == "packet" {
						typ = exprString(x.Type)
					}
				case *ast.CallExpr:
					if exprString(x.Fun) == "p.DecodeElement" && len(x.Args) == 2 && exprString(x.Args[0]) == "&packet" {
						dec = true
					}
				}
				return true
			})
			if typ != "" && dec {
				dts = append(dts, "("+leanStr(typeName(fd.Recv.List[0].Type)+"."+fd.Name.Name)+", "+leanStr(typ)+")")
			}
		}
	}
	sort.Strings(dts)
	g.def("decodeTypes", "List (String × String)", "[\n  "+strings.Join(dts, ",\n  ")+"]",
		"decoder method ↦ the Go type it passes to p.DecodeElement")

	// struct types with a field whose type has a hand-written UnmarshalXML (reflection walks that reach a loop)
	isUnm := map[string]bool{}
	for _, n := range names {
		isUnm[n] = true
	}
	var conts []string
	for _, f := range st.files {
		for _, d := range f.Decls {
			gd, ok := d.(*ast.GenDecl)
			if !ok {
				continue
			}
			for _, sp := range gd.Specs {
				ts, ok := sp.(*ast.TypeSpec)
				if !ok {
					continue
				}
				stt, ok := ts.Type.(*ast.StructType)
				if !ok {
					continue
				}
				for _, fl := range stt.Fields.List {
					ft := fl.Type
					for {
						switch x := ft.(type) {
						case *ast.StarExpr:
							ft = x.X
							continue
						case *ast.ArrayType:
							ft = x.Elt
							continue
						}
						break
					}
					if id, ok := ft.(*ast.Ident); ok && isUnm[id.Name] && id.Name != "Node" && id.Name != "Err" {
						conts = append(conts, "("+leanStr(ts.Name.Name)+", "+leanStr(id.Name)+")")
					}
				}
			}
		}
	}
	sort.Strings(conts)
	g.def("containers", "List (String × String)", "["+strings.Join(conts, ", ")+"]",
		"struct type ↦ field type with a hand-written UnmarshalXML (Node and Err fields, which consume every child, left out)")

	// registry
	var reg []string
	for _, r := range registryCalls(st) {
		reg = append(reg, "("+leanStr(r[0])+", "+leanStr(r[1])+", "+leanStr(r[2])+", "+leanStr(r[3])+")")
	}
	g.def("registry", "List (String × String × String × String)", "[\n  "+strings.Join(reg, ",\n  ")+"]",
		"TypeRegistry.MapExtension calls: packet type, namespace, local name, Go type (sorted)")
	return g
}
