package main

import (
	"go/ast"
	"strings"
)

// actions flattens a statement list into an ordered list of abstract action names:
// calls by callee, `go f`, `defer f`, `return`, `x++`; statements nested in an if/else get the prefix "if:".
func actions(stmts []ast.Stmt, prefix string) []string {
	var out []string
	var callsIn func(e ast.Expr)
	callsIn = func(e ast.Expr) {
		ast.Inspect(e, func(n ast.Node) bool {
			if _, ok := n.(*ast.FuncLit); ok {
				return false
			}
			if c, ok := n.(*ast.CallExpr); ok {
				name := exprString(c.Fun)
				// conversions and builtins that carry no behaviour for the models
				switch name {
				case "errors.New", "string", "int", "uint", "len", "make", "append", "new":
				default:
					out = append(out, prefix+name)
				}
			}
			return true
		})
	}
	for _, st := range stmts {
		switch s := st.(type) {
		case *ast.ExprStmt:
			callsIn(s.X)
		case *ast.GoStmt:
			out = append(out, prefix+"go "+exprString(s.Call.Fun))
		case *ast.DeferStmt:
			out = append(out, prefix+"defer "+exprString(s.Call.Fun)+"("+joinArgs(s.Call.Args)+")")
		case *ast.ReturnStmt:
			for _, r := range s.Results {
				callsIn(r)
			}
			out = append(out, prefix+"return")
		case *ast.IncDecStmt:
			out = append(out, prefix+exprString(s.X)+s.Tok.String())
		case *ast.AssignStmt:
			for _, r := range s.Rhs {
				callsIn(r)
			}
		case *ast.DeclStmt:
		case *ast.IfStmt:
			if s.Init != nil {
				out = append(out, actions([]ast.Stmt{s.Init}, prefix)...)
			}
			out = append(out, actions(s.Body.List, prefix+"if:")...)
			if s.Else != nil {
				switch e := s.Else.(type) {
				case *ast.BlockStmt:
					out = append(out, actions(e.List, prefix+"else:")...)
				case *ast.IfStmt:
					out = append(out, actions([]ast.Stmt{e}, prefix+"else:")...)
				}
			}
		case *ast.BlockStmt:
			out = append(out, actions(s.List, prefix)...)
		case *ast.SendStmt:
			out = append(out, prefix+"send "+exprString(s.Chan))
		}
	}
	return out
}

func joinArgs(args []ast.Expr) string {
	var p []string
	for _, a := range args {
		p = append(p, exprString(a))
	}
	return strings.Join(p, ",")
}

// firstLoop returns the body of the first `for` statement of fn.
func firstLoop(fd *ast.FuncDecl) *ast.ForStmt {
	var loop *ast.ForStmt
	if fd == nil {
		return nil
	}
	ast.Inspect(fd.Body, func(n ast.Node) bool {
		if loop != nil {
			return false
		}
		if f, ok := n.(*ast.ForStmt); ok {
			loop = f
			return false
		}
		return true
	})
	return loop
}

type swCase struct {
	types   []string
	actions []string
}

// recvShape describes a receive loop: defers before the loop, the error branch after NextPacket, the type switch
// (per case: the types and the actions), and what follows the switch inside the loop.
func recvShape(fd *ast.FuncDecl) (defers, errBranch []string, cases []swCase, after []string) {
	if fd == nil {
		return []string{"<missing function>"}, nil, nil, nil
	}
	for _, st := range fd.Body.List {
		if d, ok := st.(*ast.DeferStmt); ok {
			defers = append(defers, exprString(d.Call.Fun)+"("+joinArgs(d.Call.Args)+")")
		}
	}
	loop := firstLoop(fd)
	if loop == nil {
		return defers, []string{"<no loop>"}, nil, nil
	}
	seenSwitch := false
	for _, st := range loop.Body.List {
		switch s := st.(type) {
		case *ast.IfStmt:
			if !seenSwitch && strings.Contains(exprString(s.Cond), "err") {
				errBranch = actions(s.Body.List, "")
				continue
			}
			after = append(after, actions([]ast.Stmt{s}, "")...)
		case *ast.TypeSwitchStmt:
			seenSwitch = true
			for _, cc := range s.Body.List {
				cl := cc.(*ast.CaseClause)
				var c swCase
				for _, t := range cl.List {
					c.types = append(c.types, exprString(t))
				}
				if cl.List == nil {
					c.types = []string{"default"}
				}
				c.actions = actions(cl.Body, "")
				cases = append(cases, c)
			}
		default:
			if seenSwitch {
				after = append(after, actions([]ast.Stmt{st}, "")...)
			}
		}
	}
	return
}

func leanCases(cs []swCase) string {
	var parts []string
	for _, c := range cs {
		parts = append(parts, "("+leanStrList(c.types)+", "+leanStrList(c.actions)+")")
	}
	return "[" + strings.Join(parts, ",\n  ") + "]"
}

func genRecv(root *pkg) *genFile {
	g := newGen("RecvSwitch")
	d, e, cs, a := recvShape(root.fn("Client", "recv"))
	g.def("clientDefers", "List String", leanStrList(d), "defer statements of Client.recv")
	g.def("clientRecvFuncLits", "List (List String)", leanStrListList(funcLits(root.fn("Client", "recv"))), "function literals inside Client.recv (stopKeepalive and the once.Do body)")
	g.def("clientErrBranch", "List String", leanStrList(e), "actions when NextPacket returns an error")
	g.def("clientCases", "List (List String × List String)", leanCases(cs), "type switch of Client.recv: (types, actions) per case")
	g.def("clientAfterSwitch", "List String", leanStrList(a), "statements after the switch, inside the loop")
	d, e, cs, a = recvShape(root.fn("Component", "recv"))
	g.def("componentDefers", "List String", leanStrList(d), "defer statements of Component.recv")
	g.def("componentErrBranch", "List String", leanStrList(e), "actions when NextPacket returns an error")
	g.def("componentCases", "List (List String × List String)", leanCases(cs), "type switch of Component.recv")
	g.def("componentAfterSwitch", "List String", leanStrList(a), "statements after the switch, inside the loop")
	// Router.route: what the SMAnswer hook does
	g.def("routeActions", "List String", leanStrList(fnActions(root.fn("Router", "route"))), "flattened actions of Router.route")
	g.def("sendMissingActions", "List String", leanStrList(fnActions(root.fn("", "SendMissingStz"))), "flattened actions of SendMissingStz")
	return g
}

func fnActions(fd *ast.FuncDecl) []string {
	if fd == nil {
		return []string{"<missing function>"}
	}
	return actionsDeep(fd.Body.List, "")
}

// actionsDeep is `actions` that also descends into for / switch / type-switch / select bodies.
func actionsDeep(stmts []ast.Stmt, prefix string) []string {
	var out []string
	for _, st := range stmts {
		switch s := st.(type) {
		case *ast.ForStmt:
			out = append(out, actionsDeep(s.Body.List, prefix+"for:")...)
		case *ast.RangeStmt:
			out = append(out, actionsDeep(s.Body.List, prefix+"for:")...)
		case *ast.SwitchStmt:
			for _, cc := range s.Body.List {
				out = append(out, actionsDeep(cc.(*ast.CaseClause).Body, prefix+"case:")...)
			}
		case *ast.TypeSwitchStmt:
			for _, cc := range s.Body.List {
				cl := cc.(*ast.CaseClause)
				var ts []string
				for _, t := range cl.List {
					ts = append(ts, exprString(t))
				}
				out = append(out, actionsDeep(cl.Body, prefix+"case("+strings.Join(ts, "|")+"):")...)
			}
		case *ast.SelectStmt:
			for _, cc := range s.Body.List {
				cl := cc.(*ast.CommClause)
				label := "default"
				if cl.Comm != nil {
					switch c := cl.Comm.(type) {
					case *ast.ExprStmt:
						label = exprString(c.X)
					case *ast.AssignStmt:
						label = exprString(c.Rhs[0])
					case *ast.SendStmt:
						label = "send " + exprString(c.Chan)
					}
				}
				out = append(out, actionsDeep(cl.Body, prefix+"select("+label+"):")...)
			}
		case *ast.IfStmt:
			if s.Init != nil {
				out = append(out, actionsDeep([]ast.Stmt{s.Init}, prefix)...)
			}
			out = append(out, actionsDeep(s.Body.List, prefix+"if:")...)
			if s.Else != nil {
				switch e := s.Else.(type) {
				case *ast.BlockStmt:
					out = append(out, actionsDeep(e.List, prefix+"else:")...)
				case *ast.IfStmt:
					out = append(out, actionsDeep([]ast.Stmt{e}, prefix+"else:")...)
				}
			}
		case *ast.BlockStmt:
			out = append(out, actionsDeep(s.List, prefix)...)
		default:
			out = append(out, actions([]ast.Stmt{st}, prefix)...)
		}
	}
	return out
}

// extraGens: further Gen files, added as properties are built.
func extraGens(root, st *pkg) []*genFile { return []*genFile{genRecv(root), genSession(root), genAuth(root, st), genComponent(root, st), genKeepalive(root), genSupervisor(root), genC01(st), genC01Schema(st), genRouter(root), genDispatch(st), genSendPath(root), genQueue(root, st), genBackoffUse(root), genTransport(root), genDecoder(root, st)} }

// assignsTo lists, in source order, the right-hand sides assigned to the selector `sel` (e.g. "t.isSecure") in fn,
// interleaved with the calls named in `marks` (so that the order "Handshake, isSecure=false, VerifyHostname,
// isSecure=true" is visible).
func assignsTo(fd *ast.FuncDecl, sel string, marks map[string]bool) []string {
	var out []string
	if fd == nil {
		return []string{"<missing function>"}
	}
	ast.Inspect(fd.Body, func(n ast.Node) bool {
		switch s := n.(type) {
		case *ast.AssignStmt:
			for i, l := range s.Lhs {
				if exprString(l) == sel && i < len(s.Rhs) {
					out = append(out, sel+"="+exprString(s.Rhs[i]))
				}
			}
		case *ast.CallExpr:
			if name := exprString(s.Fun); marks[name] {
				out = append(out, name)
			}
		}
		return true
	})
	return out
}

func genSession(root *pkg) *genFile {
	g := newGen("SessionSteps")
	g.def("newSession", "List String", leanStrList(fnActions(root.fn("", "NewSession"))), "flattened actions of NewSession (order of the steps and their early returns)")
	g.def("startTls", "List String", leanStrList(fnActions(root.fn("Session", "startTlsIfSupported"))), "flattened actions of Session.startTlsIfSupported")
	g.def("resume", "List String", leanStrList(fnActions(root.fn("Session", "resume"))), "flattened actions of Session.resume")
	g.def("bind", "List String", leanStrList(fnActions(root.fn("Session", "bind"))), "flattened actions of Session.bind")
	g.def("rfc3921", "List String", leanStrList(fnActions(root.fn("Session", "rfc3921Session"))), "flattened actions of Session.rfc3921Session")
	g.def("enable", "List String", leanStrList(fnActions(root.fn("Session", "EnableStreamManagement"))), "flattened actions of Session.EnableStreamManagement")
	g.def("clientConnect", "List String", leanStrList(fnActions(root.fn("Client", "connect"))), "flattened actions of Client.connect")
	g.def("transportConnectSecure", "List String",
		leanStrList(assignsTo(root.fn("XMPPTransport", "Connect"), "t.isSecure", map[string]bool{"net.DialTimeout": true, "t.StartStream": true})),
		"assignments to isSecure in XMPPTransport.Connect, relative to the dial and the stream start")
	g.def("transportStartTLSSecure", "List String",
		leanStrList(assignsTo(root.fn("XMPPTransport", "StartTLS"), "t.isSecure", map[string]bool{"tlsConn.Handshake": true, "tlsConn.VerifyHostname": true})),
		"assignments to isSecure in XMPPTransport.StartTLS, relative to Handshake and VerifyHostname")
	return g
}

func genKeepalive(root *pkg) *genFile {
	g := newGen("Keepalive")
	g.def("keepalive", "List String", leanStrList(fnActions(root.fn("", "keepalive"))), "flattened actions of keepalive: the select arms")
	g.def("clientConnect", "List String", leanStrList(fnActions(root.fn("Client", "Connect"))), "flattened actions of Client.Connect (which goroutines it starts)")
	g.def("clientResume", "List String", leanStrList(fnActions(root.fn("Client", "Resume"))), "flattened actions of Client.Resume")
	g.def("xmppPing", "List String", leanStrList(fnActions(root.fn("XMPPTransport", "Ping"))), "flattened actions of XMPPTransport.Ping")
	return g
}

// funcLits returns the flattened actions of every function literal inside fn, in source order.
func funcLits(fd *ast.FuncDecl) [][]string {
	var out [][]string
	if fd == nil {
		return [][]string{{"<missing function>"}}
	}
	ast.Inspect(fd.Body, func(n ast.Node) bool {
		if fl, ok := n.(*ast.FuncLit); ok {
			out = append(out, actionsDeep(fl.Body.List, ""))
			return false
		}
		return true
	})
	return out
}

func leanStrListList(xss [][]string) string {
	var parts []string
	for _, xs := range xss {
		parts = append(parts, leanStrList(xs))
	}
	return "[" + strings.Join(parts, ",\n  ") + "]"
}

func genSupervisor(root *pkg) *genFile {
	g := newGen("Supervisor")
	g.def("connectFuncLits", "List (List String)", leanStrListList(funcLits(root.fn("Client", "connect"))), "function literals inside Client.connect (the clean-up goroutine after a failed negotiation)")
	g.def("clientResume", "List String", leanStrList(fnActions(root.fn("Client", "Resume"))), "flattened actions of Client.Resume")
	g.def("runHandler", "List (List String)", leanStrListList(funcLits(root.fn("StreamManager", "Run"))), "the event handler installed by StreamManager.Run")
	g.def("smResume", "List String", leanStrList(fnActions(root.fn("StreamManager", "resume"))), "flattened actions of StreamManager.resume (the retry loop)")
	g.def("smConnect", "List String", leanStrList(fnActions(root.fn("StreamManager", "connect"))), "flattened actions of StreamManager.connect")
	g.def("smStop", "List String", leanStrList(fnActions(root.fn("StreamManager", "Stop"))), "flattened actions of StreamManager.Stop")
	g.def("dialErrorPermanent", "List String", leanStrList(dialErrArgs(root.fn("XMPPTransport", "Connect"))), "second argument of the NewConnError call that wraps the dial error")
	return g
}

// dialErrArgs: the `permanent` argument of NewConnError calls in fn, in source order.
func dialErrArgs(fd *ast.FuncDecl) []string {
	var out []string
	if fd == nil {
		return []string{"<missing function>"}
	}
	ast.Inspect(fd.Body, func(n ast.Node) bool {
		if c, ok := n.(*ast.CallExpr); ok && exprString(c.Fun) == "NewConnError" && len(c.Args) == 2 {
			out = append(out, exprString(c.Args[1]))
		}
		return true
	})
	return out
}

// makeChanCaps lists the capacity arguments of `make(chan T, n)` calls in fn ("0" for unbuffered).
func makeChanCaps(fd *ast.FuncDecl) []string {
	var out []string
	if fd == nil {
		return []string{"<missing function>"}
	}
	ast.Inspect(fd.Body, func(n ast.Node) bool {
		c, ok := n.(*ast.CallExpr)
		if !ok || exprString(c.Fun) != "make" || len(c.Args) == 0 {
			return true
		}
		if _, isChan := c.Args[0].(*ast.ChanType); isChan {
			if len(c.Args) >= 2 {
				out = append(out, exprString(c.Args[1]))
			} else {
				out = append(out, "0")
			}
		}
		return true
	})
	return out
}

// ifConds lists the conditions of the if statements of fn, in source order.
func ifConds(fd *ast.FuncDecl) []string {
	var out []string
	if fd == nil {
		return []string{"<missing function>"}
	}
	ast.Inspect(fd.Body, func(n ast.Node) bool {
		if _, ok := n.(*ast.FuncLit); ok {
			return false
		}
		if i, ok := n.(*ast.IfStmt); ok {
			out = append(out, exprString(i.Cond))
		}
		return true
	})
	return out
}

func genRouter(root *pkg) *genFile {
	g := newGen("RouterSkeleton")
	g.def("route", "List String", leanStrList(fnActions(root.fn("Router", "route"))), "flattened actions of Router.route")
	g.def("routeConds", "List String", leanStrList(ifConds(root.fn("Router", "route"))), "if conditions of Router.route in source order")
	g.def("sendIQ", "List String", leanStrList(fnActions(root.fn("Router", "sendIQ"))), "flattened actions of Router.sendIQ (register, write, clean-up)")
	g.def("sendIQFuncLits", "List (List String)", leanStrListList(funcLits(root.fn("Router", "sendIQ"))), "goroutine started by Router.sendIQ")
	g.def("removeRoute", "List String", leanStrList(fnActions(root.fn("Router", "removeIQResultRoute"))), "flattened actions of Router.removeIQResultRoute")
	g.def("removeRouteConds", "List String", leanStrList(ifConds(root.fn("Router", "removeIQResultRoute"))), "if conditions of removeIQResultRoute")
	g.def("resultChanCap", "List String", leanStrList(makeChanCaps(root.fn("", "NewIQResultRoute"))), "capacity of the result channel made by NewIQResultRoute")
	g.def("clientSendIQ", "List String", leanStrList(fnActions(root.fn("Client", "SendIQ"))), "flattened actions of Client.SendIQ")
	g.def("componentSendIQ", "List String", leanStrList(fnActions(root.fn("Component", "SendIQ"))), "flattened actions of Component.SendIQ")
	return g
}

func genSendPath(root *pkg) *genFile {
	g := newGen("SendPath")
	for _, f := range [][3]string{
		{"clientSend", "Client", "Send"}, {"clientSendRaw", "Client", "SendRaw"}, {"clientSendAndStore", "Client", "sendAndStore"},
		{"clientSendWithWriter", "Client", "sendWithWriter"}, {"componentSend", "Component", "Send"},
		{"componentSendRaw", "Component", "SendRaw"}, {"componentSendWithWriter", "Component", "sendWithWriter"},
		{"loggerWrite", "streamLogger", "Write"}, {"xmppWrite", "XMPPTransport", "Write"}, {"wsWrite", "WebsocketTransport", "Write"},
	} {
		g.def(f[0], "List String", leanStrList(fnActions(root.fn(f[1], f[2]))), "flattened actions of "+f[1]+"."+f[2])
	}
	return g
}

// kvFields lists `Key: value` pairs of the composite literals whose type prints as typ inside fn.
func kvFields(fd *ast.FuncDecl, typ string) []string {
	var out []string
	if fd == nil {
		return []string{"<missing function>"}
	}
	ast.Inspect(fd.Body, func(n ast.Node) bool {
		cl, ok := n.(*ast.CompositeLit)
		if !ok || exprString(cl.Type) != typ {
			return true
		}
		for _, e := range cl.Elts {
			if kv, ok := e.(*ast.KeyValueExpr); ok {
				out = append(out, exprString(kv.Key)+"="+exprString(kv.Value))
			}
		}
		return true
	})
	return out
}

// typeSwitchCases lists the case type lists of the type switches in fn ("default" for the default arm).
func typeSwitchCases(fd *ast.FuncDecl) []string {
	var out []string
	if fd == nil {
		return []string{"<missing function>"}
	}
	ast.Inspect(fd.Body, func(n ast.Node) bool {
		ts, ok := n.(*ast.TypeSwitchStmt)
		if !ok {
			return true
		}
		for _, cc := range ts.Body.List {
			cl := cc.(*ast.CaseClause)
			if cl.List == nil {
				out = append(out, "default")
				continue
			}
			var t []string
			for _, e := range cl.List {
				t = append(t, exprString(e))
			}
			out = append(out, strings.Join(t, "|"))
		}
		return true
	})
	return out
}

func genQueue(root, st *pkg) *genFile {
	g := newGen("Queue")
	for _, m := range []string{"Push", "Pop", "PopN", "Peek", "PeekN", "Empty"} {
		g.def("conds"+m, "List String", leanStrList(ifConds(st.fn("UnAckQueue", m))), "if conditions of UnAckQueue."+m)
		g.def("acts"+m, "List String", leanStrList(fnActions(st.fn("UnAckQueue", m))), "flattened actions of UnAckQueue."+m)
	}
	g.def("sendMissing", "List String", leanStrList(fnActions(root.fn("", "SendMissingStz"))), "flattened actions of SendMissingStz")
	g.def("sendMissingConds", "List String", leanStrList(ifConds(root.fn("", "SendMissingStz"))), "if conditions of SendMissingStz")
	g.def("resendStz", "List String", leanStrList(fnActions(root.fn("", "resendStz"))), "flattened actions of resendStz")
	g.def("clientSendTypeSwitch", "List String", leanStrList(typeSwitchCases(root.fn("Client", "Send"))), "type switch of Client.Send: what is never stored")
	g.def("notImplementedErr", "List String", leanStrList(kvFields(root.fn("", "iqNotImplemented"), "stanza.Err")), "fields of the error built by iqNotImplemented")
	g.def("nameMatcherCases", "List String", leanStrList(typeSwitchCases(root.fn("nameMatcher", "Match"))), "type switch of nameMatcher.Match")
	g.def("typeMatcherCases", "List String", leanStrList(typeSwitchCases(root.fn("nsTypeMatcher", "Match"))), "type switch of nsTypeMatcher.Match")
	g.def("routeMatch", "List String", leanStrList(fnActions(root.fn("Route", "Match"))), "flattened actions of Route.Match")
	g.def("routerMatch", "List String", leanStrList(fnActions(root.fn("Router", "Match"))), "flattened actions of Router.Match")
	return g
}

// localDecls lists where the local variables of fn are introduced: one entry "<prefix><name>:<type or :=>" per
// `var` declaration and per `:=` definition, the prefix naming the enclosing statements ("for:", "if:", "else:").
// It tells a tie WHERE a piece of state lives (e.g. the retry loop's backoff: before the loop, not inside it).
func localDecls(fd *ast.FuncDecl) []string {
	if fd == nil || fd.Body == nil {
		return []string{"<missing function>"}
	}
	var out []string
	var walk func(stmts []ast.Stmt, prefix string)
	walk = func(stmts []ast.Stmt, prefix string) {
		for _, st := range stmts {
			switch s := st.(type) {
			case *ast.DeclStmt:
				if gd, ok := s.Decl.(*ast.GenDecl); ok {
					for _, sp := range gd.Specs {
						if vs, ok := sp.(*ast.ValueSpec); ok {
							for _, n := range vs.Names {
								out = append(out, prefix+n.Name+":"+exprString(vs.Type))
							}
						}
					}
				}
			case *ast.AssignStmt:
				if s.Tok.String() == ":=" {
					for _, l := range s.Lhs {
						out = append(out, prefix+exprString(l)+"::=")
					}
				}
			case *ast.IfStmt:
				if s.Init != nil {
					walk([]ast.Stmt{s.Init}, prefix+"if:")
				}
				walk(s.Body.List, prefix+"if:")
				switch e := s.Else.(type) {
				case *ast.BlockStmt:
					walk(e.List, prefix+"else:")
				case *ast.IfStmt:
					walk([]ast.Stmt{e}, prefix+"else:")
				}
			case *ast.ForStmt:
				walk(s.Body.List, prefix+"for:")
			case *ast.RangeStmt:
				walk(s.Body.List, prefix+"for:")
			case *ast.BlockStmt:
				walk(s.List, prefix)
			}
		}
	}
	walk(fd.Body.List, "")
	return out
}

// methodCallsOn lists, in source order, the methods called on the local variable `name` inside fn, with the
// same statement prefixes as `actionsDeep`.
func methodCallsOn(fd *ast.FuncDecl, name string) []string {
	var out []string
	for _, a := range fnActions(fd) {
		i := strings.LastIndex(a, ":")
		if strings.HasPrefix(a[i+1:], name+".") {
			out = append(out, a)
		}
	}
	return out
}

func genBackoffUse(root *pkg) *genFile {
	g := newGen("BackoffUse")
	fd := root.fn("StreamManager", "resume")
	var bd []string
	for _, d := range localDecls(fd) {
		rest := d[strings.LastIndex(d[:strings.LastIndex(d, ":")], ":")+1:]
		if strings.HasPrefix(rest, "backoff:") || strings.HasSuffix(d, ":backoff") || strings.HasSuffix(d, ":<missing function>") {
			bd = append(bd, d)
		}
	}
	g.def("resumeBackoffDecl", "List String", leanStrList(bd), "where StreamManager.resume introduces its back-off state: every local named `backoff` or of type backoff, with the enclosing statements as prefix")
	g.def("resumeBackoffCalls", "List String", leanStrList(methodCallsOn(fd, "backoff")), "methods called on the local `backoff` in StreamManager.resume")
	g.def("waitBody", "List String", leanStrList(fnActions(root.fn("backoff", "wait"))), "flattened actions of backoff.wait")
	g.def("durationBody", "List String", leanStrList(fnActions(root.fn("backoff", "duration"))), "flattened actions of backoff.duration")
	return g
}

// genTransport: what the transports do when they are closed and how the WebSocket transport reads.
func genTransport(root *pkg) *genFile {
	g := newGen("Transport")
	g.def("xmppClose", "List String", leanStrList(fnActions(root.fn("XMPPTransport", "Close"))), "flattened actions of XMPPTransport.Close")
	g.def("xmppReceivedStreamClose", "List String", leanStrList(fnActions(root.fn("XMPPTransport", "ReceivedStreamClose"))), "flattened actions of XMPPTransport.ReceivedStreamClose")
	g.def("wsClose", "List String", leanStrList(fnActions(root.fn("WebsocketTransport", "Close"))), "flattened actions of WebsocketTransport.Close")
	g.def("wsCleanup", "List String", leanStrList(fnActions(root.fn("WebsocketTransport", "cleanup"))), "flattened actions of WebsocketTransport.cleanup")
	g.def("wsRead", "List String", leanStrList(fnActions(root.fn("WebsocketTransport", "Read"))), "flattened actions of WebsocketTransport.Read")
	g.def("wsStartReader", "List (List String)", leanStrListList(funcLits(root.fn("WebsocketTransport", "startReader"))), "the reader goroutine started by WebsocketTransport.startReader")
	g.def("startTLSConn", "List String", leanStrList(assignsTo(root.fn("XMPPTransport", "StartTLS"), "t.conn", map[string]bool{"tlsConn.Handshake": true, "newStreamLogger": true})), "assignments to t.conn in XMPPTransport.StartTLS relative to the handshake and the new stream logger")
	g.def("startTLSReadWriter", "List String", leanStrList(assignsTo(root.fn("XMPPTransport", "StartTLS"), "t.readWriter", map[string]bool{"tlsConn.Handshake": true})), "assignments to t.readWriter in XMPPTransport.StartTLS")
	g.def("xmppPingWrites", "List String", leanStrList(fnActions(root.fn("XMPPTransport", "Ping"))), "flattened actions of XMPPTransport.Ping")
	g.def("wsDoesStartTLS", "List String", leanStrList(returnShapes(root.fn("WebsocketTransport", "DoesStartTLS"))), "what WebsocketTransport.DoesStartTLS returns")
	g.def("wsIsSecure", "List String", leanStrList(returnShapes(root.fn("WebsocketTransport", "IsSecure"))), "what WebsocketTransport.IsSecure returns")
	g.def("newSessionConds", "List String", leanStrList(ifConds(root.fn("", "NewSession"))), "if conditions of NewSession in source order (the TLS gate is the third)")
	g.def("startTlsConds", "List String", leanStrList(ifConds(root.fn("Session", "startTlsIfSupported"))), "if conditions of Session.startTlsIfSupported")
	g.def("wsPing", "List String", leanStrList(fnActions(root.fn("WebsocketTransport", "Ping"))), "flattened actions of WebsocketTransport.Ping")
	return g
}
