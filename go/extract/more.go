package main

// extraGens: further Gen files, added as properties are built.
func extraGens(root, st *pkg) []*genFile { return nil }
