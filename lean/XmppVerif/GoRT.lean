/-
Run-time library of the Go -> Lean translator (go/extract/tr.go). The regenerated modules `Gen/Tr*.lean` are
terms over these definitions; `Tie/Tr*.lean` proves them equal to the hand-written models.

Representation (part of the trusted base, see DESIGN.md 12.9):
  string  = `List Char` (code points; strings that are not valid UTF-8 are outside the translation),
  int     = `Int` (no overflow), slices = `List`, error = `Bool` ("is an error"),
  indices returned by strings.Index / LastIndex / IndexFunc are CODE POINT indices, not byte offsets: the
  translated functions only compare them with each other or with 0 / -1, which is insensitive to the difference;
  indexing outside a list yields `default` where Go panics (panics are not modelled).
-/
namespace XmppVerif.GoRT

/-- result of one iteration of a loop body: `return v`, the new values of the assigned variables, or `break` -/
inductive Step (ρ σ : Type) where
  | ret (v : ρ)
  | next (s : σ)
  | brk (s : σ)

/-- result of a whole loop: `return v` from inside, or the final values of the assigned variables -/
inductive Done (ρ σ : Type) where
  | ret (v : ρ)
  | fin (s : σ)

/-- `error`: nil, an ordinary error, or a `ConnError` with its `Permanent` flag (messages are not modelled) -/
inductive Err where
  | none
  | plain
  | conn (permanent : Bool)
  deriving DecidableEq, Repr, Inhabited

def Err.isErr : Err → Bool
  | .none => false
  | _ => true

@[simp] theorem Err.isErr_none : Err.none.isErr = false := rfl
@[simp] theorem Err.isErr_plain : Err.plain.isErr = true := rfl
@[simp] theorem Err.isErr_conn (p : Bool) : (Err.conn p).isErr = true := rfl

def len {α : Type} (xs : List α) : Int := (xs.length : Int)

def idx {α : Type} [Inhabited α] (xs : List α) (i : Int) : α :=
  if i < 0 then default else xs.getD i.toNat default

def sliceFrom {α : Type} (xs : List α) (lo : Int) : List α := xs.drop lo.toNat

def slice {α : Type} (xs : List α) (lo hi : Int) : List α := (xs.take hi.toNat).drop lo.toNat

def forEachAux {α ρ σ : Type} (f : Int → α → σ → Step ρ σ) : Int → List α → σ → Done ρ σ
  | _, [], s => .fin s
  | i, x :: xs, s =>
    match f i x s with
    | .ret v => .ret v
    | .brk s' => .fin s'
    | .next s' => forEachAux f (i + 1) xs s'

/-- `for i, x := range xs { body }` -/
def forEach {α ρ σ : Type} (xs : List α) (f : Int → α → σ → Step ρ σ) (s : σ) : Done ρ σ :=
  forEachAux f 0 xs s

def forRangeAux {ρ σ : Type} (f : Int → σ → Step ρ σ) : Nat → Int → σ → Done ρ σ
  | 0, _, s => .fin s
  | k + 1, i, s =>
    match f i s with
    | .ret v => .ret v
    | .brk s' => .fin s'
    | .next s' => forRangeAux f k (i + 1) s'

/-- `for i := lo; i < hi; i++ { body }` where the body assigns neither `i` nor anything `hi` mentions -/
def forRange {ρ σ : Type} (lo hi : Int) (f : Int → σ → Step ρ σ) (s : σ) : Done ρ σ :=
  forRangeAux f (hi - lo).toNat lo s

/-! ### float64, ideal: the translated code only forms products, powers and minima of integers; they are computed
exactly (`F64 = Int`). This is the Go result whenever every intermediate value is below 2^53; rounding above that
is not modelled (DESIGN.md 10 and 12.9). `math.Pow` with a negative exponent is outside the model (0). -/

abbrev F64 := Int
def F64.ofInt (x : Int) : F64 := x
def F64.toInt (x : F64) : Int := x
def math_Min (a b : F64) : F64 := if a ≤ b then a else b
def math_Max (a b : F64) : F64 := if a ≤ b then b else a
def math_Pow (a b : F64) : F64 := if b < 0 then 0 else a ^ b.toNat
def math_Trunc (a : F64) : F64 := a

/-! ### package strings (over code points) -/

def strings_HasPrefix (s p : List Char) : Bool := p.isPrefixOf s
def strings_HasSuffix (s p : List Char) : Bool := p.isSuffixOf s

def indexGo (sub : List Char) : List Char → Int → Int
  | [], i => if sub.isEmpty then i else -1
  | c :: cs, i => if sub.isPrefixOf (c :: cs) then i else indexGo sub cs (i + 1)

/-- `strings.Index` -/
def strings_Index (s sub : List Char) : Int := indexGo sub s 0

def strings_Contains (s sub : List Char) : Bool := decide (strings_Index s sub ≥ 0)

/-- `strings.LastIndex` -/
def strings_LastIndex (s sub : List Char) : Int :=
  match s with
  | [] => if sub.isEmpty then 0 else -1
  | c :: cs =>
    let r := strings_LastIndex cs sub
    if r ≥ 0 then r + 1 else if sub.isPrefixOf (c :: cs) then 0 else -1

def countGo (sub : List Char) : List Char → Nat → Int
  | [], _ => 0
  | c :: cs, 0 => if sub.isPrefixOf (c :: cs) then 1 + countGo sub cs (sub.length - 1) else countGo sub cs 0
  | _ :: cs, k + 1 => countGo sub cs k

/-- `strings.Count`: non-overlapping occurrences; code points + 1 for the empty needle -/
def strings_Count (s sub : List Char) : Int :=
  if sub.isEmpty then (s.length : Int) + 1 else countGo sub s 0

/-- split at the first occurrence of a non-empty separator -/
def cut (sep : List Char) : List Char → List Char × Option (List Char)
  | [] => ([], none)
  | c :: cs =>
    if sep.isPrefixOf (c :: cs) then ([], some ((c :: cs).drop sep.length))
    else
      let r := cut sep cs
      (c :: r.1, r.2)

def splitGo (sep : List Char) : Nat → List Char → List (List Char)
  | 0, s => [s]
  | k + 1, s =>
    match cut sep s with
    | (a, none) => [a]
    | (a, some b) => a :: splitGo sep k b

def explode : Nat → List Char → List (List Char)
  | _, [] => []
  | 0, s => [s]
  | k + 1, c :: cs => [c] :: explode k cs

/-- `strings.SplitN` -/
def strings_SplitN (s sep : List Char) (n : Int) : List (List Char) :=
  if n == 0 then []
  else
    let cuts : Nat := if n < 0 then s.length else (n - 1).toNat
    if sep.isEmpty then explode cuts s else splitGo sep cuts s

def indexFuncGo (f : Char → Bool) : List Char → Int → Int
  | [], _ => -1
  | c :: cs, i => if f c then i else indexFuncGo f cs (i + 1)

/-- `strings.IndexFunc` -/
def strings_IndexFunc (s : List Char) (f : Char → Bool) : Int := indexFuncGo f s 0

/-! ### strconv, unicode -/

def strconv_Itoa (n : Int) : List Char := (toString n).toList

/-- `unicode.IsSpace` (Go 1.23: Latin-1 fast path plus the White_Space table); compared with the real function on
every code point by C15's check. -/
def unicode_IsSpace (c : Char) : Bool :=
  let n := c.toNat
  (9 ≤ n && n ≤ 13) || n == 0x20 || n == 0x85 || n == 0xA0 || n == 0x1680 ||
  (0x2000 ≤ n && n ≤ 0x200A) || n == 0x2028 || n == 0x2029 || n == 0x202F || n == 0x205F || n == 0x3000

end XmppVerif.GoRT
