import XmppVerif.Drv.Core
import XmppVerif.Spec.C18
namespace XmppVerif.Drv.C18
open XmppVerif.Spec.C18 XmppVerif.Util XmppVerif.Drv

def kvs (s : String) : List (String × String) :=
  (s.splitOn " ").filterMap fun f => match f.splitOn "=" with
    | [k, v] => some (k, v)
    | _ => none

def nat (m : List (String × String)) (k : String) : Nat := (m.lookup k).bind String.toNat? |>.getD 0

def step (_ : Unit) (fields : List String) (impl : String) : Unit × Reply :=
  match fields with
  | ["run", i, f, q] =>
    match i.toNat?, f.toNat?, q.toNat? with
    | some i, some f, some q =>
      let c : Case := ⟨i, f, q⟩
      let m := kvs impl
      let o : Obs := ⟨nat m "pings", nat m "closes", (m.lookup "returned") == some "true", nat m "afterquit",
                      nat m "afterret", nat m "runms", nat m "quitlag"⟩
      let ok := i > 0 && holds c o
      -- the model is nondeterministic in time: agreement = the observed run is one the model allows
      ((), ⟨"accepted-by-model=" ++ boolStr ok, ok, true, ok, "-"⟩)
    | _, _, _ => ((), .bad)
  | ["xrun", i, k] =>
    match i.toNat?, k.toNat? with
    | some i, some k =>
      let m := kvs impl
      let o : XObs := ⟨nat m "pings", (m.lookup "connclosed") == some "true", nat m "errh", nat m "disc",
                       (m.lookup "returned") == some "true", nat m "afterret"⟩
      let ok := i > 0 && k > 0 && holdsX k o
      ((), ⟨"accepted-by-model=" ++ boolStr ok, ok, true, ok, "-"⟩)
    | _, _ => ((), .bad)
  | ["wsdead", i, _] =>
    -- a WebSocket peer that stops answering: the ping timeout counts as a failed keepalive, the transport is
    -- closed and the loss reported once (within twice the ping timeout)
    match i.toNat? with
    | some i =>
      let m := kvs impl
      let ok := i > 0 && (m.lookup "returned") == some "true" && nat m "disc" == 1 && nat m "errh" == 1
      ((), ⟨"accepted-by-model=" ++ boolStr ok, ok, true, ok, "-"⟩)
    | none => ((), .bad)
  | ["tlsrun", i, t] =>
    -- keepalives of a STARTTLS session: they arrive inside the TLS session (at most one per tick, not far fewer),
    -- and the server's TLS layer never saw anything that made it give the stream up
    match i.toNat?, t.toNat? with
    | some i, some ticks =>
      let m := kvs impl
      let p := nat m "tlspings"
      let ok := i > 0 && (m.lookup "srvalive") == some "true" && (m.lookup "secure") == some "true" &&
                decide (p ≤ ticks + 1) && decide (ticks ≤ p + 2 + ticks / 3)
      ((), ⟨"accepted-by-model=" ++ boolStr ok, ok, true, ok, "-"⟩)
    | _, _ => ((), .bad)
  | ["stale", i, lives] =>
    -- a supervised client with a keepalive that ticks every few ms, through losses during which the server refuses
    -- connections: one new session per loss, no connection beyond those, Stop makes Run return (C13's observation)
    match i.toNat? with
    | some i =>
      let m := kvs impl
      let n := (lives.splitOn ";").length
      let ok := i > 0 && nat m "sessions" == n + 1 && nat m "post" == n + 1 && nat m "recv" == n + 1 &&
        nat m "unexpected" == 0 && (m.lookup "stalled") == some "-" && (m.lookup "stop") == some "true"
      ((), ⟨"accepted-by-model=" ++ boolStr ok, ok, true, ok, "-"⟩)
    | none => ((), .bad)
  | ["cfginterval", _, ms] =>
    -- the interval the client will use is the configured one (30 s where none was given), on every transport
    match ms.toNat? with
    | some ms =>
      let want := "interval=" ++ toString (if ms == 0 then 30000 else ms)
      ((), .det want impl true (impl == want))
    | none => ((), .bad)
  | ["liveserver", i, n] =>
    -- sessions ended by the server: each has its keepalives, and each end is reported (the l-th Disconnected event
    -- after the l-th life) - so that the session's keepalive stops
    match i.toNat?, n.toNat? with
    | some i, some n =>
      let m := kvs impl
      let ok := i > 0 && n > 0 && nat m "lives" == n &&
        (List.range n).all fun k =>
          (match (m.lookup ("p" ++ toString (k + 1))).bind String.toNat? with
           | some p => decide (2 ≤ p) && decide (p ≤ nat m ("t" ++ toString (k + 1)) / i + 2)
           | none => false) &&
          nat m ("d" ++ toString (k + 1)) == k + 1
      ((), ⟨"accepted-by-model=" ++ boolStr ok, ok, true, ok, "-"⟩)
    | _, _ => ((), .bad)
  | ["lives", i, n] =>
    -- several sessions of ONE client (Connect, six keepalive periods, Disconnect, Connect again ...): every session
    -- has its keepalives - at least two after six periods, at most one per period of the time the session was up (+2)
    match i.toNat?, n.toNat? with
    | some i, some n =>
      let m := kvs impl
      let ok := i > 0 && n > 0 && nat m "lives" == n &&
        (List.range n).all fun k =>
          match m.lookup ("p" ++ toString (k + 1)) with
          | some v => (match v.toNat? with
              -- t<k>: how long the session was up (ms), measured by the harness: at most one keepalive per period
              | some p => decide (2 ≤ p) && decide (p ≤ nat m ("t" ++ toString (k + 1)) / i + 2)
              | none => false)
          | none => false
      ((), ⟨"accepted-by-model=" ++ boolStr ok, ok, true, ok, "-"⟩)
    | _, _ => ((), .bad)
  | ["hookfail", i] =>
    -- Resume fails in the application's post-resume hook: the error is returned and no keepalive is left running
    match i.toNat? with
    | some i =>
      let m := kvs impl
      let ok := i > 0 && (m.lookup "resumeerr") == some "true" && nat m "orphanpings" == 0 && (m.lookup "orphanpings").isSome
      ((), ⟨"accepted-by-model=" ++ boolStr ok, ok, true, ok, "-"⟩)
    | none => ((), .bad)
  | ["xclose", i, a] =>
    match i.toNat?, a.toNat? with
    | some i, some _ =>
      let m := kvs impl
      let o : XObs := ⟨nat m "pings", (m.lookup "connclosed") == some "true", nat m "errh", nat m "disc",
                       (m.lookup "returned") == some "true", nat m "afterret"⟩
      let ok := i > 0 && holdsXClose o
      ((), ⟨"accepted-by-model=" ++ boolStr ok, ok, true, ok, "-"⟩)
    | _, _ => ((), .bad)
  | _ => ((), .bad)

def handler : Handler := ⟨Unit, fun _ => (), step⟩
end XmppVerif.Drv.C18
