import XmppVerif.Drv.Core
import XmppVerif.Spec.C02
import XmppVerif.Drv.C02Bytes
/-
Driver plug-in for C02.
  item <s-expr> [style]   the next top-level item (token view; the style only fixes the bytes on the Go side)   => -
  run <mode>              => pkt <kind> <type> <id> <from> <to> <summary>;…;err
  mal <hex> <mode> / trunc <hex> <mode>   no model: anything but `done …` (panic, timeout) is rejected
-/
namespace XmppVerif.Drv.C02
open XmppVerif.Model.C02 XmppVerif.Spec.C02 XmppVerif.Util XmppVerif.Drv

def parseAttrs : Nat → List String → Option (List Attr × List String)
  | 0, r => some ([], r)
  | n + 1, sp :: lo :: v :: r => do
      let sp ← decStr sp; let lo ← decStr lo; let v ← decStr v
      let (as, r) ← parseAttrs n r
      pure (⟨⟨sp, lo⟩, v⟩ :: as, r)
  | _, _ => none

mutual
def parseTree : Nat → List String → Option (Tree × List String)
  | 0, _ => none
  | _ + 1, "T" :: h :: r => do let s ← decStr h; pure (.text s, r)
  | _ + 1, "M" :: r => some (.misc, r)
  | f + 1, "E" :: sp :: lo :: na :: r => do
      let sp ← decStr sp; let lo ← decStr lo; let na ← na.toNat?
      let (as, r) ← parseAttrs na r
      match r with
      | nk :: r =>
        let nk ← nk.toNat?
        let (ks, r) ← parseKids f nk r
        pure (.elem ⟨sp, lo⟩ as ks, r)
      | [] => none
  | _, _ => none
def parseKids : Nat → Nat → List String → Option (List Tree × List String)
  | _, 0, r => some ([], r)
  | 0, _, _ => none
  | f + 1, n + 1, r => do
      let (t, r) ← parseTree f r
      let (ts, r) ← parseKids f n r
      pure (t :: ts, r)
end

def parseItem (s : String) : Option Item :=
  let fs := (s.splitOn " ").filter (· ≠ "")
  if fs = ["X"] then some .close else
  match parseTree (fs.length + 1) fs with
  | some (t, []) => some (.tree t)
  | _ => none

def kindStr : Kind → String
  | .message => "message" | .presence => "presence" | .iq => "iq" | .streamFeatures => "streamFeatures"
  | .streamError => "streamError" | .saslSuccess => "saslSuccess" | .saslFailure => "saslFailure"
  | .smEnabled => "smEnabled" | .smResumed => "smResumed" | .smResume => "smResume" | .smRequest => "smRequest"
  | .smAnswer => "smAnswer" | .smFailed => "smFailed" | .handshake => "handshake" | .streamClose => "streamClose"

def kinds : List Kind := [.message, .presence, .iq, .streamFeatures, .streamError, .saslSuccess, .saslFailure,
  .smEnabled, .smResumed, .smResume, .smRequest, .smAnswer, .smFailed, .handshake, .streamClose]

def parseKind (s : String) : Option Kind := kinds.find? (fun k => kindStr k == s)

def showObs : Obs → String
  | .err => "err"
  | .pkt p => String.intercalate " " ["pkt", kindStr p.kind, encStr p.type, encStr p.id, encStr p.frm, encStr p.to, encStr p.summary]

def parseObs (s : String) : Option Obs :=
  if s == "err" then some .err else
  match s.splitOn " " with
  | ["pkt", k, t, i, f, to, sm] => do
      let k ← parseKind k
      let t ← decStr t; let i ← decStr i; let f ← decStr f; let to ← decStr to; let sm ← decStr sm
      pure (.pkt ⟨k, t, i, f, to, sm⟩)
  | _ => none

def showSeq (os : List Obs) : String := String.intercalate ";" (os.map showObs)
def parseSeq (s : String) : Option (List Obs) := (s.splitOn ";").mapM parseObs

structure St where
  items : List Item := []   -- reversed
  bytes : Bool := false     -- variant `bytes`: the byte-level tokenizer model (Drv/C02Bytes.lean)

def step (s : St) (fields : List String) (impl : String) : St × Reply :=
  if s.bytes then (s, XmppVerif.Drv.C02Bytes.stepBytes fields impl) else
  match fields with
  | "item" :: sx :: _ =>
    match parseItem sx with
    | some it => ({ s with items := it :: s.items }, .det "-" impl true true)
    | none => (s, .bad)
  | ["run", _] =>
    let is := s.items.reverse
    let mo := modelObs is
    let okI := match parseSeq impl with
      | some io => holds is io
      | none => false
    let known := if stopsOnValue is then "F-02b" else "-"
    (s, ⟨showSeq mo, showSeq mo == impl, holds is mo, okI, known⟩)
  | ["mal", _, _] | ["trunc", _, _] =>
    let ok := impl.startsWith "done "
    (s, ⟨if ok then impl else "done", ok, true, ok, "-"⟩)
  | _ => (s, .bad)

def handler : Handler := ⟨St, fun v => { bytes := v.head? == some "bytes" }, step⟩
end XmppVerif.Drv.C02
