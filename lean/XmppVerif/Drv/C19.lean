import XmppVerif.Drv.Core
import XmppVerif.Spec.C19
namespace XmppVerif.Drv.C19
open XmppVerif.Model.C19 XmppVerif.Spec.C19 XmppVerif.Util XmppVerif.Drv

structure DSt where
  s  : St
  om : OState
  oi : OState

def parseCfg : List String → Option Cfg
  | [b, f, c, nj] => do
    let b ← b.toNat?; let f ← f.toNat?; let c ← c.toNat?; let nj ← parseBool nj
    pure ⟨b, f, c, nj⟩
  | _ => none

def init (fields : List String) : DSt :=
  let cfg := (parseCfg fields).getD ⟨0, 0, 0, true⟩
  ⟨⟨cfg, 0⟩, ⟨cfg, 0⟩, ⟨cfg, 0⟩⟩

def parseOp : List String → Option Op
  | ["dur"] => some .dur
  | ["durfor", n] => n.toNat?.map .durFor
  | ["reset"] => some .reset
  | _ => none

/-- slack for real elapsed time: a sleep never ends early, and ends late by scheduling noise only -/
def slackNs : Int := 500000000

/-- `smwait`: the n-th wait of the real `StreamManager.resume` loop. The harness reports `gap draw bound` (ns):
the measured time between two attempts, the jitter draw `rand.Intn(bound)` it obtained from the same PRNG seed,
and the bound it used. Correspondence: the bound is the model's, the draw is below it and the loop slept for that
draw. Property: the delay is not negative and does not exceed min(cap, base·factor^n) (beyond the timing slack). -/
def stepSm (d : DSt) (impl : String) : DSt × Reply :=
  let (s', v) := Model.C19.step d.s .dur
  let (okM, om') := holdsStepExec d.om .dur v
  match (impl.splitOn " ").map parseInt with
  | [some gap, some draw, some bound] =>
    let agree := bound == v && decide (0 ≤ draw) && decide (draw < v ∨ v = 0) && decide (draw ≤ gap) && decide (gap ≤ draw + slackNs)
    let okI := decide (0 ≤ gap) && decide (gap ≤ v + slackNs)
    (⟨s', om', { d.oi with count := d.oi.count + 1 }⟩, ⟨toString v, agree, okM, okI, "-"⟩)
  | _ => (⟨s', om', d.oi⟩, ⟨toString v, false, okM, false, "-"⟩)

def step (d : DSt) (fields : List String) (impl : String) : DSt × Reply :=
  if fields == ["smwait"] then stepSm d impl else
  if fields == ["smnew"] then
    -- the attempt that ends an outage: `resume` returns, the next outage gets a new zero-valued backoff
    ({ d with s := { d.s with attempt := 0 }, om := { d.om with count := 0 }, oi := { d.oi with count := 0 } },
     .det "ok" impl true true) else
  match parseOp fields with
  | none => (d, .bad)
  | some op =>
    let (s', v) := Model.C19.step d.s op
    let (okM, om') := holdsStepExec d.om op v
    let iv := parseInt impl
    let (okI, oi') := match iv with
      | some x => holdsStepExec d.oi op x
      | none => (false, d.oi)
    let agree := match iv with
      | some x => if d.s.cfg.noJitter || op == .reset then x == v else decide (0 ≤ x ∧ x ≤ v)
      | none => false
    let known := if knownOverflow d.s.cfg then "F-19b" else "-"
    (⟨s', om', oi'⟩, ⟨toString v, agree, okM, okI, known⟩)

def handler : Handler := ⟨DSt, init, step⟩
end XmppVerif.Drv.C19
