import XmppVerif.Drv.Core
import XmppVerif.Spec.C19
namespace XmppVerif.Drv.C19
open XmppVerif.Model.C19 XmppVerif.Spec.C19 XmppVerif.Util XmppVerif.Drv

structure DSt where
  s  : St
  om : OState
  oi : OState

def parseCfg : List String → Option Cfg
  | [b, f, c, nj] => do
    let b ← b.toNat?; let f ← f.toNat?; let c ← c.toNat?; let nj ← parseBool nj
    pure ⟨b, f, c, nj⟩
  | _ => none

def init (fields : List String) : DSt :=
  let cfg := (parseCfg fields).getD ⟨0, 0, 0, true⟩
  ⟨⟨cfg, 0⟩, ⟨cfg, 0⟩, ⟨cfg, 0⟩⟩

def parseOp : List String → Option Op
  | ["dur"] => some .dur
  | ["durfor", n] => n.toNat?.map .durFor
  | ["reset"] => some .reset
  | _ => none

def step (d : DSt) (fields : List String) (impl : String) : DSt × Reply :=
  match parseOp fields with
  | none => (d, .bad)
  | some op =>
    let (s', v) := Model.C19.step d.s op
    let (okM, om') := holdsStepExec d.om op v
    let iv := parseInt impl
    let (okI, oi') := match iv with
      | some x => holdsStepExec d.oi op x
      | none => (false, d.oi)
    let agree := match iv with
      | some x => if d.s.cfg.noJitter || op == .reset then x == v else decide (0 ≤ x ∧ x ≤ v)
      | none => false
    let known := if knownOverflow d.s.cfg then "F-19b" else "-"
    (⟨s', om', oi'⟩, ⟨toString v, agree, okM, okI, known⟩)

def handler : Handler := ⟨DSt, init, step⟩
end XmppVerif.Drv.C19
