import XmppVerif.Drv.Core
import XmppVerif.Model.C08
namespace XmppVerif.Drv.C08
open XmppVerif.Model.C08 XmppVerif.Util XmppVerif.Drv

structure DSt where
  cfg : Cfg
  stored : Nat     -- entries in the un-acked queue so far

def kvs (sep : String) (s : String) : List (String × String) :=
  (s.splitOn sep).filterMap fun f => match f.splitOn "=" with
    | [k, v] => some (k, v)
    | _ => none
def nat (m : List (String × String)) (k : String) : Nat := (m.lookup k).bind String.toNat? |>.getD 999999

def init (fields : List String) : DSt :=
  let m := fields.filterMap fun f => match f.splitOn "=" with | [k, v] => some (k, v) | _ => none
  ⟨⟨m.lookup "sm" == some "true", m.lookup "logger" == some "true"⟩, 0⟩

def parseSock : String → Option Sock
  | "ok" => some .ok | "err" => some .err | "short" => some .short | _ => none

def seqStep (d : DSt) (bytesHex sockS : String) (impl : String) : DSt × Reply :=
  match decStr bytesHex, parseSock sockS with
  | some b, some k =>
    let o := send d.cfg b k
    let stored := d.stored + o.stored.length
    let ms := "w:" ++ String.intercalate ";" (o.socketWrites.map encStr) ++ "|ret:" ++ (if o.failed then "err" else "ok") ++
      "|q:" ++ toString stored
    -- spec on any observation: exactly one socket write with exactly these bytes; an error of the socket is reported
    let spec (obs : String) : Bool :=
      obs.startsWith ("w:" ++ encStr b ++ "|") && (k != .err || (obs.splitOn "|ret:err|").length == 2)
    ({ d with stored := stored }, .det ms impl (spec ms) (spec impl))
  | _, _ => (d, .bad)

def step (d : DSt) (fields : List String) (impl : String) : DSt × Reply :=
  match fields with
  | ["send", _, _, b, k] => seqStep d b k impl
  | ["sendraw", b, k] => seqStep d b k impl
  | ["sendiq", _, b, k] => seqStep d b k impl     -- SendIQ: the request is one send like any other, whatever its id
  | ["wsfail"] =>
    -- the peer closed the WebSocket connection: the first send went through, later Send and SendRaw report errors
    let ok := impl == "first=true senderr=true rawerr=true"
    (d, ⟨"first=true senderr=true rawerr=true", ok, true, ok, "-"⟩)
  | ["stress", _, _, g, k] =>
    match g.toNat?, k.toNat? with
    | some g, some k =>
      let m := kvs " " impl
      -- the model's prediction (C08_all_sent_when_done): every stanza once, whole, per-sender order kept, no error
      let ok := nat m "count" == g * k && nat m "missing" == 0 && nat m "dup" == 0 && nat m "garbled" == 0 &&
                nat m "order" == 0 && nat m "reterr" == 0
      (d, ⟨"count=" ++ toString (g * k) ++ " missing=0 dup=0 garbled=0 order=0 reterr=0", ok, true, ok, "-"⟩)
    | _, _ => (d, .bad)
  | _ => (d, .bad)

def handler : Handler := ⟨DSt, init, step⟩
end XmppVerif.Drv.C08
