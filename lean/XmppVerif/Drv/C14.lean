import XmppVerif.Drv.Core
import XmppVerif.Drv.Neg
import XmppVerif.Spec.C14
/-
Driver plug-in for C14.
  auth <kind> <user> <secret> <offered> <wmode> <reply-class> <reply-bytes>
     => <class of the reply> <bytes written | ~> <mechanism | ~> <text | ~> <ok|perm|err>
  b64 <bytes> => hex(base64 text)
User, secret and the written bytes are byte strings (hex); mechanism names are UTF-8 strings (hex).
-/
namespace XmppVerif.Drv.C14
open XmppVerif.Model.C14 XmppVerif.Spec.C14 XmppVerif.Util XmppVerif.Drv

def parseKind : String → Option Kind
  | "password" => some .password | "token" => some .token | _ => none

def parseW : String → Option WriteMode
  | "ok" => some .ok | "fail" => some .fail | "zero" => some .zero | _ => none

def parseReply : String → Option Model.C14.Reply
  | "success" => some .success | "failure" => some .failure | "other" => some .other
  | "decodeError" => some .decodeError | _ => none

def showReply : Model.C14.Reply → String
  | .success => "success" | .failure => "failure" | .other => "other" | .decodeError => "decodeError"

def parseOffered (s : String) : Option (List String) :=
  if s == "~" then some [] else (s.splitOn ",").mapM decStr

def showOutcome : Outcome → String
  | .ok => "ok" | .err true => "perm" | .err false => "err"

def parseOutcome : String → Option Outcome
  | "ok" => some .ok | "perm" => some (.err true) | "err" => some (.err false) | _ => none

def encChars (cs : List Char) : String := encStr (String.ofList cs)

def showObs (cls : Model.C14.Reply) (o : Obs) : String :=
  let out := showOutcome o.outcome
  match o.sent with
  | none => showReply cls ++ " ~ ~ ~ " ++ out
  | some (m, p) =>
    showReply cls ++ " " ++ encChars (authElement m p) ++ " " ++ encStr m ++ " " ++ encChars p ++ " " ++ out

/-- the implementation's observation as an `Obs` (mechanism and text as parsed back by the harness) -/
def parseObs (s : String) : Option Obs :=
  match s.splitOn " " with
  | [_, _, m, p, out] => do
    let out ← parseOutcome out
    if m == "~" && p == "~" then pure ⟨none, out⟩
    else
      let m ← decStr m
      let p ← decStr p
      pure ⟨some (m, p.toList), out⟩
  | _ => none

def step (_ : Unit) (fields : List String) (impl : String) : Unit × Drv.Reply :=
  match fields with
  | ["auth", kind, user, secret, offered, w, reply, _] =>
    match parseKind kind, hexToBytes user, hexToBytes secret, parseOffered offered, parseW w, parseReply reply with
    | some kind, some user, some secret, some offered, some w, some reply =>
      let c : Case := ⟨kind, user, secret, offered, w, reply⟩
      let mo := authSASL kind.mechs user secret offered w reply
      let okI := match parseObs impl with
        | some io => holds c io
        | none => false
      ((), Drv.Reply.det (showObs reply mo) impl (holds c mo) okI)
    | _, _, _, _, _, _ => ((), Drv.Reply.bad)
  | ["b64", h] =>
    match hexToBytes h with
    | some bs =>
      let e := b64enc bs
      let rt := b64dec e == some bs
      ((), Drv.Reply.det (encChars e) impl rt (rt && encChars e == impl))
    | none => ((), Drv.Reply.bad)
  | _ => ((), Drv.Reply.bad)

/-- cases whose variant starts with `neg` are whole negotiations (real `NewSession` against a scripted server),
judged against the negotiation model with the session-level oracle of C14 -/
def initAll (fields : List String) : Option Neg.DSt :=
  match fields with
  | "neg" :: rest => some (Neg.init rest)
  | _ => none

def stepAll (s : Option Neg.DSt) (fields : List String) (impl : String) : Option Neg.DSt × Drv.Reply :=
  match s with
  | some d => let (d', r) := Neg.stepWith .c14 d fields impl; (some d', r)
  | none => (none, (step () fields impl).2)

def handler : Handler := ⟨Option Neg.DSt, initAll, stepAll⟩
end XmppVerif.Drv.C14
