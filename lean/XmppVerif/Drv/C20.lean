import XmppVerif.Drv.Core
import XmppVerif.Spec.C20
namespace XmppVerif.Drv.C20
open XmppVerif.Model.C20 XmppVerif.Spec.C20 XmppVerif.Util XmppVerif.Drv

def enc (s : List Char) : String := encStr (String.ofList s)
def dec (h : String) : Option (List Char) := (decStr h).map String.toList

def parseKind : String → Option Kind
  | "plain" => some .plain | "v6bare" => some .v6bare | "v6br" => some .v6br | _ => none

def showT : Transport → String
  | .xmpp a => "xmpp " ++ enc a
  | .ws => "ws"
  | .refused => "refused"

def step (_ : Unit) (fields : List String) (impl : String) : Unit × Reply :=
  match fields with
  | ["ensure", h, p] =>
    match dec h, p.toNat? with
    | some a, some port =>
      -- arbitrary strings: the property asserts nothing; only the correspondence is checked
      ((), .det (enc (ensurePort a port)) impl true true)
    | _, _ => ((), .bad)
  | ["cform", k, h, p] =>
    -- the same through the component constructor (which refuses ws: addresses instead of choosing a transport)
    match parseKind k, dec h, (if p == "~" then some none else (dec p).map some) with
    | some kind, some host, some port =>
      let f : Form := ⟨kind, host, port⟩
      if !f.wf then ((), .bad) else
      let want := enc f.expected ++ " " ++ enc host ++ " " ++ enc (port.getD (itoa defaultPort))
      let model := match componentTransport f.render with
        | .xmpp out => enc out ++ " " ++ enc host ++ " " ++ enc (port.getD (itoa defaultPort))
        | _ => "not-xmpp"
      let known := if knownWsHost f then "F-20a" else "-"
      ((), { Reply.det model impl (model == want) (impl == want) with known := known })
    | _, _, _ => ((), .bad)
  | ["form", k, h, p] =>
    match parseKind k, dec h, (if p == "~" then some none else (dec p).map some) with
    | some kind, some host, some port =>
      let f : Form := ⟨kind, host, port⟩
      if !f.wf then ((), .bad) else
      let want := enc f.expected ++ " " ++ enc host ++ " " ++ enc (port.getD (itoa defaultPort))
      -- the model goes through the constructor, as the harness does
      let model := match clientTransport f.render with
        | .xmpp out => enc out ++ " " ++ enc host ++ " " ++ enc (port.getD (itoa defaultPort))
        | _ => "not-xmpp"
      let known := if knownWsHost f then "F-20a" else "-"
      ((), { Reply.det model impl (model == want) (impl == want) with known := known })
    | _, _, _ => ((), .bad)
  | ["dial", _] =>
    -- connecting does not rewrite the configured address (the next attempt dials - and resolves - it again)
    ((), .det "kept" impl true (impl == "kept"))
  | ["split", h] =>
    -- the model of net.SplitHostPort against the real one, on any string (correspondence only)
    match dec h with
    | some a =>
      let m := match splitHostPort a with
        | some (ho, po) => "ok " ++ enc ho ++ " " ++ enc po
        | none => "err"
      ((), .det m impl true true)
    | none => ((), .bad)
  | ["transport", who, h] =>
    match dec h with
    | some a =>
      let t := if who == "client" then clientTransport a else componentTransport a
      let okKind (obs : String) : Bool :=
        if isWs a then obs == (if who == "client" then "ws" else "refused")
        else obs.startsWith "xmpp "
      ((), .det (showT t) impl (okKind (showT t)) (okKind impl))
    | none => ((), .bad)
  | _ => ((), .bad)

def handler : Handler := ⟨Unit, fun _ => (), step⟩
end XmppVerif.Drv.C20
