import XmppVerif.Drv.Core
import XmppVerif.Spec.C17
namespace XmppVerif.Drv.C17
open XmppVerif.Model.C17 XmppVerif.Spec.C17 XmppVerif.Util XmppVerif.Drv

def parseOp : List String → Option Op
  | ["push", h] => (decStr h).map .push
  | ["pushsame", h] => (decStr h).map .push     -- the caller re-uses one object: for the queue, a push like any other
  | ["pop"] => some .pop
  | ["popn", k] => (parseInt k).map .popn
  | ["peek"] => some .peek
  | ["peekn", k] => (parseInt k).map .peekn
  | ["empty"] => some .empty
  | _ => none

def showEnts (es : List Entry) : String :=
  String.intercalate ";" (es.map fun e => toString e.id ++ "," ++ encStr e.stz)

def parseEnts (s : String) : Option (List Entry) :=
  if s.isEmpty then some [] else
  (s.splitOn ";").mapM fun item =>
    match item.splitOn "," with
    | [i, h] => do
      let n ← i.toNat?
      let p ← decStr h
      pure ⟨n, p⟩
    | _ => none

def showObs (o : Obs) : String :=
  (match o.out with
   | .ents es => "r:" ++ showEnts es
   | .flag b => "r:" ++ boolStr b) ++ "|q:" ++ showEnts o.after

def parseObs (s : String) : Option Obs :=
  match s.splitOn "|" with
  | [r, q] =>
    if r.startsWith "r:" && q.startsWith "q:" then do
      let rv := (r.drop 2).toString
      let after ← parseEnts (q.drop 2).toString
      let out ← (match parseBool rv with
        | some b => some (Out.flag b)
        | none => (parseEnts rv).map Out.ents)
      pure ⟨out, after⟩
    else none
  | _ => none

structure St where
  nilq   : Bool
  q      : QS         -- model state
  omodel : OState     -- oracle state following the model's observations
  oimpl  : OState     -- oracle state following the implementation's observations

/-- variant `seed <id>`: the queue starts with one entry numbered `id` (a session that has already numbered that many
stanzas - numbers around 2^31 and 2^32 included: the sequence numbers are Go ints, not 32-bit counters) -/
def init (fields : List String) : St :=
  match fields with
  | ["seed", n] =>
    let id := n.toNat?.getD 1
    let q : Q := [⟨id, "seed"⟩]
    ⟨false, ⟨q, id⟩, ⟨["seed"], q⟩, ⟨["seed"], q⟩⟩
  | _ => ⟨fields == ["nil"], ⟨[], 0⟩, ⟨[], []⟩, ⟨[], []⟩⟩

/-- `Push(Peek())`: pushes a copy of the head's stanza; nothing on an empty queue -/
def resolve (st : St) (fields : List String) : Option Op :=
  match fields with
  | ["pushpeek"] =>
    (match st.q.q.head? with
     | some e => some (.push e.stz)
     | none => some .empty)     -- nothing happens: judged like a read-only op whose result the harness reports as ""
  | _ => parseOp fields

def step (st : St) (fields : List String) (impl : String) : St × Reply :=
  if fields == ["pushpeek"] && st.q.q.isEmpty && !st.nilq then
    -- no-op on an empty queue
    let mo : Obs := ⟨.ents [], st.q.q⟩
    (st, .det (showObs mo) impl true (impl == showObs mo))
  else
  match resolve st fields with
  | none => (st, .bad)
  | some op =>
    if st.nilq then
      -- nil receiver: nothing is ever stored; the reference is the empty FIFO and pushes are no-ops
      let mo : Obs := ⟨stepNil op, []⟩
      let ms := showObs mo
      let okI := match parseObs impl with
        | some io => decide (io = mo)
        | none => false
      (st, .det ms impl true okI)
    else
      let (q', out) := Model.C17.stepS st.q op
      let mo : Obs := ⟨out, q'.q⟩
      let (okM, om') := holdsStep st.omodel op mo
      let (okI, oi') := match parseObs impl with
        | some io => holdsStep st.oimpl op io
        | none => (false, st.oimpl)
      ({ st with q := q', omodel := om', oimpl := oi' }, .det (showObs mo) impl okM okI)

def handler : Handler := ⟨St, init, step⟩

end XmppVerif.Drv.C17
