import XmppVerif.Drv.Core
import XmppVerif.Spec.Neg
import XmppVerif.Model.C04
namespace XmppVerif.Drv.Neg
open XmppVerif.Model.Neg XmppVerif.Spec.Neg XmppVerif.Util XmppVerif.Drv

def kv (fields : List String) : List (String × String) :=
  fields.filterMap fun f => match f.splitOn "=" with
    | [k, v] => some (k, v)
    | _ => none

def getB (m : List (String × String)) (k : String) : Bool := (m.lookup k).bind parseBool |>.getD false
def getS (m : List (String × String)) (k : String) : String := (m.lookup k).bind decStr |>.getD ""
def getRaw (m : List (String × String)) (k : String) : String := (m.lookup k).getD ""

/-- features encoded as four 0/1 digits `tls mech sm sessionMandatory`, or `none` -/
def parseFeat (s : String) : Option Features :=
  match s.toList with
  | [a, b, c, d] => some ⟨a == '1', b == '1', c == '1', d == '1'⟩
  | _ => none

def parseScript (m : List (String × String)) (tlsOk : Bool) : Script :=
  { conn := match getRaw m "conn" with | "ok" => .ok | "dial" => .dialFail | _ => .headerFail
    feat1 := parseFeat (getRaw m "f1")
    tlsReply := match getRaw m "tls" with | "proceed" => .proceed | "failure" => .failure | "other" => .other | _ => .closed
    tlsOk := tlsOk
    open2 := getB m "o2"
    feat2 := parseFeat (getRaw m "f2")
    authReply := match getRaw m "auth" with | "success" => .success | "failure" => .failure | "other" => .otherPacket | _ => .undecodable
    open3 := getB m "o3"
    feat3 := parseFeat (getRaw m "f3")
    resumeReply := match getRaw m "res" with | "same" => .resumedSame | "otherid" => .resumedOther | "noprev" => .resumedOther | "failed" => .failed | "other" => .otherPacket | _ => .undecodable
    bindReply := match getRaw m "bind" with | "result" => .resultBind | "error" => .errorBind | "nobind" => .resultNoBind | "noniq" => .nonIq | _ => .undecodable
    sessReply := match getRaw m "sess" with | "result" => .result | "error" => .error | "noniq" => .nonIq | _ => .undecodable
    enableReply := match getRaw m "en" with | "enabled1" => .enabled true | "enabled0" => .enabled false | "failed" => .failed | "other" => .otherPacket | _ => .undecodable
    newSmId := getS m "smid"
    bindJid := getS m "jid" }

def showKind : WKind → String
  | .open_ => "open" | .starttls => "starttls" | .auth => "auth"
  | .resume p h => "resume/" ++ encStr p ++ "/" ++ toString h
  | .bind => "bind" | .session => "session" | .enable => "enable"

def showWrite (w : Write) : String := showKind w.kind ++ ":" ++ (if w.secure then "1" else "0")

def parseKind (s : String) : Option WKind :=
  match s.splitOn "/" with
  | ["open"] => some .open_ | ["starttls"] => some .starttls | ["auth"] => some .auth
  | ["bind"] => some .bind | ["session"] => some .session | ["enable"] => some .enable
  | ["resume", p, h] => do pure (.resume (← decStr p) (← h.toNat?))
  | _ => none

def parseWrite (s : String) : Option Write :=
  match s.splitOn ":" with
  | [k, b] => do pure ⟨← parseKind k, b == "1"⟩
  | _ => none

def showOutcome : Outcome → String
  | .established => "established"
  | .failed p => "failed:" ++ boolStr p

def showSess (s : Sess) : String :=
  boolStr s.present ++ "," ++ encStr s.smId ++ "," ++ toString s.inbound ++ "," ++ encStr s.bindJid ++ "," ++ boolStr s.smReq

def showResult (r : Result) : String :=
  "out=" ++ showOutcome r.outcome ++ " w=" ++ String.intercalate "," (r.writes.map showWrite) ++
  " sess=" ++ showSess r.sess ++ " secure=" ++ boolStr r.secure ++ " resumed=" ++ boolStr r.resumed

structure ImplObs where
  established : Bool
  crashed : Bool        -- the connect call panicked or never returned
  writes : List Write
  permanent : Bool := false   -- failed with a permanent ConnError
  sess : Option Sess := none  -- the client's session afterwards

def parseImpl (s : String) : Option ImplObs := do
  let m := kv (s.splitOn " ")
  let out ← m.lookup "out"
  let w ← m.lookup "w"
  let ws ← (if w.isEmpty then some [] else (w.splitOn ",").mapM parseWrite)
  let sess : Option Sess := match (m.lookup "sess").map (·.splitOn ",") with
    | some [p, i, n, j, q] => (do pure ⟨← parseBool p, ← decStr i, ← n.toNat?, ← decStr j, ← parseBool q⟩)
    | _ => none
  pure ⟨out == "established", out == "panic" || out == "hang", ws, out == "failed:true", sess⟩

structure DSt where
  cfg : Cfg
  sess : Sess
  /-- what the session held when the harness last looked (`hold` / `heldcheck`), as the harness prints it -/
  held : String := ""
  /-- the last connection was a confirmed resumption (model) -/
  lastResumed : Bool := false
  /-- the last connection established a session that was bound afresh (model) -/
  lastFresh : Bool := false

def init (fields : List String) : DSt :=
  let m := kv fields
  { cfg := ⟨getB m "insecure"⟩, sess := ⟨false, "", 0, "", getB m "sm"⟩ }

/-- which oracle judges the implementation's observation -/
inductive Which where | c03 | c04 | c11 | c14

/-- C11 oracle on an observed write list: a resume request appears only with the held id and count, and exactly
when one is held and SM is advertised (if that step was reached); after a reply other than "resumed, same id"
the observed session no longer holds the id. -/
def holdsC11 (s0 : Sess) (sc : Script) (ws : List Write) : Bool :=
  (ws.all fun w => match w.kind with
    | .resume p h => p == heldId s0 && heldId s0 != "" && h == (if s0.present then s0.inbound else 0) &&
        (match sc.feat3 with | some f3 => f3.sm | none => false)
    | _ => true) &&
  -- "binds a fresh session (always, after a refusal)": a <resume/> answered by <failed/> is followed by the bind
  (sc.resumeReply != .failed || !(ws.any fun w => match w.kind with | .resume _ _ => true | _ => false) ||
    ((ws.dropWhile fun w => match w.kind with | .resume _ _ => false | _ => true).drop 1).any (fun w => w.kind == .bind))

def stepWith (which : Which) (d : DSt) (fields : List String) (impl : String) : DSt × Reply :=
  match fields with
  | "setinbound" :: [n] =>
    -- the harness sets Session.SMState.Inbound directly (stanzas received meanwhile); no session, no effect
    ((if d.sess.present then { d with sess := { d.sess with inbound := n.toNat?.getD 0 } } else d), .det "ok" impl true true)
  | ["hold", _, _] =>
    -- the application sent stanzas, some were acknowledged: the harness reports what is held now
    ({ d with held := impl, lastResumed := false, lastFresh := false }, .det impl impl true true)
  | ["heldcheck"] =>
    -- "if the server confirms that id the session continues ... keeping its identity, counters and held stanzas"
    if d.lastResumed then ({ d with lastResumed := false }, .det d.held impl true (impl == d.held))
    else if d.lastFresh then
      -- "... the stale resumption state is discarded": a session bound afresh holds nothing of the old one
      let ok := impl == "held:" || impl == "noqueue"
      ({ d with held := impl, lastFresh := false }, ⟨"held:", ok, true, ok, "-"⟩)
    else ({ d with held := impl }, .det impl impl true true)
  | ["pubapi"] =>
    -- Client.Connect, then Client.Resume (confirmed), a Resume the server refuses at SASL, a Resume again: "the
    -- session-established state is announced exactly when connecting succeeds" through the public entry points
    let ms := "connect=ok:1 resume=ok:1 resumefail=err:0 resume2=ok:1"
    (d, ⟨ms, ms == impl, true, ms == impl, "-"⟩)
  | ["wsconn", _] =>
    -- `WS://…`: not a WebSocket address for the constructors (Model.C20.isWs is case-sensitive): the XMPP transport
    -- cannot dial it, nothing is written; whatever happens, nothing sensitive goes out in clear
    let ms := "out=failed:false w="
    let okI := match parseImpl impl with
      | some o => !o.crashed && gateOk d.cfg o.writes
      | none => false
    (d, ⟨ms, ms == impl, true, okI, "-"⟩)
  | ["wsconn"] =>
    -- Client.connect over a plain ws:// transport, the server answering every step: the gate decides
    let ws := Model.C04.wsWrites d.cfg.insecure false
    let est := (Model.C04.wsGate d.cfg.insecure false).isSome
    let ms := "out=" ++ (if est then "established" else "failed:true") ++ " w=" ++ String.intercalate "," (ws.map showWrite)
    let okI := match parseImpl impl with
      | some o => !o.crashed && gateOk d.cfg o.writes && (o.established == est)
      | none => false
    (d, ⟨ms, ms == impl, gateOk d.cfg ws, okI, "-"⟩)
  | kind :: rest =>
    if kind != "conn" && kind != "apiconn" then (d, .bad) else
    -- `apiconn`: a NEW client (made by NewClient alone) connects: a fresh session, the case's session untouched
    let d0 := d
    let d : DSt := if kind == "apiconn" then { d with sess := ⟨false, "", 0, "", d.sess.smReq⟩ } else d
    let m := kv rest
    let tcfg : Model.C04.TlsCfg := ⟨getB m "skip", getB m "roots", getS m "sn", getS m "dom"⟩
    let cert : Model.C04.Cert := ⟨getB m "ca", getB m "unexp", ((getRaw m "names").splitOn "+").filterMap decStr⟩
    let hsOk := getB m "hs"    -- the server completes the TLS handshake on its side
    let sc := parseScript m (hsOk && Model.C04.startTLSOk tcfg cert)
    let r := negotiate d.cfg d.sess sc
    let ms := showResult r
    let io := parseImpl impl
    -- "the session continues without a new bind, keeping its identity, counters and held stanzas": a connection
    -- established without a bind (= resumed) leaves the session with the id, count and bound JID it had
    let keepsIdentity (est : Bool) (ws : List Write) (after : Option Sess) : Bool :=
      !(est && !(ws.any fun w => w.kind == .bind) && d.sess.present) ||
      (match after with
       | some a => a.smId == d.sess.smId && a.inbound == d.sess.inbound && a.bindJid == d.sess.bindJid
       | none => false)
    let spec (est : Bool) (ws : List Write) (perm : Bool := false) (after : Option Sess := none) : Bool :=
      match which with
      | .c03 => (est == completes d.cfg d.sess sc) && orderOk (ws.map (·.kind))
      | .c04 => gateOk d.cfg ws &&
          -- secure writes only after a verified handshake
          (ws.all fun w => !w.secure || (hsOk && Model.C04.startTLSOk tcfg cert))
      | .c11 => holdsC11 d.sess sc ws && keepsIdentity est ws after &&
          -- "on reconnect the client asks to resume with the session id it obtained": where the negotiation reaches
          -- that step holding an id (the model's writes say so), a well-formed <resume/> is on the wire
          (!(r.writes.any fun w => match w.kind with | .resume _ _ => true | _ => false) ||
            (ws.any fun w => match w.kind with | .resume _ _ => true | _ => false))
      | .c14 => authGateOk sc est ws && mechGateOk sc ws && failurePermanentOk sc ws perm
    let okM := spec (r.outcome == .established) r.writes (r.outcome == .failed true) (some r.sess)
    let okI := match io with
      | some o => !o.crashed && spec o.established o.writes o.permanent o.sess
      | none => false
    ((if kind == "apiconn" then d0 else { d with sess := r.sess, lastResumed := r.resumed && r.outcome == .established,
                                                     lastFresh := !r.resumed && r.outcome == .established }), ⟨ms, ms == impl, okM, okI, "-"⟩)
  | _ => (d, .bad)

def handlerC03 : Handler := ⟨DSt, init, stepWith .c03⟩
def handlerC04 : Handler := ⟨DSt, init, stepWith .c04⟩
def handlerC11 : Handler := ⟨DSt, init, stepWith .c11⟩
end XmppVerif.Drv.Neg
