import XmppVerif.Drv.Core
import XmppVerif.Model.C13
import XmppVerif.Model.C19
namespace XmppVerif.Drv.C13
open XmppVerif.Model.C13 XmppVerif.Util XmppVerif.Drv

def parseAtt : String → Option (Option Attempt)    -- `r` (refused dial for a while) = an unknown number of transients
  | "o" => some (some .ok) | "t" => some (some .transient) | "x" => some (some .transient) | "T" => some (some .transient)
  | "p" => some (some .permanent) | "P" => some (some .permanent) | "r" => some none
  -- TLS policy failures on a reconnection attempt: a certificate valid for the host name dialled but not for the XMPP
  -- domain (h), a certificate of an unknown issuer (u)
  | "h" => some (some .permanent) | "u" => some (some .permanent) | _ => none

structure Parsed where
  script : Script
  hasRefuse : Bool

def parseLives (s0 : String) : Option (List (Ending × List Attempt) × Bool) :=
  -- `smonce!`: the server advertises stream management on the first connection only (the model does not distinguish;
  -- the oracle then expects no resumed session)
  let s := if s0.startsWith "smonce!" then (s0.drop 7).toString else s0
  if s == "-" then some ([], false) else
  (s.splitOn ";").foldlM (fun (acc : List (Ending × List Attempt) × Bool) life =>
    match life.splitOn ":" with
    | [e, a] => do
      -- `dropstop`: the connection is lost, connections are refused, and the application calls Stop while the manager
      -- retries: for the model a loss that no attempt follows (Stop must return, Run must return)
      let ending ← (if e == "drop" || e == "dropstop" then some Ending.drop else if e == "graceful" then some Ending.graceful
                    else if e == "wfail" then some Ending.wfail else none)
      let toks := if a.isEmpty then [] else a.splitOn ","
      let parsed ← toks.mapM parseAtt
      -- a refusal window contributes one transient to the model (at least one dial is refused); the attempt and
      -- wait counts are then not compared
      let atts := parsed.map fun | some x => x | none => Attempt.transient
      pure (acc.1 ++ [(ending, atts)], acc.2 || parsed.any Option.isNone || e == "dropstop")
    | _ => none) ([], false)

def kvs (s : String) : List (String × String) :=
  (s.splitOn " ").filterMap fun f => match f.splitOn "=" with
    | [k, v] => some (k, v)
    | _ => none
def nat (m : List (String × String)) (k : String) : Nat := (m.lookup k).bind String.toNat? |>.getD 999999
def str (m : List (String × String)) (k : String) : String := (m.lookup k).getD "?"

/-- oracle on the harness observation: exactly one new working session per loss, post-connect once per session,
receiving and sending work on every session, no connection beyond the scripted attempts (no storm), a permanent
error ends the loop, Stop makes Run return -/
def holds (sm : Bool) (first : Attempt) (sc : Script) (hasRefuse : Bool) (m : List (String × String)) (smOnce : Bool := false) : Bool :=
  let r := run sc
  if first != .ok then
    str m "firstret" == "true" && nat m "sessions" == 0 && nat m "conns" == 1 && nat m "later" == 1 &&
    nat m "unexpected" == 0
  else
    str m "stalled" == "-" && nat m "sessions" == r.sessions && nat m "post" == r.postConnect &&
    nat m "recv" == r.sessions && nat m "hellos" == r.sessions &&
    nat m "later" == nat m "conns" && nat m "unexpected" == 0 &&
    (hasRefuse || nat m "conns" == r.attempts) &&
    str m "stop" == "true" &&
    nat m "resumed" == (if sm && !smOnce then r.sessions - 1 else 0)

def step (_ : Unit) (fields : List String) (impl : String) : Unit × Reply :=
  match fields with
  | ["script", smf, f, l] =>
    let sm := smf == "sm" || smf == "smtls"   -- `…tls`: the same script over STARTTLS (the model does not distinguish)
    match parseAtt f, parseLives l with
    | some (some first), some (lives, hasRefuse) =>
      let sc : Script := ⟨first, lives⟩
      let r := run sc
      let ok := holds sm first sc hasRefuse (kvs impl) (l.startsWith "smonce!")
      let ms := "sessions=" ++ toString r.sessions ++ " post=" ++ toString r.postConnect ++ " attempts=" ++ toString r.attempts ++
        " gaveup=" ++ boolStr r.gaveUp ++ " firstfailed=" ++ boolStr r.firstFailed
      ((), ⟨ms, ok, true, ok, "-"⟩)
    | _, _ => ((), .bad)
  | ["outage", n] =>
    -- the waits of an outage of n failed attempts (default back-off): none panics or is negative, none exceeds the cap
    -- (Props.C19.C19_le_cap: the model's wait is at most the cap for every attempt number)
    match n.toNat? with
    | some _ =>
      let m := kvs impl
      let cap := (XmppVerif.Model.C19.setDefault XmppVerif.Model.C19.supervisorCfg).cap
      let ok := str m "bad" == "-" && nat m "maxms" ≤ cap
      ((), ⟨"bad=- maxms<=" ++ toString cap, ok, true, ok, "-"⟩)
    | none => ((), .bad)
  | _ => ((), .bad)

def handler : Handler := ⟨Unit, fun _ => (), step⟩
end XmppVerif.Drv.C13
