import XmppVerif.Drv.Core
import XmppVerif.Spec.RecvObs
namespace XmppVerif.Drv.Recv
open XmppVerif.Model.Recv XmppVerif.Spec.Recv XmppVerif.Spec.RecvObs XmppVerif.Util XmppVerif.Drv

def showPkt : Pkt → String
  | .msg id => "msg:" ++ encStr id
  | .pres id => "pres:" ++ encStr id
  | .iq id => "iq:" ++ encStr id
  | .r => "r:-"
  | .a h => "a:" ++ toString h
  | .nonza n => "nonza:" ++ encStr n
  | .serr => "serr:-"
  | .close => "close:-"

def parsePkt (s : String) : Option Pkt :=
  match s.splitOn ":" with
  | ["msg", h] => (decStr h).map .msg
  | ["pres", h] => (decStr h).map .pres
  | ["iq", h] => (decStr h).map .iq
  | ["r", _] => some .r
  | ["a", h] => h.toNat?.map .a
  | ["nonza", h] => (decStr h).map .nonza
  | ["serr", _] => some .serr
  | ["close", _] => some .close
  | _ => none

def showSummary (o : Summary) : String :=
  String.intercalate ";" [
    "routed=" ++ String.intercalate "," (o.routed.map showPkt),
    "ans=" ++ String.intercalate "," (o.answers.map toString),
    "errh=" ++ toString o.errh,
    "disc=" ++ String.intercalate "," (o.disc.map fun d => encStr d.1 ++ ":" ++ toString d.2),
    "serr=" ++ toString o.serrEv,
    "quit=" ++ boolStr o.quit,
    "closes=" ++ toString o.closes,
    "sclose=" ++ toString o.sclose,
    "panic=" ++ boolStr o.panic]

def listOf {α} (s : String) (f : String → Option α) : Option (List α) :=
  if s.isEmpty then some [] else (s.splitOn ",").mapM f

def field (kvs : List (String × String)) (k : String) : Option String := kvs.lookup k

def parseSummary (s : String) : Option Summary := do
  let kvs := (s.splitOn ";").filterMap fun kv =>
    match kv.splitOn "=" with
    | [k, v] => some (k, v)
    | _ => none
  let routed ← listOf (← field kvs "routed") parsePkt
  let answers ← listOf (← field kvs "ans") String.toNat?
  let errh ← (← field kvs "errh").toNat?
  let disc ← listOf (← field kvs "disc") fun d =>
    match d.splitOn ":" with
    | [i, n] => do pure (← decStr i, ← n.toNat?)
    | _ => none
  let serrEv ← (← field kvs "serr").toNat?
  let quit ← parseBool (← field kvs "quit")
  let closes ← (← field kvs "closes").toNat?
  let sclose ← (← field kvs "sclose").toNat?
  let panic ← parseBool (← field kvs "panic")
  pure ⟨routed, answers, errh, disc, serrEv, quit, closes, sclose, panic⟩

structure DSt where
  client : Bool
  smId : String
  n0 : Nat
  ins : List In     -- reversed

def init (fields : List String) : DSt :=
  match fields with
  | [who, smid, n0] => ⟨who != "component", (decStr smid).getD "", n0.toNat?.getD 0, []⟩
  | _ => ⟨true, "", 0, []⟩

def parseIn : List String → Option In
  | ["in", kind, arg, fail] =>
    let f := fail == "fail"
    (match kind with
     | "msg" => (decStr arg).map Pkt.msg
     | "pres" => (decStr arg).map Pkt.pres
     | "iq" => (decStr arg).map Pkt.iq
     | "r" => some Pkt.r
     | "a" => arg.toNat?.map Pkt.a
     | "nonza" => (decStr arg).map Pkt.nonza
     | "serr" => some Pkt.serr
     | "close" => some Pkt.close
     | _ => none).map fun p => In.pkt p f
  | ["cut", _] => some .cut
  | _ => none

/-- agreement: the client's routing goroutines may finish in any order -/
def agrees (client : Bool) (m i : Summary) : Bool :=
  (if client then m.routed.isPerm i.routed else decide (m.routed = i.routed)) &&
  decide ({ m with routed := [] } = { i with routed := [] })

/-- goroutines still alive after the run (the harness appends `leaked=<n>` when the count did not fall back to its
baseline): the model has none - the routing goroutines end when the handler returns, the receive loop and the
keepalive end with the connection -/
def leakFree (impl : String) : Bool :=
  (impl.splitOn ";").all fun kv => !(kv.startsWith "leaked=") || kv == "leaked=0"

def stepWith (oracle : Case → Summary → Bool) (leakStrict : Bool := false) (d : DSt) (fields : List String) (impl : String) : DSt × Reply :=
  match fields with
  | ["finish"] =>
    let c : Case := ⟨d.client, d.smId, d.n0, d.ins.reverse⟩
    let m := modelSummary c
    let lk := !leakStrict || leakFree impl
    match parseSummary impl with
    | some i => (d, ⟨showSummary m, agrees d.client m i && lk, oracle c m, oracle c i && lk, "-"⟩)
    | none => (d, ⟨showSummary m, false, oracle c m, false, "-"⟩)
  | ["resume", "fails"] =>
    -- the reconnection attempt fails before a stream exists: its error is returned, the loss is not reported again
    let ms := "fails:disc=0:err=true"
    (d, ⟨ms, ms == impl, true, ms == impl, "-"⟩)
  | ["resume", "refused"] =>
    -- the server refuses the resumption, a fresh session is bound and stream management enabled again: the request
    -- still carries the old id and count, the NEW session starts counting at zero under the new id
    let c : Case := ⟨d.client, d.smId, d.n0, d.ins.reverse⟩
    let m := modelResume c
    let showR : Option (String × Nat) → String
      | none => "none"
      | some (i, h) => encStr i ++ ":" ++ toString h ++ ":" ++ encStr "sm-new" ++ ":0"
    let i : Option (Option (String × Nat) × Bool) :=
      if impl == "none" then some (none, true) else
      match impl.splitOn ":" with
      | [a, b, nid, ninb] => (do pure (some (← decStr a, ← b.toNat?), (decStr nid) == some "sm-new" && ninb == "0"))
      | _ => none
    match i with
    | some (r, fresh) => (d, ⟨showR m, decide (m = r) && fresh, holdsResume c m, holdsResume c r && fresh, "-"⟩)
    | none => (d, ⟨showR m, false, holdsResume c m, false, "-"⟩)
  | ["resume"] =>
    let c : Case := ⟨d.client, d.smId, d.n0, d.ins.reverse⟩
    let m := modelResume c
    let showR : Option (String × Nat) → String
      | none => "none"
      | some (i, h) => encStr i ++ ":" ++ toString h
    -- the harness also reports the count the resumed session goes on with: the one it presented
    let i : Option (Option (String × Nat) × Bool) :=
      if impl == "none" then some (none, true) else
      match impl.splitOn ":" with
      | [a, b, after] => (do pure (some (← decStr a, ← b.toNat?), after == b))
      -- ... and the count a second resumption presents after three more stanzas were received on the resumed session
      | [a, b, after, h2] => (do pure (some (← decStr a, ← b.toNat?), after == b && h2.toNat? == some ((← b.toNat?) + 3)))
      | _ => none
    match i with
    | some (i, cont) => (d, ⟨showR m ++ (match m with | some (_, h) => ":" ++ toString h ++ ":" ++ toString (h + 3) | none => ""), decide (m = i) && cont, holdsResume c m, holdsResume c i && cont, "-"⟩)
    | none => (d, ⟨showR m, false, holdsResume c m, false, "-"⟩)
  | _ =>
    match parseIn fields with
    | some i => ({ d with ins := i :: d.ins }, .det "-" impl true true)
    | none => (d, .bad)

def handlerC05 : Handler := ⟨DSt, init, stepWith holdsC05⟩
def handlerC09 : Handler := ⟨DSt, init, stepWith holdsC09⟩
-- C12: "no goroutine is left behind"
def handlerC12 : Handler := ⟨DSt, init, stepWith holdsC12 true⟩
end XmppVerif.Drv.Recv
