import XmppVerif.Drv.Core
import XmppVerif.Spec.C06
namespace XmppVerif.Drv.C06
open XmppVerif.Model.C06 XmppVerif.Spec.C06 XmppVerif.Util XmppVerif.Drv

def decList (s : String) : Option (List String) :=
  if s.isEmpty then some [] else (s.splitOn ",").mapM decStr

def parseMatcher (f : String) : Option Matcher :=
  if f.startsWith "name:" then (decStr (f.drop 5).toString).map .name
  else if f.startsWith "type:" then (decList (f.drop 5).toString).map .stype
  else if f.startsWith "ns:" then (decList (f.drop 3).toString).map .iqns
  else none

def parseKind (s : String) : Option Kind :=
  if s == "message" then some .message else if s == "presence" then some .presence
  else if s == "iq" then some .iq else if s.startsWith "other" then some .other else none

def showReply (r : Model.C06.Reply) : String :=
  String.intercalate "," [encStr r.type, encStr r.id, encStr r.from_, encStr r.to, toString r.code, encStr r.etype, encStr r.reason]

def parseReply (s : String) : Option Model.C06.Reply :=
  match s.splitOn "," with
  | [t, i, f, to, c, et, re] => do
    pure ⟨← decStr t, ← decStr i, ← decStr f, ← decStr to, ← c.toNat?, ← decStr et, ← decStr re⟩
  | _ => none

def showOut (o : Out) : String :=
  "h:" ++ String.intercalate "," (o.handled.map toString) ++ " r:" ++ String.intercalate ";" (o.replies.map showReply)

def parseOut (s : String) : Option Out :=
  match s.splitOn " " with
  | [h, r] =>
    if h.startsWith "h:" && r.startsWith "r:" then do
      let hs := (h.drop 2).toString
      let rs := (r.drop 2).toString
      let handled ← (if hs.isEmpty then some [] else (hs.splitOn ",").mapM String.toNat?)
      let replies ← (if rs.isEmpty then some [] else (rs.splitOn ";").mapM parseReply)
      pure ⟨handled, replies⟩
    else none
  | _ => none

abbrev St := List Route

def step (routes : St) (fields : List String) (impl : String) : St × Drv.Reply :=
  match fields with
  | "route" :: ms =>
    match ms.mapM parseMatcher with
    | some l => (routes ++ [l.map register], .det "ok" impl true true)
    | none => (routes, .bad)
  | ["conc", g, k] =>
    -- G goroutines route K packets each through four routes that accept exactly one kind each: every packet is handled
    -- by its own route (the first-match rule does not depend on what other goroutines are routing), nothing is answered
    match g.toNat?, k.toNat? with
    | some g, some k =>
      let want := "handled=" ++ toString (g * k) ++ " misrouted=0 replies=0"
      (routes, ⟨want, want == impl, true, want == impl, "-"⟩)
    | _, _ => (routes, .bad)
  | ["pkt", k, t, ns, id, fr, to] =>
    -- `~`: no payload; `@<ns>`: a payload nobody registered (decoded into IQ.Any): for the matchers no payload at all
    match parseKind k, decStr t, (if ns == "~" || ns.startsWith "@" then some none else (decStr ns).map some), decStr id, decStr fr, decStr to with
    | some kind, some t, some ns, some id, some fr, some to =>
      let p : Pkt := ⟨kind, t, ns, id, fr, to⟩
      let o := route routes p
      let okI := match parseOut impl with
        | some io => holds routes p io
        | none => false
      (routes, .det (showOut o) impl (holds routes p o) okI)
    | _, _, _, _, _, _ => (routes, .bad)
  | _ => (routes, .bad)

def handler : Handler := ⟨St, fun _ => [], step⟩
end XmppVerif.Drv.C06
