import XmppVerif.Drv.Core
import XmppVerif.Model.C02Bytes
/-
Driver plug-in for the byte-level part of C02 (cases whose variant is `bytes`).
  tok <hex bytes>   => <tokens>|<stop>      the canonical token list of `Decoder.Token()` until its first error
      tokens: `;`-separated  S <space> <local> <nattr> (<aspace> <alocal> <avalue>)* | E <space> <local> | T <text>
                             | C <comment> | P <target> <data> | D <directive>      (all strings hex, `-` = empty)
      stop:   ok (io.EOF, nothing open) | eof (unexpected EOF) | err (any other error)
  The model answers `unsupported:<why>|<tokens before>` for constructs it does not cover; then only the tokens before
  that point are compared (they must be a prefix of the implementation's).
UTF-8 decoding (trusted, not part of the model): bytes -> code points as Go's utf8.DecodeRune does; a byte that does
not start a valid sequence becomes the reserved code point U+10FF00 + b (Model.C02Bytes.isBad). An input whose VALID
part contains one of these 256 code points cannot be represented and is reported `unsupported:marker-collision`.
-/
namespace XmppVerif.Drv.C02Bytes
open XmppVerif.Model.C02Bytes XmppVerif.Model.C02 XmppVerif.Util XmppVerif.Drv

def badChar (b : UInt8) : Char := Char.ofNat (0x10FF00 + b.toNat)

def isCont (b : UInt8) : Bool := 0x80 ≤ b.toNat && b.toNat ≤ 0xBF

/-- bytes -> code points (RFC 3629 validity, as utf8.DecodeRune: an invalid or truncated sequence consumes ONE byte) -/
def decodeUtf8 : List UInt8 → List Char
  | [] => []
  | [a] => [if a.toNat < 0x80 then Char.ofNat a.toNat else badChar a]
  | [a, b] =>
      let x := a.toNat; let y := b.toNat
      if x < 0x80 then Char.ofNat x :: decodeUtf8 [b]
      else if 0xC2 ≤ x && x ≤ 0xDF && isCont b then [Char.ofNat ((x - 0xC0) * 64 + (y - 0x80))]
      else badChar a :: decodeUtf8 [b]
  | [a, b, c] =>
      let x := a.toNat; let y := b.toNat; let z := c.toNat
      if x < 0x80 then Char.ofNat x :: decodeUtf8 [b, c]
      else if 0xC2 ≤ x && x ≤ 0xDF && isCont b then Char.ofNat ((x - 0xC0) * 64 + (y - 0x80)) :: decodeUtf8 [c]
      else if 0xE0 ≤ x && x ≤ 0xEF && isCont b && isCont c
              && (x ≠ 0xE0 || 0xA0 ≤ y) && (x ≠ 0xED || y ≤ 0x9F) then
        [Char.ofNat ((x - 0xE0) * 4096 + (y - 0x80) * 64 + (z - 0x80))]
      else badChar a :: decodeUtf8 [b, c]
  | a :: b :: c :: d :: r =>
      let x := a.toNat; let y := b.toNat; let z := c.toNat; let w := d.toNat
      if x < 0x80 then Char.ofNat x :: decodeUtf8 (b :: c :: d :: r)
      else if 0xC2 ≤ x && x ≤ 0xDF && isCont b then Char.ofNat ((x - 0xC0) * 64 + (y - 0x80)) :: decodeUtf8 (c :: d :: r)
      else if 0xE0 ≤ x && x ≤ 0xEF && isCont b && isCont c
              && (x ≠ 0xE0 || 0xA0 ≤ y) && (x ≠ 0xED || y ≤ 0x9F) then
        Char.ofNat ((x - 0xE0) * 4096 + (y - 0x80) * 64 + (z - 0x80)) :: decodeUtf8 (d :: r)
      else if 0xF0 ≤ x && x ≤ 0xF4 && isCont b && isCont c && isCont d
              && (x ≠ 0xF0 || 0x90 ≤ y) && (x ≠ 0xF4 || y ≤ 0x8F) then
        Char.ofNat ((x - 0xF0) * 262144 + (y - 0x80) * 4096 + (z - 0x80) * 64 + (w - 0x80)) :: decodeUtf8 r
      else badChar a :: decodeUtf8 (b :: c :: d :: r)

/-- the valid part of the input uses a reserved code point: a 4-byte sequence F4 8F BC..BF xx -/
def collides : List UInt8 → Bool
  | a :: b :: c :: d :: r =>
      (a.toNat = 0xF4 && b.toNat = 0x8F && 0xBC ≤ c.toNat && c.toNat ≤ 0xBF && isCont d) || collides (b :: c :: d :: r)
  | _ => false

def encChar (c : Char) : List UInt8 :=
  if isBad c then [UInt8.ofNat (c.toNat - 0x10FF00)] else (String.singleton c).toUTF8.toList

def encChars (s : String) : String := encBytes (s.toList.flatMap encChar)

def showName (n : Name) : String := encChars n.space ++ " " ++ encChars n.loc

def showTok : BTok → String
  | .start n as =>
      String.intercalate " " (["S", showName n, toString as.length] ++ as.map fun a => showName a.name ++ " " ++ encChars a.value)
  | .stop n => "E " ++ showName n
  | .text s => "T " ++ encChars s
  | .comment s => "C " ++ encChars s
  | .pi t d => "P " ++ encChars t ++ " " ++ encChars d

def showToks (ts : List BTok) : String := String.intercalate ";" (ts.map showTok)

def showStop : Stop → String
  | .eof => "ok"
  | .unexpectedEof => "eof"
  | .syntax => "err"
  | .unsupported w => "unsupported:" ++ w
  | .fuel => "fuel"

/-- the tokens of `impl` (everything before the last `|`) -/
def implToks (impl : String) : String :=
  match (impl.splitOn "|") with
  | [t, _] => t
  | _ => impl

def isPrefixStr (a b : String) : Bool :=
  a.isEmpty || a == b || b.startsWith (a ++ ";")

def stepBytes (fields : List String) (impl : String) : Reply :=
  match fields with
  | ["tok", h] =>
    match hexToBytes h with
    | none => .bad
    | some bs =>
      let implOk := !(impl.startsWith "panic" || impl.startsWith "timeout" || impl.startsWith "chunk-mismatch")
      if collides bs then ⟨"unsupported:marker-collision|", implOk, true, implOk, "-"⟩
      else
        let r := tokenize (decodeUtf8 bs)
        let ts := showToks r.toks
        match r.stop with
        | .unsupported w =>
            ⟨"unsupported:" ++ w ++ "|" ++ ts, implOk && isPrefixStr ts (implToks impl), true, implOk, "-"⟩
        | s =>
            let mo := ts ++ "|" ++ showStop s
            ⟨mo, mo == impl, s != .fuel, implOk, "-"⟩
  | _ => .bad

end XmppVerif.Drv.C02Bytes
