import XmppVerif.Drv.Core
namespace XmppVerif.Drv.C07
open XmppVerif.Util XmppVerif.Drv

def kvs (s : String) : List (String × String) :=
  (s.splitOn " ").filterMap fun f => match f.splitOn "=" with
    | [k, v] => some (k, v)
    | _ => none
def nat (m : List (String × String)) (k : String) : Nat := (m.lookup k).bind String.toNat? |>.getD 999999

/-- oracle on the summary of one concurrent scenario (see go/harness/c07.go):
no panic, no route call blocked, no request got two responses or a response with another id; every response with a
request's id was delivered to a channel or went to the ordinary routes (at most one delivery per request), foreign
responses and get/set requests with clashing ids went to the ordinary routes; every request that was neither
cancelled nor abandoned (and shares its id with no other) got exactly one response and then saw its channel closed;
every channel that delivered was closed afterwards; no pending entry is left once all contexts are done. -/
def holds (nreq : Nat) (m : List (String × String)) : Bool :=
  nat m "panics" == 0 && nat m "blocked" == 0 && nat m "multi" == 0 && nat m "wrong" == 0 &&
  nat m "senderr" == 0 &&
  nat m "ordinaryreq" == nat m "getset" &&
  decide (nat m "ordinary" ≤ nat m "responses" + nat m "foreign") &&
  decide (nat m "responses" + nat m "foreign" ≤ nat m "ordinary" + nreq) &&
  decide (nat m "foreign" ≤ nat m "ordinary") &&
  nat m "livegot" == nat m "live" &&
  nat m "closedafter" == nat m "delivered" &&
  nat m "pending" == 0 &&
  -- exact accounting: every response routed ended in exactly one place - read from a channel, left in the buffer of
  -- a channel nobody read any more, or handed to the ordinary routes; none vanished, none was duplicated
  nat m "delivered" + nat m "drained" + nat m "ordinary" == nat m "responses" + nat m "foreign"

def step (_ : Unit) (fields : List String) (impl : String) : Unit × Reply :=
  match fields with
  | ["scen", _, n, _, _, _, _, _, _] =>
    match n.toNat? with
    | some nreq =>
      let ok := holds nreq (kvs impl)
      ((), ⟨"accepted-by-model=" ++ boolStr ok, ok, true, ok, "-"⟩)
    | none => ((), .bad)
  | ["pendreconnect"] =>
    -- a request pending across a resumed session: the table of pending requests belongs to the router, not to the
    -- connection - the response is delivered like any other (C07_delivery_when_registered)
    let ok := impl == "resume=true got=1 closed=true ordinary=0 panics=0"
    ((), ⟨"resume=true got=1 closed=true ordinary=0 panics=0", ok, true, ok, "-"⟩)
  | ["wire", _] =>
    -- six responses as bytes through the real receive loop (error elements with a numeric / empty / non-numeric /
    -- absent legacy code, with and without a condition, child-less result and error): each pending request gets its own
    let want := "got=6 closed=6 ordinary=0 panics=0"
    ((), ⟨want, want == impl, true, want == impl, "-"⟩)
  | ["edge", kind, _] =>
    -- sendfail: the failed request leaves no entry behind, the late response goes to the ordinary routes;
    -- handlersend: responses nobody waits for reach the handler, whose own SendIQ calls return (nothing blocked)
    let want := if kind == "sendfail" then "senderr=true ordinary=1 nested=0 nestederr=0 panics=0 blocked=0"
                else "senderr=false ordinary=2 nested=2 nestederr=0 panics=0 blocked=0"
    ((), ⟨want, want == impl, true, want == impl, "-"⟩)
  | ["reuse", _, _] =>
    -- a re-used id: the answered first request and the pending second one each get exactly their response; the
    -- clean-up of the first request's cancelled context removes nothing of the second (C07_cleanup_only_own)
    let m := kvs impl
    let ok := nat m "a" == 1 && nat m "b" == 1 && nat m "ordinary" == 0 && nat m "panics" == 0 && nat m "blocked" == 0
    ((), ⟨"accepted-by-model=" ++ boolStr ok, ok, true, ok, "-"⟩)
  | _ => ((), .bad)

def handler : Handler := ⟨Unit, fun _ => (), step⟩
end XmppVerif.Drv.C07
