import XmppVerif.Drv.Core
import XmppVerif.Spec.C01Esc
import XmppVerif.Spec.C01Node
import XmppVerif.Spec.C01Stanza
/-
Driver plug-in for C01. Ops (strings hex-encoded, `-` = empty):
  escape <nl> <s>            => <escaped>                         xml.EscapeText / EncodeToken(CharData)
  escrange <nl> <lo> <hi>    => cp=<escaped>,…                    every code point of [lo,hi) whose escaped form is not itself
  body <s>                   => <bytes between <body> and </body>> <Body after parsing back>
  node <ctx> <tree…>         => xml;decoder tokens;tree parsed back|err;second xml|err;skeleton|err
  flat <Type> <ctx> <v…> <inner>                      reflection-coded nonzas (values: hex | n | nil | true | false)
  smfailed <ctx> <h|nil> <cond|nil>
  err <ctx> <code> <type> <reason> <text>
  msg <ctx> <type id from to lang> <subject body thread> <code type reason text>
  pres <ctx> <type id from to lang> <show status priority> <code type reason text>
  iq <ctx> <type id from to lang> <E|N> <code type reason text> <tree… | ->
      each => xml;decoder tokens;value parsed back (same field syntax)|err;second xml|err;skeleton|err
  sample <kind> <Type> <seed>   => rt-ok | rt-fail <class> <path> <xml>      (stage 4: no Lean model behind it;
      the harness evaluates the round-trip predicate itself; a failure is a violation unless (Type, class, path) is
      the region of a recorded finding)
Tree syntax (fields separated by blanks): ( space local content k  k×(aspace alocal avalue)  child… )
Token syntax: S space local k k×(…) | T text | E space local
-/
namespace XmppVerif.Drv.C01
open XmppVerif.Model.C01 XmppVerif.Spec.C01 XmppVerif.Util XmppVerif.Drv

def enc (s : List Char) : String := encStr (String.ofList s)
def dec (h : String) : Option (List Char) := (decStr h).map String.toList

def validCp (n : Nat) : Bool := n < 0xD800 || (0xDFFF < n && n < 0x110000)

def stepEscape (nl : Bool) (h impl : String) : Reply :=
  match dec h with
  | none => .bad
  | some s =>
    let m := escapeText nl s
    let okI := match dec impl with
      | some o => holdsEscape s o
      | none => false
    .det (enc m) impl (holdsEscape s m) okI

def stepRange (nl : Bool) (lo hi : Nat) (impl : String) : Reply :=
  let items := (List.range (hi - lo)).filterMap fun i =>
    let n := lo + i
    if validCp n then
      let c := Char.ofNat n
      let e := escChar nl c
      if e == [c] then none else some (toString n ++ "=" ++ enc e)
    else none
  .det (String.intercalate "," items) impl true true

def stepBody (h impl : String) : Reply :=
  match dec h with
  | none => .bad
  | some s =>
    let mEsc := escapeText true s
    let mBack := sanitize s
    let okI := match impl.splitOn " " with
      | [a, b] => match dec a, dec b with
        | some a, some b => holdsEscape s a && holdsTextBack s b
        | _, _ => false
      | _ => false
    .det (enc mEsc ++ " " ++ enc mBack) impl (holdsEscape s mEsc && holdsTextBack s mBack) okI

/-! ### trees on the wire -/
def decAttrs : Nat → List String → Option (List Attr × List String)
  | 0, r => some ([], r)
  | k + 1, a :: b :: c :: r => do
    let a ← dec a; let b ← dec b; let c ← dec c
    let (l, r') ← decAttrs k r
    pure (⟨⟨a, b⟩, c⟩ :: l, r')
  | _, _ => none

mutual
partial def parseTree : List String → Option (Tree × List String)
  | "(" :: sp :: lo :: c :: k :: r => do
    let sp ← dec sp; let lo ← dec lo; let c ← dec c; let k ← k.toNat?
    let (attrs, r) ← decAttrs k r
    let (kids, r) ← parseTrees r
    pure (.mk ⟨sp, lo⟩ attrs c kids, r)
  | _ => none
partial def parseTrees : List String → Option (List Tree × List String)
  | ")" :: r => some ([], r)
  | r => do
    let (t, r) ← parseTree r
    let (ts, r) ← parseTrees r
    pure (t :: ts, r)
end

def parseTreeAll (fs : List String) : Option Tree :=
  match parseTree fs with
  | some (t, []) => some t
  | _ => none

def showAttrs (a : List Attr) : List String :=
  toString a.length :: a.flatMap fun x => [enc x.name.space, enc x.name.loc, enc x.value]

mutual
def showTreeL : Tree → List String
  | .mk n a c ns => ["(", enc n.space, enc n.loc, enc c] ++ showAttrs a ++ showTreesL ns ++ [")"]
def showTreesL : List Tree → List String
  | [] => []
  | t :: r => showTreeL t ++ showTreesL r
end
def showTree (t : Tree) : String := " ".intercalate (showTreeL t)

/-- the tokenizer's end-of-line handling for literal character data: CR LF and lone CR become LF -/
def normCR : Str → Str
  | '\r' :: '\n' :: r => '\n' :: normCR r
  | '\r' :: r => '\n' :: normCR r
  | c :: r => c :: normCR r
  | [] => []

def showTok : Tok → List String
  | .start n a => ["S", enc n.space, enc n.loc] ++ showAttrs a
  | .text _ s => ["T", enc s]
  | .raw s => ["T", enc (normCR s)]   -- raw inner bytes that are plain text reach the token stream as character data
  | .stop n => ["E", enc n.space, enc n.loc]
def showToks (ts : List Tok) : String := " ".intercalate (ts.flatMap showTok)

def showShape (sh : List Str) : String :=
  " ".intercalate (sh.map fun s => match s with
    | '<' :: n => "<" ++ enc n
    | _ => ">")

def parseShape (s : String) : Option (List Str) :=
  if s == "err" then none
  else if s == "" then some []
  else (s.splitOn " ").mapM fun w =>
    if w == ">" then some ['>']
    else if w.startsWith "<" then (dec (w.drop 1).toString).map ('<' :: ·) else none

def showNodeObs (toksS : String) (o : NodeObs) : String :=
  ";".intercalate [enc o.xml, toksS,
    (match o.back with | some t => showTree t | none => "err"),
    (match o.xml2 with | some x => enc x | none => "err"),
    (match o.shape with | some sh => showShape sh | none => "err")]

def parseNodeObs (s : String) : Option NodeObs :=
  match s.splitOn ";" with
  | [x, _, b, x2, sh] => do
    let x ← dec x
    let back := if b == "err" then none else parseTreeAll (b.splitOn " ")
    let x2 := if x2 == "err" then none else dec x2
    pure ⟨x, back, x2, parseShape sh⟩
  | _ => none

def stepNode (ctxH : String) (treeFs : List String) (impl : String) : Reply :=
  match dec ctxH, parseTreeAll treeFs with
  | some ctx, some t =>
    let known := if t.hasNsAttr then "F-01e" else if t.inheritsNs ctx then "F-01d" else "-"
    let okI := match parseNodeObs impl with
      | some o => holdsNode t o
      | none => false
    if t.hasNsAttr && !t.nsAttrModelled then ⟨"unmodelled", false, true, okI, known⟩
    else
      let mo := modelNodeObs ctx t
      -- the re-serialization of the parsed value must itself be inside the modelled printer
      let mo := match mo.back with
        | some b => if b.hasNsAttr && !b.nsAttrModelled then { mo with xml2 := none } else mo
        | none => mo
      let m := showNodeObs (showToks (marshalNode ctx t)) mo
      ⟨m, m == impl, holdsNode t mo, okI, known⟩
  | _, _ => .bad

/-! ### stage 3: envelopes and nonzas -/
def showObs {α : Type} (toksS : String) (sh : α → String) (o : Obs α) : String :=
  ";".intercalate [enc o.xml, toksS,
    (match o.back with | some v => sh v | none => "err"),
    (match o.xml2 with | some x => enc x | none => "err"),
    (match o.shape with | some sh => showShape sh | none => "err")]

def parseObs {α : Type} (pv : List String → Option α) (s : String) : Option (Obs α) :=
  match s.splitOn ";" with
  | [x, _, b, x2, sh] => do
    let x ← dec x
    let back := if b == "err" then none else pv (b.splitOn " ")
    let x2 := if x2 == "err" then none else dec x2
    pure ⟨x, back, x2, parseShape sh⟩
  | _ => none

/-- generic step: model observation, agreement, oracle on both -/
def stepGen {α : Type} (ctx : Str) (encv : α → El) (decv : El → Option α) (sh : α → String)
    (pv : List String → Option α) (holds : α → Obs α → Bool) (v : α) (impl : String) (known : String)
    (xmlOnly : Bool := false) : Reply :=
  let mo := modelObs ctx encv decv v
  let m := showObs (showToks (toks (view ctx (encv v)))) sh mo
  let io := parseObs pv impl
  let okI := match io with
    | some o => holds v o
    | none => false
  -- xmlOnly: the decode side is not modelled in this region (raw name field): compare the serialization only
  let agree := if xmlOnly then (match io with | some o => o.xml == mo.xml | none => false) else m == impl
  ⟨if xmlOnly then enc mo.xml else m, agree, holds v mo, okI, known⟩

def showFVal : FVal → String
  | .str s => enc s
  | .uint n => toString n
  | .uintPtr none => "nil"
  | .uintPtr (some n) => toString n
  | .boolPtr none => "nil"
  | .boolPtr (some b) => boolStr b

def parseFVal : FKind → String → Option FVal
  | .str _, h => (dec h).map .str
  | .uint _, h => h.toNat?.map .uint
  | .uintPtr, h => if h == "nil" then some (.uintPtr none) else h.toNat?.map fun n => .uintPtr (some n)
  | .boolPtr, h => if h == "nil" then some (.boolPtr none) else (Util.parseBool h).map fun b => .boolPtr (some b)

def parseFVals : List Field → List String → Option (List FVal × List String)
  | [], r => some ([], r)
  | f :: fs, h :: r => do
    let v ← parseFVal f.kind h
    let (vs, r') ← parseFVals fs r
    pure (v :: vs, r')
  | _, [] => none

def parseFlat (s : Schema) (fs : List String) : Option FlatVal :=
  match parseFVals s.fields fs with
  | some (vs, [i]) => (dec i).map fun i => ⟨vs, i⟩
  | _ => none

def showFlat (v : FlatVal) : String := " ".intercalate (v.vals.map showFVal ++ [enc v.inner])

def stepFlat (ty ctxH : String) (fs : List String) (impl : String) : Reply :=
  match schemas.lookup ty, dec ctxH with
  | some s, some ctx =>
    match parseFlat s fs with
    | some v => stepGen ctx (encFlat s) (decFlat s) showFlat (parseFlat s) (holdsFlat s) v impl "-"
    | none => .bad
  | _, _ => .bad

def showOptNat : Option Nat → String
  | none => "nil"
  | some n => toString n
def parseOptNat (s : String) : Option (Option Nat) := if s == "nil" then some none else s.toNat?.map some
def showSMFailed (v : SMFailed) : String :=
  showOptNat v.h ++ " " ++ (match v.cond with | some c => enc c | none => "nil")
def parseSMFailed : List String → Option SMFailed
  | [h, c] => do
    let h ← parseOptNat h
    let c ← if c == "nil" then some none else (dec c).map some
    pure ⟨h, c⟩
  | _ => none

def showErrF (e : Err) : List String := [toString e.code, enc e.typ, enc e.reason, enc e.text]
def parseErrF : List String → Option Err
  | [c, t, r, x] => do
    let c ← c.toInt?; let t ← dec t; let r ← dec r; let x ← dec x
    pure ⟨c, t, r, x⟩
  | _ => none
def showAttrsF (a : Attrs) : List String := [enc a.typ, enc a.id, enc a.frm, enc a.to, enc a.lang]
def parseAttrsF : List String → Option Attrs
  | [a, b, c, d, e] => do
    let a ← dec a; let b ← dec b; let c ← dec c; let d ← dec d; let e ← dec e
    pure ⟨a, b, c, d, e⟩
  | _ => none

def showMsg (m : Message) : String :=
  " ".intercalate (showAttrsF m.attrs ++ [enc m.subject, enc m.body, enc m.thread] ++ showErrF m.error)
def parseMsg (fs : List String) : Option Message := do
  let a ← parseAttrsF (fs.take 5)
  match fs.drop 5 with
  | s :: b :: t :: e => do
    let s ← dec s; let b ← dec b; let t ← dec t; let e ← parseErrF e
    pure ⟨a, s, b, t, e⟩
  | _ => none

def showPres (p : Presence) : String :=
  " ".intercalate (showAttrsF p.attrs ++ [enc p.show_, enc p.status, toString p.priority] ++ showErrF p.error)
def parsePres (fs : List String) : Option Presence := do
  let a ← parseAttrsF (fs.take 5)
  match fs.drop 5 with
  | s :: st :: pr :: e => do
    let s ← dec s; let st ← dec st; let pr ← pr.toInt?; let e ← parseErrF e
    pure ⟨a, s, st, pr, e⟩
  | _ => none

def showIQ (q : IQ) : String :=
  " ".intercalate (showAttrsF q.attrs ++
    (match q.error with | some e => "E" :: showErrF e | none => ["N", "0", "-", "-", "-"]) ++
    (match q.any with | some t => showTreeL t | none => ["-"]))
def parseIQ (fs : List String) : Option IQ := do
  let a ← parseAttrsF (fs.take 5)
  match fs.drop 5 with
  | f :: c :: t :: r :: x :: rest => do
    let e ← parseErrF [c, t, r, x]
    let err ← if f == "E" then some (some e) else if f == "N" then some none else none
    let any ← if rest == ["-"] then some none else (parseTreeAll rest).map some
    pure ⟨a, err, any⟩
  | _ => none

/-- tag of the recorded finding whose region contains this error value -/
def errKnown (e : Err) : String :=
  if e.reasonNotName then "F-01c" else if e.reasonShadowed then "F-01g" else "-"

def stepErr (ctxH : String) (fs : List String) (impl : String) : Reply :=
  match dec ctxH, parseErrF fs with
  | some ctx, some e =>
    if e.isEmpty then
      -- nothing is written for the empty value
      let m := ";".intercalate ["-", "err", "err", "err", "err"]
      ⟨m, m == impl, true, (match parseObs parseErrF impl with | some o => holdsErr e o | none => false), "-"⟩
    else
      stepGen ctx errEl (fun el => some (decErrOnto Err.zero el)) (fun e => " ".intercalate (showErrF e)) parseErrF
        holdsErr e impl (errKnown e) (xmlOnly := e.reasonNotName)
  | _, _ => .bad

def stepMsg (ctxH : String) (fs : List String) (impl : String) : Reply :=
  match dec ctxH, parseMsg fs with
  | some ctx, some m =>
    stepGen ctx encMessage decMessage showMsg parseMsg holdsMessage m impl (errKnown m.error)
      (xmlOnly := m.error.reasonNotName)
  | _, _ => .bad

def stepPres (ctxH : String) (fs : List String) (impl : String) : Reply :=
  match dec ctxH, parsePres fs with
  | some ctx, some p =>
    stepGen ctx encPresence decPresence showPres parsePres holdsPresence p impl (errKnown p.error)
      (xmlOnly := p.error.reasonNotName)
  | _, _ => .bad

def stepIQ (ctxH : String) (fs : List String) (impl : String) : Reply :=
  match dec ctxH, parseIQ fs with
  | some ctx, some q =>
    let ek := match q.error with | some e => errKnown e | none => "-"
    let known := if ek != "-" then ek else match q.any with
      | some t => if t.hasNsAttr then "F-01e" else if t.inheritsNs ctx then "F-01d" else "-"
      | none => "-"
    let unmodelled := match q.any with | some t => t.hasNsAttr && !t.nsAttrModelled | none => false
    if unmodelled then
      ⟨"unmodelled", false, true, (match parseObs parseIQ impl with | some o => holdsIQ q o | none => false), known⟩
    else
      stepGen ctx encIQ decIQ showIQ parseIQ holdsIQ q impl known
        (xmlOnly := match q.error with | some e => e.reasonNotName | none => false)
  | _, _ => .bad

/-! ### stage 4: sampled-only types. Regions of the recorded findings, as (type, failure class, field path). -/
def sampledKnown : List (String × String × String × String) := [
  -- F-01f: `,cdata` field: a literal CR inside CDATA is normalised to LF by the decoder
  ("Command", "value", "IQ.Payload(Command).CommandElements[](Note).Text", "F-01f"),
  -- F-01k: four EventElement types have no XMLName and serialize under their Go type names
  ("PubSubEvent", "value", "Message.Extensions[](PubSubEvent).EventElement:nil", "F-01k"),
  ("Message", "value", "Message.Extensions[](PubSubEvent).EventElement:nil", "F-01k"),
  -- F-01l: PubSubOwner.UnmarshalXML has no arm for <set/> (ResultSet)
  ("PubSubOwner", "value", "IQ.Payload(PubSubOwner).ResultSet:nil", "F-01l"),
  ("IQ", "value", "IQ.Payload(PubSubOwner).ResultSet:nil", "F-01l"),
  -- F-01m: Command.UnmarshalXML decodes the error flags and <set/> as generic Nodes into CommandElements and
  -- dispatches on the local name only
  ("Command", "value", "IQ.Payload(Command).CommandElements:len", "F-01m"),
  ("Command", "value", "IQ.Payload(Command).CommandElements:nil", "F-01m"),
  ("Command", "parse", "-", "F-01m"),
  ("IQ", "value", "IQ.Payload(Command).CommandElements:len", "F-01m"),
  ("IQ", "value", "IQ.Payload(Command).CommandElements:nil", "F-01m"),
  ("IQ", "parse", "-", "F-01m"),
  -- F-01n: Roster and RosterItems are registered under the same key; the second registration wins
  ("Roster", "value", "IQ.Payload:type(Roster/RosterItems)", "F-01n")]

def stepSample (ty impl : String) : Reply :=
  match impl.splitOn " " with
  | ["rt-ok"] => ⟨"sampled", true, true, true, "-"⟩
  | ["rt-fail", cls, path, _] =>
    let known := match sampledKnown.find? (fun e => e.1 == ty && e.2.1 == cls && e.2.2.1 == path) with
      | some e => e.2.2.2
      | none => "-"
    ⟨"sampled", true, true, false, known⟩
  | _ => ⟨"sampled", false, true, false, "-"⟩

def step (_ : Unit) (fields : List String) (impl : String) : Unit × Reply :=
  match fields with
  | ["escape", nl, h] =>
    match parseBool nl with
    | some nl => ((), stepEscape nl h impl)
    | none => ((), .bad)
  | ["escrange", nl, lo, hi] =>
    match parseBool nl, lo.toNat?, hi.toNat? with
    | some nl, some lo, some hi => ((), stepRange nl lo hi impl)
    | _, _, _ => ((), .bad)
  | ["body", h] => ((), stepBody h impl)
  | "node" :: ctx :: tree => ((), stepNode ctx tree impl)
  | "flat" :: ty :: ctx :: fs => ((), stepFlat ty ctx fs impl)
  | "smfailed" :: ctx :: fs =>
    match dec ctx, parseSMFailed fs with
    | some ctx, some v =>
      ((), stepGen ctx encSMFailed decSMFailed showSMFailed parseSMFailed holdsSMFailed v impl "-")
    | _, _ => ((), .bad)
  | "err" :: ctx :: fs => ((), stepErr ctx fs impl)
  | "msg" :: ctx :: fs => ((), stepMsg ctx fs impl)
  | "pres" :: ctx :: fs => ((), stepPres ctx fs impl)
  | "iq" :: ctx :: fs => ((), stepIQ ctx fs impl)
  | ["sample", _, ty, _] => ((), stepSample ty impl)
  | _ => ((), .bad)

def handler : Handler := ⟨Unit, fun _ => (), step⟩
end XmppVerif.Drv.C01
