import XmppVerif.Util
/-
Driver plug-in interface. One `Handler` per property:
  input line  = op fields (tab separated) followed by the field `=>` and the implementation's observation
  output line = model observation, agree?, Spec.holds(model obs), Spec.holds(impl obs)
`begin …` resets the state (its extra fields select a variant), `end` is echoed.
-/
namespace XmppVerif.Drv

structure Reply where
  model     : String          -- the model's observation, same syntax as the implementation's
  agree     : Bool            -- correspondence: does the implementation's observation match the model's
  specModel : Bool            -- Spec.holds on the model's observation
  specImpl  : Bool            -- Spec.holds on the implementation's observation
  known     : String := "-"   -- key of a recorded finding whose region contains this step, else "-"
  deriving Repr

def Reply.bad : Reply := ⟨"bad-op", false, false, false, "-"⟩

/-- deterministic properties: agreement is equality of the canonical observation strings -/
def Reply.det (model impl : String) (specModel specImpl : Bool) : Reply :=
  ⟨model, model == impl, specModel, specImpl, "-"⟩

structure Handler where
  σ     : Type
  init  : List String → σ                       -- fields of the `begin` line after the case id
  step  : σ → List String → String → σ × Reply  -- op fields, impl observation

def Reply.render (r : Reply) : String :=
  r.model ++ "\t" ++ Util.boolStr r.agree ++ "\t" ++ Util.boolStr r.specModel ++ "\t" ++ Util.boolStr r.specImpl ++ "\t" ++ r.known

end XmppVerif.Drv
