import XmppVerif.Drv.Core
import XmppVerif.Spec.C15
namespace XmppVerif.Drv.C15
open XmppVerif.Model.C15 XmppVerif.Spec.C15 XmppVerif.Util XmppVerif.Drv

def enc (s : List Char) : String := encStr (String.ofList s)
def dec (h : String) : Option (List Char) := (decStr h).map String.toList

def showJ (j : Jid) : String := enc j.node ++ "," ++ enc j.domain ++ "," ++ enc j.resource
def showOJ : Option Jid → String
  | none => "err"
  | some j => showJ j

def parseJ (s : String) : Option (Option Jid) :=
  if s == "err" then some none else
  match s.splitOn "," with
  | [a, b, c] => do
    let a ← dec a; let b ← dec b; let c ← dec c
    pure (some ⟨a, b, c⟩)
  | _ => none

def showObs : Obs → String
  | .err => "err"
  | .ok j f b rf rb => "ok " ++ showJ j ++ " " ++ enc f ++ " " ++ enc b ++ " " ++ showOJ rf ++ " " ++ showOJ rb

def parseObs (s : String) : Option Obs :=
  if s == "err" then some .err else
  match s.splitOn " " with
  | ["ok", j, f, b, rf, rb] => do
    let j ← parseJ j
    let j ← j
    let f ← dec f; let b ← dec b
    let rf ← parseJ rf; let rb ← parseJ rb
    pure (.ok j f b rf rb)
  | _ => none

def modelObs (s : List Char) : Obs :=
  match newJid s with
  | none => .err
  | some j => .ok j (full j) (bare j) (newJid (full j)) (newJid (bare j))

def step (_ : Unit) (fields : List String) (impl : String) : Unit × Reply :=
  match fields with
  | ["newjid", h] =>
    match dec h with
    | some s =>
      let mo := modelObs s
      let okI := match parseObs impl with
        | some io => holds s io
        | none => false
      ((), .det (showObs mo) impl (holds s mo) okI)
    | none => ((), .bad)
  | ["spaces", lo, hi] =>
    match lo.toNat?, hi.toNat? with
    | some lo, some hi =>
      let cps := (List.range (hi - lo)).filterMap fun i =>
        let n := lo + i
        -- Char.ofNat maps invalid scalar values (surrogates) to NUL, which is not a space
        if (n < 0xD800 || (0xDFFF < n && n < 0x110000)) && isSpace (Char.ofNat n) then some n else none
      let m := String.intercalate "," (cps.map toString)
      ((), .det m impl true true)
    | _, _ => ((), .bad)
  | _ => ((), .bad)

def handler : Handler := ⟨Unit, fun _ => (), step⟩
end XmppVerif.Drv.C15
