import XmppVerif.Drv.Core
import XmppVerif.Spec.C16
/-
Driver plug-in for C16.
  sha1 <bytes>                 => hex(sha1)
  digest <id> <secret>         => hex(lower-case hex digest text)
  connect <attrs> <esc> <secret> <reply-class> <reply-bytes> <posts>
       => <class of the reply> <text received in <handshake> | ~> <nil|perm|err> <states | ~> <routed>
An attribute is `prefix|local|value-hex`; a non-empty prefix means a namespaced attribute (encoding/xml reports a
non-empty Name.Space for it), which is all that the model looks at.
-/
namespace XmppVerif.Drv.C16
open XmppVerif.Model.C16 XmppVerif.Spec.C16 XmppVerif.Util XmppVerif.Drv

def parseReply : String → Option Model.C16.Reply
  | "handshake" => some .handshake | "streamError" => some .streamError | "other" => some .other
  | "decodeError" => some .decodeError | _ => none

def parseAttr (s : String) : Option Attr :=
  match s.splitOn "|" with
  | [p, l, v] => (hexToBytes v).map fun v => ⟨p, l, v⟩
  | _ => none

def parseConn (s : String) : Option Connect :=
  if s == "!refused" then some .refused
  else if s == "!nostream" then some .noStream
  else if s == "~" then some (.opened [])
  else ((s.splitOn ",").mapM parseAttr).map .opened

def encChars (cs : List Char) : String := encStr (String.ofList cs)

def showErr : Option Bool → String
  | none => "nil" | some true => "perm" | some false => "err"

def parseErr : String → Option (Option Bool)
  | "nil" => some none | "perm" => some (some true) | "err" => some (some false) | _ => none

def showStates (l : List Nat) : String :=
  if l.isEmpty then "~" else String.intercalate "," (l.map toString)

def parseStates (s : String) : Option (List Nat) :=
  if s == "~" then some [] else (s.splitOn ",").mapM String.toNat?

def showObs (cls : String) (o : Obs) : String :=
  cls ++ " " ++ (match o.digest with | none => "~" | some d => encChars d) ++ " " ++ showErr o.err ++ " " ++
    showStates o.states ++ " " ++ toString o.routed

def parseObs (s : String) : Option Obs :=
  match s.splitOn " " with
  | [_, d, e, st, r] => do
    let d ← if d == "~" then some none else (decStr d).map (fun x => some x.toList)
    let e ← parseErr e
    let st ← parseStates st
    let r ← r.toNat?
    pure ⟨d, e, st, r⟩
  | _ => none

def step (_ : Unit) (fields : List String) (impl : String) : Unit × Drv.Reply :=
  match fields with
  | ["sha1", h] =>
    match hexToBytes h with
    | some bs =>
      let m := encBytes (sha1 bs)
      ((), Drv.Reply.det m impl true (m == impl))
    | none => ((), Drv.Reply.bad)
  | ["digest", i, s] =>
    match hexToBytes i, hexToBytes s with
    | some i, some s =>
      let m := encChars (digest i s)
      ((), Drv.Reply.det m impl true (m == impl))
    | _, _ => ((), Drv.Reply.bad)
  | ["connect", attrs, _, secret, reply, _, posts] =>
    match parseConn attrs, hexToBytes secret, parseReply reply, posts.toNat? with
    | some conn, some secret, some r, some posts =>
      let c : Case := ⟨conn, secret, true, r, posts⟩
      let mo := modelObs c
      let okI := match parseObs impl with
        | some io => holds c io
        | none => false
      ((), Drv.Reply.det (showObs reply mo) impl (holds c mo) okI)
    | _, _, _, _ => ((), Drv.Reply.bad)
  | ["reconnect", reply, _, _] =>
    match parseReply reply with
    | some r =>
      let (me, ms) := modelReconnect r
      let showE : Option Bool → String
        | none => "nil" | some true => "perm" | some false => "err"
      -- the digest of the SECOND connection: again SHA-1(stream id ++ secret) of that connection alone
      let d2 := encChars (digest "sid".toUTF8.toList "s".toUTF8.toList)
      let mstr := reply ++ " 2 " ++ showE me ++ " " ++ toString ms ++ " " ++ d2
      let okI := match impl.splitOn " " with
        | [_, _, e, a, dg] =>
          (match (if e == "nil" then some none else if e == "perm" then some (some true) else if e == "err" then some (some false) else none), a.toNat? with
           | some e, some a => holdsReconnect r e a && dg == d2
           | _, _ => false)
        | _ => false
      ((), Drv.Reply.det mstr impl (holdsReconnect r me ms) okI)
    | none => ((), Drv.Reply.bad)
  | "lives" :: _how :: toks =>
    let parseTok (t : String) : Option Model.C16.Reply := parseReply ((t.splitOn "|").headD "")
    match toks.mapM parseTok with
    | some rs =>
      let showL (cls : String) (x : Option Bool × Nat × Nat) : String :=
        cls ++ " " ++ showErr x.1 ++ " " ++ toString x.2.1 ++ " " ++ toString x.2.2
      let clsOf (t : String) : String := (t.splitOn "|").headD ""
      let m := modelLives rs
      let mstr := String.intercalate ";" ((toks.zip m).map fun (t, x) => showL (clsOf t) x)
      let parseL (s : String) : Option (Option Bool × Nat × Nat) :=
        match s.splitOn " " with
        | [_, e, a, n] => do
          let e ← parseErr e
          let a ← a.toNat?
          let n ← n.toNat?
          pure (e, a, n)
        | _ => none
      let okI := match (impl.splitOn ";").mapM parseL with
        | some io => holdsLives rs io
        | none => false
      -- correspondence: error class and state must be the model's; the number of announcements only has to be positive
      let agree := match (impl.splitOn ";").mapM parseL with
        | some io => io.length == m.length && (io.zip m).all fun (i, x) => i.1 == x.1 && i.2.1 == x.2.1 && (i.2.2 == 0) == (x.2.2 == 0)
        | none => false
      ((), { Drv.Reply.det mstr impl (holdsLives rs m) okI with agree := agree })
    | none => ((), Drv.Reply.bad)
  | _ => ((), Drv.Reply.bad)

def handler : Handler := ⟨Unit, fun _ => (), step⟩
end XmppVerif.Drv.C16
