import XmppVerif.Drv.C01
import XmppVerif.Spec.C01Schema
import XmppVerif.Spec.C01Compose
/-
Driver plug-in for the schema-coded types of C01 (one more op of the C01 handler):
  schema <kind> <Type> <ctx> <value…>   => xml;decoder tokens;value parsed back|err;second xml|err;skeleton|err;np
    kind  = msgext | presext | iqpayload (registered: the harness also sends the value inside a stanza through a stream
            and stanza.NextPacket) | plain
    value = one token per blank-separated field:  s:<hex> | b:true|false | i:<int> | u:<nat> | nil | & v | [ v… ] |
            { <space> <local> v… }  (struct: dynamic XMLName, then the fields of typeInfo.fields in order) | N <tree…>
    np    = same | diff | type:<Go type> | err | -   (model: the registry's winner for the type's (kind, name))
The handler of this module replaces Drv.C01.handler in Driver/Main.lean and forwards every other op to it.
-/
namespace XmppVerif.Drv.C01S
open XmppVerif.Model.C01 XmppVerif.Model.C01S XmppVerif.Spec.C01S XmppVerif.Util XmppVerif.Drv XmppVerif.Drv.C01
open XmppVerif.Spec.C01 (Obs)

def showOptInt : Option Int → String
  | none => "nil"
  | some i => toString i
def parseOptInt (s : String) : Option (Option Int) := if s == "nil" then some none else s.toInt?.map some

mutual
def showValL : Val → List String
  | .str s => ["s:" ++ enc s]
  | .bool b => ["b:" ++ boolStr b]
  | .int i => ["i:" ++ toString i]
  | .uint n => ["u:" ++ toString n]
  | .nil => ["nil"]
  | .ref v => "&" :: showValL v
  | .slice l => "[" :: (showValsL l ++ ["]"])
  | .struct dn fs => ["{", enc dn.space, enc dn.loc] ++ showValsL fs ++ ["}"]
  | .node t => "N" :: showTreeL t
  | .history a b c => ["H", showOptInt a, showOptInt b, showOptInt c]
def showValsL : List Val → List String
  | [] => []
  | v :: r => showValL v ++ showValsL r
end
def showVal (v : Val) : String := " ".intercalate (showValL v)

mutual
partial def parseVal : List String → Option (Val × List String)
  | "nil" :: r => some (.nil, r)
  | "&" :: r => do
    let (v, r) ← parseVal r
    pure (.ref v, r)
  | "[" :: r => do
    let (l, r) ← parseVals "]" r
    pure (.slice l, r)
  | "{" :: sp :: lo :: r => do
    let sp ← dec sp; let lo ← dec lo
    let (l, r) ← parseVals "}" r
    pure (.struct ⟨sp, lo⟩ l, r)
  | "N" :: r => do
    let (t, r) ← parseTree r
    pure (.node t, r)
  | "H" :: a :: b :: c :: r => do
    let a ← parseOptInt a; let b ← parseOptInt b; let c ← parseOptInt c
    pure (.history a b c, r)
  | w :: r =>
    if w.startsWith "s:" then (dec (w.drop 2).toString).map fun s => (.str s, r)
    else if w.startsWith "b:" then (Util.parseBool (w.drop 2).toString).map fun b => (.bool b, r)
    else if w.startsWith "i:" then ((w.drop 2).toString.toInt?).map fun i => (.int i, r)
    else if w.startsWith "u:" then ((w.drop 2).toString.toNat?).map fun n => (.uint n, r)
    else none
  | [] => none
partial def parseVals (close : String) : List String → Option (List Val × List String)
  | [] => none
  | w :: r =>
    if w == close then some ([], r)
    else do
      let (v, r) ← parseVal (w :: r)
      let (vs, r) ← parseVals close r
      pure (v :: vs, r)
end

def parseValAll (fs : List String) : Option Val :=
  match parseVal fs with
  | some (v, []) => some v
  | _ => none

def showObsS (toksS : String) (o : ObsS) : String :=
  ";".intercalate [enc o.xml, toksS,
    (match o.back with | some v => showVal v | none => "err"),
    (match o.xml2 with | some x => enc x | none => "err"),
    (match o.shape with | some sh => showShape sh | none => "err"),
    o.np]

def parseObsS (s : String) : Option ObsS :=
  match s.splitOn ";" with
  | [x, _, b, x2, sh, np] => do
    let x ← dec x
    let back := if b == "err" then none else parseValAll (b.splitOn " ")
    let x2 := if x2 == "err" then none else dec x2
    pure ⟨x, back, x2, parseShape sh, np⟩
  | _ => none

def pktOf (kind : String) : String :=
  if kind == "msgext" then "PKTMessage" else if kind == "presext" then "PKTPresence" else "PKTIQ"

/-- what the stream -> NextPacket route gives for a registered type: the registry's current entry for its name -/
def modelNp (kind ty : String) (s : Ty) : String :=
  if kind == "plain" then "-"
  else match s with
    | .struct _ (.tag n) _ _ =>
      match regWinner (pktOf kind) (String.ofList n.space) (String.ofList n.loc) with
      | some w => if w == ty then "same" else "type:" ++ w
      | none => "err"
    | _ => "err"

def stepSchema (kind ty ctxH : String) (fs : List String) (impl : String) : Reply :=
  match allTypes.lookup ty, dec ctxH, parseValAll fs with
  | some s, some ctx, some v =>
    -- "same": the registry gives this type back AND the re-serialization of the whole stanza is byte-identical
    let np0 := modelNp kind ty s
    let mo0 := modelObsS ctx s v np0
    let np := if np0 == "same" && mo0.xml2 != some mo0.xml then "diff" else np0
    let mo := { mo0 with np := np }
    let m := showObsS (showToks (marshalS ctx s v)) mo
    let okI := match parseObsS impl with
      | some o => holdsS s v o
      | none => false
    -- F-01n: two types registered under one name; the second registration wins
    let known := if np.startsWith "type:" then "F-01n" else "-"
    if Ty.wf s then ⟨m, m == impl, holdsS s v mo, okI, known⟩
    else ⟨"unmodelled", false, true, okI, known⟩
  | _, _, _ => .bad

/-! ### a stanza together with its extensions / payload
  msgx  <ctx> <type id from to lang> <subject body thread> <code type reason text> { <Type> <value…> }*
  presx <ctx> <type id from to lang> <show status priority> <code type reason text> { <Type> <value…> }*
  iqx   <ctx> <type id from to lang> <E|N> <code type reason text> <tree…|-> [ <Type> <value…> | - ]
-/
partial def parseExts : List String → Option (List Ext)
  | [] => some []
  | ty :: r => do
    let (v, r) ← parseVal r
    let xs ← parseExts r
    pure (⟨ty, v⟩ :: xs)

def showExts (xs : List Ext) : List String := xs.flatMap fun x => x.ty :: showValL x.v

def parseMsgX (fs : List String) : Option MessageX := do
  let b ← parseMsg (fs.take 12)
  let xs ← parseExts (fs.drop 12)
  pure ⟨b, xs⟩
def showMsgX (m : MessageX) : String := " ".intercalate (showMsg m.base :: showExts m.exts)

def parsePresX (fs : List String) : Option PresenceX := do
  let b ← parsePres (fs.take 12)
  let xs ← parseExts (fs.drop 12)
  pure ⟨b, xs⟩
def showPresX (p : PresenceX) : String := " ".intercalate (showPres p.base :: showExts p.exts)

def parseIQX (fs : List String) : Option IQX := do
  let a ← parseAttrsF (fs.take 5)
  match fs.drop 5 with
  | f :: c :: t :: r :: x :: rest => do
    let e ← parseErrF [c, t, r, x]
    let err ← if f == "E" then some (some e) else if f == "N" then some none else none
    let (any, rest) ← match rest with
      | "-" :: r => some (none, r)
      | r => (parseTree r).map fun p => (some p.1, p.2)
    let pl ← match rest with
      | ["-"] => some none
      | r => match parseExts r with
        | some [x] => some (some x)
        | _ => none
    pure ⟨a, pl, err, any⟩
  | _ => none
def showIQX (q : IQX) : String :=
  " ".intercalate (showAttrsF q.attrs ++
    (match q.error with | some e => "E" :: showErrF e | none => ["N", "0", "-", "-", "-"]) ++
    (match q.any with | some t => showTreeL t | none => ["-"]) ++
    (match q.payload with | some x => x.ty :: showValL x.v | none => ["-"]))

def stepX {α : Type} (ctx : Str) (encv : α → El) (decv : El → Option α) (sh : α → String)
    (pv : List String → Option α) (holds : α → Obs α → Bool) (v : α) (impl : String) : Reply :=
  let mo := modelObsX ctx encv decv v
  let m := showObs (showToks (toks (viewS ctx (encv v)))) sh mo
  let okI := match parseObs pv impl with
    | some o => holds v o
    | none => false
  ⟨m, m == impl, holds v mo, okI, "-"⟩

/-! ### the name-dispatching decoders
  dispatch <kind> <Wrapper> <ctx> <set: nil | & value…> <- | Type value…>
-/
def parseDVal (fs : List String) : Option DVal := do
  let (set, r) ← parseVal fs
  match r with
  | ["-"] => pure ⟨none, set⟩
  | _ => match parseExts r with
    | some [x] => pure ⟨some x, set⟩
    | _ => none

def showDVal (v : DVal) : String :=
  " ".intercalate (showValL v.set ++ (match v.sel with | some x => x.ty :: showValL x.v | none => ["-"]))

def stepDispatch (kind name ctxH : String) (fs : List String) (impl : String) : Reply :=
  match dispatchSpecs.find? (·.tyName == name), dec ctxH, parseDVal fs with
  | some d, some ctx, some v =>
    let np := if kind == "plain" then "-"
      else match regWinner (pktOf kind) (String.ofList d.name.space) (String.ofList d.name.loc) with
        | some w => if w == name then "same" else "type:" ++ w
        | none => "err"
    let mo0 := modelObsD ctx d v np
    let mo := if np == "same" && mo0.xml2 != some mo0.xml then { mo0 with np := "diff" } else mo0
    let m := ";".intercalate [enc mo.xml, showToks (toks (viewS ctx (encDispatch d v))),
      (match mo.back with | some b => showDVal b | none => "err"),
      (match mo.xml2 with | some x => enc x | none => "err"),
      (match mo.shape with | some sh => showShape sh | none => "err"), mo.np]
    let io : Option ObsD := match impl.splitOn ";" with
      | [x, _, b, x2, sh, np] => do
        let x ← dec x
        let back := if b == "err" then none else parseDVal (b.splitOn " ")
        let x2 := if x2 == "err" then none else dec x2
        pure ⟨x, back, x2, parseShape sh, np⟩
      | _ => none
    let okI := match io with | some o => holdsD d v o | none => false
    ⟨m, m == impl, holdsD d v mo, okI, "-"⟩
  | _, _, _ => .bad

/-! ### stanza.Command
  command <kind> <ctx> <action node sessionid status lang> <6 flags: 0|1> <set: nil | & value…> <k> k x ( E <Type> <value…> | N <tree…> )
-/
partial def parseCmdEls : Nat → List String → Option (List CmdEl × List String)
  | 0, r => some ([], r)
  | k + 1, "N" :: r => do
    let (t, r) ← parseTree r
    let (es, r) ← parseCmdEls k r
    pure (.node t :: es, r)
  | k + 1, "E" :: ty :: r => do
    let (v, r) ← parseVal r
    let (es, r) ← parseCmdEls k r
    pure (.ext ⟨ty, v⟩ :: es, r)
  | _, _ => none

def parseCmd (fs : List String) : Option CommandV := do
  match fs with
  | a :: n :: s :: st :: l :: r =>
    let a ← dec a; let n ← dec n; let s ← dec s; let st ← dec st; let l ← dec l
    let flags ← (r.take 6).mapM fun w => if w == "1" then some true else if w == "0" then some false else none
    if flags.length != 6 then none
    let (set, r) ← parseVal (r.drop 6)
    match r with
    | k :: r => do
      let k ← k.toNat?
      let (es, r) ← parseCmdEls k r
      if r.isEmpty then pure ⟨⟨a, n, s, st, l⟩, es, flags, set⟩ else none
    | [] => none
  | _ => none

def showCmd (v : CommandV) : String :=
  " ".intercalate ([enc v.attrs.action, enc v.attrs.node, enc v.attrs.sessionid, enc v.attrs.status, enc v.attrs.lang] ++
    v.flags.map (fun b => if b then "1" else "0") ++ showValL v.set ++ [toString v.elems.length] ++
    v.elems.flatMap fun e => match e with
      | .ext x => "E" :: x.ty :: showValL x.v
      | .node t => "N" :: showTreeL t)

/-- the model covers a Command whose elements are all of types the schema codec describes (Note is `,cdata`) -/
def cmdModelled (v : CommandV) : Bool :=
  v.elems.all fun e => match e with | .ext x => Ty.wf x.schema | .node t => !(t.hasNsAttr && !t.nsAttrModelled)

def stepCommand (kind ctxH : String) (fs : List String) (impl : String) : Reply :=
  match dec ctxH, parseCmd fs with
  | some ctx, some v =>
    let np0 := if kind == "plain" then "-"
      else match regWinner (pktOf kind) (String.ofList nsCommands) "command" with
        | some w => if w == "Command" then "same" else "type:" ++ w
        | none => "err"
    let mo0 := modelObsC ctx v np0
    let mo := if np0 == "same" && mo0.xml2 != some mo0.xml then { mo0 with np := "diff" } else mo0
    let m := ";".intercalate [enc mo.xml, showToks (toks (viewS ctx (encCommand v))),
      (match mo.back with | some b => showCmd b | none => "err"),
      (match mo.xml2 with | some x => enc x | none => "err"),
      (match mo.shape with | some sh => showShape sh | none => "err"), mo.np]
    let io : Option ObsC := match impl.splitOn ";" with
      | [x, _, b, x2, sh, np] => do
        let x ← dec x
        let back := if b == "err" then none else parseCmd (b.splitOn " ")
        let x2 := if x2 == "err" then none else dec x2
        pure ⟨x, back, x2, parseShape sh, np⟩
      | _ => none
    let okI := match io with | some o => holdsC v o | none => false
    if cmdModelled v then ⟨m, m == impl, holdsC v mo, okI, "-"⟩ else ⟨"unmodelled", false, true, okI, "-"⟩
  | _, _ => .bad

def step (u : Unit) (fields : List String) (impl : String) : Unit × Reply :=
  match fields with
  | "schema" :: kind :: ty :: ctx :: fs => ((), stepSchema kind ty ctx fs impl)
  | "command" :: kind :: ctx :: fs => ((), stepCommand kind ctx fs impl)
  | "dispatch" :: kind :: name :: ctx :: fs => ((), stepDispatch kind name ctx fs impl)
  | "msgx" :: ctx :: fs =>
    match dec ctx, parseMsgX fs with
    | some ctx, some m => ((), stepX ctx encMessageX decMessageX showMsgX parseMsgX (holdsMessageX ctx) m impl)
    | _, _ => ((), .bad)
  | "presx" :: ctx :: fs =>
    match dec ctx, parsePresX fs with
    | some ctx, some p => ((), stepX ctx encPresenceX decPresenceX showPresX parsePresX (holdsPresenceX ctx) p impl)
    | _, _ => ((), .bad)
  | "iqx" :: ctx :: fs =>
    match dec ctx, parseIQX fs with
    | some ctx, some q => ((), stepX ctx encIQX decIQX showIQX parseIQX (holdsIQX ctx) q impl)
    | _, _ => ((), .bad)
  | _ => C01.step u fields impl

def handler : Handler := ⟨Unit, fun _ => (), step⟩
end XmppVerif.Drv.C01S
