import XmppVerif.Drv.Core
import XmppVerif.Drv.C17
import XmppVerif.Spec.C10
namespace XmppVerif.Drv.C10
open XmppVerif.Model.C10 XmppVerif.Spec.C10 XmppVerif.Util XmppVerif.Drv

def parseOp : List String → Option Op
  | ["sendstanza", _, _, b] => (decStr b).map .sendStanza
  | ["sendnonza", _, _, b] => (decStr b).map .sendNonza
  | ["sendraw", b] => (decStr b).map .sendRaw
  | ["ack", h] => h.toNat?.map .ack
  | ["ackfail", h] => h.toNat?.map .ackFail
  | ["sendrawfail", b] => (decStr b).map .sendFail
  | ["sendptr", _, _, b] => (decStr b).map .sendStanza     -- Send(&stanza): a stanza like any other
  | ["req", _, b] => (decStr b).map .req
  | ["inmsg"] => some .inbound
  | ["newsession", "same"] => some .resumed
  | ["newsession", _] => some .freshSession
  | _ => none

def showObs (o : Obs) : String :=
  "w:" ++ String.intercalate ";" (o.writes.map encStr) ++ "|q:" ++ Drv.C17.showEnts o.held

def parseObs (s : String) : Option Obs :=
  match s.splitOn "|" with
  | [w, q] =>
    if w.startsWith "w:" && q.startsWith "q:" then do
      let ws := (w.drop 2).toString
      let writes ← (if ws.isEmpty then some [] else (ws.splitOn ";").mapM decStr)
      let held ← Drv.C17.parseEnts (q.drop 2).toString
      pure ⟨writes, held⟩
    else none
  | _ => none

structure DSt where
  st : St
  rm : Ref      -- reference following the model
  ri : Ref      -- reference following the implementation (same ops: identical, kept separate for clarity)

/-- apply a list of ops, concatenating the writes; the oracle is evaluated on the combined observation -/
def stepMany (d : DSt) (ops : List Op) (impl : String) : DSt × Reply :=
  let (st', w) := ops.foldl (fun (acc : St × List String) op =>
    let (s', w') := Model.C10.step acc.1 op; (s', acc.2 ++ w')) (d.st, [])
  let mo : Obs := ⟨w, st'.q⟩
  let refAll (r : Ref) : Ref × List String := ops.foldl (fun (acc : Ref × List String) op =>
    let (r', w') := refStep acc.1 op; (r', acc.2 ++ w')) (r, [])
  let judge (r : Ref) (o : Obs) : Bool × Ref :=
    let (r', rw) := refAll r
    (decide (o.writes = rw) && decide (o.held.map (·.stz) = r'.held) && idsIncreasing (o.held.map (·.id)), r')
  let (okM, rm') := judge d.rm mo
  let (okI, ri') := match parseObs impl with
    | some io => judge d.ri io
    | none => (false, (refAll d.ri).1)
  (⟨st', rm', ri'⟩, .det (showObs mo) impl okM okI)

/-- `race a b`: two goroutines call SendRaw concurrently. The scheduler decides which one stores-and-writes first;
the model follows the order seen on the wire - in that order the queue must hold them too. -/
def stepRace (d : DSt) (a b : String) (impl : String) : DSt × Reply :=
  let first := match parseObs impl with
    | some io => io.writes.head?
    | none => none
  if first == some b then stepMany d [.sendRaw b, .sendRaw a] impl
  else stepMany d [.sendRaw a, .sendRaw b] impl

def step (d : DSt) (fields : List String) (impl : String) : DSt × Reply :=
  match fields with
  | ["race", a, b] =>
    match decStr a, decStr b with
    | some a, some b => stepRace d a b impl
    | _, _ => (d, .bad)
  | _ =>
  match parseOp fields with
  | none => (d, .bad)
  | some op =>
    let (st', w) := Model.C10.step d.st op
    let mo : Obs := ⟨w, st'.q⟩
    let (okM, rm') := holdsStep d.rm op mo
    let (okI, ri') := match parseObs impl with
      | some io => holdsStep d.ri op io
      | none => (false, (refStep d.ri op).1)
    (⟨st', rm', ri'⟩, .det (showObs mo) impl okM okI)

def handler : Handler := ⟨DSt, fun _ => ⟨⟨[], 0⟩, ⟨[], 0⟩, ⟨[], 0⟩⟩, step⟩
end XmppVerif.Drv.C10
