import XmppVerif.Drv.Core
import XmppVerif.Drv.C17
import XmppVerif.Spec.C10
namespace XmppVerif.Drv.C10
open XmppVerif.Model.C10 XmppVerif.Spec.C10 XmppVerif.Util XmppVerif.Drv

def parseOp : List String → Option Op
  | ["sendstanza", _, _, b] => (decStr b).map .sendStanza
  | ["sendnonza", _, _, b] => (decStr b).map .sendNonza
  | ["sendraw", b] => (decStr b).map .sendRaw
  | ["ack", h] => h.toNat?.map .ack
  | ["req", _, b] => (decStr b).map .req
  | ["inmsg"] => some .inbound
  | _ => none

def showObs (o : Obs) : String :=
  "w:" ++ String.intercalate ";" (o.writes.map encStr) ++ "|q:" ++ Drv.C17.showEnts o.held

def parseObs (s : String) : Option Obs :=
  match s.splitOn "|" with
  | [w, q] =>
    if w.startsWith "w:" && q.startsWith "q:" then do
      let ws := (w.drop 2).toString
      let writes ← (if ws.isEmpty then some [] else (ws.splitOn ";").mapM decStr)
      let held ← Drv.C17.parseEnts (q.drop 2).toString
      pure ⟨writes, held⟩
    else none
  | _ => none

structure DSt where
  st : St
  rm : Ref      -- reference following the model
  ri : Ref      -- reference following the implementation (same ops: identical, kept separate for clarity)

def step (d : DSt) (fields : List String) (impl : String) : DSt × Reply :=
  match parseOp fields with
  | none => (d, .bad)
  | some op =>
    let (st', w) := Model.C10.step d.st op
    let mo : Obs := ⟨w, st'.q⟩
    let (okM, rm') := holdsStep d.rm op mo
    let (okI, ri') := match parseObs impl with
      | some io => holdsStep d.ri op io
      | none => (false, (refStep d.ri op).1)
    (⟨st', rm', ri'⟩, .det (showObs mo) impl okM okI)

def handler : Handler := ⟨DSt, fun _ => ⟨⟨[], 0⟩, ⟨[], 0⟩, ⟨[], 0⟩⟩, step⟩
end XmppVerif.Drv.C10
