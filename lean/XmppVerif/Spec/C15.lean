import XmppVerif.Model.C15
/-
Reference for C15: a JID is [local@]domain[/resource]; the resource is everything after the FIRST '/'
(RFC 7622 order: cut the resource first, then look for '@' in what is left). Strings with a '/' before the first
'@' are excluded: there the library (which looks for '@' first) and the RFC legitimately differ.
-/
namespace XmppVerif.Spec.C15
open XmppVerif.Model.C15

/-- Rendering of a (local, domain, resource) triple; empty local / resource are omitted with their separator. -/
def render (l d r : List Char) : List Char :=
  (if l = [] then d else l ++ '@' :: d) ++ (if r = [] then [] else '/' :: r)

/-- Reference parser in RFC order. -/
def refParse (s : List Char) : Option Jid :=
  if s = [] then none else
  let a := splitFirst '/' s
  let head := a.1
  let res := a.2.getD []
  let b := splitFirst '@' head
  match b.2 with
  | none => if isDomainValid head then some ⟨[], head, res⟩ else none
  | some d =>
    if b.1 = [] then none
    else if isUsernameValid b.1 && isDomainValid d then some ⟨b.1, d, res⟩ else none

/-- The excluded region: there is an '@', and a '/' occurs before the first '@'. -/
def excluded (s : List Char) : Bool :=
  let b := splitFirst '@' s
  b.2.isSome && b.1.contains '/'

/-- What the harness reports for one input string. -/
inductive Obs where
  | err
  | ok (j : Jid) (full bare : List Char) (rtFull rtBare : Option Jid)
  deriving DecidableEq, Repr

/-- Oracle: judge any observation of `NewJid(s)` (+ Full/Bare + re-parsing them). -/
def holds (s : List Char) (o : Obs) : Bool :=
  if excluded s then true else
  match refParse s, o with
  | none, .err => true
  | some j, .ok j' _ _ rf rb => decide (j' = j) && decide (rf = some j) && decide (rb = some { j with resource := [] })
  | _, _ => false

end XmppVerif.Spec.C15
