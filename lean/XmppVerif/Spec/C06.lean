import XmppVerif.Model.C06
/-
Reference for C06, stated independently of how the router finds the route:
the handler that runs is that of the FIRST route all of whose matchers accept, exactly once, nothing else runs;
an IQ get/set without a matching route gets exactly one feature-not-implemented error (id kept, from/to swapped);
nothing else is ever sent. Matchers "as documented" are the propositions below.
-/
namespace XmppVerif.Spec.C06
open XmppVerif.Model.C06

/-- documented matcher semantics, as propositions -/
def MatcherSpec (m : Matcher) (p : Pkt) : Prop :=
  match m with
  | .name n => (p.kind = .message ∧ n = "message") ∨ (p.kind = .iq ∧ n = "iq") ∨ (p.kind = .presence ∧ n = "presence")
               ∨ (p.kind = .other ∧ n = "")
  | .stype ts => (p.kind = .iq ∧ p.type ∈ ts) ∨ (p.kind = .presence ∧ p.type ∈ ts) ∨
                 (p.kind = .message ∧ p.type ≠ "" ∧ p.type ∈ ts) ∨ (p.kind = .message ∧ p.type = "" ∧ "normal" ∈ ts)
  | .iqns ns => p.kind = .iq ∧ ∃ n, p.payloadNs = some n ∧ n ∈ ns

def RouteSpec (r : Route) (p : Pkt) : Prop := ∀ m ∈ r, MatcherSpec m p

def isRequest (p : Pkt) : Bool := p.kind == .iq && (p.type == "get" || p.type == "set")

/-- decidable oracle on any observation -/
def holds (routes : List Route) (p : Pkt) (o : Out) : Bool :=
  (match o.handled with
   | [] => routes.all (fun r => !r.accepts p)
   | [i] => (match routes[i]? with
             | some r => r.accepts p && (routes.take i).all (fun r => !r.accepts p)
             | none => false)
   | _ => false) &&
  (if o.handled.isEmpty && isRequest p then o.replies == [notImplemented p] else o.replies.isEmpty)

end XmppVerif.Spec.C06
