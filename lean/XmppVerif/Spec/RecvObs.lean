import XmppVerif.Spec.Recv
/-
The observation the harness reports for one receive-loop run, its derivation from the model's action log, and the
decidable oracles of C05, C09 and C12 on such an observation.
-/
namespace XmppVerif.Spec.RecvObs
open XmppVerif.Model.Recv XmppVerif.Spec.Recv

structure Summary where
  routed  : List Pkt             -- everything handed to the router (client: any order, component: in order)
  answers : List Nat             -- h of every <a/> written, in order
  errh    : Nat                  -- ErrorHandler invocations
  disc    : List (String × Nat)  -- Disconnected events (SM id, inbound count)
  serrEv  : Nat                  -- StreamError events
  quit    : Bool                 -- keepaliveQuit closed (client only; component: false)
  closes  : Nat                  -- transport.Close calls
  sclose  : Nat                  -- transport.ReceivedStreamClose calls
  panic   : Bool
  deriving DecidableEq, Repr

def count (p : Act → Bool) (acts : List Act) : Nat := (acts.filter p).length

def summarise (acts : List Act) : Summary :=
  { routed := routedAll acts
    answers := answers acts
    errh := errhCount acts
    disc := discEvents acts
    serrEv := count (fun | .streamErrorEv => true | _ => false) acts
    quit := acts.any (fun | .quitClosed => true | _ => false)
    closes := count (fun | .disconnect => true | _ => false) acts
    sclose := count (fun | .streamClose => true | _ => false) acts
    panic := false }

/-- a run: who, the initial SM state, the history -/
structure Case where
  client : Bool
  smId   : String
  n0     : Nat
  ins    : List In

def modelSummary (c : Case) : Summary :=
  if c.client then summarise (clientRecv ⟨c.smId, c.n0⟩ c.ins).2
  else summarise (componentRecv c.ins)

def expectedStanzas (c : Case) : List Pkt :=
  (if c.client then processed c.ins else processedC c.ins).filterMap stanzaOf

/-- client: routed concurrently, so compared as a multiset; component: in arrival order -/
def sameRouted (c : Case) (got want : List Pkt) : Bool :=
  if c.client then got.isPerm want else decide (got = want)

/-- C05: every stanza before the stop reaches the router exactly once (client: as a multiset, component: in order),
every `<r/>` whose answer could be written is answered, nothing panics. -/
def holdsC05 (c : Case) (o : Summary) : Bool :=
  sameRouted c (o.routed.filter (·.isStanza)) (expectedStanzas c) &&
  (!c.client || decide (o.answers.length = reqCount (processed c.ins))) &&
  !o.panic

/-- C09: every reported h equals the number of stanzas received before that request (plus the count the session
started with); the count carried by the Disconnected event is the same count. -/
def holdsC09 (c : Case) (o : Summary) : Bool :=
  decide (o.answers = refAnswers c.n0 (processed c.ins)) &&
  o.disc.all (fun d => d.2 == c.n0 + stanzaCount (processed c.ins)) && !o.panic

/-- C12: unless the server closed the stream gracefully, the loss is reported exactly once (one Disconnected event
with the current SM state, one error callback besides those for stream errors), the keepalive quit channel is
closed, every stanza completely received before is routed, nothing panics. -/
def holdsC12 (c : Case) (o : Summary) : Bool :=
  sameRouted c (o.routed.filter (·.isStanza)) (expectedStanzas c) && o.quit && !o.panic &&
  (isClose (stopper c.ins) ||
    (decide (o.disc = [(c.smId, c.n0 + stanzaCount (processed c.ins))]) &&
     decide (o.errh = serrCount (processed c.ins) + 1)))

/-- The `<resume/>` request the client writes on the connection that follows the run (the server offers stream
management): `none` when it does not ask to resume. The model: the session keeps its stream-management state. -/
def modelResume (c : Case) : Option (String × Nat) :=
  let s := (clientRecv ⟨c.smId, c.n0⟩ c.ins).1
  if s.smId == "" then none else some (s.smId, s.inbound)

/-- C09, second half: "... and in a resumption request": the request carries the session's id and the number of
stanzas received so far (the count the session started with plus the stanzas of this history). -/
def holdsResume (c : Case) (r : Option (String × Nat)) : Bool :=
  if c.smId == "" then r.isNone
  else r == some (c.smId, c.n0 + stanzaCount (processed c.ins))

end XmppVerif.Spec.RecvObs
