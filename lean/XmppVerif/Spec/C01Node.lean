import XmppVerif.Model.C01Node
/-
Reference for generic `stanza.Node` trees. An observation is everything the harness reports about one value:
the serialization, the value parsed back from it, the serialization of that value, the element skeleton of the
output as seen by a decoder. The oracle demands, for every tree inside the property's quantifier (`Tree.inQ`):
parsed value = original, second serialization byte-identical, skeleton = the skeleton of the value's structure.
-/
namespace XmppVerif.Spec.C01
open XmppVerif.Model.C01

structure NodeObs where
  xml   : Str
  back  : Option Tree
  xml2  : Option Str
  shape : Option (List Str)

def optBeq (t : Tree) : Option Tree → Bool
  | some b => Tree.beq b t
  | none => false

def holdsNode (t : Tree) (o : NodeObs) : Bool :=
  if !t.inQ then true
  else optBeq t o.back && decide (o.xml2 = some o.xml) && decide (o.shape = some (shape (encNode t)))

/-- the model's own observation: Node.MarshalXML, print, tokenize under `ctx`, DecodeElement, Node.UnmarshalXML, again -/
def modelNodeObs (ctx : Str) (t : Tree) : NodeObs :=
  let back := (unmarshalNode (marshalNode ctx t)).map (·.1)
  { xml := nodeBytes t, back := back, xml2 := back.map nodeBytes,
    shape := some (shape (view ctx (encNode t))) }

end XmppVerif.Spec.C01
