import XmppVerif.Model.C01Stanza
import XmppVerif.Spec.C01Node
/-
Reference for the stanza envelopes and nonzas: the same oracle as for Node trees, per type. An observation is
(serialization, value parsed back, its serialization, element skeleton of the output). Inside the property's
quantifier the oracle demands: parsed value = original (IQ: up to "pointer to an all-empty Err = no error", which has
no wire form), second serialization byte-identical, skeleton = skeleton of the value's structure.
Outside the quantifier (strings with non-XML characters, numbers out of range, raw inner XML that is markup) it is silent.
-/
namespace XmppVerif.Spec.C01
open XmppVerif.Model.C01

structure Obs (α : Type) where
  xml   : Str
  back  : Option α
  xml2  : Option Str
  shape : Option (List Str)

def holdsGen {α : Type} [DecidableEq α] (inQ : Bool) (v : α) (e : El) (o : Obs α) : Bool :=
  if !inQ then true
  else decide (o.back = some v) && decide (o.xml2 = some o.xml) && decide (o.shape = some (shape e))

/-- the model's observation for a type given by its encoder / decoder -/
def modelObs {α : Type} (ctx : Str) (enc : α → El) (dec : El → Option α) (v : α) : Obs α :=
  let back := (parseElem (toks (view ctx (enc v)))).bind fun p => dec p.1
  { xml := render (enc v), back := back, xml2 := back.map fun b => render (enc b),
    shape := some (shape (view ctx (enc v))) }

/-! quantifier per type: every string XML-legal, numbers in the range of their Go type -/
def errInQ (e : Err) : Bool := intFits 64 e.code && legal e.typ && legal e.reason && legal e.text
def msgInQ (m : Message) : Bool := m.attrs.wf && legal m.subject && legal m.body && legal m.thread && errInQ m.error
def presInQ (p : Presence) : Bool :=
  p.attrs.wf && legal p.show_ && legal p.status && intFits 8 p.priority && errInQ p.error

def holdsFlat (s : Schema) (v : FlatVal) (o : Obs FlatVal) : Bool := holdsGen (v.wf s) v (encFlat s v) o
def holdsSMFailed (v : SMFailed) (o : Obs SMFailed) : Bool := holdsGen v.wf v (encSMFailed v) o
def holdsMessage (m : Message) (o : Obs Message) : Bool := holdsGen (msgInQ m) m (encMessage m) o
def holdsPresence (p : Presence) (o : Obs Presence) : Bool := holdsGen (presInQ p) p (encPresence p) o

/-- a bare <error/> value: the empty value has no serialization at all -/
def errEl (e : Err) : El := errElem e
def holdsErr (e : Err) (o : Obs Err) : Bool :=
  if e.isEmpty then o.xml.isEmpty else holdsGen (errInQ e) e (errEl e) o

/-! IQ carries a Tree: boolean equality, and the canonical form -/
def iqCanon (q : IQ) : IQ :=
  { q with error := match q.error with
      | some e => if e.isEmpty then none else some e
      | none => none }

def optTreeBeq : Option Tree → Option Tree → Bool
  | some a, some b => Tree.beq a b
  | none, none => true
  | _, _ => false

def iqBeq (a b : IQ) : Bool := decide (a.attrs = b.attrs) && decide (a.error = b.error) && optTreeBeq a.any b.any

def iqInQ (q : IQ) : Bool :=
  q.attrs.wf && (match q.error with | some e => errInQ e | none => true) &&
  (match q.any with | some t => t.inQ | none => true)

def holdsIQ (q : IQ) (o : Obs IQ) : Bool :=
  if !iqInQ q then true
  else (match o.back with | some b => iqBeq (iqCanon b) (iqCanon q) | none => false) &&
    decide (o.xml2 = some o.xml) && decide (o.shape = some (shape (encIQ q)))

end XmppVerif.Spec.C01
