import XmppVerif.Model.C16
/-
Reference for C16 and the decidable oracle. The oracle judges ANY observation of a connection attempt (the text the
server received inside <handshake>, the error class, the announced states, the number of routed stanzas) against the
property as written; it does not call `resume`.
-/
namespace XmppVerif.Spec.C16
open XmppVerif.Model.C16

def unqualifiedId (a : Attr) : Bool := a.space == "" && a.loc == "id"

/-- the server-assigned stream id: the value of the unqualified `id` attribute of the stream header (well-formed
XML has at most one; namespaced attributes such as `xml:id` are not the stream id) -/
def specId (attrs : List Attr) : List UInt8 :=
  match (attrs.filter unqualifiedId).getLast? with
  | some a => a.value
  | none => []

structure Case where
  conn    : Connect
  secret  : List UInt8
  writeOk : Bool
  reply   : Reply
  /-- stanzas the server sends after its reply -/
  posts   : Nat
  deriving Repr

structure Obs where
  digest : Option (List Char)   -- what the server read inside <handshake>
  err    : Option Bool          -- none: Connect returned nil; some p: an error, p = permanent ConnError
  states : List Nat             -- ConnState codes announced to the handler
  routed : Nat                  -- stanzas that reached the catch-all route
  deriving DecidableEq, Repr

def established : Nat := 2

def holds (c : Case) (o : Obs) : Bool :=
  -- the digest is lower-case hex SHA-1 of (stream id ++ secret), over the unescaped id
  (match c.conn, o.digest with
   | _, none => true
   | .opened attrs, some d => d == hexLower (sha1 (specId attrs ++ c.secret))
   | _, some _ => false) &&
  -- established / nil / routing only after a handshake reply to a digest that was sent
  (!(o.states.contains established || o.err.isNone || decide (0 < o.routed)) ||
    (c.reply == .handshake && o.digest.isSome)) &&
  -- never more stanzas routed than the server sent
  decide (o.routed ≤ c.posts)

/-- the model's observation of a case -/
def modelObs (c : Case) : Obs :=
  let r := resume c.conn c.secret c.writeOk c.reply
  ⟨r.sentDigest, r.err, r.states.map ConnState.code, if r.recvStarted then c.posts else 0⟩

/-- A further connection attempt of a component whose previous session was closed gracefully by the server (the
state is still "established" when `Resume` starts): what the harness reports is the error class of `Resume` and the
component's state afterwards. "any other reply yields an error and a non-established state". -/
def holdsReconnect (reply : Reply) (err : Option Bool) (stateAfter : Nat) : Bool :=
  reply == .handshake || (err.isSome && stateAfter != established)

/-- the model's prediction: the state after `Resume` is the last one it announced -/
def modelReconnect (reply : Reply) : Option Bool × Nat :=
  let r := resume (.opened []) [] true reply
  (r.err, (r.states.getLast?.map ConnState.code).getD established)

/-- Several lives of ONE component value (C16 quantifies over all server replies; nothing in it depends on what an
earlier connection of the same component ended with): per life the harness reports the error class, the state
afterwards and how many times the event handler was told "session established" during that life. A handshake reply
yields nil, the established state and its announcement; any other reply an error, a non-established state and no
announcement - whatever the earlier lives were. -/
def holdsLife (reply : Reply) (err : Option Bool) (stateAfter : Nat) (announced : Nat) : Bool :=
  if reply == .handshake then err.isNone && stateAfter == established && decide (0 < announced)
  else err.isSome && stateAfter != established && announced == 0

def holdsLives (rs : List Reply) (obs : List (Option Bool × Nat × Nat)) : Bool :=
  rs.length == obs.length && (rs.zip obs).all fun (r, e, a, n) => holdsLife r e a n

/-- the model: every life is `resume` on a fresh connection; the state afterwards is the last one it announced -/
def modelLife (reply : Reply) : Option Bool × Nat × Nat :=
  let r := resume (.opened []) [] true reply
  (r.err, (r.states.getLast?.map ConnState.code).getD established,
    (r.states.filter (· == .sessionEstablished)).length)

def modelLives (rs : List Reply) : List (Option Bool × Nat × Nat) := rs.map modelLife

end XmppVerif.Spec.C16
