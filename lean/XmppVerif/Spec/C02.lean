import XmppVerif.Model.C02
/-
C02 reference: what the property says a stream of top-level items must yield, read off the TREES (no tokens, no
decoders): one packet per top-level element whose name is in the dispatch table, of that kind, with the addressing
attributes of that element; an error at the first element of an unknown namespace or name; the stream's closing tag
is a packet; inter-stanza text and comments yield nothing. A reader sees the packets in order up to the first error
(the end of the input is an error too: "connection closed").
-/
namespace XmppVerif.Spec.C02
open XmppVerif.Model.C02

def directText : List Tree → String
  | [] => ""
  | .text s :: ks => s ++ directText ks
  | _ :: ks => directText ks

def kidInfos : List Tree → List (Name × String)
  | [] => []
  | .elem n _ kk :: ks => (n, directText kk) :: kidInfos ks
  | _ :: ks => kidInfos ks

/-- what the element itself contains at its first level (no descendant below a child contributes) -/
def infoOf (ks : List Tree) : Info := ⟨directText ks, kidInfos ks⟩

def classify : Tree → List PRes
  | .elem n as ks =>
      match dispatch n with
      | some k => [.pkt (mkPacket k as (infoOf ks))]
      | none => [.err .unknown]
  | _ => []

def classifyItem : Item → List PRes
  | .tree t => classify t
  | .close => [.pkt closePacket]

def expected (is : List Item) : List PRes := is.flatMap classifyItem

/-- observation at the API: a packet, or an error (Go error texts are not compared) -/
inductive Obs where
  | pkt (p : Packet)
  | err
  deriving DecidableEq, Repr

def obsOf : PRes → Obs
  | .pkt p => .pkt p
  | .err _ => .err

/-- packets up to the first error, then one error -/
def cutAtErr : List PRes → List Obs
  | [] => [.err]
  | .pkt p :: r => .pkt p :: cutAtErr r
  | .err _ :: _ => [.err]

/-- the oracle: the reader saw exactly the expected packets, in order, ending with the first error -/
def holds (is : List Item) (obs : List Obs) : Bool := obs == cutAtErr (expected is)

/-! ### the region of the theorems: values the Go field types accept (as-is behaviour outside it: an error, F-02b) -/

mutual
/-- `dec` = the decoder of the PARENT: the child is handed to a decoder (not rejected for its namespace), everything
below it is fine for that decoder, and its own value converts -/
def treeOk (dec : Dec) : Tree → Bool
  | .elem n _ kk =>
      match armFix dec n with
      | .call c => kidsOk c kk && valueOk dec n (infoOf kk)
      | _ => false
  | _ => true
def kidsOk (dec : Dec) : List Tree → Bool
  | [] => true
  | t :: ts => treeOk dec t && kidsOk dec ts
end

/-- a top-level element of the dispatch table converts (vacuous for other items) -/
def itemTyped : Item → Bool
  | .tree (.elem n as kk) =>
      match dispatch n with
      | some k => kidsOk (kindDec k) kk && topAttrsOk k as
      | none => true
  | _ => true

def typedOk (is : List Item) : Bool := is.all itemTyped

/-- the model's observation of a stream: `packets` with the error classes collapsed -/
def modelObs (is : List Item) : List Obs := (packets (itemsToks is)).map obsOf

/-- region of the known finding F-02b: the as-is model stops with a value-rejection error -/
def stopsOnValue (is : List Item) : Bool := (packets (itemsToks is)).getLast? == some (.err .value)

/-- every top-level element is in the dispatch table (the first hypothesis of `C02_one_per_element`) -/
def dispatchable : List Item → Bool
  | [] => true
  | .tree (.elem n _ _) :: r => (dispatch n).isSome && dispatchable r
  | _ :: r => dispatchable r

end XmppVerif.Spec.C02
