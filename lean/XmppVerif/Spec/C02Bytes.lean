import XmppVerif.Model.C02Bytes
import XmppVerif.Spec.C02
/-
C02, stage B: what a peer WRITES. A source tree fixes the spelling of a stream down to the character: prefixes and
declarations as written, the quote of each attribute, the white space inside tags, and for every character of text or
of an attribute value whether it is written raw, as one of the five predefined entities, or as a decimal / hexadecimal
character reference (with any digits, e.g. leading zeros). `render` gives the characters, `resolve` the token-level tree
(Model.C02.Tree) the packet model quantifies over: names resolved against the declarations in scope.
`STree.ok` (decidable) says the spelling is one the model covers; it is the hypothesis of the round-trip theorem.
-/
namespace XmppVerif.Spec.C02Bytes
open XmppVerif.Model.C02 XmppVerif.Model.C02Bytes

/-! ### characters of text -/

inductive Ent where
  | lt | gt | amp | apos | quot
  deriving DecidableEq, Repr

def Ent.char : Ent → Char
  | .lt => '<' | .gt => '>' | .amp => '&' | .apos => '\'' | .quot => '"'

def Ent.name : Ent → List Char
  | .lt => ['l', 't'] | .gt => ['g', 't'] | .amp => ['a', 'm', 'p'] | .apos => ['a', 'p', 'o', 's']
  | .quot => ['q', 'u', 'o', 't']

inductive Piece where
  | raw (c : Char)
  | named (e : Ent)
  | num (hex : Bool) (ds : List Char)      -- `&#ds;` / `&#xds;`
  deriving DecidableEq, Repr

def base (hex : Bool) : Nat := if hex then 16 else 10

/-- the value of a digit string, continuing from `n` -/
def numFrom (hex : Bool) : Nat → List Char → Nat
  | n, [] => n
  | n, c :: r => numFrom hex (n * base hex + (digitVal hex c).getD 0) r

def Piece.char : Piece → Char
  | .raw c => c
  | .named e => e.char
  | .num hex ds => runeOf (numFrom hex 0 ds)

def Piece.render : Piece → List Char
  | .raw c => [c]
  | .named e => '&' :: (e.name ++ [';'])
  | .num hex ds => '&' :: '#' :: ((if hex then ['x'] else []) ++ (ds ++ [';']))

def renderPieces : List Piece → List Char
  | [] => []
  | p :: ps => p.render ++ renderPieces ps

def chars (ps : List Piece) : List Char := ps.map Piece.char

/-- a character that may stand raw: an XML character other than `<`, `&`, CR (which the tokenizer would rewrite) and
the closing quote `q` of the attribute value it is in -/
def rawOk (q : Option Char) (c : Char) : Bool :=
  isXmlChar c && c != '<' && c != '&' && c != '\r' && q != some c

def Piece.ok (q : Option Char) : Piece → Bool
  | .raw c => rawOk q c
  | .named _ => true
  | .num hex ds =>
      !ds.isEmpty && ds.all (fun c => (digitVal hex c).isSome) && numFrom hex 0 ds < 0x10FF00
        && isXmlChar (runeOf (numFrom hex 0 ds))

/-- every piece is fine and the raw characters never spell `]]>` (`p0 p1` = the two raw characters before) -/
def piecesOk (q : Option Char) : Char → Char → List Piece → Bool
  | _, _, [] => true
  | p0, p1, .raw c :: ps => rawOk q c && !(p0 = ']' && p1 = ']' && c = '>') && piecesOk q p1 c ps
  | _, _, p :: ps => p.ok q && piecesOk q nul nul ps

/-! ### names, white space -/

def isNcByte (c : Char) : Bool := isNameByte c && c != ':'
def isNcStart (c : Char) : Bool := isNameStart c && c != ':'

/-- an ASCII NCName -/
def ncOk : List Char → Bool
  | [] => false
  | c :: r => isNcStart c && r.all isNcByte

def qnameOk (q : QName) : Bool := (q.pfx.isEmpty || ncOk q.pfx) && ncOk q.loc

def renderQ (q : QName) : List Char := if q.pfx.isEmpty then q.loc else q.pfx ++ ':' :: q.loc

def wsOk (w : List Char) : Bool := w.all isSpace

/-! ### source trees -/

structure SAttr where
  pre : List Char          -- white space before the attribute
  name : QName
  eq1 : List Char          -- white space before `=`
  eq2 : List Char          -- white space after `=`
  dq : Bool                -- written in double quotes
  val : List Piece
  deriving Repr

def SAttr.quote (a : SAttr) : Char := if a.dq then '"' else '\''

def SAttr.ok (a : SAttr) : Bool :=
  !a.pre.isEmpty && wsOk a.pre && qnameOk a.name && wsOk a.eq1 && wsOk a.eq2 && piecesOk (some a.quote) nul nul a.val

def SAttr.render (a : SAttr) : List Char :=
  a.pre ++ (renderQ a.name ++ (a.eq1 ++ '=' :: (a.eq2 ++ a.quote :: (renderPieces a.val ++ [a.quote]))))

def SAttr.raw (a : SAttr) : RawAttr := ⟨a.name, chars a.val⟩

def renderAttrs : List SAttr → List Char
  | [] => []
  | a :: as => a.render ++ renderAttrs as

inductive STree where
  | elem (q : QName) (as : List SAttr) (tail : List Char) (kids : List STree) (etail : List Char)
        -- `<q as tail> kids </q etail>`
  | empty (q : QName) (as : List SAttr) (tail : List Char)       -- `<q as tail/>`
  | text (ps : List Piece)
  | cdata (s : List Char)
  | comment (s : List Char)
  | pi (target sep data : List Char)
  deriving Repr

def STree.isText : STree → Bool
  | .text _ => true
  | _ => false

/-- CDATA content: XML characters, no CR, never `]]>` -/
def cdataOk : Char → Char → List Char → Bool
  | _, _, [] => true
  | p0, p1, c :: r => isXmlChar c && c != '\r' && !(p0 = ']' && p1 = ']' && c = '>') && cdataOk p1 c r

/-- comment content: no `--`, no `-` at the end (`k` = dashes immediately before) -/
def commentOk : Nat → List Char → Bool
  | k, [] => k = 0
  | k, c :: r => if c = '-' then k = 0 && commentOk 1 r else commentOk 0 r

/-- PI data: never `?>` (`qm` = the previous character was `?`) -/
def piDataOk : Bool → List Char → Bool
  | _, [] => true
  | qm, c :: r => !(qm && c = '>') && piDataOk (c = '?') r

def piOk (target sep data : List Char) : Bool :=
  ncOk target && target != ['x', 'm', 'l'] && wsOk sep
    && (match data with
        | [] => true
        | c :: _ => !sep.isEmpty && !isSpace c)
    && piDataOk false data

mutual
def STree.ok : STree → Bool
  | .elem q as tail kids etail => qnameOk q && as.all SAttr.ok && wsOk tail && wsOk etail && okL kids
  | .empty q as tail => qnameOk q && as.all SAttr.ok && wsOk tail
  | .text ps => !ps.isEmpty && piecesOk none nul nul ps
  | .cdata s => cdataOk nul nul s
  | .comment s => commentOk 0 s
  | .pi t sep d => piOk t sep d
/-- a forest: every tree fine, and no two pieces of plain character data next to each other (the tokenizer would
deliver them as ONE token) -/
def okL : List STree → Bool
  | [] => true
  | [t] => t.ok
  | t :: u :: r => t.ok && !(t.isText && u.isText) && okL (u :: r)
end

mutual
def render : STree → List Char
  | .elem q as tail kids etail =>
      '<' :: (renderQ q ++ (renderAttrs as ++ (tail ++ '>' :: (renderL kids ++ '<' :: '/' :: (renderQ q ++ (etail ++ ['>']))))))
  | .empty q as tail => '<' :: (renderQ q ++ (renderAttrs as ++ (tail ++ ['/', '>'])))
  | .text ps => renderPieces ps
  | .cdata s => ['<', '!', '[', 'C', 'D', 'A', 'T', 'A', '['] ++ (s ++ [']', ']', '>'])
  | .comment s => ['<', '!', '-', '-'] ++ (s ++ ['-', '-', '>'])
  | .pi t sep d => '<' :: '?' :: (t ++ (sep ++ (d ++ ['?', '>'])))
def renderL : List STree → List Char
  | [] => []
  | t :: ts => render t ++ renderL ts
end

/-! ### what the decoder must deliver -/

def envOf (env : Env) (as : List SAttr) : Env := addDecls env (as.map SAttr.raw)

def startTok (env : Env) (q : QName) (as : List SAttr) : BTok :=
  .start (mkName (translate (envOf env as) true q)) ((as.map SAttr.raw).map (mkAttr (envOf env as)))

def stopTok (env : Env) (q : QName) (as : List SAttr) : BTok :=
  .stop (mkName (translate (envOf env as) true q))

mutual
/-- the tokens of a source tree read under the bindings `env` -/
def btoks (env : Env) : STree → List BTok
  | .elem q as _ kids _ => startTok env q as :: (btoksL (envOf env as) kids ++ [stopTok env q as])
  | .empty q as _ => [startTok env q as, stopTok env q as]
  | .text ps => [.text (String.ofList (chars ps))]
  | .cdata s => [.text (String.ofList s)]
  | .comment s => [.comment (String.ofList s)]
  | .pi t _ d => [.pi (String.ofList t) (String.ofList d)]
def btoksL (env : Env) : List STree → List BTok
  | [] => []
  | t :: ts => btoks env t ++ btoksL env ts
end

mutual
/-- the token-level tree (Model.C02.Tree): names and attribute names resolved against the declarations in scope -/
def resolve (env : Env) : STree → Tree
  | .elem q as _ kids _ =>
      .elem (mkName (translate (envOf env as) true q)) ((as.map SAttr.raw).map (mkAttr (envOf env as)))
        (resolveL (envOf env as) kids)
  | .empty q as _ =>
      .elem (mkName (translate (envOf env as) true q)) ((as.map SAttr.raw).map (mkAttr (envOf env as))) []
  | .text ps => .text (String.ofList (chars ps))
  | .cdata s => .text (String.ofList s)
  | .comment _ => .misc
  | .pi _ _ _ => .misc
def resolveL (env : Env) : List STree → List Tree
  | [] => []
  | t :: ts => resolve env t :: resolveL env ts
end

def eraseL (ts : List BTok) : List Tok := ts.map BTok.erase

/-- what follows starts a markup construct (so that character data before it is complete) -/
def StartsLt (x : List Char) : Prop := ∃ r, x = '<' :: r

/-- the forest ends with plain character data (which only a following `<` completes) -/
def lastIsText : List STree → Bool
  | [] => false
  | [t] => t.isText
  | _ :: u :: r => lastIsText (u :: r)

/-- the opening tag of an element that stays open (the stream header): `<q as tail>` -/
def renderOpen (q : QName) (as : List SAttr) (tail : List Char) : List Char :=
  '<' :: (renderQ q ++ (renderAttrs as ++ (tail ++ ['>'])))

def renderClose (q : QName) : List Char := '<' :: '/' :: (renderQ q ++ ['>'])

def xmlDecl : List Char :=
  ['<', '?', 'x', 'm', 'l', ' ', 'v', 'e', 'r', 's', 'i', 'o', 'n', '=', '\'', '1', '.', '0', '\'', '?', '>']

/-! ### a canonical spelling for token-level trees (coverage of the class the packet model quantifies over) -/

/-- canonical escaping: the six characters that are (or may be) special as entities, CR as `&#xD;`, the rest raw -/
def escChar (c : Char) : Piece :=
  if c = '<' then .named .lt else if c = '>' then .named .gt else if c = '&' then .named .amp
  else if c = '"' then .named .quot else if c = '\'' then .named .apos
  else if c = '\r' then .num true ['D'] else .raw c

def esc (s : List Char) : List Piece := s.map escChar

/-- an attribute of a token: unprefixed (this includes the default-namespace declaration `xmlns`) or a prefix
declaration `xmlns:p`; NCName, value of XML characters -/
def unAttr (a : Attr) : Option SAttr :=
  if ncOk a.name.loc.toList && a.value.toList.all isXmlChar then
    (if a.name.space = "" then some ⟨[' '], ⟨[], a.name.loc.toList⟩, [], [], true, esc a.value.toList⟩
     else if a.name.space = "xmlns" then some ⟨[' '], ⟨xmlnsL, a.name.loc.toList⟩, [], [], true, esc a.value.toList⟩
     else none)
  else none

def unAttrs : List Attr → Option (List SAttr)
  | [] => some []
  | a :: as =>
    match unAttr a, unAttrs as with
    | some x, some xs => some (x :: xs)
    | _, _ => none

def treeIsText : Tree → Bool
  | .text _ => true
  | _ => false

mutual
/-- a source spelling of a token-level tree under the bindings `env`, if it has a canonical one: every element
unprefixed (its namespace is the default namespace in force after its own declarations) or, failing that, written
with its namespace as an undeclared prefix (`<u:x>` is how a token named (u, x) arises without a declaration),
canonical escaping, comments for `misc`; `none` for trees outside that class (elements in a namespace that is neither,
attributes other than unprefixed ones and `xmlns:p` declarations, non-NCName names, strings with non-XML characters,
empty or adjacent character data) -/
def unTree (env : Env) : Tree → Option STree
  | .elem n as kids =>
    match unAttrs as with
    | none => none
    | some sas =>
      -- written unprefixed if its namespace is the default one in force, else with its namespace as an (undeclared) prefix
      match [(⟨[], n.loc.toList⟩ : QName), ⟨n.space.toList, n.loc.toList⟩].find?
          (fun c => qnameOk c && mkName (translate (envOf env sas) true c) = n) with
      | none => none
      | some c =>
        match unTreeL (envOf env sas) kids with
        | some ks => some (.elem c sas [] ks [])
        | none => none
  | .text s => if !s.toList.isEmpty && s.toList.all isXmlChar then some (.text (esc s.toList)) else none
  | .misc => some (.comment [])
def unTreeL (env : Env) : List Tree → Option (List STree)
  | [] => some []
  | [t] => (unTree env t).map fun x => [x]
  | t :: u :: r =>
    if treeIsText t && treeIsText u then none
    else match unTree env t, unTreeL env (u :: r) with
      | some x, some xs => some (x :: xs)
      | _, _ => none
end

end XmppVerif.Spec.C02Bytes
