import XmppVerif.Model.C01Esc
/-
Reference for the character level of C01. The oracle judges ANY byte string claimed to be the escaped form of `s`:
it must be free of the four markup characters, every `&` must start one of the eight references, and decoding
the references must give back `s` (with non-XML characters replaced by U+FFFD, which is what "XML-legal"
excludes from the property's quantifier).
-/
namespace XmppVerif.Spec.C01
open XmppVerif.Model.C01

/-- oracle for `escape` / `body` observations -/
def holdsEscape (s out : List Char) : Bool :=
  out.all (fun c => !isMeta c) && ampsOk out && decide (unescape out = sanitize s)

/-- oracle for a text field read back by the decoder: exact for XML-legal strings, silent otherwise -/
def holdsTextBack (s back : List Char) : Bool :=
  if legal s then decide (back = s) else true

end XmppVerif.Spec.C01
