import XmppVerif.Model.C01SchemaTypes
/-
Reference for the schema-coded types: the same oracle as for the envelopes. An observation is (serialization, value
parsed back by Decoder.DecodeElement, its serialization, element skeleton of the output, outcome of the
stream -> NextPacket route for a registered type). Inside the class (`Schema.wf`, `Val.fits`) the oracle demands: parsed
value = original, second serialization byte-identical, skeleton = skeleton of what the value's structure encodes to,
NextPacket route equal to the DecodeElement route ("same"; "-" for a type that is not registered on its own).
-/
namespace XmppVerif.Spec.C01S
open XmppVerif.Model.C01 XmppVerif.Model.C01S

structure ObsS where
  xml   : Str
  back  : Option Val
  xml2  : Option Str
  shape : Option (List Str)
  np    : String

def holdsS (s : Ty) (v : Val) (o : ObsS) : Bool :=
  if !(Ty.wf s && v.fits s) then true
  else (match o.back with | some b => Val.beq b v | none => false) && decide (o.xml2 = some o.xml) &&
    decide (o.shape = some (shapeL (encS s v))) && (o.np == "same" || o.np == "-")

/-- the model's own observation -/
def modelObsS (ctx : Str) (s : Ty) (v : Val) (np : String) : ObsS :=
  let back := (unmarshalS s (marshalS ctx s v)).map (·.1)
  { xml := bytesS s v, back := back, xml2 := back.map (bytesS s), shape := some (shapeL (viewSL ctx (encS s v))), np := np }

end XmppVerif.Spec.C01S
