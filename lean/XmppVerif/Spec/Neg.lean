import XmppVerif.Model.Neg
/-
Reference statements for C03 / C04 / C11, independent of how `negotiate` walks through the steps.
-/
namespace XmppVerif.Spec.Neg
open XmppVerif.Model.Neg

def tlsNegotiated (f1 : Features) (sc : Script) : Bool :=
  f1.starttls && sc.tlsReply == .proceed && sc.tlsOk

def isEnabled : EnR → Bool
  | .enabled _ => true
  | _ => false

/-- the stream-management id the client holds when the connection starts -/
def heldId (s0 : Sess) : String := if s0.present then s0.smId else ""
def heldSmReq (s0 : Sess) : Bool := s0.smReq

/-- **C03 reference**: the server completed every mandatory step, in order:
stream open; TLS whenever it is offered (it may be missing only in insecure mode); stream restart after TLS;
a usable mechanism and SASL success; stream restart; then either a matching resumption, or (no resumption possible,
or resumption refused with `<failed/>`) a bind result, the legacy session when mandatory, and stream-management
enabling when requested and advertised. -/
def completes (cfg : Cfg) (s0 : Sess) (sc : Script) : Bool :=
  sc.conn == .ok &&
  (match sc.feat1 with
   | none => false
   | some f1 =>
     let tls := tlsNegotiated f1 sc
     (if f1.starttls then tls else cfg.insecure) &&
     (match (if tls then (if sc.open2 then sc.feat2 else none) else some f1) with
      | none => false
      | some fa => fa.mech && sc.authReply == .success) &&
     sc.open3 &&
     (match sc.feat3 with
      | none => false
      | some f3 =>
        let canResume := f3.sm && heldId s0 != ""
        (canResume && sc.resumeReply == .resumedSame) ||
        ((!canResume || sc.resumeReply == .failed) && sc.bindReply == .resultBind &&
         (!f3.sessionMandatory || sc.sessReply == .result) &&
         (!(f3.sm && heldSmReq s0) || isEnabled sc.enableReply))))

/-- RFC 6120 order of the client's own writes, as an automaton over the kinds (every prefix is allowed:
a negotiation may stop anywhere). -/
def orderStep : Nat → WKind → Option Nat
  | 0, .open_ => some 1
  | 1, .starttls => some 2
  | 1, .auth => some 4
  | 2, .open_ => some 3
  | 3, .auth => some 4
  | 4, .open_ => some 5
  | 5, .resume _ _ => some 6
  | 5, .bind => some 7
  | 6, .bind => some 7
  | 7, .session => some 8
  | 7, .enable => some 9
  | 8, .enable => some 9
  | _, _ => none

/-- state reached by the automaton, `none` when a write is out of order -/
def orderRun : Nat → List WKind → Option Nat
  | q, [] => some q
  | q, k :: ks => match orderStep q k with
    | some q' => orderRun q' ks
    | none => none

def orderOk (ks : List WKind) : Bool := (orderRun 0 ks).isSome

/-- kinds that carry credentials or session data: everything except the stream header and `<starttls/>` -/
def sensitive : WKind → Bool
  | .open_ | .starttls => false
  | _ => true

/-- **C04 gate** on an observed write list -/
def gateOk (cfg : Cfg) (ws : List Write) : Bool :=
  cfg.insecure || ws.all (fun w => !sensitive w.kind || w.secure)

/-- **C14 at session level**: "anything other than `<success/>` is never treated as authenticated" - when the
reply to `<auth/>` is not success, the connection is not established and the client writes nothing after its
`<auth/>` (no stream restart, no bind on the unauthenticated stream). -/
def authGateOk (sc : Script) (established : Bool) (ws : List Write) : Bool :=
  let afterAuth := (ws.dropWhile (fun w => w.kind != .auth)).drop 1
  sc.authReply == .success || !(ws.any (fun w => w.kind == .auth)) || (!established && afterAuth.isEmpty)

/-- the features in force when the client authenticates: those of the stream restarted after TLS when TLS was
negotiated, else the first ones -/
def featuresAtAuth (sc : Script) : Option Features :=
  match sc.feat1 with
  | none => none
  | some f1 => if tlsNegotiated f1 sc then (if sc.open2 then sc.feat2 else none) else some f1

/-- "names a mechanism that the server advertised ... if there is no common mechanism nothing is sent": an `<auth/>`
is written only when the features in force offer a mechanism the credential supports -/
def mechGateOk (sc : Script) (ws : List Write) : Bool :=
  !(ws.any (fun w => w.kind == .auth)) ||
  (match featuresAtAuth sc with | some f => f.mech | none => false)

/-- "a `<failure/>` reply is a permanent error": judged on the observed outcome -/
def failurePermanentOk (sc : Script) (ws : List Write) (failedPermanently : Bool) : Bool :=
  !(sc.authReply == .failure && ws.any (fun w => w.kind == .auth)) || failedPermanently

end XmppVerif.Spec.Neg
