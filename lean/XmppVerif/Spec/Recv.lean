import XmppVerif.Model.Recv
/-
References shared by C05, C09 and C12, stated over the inbound history itself (not over the loop):
`processed` = the items completely handled before the loop stopped; `stopper` = the item that stopped it.
-/
namespace XmppVerif.Spec.Recv
open XmppVerif.Model.Recv

/-- items after which the client's loop does not continue -/
def stops : In → Bool
  | .cut => true
  | .pkt .close _ => true
  | .pkt .r true => true
  | _ => false

def processed (ins : List In) : List In := ins.takeWhile (fun i => !stops i)

/-- what stopped the loop; `none` = the input ran out (EOF, reported like a cut) -/
def stopper (ins : List In) : Option In := (ins.dropWhile (fun i => !stops i)).head?

def stanzaOf : In → Option Pkt
  | .pkt p _ => if p.isStanza then some p else none
  | .cut => none

def isStanzaIn (i : In) : Bool := (stanzaOf i).isSome

def isReq : In → Bool
  | .pkt .r _ => true
  | _ => false
def isSerr : In → Bool
  | .pkt .serr _ => true
  | _ => false
/-- did the server close the stream gracefully (`</stream:stream>`)? -/
def isClose : Option In → Bool
  | some (.pkt .close _) => true
  | _ => false

/-- reference for the reported counts: walk the history, count stanzas only, report the count at each `<r/>` -/
def refAnswers (n : Nat) : List In → List Nat
  | [] => []
  | i :: rest =>
    if isStanzaIn i then refAnswers (n + 1) rest
    else if isReq i then n :: refAnswers n rest
    else refAnswers n rest

-- projections of an action log
def routedStanzas (acts : List Act) : List Pkt :=
  acts.filterMap fun | .route p => if p.isStanza then some p else none | _ => none
def routedAll (acts : List Act) : List Pkt := acts.filterMap fun | .route p => some p | _ => none
def answers (acts : List Act) : List Nat := acts.filterMap fun | .answer h => some h | _ => none
def discEvents (acts : List Act) : List (String × Nat) :=
  acts.filterMap fun | .disconnected i n => some (i, n) | _ => none
def errhCount (acts : List Act) : Nat := (acts.filter fun | .errh => true | _ => false).length

def serrCount (ins : List In) : Nat := (ins.filter isSerr).length
def stanzaCount (ins : List In) : Nat := (ins.filter isStanzaIn).length
def reqCount (ins : List In) : Nat := (ins.filter fun | .pkt .r false => true | _ => false).length

/-- component: stops at a cut or a stream close only -/
def stopsC : In → Bool
  | .cut => true
  | .pkt .close _ => true
  | _ => false
def processedC (ins : List In) : List In := ins.takeWhile (fun i => !stopsC i)
def stopperC (ins : List In) : Option In := (ins.dropWhile (fun i => !stopsC i)).head?
def routesOfC : In → List Pkt
  | .pkt .serr _ => [.serr, .serr]     -- a stream error is routed before and after the error handling
  | .pkt p _ => [p]
  | .cut => []

end XmppVerif.Spec.Recv
