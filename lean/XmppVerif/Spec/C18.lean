import XmppVerif.Model.C18
/-
Oracle for C18 on what the harness measures for one run of the real `keepalive` goroutine on a stub transport.
Time enters only through generous tolerances (a loaded machine delays ticks; it never produces extra ones).
-/
namespace XmppVerif.Spec.C18

structure Case where
  intervalMs : Nat
  failAt     : Nat      -- the k-th Ping fails (0 = never)
  quitAtMs   : Nat      -- close(quit) after this many ms (0 = never before the failure)
  deriving Repr

structure Obs where
  pings          : Nat
  closes         : Nat
  returned       : Bool     -- the goroutine returned (within the harness timeout)
  pingsAfterQuit : Nat      -- pings recorded after close(quit) returned
  pingsAfterRet  : Nat      -- pings recorded after the goroutine returned (must be 0)
  runMs          : Nat      -- from start to close(quit) or to the failing ping
  quitLagMs      : Nat := 0 -- from close(quit) to the return of the goroutine
  deriving Repr

def holds (c : Case) (o : Obs) : Bool :=
  let failed := c.failAt > 0 && o.pings ≥ c.failAt
  let ideal := o.runMs / c.intervalMs
  o.returned && o.pingsAfterRet == 0 &&
  (if failed then o.pings == c.failAt && o.closes == 1       -- a dead connection is closed once, then nothing
   else o.closes == 0 &&
     -- session ended: at most the one pending tick - plus, when the machine delayed the goroutine, at most every
     -- second tick that fell due before it returned (`select` picks at random between a due tick and quit)
     o.pingsAfterQuit ≤ 1 + o.quitLagMs / (2 * c.intervalMs)) &&
  -- never more than one ping per elapsed interval (plus the one allowed after quit)
  decide (o.pings ≤ ideal + 2) &&
  -- and, unless it failed early, not far fewer (a tenth of the ticks may be lost to scheduling, plus two)
  (failed || decide (ideal ≤ o.pings + 2 + ideal / 3))

/-- What the harness measures for one run of the real `keepalive` AND the real receive loop on a real
`XMPPTransport` whose connection goes dead: the k-th keepalive write (and every later write) fails while the read
side stays silent. -/
structure XObs where
  pings      : Nat      -- keepalive writes attempted (the failing one included)
  connClosed : Bool     -- the connection was closed
  errh       : Nat      -- error callbacks
  disc       : Nat      -- Disconnected events
  returned   : Bool     -- both goroutines returned
  pingsAfter : Nat      -- keepalive writes after the return
  deriving Repr

/-- "if a keepalive cannot be written the connection is closed so that the loss is detected and reported; once the
session has ended no further keepalive is sent" -/
def holdsX (k : Nat) (o : XObs) : Bool :=
  o.returned && o.pings == k && o.connClosed && o.errh == 1 && o.disc == 1 && o.pingsAfter == 0

/-- "once the session has ended no further keepalive is sent" when the session ends because the SERVER closes the
stream (`</stream:stream>`, no I/O error): the receive loop returns, which ends the keepalive; the loss is reported
by one Disconnected event without an error callback. -/
def holdsXClose (o : XObs) : Bool :=
  o.returned && o.disc == 1 && o.errh == 0 && o.pingsAfter == 0

end XmppVerif.Spec.C18
