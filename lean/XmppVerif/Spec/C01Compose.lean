import XmppVerif.Model.C01Command
import XmppVerif.Spec.C01Stanza
/-
Reference for a stanza together with its extensions / payload: the oracle of the envelopes (value parsed back = the
original, second serialization byte-identical, skeleton = skeleton of the value's structure), on the class of
Model/C01Compose.lean (`MessageX.wf` …, and a default namespace that is not a registered one).
-/
namespace XmppVerif.Spec.C01S
open XmppVerif.Model.C01 XmppVerif.Model.C01S XmppVerif.Spec.C01

def extBeq (a b : Ext) : Bool := a.ty == b.ty && Val.beq a.v b.v

def extsBeq : List Ext → List Ext → Bool
  | [], [] => true
  | a :: as, b :: bs => extBeq a b && extsBeq as bs
  | _, _ => false

def msgxBeq (a b : MessageX) : Bool := decide (a.base = b.base) && extsBeq a.exts b.exts
def presxBeq (a b : PresenceX) : Bool := decide (a.base = b.base) && extsBeq a.exts b.exts
def iqxBeq (a b : IQX) : Bool :=
  decide (a.attrs = b.attrs) && decide (a.error = b.error) && optTreeBeq a.any b.any &&
  (match a.payload, b.payload with
   | some x, some y => extBeq x y
   | none, none => true
   | _, _ => false)

def holdsX {α : Type} (inQ : Bool) (beq : α → α → Bool) (v : α) (e : El) (o : Obs α) : Bool :=
  if !inQ then true
  else (match o.back with | some b => beq b v | none => false) && decide (o.xml2 = some o.xml) &&
    decide (o.shape = some (shape e))

def holdsMessageX (ctx : Str) (m : MessageX) (o : Obs MessageX) : Bool :=
  holdsX (ctxOkX ctx && m.wf) msgxBeq m (encMessageX m) o
def holdsPresenceX (ctx : Str) (p : PresenceX) (o : Obs PresenceX) : Bool :=
  holdsX (ctxOkX ctx && p.wf) presxBeq p (encPresenceX p) o
def holdsIQX (ctx : Str) (q : IQX) (o : Obs IQX) : Bool :=
  holdsX (q.wf ctx) iqxBeq q (encIQX q) o

/-- the model's observation (with `viewS`) -/
def modelObsX {α : Type} (ctx : Str) (enc : α → El) (dec : El → Option α) (v : α) : Obs α :=
  let back := (parseElem (toks (viewS ctx (enc v)))).bind fun p => dec p.1
  { xml := render (enc v), back := back, xml2 := back.map fun b => render (enc b),
    shape := some (shape (viewS ctx (enc v))) }

/-! the name-dispatching decoders -/
structure ObsD where
  xml   : Str
  back  : Option DVal
  xml2  : Option Str
  shape : Option (List Str)
  np    : String

def dvalBeq (a b : DVal) : Bool :=
  Val.beq a.set b.set && (match a.sel, b.sel with | some x, some y => extBeq x y | none, none => true | _, _ => false)

def holdsD (d : DSpec) (v : DVal) (o : ObsD) : Bool :=
  if !(d.wf && v.wf d) then true
  else (match o.back with | some b => dvalBeq b v | none => false) && decide (o.xml2 = some o.xml) &&
    decide (o.shape = some (shape (encDispatch d v))) && (o.np == "same" || o.np == "-")

def modelObsD (ctx : Str) (d : DSpec) (v : DVal) (np : String) : ObsD :=
  let back := (parseElem (toks (viewS ctx (encDispatch d v)))).bind fun p => decDispatch d p.1
  { xml := render (encDispatch d v), back := back, xml2 := back.map fun b => render (encDispatch d b),
    shape := some (shape (viewS ctx (encDispatch d v))), np := np }

/-! stanza.Command -/
structure ObsC where
  xml   : Str
  back  : Option CommandV
  xml2  : Option Str
  shape : Option (List Str)
  np    : String

def cmdElBeq : CmdEl → CmdEl → Bool
  | .ext x, .ext y => extBeq x y
  | .node a, .node b => Tree.beq a b
  | _, _ => false

def cmdElsBeq : List CmdEl → List CmdEl → Bool
  | [], [] => true
  | a :: as, b :: bs => cmdElBeq a b && cmdElsBeq as bs
  | _, _ => false

def cmdBeq (a b : CommandV) : Bool :=
  decide (a.attrs = b.attrs) && cmdElsBeq a.elems b.elems && decide (a.flags = b.flags) && Val.beq a.set b.set

def holdsC (v : CommandV) (o : ObsC) : Bool :=
  if !v.wf then true
  else (match o.back with | some b => cmdBeq b v | none => false) && decide (o.xml2 = some o.xml) &&
    decide (o.shape = some (shape (encCommand v))) && (o.np == "same" || o.np == "-")

def modelObsC (ctx : Str) (v : CommandV) (np : String) : ObsC :=
  let back := (parseElem (toks (viewS ctx (encCommand v)))).bind fun p => decCommand p.1
  { xml := render (encCommand v), back := back, xml2 := back.map fun b => render (encCommand b),
    shape := some (shape (viewS ctx (encCommand v))), np := np }

end XmppVerif.Spec.C01S
