import XmppVerif.Model.C19
/-
Reference for C19: delay before the n-th consecutive attempt = min(cap, base * factor^n) ms, never negative,
never above the cap; with jitter anywhere in [0, that value].
-/
namespace XmppVerif.Spec.C19
open XmppVerif.Model.C19

/-- The spec, uncut: min(cap, base * factor^n) after defaults. -/
def specMs (c : Cfg) (n : Nat) : Nat :=
  let c := setDefault c
  min c.cap (c.base * c.factor ^ n)

/-- Oracle state: how many `duration()` calls since the last reset (the reference attempt number). -/
structure OState where
  cfg   : Cfg
  count : Nat

def capNs (c : Cfg) : Int := ((setDefault c).cap : Int) * 1000000

/-- Judge one observed value (ns) against the wanted number of milliseconds. -/
def holdsWith (c : Cfg) (wantMs : Nat) (obs : Int) : Bool :=
  let want : Int := (wantMs : Int) * 1000000
  decide (0 ≤ obs) && decide (obs ≤ capNs c) &&
  (if c.noJitter then decide (obs = want) else decide (obs ≤ want))

/-- The property's reading: wanted value = min(cap, base*factor^n). -/
def holdsVal (c : Cfg) (n : Nat) (obs : Int) : Bool := holdsWith c (specMs c n) obs

/-- What the driver evaluates (n may be 2^63-1, so `factor^n` cannot be computed): the cut exponent.
`Props.C19.C19_exec_oracle_eq` proves it equal to `holdsVal` for every Go-int cap. -/
def holdsValExec (c : Cfg) (n : Nat) (obs : Int) : Bool := holdsWith c (durMs c n) obs

def holdsStepWith (hv : Cfg → Nat → Int → Bool) (st : OState) (op : Op) (obs : Int) : Bool × OState :=
  match op with
  | .dur      => (hv st.cfg st.count obs, { st with count := st.count + 1 })
  | .durFor n => (hv st.cfg n obs, st)
  | .reset    => (true, { st with count := 0 })

def holdsStep := holdsStepWith holdsVal
def holdsStepExec := holdsStepWith holdsValExec

/-- Region of the recorded finding F-19b: the cap in ns does not fit int64. -/
def knownOverflow (c : Cfg) : Bool := decide ((setDefault c).cap * 1000000 ≥ 2^63)

end XmppVerif.Spec.C19
