import XmppVerif.Model.C20
/-
Reference for C20. A server address is one of the forms below; the address to dial must be
`net.JoinHostPort(host, port)` with the explicit port, or 5222 when none was given.
The ambiguous form "bare IPv6 literal directly followed by :port" is not a constructor.
-/
namespace XmppVerif.Spec.C20
open XmppVerif.Model.C20

inductive Kind where
  | plain      -- DNS name or IPv4 literal
  | v6bare     -- IPv6 literal without brackets (no port possible)
  | v6br       -- IPv6 literal in brackets
  deriving DecidableEq, Repr

structure Form where
  kind : Kind
  host : List Char
  port : Option (List Char)   -- the port text as written
  deriving DecidableEq, Repr

def noneOf (bad : List Char) (s : List Char) : Bool := s.all fun c => !bad.contains c

def isDigits (s : List Char) : Bool := !s.isEmpty && s.all Char.isDigit

/-- Well-formedness (decidable): plain hosts have no `:[]%`; IPv6 hosts have ≥ 2 colons and no brackets;
ports are non-empty digit strings; a bare IPv6 literal carries no port. -/
def Form.wf (f : Form) : Bool :=
  (match f.port with | none => true | some p => isDigits p) &&
  (match f.kind with
   | .plain  => noneOf [':', '[', ']', '%'] f.host
   | .v6bare => decide (2 ≤ f.host.count ':') && noneOf ['[', ']'] f.host && f.port.isNone
   | .v6br   => decide (2 ≤ f.host.count ':') && noneOf ['[', ']'] f.host)

def Form.render (f : Form) : List Char :=
  let h := match f.kind with
    | .plain | .v6bare => f.host
    | .v6br => '[' :: f.host ++ [']']
  match f.port with
  | none => h
  | some p => h ++ ':' :: p

/-- `net.JoinHostPort`: brackets iff the host contains ':' or '%'. -/
def joinHostPort (host port : List Char) : List Char :=
  if host.contains ':' || host.contains '%' then '[' :: host ++ ']' :: ':' :: port
  else host ++ ':' :: port

def Form.expected (f : Form) : List Char :=
  joinHostPort f.host (f.port.getD (itoa defaultPort))

/-- Region of the recorded finding F-20a: a host literally named `ws` or `wss` written with a port renders as
`ws:<port>` / `wss:<port>`, which the constructors take for a WebSocket URL. -/
def knownWsHost (f : Form) : Bool :=
  f.kind == .plain && (f.host == ['w', 's'] || f.host == ['w', 's', 's']) && f.port.isSome

end XmppVerif.Spec.C20
