import XmppVerif.Model.C10
/-
Reference for C10: the stanzas accepted so far (in order) and how many of them the server has acknowledged.
Held = accepted minus the `delivered` oldest. An acknowledgement `h` sets delivered := max delivered (min h sent);
if anything is still held it goes on the wire again, in order, followed by one `<r/>`. Requests and answers are
written but never held.
-/
namespace XmppVerif.Spec.C10
open XmppVerif.Model.C17 (Q QS Entry pushS nextIdS)
open XmppVerif.Model.C10

structure Ref where
  accepted  : List String
  delivered : Nat
  deriving Repr

def Ref.held (r : Ref) : List String := r.accepted.drop r.delivered

def refStep (r : Ref) : Op → Ref × List String
  | .sendStanza b => ({ r with accepted := r.accepted ++ [b] }, [b])
  | .sendRaw b    => ({ r with accepted := r.accepted ++ [b] }, [b])
  | .sendNonza b  => (r, [b])
  | .sendFail b   => ({ r with accepted := r.accepted ++ [b] }, [])
  | .req b        => (r, [b])
  | .inbound      => (r, [])
  | .ack h =>
    let r' : Ref := { r with delivered := max r.delivered (min h r.accepted.length) }
    (r', if r'.held.isEmpty then [] else r'.held ++ [rBytes])
  | .ackFail h => ({ r with delivered := max r.delivered (min h r.accepted.length) }, [])
  | .freshSession => (⟨[], 0⟩, [])     -- a new stream-management session: nothing accepted on it yet
  | .resumed => (r, [])

def refRun (r : Ref) : List Op → Ref × List (List String)
  | [] => (r, [])
  | op :: ops =>
    let (r', w) := refStep r op
    let (r'', ws) := refRun r' ops
    (r'', w :: ws)

/-- what one step showed: the writes it caused and the queue afterwards -/
structure Obs where
  writes : List String
  held   : Q
  deriving DecidableEq, Repr

def idsIncreasing : List Nat → Bool
  | [] => true
  | [_] => true
  | a :: b :: rest => a < b && idsIncreasing (b :: rest)

def holdsStep (r : Ref) (op : Op) (o : Obs) : Bool × Ref :=
  let (r', w) := refStep r op
  match op with
  | .sendFail _ =>
    -- a Send that returned an error did not "accept" the stanza: the property does not say whether it is held. The
    -- code keeps it (it was stored before the write); dropping exactly IT again would be as good. What the property
    -- demands is that nothing ELSE changes - the stanzas accepted before stay held, in order.
    let keep := decide (o.held.map (·.stz) = r'.held)
    let drop := decide (o.held.map (·.stz) = r.held)
    (decide (o.writes = w) && (keep || drop) && idsIncreasing (o.held.map (·.id)), if keep then r' else r)
  | _ =>
  (decide (o.writes = w) && decide (o.held.map (·.stz) = r'.held) && idsIncreasing (o.held.map (·.id)), r')

end XmppVerif.Spec.C10
