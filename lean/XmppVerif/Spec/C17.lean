import XmppVerif.Model.C17
/-
Reference for C17: a plain FIFO of payloads (`List String`), plus the decidable oracle that judges
any observation (the model's or the implementation's) of one operation.
-/
namespace XmppVerif.Spec.C17
open XmppVerif.Model.C17

abbrev Ref := List String

inductive ROut where
  | items (xs : List String)
  | flag (b : Bool)
  deriving DecidableEq, Repr

/-- Reference FIFO: nothing on empty / non-positive n, everything when n exceeds the length. -/
def refStep (r : Ref) : Op → Ref × ROut
  | .push s  => (r ++ [s], .items [])
  | .pop     => (r.drop 1, .items (r.take 1))
  | .popn k  => if k ≤ 0 then (r, .items []) else (r.drop k.toNat, .items (r.take k.toNat))
  | .peek    => (r, .items (r.take 1))
  | .peekn k => (r, .items (if k ≤ 0 then [] else r.take k.toNat))
  | .empty   => (r, .flag r.isEmpty)

def refRun (r : Ref) : List Op → Ref × List ROut
  | []        => (r, [])
  | op :: ops =>
    let (r', o) := refStep r op
    let (r'', os) := refRun r' ops
    (r'', o :: os)

def abs (q : Q) : Ref := q.map (·.stz)

def absOut : Out → ROut
  | .ents es => .items (es.map (·.stz))
  | .flag b  => .flag b

def isPeek : Op → Bool
  | .peek | .peekn _ | .empty => true
  | _ => false

def idsIncreasing : List Nat → Bool
  | [] => true
  | [_] => true
  | a :: b :: rest => a < b && idsIncreasing (b :: rest)

/-- What one step showed: the returned value and the queue content afterwards. -/
structure Obs where
  out   : Out
  after : Q
  deriving DecidableEq, Repr

/-- Oracle state: the reference FIFO and the queue content observed before the step. -/
structure OState where
  ref  : Ref
  prev : Q

/-- Judge one observed step against the reference. -/
def holdsStep (st : OState) (op : Op) (o : Obs) : Bool × OState :=
  let (r', ro) := refStep st.ref op
  let ok :=
    decide (absOut o.out = ro)                      -- returns what the reference FIFO returns
    && decide (abs o.after = r')                     -- and holds what it holds
    && idsIncreasing (o.after.map (·.id))            -- strictly increasing sequence numbers
    && (!isPeek op || decide (o.after = st.prev))    -- peeks never modify the queue
  (ok, ⟨r', o.after⟩)

end XmppVerif.Spec.C17
