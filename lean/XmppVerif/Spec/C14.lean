import XmppVerif.Model.C14
/-
Reference for C14 and the decidable oracle. The oracle judges ANY observation (mechanism and payload parsed back
out of the bytes on the wire, outcome class) against the property as written; it does not call `authSASL`.
-/
namespace XmppVerif.Spec.C14
open XmppVerif.Model.C14

/-- what the credential kind supports, as the property states it (independent of the Go constructors) -/
def supports : Kind → String → Bool
  | .password, m => m == "PLAIN"
  | .token, m => m == "X-OAUTH2"

structure Case where
  kind    : Kind
  user    : List UInt8
  secret  : List UInt8
  offered : List String
  wmode   : WriteMode
  reply   : Reply
  deriving Repr

/-- a mechanism both advertised by the server and supported by the credential exists -/
def hasCommon (c : Case) : Bool := c.offered.any (supports c.kind)

def holds (c : Case) (o : Obs) : Bool :=
  -- what is on the wire names an advertised, supported mechanism and carries exactly base64(NUL user NUL secret)
  (match o.sent with
   | none => true
   | some (m, p) =>
     c.offered.contains m && supports c.kind m &&
     p == b64enc (0 :: c.user ++ 0 :: c.secret) &&
     b64dec p == some (0 :: c.user ++ 0 :: c.secret)) &&
  -- no common mechanism: nothing is sent and the error is permanent
  (hasCommon c || (o.sent.isNone && o.outcome == .err true)) &&
  -- authenticated only after something was sent and <success/> came back
  (o.outcome != .ok || (c.reply == .success && o.sent.isSome)) &&
  -- <failure/> in answer to the element is a permanent error
  (!(c.reply == .failure && o.sent.isSome) || o.outcome == .err true)

end XmppVerif.Spec.C14
