import XmppVerif.Proofs.C01Dispatch
import XmppVerif.Model.C01Command
set_option linter.unusedSimpArgs false
/- Helper lemmas for Props/C01Command.lean: stanza.Command. -/
namespace XmppVerif.Proofs.C01S
open XmppVerif.Model.C01 hiding Schema Field FKind FVal FlatVal schemas fld conforms fvalOk encField decField decFields
open XmppVerif.Model.C01S XmppVerif.Spec.C01 XmppVerif.Props.C01 XmppVerif.Proofs.C01 XmppVerif.Props.C01S

theorem legal_nsCommands : legal nsCommands = true := by decide
theorem nsCommands_ne : nsCommands ≠ [] := by decide

theorem cmd_ext_kid (acc : List CmdEl) (x : Ext) (hx : (CmdEl.ext x).wf = true) :
    foldKids cmdKid acc (viewSL nsCommands (encCmdEl (.ext x))) = some (acc ++ [.ext x]) := by
  simp only [CmdEl.wf] at hx
  split at hx
  · rename_i tn n hs ts hsch
    simp only [Bool.and_eq_true, beq_iff_eq] at hx
    obtain ⟨⟨hwf, hfit⟩, hcase⟩ := hx
    obtain ⟨a, ks, henc, hdec⟩ := tagged_rt x.schema tn n hs ts hsch x.v hwf hfit nsCommands
      ⟨[], "CommandElements".toList⟩ false nsCommands
    simp only [encCmdEl, henc, viewSL_one, foldKids_one]
    rw [viewS_elem] at hdec ⊢
    simp only [cmdKid, hcase, decExt]
    simp only [Ext.schema] at hdec
    rw [hdec]
    cases x; rfl
  · cases hx

theorem cmd_node_kid (acc : List CmdEl) (t : Tree) (ht : (CmdEl.node t).wf = true) :
    foldKids cmdKid acc (viewSL nsCommands (encCmdEl (.node t))) = some (acc ++ [.node t]) := by
  cases t with
  | mk n a c ns =>
    simp only [CmdEl.wf, Bool.and_eq_true, Option.isNone_iff_eq_none] at ht
    obtain ⟨hwf, hno⟩ := ht
    simp only [Tree.wf, Bool.and_eq_true, Bool.not_eq_true'] at hwf
    have hrt := node_rt nsCommands (.mk n a c ns) hwf.1.1 hwf.1.2 hwf.2
    simp only [encCmdEl, viewSL_one, foldKids_one, viewS_encNode nsCommands _ hwf.1.1]
    rw [encNode, view_elem] at hrt ⊢
    simp only [cmdKid, hno, hrt, Option.map]

theorem cmd_fold : ∀ (els acc : List CmdEl), (∀ e ∈ els, e.wf = true) →
    foldKids cmdKid acc (viewSL nsCommands (els.flatMap encCmdEl)) = some (acc ++ els)
  | [], acc, _ => by simp [viewSL, foldKids]
  | e :: els, acc, h => by
    have he := h e (by simp)
    have hk : foldKids cmdKid acc (viewSL nsCommands (encCmdEl e)) = some (acc ++ [e]) := by
      cases e with
      | ext x => exact cmd_ext_kid acc x he
      | node t => exact cmd_node_kid acc t he
    rw [List.flatMap_cons, viewSL_append, foldKids_append, hk]
    simp only [Option.bind]
    rw [cmd_fold els _ (fun y hy => h y (by simp [hy]))]
    simp

theorem encFlags_none : encFlags cmdFlagNames [false, false, false, false, false, false] = [] := by
  simp [encFlags, cmdFlagNames]

theorem cmd_attrs (a : CmdAttrs) (sp : Str) :
    let A := (if sp = [] then [] else [⟨⟨[], xmlnsL⟩, sanitize sp⟩]) ++ mkAttrs (cmdAttrPairs a)
    (⟨lastAttr actionL A, lastAttr nodeL A, lastAttr sessionidL A, lastAttr statusAL A, lastAttr langL A⟩ : CmdAttrs) = a := by
  intro A
  have hd : distinct ((cmdAttrPairs a).map (·.1)) = true := by
    simp only [cmdAttrPairs, List.map_cons, List.map_nil]; decide
  have own : ∀ k, k ≠ xmlnsL → lastAttr? k A = lastAttr? k (mkAttrs (cmdAttrPairs a)) := by
    intro k hk
    simp only [A]
    split
    · simp
    · simp only [List.singleton_append]; exact lastAttr?_own k _ _ hk
  have h1 := lastAttr?_mkAttrs actionL (omitEmpty a.action) (cmdAttrPairs a) hd (by simp [cmdAttrPairs])
  have h2 := lastAttr?_mkAttrs nodeL (some a.node) (cmdAttrPairs a) hd (by simp [cmdAttrPairs])
  have h3 := lastAttr?_mkAttrs sessionidL (omitEmpty a.sessionid) (cmdAttrPairs a) hd (by simp [cmdAttrPairs])
  have h4 := lastAttr?_mkAttrs statusAL (omitEmpty a.status) (cmdAttrPairs a) hd (by simp [cmdAttrPairs])
  have h5 := lastAttr?_mkAttrs langL (omitEmpty a.lang) (cmdAttrPairs a) hd (by simp [cmdAttrPairs])
  simp only [lastAttr, own actionL (by decide), own nodeL (by decide), own sessionidL (by decide),
    own statusAL (by decide), own langL (by decide), h1, h2, h3, h4, h5, omitEmpty_getD, Option.getD_some]

theorem command_rt (ctx : Str) (v : CommandV) (hv : v.wf = true) :
    decCommand (viewS ctx (encCommand v)) = some v := by
  obtain ⟨a, els, flags, set⟩ := v
  simp only [CommandV.wf, Bool.and_eq_true, beq_iff_eq] at hv
  obtain ⟨⟨⟨⟨⟨⟨⟨h1, h2⟩, h3⟩, h4⟩, h5⟩, hels⟩, hfl⟩, hset⟩ := hv
  have hs : set = .nil := by cases set <;> simp at hset; rfl
  subst hs hfl
  have hpo : (cmdAttrPairs a).all pairOk = true := by
    simp only [cmdAttrPairs, List.all_cons, List.all_nil, Bool.and_true, Bool.and_eq_true]
    exact ⟨omitEmpty_ok _ _ (by decide) h1, by simp [pairOk, h2]; decide, omitEmpty_ok _ _ (by decide) h3,
      omitEmpty_ok _ _ (by decide) h4, omitEmpty_ok _ _ (by decide) h5⟩
  have hns : nsOfS ctx ⟨nsCommands, "command".toList⟩ (mkAttrs (cmdAttrPairs a)) = nsCommands :=
    nsOfS_own ctx _ _ nsCommands_ne legal_nsCommands
  rw [encCommand, viewS_elem, hns, encFlags_none]
  simp only [isEmptyVal, if_true, List.append_nil, decCommand, viewAttrs_mkAttrs _ [] hpo]
  rw [cmd_fold els [] (fun e he => List.all_eq_true.mp hels e he)]
  simp only [Option.map, List.nil_append]
  have := cmd_attrs a nsCommands
  simp only at this
  rw [this]

end XmppVerif.Proofs.C01S
