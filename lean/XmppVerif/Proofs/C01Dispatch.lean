import XmppVerif.Proofs.C01Compose
import XmppVerif.Model.C01Dispatch
set_option linter.unusedSimpArgs false
/- Helper lemmas for Props/C01Dispatch.lean: the name-dispatching hand-written decoders (PubSubOwner, PubSubEvent). -/
namespace XmppVerif.Proofs.C01S
open XmppVerif.Model.C01 hiding Schema Field FKind FVal FlatVal schemas fld conforms fvalOk encField decField decFields
open XmppVerif.Model.C01S XmppVerif.Spec.C01 XmppVerif.Props.C01 XmppVerif.Proofs.C01 XmppVerif.Props.C01S

/-- a struct with a tagged XMLName is written under that name whatever field holds it, and read back -/
theorem tagged_rt (s : Ty) (tn : Str) (n : Name) (hs : List Hdr) (ts : List Ty) (hsch : s = .struct tn (.tag n) hs ts)
    (v : Val) (hwf : Ty.wf s = true) (hfit : v.fits s = true) (ps : Str) (fn : Name) (om : Bool) (ctx : Str) :
    ∃ a ks, encD ps fn om s v = [.elem n a ks] ∧ decS s (viewS ctx (.elem n a ks)) = some v := by
  obtain ⟨n', a, ks, henc, hdec⟩ := C01_schema_roundtrip_el ctx s v hwf hfit
  subst hsch
  rw [encS] at henc
  cases v with
  | struct dn vs =>
    rw [encD_struct] at henc
    simp only [startName, emptyNsAttr, List.cons.injEq, El.elem.injEq, and_true] at henc
    obtain ⟨h1, h2, h3⟩ := henc
    subst h1
    refine ⟨a, ks, ?_, hdec⟩
    rw [encD_struct]
    simp only [startName, emptyNsAttr, List.cons.injEq, El.elem.injEq, and_true, true_and]
    exact ⟨h2, h3⟩
  | _ => simp [encD] at henc

theorem dispatch_rt (d : DSpec) (hd : d.wf = true) (ctx : Str) (v : DVal) (hv : v.wf d = true) :
    decDispatch d (viewS ctx (encDispatch d v)) = some v := by
  obtain ⟨sel, set⟩ := v
  simp only [DSpec.wf, Bool.and_eq_true, Bool.not_eq_true', List.isEmpty_eq_false_iff] at hd
  obtain ⟨⟨_, hsp⟩, hleg⟩ := hd
  simp only [DVal.wf, Bool.and_eq_true] at hv
  obtain ⟨hset, hsel⟩ := hv
  have hs : set = .nil := by cases set <;> simp at hset; rfl
  subst hs
  have hsetk : (if d.hasSet then (if isEmptyVal Val.nil then []
      else encD d.name.space ⟨[], ['s', 'e', 't']⟩ true (.ptr tyResultSet) Val.nil) else []) = ([] : List El) := by
    split <;> simp [isEmptyVal]
  rw [encDispatch, hsetk, List.append_nil, viewS_elem]
  have hns : nsOfS ctx d.name [] = d.name.space := nsOfS_own ctx d.name [] hsp hleg
  rw [hns]
  cases sel with
  | none => simp [decDispatch, viewSL, foldKids]
  | some x =>
    dsimp only at hsel ⊢
    split at hsel
    · rename_i tn n hs ts hsch
      simp only [Bool.and_eq_true, beq_iff_eq] at hsel
      obtain ⟨⟨hwf, hfit⟩, hcase⟩ := hsel
      obtain ⟨a, ks, henc, hdec⟩ := tagged_rt x.schema tn n hs ts hsch x.v hwf hfit d.name.space
        ⟨[], d.field.toList⟩ false d.name.space
      rw [henc, viewSL_one]
      rw [viewS_elem] at hdec ⊢
      simp only [decDispatch, foldKids_one, dKid, hcase, decExt]
      simp only [Ext.schema] at hdec
      rw [hdec]
      cases x; rfl
    · cases hsel

end XmppVerif.Proofs.C01S
