import XmppVerif.Proofs.C01Schema
set_option linter.unusedSimpArgs false
/- Helper lemmas for Props/C01Schema.lean, part 2: the attribute loop and the child loop of a struct. -/
namespace XmppVerif.Proofs.C01S
open XmppVerif.Model.C01 hiding Schema Field FKind FVal FlatVal schemas fld conforms fvalOk encField decField decFields
open XmppVerif.Model.C01S XmppVerif.Spec.C01 XmppVerif.Props.C01 XmppVerif.Proofs.C01

theorem zeroL_cons (t : Ty) (ts : List Ty) : zeroL (t :: ts) = zero t :: zeroL ts := by simp [zeroL]

/-- the attribute loop on a fresh struct: attribute fields get their values, the others stay zero -/
theorem decAttrsF_ok (pns : Bool) (tk : List Str) (A : List Attr) (pairs : List (Str × Option Str))
    (hlook : ∀ k o, (k, o) ∈ pairs → attrValsK k A = o.toList) :
    ∀ (hs : List Hdr) (ts : List Ty) (vs : List Val), hs.all hdrOk = true → Ty.wfFields pns hs ts = true →
      Val.fitsFields tk hs ts vs = true → (∀ p ∈ attrPairs hs ts vs, p ∈ pairs) →
      decAttrsF A hs ts (zeroL ts) = some (attrPart hs ts vs)
  | [], [], [], _, _, _, _ => by simp [decAttrsF, zeroL, attrPart]
  | [], [], _ :: _, _, _, hf, _ => by simp [Val.fitsFields] at hf
  | [], _ :: _, vs, _, _, hf, _ => by cases vs <;> simp [Val.fitsFields] at hf
  | _ :: _, [], vs, _, _, hf, _ => by cases vs <;> simp [Val.fitsFields] at hf
  | _ :: _, _ :: _, [], _, _, hf, _ => by simp [Val.fitsFields] at hf
  | h :: hs, t :: ts, v :: vs, hok, hwf, hf, hsub => by
    simp only [List.all_cons, Bool.and_eq_true] at hok
    rw [wfFields_cons, Bool.and_eq_true] at hwf
    rw [fitsFields_cons, Bool.and_eq_true] at hf
    rw [attrPairs_cons] at hsub
    have ih := decAttrsF_ok pns tk A pairs hlook hs ts vs hok.2 hwf.2 hf.2 (fun p hp => hsub p (by simp [hp]))
    rw [zeroL_cons, decAttrsF, ih, attrPart]
    by_cases hm : h.mode = .attr
    · have hsp : h.name.space = [] := by
        have := hok.1; simp only [hdrOk, hm, Bool.and_eq_true, List.isEmpty_iff] at this; exact this.1
      have hty : attrTyOk t = true := by simpa [hm] using hwf.1
      have hl := hlook h.name.loc (attrOut h t v) (hsub _ (by simp [hm]))
      have hna : ¬ h.mode = .any := by rw [hm]; simp
      have haf := attr_field h t v hty (by simpa [hna] using hf.1)
      rw [if_pos hm, if_pos hm, attrVals_plain h hsp, hl]
      cases ho : attrOut h t v with
      | none => rw [ho] at haf; simp [decAttr1, haf]
      | some s => rw [ho] at haf; simp [decAttr1, haf.2]
    · simp [hm]


/-! ### the child loop -/
theorem foldKids_nil {α : Type} (f : α → El → Option α) (a : α) : foldKids f a [] = some a := by simp [foldKids]

theorem foldKids_append {α : Type} (f : α → El → Option α) (a : α) (xs ys : List El) :
    foldKids f a (xs ++ ys) = (foldKids f a xs).bind fun a' => foldKids f a' ys := by
  induction xs generalizing a with
  | nil => simp [foldKids]
  | cons x xs ih =>
    simp only [List.cons_append, foldKids]
    cases f a x with
    | none => simp
    | some a' => simpa using ih a'

/-- no header of the list takes a child with this local name, whatever its namespace -/
def noneTakes (hp : List Hdr) (loc : Str) : Prop := ∀ h' ∈ hp, ∀ sp, hdrTakes h' ⟨sp, loc⟩ = false

theorem decKidF_skip (kn : Name) (ka : List Attr) (kk : List El) :
    ∀ (hp : List Hdr) (tp : List Ty) (pv : List Val) (hs : List Hdr) (ts : List Ty) (vs : List Val),
      hp.length = tp.length → hp.length = pv.length → (∀ h' ∈ hp, hdrTakes h' kn = false) →
      decKidF (hp ++ hs) (tp ++ ts) (pv ++ vs) (.elem kn ka kk) = (decKidF hs ts vs (.elem kn ka kk)).map (pv ++ ·)
  | [], [], [], hs, ts, vs, _, _, _ => by simp
  | [], [], _ :: _, _, _, _, _, h2, _ => by simp at h2
  | [], _ :: _, _, _, _, _, h1, _, _ => by simp at h1
  | _ :: _, [], _, _, _, _, h1, _, _ => by simp at h1
  | _ :: _, _ :: _, [], _, _, _, _, h2, _ => by simp at h2
  | h :: hp, t :: tp, v :: pv, hs, ts, vs, h1, h2, hno => by
    have ih := decKidF_skip kn ka kk hp tp pv hs ts vs (by simpa using h1) (by simpa using h2)
      (fun h' hh => hno h' (by simp [hh]))
    have hh : hdrTakes h kn = false := hno h (by simp)
    simp only [List.cons_append, decKidF, hh, Bool.false_eq_true, if_false, ih, Option.map_map]
    rfl

/-- one child that field `h` (after a prefix of fields that do not take it) takes: it is decoded into that field -/
theorem decKid_at (hp hs : List Hdr) (tp ts : List Ty) (pv sv : List Val) (h : Hdr) (t : Ty) (cur : Val)
    (kn : Name) (ka : List Attr) (kk : List El) (h1 : hp.length = tp.length) (h2 : hp.length = pv.length)
    (hno : ∀ h' ∈ hp, hdrTakes h' kn = false) (ht : hdrTakes h kn = true) :
    decKid (hp ++ h :: hs) (tp ++ t :: ts) (pv ++ cur :: sv) (.elem kn ka kk) =
      (decInto t cur (.elem kn ka kk)).map fun x => pv ++ x :: sv := by
  have hany : (hp ++ h :: hs).any (hdrTakes · kn) = true := by
    simp only [List.any_append, List.any_cons, ht, Bool.true_or, Bool.or_true]
  simp only [decKid, hany, if_true, decKidF_skip kn ka kk hp tp pv _ _ _ h1 h2 hno, decKidF, ht, Option.map_map]
  rfl

/-- the field takes back an element with its local name whose (viewed) namespace is the one its tag names, if any -/
theorem takes_view (h : Hdr) (sp loc : Str) (hm : h.mode = .elem) (hl : loc = h.name.loc)
    (hsp : h.name.space = [] ∨ sp = h.name.space) : hdrTakes h ⟨sp, loc⟩ = true := by
  simp only [hdrTakes, hm, hl, beq_self_eq_true, Bool.true_or, Bool.true_and, Bool.or_eq_true, List.isEmpty_iff, beq_iff_eq]
  rcases hsp with e | e
  · left; exact e
  · right; exact e.symm

theorem decAnyF_skip (k : El) :
    ∀ (hp : List Hdr) (tp : List Ty) (pv : List Val) (hs : List Hdr) (ts : List Ty) (vs : List Val),
      hp.length = tp.length → hp.length = pv.length → (∀ h' ∈ hp, h'.mode ≠ .any) →
      decAnyF (hp ++ hs) (tp ++ ts) (pv ++ vs) k = (decAnyF hs ts vs k).map (pv ++ ·)
  | [], [], [], hs, ts, vs, _, _, _ => by simp
  | [], [], _ :: _, _, _, _, _, h2, _ => by simp at h2
  | [], _ :: _, _, _, _, _, h1, _, _ => by simp at h1
  | _ :: _, [], _, _, _, _, h1, _, _ => by simp at h1
  | _ :: _, _ :: _, [], _, _, _, _, h2, _ => by simp at h2
  | h :: hp, t :: tp, v :: pv, hs, ts, vs, h1, h2, hno => by
    have ih := decAnyF_skip k hp tp pv hs ts vs (by simpa using h1) (by simpa using h2)
      (fun h' hh => hno h' (by simp [hh]))
    have hh : ¬ h.mode = .any := hno h (by simp)
    simp only [List.cons_append, decAnyF, hh, if_false, ih, Option.map_map]
    rfl

/-- a child that no field takes by name goes to the (only) `,any` field -/
theorem decKid_any (hp hs : List Hdr) (tp ts : List Ty) (pv sv : List Val) (h : Hdr) (t : Ty) (cur : Val)
    (kn : Name) (ka : List Attr) (kk : List El) (h1 : hp.length = tp.length) (h2 : hp.length = pv.length)
    (hm : h.mode = .any) (hnoany : ∀ h' ∈ hp, h'.mode ≠ .any)
    (hno : ∀ h' ∈ hp ++ h :: hs, hdrTakes h' kn = false) :
    decKid (hp ++ h :: hs) (tp ++ t :: ts) (pv ++ cur :: sv) (.elem kn ka kk) =
      (decInto t cur (.elem kn ka kk)).map fun x => pv ++ x :: sv := by
  have hany : (hp ++ h :: hs).any (hdrTakes · kn) = false := by
    rw [List.any_eq_false]; intro x hx; simp [hno x hx]
  have hhas : hasMode .any (hp ++ h :: hs) = true := by
    simp [hasMode, hm]
  simp only [decKid, hany, Bool.false_eq_true, if_false, hhas, if_true,
    decAnyF_skip _ hp tp pv _ _ _ h1 h2 hnoany, decAnyF, hm, Option.map_map]
  rfl

end XmppVerif.Proofs.C01S
