import XmppVerif.Proofs.C01SchemaKids
set_option linter.unusedSimpArgs false
/- Helper lemmas for Props/C01Schema.lean, part 3: one field of a struct, given the round trip of its element type. -/
namespace XmppVerif.Proofs.C01S
open XmppVerif.Model.C01 hiding Schema Field FKind FVal FlatVal schemas fld conforms fvalOk encField decField decFields
open XmppVerif.Model.C01S XmppVerif.Spec.C01 XmppVerif.Props.C01 XmppVerif.Proofs.C01

/-- element-level round trip of an element type `t` written for the field name `fn` (`pns`: the enclosing element has
a namespace of its own - then `ps`, its Space, is not empty): exactly one element, whose name the field takes back, and
which decodes into a fresh value as `v` -/
def RtE (t : Ty) (fn : Name) (pns : Bool) : Prop :=
  ∀ (ctx ps : Str) (om : Bool) (v : Val), (pns = true → ps ≠ []) → Val.fitsE fn t v = true →
    ∃ n a ks, encD ps fn om t v = [.elem n a ks] ∧ n.loc = fn.loc ∧
      (fn.space = [] ∨ nsOfS ctx n a = fn.space) ∧ decInto t (zero t) (viewS ctx (.elem n a ks)) = some v

/-- what marshalStruct writes for one field -/
def fieldKids (ps : Str) (h : Hdr) (t : Ty) (v : Val) : List El :=
  if h.mode = .elem ∨ h.mode = .any then (if h.om && isEmptyVal v then [] else encD ps h.name h.om t v) else []

/-- field-level round trip: the child loop, run over what the field wrote, turns the field's zero value into `v` and
touches no other field -/
def FieldOK (pns : Bool) (h : Hdr) (t : Ty) : Prop :=
  ∀ (ctx ps : Str) (v : Val) (hp hs : List Hdr) (tp ts : List Ty) (pv sv : List Val), (pns = true → ps ≠ []) →
    hp.length = tp.length → hp.length = pv.length → noneTakes hp h.name.loc → Val.fitsF h.name h.om t v = true →
    foldKids (decKid (hp ++ h :: hs) (tp ++ t :: ts)) (pv ++ zero t :: sv) (viewSL ctx (fieldKids ps h t v)) =
      some (pv ++ v :: sv)

theorem kid_step (ctx : Str) (h : Hdr) (hm : h.mode = .elem) (T : Ty) (CUR : Val) (n : Name) (a : List Attr)
    (ks : List El) (hl : n.loc = h.name.loc) (hsp : h.name.space = [] ∨ nsOfS ctx n a = h.name.space)
    (hp hs : List Hdr) (tp ts : List Ty) (pv sv : List Val) (h1 : hp.length = tp.length) (h2 : hp.length = pv.length)
    (hno : noneTakes hp h.name.loc) :
    decKid (hp ++ h :: hs) (tp ++ T :: ts) (pv ++ CUR :: sv) (viewS ctx (.elem n a ks)) =
      (decInto T CUR (viewS ctx (.elem n a ks))).map fun x => pv ++ x :: sv := by
  rw [viewS_elem]
  exact decKid_at hp hs tp ts pv sv h T CUR _ _ _ h1 h2 (fun h' hh => by rw [hl]; exact hno h' hh _)
    (takes_view h _ _ hm hl hsp)

theorem foldKids_one {α : Type} (f : α → El → Option α) (a : α) (k : El) : foldKids f a [k] = f a k := by
  simp only [foldKids]
  cases f a k <;> rfl

/-- a field whose type is an element type itself -/
theorem field_E (pns : Bool) (h : Hdr) (hm : h.mode = .elem) (t : Ty) (hrt : RtE t h.name pns)
    (hfit : ∀ v, Val.fitsF h.name h.om t v = Val.fitsE h.name t v)
    (hez : ∀ v, Val.fitsE h.name t v = true → isEmptyVal v = true → v = zero t) : FieldOK pns h t := by
  intro ctx ps v hp hs tp ts pv sv hps h1 h2 hno hf
  rw [hfit] at hf
  simp only [fieldKids, hm, true_or, if_true]
  by_cases he : (h.om && isEmptyVal v) = true
  · have hz : v = zero t := hez v hf (by simp at he; exact he.2)
    rw [if_pos he]
    simp only [viewSL, foldKids_nil, hz]
  · obtain ⟨n, a, ks, henc, hl, hsp, hdec⟩ := hrt ctx ps h.om v hps hf
    rw [if_neg he, henc, viewSL_one, foldKids_one]
    rw [kid_step ctx h hm t _ n a ks hl hsp hp hs tp ts pv sv h1 h2 hno, hdec]
    rfl


/-! ### pointers, slices, interfaces -/
theorem encD_ptr_nil (ps : Str) (fn : Name) (om : Bool) (t : Ty) : encD ps fn om (.ptr t) .nil = [] := by
  simp [encD]

theorem encD_ptr_ref (ps : Str) (fn : Name) (om : Bool) (t : Ty) (x : Val) :
    encD ps fn om (.ptr t) (.ref x) = encD ps fn om t x := by
  simp [encD]

theorem encD_slice (ps : Str) (fn : Name) (om : Bool) (t : Ty) (l : List Val) :
    encD ps fn om (.slice t) (.slice l) = l.flatMap fun v => if om && isEmptyVal v then [] else encD ps fn om t v := by
  simp [encD]

theorem encD_iface (ps : Str) (fn : Name) (om : Bool) (v : Val) : encD ps fn om .iface v = [] := by
  simp [encD]

/-- `wfE` holds of primitives and structs only -/
theorem wfE_cases (fn : Name) (pns : Bool) (t : Ty) (h : Ty.wfE fn pns t = true) :
    (∃ k, t = .prim k) ∨ (∃ tn xn hs ts, t = .struct tn xn hs ts) := by
  cases t <;> simp [Ty.wfE] at h <;> simp

theorem decInto_ptr_nil (fn : Name) (pns : Bool) (t : Ty) (hw : Ty.wfE fn pns t = true) (e : El) :
    decInto (.ptr t) .nil e = (decInto t (zero t) e).map .ref := by
  rcases wfE_cases fn pns t hw with ⟨k, rfl⟩ | ⟨tn, xn, hs, ts, rfl⟩ <;> simp [decInto]

theorem decInto_slice (t : Ty) (l : List Val) (e : El) :
    decInto (.slice t) (.slice l) e = (decInto t (zero t) e).map fun x => .slice (l ++ [x]) := by
  simp [decInto]

theorem zero_ptr (t : Ty) : zero (.ptr t) = .nil := by simp [zero]
theorem zero_slice (t : Ty) : zero (.slice t) = .slice [] := by simp [zero]
theorem zero_iface : zero .iface = .nil := by simp [zero]

/-- an interface-typed field (always nil): nothing written, nothing read -/
theorem field_iface (pns : Bool) (h : Hdr) : FieldOK pns h .iface := by
  intro ctx ps v hp hs tp ts pv sv _ _ _ _ hf
  have hv : v = .nil := by cases v <;> simp [Val.fitsF] at hf; rfl
  subst hv
  simp [fieldKids, encD_iface, viewSL, foldKids_nil, zero_iface]

/-- a pointer to a type with a hand-written codec: only nil is in the class -/
theorem field_ptrU (pns : Bool) (h : Hdr) (w : String) : FieldOK pns h (.ptr (.unsupported w)) := by
  intro ctx ps v hp hs tp ts pv sv _ _ _ _ hf
  have hv : v = .nil := by cases v <;> simp [Val.fitsF] at hf; rfl
  subst hv
  simp [fieldKids, encD_ptr_nil, viewSL, foldKids_nil, zero_ptr]

/-- `*E` -/
theorem field_ptr (pns : Bool) (h : Hdr) (hm : h.mode = .elem) (t : Ty) (hw : Ty.wfE h.name pns t = true)
    (hrt : RtE t h.name pns) : FieldOK pns h (.ptr t) := by
  intro ctx ps v hp hs tp ts pv sv hps h1 h2 hno hf
  have hnu : ∀ w, t ≠ .unsupported w := by
    intro w e; rw [e] at hw; simp [Ty.wfE] at hw
  cases v with
  | nil =>
    simp only [fieldKids, encD_ptr_nil, ite_self, viewSL, foldKids_nil, zero_ptr]
  | ref x =>
    have hx : Val.fitsE h.name t x = true := by
      rcases wfE_cases _ _ t hw with ⟨k, rfl⟩ | ⟨tn, xn, hs', ts', rfl⟩ <;> simpa [Val.fitsF] using hf
    obtain ⟨n, a, ks, henc, hl, hsp, hdec⟩ := hrt ctx ps h.om x hps hx
    simp only [fieldKids, hm, true_or, if_true, isEmptyVal, Bool.and_false, Bool.false_eq_true, if_false,
      encD_ptr_ref, henc, viewSL_one, foldKids_one, zero_ptr]
    rw [kid_step ctx h hm _ _ n a ks hl hsp hp hs tp ts pv sv h1 h2 hno, decInto_ptr_nil _ _ t hw, hdec]
    rfl
  | _ =>
    rcases wfE_cases _ _ t hw with ⟨k, rfl⟩ | ⟨tn, xn, hs', ts', rfl⟩ <;> simp [Val.fitsF] at hf


theorem slice_fold (ctx : Str) (h : Hdr) (hm : h.mode = .elem) (T : Ty) (enc1 : Val → List El)
    (hp hs : List Hdr) (tp ts : List Ty) (pv sv : List Val) (h1 : hp.length = tp.length) (h2 : hp.length = pv.length)
    (hno : noneTakes hp h.name.loc) :
    ∀ (l acc : List Val),
      (∀ x ∈ l, ∃ n a ks, enc1 x = [.elem n a ks] ∧ n.loc = h.name.loc ∧
        (h.name.space = [] ∨ nsOfS ctx n a = h.name.space) ∧ decInto T (zero T) (viewS ctx (.elem n a ks)) = some x) →
      foldKids (decKid (hp ++ h :: hs) (tp ++ .slice T :: ts)) (pv ++ .slice acc :: sv) (viewSL ctx (l.flatMap enc1)) =
        some (pv ++ .slice (acc ++ l) :: sv)
  | [], acc, _ => by simp [viewSL, foldKids_nil]
  | x :: l, acc, hg => by
    obtain ⟨n, a, ks, henc, hl, hsp, hdec⟩ := hg x (by simp)
    have ih := slice_fold ctx h hm T enc1 hp hs tp ts pv sv h1 h2 hno l (acc ++ [x]) (fun y hy => hg y (by simp [hy]))
    rw [List.flatMap_cons, henc, viewSL_append, viewSL_one, List.singleton_append, foldKids]
    rw [kid_step ctx h hm _ _ n a ks hl hsp hp hs tp ts pv sv h1 h2 hno, decInto_slice, hdec]
    simp only [Option.map]
    rw [ih]
    simp

/-- `[]E` -/
theorem field_slice (pns : Bool) (h : Hdr) (hm : h.mode = .elem) (t : Ty) (hw : Ty.wfE h.name pns t = true)
    (hrt : RtE t h.name pns) : FieldOK pns h (.slice t) := by
  intro ctx ps v hp hs tp ts pv sv hps h1 h2 hno hf
  cases v with
  | slice l =>
    have hall : ∀ x ∈ l, Val.fitsE h.name t x = true ∧ (h.om && isEmptyVal x) = false := by
      have : l.all (fun x => Val.fitsE h.name t x && !(h.om && isEmptyVal x)) = true := by
        rcases wfE_cases _ _ t hw with ⟨k, rfl⟩ | ⟨tn, xn, hs', ts', rfl⟩ <;> simpa [Val.fitsF] using hf
      intro x hx
      have := List.all_eq_true.mp this x hx
      simp only [Bool.and_eq_true, Bool.not_eq_true'] at this
      exact this
    have hkids : fieldKids ps h (.slice t) (.slice l) =
        l.flatMap fun x => if h.om && isEmptyVal x then [] else encD ps h.name h.om t x := by
      simp only [fieldKids, hm, true_or, if_true, encD_slice]
      cases l <;> simp [isEmptyVal]
    rw [hkids, zero_slice]
    have := slice_fold ctx h hm t (fun x => if h.om && isEmptyVal x then [] else encD ps h.name h.om t x) hp hs tp ts pv sv h1 h2 hno l [] (fun x hx => by
      obtain ⟨n, a, ks, henc, hl, hsp, hdec⟩ := hrt ctx ps h.om x hps (hall x hx).1
      refine ⟨n, a, ks, ?_, hl, hsp, hdec⟩
      simp only [(hall x hx).2, Bool.false_eq_true, if_false, henc])
    simpa using this
  | _ =>
    rcases wfE_cases _ _ t hw with ⟨k, rfl⟩ | ⟨tn, xn, hs', ts', rfl⟩ <;> simp [Val.fitsF] at hf

/-- `[]*E` -/
theorem field_slicePtr (pns : Bool) (h : Hdr) (hm : h.mode = .elem) (t : Ty) (hw : Ty.wfE h.name pns t = true)
    (hrt : RtE t h.name pns) : FieldOK pns h (.slice (.ptr t)) := by
  intro ctx ps v hp hs tp ts pv sv hps h1 h2 hno hf
  cases v with
  | slice l =>
    have hall : ∀ x ∈ l, ∃ y, x = .ref y ∧ Val.fitsE h.name t y = true := by
      simp only [Val.fitsF, List.all_eq_true] at hf
      intro x hx
      have := hf x hx
      cases x <;> simp at this
      exact ⟨_, rfl, this⟩
    have hkids : fieldKids ps h (.slice (.ptr t)) (.slice l) =
        l.flatMap fun x => if h.om && isEmptyVal x then [] else encD ps h.name h.om (.ptr t) x := by
      simp only [fieldKids, hm, true_or, if_true, encD_slice]
      cases l <;> simp [isEmptyVal]
    rw [hkids, zero_slice]
    have := slice_fold ctx h hm (.ptr t) (fun x => if h.om && isEmptyVal x then [] else encD ps h.name h.om (.ptr t) x) hp hs tp ts pv sv h1 h2 hno l [] (fun x hx => by
      obtain ⟨y, rfl, hy⟩ := hall x hx
      obtain ⟨n, a, ks, henc, hl, hsp, hdec⟩ := hrt ctx ps h.om y hps hy
      refine ⟨n, a, ks, ?_, hl, hsp, ?_⟩
      · simp only [isEmptyVal, Bool.and_false, Bool.false_eq_true, if_false, encD_ptr_ref, henc]
      rw [zero_ptr, decInto_ptr_nil _ _ t hw, hdec]; rfl)
    simpa using this
  | _ => simp [Val.fitsF] at hf


/-! ### stanza.History: hand-written codec -/
theorem histAttrs_rt (a b c : Option Int) (h : histFits a b c = true) :
    histAttrs (none, none, none) (mkAttrs [(maxcharsL, a.map showInt), (maxstanzasL, b.map showInt),
      (secondsL, c.map showInt)]) = some (a, b, c) := by
  simp only [histFits, Bool.and_eq_true, decide_eq_true_eq] at h
  obtain ⟨⟨ha, hb⟩, hc⟩ := h
  have e1 : ¬ (maxstanzasL = maxcharsL) := by decide
  have e2 : ¬ (secondsL = maxcharsL) := by decide
  have e3 : ¬ (secondsL = maxstanzasL) := by decide
  cases a with
  | none =>
    cases b with
    | none =>
      cases c with
      | none => simp [mkAttrs, histAttrs]
      | some z => simp [mkAttrs, histAttrs, histAttr, e2, e3, parseIntBits_showInt 64 z (hc z rfl)]
    | some y =>
      cases c with
      | none => simp [mkAttrs, histAttrs, histAttr, e1, parseIntBits_showInt 64 y (hb y rfl)]
      | some z =>
        simp [mkAttrs, histAttrs, histAttr, e1, e2, e3, parseIntBits_showInt 64 y (hb y rfl),
          parseIntBits_showInt 64 z (hc z rfl)]
  | some x =>
    cases b with
    | none =>
      cases c with
      | none => simp [mkAttrs, histAttrs, histAttr, parseIntBits_showInt 64 x (ha x rfl)]
      | some z =>
        simp [mkAttrs, histAttrs, histAttr, e2, e3, parseIntBits_showInt 64 x (ha x rfl),
          parseIntBits_showInt 64 z (hc z rfl)]
    | some y =>
      cases c with
      | none =>
        simp [mkAttrs, histAttrs, histAttr, e1, parseIntBits_showInt 64 x (ha x rfl),
          parseIntBits_showInt 64 y (hb y rfl)]
      | some z =>
        simp [mkAttrs, histAttrs, histAttr, e1, e2, e3, parseIntBits_showInt 64 x (ha x rfl),
          parseIntBits_showInt 64 y (hb y rfl), parseIntBits_showInt 64 z (hc z rfl)]

theorem histPairs_ok (a b c : Option Int) :
    [(maxcharsL, a.map showInt), (maxstanzasL, b.map showInt), (secondsL, c.map showInt)].all pairOk = true := by
  have k1 : keyOk maxcharsL = true := by decide
  have k2 : keyOk maxstanzasL = true := by decide
  have k3 : keyOk secondsL = true := by decide
  cases a <;> cases b <;> cases c <;> simp [pairOk, k1, k2, k3, legal_showInt]

/-- the History field: nothing written for the all-unset value; otherwise one `<history/>` whose attributes the
hand-written loop reads back -/
theorem field_history (pns : Bool) (h : Hdr) (hm : h.mode = .elem) (hl : h.name.loc = historyL)
    (hsp : h.name.space = []) : FieldOK pns h .history := by
  intro ctx ps v hp hs tp ts pv sv _ h1 h2 hno hf
  cases v with
  | history a b c =>
    have hfit : histFits a b c = true := by simpa [Val.fitsF] using hf
    have hz : zero .history = .history none none none := by simp [zero]
    simp only [fieldKids, hm, true_or, if_true, isEmptyVal, Bool.and_false, Bool.false_eq_true, if_false]
    have henc : encD ps h.name h.om .history (.history a b c) = encHistory a b c := by simp [encD]
    rw [henc, hz, encHistory]
    by_cases hall : (a.isNone && b.isNone && c.isNone) = true
    · simp only [hall, if_true, viewSL, foldKids_nil]
      simp only [Bool.and_eq_true, Option.isNone_iff_eq_none] at hall
      rw [hall.1.1, hall.1.2, hall.2]
    · simp only [hall, Bool.false_eq_true, if_false, viewSL_one, foldKids_one]
      rw [kid_step ctx h hm _ _ ⟨[], historyL⟩ _ [] hl.symm (Or.inl hsp) hp hs tp ts pv sv h1 h2 hno]
      rw [viewS_elem]
      simp only [if_true, List.nil_append, decInto, viewAttrs_mkAttrs _ [] (histPairs_ok a b c),
        histAttrs_rt a b c hfit]
      rfl
  | _ => simp [Val.fitsF] at hf

/-! ### the `,any` *Node field -/
theorem declNs_inQ (a : List Attr) (h : a.all attrInQ = true) : declNs a = none := by
  induction a with
  | nil => simp [declNs]
  | cons x xs ih =>
    simp only [List.all_cons, Bool.and_eq_true] at h
    have hx : x.name.loc ≠ xmlnsL := by
      have := h.1; simp only [attrInQ, Bool.and_eq_true, bne_iff_ne, ne_eq] at this; exact this.1.1.2
    have := ih h.2
    simp only [declNs, Option.map_eq_none_iff] at this ⊢
    simp [List.find?_cons, hx, this]

mutual
theorem viewS_encNode (ctx : Str) (t : Tree) (hq : t.inQ = true) : viewS ctx (encNode t) = view ctx (encNode t) := by
  cases t with
  | mk n a c ns =>
    simp only [Tree.inQ, Bool.and_eq_true] at hq
    obtain ⟨⟨⟨⟨_, _⟩, hattr⟩, hc⟩, hqs⟩ := hq
    have hd := nsOfS_plain ctx n a (declNs_inQ a hattr)
    simp only [encNode, viewS, view, hd, viewSL_append, viewL_append, viewSL_txt _ _ _ hc, viewL_txt _ _ _ hc,
      viewSL_encNodes (nsOf ctx n) ns hqs]
theorem viewSL_encNodes (ctx : Str) (l : List Tree) (hq : Tree.inQL l = true) :
    viewSL ctx (encNodes l) = viewL ctx (encNodes l) := by
  cases l with
  | nil => simp [encNodes, viewSL, viewL]
  | cons t r =>
    simp only [Tree.inQL, Bool.and_eq_true] at hq
    simp only [encNodes, viewSL, viewL, viewS_encNode ctx t hq.1, viewSL_encNodes ctx r hq.2]
end

mutual
theorem ownNs_inherits (ctx : Str) (t : Tree) (h : treeOwnNs t = true) : t.inheritsNs ctx = false := by
  cases t with
  | mk n a c ns =>
    simp only [treeOwnNs, Bool.and_eq_true, Bool.not_eq_true', List.isEmpty_eq_false_iff] at h
    have : n.space.isEmpty = false := by simpa using h.1
    simp [Tree.inheritsNs, this, ownNs_inheritsL (nsOf ctx n) ns h.2]
theorem ownNs_inheritsL (ctx : Str) (l : List Tree) (h : treeOwnNsL l = true) : Tree.inheritsNsL ctx l = false := by
  cases l with
  | nil => simp [Tree.inheritsNsL]
  | cons t r =>
    simp only [treeOwnNsL, Bool.and_eq_true] at h
    simp [Tree.inheritsNsL, ownNs_inherits ctx t h.1, ownNs_inheritsL ctx r h.2]
end

theorem mergeNode_empty (t : Tree) : mergeNode emptyTree t = t := by
  cases t; simp [mergeNode, emptyTree]

/-- the `,any` *Node field: a tree of the exact class whose root no field takes by name comes back through it -/
theorem field_any (ctx ps : Str) (h : Hdr) (hm : h.mode = .any) (v : Val) (hp hs : List Hdr) (tp ts : List Ty)
    (pv sv : List Val) (h1 : hp.length = tp.length) (h2 : hp.length = pv.length)
    (hnoany : ∀ h' ∈ hp, h'.mode ≠ .any) (tk : List Str)
    (htk : ∀ loc, tk.contains loc = false → ∀ h' ∈ hp ++ h :: hs, ∀ sp, hdrTakes h' ⟨sp, loc⟩ = false)
    (hf : anyFits tk v = true) :
    foldKids (decKid (hp ++ h :: hs) (tp ++ .ptr .node :: ts)) (pv ++ .nil :: sv)
      (viewSL ctx (fieldKids ps h (.ptr .node) v)) = some (pv ++ v :: sv) := by
  cases v with
  | nil => simp only [fieldKids, encD_ptr_nil, ite_self, viewSL, foldKids_nil]
  | ref x =>
    cases x with
    | node t =>
      cases t with
      | mk n a c ns =>
        simp only [anyFits, Bool.and_eq_true, Bool.not_eq_true'] at hf
        obtain ⟨⟨⟨hq, hown⟩, hns⟩, htake⟩ := hf
        have henc : encD ps h.name h.om (.ptr .node) (.ref (.node (.mk n a c ns))) = [encNode (.mk n a c ns)] := by
          simp [encD]
        have hrt := node_rt ctx (.mk n a c ns) hq (ownNs_inherits ctx _ hown) hns
        simp only [fieldKids, hm, or_true, if_true, isEmptyVal, Bool.and_false, Bool.false_eq_true, if_false, henc,
          viewSL_one, foldKids_one, viewS_encNode ctx _ hq]
        have hel : encNode (.mk n a c ns) = .elem n a (encNodes ns ++ txt false c) := by simp [encNode]
        rw [hel, view_elem] at hrt ⊢
        rw [decKid_any hp hs tp ts pv sv h _ _ _ _ _ h1 h2 hm hnoany (fun h' hh => htk n.loc htake h' hh _)]
        have hd : ∀ e, decInto (.ptr .node) .nil e = (decNode e).map fun t => .ref (.node (mergeNode emptyTree t)) := by
          intro e; simp [decInto, zero, Option.map_map]; rfl
        rw [hd, hrt]
        simp [mergeNode_empty]
    | _ => simp [anyFits] at hf
  | _ => simp [anyFits] at hf

end XmppVerif.Proofs.C01S
