import XmppVerif.Proofs.C02BytesRoundTrip
/-
The canonical spelling `unTree` / `unTreeL` of a token-level tree is in the class of the round-trip theorem and
resolves back to the tree: the class of token forests that the byte-level theorems cover contains every forest for
which `unTreeL` answers `some`.
-/
namespace XmppVerif.Proofs.C02Bytes
open XmppVerif.Model.C02 XmppVerif.Model.C02Bytes XmppVerif.Spec.C02Bytes

theorem escChar_char (c : Char) : (escChar c).char = c := by
  unfold escChar
  split
  · rename_i h; subst h; rfl
  · split
    · rename_i h; subst h; rfl
    · split
      · rename_i h; subst h; rfl
      · split
        · rename_i h; subst h; rfl
        · split
          · rename_i h; subst h; rfl
          · split
            · rename_i h; subst h; decide
            · rfl

theorem chars_esc (s : List Char) : chars (esc s) = s := by
  induction s with
  | nil => rfl
  | cons c cs ih =>
    simp only [esc, chars, List.map_cons] at ih ⊢
    rw [escChar_char, ih]

theorem escChar_cases (c : Char) :
    (escChar c = .raw c ∧ c ≠ '<' ∧ c ≠ '>' ∧ c ≠ '&' ∧ c ≠ '"' ∧ c ≠ '\'' ∧ c ≠ '\r') ∨ (∃ e, escChar c = .named e) ∨
      escChar c = .num true ['D'] := by
  unfold escChar
  split
  · exact Or.inr (Or.inl ⟨_, rfl⟩)
  · split
    · exact Or.inr (Or.inl ⟨_, rfl⟩)
    · split
      · exact Or.inr (Or.inl ⟨_, rfl⟩)
      · split
        · exact Or.inr (Or.inl ⟨_, rfl⟩)
        · split
          · exact Or.inr (Or.inl ⟨_, rfl⟩)
          · split
            · exact Or.inr (Or.inr rfl)
            · rename_i h1 h2 h3 h4 h5 h6
              exact Or.inl ⟨rfl, h1, h2, h3, h4, h5, h6⟩

/-- the canonical escaping of XML characters is fine in character data and in either quote -/
theorem esc_ok (q : Option Char) (hq : q = none ∨ q = some '"' ∨ q = some '\'') : ∀ (s : List Char) (p0 p1 : Char),
    s.all isXmlChar = true → piecesOk q p0 p1 (esc s) = true := by
  intro s
  induction s with
  | nil => intro _ _ _; rfl
  | cons c cs ih =>
    intro p0 p1 h
    simp only [List.all_cons, Bool.and_eq_true] at h
    have hcons : esc (c :: cs) = escChar c :: esc cs := rfl
    rw [hcons]
    rcases escChar_cases c with ⟨e, h1, h2, h3, h4, h5, h6⟩ | ⟨e, he⟩ | he
    · rw [e]
      have hqc : (q != some c) = true := by
        rcases hq with e' | e' | e' <;> subst e' <;> simp
        · intro e''; exact h4 e''.symm
        · intro e''; exact h5 e''.symm
      simp [piecesOk, rawOk, h.1, h1, h2, h3, h6, hqc, ih p1 c h.2]
    · rw [he]
      simp only [piecesOk, Piece.ok, Bool.true_and]; exact ih _ _ h.2
    · rw [he]
      have : Piece.ok q (.num true ['D']) = true := by simp only [Piece.ok]; decide
      simp only [piecesOk, this, Bool.true_and]; exact ih _ _ h.2

theorem ofList_toList (s : String) : String.ofList s.toList = s := by simp

theorem unAttr_ok (a : Attr) (x : SAttr) (h : unAttr a = some x) : x.ok = true := by
  unfold unAttr at h
  split at h
  · rename_i hc
    simp only [Bool.and_eq_true] at hc
    split at h
    · injection h with h; subst h
      have := esc_ok (some '"') (Or.inr (Or.inl rfl)) a.value.toList nul nul hc.2
      simp [SAttr.ok, wsOk, isSpace, qnameOk, hc.1, SAttr.quote, this]
    · split at h
      · injection h with h; subst h
        have := esc_ok (some '"') (Or.inr (Or.inl rfl)) a.value.toList nul nul hc.2
        have hx : ncOk xmlnsL = true := by decide
        simp [SAttr.ok, wsOk, isSpace, qnameOk, hc.1, hx, SAttr.quote, this]
      · simp at h
  · simp at h

theorem unAttr_resolve (env : Env) (a : Attr) (x : SAttr) (h : unAttr a = some x) : mkAttr env x.raw = a := by
  unfold unAttr at h
  split at h
  · split at h
    · rename_i hs
      injection h with h; subst h
      obtain ⟨⟨sp, lo⟩, v⟩ := a
      simp only at hs
      subst hs
      simp [mkAttr, SAttr.raw, translate, mkName, chars_esc]
    · split at h
      · rename_i hs
        injection h with h; subst h
        obtain ⟨⟨sp, lo⟩, v⟩ := a
        simp only at hs
        subst hs
        have hx : String.ofList xmlnsL = "xmlns" := by decide
        simp [mkAttr, SAttr.raw, translate, mkName, chars_esc, hx]
      · simp at h
  · simp at h

theorem unAttrs_spec (env : Env) : ∀ (as : List Attr) (xs : List SAttr), unAttrs as = some xs →
    xs.all SAttr.ok = true ∧ (xs.map SAttr.raw).map (mkAttr env) = as := by
  intro as
  induction as with
  | nil => intro xs h; simp [unAttrs] at h; subst h; simp
  | cons a as ih =>
    intro xs h
    simp only [unAttrs] at h
    split at h
    · rename_i x xs' hx hxs
      injection h with h; subst h
      obtain ⟨h1, h2⟩ := ih xs' hxs
      simp [unAttr_ok a x hx, h1, unAttr_resolve env a x hx, h2]
    · simp at h

theorem unTree_text_iff (env : Env) (t : Tree) (x : STree) (h : unTree env t = some x) : x.isText = treeIsText t := by
  cases t with
  | elem n as kids =>
    simp only [unTree] at h
    split at h
    · simp at h
    · split at h
      · simp at h
      · split at h
        · injection h with h; subst h; rfl
        · simp at h
  | text s =>
    simp only [unTree] at h
    split at h
    · injection h with h; subst h; rfl
    · simp at h
  | misc => simp only [unTree] at h; injection h with h; subst h; rfl

theorem unTreeL_head (env : Env) (u : Tree) (r : List Tree) (y : STree) (ys : List STree)
    (h : unTreeL env (u :: r) = some (y :: ys)) : unTree env u = some y := by
  cases r with
  | nil =>
    simp only [unTreeL, Option.map_eq_some_iff] at h
    obtain ⟨x, hx, e⟩ := h
    injection e with e1 _
    rw [hx, e1]
  | cons v w =>
    simp only [unTreeL] at h
    split at h
    · simp at h
    · split at h
      · rename_i x xs hx _
        injection h with h
        injection h with e1 _
        rw [hx, e1]
      · simp at h

mutual
theorem unTree_spec (env : Env) (t : Tree) : ∀ (x : STree), unTree env t = some x → x.ok = true ∧ resolve env x = t := by
  cases t with
  | elem n as kids =>
    intro x h
    simp only [unTree] at h
    split at h
    · simp at h
    · rename_i sas hsas
      split at h
      · simp at h
      · rename_i c hfind
        have hc := List.find?_some hfind
        simp only [Bool.and_eq_true, decide_eq_true_eq] at hc
        split at h
        · rename_i ks hks
          injection h with h; subst h
          obtain ⟨ha1, ha2⟩ := unAttrs_spec (envOf env sas) as sas hsas
          obtain ⟨hk1, hk2⟩ := unTreeL_spec (envOf env sas) kids ks hks
          refine ⟨?_, ?_⟩
          · simp [STree.ok, hc.1, ha1, wsOk, hk1]
          · simp only [resolve, hc.2, ha2, hk2]
        · simp at h
  | text s =>
    intro x h
    simp only [unTree] at h
    split at h
    · rename_i hc
      simp only [Bool.and_eq_true, Bool.not_eq_true'] at hc
      injection h with h; subst h
      refine ⟨?_, ?_⟩
      · have hne : (esc s.toList).isEmpty = false := by
          cases hs : s.toList with
          | nil => simp [hs] at hc
          | cons c cs => simp [esc]
        simp [STree.ok, hne, esc_ok none (Or.inl rfl) s.toList nul nul hc.2]
      · simp [resolve, chars_esc]
    · simp at h
  | misc =>
    intro x h
    simp only [unTree] at h
    injection h with h; subst h
    exact ⟨by decide, rfl⟩
theorem unTreeL_spec (env : Env) (ts : List Tree) : ∀ (xs : List STree), unTreeL env ts = some xs →
    okL xs = true ∧ resolveL env xs = ts := by
  cases ts with
  | nil => intro xs h; simp [unTreeL] at h; subst h; exact ⟨rfl, rfl⟩
  | cons t us =>
    cases us with
    | nil =>
      intro xs h
      simp only [unTreeL, Option.map_eq_some_iff] at h
      obtain ⟨x, hx, e⟩ := h
      subst e
      obtain ⟨h1, h2⟩ := unTree_spec env t x hx
      exact ⟨by simp [okL, h1], by simp [resolveL, h2]⟩
    | cons u r =>
      intro xs h
      simp only [unTreeL] at h
      split at h
      · simp at h
      · rename_i hadj
        split at h
        · rename_i x xs' hx hxs
          injection h with h; subst h
          obtain ⟨h1, h2⟩ := unTree_spec env t x hx
          obtain ⟨h3, h4⟩ := unTreeL_spec env (u :: r) xs' hxs
          -- xs' is non-empty and its head is text iff u is
          cases xs' with
          | nil => simp [resolveL] at h4
          | cons y ys =>
            have hyt := unTree_text_iff env u y (unTreeL_head env u r y ys hxs)
            have hxt := unTree_text_iff env t x hx
            refine ⟨?_, by simp only [resolveL, List.cons.injEq] at h4 ⊢; exact ⟨h2, h4⟩⟩
            simp only [okL, h1, h3, Bool.true_and, Bool.and_true, Bool.not_eq_true', hxt, hyt]
            simpa using hadj
        · simp at h
end

end XmppVerif.Proofs.C02Bytes
