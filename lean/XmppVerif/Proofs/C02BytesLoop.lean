import XmppVerif.Proofs.C02BytesStable
/-
Helper lemmas about the token loop `tokF` / `tokenizeFrom`: the fuel is irrelevant, one lexical step unfolds the loop,
complete tokens are monotone in the input, and the incremental reader (`feed` / `finish`) computes `tokenizeFrom` of
the concatenation.
-/
namespace XmppVerif.Proofs.C02Bytes
open XmppVerif.Model.C02Bytes

theorem lexStep_nil_not_ok (m : Mode) (v : Mode × Ev) (r : List Char) : lexStep m [] ≠ .ok v r := by
  intro h
  have := (good1_lexStep m [] v r h).1
  simp at this

/-- the fuel does not matter once it exceeds the length of the input -/
theorem tokF_stable : ∀ (f g : Nat) (m : Mode) (st : Stack) (cs : List Char), cs.length < f → cs.length < g →
    tokF f m st cs = tokF g m st cs := by
  intro f
  induction f with
  | zero => intro g m st cs h; simp at h
  | succ f ih =>
    intro g m st cs hf hg
    cases g with
    | zero => simp at hg
    | succ g =>
      simp only [tokF]
      split
      · rfl
      · cases hl : lexStep m cs with
        | ok v rest =>
          obtain ⟨m', ev⟩ := v
          have hlen := (good1_lexStep m cs _ _ hl).1
          simp only
          cases applyEv st ev with
          | none => rfl
          | some p =>
            obtain ⟨st', ts⟩ := p
            simp only
            rw [ih g m' st' rest (by omega) (by omega)]
        | okEof v => rfl
        | eof => rfl
        | err => rfl
        | unsup w => rfl

theorem tokenizeFrom_fuel (f : Nat) (m : Mode) (st : Stack) (cs : List Char) (h : cs.length < f) :
    tokF f m st cs = tokenizeFrom m st cs :=
  tokF_stable f (cs.length + 1) m st cs h (Nat.lt_succ_self _)

/-- unfolding by one successful lexical step -/
theorem tokenizeFrom_step {m m' : Mode} {st : Stack} {a r : List Char} {ev : Ev} (h : lexStep m a = .ok (m', ev) r) :
    tokenizeFrom m st a =
      (match applyEv st ev with
       | some (st', ts) => (tokenizeFrom m' st' r).pre ts
       | none => ⟨[], .syntax, false⟩) := by
  have hlen := (good1_lexStep m a _ _ h).1
  have hne : a.isEmpty = false := by cases a <;> simp at hlen ⊢
  unfold tokenizeFrom
  simp only [tokF, hne, Bool.false_and, h]
  cases applyEv st ev with
  | none => simp
  | some p =>
    obtain ⟨st', ts⟩ := p
    simp only [Bool.false_eq_true, if_false]
    rw [tokenizeFrom_fuel a.length m' st' r hlen]
    rfl

theorem tokenizeFrom_nil (st : Stack) : tokenizeFrom .content st [] = ⟨[], endStop st, false⟩ := by
  simp [tokenizeFrom, tokF]

theorem pre_pre (a b : List BTok) (r : Result) : (r.pre b).pre a = r.pre (a ++ b) := by
  simp [Result.pre]

theorem pre_nil (r : Result) : r.pre [] = r := by
  simp [Result.pre]

/-- the loop never runs out of the fuel `tokenizeFrom` gives it -/
theorem tokF_no_fuel : ∀ (f : Nat) (m : Mode) (st : Stack) (cs : List Char), cs.length < f → (tokF f m st cs).stop ≠ .fuel := by
  intro f
  induction f with
  | zero => intro m st cs h; simp at h
  | succ f ih =>
    intro m st cs hf
    simp only [tokF]
    split
    · simp only [endStop]; split <;> simp
    · cases hl : lexStep m cs with
      | ok v rest =>
        obtain ⟨m', ev⟩ := v
        have hlen := (good1_lexStep m cs _ _ hl).1
        simp only
        cases applyEv st ev with
        | none => simp
        | some p =>
          obtain ⟨st', ts⟩ := p
          simp only [Result.pre]
          exact ih m' st' rest (by omega)
      | okEof v =>
        simp only
        cases applyEv st v.2 with
        | none => simp
        | some p => simp only [endStop]; split <;> simp
      | eof => simp
      | err => simp
      | unsup w => simp

theorem bind_noEof {α β : Type} (x : R α) (f : α → List Char → R β) (hf : ∀ a r v, f a r ≠ .okEof v) (v : β) :
    x.bind f ≠ .okEof v := by
  cases x <;> simp [R.bind]
  exact hf _ _ _

theorem noEof_lexEndTag (cs : List Char) (v) : lexEndTag cs ≠ .okEof v := by
  unfold lexEndTag
  exact bind_noEof _ _ (fun _ _ v => bind_noEof _ _ (fun _ _ v => bind_noEof _ _ (fun _ _ v => by simp) v) v) v

theorem noEof_lexPI (cs : List Char) (v) : lexPI cs ≠ .okEof v := by
  unfold lexPI
  refine bind_noEof _ _ (fun _ _ v => bind_noEof _ _ (fun _ _ v => bind_noEof _ _ (fun _ _ v => ?_) v) v) v
  split <;> simp

theorem noEof_lexComment (cs : List Char) (v) : lexComment cs ≠ .okEof v := by
  unfold lexComment
  exact bind_noEof _ _ (fun _ _ v => by simp) v

theorem noEof_lexCData (cs : List Char) (v) : lexCData cs ≠ .okEof v := by
  unfold lexCData
  exact bind_noEof _ _ (fun _ _ v => bind_noEof _ _ (fun _ _ v => by simp) v) v

theorem noEof_lexBang (cs : List Char) (v) : lexBang cs ≠ .okEof v := by
  unfold lexBang
  split
  · simp
  · exact bind_noEof _ _ (fun _ _ v => noEof_lexComment _ v) v
  · exact noEof_lexCData _ v
  · simp

theorem noEof_lexMarkup (cs : List Char) (v) : lexMarkup cs ≠ .okEof v := by
  unfold lexMarkup
  split
  · simp
  · exact noEof_lexEndTag _ v
  · exact noEof_lexPI _ v
  · exact noEof_lexBang _ v
  · exact bind_noEof _ _ (fun _ _ v => by simp) v

theorem noEof_lexAttr (q : QName) (as : List RawAttr) (cs : List Char) (v) : lexAttr q as cs ≠ .okEof v := by
  unfold lexAttr
  exact bind_noEof _ _ (fun _ _ v => bind_noEof _ _ (fun _ _ v => bind_noEof _ _ (fun _ _ v =>
    bind_noEof _ _ (fun _ _ v => bind_noEof _ _ (fun _ _ v => bind_noEof _ _ (fun _ _ v => by simp) v) v) v) v) v) v

theorem noEof_lexTagBody (q : QName) (as : List RawAttr) (cs : List Char) (v) : lexTagBody q as cs ≠ .okEof v := by
  unfold lexTagBody
  split
  · simp
  · exact bind_noEof _ _ (fun _ _ v => by simp) v
  · simp
  · exact noEof_lexAttr _ _ _ v

theorem noEof_lexTag (q : QName) (as : List RawAttr) (cs : List Char) (v) : lexTag q as cs ≠ .okEof v := by
  unfold lexTag
  exact bind_noEof _ _ (fun _ _ v => noEof_lexTagBody _ _ _ v) v

/-- the only lexical step that the end of the input can complete is plain character data -/
theorem lexStep_okEof {m : Mode} {a : List Char} {v : Mode × Ev} (h : lexStep m a = .okEof v) : ∃ t, v.2 = .text t := by
  cases m with
  | content =>
    simp only [lexStep] at h
    cases a with
    | nil => simp [lexContent] at h
    | cons c cs =>
      simp only [lexContent] at h
      split at h
      · exact absurd h (noEof_lexMarkup _ _)
      · unfold lexText at h
        split at h <;> simp at h
        exact ⟨_, by rw [← h]⟩
  | tag q as => exact absurd h (noEof_lexTag _ _ _ _)

theorem applyEv_text (st : Stack) (t : List Char) : applyEv st (.text t) = some (st, [.text (String.ofList t)]) := rfl

theorem complete_pre (ts : List BTok) (r : Result) (h : r.cut = true → r.toks ≠ []) :
    (r.pre ts).complete = ts ++ r.complete := by
  unfold Result.complete Result.pre
  simp only
  split
  · rename_i hc
    rw [List.dropLast_append_of_ne_nil (h hc)]
  · rfl

/-- whenever the result is marked `cut` there is a last token to drop -/
theorem cut_nonempty : ∀ (f : Nat) (m : Mode) (st : Stack) (cs : List Char), (tokF f m st cs).cut = true → (tokF f m st cs).toks ≠ [] := by
  intro f
  induction f with
  | zero => intro m st cs h; simp [tokF] at h
  | succ f ih =>
    intro m st cs
    simp only [tokF]
    split
    · simp
    · cases hl : lexStep m cs with
      | ok v rest =>
        obtain ⟨m', ev⟩ := v
        simp only
        cases applyEv st ev with
        | none => simp
        | some p =>
          obtain ⟨st', ts⟩ := p
          simp only [Result.pre]
          intro hc
          have := ih m' st' rest hc
          simp [this]
      | okEof v =>
        obtain ⟨t, ht⟩ := lexStep_okEof hl
        simp only [ht, applyEv_text]
        simp
      | eof => simp
      | err => simp
      | unsup w => simp

theorem cut_nonempty' (m : Mode) (st : Stack) (cs : List Char) :
    (tokenizeFrom m st cs).cut = true → (tokenizeFrom m st cs).toks ≠ [] := cut_nonempty _ _ _ _

/-- **prefix monotonicity**: the complete tokens of an input are a prefix of the complete tokens of every extension -/
theorem complete_mono : ∀ (n : Nat) (m : Mode) (st : Stack) (a b : List Char), a.length ≤ n →
    (tokenizeFrom m st a).complete <+: (tokenizeFrom m st (a ++ b)).complete := by
  intro n
  induction n with
  | zero =>
    intro m st a b h
    have : a = [] := by cases a <;> simp_all
    subst this
    -- nothing complete can come out of an empty input
    unfold tokenizeFrom
    simp only [List.length_nil, Nat.zero_add, tokF]
    split
    · simp [Result.complete]
    · cases hl : lexStep m [] with
      | ok v rest => exact absurd hl (lexStep_nil_not_ok m v rest)
      | okEof v =>
        obtain ⟨t, ht⟩ := lexStep_okEof hl
        simp [ht, applyEv_text, Result.complete]
      | eof => simp [Result.complete]
      | err => simp [Result.complete]
      | unsup w => simp [Result.complete]
  | succ n ih =>
    intro m st a b h
    cases hl : lexStep m a with
    | ok v rest =>
      obtain ⟨m', ev⟩ := v
      obtain ⟨hlen, hst⟩ := good1_lexStep m a _ _ hl
      rw [tokenizeFrom_step hl, tokenizeFrom_step (hst b)]
      cases applyEv st ev with
      | none => simp [Result.complete]
      | some p =>
        obtain ⟨st', ts⟩ := p
        simp only
        rw [complete_pre _ _ (cut_nonempty' m' st' rest), complete_pre _ _ (cut_nonempty' m' st' (rest ++ b))]
        exact (List.prefix_append_right_inj ts).mpr (ih m' st' rest b (by omega))
    | okEof v =>
      obtain ⟨t, ht⟩ := lexStep_okEof hl
      have : (tokenizeFrom m st a).complete = [] := by
        unfold tokenizeFrom
        simp only [tokF, hl, ht, applyEv_text]
        split <;> simp [Result.complete]
      rw [this]; exact List.nil_prefix
    | eof =>
      have : (tokenizeFrom m st a).complete = [] := by
        unfold tokenizeFrom
        simp only [tokF, hl]
        split <;> simp [Result.complete]
      rw [this]; exact List.nil_prefix
    | err =>
      have : (tokenizeFrom m st a).complete = [] := by
        unfold tokenizeFrom
        simp only [tokF, hl]
        split <;> simp [Result.complete]
      rw [this]; exact List.nil_prefix
    | unsup w =>
      have : (tokenizeFrom m st a).complete = [] := by
        unfold tokenizeFrom
        simp only [tokF, hl]
        split <;> simp [Result.complete]
      rw [this]; exact List.nil_prefix

theorem applyEv_le2 {st st' : Stack} {ev : Ev} {ts : List BTok} (h : applyEv st ev = some (st', ts)) : ts.length ≤ 2 := by
  cases ev with
  | none => simp only [applyEv, Option.some.injEq, Prod.mk.injEq] at h; rw [← h.2]; simp
  | text s => simp only [applyEv, Option.some.injEq, Prod.mk.injEq] at h; rw [← h.2]; simp
  | comment s => simp only [applyEv, Option.some.injEq, Prod.mk.injEq] at h; rw [← h.2]; simp
  | pi t d => simp only [applyEv, Option.some.injEq, Prod.mk.injEq] at h; rw [← h.2]; simp
  | startTag q as sc =>
    simp only [applyEv] at h
    split at h <;> (injection h with h; injection h with _ h2; simp [← h2])
  | endTag q =>
    simp only [applyEv] at h
    split at h
    · simp at h
    · split at h
      · simp at h
      · split at h
        · simp at h
        · injection h with h; injection h with _ h2; simp [← h2]

/-- at most two tokens per character of input -/
theorem tokF_bound : ∀ (f : Nat) (m : Mode) (st : Stack) (cs : List Char), (tokF f m st cs).toks.length ≤ 2 * cs.length := by
  intro f
  induction f with
  | zero => intro m st cs; simp [tokF]
  | succ f ih =>
    intro m st cs
    simp only [tokF]
    split
    · simp
    · rename_i hguard
      cases hl : lexStep m cs with
      | ok v rest =>
        obtain ⟨m', ev⟩ := v
        have hlen := (good1_lexStep m cs _ _ hl).1
        simp only
        cases ha : applyEv st ev with
        | none => simp
        | some p =>
          obtain ⟨st', ts⟩ := p
          have h2 := applyEv_le2 ha
          have := ih m' st' rest
          simp only [Result.pre, List.length_append]
          omega
      | okEof v =>
        obtain ⟨t, ht⟩ := lexStep_okEof hl
        have hne : cs ≠ [] := by
          intro e
          subst e
          cases m with
          | content => simp [lexStep, lexContent] at hl
          | tag q as => exact absurd hl (noEof_lexTag _ _ _ _)
        have : 1 ≤ cs.length := by cases cs <;> simp_all
        simp only [ht, applyEv_text, List.length_singleton]
        omega
      | eof => simp
      | err => simp
      | unsup w => simp

/-! ### the incremental reader -/

/-- what a decoder state means: the tokens delivered so far, then the run on what is buffered plus what is to come -/
def sem (d : Dec) (future : List Char) : Result := (tokenizeFrom d.mode d.stack (d.buf ++ future)).pre d.out

theorem drain_sem : ∀ (f : Nat) (d : Dec) (future : List Char), sem (drain f d) future = sem d future := by
  intro f
  induction f with
  | zero => intro d future; rfl
  | succ f ih =>
    intro d future
    simp only [drain]
    cases hl : lexStep d.mode d.buf with
    | ok v rest =>
      obtain ⟨m', ev⟩ := v
      simp only
      cases ha : applyEv d.stack ev with
      | none => rfl
      | some p =>
        obtain ⟨st', ts⟩ := p
        simp only
        rw [ih]
        have hst := (good1_lexStep d.mode d.buf _ _ hl).2 future
        simp only [sem]
        rw [tokenizeFrom_step hst, ha]
        simp only [pre_pre]
    | okEof v => rfl
    | eof => rfl
    | err => rfl
    | unsup w => rfl

theorem feed_sem (d : Dec) (chunk future : List Char) : sem (feed d chunk) future = sem d (chunk ++ future) := by
  unfold feed
  rw [drain_sem]
  simp [sem, List.append_assoc]

theorem feedAll_sem : ∀ (chunks : List (List Char)) (d : Dec) (future : List Char),
    sem (chunks.foldl feed d) future = sem d (chunks.flatten ++ future) := by
  intro chunks
  induction chunks with
  | nil => intro d future; simp
  | cons c cs ih =>
    intro d future
    simp only [List.foldl_cons, List.flatten_cons, List.append_assoc]
    rw [ih, feed_sem]

theorem finish_eq_sem (d : Dec) : finish d = sem d [] := by simp [finish, sem]

/-- a decoder is quiescent when nothing more is complete in its buffer -/
def Quiet (d : Dec) : Prop :=
  ∀ m' ev rest, lexStep d.mode d.buf = .ok (m', ev) rest → applyEv d.stack ev = none

theorem drain_quiet : ∀ (f : Nat) (d : Dec), d.buf.length ≤ f → Quiet (drain f d) := by
  intro f
  induction f with
  | zero =>
    intro d h m' ev rest hl
    have : d.buf = [] := by cases hb : d.buf <;> simp_all
    simp only [drain] at hl
    rw [this] at hl
    exact absurd hl (lexStep_nil_not_ok _ _ _)
  | succ f ih =>
    intro d h
    simp only [drain]
    cases hl : lexStep d.mode d.buf with
    | ok v rest =>
      obtain ⟨m', ev⟩ := v
      simp only
      cases ha : applyEv d.stack ev with
      | none =>
        intro m2 ev2 rest2 hl2
        simp only [hl] at hl2
        injection hl2 with h1 h2
        injection h1 with h3 h4
        subst h4
        exact ha
      | some p =>
        obtain ⟨st', ts⟩ := p
        simp only
        apply ih
        have := (good1_lexStep d.mode d.buf _ _ hl).1
        simp only; omega
    | okEof v => intro m2 ev2 rest2 hl2; simp [hl] at hl2
    | eof => intro m2 ev2 rest2 hl2; simp [hl] at hl2
    | err => intro m2 ev2 rest2 hl2; simp [hl] at hl2
    | unsup w => intro m2 ev2 rest2 hl2; simp [hl] at hl2

theorem quiet_complete (d : Dec) (h : Quiet d) : (tokenizeFrom d.mode d.stack d.buf).complete = [] := by
  unfold tokenizeFrom
  simp only [tokF]
  split
  · simp [Result.complete]
  · cases hl : lexStep d.mode d.buf with
    | ok v rest =>
      obtain ⟨m', ev⟩ := v
      simp [h m' ev rest hl, Result.complete]
    | okEof v =>
      obtain ⟨t, ht⟩ := lexStep_okEof hl
      simp [ht, applyEv_text, Result.complete]
    | eof => simp [Result.complete]
    | err => simp [Result.complete]
    | unsup w => simp [Result.complete]

theorem drain_out_mono : ∀ (f : Nat) (d : Dec), ∃ ts, (drain f d).out = d.out ++ ts := by
  intro f
  induction f with
  | zero => intro d; exact ⟨[], by simp [drain]⟩
  | succ f ih =>
    intro d
    simp only [drain]
    cases lexStep d.mode d.buf with
    | ok v rest =>
      obtain ⟨m', ev⟩ := v
      simp only
      cases applyEv d.stack ev with
      | none => exact ⟨[], by simp⟩
      | some p =>
        obtain ⟨st', ts⟩ := p
        obtain ⟨us, hu⟩ := ih ⟨m', st', rest, d.out ++ ts⟩
        exact ⟨ts ++ us, by simp [hu, List.append_assoc]⟩
    | okEof v => exact ⟨[], by simp⟩
    | eof => exact ⟨[], by simp⟩
    | err => exact ⟨[], by simp⟩
    | unsup w => exact ⟨[], by simp⟩

end XmppVerif.Proofs.C02Bytes
