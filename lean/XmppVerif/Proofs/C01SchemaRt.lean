import XmppVerif.Proofs.C01SchemaField
set_option linter.unusedSimpArgs false
/- Helper lemmas for Props/C01Schema.lean, part 4: all fields of a struct; a struct given its fields. -/
namespace XmppVerif.Proofs.C01S
open XmppVerif.Model.C01 hiding Schema Field FKind FVal FlatVal schemas fld conforms fvalOk encField decField decFields
open XmppVerif.Model.C01S XmppVerif.Spec.C01 XmppVerif.Props.C01 XmppVerif.Proofs.C01

def AllFieldsOK (pns : Bool) : List Hdr → List Ty → Prop
  | h :: hs, t :: ts => (h.mode = .elem → FieldOK pns h t) ∧ (h.mode = .any → t = .ptr .node) ∧ AllFieldsOK pns hs ts
  | _, _ => True

theorem encKids_cons (ps : Str) (h : Hdr) (hs : List Hdr) (t : Ty) (ts : List Ty) (v : Val) (vs : List Val) :
    encKids ps (h :: hs) (t :: ts) (v :: vs) = fieldKids ps h t v ++ encKids ps hs ts vs := by
  rw [encKids]; rfl

theorem hdrOk_mode (h : Hdr) (hk : hdrOk h = true) : h.mode = .attr ∨ h.mode = .elem ∨ h.mode = .any := by
  cases hm : h.mode <;> simp [hdrOk, hm] at hk <;> simp

theorem not_takes_attr (h : Hdr) (hm : h.mode = .attr) (n : Name) : hdrTakes h n = false := by
  simp [hdrTakes, hm]

theorem elemNames_cons (h : Hdr) (hs : List Hdr) :
    elemNames (h :: hs) = (if h.mode = .elem ∨ h.mode = .any then [h.name.loc] else []) ++ elemNames hs := by
  simp [elemNames]

theorem elemNames_append (a b : List Hdr) : elemNames (a ++ b) = elemNames a ++ elemNames b := by
  induction a with
  | nil => simp [elemNames]
  | cons x xs ih => simp [elemNames_cons, ih]

theorem mem_elemNames (h : Hdr) (hs : List Hdr) (hm : h ∈ hs) (he : h.mode = .elem ∨ h.mode = .any) :
    h.name.loc ∈ elemNames hs := by
  induction hs with
  | nil => simp at hm
  | cons x xs ih =>
    rw [elemNames_cons]
    rcases List.mem_cons.mp hm with e | e
    · subst e; simp [he]
    · simp [ih e]

/-- a name that is not among the takers' names is taken by no field -/
theorem not_takes_of_not_mem (L : List Hdr) (loc : Str) (h : (elemNames L).contains loc = false) :
    ∀ h' ∈ L, ∀ sp, hdrTakes h' ⟨sp, loc⟩ = false := by
  intro h' hh sp
  by_cases hm : h'.mode = .elem ∨ h'.mode = .any
  · have := mem_elemNames h' L hh hm
    have hne : h'.name.loc ≠ loc := by
      intro e; rw [e] at this
      have hc : (elemNames L).contains loc = true := by simpa using this
      rw [hc] at h; cases h
    simp [hdrTakes, hne]
  · have h1 : ¬ h'.mode = .elem := fun e => hm (Or.inl e)
    have h2 : ¬ h'.mode = .any := fun e => hm (Or.inr e)
    simp [hdrTakes, h1, h2]

theorem anyCount_append (a b : List Hdr) : anyCount (a ++ b) = anyCount a + anyCount b := by
  induction a with
  | nil => simp [anyCount]
  | cons x xs ih => simp [anyCount, ih]; omega

theorem anyCount_zero (a : List Hdr) (h : anyCount a = 0) : ∀ h' ∈ a, h'.mode ≠ .any := by
  induction a with
  | nil => simp
  | cons x xs ih =>
    intro h' hh
    simp only [anyCount] at h
    rcases List.mem_cons.mp hh with e | e
    · subst e; intro hm; simp [hm] at h
    · exact ih (by omega) h' e

/-- the child loop over everything a struct's fields wrote, starting from what the attribute loop left -/
theorem fields_fold (pns : Bool) (ctx ps : Str) (hps : pns = true → ps ≠ []) (tk : List Str) :
    ∀ (hs : List Hdr) (ts : List Ty) (vs : List Val) (hp : List Hdr) (tp : List Ty) (pv : List Val),
      hp.length = tp.length → hp.length = pv.length → hs.all hdrOk = true → AllFieldsOK pns hs ts →
      Val.fitsFields tk hs ts vs = true → distinct (elemNames hs) = true →
      (∀ h ∈ hs, (h.mode = .elem ∨ h.mode = .any) → noneTakes hp h.name.loc) →
      tk = elemNames (hp ++ hs) → anyCount (hp ++ hs) ≤ 1 →
      foldKids (decKid (hp ++ hs) (tp ++ ts)) (pv ++ attrPart hs ts vs) (viewSL ctx (encKids ps hs ts vs)) =
        some (pv ++ vs)
  | [], [], [], hp, tp, pv, _, _, _, _, _, _, _, _, _ => by simp [encKids, viewSL, foldKids_nil, attrPart]
  | [], [], _ :: _, _, _, _, _, _, _, _, hf, _, _, _, _ => by simp [Val.fitsFields] at hf
  | [], _ :: _, vs, _, _, _, _, _, _, _, hf, _, _, _, _ => by cases vs <;> simp [Val.fitsFields] at hf
  | _ :: _, [], vs, _, _, _, _, _, _, _, hf, _, _, _, _ => by cases vs <;> simp [Val.fitsFields] at hf
  | _ :: _, _ :: _, [], _, _, _, _, _, _, _, hf, _, _, _, _ => by simp [Val.fitsFields] at hf
  | h :: hs, t :: ts, v :: vs, hp, tp, pv, h1, h2, hok, hall, hf, hd, hno, htk, hac => by
    simp only [List.all_cons, Bool.and_eq_true] at hok
    rw [fitsFields_cons, Bool.and_eq_true] at hf
    have hd' : distinct (elemNames hs) = true := by
      rw [elemNames_cons] at hd
      by_cases hm : h.mode = .elem ∨ h.mode = .any
      · simp only [hm, if_true, List.singleton_append, distinct, Bool.and_eq_true] at hd; exact hd.2
      · simpa [hm] using hd
    have hno' : ∀ h2 ∈ hs, (h2.mode = .elem ∨ h2.mode = .any) → noneTakes (hp ++ [h]) h2.name.loc := by
      intro h2 hm2 he2 h' hh' sp
      rcases List.mem_append.mp hh' with e | e
      · exact hno h2 (by simp [hm2]) he2 h' e sp
      · have e' : h' = h := by simpa using e
        subst e'
        by_cases hm : h'.mode = .elem ∨ h'.mode = .any
        · have hne : h'.name.loc ≠ h2.name.loc := by
            intro e2
            rw [elemNames_cons] at hd
            simp only [hm, if_true, List.singleton_append, distinct, Bool.and_eq_true, Bool.not_eq_true'] at hd
            have := mem_elemNames h2 hs hm2 he2
            rw [← e2] at this
            have hc : (elemNames hs).contains h'.name.loc = true := by simpa using this
            rw [hc] at hd; exact absurd hd.1 (by simp)
          simp [hdrTakes, hne]
        · have h1' : ¬ h'.mode = .elem := fun e => hm (Or.inl e)
          have h2' : ¬ h'.mode = .any := fun e => hm (Or.inr e)
          simp [hdrTakes, h1', h2']
    have ih := fields_fold pns ctx ps hps tk hs ts vs (hp ++ [h]) (tp ++ [t]) (pv ++ [v]) (by simp [h1]) (by simp [h2])
      hok.2 hall.2.2 hf.2 hd' hno' (by simpa using htk) (by simpa using hac)
    simp only [List.append_assoc, List.singleton_append] at ih
    rw [encKids_cons, viewSL_append, foldKids_append, attrPart]
    rcases hdrOk_mode h hok.1 with hm | hm | hm
    · have : fieldKids ps h t v = [] := by simp [fieldKids, hm]
      rw [this]
      simp only [viewSL, foldKids_nil, hm, if_true, Option.bind]
      exact ih
    · have hna : ¬ h.mode = .attr := by rw [hm]; simp
      have hny : ¬ h.mode = .any := by rw [hm]; simp
      have hfo := hall.1 hm ctx ps v hp hs tp ts pv (attrPart hs ts vs) hps h1 h2 (hno h (by simp) (Or.inl hm))
        (by simpa [hny] using hf.1)
      rw [if_neg hna, hfo]
      simp only [Option.bind]
      exact ih
    · have hna : ¬ h.mode = .attr := by rw [hm]; simp
      have ht : t = .ptr .node := hall.2.1 hm
      subst ht
      have hnoany : ∀ h' ∈ hp, h'.mode ≠ .any := by
        rw [anyCount_append] at hac
        simp only [anyCount, hm, if_true] at hac
        exact anyCount_zero hp (by omega)
      have hfa := field_any ctx ps h hm v hp hs tp ts pv (attrPart hs ts vs) h1 h2 hnoany tk
        (fun loc hl => not_takes_of_not_mem _ loc (by rw [← htk]; exact hl)) (by simpa [hm] using hf.1)
      rw [if_neg hna, zero_ptr, hfa]
      simp only [Option.bind]
      exact ih


/-! ### element types -/
theorem prim_rt (k : Prim) (fn : Name) (pns : Bool) (hleg : legal fn.space = true) (hne : fn.loc ≠ []) :
    RtE (.prim k) fn pns := by
  intro ctx ps om v _ hf
  have hp : primFits k v = true := by simpa [Val.fitsE] using hf
  refine ⟨fn, [], txt true (primText v), ?_, rfl, ?_, ?_⟩
  · simp [encD, hne]
  · by_cases hz : fn.space = []
    · exact Or.inl hz
    · right; simp [nsOfS, hz, sanitize_legal _ hleg]
  · rw [viewS_elem]
    simp only [decInto, viewSL_txt _ _ _ (legal_primText k v hp), contentOf_txt, copyValue_primText k v hp]

theorem innerVal_nil : ∀ (hs : List Hdr) (vs : List Val), hs.all hdrOk = true → innerVal hs vs = []
  | [], _, _ => by simp [innerVal]
  | _ :: _, [], _ => by simp [innerVal]
  | h :: hs, v :: vs, hok => by
    simp only [List.all_cons, Bool.and_eq_true] at hok
    have hm : ¬ h.mode = .innerxml := by
      rcases hdrOk_mode h hok.1 with e | e | e <;> rw [e] <;> simp
    simp [innerVal, hm, innerVal_nil hs vs hok.2]

theorem hasMode_innerxml (hs : List Hdr) (hok : hs.all hdrOk = true) : hasMode .innerxml hs = false := by
  simp only [hasMode, List.any_eq_false, beq_iff_eq]
  intro h hh e
  rcases hdrOk_mode h (List.all_eq_true.mp hok h hh) with e' | e' | e' <;> rw [e'] at e <;> cases e

theorem decInto_struct (tn : Str) (xn : XN) (hs : List Hdr) (ts : List Ty) (dn : Name) (vs : List Val) (n : Name)
    (a : List Attr) (ks : List El) :
    decInto (.struct tn xn hs ts) (.struct dn vs) (.elem n a ks) =
      if xnAccepts xn n then
        match decAttrsF a hs ts vs with
        | none => none
        | some vs1 =>
          match foldKids (decKid hs ts) vs1 ks with
          | none => none
          | some vs2 =>
            if hasMode .innerxml hs then (innerOf ks).map fun s => .struct (if xn = .dyn then n else dn) (setInner hs vs2 s)
            else some (.struct (if xn = .dyn then n else dn) vs2)
      else none := by
  rw [decInto]
  rfl

theorem attrPairs_ok (pns : Bool) (tk : List Str) : ∀ (hs : List Hdr) (ts : List Ty) (vs : List Val),
    hs.all hdrOk = true → Ty.wfFields pns hs ts = true → Val.fitsFields tk hs ts vs = true →
    (attrPairs hs ts vs).all pairOk = true
  | [], _, _, _, _, _ => by simp [attrPairs]
  | _ :: _, [], _, _, _, _ => by simp [attrPairs]
  | _ :: _, _ :: _, [], _, _, _ => by simp [attrPairs]
  | h :: hs, t :: ts, v :: vs, hok, hwf, hf => by
    simp only [List.all_cons, Bool.and_eq_true] at hok
    rw [wfFields_cons, Bool.and_eq_true] at hwf
    rw [fitsFields_cons, Bool.and_eq_true] at hf
    have ih := attrPairs_ok pns tk hs ts vs hok.2 hwf.2 hf.2
    rw [attrPairs_cons]
    by_cases hm : h.mode = .attr
    · have hk : keyOk h.name.loc = true := by
        have := hok.1; simp only [hdrOk, hm, Bool.and_eq_true] at this; exact this.2
      have hty : attrTyOk t = true := by simpa [hm] using hwf.1
      have hna : ¬ h.mode = .any := by rw [hm]; simp
      have haf := attr_field h t v hty (by simpa [hna] using hf.1)
      simp only [hm, if_true, List.singleton_append, List.all_cons, ih, Bool.and_true, pairOk, hk, Bool.true_and]
      cases ho : attrOut h t v with
      | none => rfl
      | some s => rw [ho] at haf; exact haf.1
    · simpa [hm] using ih

theorem fitsFields_len (tk : List Str) : ∀ (hs : List Hdr) (ts : List Ty) (vs : List Val),
    Val.fitsFields tk hs ts vs = true → hs.length = ts.length ∧ hs.length = vs.length
  | [], [], [], _ => by simp
  | [], [], _ :: _, h => by simp [Val.fitsFields] at h
  | [], _ :: _, vs, h => by cases vs <;> simp [Val.fitsFields] at h
  | _ :: _, [], vs, h => by cases vs <;> simp [Val.fitsFields] at h
  | _ :: _, _ :: _, [], h => by simp [Val.fitsFields] at h
  | h :: hs, t :: ts, v :: vs, hf => by
    rw [fitsFields_cons, Bool.and_eq_true] at hf
    have := fitsFields_len tk hs ts vs hf.2
    simp only [List.length_cons]
    omega

theorem attrNames_keyOk : ∀ (hs : List Hdr), hs.all hdrOk = true → (attrNames hs).all keyOk = true
  | [], _ => by simp [attrNames]
  | h :: hs, hok => by
    simp only [List.all_cons, Bool.and_eq_true] at hok
    have ih := attrNames_keyOk hs hok.2
    by_cases hm : h.mode = .attr
    · have hk : keyOk h.name.loc = true := by
        have := hok.1; simp only [hdrOk, hm, Bool.and_eq_true] at this; exact this.2
      simp [attrNames, hm, hk, ih]
    · simpa [attrNames, hm] using ih

theorem encD_struct (ps : Str) (fn : Name) (om : Bool) (tn : Str) (xn : XN) (hs : List Hdr) (ts : List Ty) (dn : Name)
    (vs : List Val) :
    encD ps fn om (.struct tn xn hs ts) (.struct dn vs) =
      [.elem (startName tn xn dn fn) (mkAttrs (attrPairs hs ts vs) ++ emptyNsAttr xn (startName tn xn dn fn) ps)
        (encKids (startName tn xn dn fn).space hs ts vs ++
          (if (innerVal hs vs).isEmpty then [] else [.raw (innerVal hs vs)]))] := by
  rw [encD]

theorem viewAttrs_mkAttrs_append (pairs : List (Str × Option Str)) (tail : List Attr) (decl : List Str)
    (h : pairs.all pairOk = true) : viewAttrs (mkAttrs pairs ++ tail) decl = mkAttrs pairs ++ viewAttrs tail decl := by
  induction pairs with
  | nil => simp [mkAttrs]
  | cons p ps ih =>
    simp only [List.all_cons, Bool.and_eq_true] at h
    obtain ⟨k, o⟩ := p
    cases o with
    | none => simpa [mkAttrs] using ih h.2
    | some v =>
      have hk : keyOk k = true ∧ legal v = true := by simpa [pairOk] using h.1
      have hl : k ≠ [] := by
        intro e; have := hk.1; rw [e] at this; simp [keyOk, nameOk] at this
      simp only [mkAttrs, List.cons_append, viewAttrs, hl, if_false, if_true, sanitize_legal v hk.2, ih h.2]

theorem attrValsK_append_other (k : Str) (l tail : List Attr) (h : ∀ x ∈ tail, x.name.loc ≠ k) :
    attrValsK k (l ++ tail) = attrValsK k l := by
  have : tail.filter (fun a => a.name.loc == k) = [] := by
    rw [List.filter_eq_nil_iff]; intro x hx; simpa using h x hx
  simp [attrValsK, List.filter_append, this]

/-- the facts about the start element of a struct that the rest of the proof uses -/
theorem struct_start (tn : Str) (xn : XN) (fn : Name) (pns : Bool) (hne : fn.loc ≠ []) (hxn : xnOk fn pns xn = true)
    (ctx ps : Str) (hps : pns = true → ps ≠ []) (pairs : List (Str × Option Str)) (hpo : pairs.all pairOk = true)
    (hkeys : (pairs.map (·.1)).all keyOk = true) :
    let dn : Name := if xn = .dyn then ⟨[], fn.loc⟩ else noName
    let nm := startName tn xn dn fn
    let A := mkAttrs pairs ++ emptyNsAttr xn nm ps
    nm.loc = fn.loc ∧ (fn.space = [] ∨ nsOfS ctx nm A = fn.space) ∧
      xnAccepts xn ⟨nsOfS ctx nm A, nm.loc⟩ = true ∧
      (if xn = .dyn then (⟨nsOfS ctx nm A, nm.loc⟩ : Name) else noName) = dn ∧
      (ownNs fn xn = true → nm.space ≠ []) ∧
      (∃ tail, viewAttrs A [] = mkAttrs pairs ++ tail ∧ ∀ x ∈ tail, x.name.loc = xmlnsL) := by
  intro dn nm A
  cases xn with
  | dyn =>
    simp only [xnOk, Bool.and_eq_true, List.isEmpty_iff] at hxn
    have hps' := hps hxn.1
    have hnm : nm = ⟨[], fn.loc⟩ := by simp [nm, dn, startName, hne]
    have hA : A = mkAttrs pairs ++ [⟨⟨[], xmlnsL⟩, []⟩] := by simp [A, emptyNsAttr, hnm, hps']
    have hdecl : declNs A = some [] := by
      rw [hA, declNs_mkAttrs pairs _ hkeys]; simp [declNs, xmlnsL]
    have hns : nsOfS ctx nm A = [] := by simp [nsOfS, hnm, hdecl, sanitize]
    refine ⟨by simp [hnm], Or.inl hxn.2, by simp [xnAccepts], ?_, by simp [ownNs], ?_⟩
    · rw [hns, hnm]
    refine ⟨[⟨⟨[], xmlnsL⟩, []⟩], ?_, by simp⟩
    rw [hA, viewAttrs_mkAttrs_append pairs _ [] hpo]
    simp [viewAttrs, xmlnsL, sanitize]
  | absent =>
    have hnm : nm = fn := by simp [nm, startName, hne]
    have hA : A = mkAttrs pairs := by simp [A, emptyNsAttr]
    have hdecl : declNs A = none := by
      have := declNs_mkAttrs pairs [] hkeys; simpa [hA, declNs] using this
    have hleg : legal fn.space = true := by simpa [xnOk] using hxn
    refine ⟨by simp [hnm], ?_, by simp [xnAccepts], by simp [dn], ?_, ⟨[], by simp [hA, viewAttrs_mkAttrs pairs [] hpo], by simp⟩⟩
    · by_cases hz : fn.space = []
      · exact Or.inl hz
      · right; rw [nsOfS_plain _ _ _ hdecl, hnm, nsOf, if_neg hz, sanitize_legal _ hleg]
    · intro ho; rw [hnm]; simpa [ownNs] using ho
  | tag n =>
    simp only [xnOk, Bool.and_eq_true, beq_iff_eq, Bool.or_eq_true, List.isEmpty_iff] at hxn
    have hnm : nm = n := by simp [nm, startName]
    have hA : A = mkAttrs pairs := by simp [A, emptyNsAttr]
    have hdecl : declNs A = none := by
      have := declNs_mkAttrs pairs [] hkeys; simpa [hA, declNs] using this
    have hview : nsOfS ctx nm A = nsOf ctx n := by rw [nsOfS_plain _ _ _ hdecl, hnm]
    refine ⟨by rw [hnm]; exact hxn.1.1, ?_, ?_, by simp [dn], ?_, ⟨[], by simp [hA, viewAttrs_mkAttrs pairs [] hpo], by simp⟩⟩
    · rcases hxn.2 with e | e
      · exact Or.inl e
      · by_cases hz : n.space = []
        · left; rw [e, hz]
        · right; rw [hview, nsOf, if_neg hz, sanitize_legal _ hxn.1.2, e]
    · rw [hview, hnm]
      simp only [xnAccepts, beq_self_eq_true, Bool.true_and, Bool.or_eq_true, List.isEmpty_iff, beq_iff_eq]
      by_cases hz : n.space = []
      · exact Or.inl hz
      · right; rw [nsOf, if_neg hz, sanitize_legal _ hxn.1.2]
    · intro ho; rw [hnm]; simpa [ownNs] using ho


/-- a struct whose fields all round-trip, round-trips -/
theorem struct_rt (pns : Bool) (tn : Str) (xn : XN) (hs : List Hdr) (ts : List Ty) (fn : Name) (hne : fn.loc ≠ [])
    (hw : Ty.wfE fn pns (.struct tn xn hs ts) = true) (hall : AllFieldsOK (ownNs fn xn) hs ts) :
    RtE (.struct tn xn hs ts) fn pns := by
  intro ctx ps om v hps hfit
  simp only [Ty.wfE, Bool.and_eq_true, beq_iff_eq, decide_eq_true_eq] at hw
  obtain ⟨⟨⟨⟨⟨⟨hxn, hlen⟩, hok⟩, hda⟩, hde⟩, hac⟩, hwf⟩ := hw
  cases v with
  | struct dn vs =>
    simp only [Val.fitsE, Bool.and_eq_true, beq_iff_eq] at hfit
    obtain ⟨hdn, hff⟩ := hfit
    obtain ⟨hl1, hl2⟩ := fitsFields_len _ hs ts vs hff
    have hpo := attrPairs_ok _ _ hs ts vs hok hwf hff
    have hkeys := attrPairs_keys hs ts vs hl1 hl2
    have hkok : ((attrPairs hs ts vs).map (·.1)).all keyOk = true := by rw [hkeys]; exact attrNames_keyOk hs hok
    obtain ⟨hloc, hsp, hacc, hdn', hown, tail, hview, htail⟩ :=
      struct_start tn xn fn pns hne hxn ctx ps hps (attrPairs hs ts vs) hpo hkok
    rw [← hdn] at hloc hsp hacc hdn' hown hview
    refine ⟨startName tn xn dn fn, mkAttrs (attrPairs hs ts vs) ++ emptyNsAttr xn (startName tn xn dn fn) ps,
      encKids (startName tn xn dn fn).space hs ts vs, ?_, hloc, hsp, ?_⟩
    · rw [encD_struct, innerVal_nil hs vs hok]; simp
    · have hzero : zero (.struct tn xn hs ts) = .struct noName (zeroL ts) := by simp [zero]
      rw [viewS_elem, hzero, decInto_struct, hacc, hview]
      have hlook : ∀ k o, (k, o) ∈ attrPairs hs ts vs →
          attrValsK k ((if (startName tn xn dn fn).space = [] then []
            else [⟨⟨[], xmlnsL⟩, sanitize (startName tn xn dn fn).space⟩]) ++ (mkAttrs (attrPairs hs ts vs) ++ tail)) =
            o.toList := by
        intro k o hm
        have hk : keyOk k = true := by
          have : k ∈ (attrPairs hs ts vs).map (·.1) := List.mem_map.mpr ⟨(k, o), hm, rfl⟩
          exact List.all_eq_true.mp hkok k this
        have hne' : k ≠ xmlnsL := by
          simp only [keyOk, Bool.and_eq_true, bne_iff_ne, ne_eq] at hk; exact hk.2
        rw [attrValsK_own k _ _ _ hne', attrValsK_append_other k _ tail (fun x hx => by rw [htail x hx]; exact Ne.symm hne')]
        exact attrValsK_mkAttrs k o _ (by rw [hkeys]; exact hda) hm
      have hA := decAttrsF_ok _ _ _ _ hlook hs ts vs hok hwf hff (fun p hp => hp)
      have hK := fields_fold (ownNs fn xn) (nsOfS ctx (startName tn xn dn fn)
          (mkAttrs (attrPairs hs ts vs) ++ emptyNsAttr xn (startName tn xn dn fn) ps))
        (startName tn xn dn fn).space hown (elemNames hs) hs ts vs [] [] [] rfl rfl hok hall hff hde
        (fun h _ _ h' hh' => by simp at hh') (by simp) (by simpa using hac)
      simp only [List.nil_append] at hK
      simp only [if_true, hA, hK, hasMode_innerxml hs hok, Bool.false_eq_true, if_false]
      by_cases hd : xn = .dyn
      · simp only [hd, if_true] at hdn' ⊢
        rw [hdn']
      · simp only [hd, if_false] at hdn ⊢
        rw [hdn]
  | _ => simp [Val.fitsE] at hfit

end XmppVerif.Proofs.C01S
