import XmppVerif.Proofs.C01Flat
namespace XmppVerif.Proofs.C01
open XmppVerif.Model.C01 XmppVerif.Spec.C01 XmppVerif.Props.C01

/-! ### SMFailed -/
theorem smfailed_rt (ctx : Str) (v : SMFailed) (hv : v.wf = true) :
    decSMFailed (view ctx (encSMFailed v)) = some v := by
  obtain ⟨h, cond⟩ := v
  simp only [SMFailed.wf, Bool.and_eq_true, decide_eq_true_eq] at hv
  have hpo : List.all [((['h'] : Str), h.map showNat)] pairOk = true := by
    cases h <;> simp [pairOk, legal_showNat] <;> decide
  have hh : lastAttr? ['h'] (⟨⟨[], xmlnsL⟩, sanitize nsSM⟩ :: mkAttrs [((['h'] : Str), h.map showNat)]) = h.map showNat := by
    rw [lastAttr?_own _ _ _ (by decide)]
    exact lastAttr?_mkAttrs _ _ _ (by simp [distinct]) (by simp)
  have hns : ([] : Str) ≠ nsSM := by decide
  rw [encSMFailed, view_elem]
  simp only [show (nsSM = []) = False from by decide, if_false, viewAttrs_mkAttrs _ [] hpo, List.singleton_append,
    decSMFailed, hh]
  have hparse : (h.map showNat).bind parseUint64 = h := by
    cases h with
    | none => rfl
    | some n => simp [parseUint64_showNat n (hv.1 n rfl)]
  rw [hparse]
  cases cond with
  | none => simp [viewL, smFailedKids]
  | some c =>
    have hc : smFailedConds.contains c = true := hv.2 c rfl
    have hst : (nsOf (nsOf ctx ⟨nsSM, ['f', 'a', 'i', 'l', 'e', 'd']⟩) ⟨nsStanzas, c⟩ == nsStanzas) = true := by
      have : nsOf (nsOf ctx ⟨nsSM, ['f', 'a', 'i', 'l', 'e', 'd']⟩) ⟨nsStanzas, c⟩ = sanitize nsStanzas := by
        simp [nsOf, show (nsStanzas = []) = False from by decide]
      rw [this]; decide
    have hc' : c ∈ smFailedConds := by simpa using hc
    simp [viewL, view, smFailedKids, hc', hst]


/-! ### Err -/
theorem legal_nsStanzas : legal nsStanzas = true := by decide

theorem view_stanzas_leaf (ctx : Str) (l : Str) (ks : List El) :
    view ctx (.elem ⟨nsStanzas, l⟩ [] ks) =
      .elem ⟨nsStanzas, l⟩ [⟨⟨[], xmlnsL⟩, nsStanzas⟩] (viewL nsStanzas ks) := by
  have h1 : (nsStanzas = []) = False := by decide
  simp [view, nsOf, h1, sanitize_legal _ legal_nsStanzas, viewAttrs]

theorem errKid_reason (ctx : Str) (x : Err) (r : Str) (h1 : r ≠ textL) (h2 : r ≠ goneL) :
    errKid x (view ctx (.elem ⟨nsStanzas, r⟩ [] [])) = { x with reason := r } := by
  rw [view_stanzas_leaf]
  have e1 : (⟨nsStanzas, r⟩ : Name) ≠ ⟨nsStanzas, textL⟩ := by intro e; exact h1 (congrArg Name.loc e)
  have e2 : (⟨nsStanzas, r⟩ : Name) ≠ ⟨nsStanzas, goneL⟩ := by intro e; exact h2 (congrArg Name.loc e)
  simp [errKid, decNode, e1, e2]

theorem errKid_text (ctx : Str) (x : Err) (t : Str) (ht : legal t = true) :
    errKid x (view ctx (.elem ⟨nsStanzas, textL⟩ [] [.text false t])) = { x with text := t } := by
  rw [view_stanzas_leaf]
  simp [errKid, decNode, viewL, view, contentOf, sanitize_legal t ht]

theorem err_rt (ctx : Str) (e : Err) (hw : e.wf = true) :
    decErrOnto Err.zero (view ctx (errElem e)) = e := by
  obtain ⟨code, typ, reason, text⟩ := e
  simp only [Err.wf, Bool.and_eq_true, Bool.or_eq_true, bne_iff_ne, ne_eq] at hw
  obtain ⟨⟨⟨hcode, htyp⟩, htext⟩, hreason⟩ := hw
  have hpo : List.all [(['c', 'o', 'd', 'e'], if code = 0 then none else some (showInt code)), (['t', 'y', 'p', 'e'], omitEmpty typ)] pairOk = true := by
    have k1 : keyOk (['c', 'o', 'd', 'e']) = true := by decide
    have k2 : keyOk (['t', 'y', 'p', 'e']) = true := by decide
    by_cases hc : code = 0 <;> by_cases ht : typ = [] <;> simp [pairOk, omitEmpty, hc, ht, k1, k2, legal_showInt, htyp]
  have hd : distinct ([(['c', 'o', 'd', 'e'], if code = 0 then none else some (showInt code)), (['t', 'y', 'p', 'e'], omitEmpty typ)].map (·.1)) = true := by
    simp only [List.map_cons, List.map_nil]; decide
  have hT := lastAttr?_mkAttrs (['t', 'y', 'p', 'e']) (omitEmpty typ) _ hd (by simp)
  have hC := lastAttr?_mkAttrs (['c', 'o', 'd', 'e']) (if code = 0 then none else some (showInt code)) _ hd (by simp)
  rw [errElem, view_elem]
  simp only [if_true, List.nil_append, viewAttrs_mkAttrs _ [] hpo, decErrOnto, hT, hC]
  have hattr : ((Err.zero.setType (omitEmpty typ)).setCode (if code = 0 then none else some (showInt code))) = ⟨code, typ, [], []⟩ := by
    by_cases hc : code = 0 <;> by_cases ht : typ = [] <;>
      simp [Err.setType, Err.setCode, Err.zero, omitEmpty, hc, ht, parseIntBits_showInt 64 code hcode]
  rw [hattr]
  have hnn : nsOf ctx ⟨[], ['e', 'r', 'r', 'o', 'r']⟩ = ctx := by simp [nsOf]
  rw [hnn, viewL_append]
  by_cases hr : reason = [] <;> by_cases hx : text = []
  · subst hr hx; simp [viewL]
  · subst hr
    simp only [if_true, hx, if_false, viewL, List.nil_append, List.foldl_cons, List.foldl_nil, errKid_text ctx _ text htext]
  · subst hx
    have hr' : reason ≠ textL ∧ reason ≠ goneL := by
      rcases hreason with h | h
      · simp at h; exact absurd h hr
      · exact ⟨h.1.2, h.2⟩
    simp only [if_true, hr, if_false, viewL, List.append_nil, List.foldl_cons, List.foldl_nil,
      errKid_reason ctx _ reason hr'.1 hr'.2]
  · have hr' : reason ≠ textL ∧ reason ≠ goneL := by
      rcases hreason with h | h
      · simp at h; exact absurd h hr
      · exact ⟨h.1.2, h.2⟩
    simp only [hr, hx, if_false, viewL, List.cons_append, List.nil_append, List.foldl_cons, List.foldl_nil,
      errKid_reason ctx _ reason hr'.1 hr'.2, errKid_text ctx _ text htext]

end XmppVerif.Proofs.C01
