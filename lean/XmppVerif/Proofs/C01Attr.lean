import XmppVerif.Proofs.C01Node
import XmppVerif.Spec.C01Stanza
namespace XmppVerif.Proofs.C01
open XmppVerif.Model.C01 XmppVerif.Spec.C01 XmppVerif.Props.C01

/-! ### numbers -/
theorem showNat_digits (n : Nat) : (showNat n).all Char.isDigit = true := by
  rw [List.all_eq_true]
  intro c hc
  exact Nat.isDigit_of_mem_toDigits (by decide) (by decide) hc

theorem showNat_ne_nil (n : Nat) : showNat n ≠ [] := Nat.toDigits_ne_nil

theorem parseNat_showNat (n : Nat) : parseNat (showNat n) = some n := by
  unfold parseNat
  rw [if_pos ⟨showNat_ne_nil n, showNat_digits n⟩]
  simp [showNat]

theorem parseUint64_showNat (n : Nat) (h : n < 2 ^ 64) : parseUint64 (showNat n) = some n := by
  simp [parseUint64, parseNat_showNat, h]

theorem digit_not_space (c : Char) (h : c.isDigit = true) : isSpaceU c = false := by
  simp only [Char.isDigit, Bool.and_eq_true, decide_eq_true_eq] at h
  have h1 : 48 ≤ c.toNat := UInt32.le_iff_toNat_le.mp h.1
  have h2 : c.toNat ≤ 57 := UInt32.le_iff_toNat_le.mp h.2
  simp only [isSpaceU, Bool.or_eq_false_iff, Bool.and_eq_false_iff, decide_eq_false_iff_not, beq_eq_false_iff_ne]
  omega

theorem dropWhile_head {α} (p : α → Bool) (l : List α) (h : ∀ x ∈ l.head?, p x = false) : l.dropWhile p = l := by
  cases l with
  | nil => rfl
  | cons a r => simp [List.dropWhile, h a (by simp)]

theorem trimSpace_id (s : Str) (h : ∀ c ∈ s, isSpaceU c = false) : trimSpace s = s := by
  unfold trimSpace
  rw [dropWhile_head isSpaceU s (fun x hx => h x (List.mem_of_mem_head? hx))]
  rw [dropWhile_head isSpaceU s.reverse (fun x hx => h x (by simpa using List.mem_of_mem_head? hx))]
  simp

theorem trimSpace_showNat (n : Nat) : trimSpace (showNat n) = showNat n :=
  trimSpace_id _ fun c hc => digit_not_space c (List.all_eq_true.mp (showNat_digits n) c hc)


theorem digit_xml (c : Char) (h : c.isDigit = true) : isXmlChar c = true := by
  simp only [Char.isDigit, Bool.and_eq_true, decide_eq_true_eq] at h
  have h1 : 48 ≤ c.toNat := UInt32.le_iff_toNat_le.mp h.1
  have h2 : c.toNat ≤ 57 := UInt32.le_iff_toNat_le.mp h.2
  simp only [isXmlChar, Bool.or_eq_true, Bool.and_eq_true, decide_eq_true_eq, beq_iff_eq]
  omega

theorem legal_showNat (n : Nat) : legal (showNat n) = true := by
  rw [legal, List.all_eq_true]
  intro c hc
  exact digit_xml c (List.all_eq_true.mp (showNat_digits n) c hc)

theorem showNat_cons (n : Nat) : ∃ c r, showNat n = c :: r ∧ c.isDigit = true := by
  have h := showNat_digits n
  cases hs : showNat n with
  | nil => exact absurd hs (showNat_ne_nil n)
  | cons c r => rw [hs] at h; simp only [List.all_cons, Bool.and_eq_true] at h; exact ⟨c, r, rfl, h.1⟩

theorem parseIntBits_showInt (bits : Nat) (i : Int) (h : intFits bits i = true) :
    parseIntBits bits (showInt i) = some i := by
  simp only [intFits, decide_eq_true_eq] at h
  unfold showInt
  by_cases hn : i < 0
  · rw [if_pos hn]
    have hle : i.natAbs ≤ 2 ^ (bits - 1) := by
      have : ((2 ^ (bits - 1) : Nat) : Int) = (2 : Int) ^ (bits - 1) := by simp
      omega
    simp only [parseIntBits, if_true, parseNat_showNat, hle]
    congr 1; omega
  · rw [if_neg hn]
    obtain ⟨c, r, hs, hd⟩ := showNat_cons i.toNat
    have hlt : i.toNat < 2 ^ (bits - 1) := by
      have : ((2 ^ (bits - 1) : Nat) : Int) = (2 : Int) ^ (bits - 1) := by simp
      omega
    have hc1 : c ≠ '-' := by intro e; subst e; revert hd; decide
    have hc2 : c ≠ '+' := by intro e; subst e; revert hd; decide
    rw [hs]
    simp only [parseIntBits, hc1, hc2, if_false]
    rw [← hs, parseNat_showNat]
    simp only [hlt, if_true]
    congr 1; omega

theorem showInt_noSpace (i : Int) : ∀ c ∈ showInt i, isSpaceU c = false := by
  intro c hc
  unfold showInt at hc
  split at hc
  · rcases List.mem_cons.mp hc with e | e
    · subst e; decide
    · exact digit_not_space c (List.all_eq_true.mp (showNat_digits _) c e)
  · exact digit_not_space c (List.all_eq_true.mp (showNat_digits _) c hc)

theorem legal_showInt (i : Int) : legal (showInt i) = true := by
  unfold showInt
  split
  · simp only [legal, List.all_cons, Bool.and_eq_true]
    exact ⟨by decide, legal_showNat _⟩
  · exact legal_showNat _

theorem showInt_ne_nil (i : Int) : showInt i ≠ [] := by
  unfold showInt; split
  · simp
  · exact showNat_ne_nil _


/-! ### attributes -/
def pairOk (p : Str × Option Str) : Bool :=
  keyOk p.1 && (match p.2 with | some v => legal v | none => true)

theorem viewAttrs_mkAttrs (pairs : List (Str × Option Str)) (decl : List Str)
    (h : pairs.all pairOk = true) : viewAttrs (mkAttrs pairs) decl = mkAttrs pairs := by
  induction pairs with
  | nil => simp [mkAttrs, viewAttrs]
  | cons p ps ih =>
    simp only [List.all_cons, Bool.and_eq_true] at h
    obtain ⟨k, o⟩ := p
    cases o with
    | none => simpa [mkAttrs] using ih h.2
    | some v =>
      have hk : keyOk k = true ∧ legal v = true := by simpa [pairOk] using h.1
      have hl : k ≠ [] := by
        intro e; have := hk.1; rw [e] at this; simp [keyOk, nameOk] at this
      simp only [mkAttrs, viewAttrs, hl, if_false, if_true, sanitize_legal v hk.2, ih h.2]

theorem lastAttr?_absent (k : Str) (pairs : List (Str × Option Str))
    (h : (pairs.map (·.1)).contains k = false) : lastAttr? k (mkAttrs pairs) = none := by
  induction pairs with
  | nil => simp [mkAttrs, lastAttr?]
  | cons p ps ih =>
    obtain ⟨k', o⟩ := p
    simp only [List.map_cons, List.contains_cons, Bool.or_eq_false_iff, beq_eq_false_iff_ne, ne_eq] at h
    cases o with
    | none => simpa [mkAttrs] using ih h.2
    | some v =>
      have : ¬ k' = k := fun e => h.1 e.symm
      simp [mkAttrs, lastAttr?, ih h.2, this]

theorem lastAttr?_mkAttrs (k : Str) (o : Option Str) (pairs : List (Str × Option Str))
    (hd : distinct (pairs.map (·.1)) = true) (hm : (k, o) ∈ pairs) : lastAttr? k (mkAttrs pairs) = o := by
  induction pairs with
  | nil => simp at hm
  | cons p ps ih =>
    obtain ⟨k', o'⟩ := p
    simp only [List.map_cons, distinct, Bool.and_eq_true, Bool.not_eq_true'] at hd
    rcases List.mem_cons.mp hm with e | e
    · have e1 : k = k' := congrArg Prod.fst e
      have e2 : o = o' := congrArg Prod.snd e
      subst e1 e2
      have hab := lastAttr?_absent k ps hd.1
      cases o with
      | none => simpa [mkAttrs] using hab
      | some v => simp [mkAttrs, lastAttr?, hab]
    · have ih' := ih hd.2 e
      have hne : k' ≠ k := by
        intro e'; subst e'
        have : (ps.map (·.1)).contains k' = true := by
          simp only [List.contains_iff_mem, List.mem_map]
          exact ⟨(k', o), e, rfl⟩
        rw [this] at hd; exact absurd hd.1 (by simp)
      cases o' with
      | none => simpa [mkAttrs] using ih'
      | some v =>
        simp only [mkAttrs, lastAttr?, ih']
        cases o with
        | some w => rfl
        | none => simp [hne]

theorem lastAttr?_own (k : Str) (v : Str) (l : List Attr) (h : k ≠ xmlnsL) :
    lastAttr? k (⟨⟨[], xmlnsL⟩, v⟩ :: l) = lastAttr? k l := by
  simp only [lastAttr?]
  cases lastAttr? k l with
  | some w => rfl
  | none => simp [Ne.symm h]

end XmppVerif.Proofs.C01
