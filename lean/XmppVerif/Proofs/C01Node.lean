import XmppVerif.Props.C01Esc
import XmppVerif.Spec.C01Node
/- Helper lemmas for Props/C01Node.lean and Props/C01Stanza.lean (shared, hence not private). -/
namespace XmppVerif.Proofs.C01
open XmppVerif.Model.C01 XmppVerif.Spec.C01 XmppVerif.Props.C01

/-! ### generic element parser -/

mutual
theorem parse_el (e : El) (r : List Tok) (f : Frame) (st : List Frame) :
    parseGo (toks e ++ r) (f :: st) = parseGo r (f.push e :: st) := by
  cases e with
  | elem n a ks =>
    have h := parse_els ks (.stop n :: r) ⟨n, a, []⟩ (f :: st)
    simp only [toks, List.cons_append, List.append_assoc, List.nil_append, parseGo]
    rw [h]
    simp [parseGo, Frame.pushAll, Frame.close, Frame.push]
  | text nl s => simp [toks, parseGo]
  | raw s => simp [toks, parseGo]
theorem parse_els (ks : List El) (r : List Tok) (f : Frame) (st : List Frame) :
    parseGo (toksL ks ++ r) (f :: st) = parseGo r (f.pushAll ks :: st) := by
  cases ks with
  | nil => simp [toksL, Frame.pushAll]
  | cons k ks =>
    have h1 := parse_el k (toksL ks ++ r) f st
    have h2 := parse_els ks r (f.push k) st
    simp only [toksL, List.append_assoc]
    rw [h1, h2]
    simp [Frame.pushAll, Frame.push]
end

theorem parse_toks (n : Name) (a : List Attr) (ks : List El) (r : List Tok) :
    parseElem (toks (.elem n a ks) ++ r) = some (.elem n a ks, r) := by
  have h := parse_els ks (.stop n :: r) ⟨n, a, []⟩ []
  simp only [parseElem, toks, List.cons_append, List.append_assoc, List.nil_append, parseGo]
  rw [h]
  simp [parseGo, Frame.pushAll, Frame.close]


theorem viewL_append (ctx : Str) (a b : List El) : viewL ctx (a ++ b) = viewL ctx a ++ viewL ctx b := by
  induction a with
  | nil => simp [viewL]
  | cons x xs ih => simp [viewL, ih]

theorem viewL_txt (ctx : Str) (nl : Bool) (c : Str) (h : legal c = true) : viewL ctx (txt nl c) = txt nl c := by
  unfold txt
  split
  · simp [viewL]
  · simp [viewL, view, sanitize_legal c h]

theorem decNodes_txt (nl : Bool) (c : Str) : decNodes (txt nl c) = [] := by
  unfold txt; split <;> simp [decNodes, decNode]

theorem contentOf_txt (nl : Bool) (c : Str) : contentOf (txt nl c) = c := by
  unfold txt; split <;> simp_all [contentOf]

theorem contentOf_elems (ctx : Str) (l : List Tree) (tail : List El) :
    contentOf (viewL ctx (encNodes l) ++ tail) = contentOf tail := by
  induction l with
  | nil => simp [encNodes, viewL]
  | cons t r ih =>
    cases t with
    | mk n a c ns => simpa [encNodes, encNode, viewL, view, contentOf] using ih

theorem viewAttrs_plain (a : List Attr) (decl : List Str)
    (h : a.all (fun x => attrInQ x && x.name.space.isEmpty) = true) : viewAttrs a decl = a := by
  induction a with
  | nil => simp [viewAttrs]
  | cons x xs ih =>
    simp only [List.all_cons, Bool.and_eq_true] at h
    obtain ⟨⟨hq, hs⟩, hr⟩ := h
    simp only [attrInQ, Bool.and_eq_true] at hq
    obtain ⟨⟨⟨hn, _⟩, _⟩, hv⟩ := hq
    have hl : x.name.loc ≠ [] := by
      intro e; rw [e] at hn; simp [nameOk] at hn
    have hs' : x.name.space = [] := by simpa using hs
    rw [viewAttrs]
    simp only [hl, hs', if_false, if_true, sanitize_legal _ hv, ih hr]

theorem dropXmlns_plain (a : List Attr) (h : a.all attrInQ = true) : dropXmlns a = a := by
  induction a with
  | nil => rfl
  | cons x xs ih =>
    simp only [List.all_cons, Bool.and_eq_true] at h
    have hx : (x.name.loc != xmlnsL) = true := by
      have := h.1; simp only [attrInQ, Bool.and_eq_true] at this; exact this.1.1.2
    have ih' := ih h.2
    simp only [dropXmlns] at ih' ⊢
    simp [List.filter_cons, hx, ih']


theorem dropXmlns_own (sp v : Str) (a : List Attr) :
    dropXmlns ((if sp = [] then [] else [⟨⟨[], xmlnsL⟩, v⟩]) ++ a) = dropXmlns a := by
  split <;> simp [dropXmlns, List.filter_cons]

theorem nsOf_own (ctx : Str) (n : Name) (hl : legal n.space = true)
    (h : (n.space.isEmpty && !ctx.isEmpty) = false) : nsOf ctx n = n.space := by
  unfold nsOf
  split
  · rename_i e; simp [e] at h; simp [e, h]
  · exact sanitize_legal _ hl

mutual
theorem node_rt (ctx : Str) (t : Tree) (hq : t.inQ = true) (hi : t.inheritsNs ctx = false)
    (ha : t.hasNsAttr = false) : decNode (view ctx (encNode t)) = some t := by
  cases t with
  | mk n a c ns =>
    simp only [Tree.inQ, Bool.and_eq_true] at hq
    obtain ⟨⟨⟨⟨hn, hsp⟩, hattr⟩, hc⟩, hqs⟩ := hq
    simp only [Tree.inheritsNs, Bool.or_eq_false_iff] at hi
    simp only [Tree.hasNsAttr, Bool.or_eq_false_iff] at ha
    have hns := nsOf_own ctx n hsp hi.1
    have hkids := nodes_rt (nsOf ctx n) ns hqs hi.2 ha.2
    have hplain : a.all (fun x => attrInQ x && x.name.space.isEmpty) = true := by
      rw [List.all_eq_true] at hattr ⊢
      intro x hx
      have h1 := hattr x hx
      have h2 : (!x.name.space.isEmpty) = false := by
        have := ha.1; rw [List.any_eq_false] at this; simpa using this x hx
      simp [h1] ; simpa using h2
    simp only [encNode, view, decNode, viewL_append, viewL_txt _ _ _ hc, contentOf_elems, contentOf_txt,
      viewAttrs_plain a [] hplain]
    rw [hkids c hc, hns]
    rw [dropXmlns_own, dropXmlns_plain a hattr]
theorem nodes_rt (ctx : Str) (l : List Tree) (hq : Tree.inQL l = true) (hi : Tree.inheritsNsL ctx l = false)
    (ha : Tree.hasNsAttrL l = false) :
    ∀ c : Str, legal c = true → decNodes (viewL ctx (encNodes l) ++ txt false c) = l := by
  cases l with
  | nil => intro c _; simp [encNodes, viewL, decNodes_txt]
  | cons t r =>
    intro c hc
    simp only [Tree.inQL, Bool.and_eq_true] at hq
    simp only [Tree.inheritsNsL, Bool.or_eq_false_iff] at hi
    simp only [Tree.hasNsAttrL, Bool.or_eq_false_iff] at ha
    have h1 := node_rt ctx t hq.1 hi.1 ha.1
    have h2 := nodes_rt ctx r hq.2 hi.2 ha.2 c hc
    simp only [encNodes, viewL, List.cons_append, decNodes, h1, h2]
end


theorem isMeta_cases (c : Char) (h : isMeta c = true) : c = '<' ∨ c = '>' ∨ c = '"' ∨ c = '\'' := by
  simpa [isMeta, or_assoc] using h

theorem count_append (c : Char) (a b : Str) : count c (a ++ b) = count c a + count c b := by
  simp [count, List.filter_append]

theorem count_cons (c x : Char) (a : Str) : count c (x :: a) = (if x = c then 1 else 0) + count c a := by
  by_cases h : x = c <;> simp [count, List.filter_cons, h] <;> omega

theorem count_esc (c : Char) (hc : isMeta c = true) (nl : Bool) (s : Str) : count c (escapeText nl s) = 0 := by
  have h := (C01_escape_safe nl s).1
  simp only [count, List.length_eq_zero_iff, List.filter_eq_nil_iff]
  intro x hx hxc
  have : x = c := by simpa using hxc
  subst this
  rw [h x hx] at hc; cases hc

theorem count_name (c : Char) (hc : isMeta c = true) (s : Str) (h : nameOk s = true) : count c s = 0 := by
  have hall : ∀ x ∈ s, isNameChar x = true := by
    cases s with
    | nil => simp [nameOk] at h
    | cons a r =>
      simp only [nameOk, Bool.and_eq_true, List.all_eq_true] at h
      intro x hx
      rcases List.mem_cons.mp hx with e | e
      · subst e; simp [isNameChar, h.1]
      · exact h.2 x e
  simp only [count, List.length_eq_zero_iff, List.filter_eq_nil_iff]
  intro x hx hxc
  have : x = c := by simpa using hxc
  subst this
  have hn := hall x hx
  have := isMeta_cases x hc
  rcases this with e | e | e | e <;> subst e <;> revert hn <;> decide

theorem count_attrs (c : Char) (hc : isMeta c = true) (hq : c ≠ '"') (a : List Attr) (decl : List Str)
    (h : a.all plainAttr = true) : count c (renderAttrs a decl) = 0 := by
  induction a with
  | nil => simp [renderAttrs, count]
  | cons x xs ih =>
    simp only [List.all_cons, Bool.and_eq_true, plainAttr] at h
    obtain ⟨⟨hs, hn⟩, hr⟩ := h
    have hl : x.name.loc ≠ [] := by intro e; rw [e] at hn; simp [nameOk] at hn
    have hs' : x.name.space = [] := by simpa using hs
    have hsp : (' ' = c) = False := by
      have := isMeta_cases c hc
      rcases this with e | e | e | e <;> subst e <;> decide
    have heq : count c (lit "=\"") = 0 := by
      have := isMeta_cases c hc
      rcases this with e | e | e | e <;> subst e <;> first | decide | exact absurd rfl hq
    rw [renderAttrs]
    simp only [hl, hs', if_false, if_true]
    simp only [count_cons, count_append, count_esc c hc, count_name c hc _ hn, ih hr, heq, hsp, if_false]
    simp [Ne.symm hq]



mutual
theorem struct_el (c : Char) (hc : c = '<' ∨ c = '>') (e : El) (h : e.namesOk = true) :
    count c (render e) = 2 * elemCount e := by
  have hm : isMeta c = true := by rcases hc with e | e <;> subst e <;> decide
  have hq : c ≠ '"' := by rcases hc with e | e <;> subst e <;> decide
  cases e with
  | elem n a ks =>
    simp only [El.namesOk, Bool.and_eq_true] at h
    obtain ⟨⟨hn, hat⟩, hks⟩ := h
    have ih := struct_els c hc ks hks
    have hx : count c (if n.space = [] then [] else lit " xmlns=\"" ++ escapeText true n.space ++ ['"']) = 0 := by
      split
      · rfl
      · simp only [count_append, count_esc c hm]
        rcases hc with e | e <;> subst e <;> decide
    simp only [render, elemCount, count_cons, count_append, count_name c hm _ hn, count_attrs c hm hq a [] hat, ih, hx]
    rcases hc with e | e <;> subst e <;> simp [count] <;> omega
  | text nl s => simp [render, elemCount, count_esc c hm]
  | raw s => simp [El.namesOk] at h
theorem struct_els (c : Char) (hc : c = '<' ∨ c = '>') (l : List El) (h : El.namesOkL l = true) :
    count c (renderL l) = 2 * elemCountL l := by
  cases l with
  | nil => simp [renderL, elemCountL, count]
  | cons k ks =>
    simp only [El.namesOkL, Bool.and_eq_true] at h
    have h1 := struct_el c hc k h.1
    have h2 := struct_els c hc ks h.2
    simp only [renderL, elemCountL, count_append, h1, h2]; omega
end

/-! ### more helpers -/
mutual
theorem Tree.beq_refl (t : Tree) : Tree.beq t t = true := by
  cases t with
  | mk n a c ns => simp [Tree.beq, Tree.beqL_refl ns]
theorem Tree.beqL_refl (l : List Tree) : Tree.beqL l l = true := by
  cases l with
  | nil => simp [Tree.beqL]
  | cons t r => simp [Tree.beqL, Tree.beq_refl t, Tree.beqL_refl r]
end

mutual
theorem Tree.beq_eq (a b : Tree) (h : Tree.beq a b = true) : a = b := by
  cases a with
  | mk n as c ns =>
    cases b with
    | mk n' as' c' ns' =>
      simp only [Tree.beq, Bool.and_eq_true, decide_eq_true_eq] at h
      obtain ⟨⟨⟨h1, h2⟩, h3⟩, h4⟩ := h
      rw [h1, h2, h3, Tree.beqL_eq ns ns' h4]
theorem Tree.beqL_eq (a b : List Tree) (h : Tree.beqL a b = true) : a = b := by
  cases a with
  | nil => cases b with
    | nil => rfl
    | cons _ _ => simp [Tree.beqL] at h
  | cons x xs => cases b with
    | nil => simp [Tree.beqL] at h
    | cons y ys =>
      simp only [Tree.beqL, Bool.and_eq_true] at h
      rw [Tree.beq_eq x y h.1, Tree.beqL_eq xs ys h.2]
end

mutual
theorem shape_view (ctx : Str) (e : El) : shape (view ctx e) = shape e := by
  cases e with
  | elem n a ks => simp [view, shape, shapeL_view (nsOf ctx n) ks]
  | text nl s => simp [view, shape]
  | raw s => simp [view, shape]
theorem shapeL_view (ctx : Str) (l : List El) : shapeL (viewL ctx l) = shapeL l := by
  cases l with
  | nil => simp [viewL]
  | cons k ks => simp [viewL, shapeL, shape_view ctx k, shapeL_view ctx ks]
end

theorem namesOkL_append (a b : List El) : El.namesOkL (a ++ b) = (El.namesOkL a && El.namesOkL b) := by
  induction a with
  | nil => simp [El.namesOkL]
  | cons x xs ih => simp [El.namesOkL, ih, Bool.and_assoc]

theorem namesOkL_txt (nl : Bool) (c : Str) : El.namesOkL (txt nl c) = true := by
  unfold txt; split <;> simp [El.namesOkL, El.namesOk]

mutual
theorem encNode_namesOk (t : Tree) (h : t.namesOk = true) : (encNode t).namesOk = true := by
  cases t with
  | mk n a c ns =>
    simp only [Tree.namesOk, Bool.and_eq_true] at h
    simp [encNode, El.namesOk, namesOkL_append, namesOkL_txt, h.1.1, h.1.2, encNodes_namesOk ns h.2]
theorem encNodes_namesOk (l : List Tree) (h : Tree.namesOkL l = true) : El.namesOkL (encNodes l) = true := by
  cases l with
  | nil => simp [encNodes, El.namesOkL]
  | cons t r =>
    simp only [Tree.namesOkL, Bool.and_eq_true] at h
    simp [encNodes, El.namesOkL, encNode_namesOk t h.1, encNodes_namesOk r h.2]
end

end XmppVerif.Proofs.C01
