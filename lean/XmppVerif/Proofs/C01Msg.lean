import XmppVerif.Proofs.C01Err
namespace XmppVerif.Proofs.C01
open XmppVerif.Model.C01 XmppVerif.Spec.C01 XmppVerif.Props.C01

/-! ### common attributes -/
theorem omitEmpty_getD (x : Str) : (omitEmpty x).getD [] = x := by
  unfold omitEmpty; split <;> simp_all

theorem omitEmpty_ok (k : Str) (x : Str) (hk : keyOk k = true) (hx : legal x = true) : pairOk (k, omitEmpty x) = true := by
  unfold omitEmpty; split <;> simp [pairOk, hk, hx]

def attrPairs (a : Attrs) : List (Str × Option Str) :=
  [(['t', 'y', 'p', 'e'], omitEmpty a.typ), (['i', 'd'], omitEmpty a.id), (['f', 'r', 'o', 'm'], omitEmpty a.frm),
   (['t', 'o'], omitEmpty a.to), (['l', 'a', 'n', 'g'], omitEmpty a.lang)]

theorem attrs_view (a : Attrs) (h : a.wf = true) : viewAttrs (encAttrs a) [] = encAttrs a := by
  simp only [Attrs.wf, Bool.and_eq_true] at h
  obtain ⟨⟨⟨⟨h1, h2⟩, h3⟩, h4⟩, h5⟩ := h
  apply viewAttrs_mkAttrs
  simp only [List.all_cons, List.all_nil, Bool.and_true, Bool.and_eq_true]
  exact ⟨omitEmpty_ok _ _ (by decide) h1, omitEmpty_ok _ _ (by decide) h2, omitEmpty_ok _ _ (by decide) h3,
    omitEmpty_ok _ _ (by decide) h4, omitEmpty_ok _ _ (by decide) h5⟩

theorem decAttrs_encAttrs (a : Attrs) : decAttrs (encAttrs a) = a := by
  have hd : distinct ((attrPairs a).map (·.1)) = true := by
    simp only [attrPairs, List.map_cons, List.map_nil]; decide
  have h1 := lastAttr?_mkAttrs (['t', 'y', 'p', 'e']) (omitEmpty a.typ) (attrPairs a) hd (by simp [attrPairs])
  have h2 := lastAttr?_mkAttrs (['i', 'd']) (omitEmpty a.id) (attrPairs a) hd (by simp [attrPairs])
  have h3 := lastAttr?_mkAttrs (['f', 'r', 'o', 'm']) (omitEmpty a.frm) (attrPairs a) hd (by simp [attrPairs])
  have h4 := lastAttr?_mkAttrs (['t', 'o']) (omitEmpty a.to) (attrPairs a) hd (by simp [attrPairs])
  have h5 := lastAttr?_mkAttrs (['l', 'a', 'n', 'g']) (omitEmpty a.lang) (attrPairs a) hd (by simp [attrPairs])
  simp only [attrPairs] at h1 h2 h3 h4 h5
  simp only [decAttrs, encAttrs, lastAttr, h1, h2, h3, h4, h5, omitEmpty_getD]

/-! ### child loops -/
theorem foldKids_append {α : Type} (f : α → El → Option α) (a : α) (l1 l2 : List El) :
    foldKids f a (l1 ++ l2) = (foldKids f a l1).bind fun a' => foldKids f a' l2 := by
  induction l1 generalizing a with
  | nil => simp [foldKids]
  | cons k ks ih =>
    simp only [List.cons_append, foldKids]
    cases f a k with
    | none => simp
    | some a' => simpa using ih a'

theorem ctx_not_ext (ctx : Str) (h : ctxOk ctx = true) : extSpaces.contains ctx = false := by
  simpa [ctxOk] using h

theorem isEmpty_zero (e : Err) (h : e.isEmpty = true) : e = Err.zero := by
  obtain ⟨c, t, r, x⟩ := e
  simp only [Err.isEmpty, Bool.and_eq_true, beq_iff_eq, List.isEmpty_iff] at h
  obtain ⟨⟨⟨h1, h2⟩, h3⟩, h4⟩ := h
  subst h1 h2 h3 h4; rfl

theorem view_optText (ctx : Str) (name : Str) (s : Str) (hs : legal s = true) :
    viewL ctx (optText name s) = if s = [] then [] else [.elem ⟨ctx, name⟩ [] [.text true s]] := by
  unfold optText
  split
  · simp [viewL]
  · simp [viewL, view, nsOf, viewAttrs, sanitize_legal s hs]


/-! ### Message -/
theorem view_errElem (ctx : Str) (e : Err) : ∃ a ks, view ctx (errElem e) = .elem ⟨ctx, ['e', 'r', 'r', 'o', 'r']⟩ a ks := by
  have hns : nsOf ctx ⟨[], ['e', 'r', 'r', 'o', 'r']⟩ = ctx := by simp [nsOf]
  rw [errElem, view_elem, hns]
  exact ⟨_, _, rfl⟩

theorem msgKid_error (ctx : Str) (m : Message) (a : List Attr) (ks : List El) (hx : extSpaces.contains ctx = false) :
    msgKid m (.elem ⟨ctx, ['e', 'r', 'r', 'o', 'r']⟩ a ks) =
      some { m with error := decErrOnto m.error (.elem ⟨ctx, ['e', 'r', 'r', 'o', 'r']⟩ a ks) } := by
  have e1 : ¬ (['e', 'r', 'r', 'o', 'r'] = ['b', 'o', 'd', 'y']) := by decide
  have e2 : ¬ (['e', 'r', 'r', 'o', 'r'] = ['t', 'h', 'r', 'e', 'a', 'd']) := by decide
  have e3 : ¬ (['e', 'r', 'r', 'o', 'r'] = ['s', 'u', 'b', 'j', 'e', 'c', 't']) := by decide
  rw [msgKid]; dsimp only
  rw [if_neg (by rw [hx]; simp), if_neg e1, if_neg e2, if_neg e3, if_pos rfl]

theorem msgKid_subject (ctx : Str) (m : Message) (s : Str) (hx : extSpaces.contains ctx = false) :
    msgKid m (.elem ⟨ctx, ['s', 'u', 'b', 'j', 'e', 'c', 't']⟩ [] [.text true s]) = some { m with subject := s } := by
  have e1 : ¬ (['s', 'u', 'b', 'j', 'e', 'c', 't'] = ['b', 'o', 'd', 'y']) := by decide
  have e2 : ¬ (['s', 'u', 'b', 'j', 'e', 'c', 't'] = ['t', 'h', 'r', 'e', 'a', 'd']) := by decide
  rw [msgKid]; dsimp only
  rw [if_neg (by rw [hx]; simp), if_neg e1, if_neg e2, if_pos (show ['s', 'u', 'b', 'j', 'e', 'c', 't'] = ['s', 'u', 'b', 'j', 'e', 'c', 't'] from rfl)]
  simp [contentOf]

theorem msgKid_body (ctx : Str) (m : Message) (s : Str) (hx : extSpaces.contains ctx = false) :
    msgKid m (.elem ⟨ctx, ['b', 'o', 'd', 'y']⟩ [] [.text true s]) = some { m with body := s } := by
  rw [msgKid]; dsimp only
  rw [if_neg (by rw [hx]; simp), if_pos (show ['b', 'o', 'd', 'y'] = ['b', 'o', 'd', 'y'] from rfl)]
  simp [contentOf]

theorem msgKid_thread (ctx : Str) (m : Message) (s : Str) (hx : extSpaces.contains ctx = false) :
    msgKid m (.elem ⟨ctx, ['t', 'h', 'r', 'e', 'a', 'd']⟩ [] [.text true s]) = some { m with thread := s } := by
  have e1 : ¬ (['t', 'h', 'r', 'e', 'a', 'd'] = ['b', 'o', 'd', 'y']) := by decide
  rw [msgKid]; dsimp only
  rw [if_neg (by rw [hx]; simp), if_neg e1, if_pos (show ['t', 'h', 'r', 'e', 'a', 'd'] = ['t', 'h', 'r', 'e', 'a', 'd'] from rfl)]
  simp [contentOf]

theorem msg_err_kid (ctx : Str) (m : Message) (e : Err) (hctx : ctxOk ctx = true) (hm : m.error = Err.zero)
    (he : e.wf = true) : msgKid m (view ctx (errElem e)) = some { m with error := e } := by
  have hrt := err_rt ctx e he
  obtain ⟨a, ks, hv⟩ := view_errElem ctx e
  rw [hv] at hrt ⊢
  rw [msgKid_error ctx m a ks (ctx_not_ext ctx hctx), hm, hrt]

theorem msg_fold_err (ctx : Str) (m : Message) (e : Err) (hctx : ctxOk ctx = true) (hm : m.error = Err.zero)
    (he : e.wf = true) :
    foldKids msgKid m (viewL ctx (encErr e)) = some (if e.isEmpty then m else { m with error := e }) := by
  unfold encErr
  cases h : e.isEmpty with
  | true => simp [viewL, foldKids]
  | false => simp [viewL, foldKids, msg_err_kid ctx m e hctx hm he]

theorem msg_rt (ctx : Str) (m : Message) (hctx : ctxOk ctx = true) (hw : m.wf = true) :
    decMessage (view ctx (encMessage m)) = some m := by
  obtain ⟨a, s, b, t, e⟩ := m
  simp only [Message.wf, Bool.and_eq_true] at hw
  obtain ⟨⟨⟨⟨ha, hs⟩, hb⟩, ht⟩, he⟩ := hw
  have hns : nsOf ctx ⟨[], ['m', 'e', 's', 's', 'a', 'g', 'e']⟩ = ctx := by simp [nsOf]
  have hx := ctx_not_ext ctx hctx
  rw [encMessage, view_elem]
  simp only [if_true, List.nil_append, attrs_view a ha, decMessage, decAttrs_encAttrs, hns, viewL_append,
    view_optText ctx _ _ hs, view_optText ctx _ _ hb, view_optText ctx _ _ ht, foldKids_append]
  have k1 : ∀ m : Message, foldKids msgKid m (if s = [] then [] else [.elem ⟨ctx, ['s', 'u', 'b', 'j', 'e', 'c', 't']⟩ [] [.text true s]]) =
      some (if s = [] then m else { m with subject := s }) := by
    intro m; split
    · rfl
    · simp only [foldKids, msgKid_subject ctx m s hx]
  have k2 : ∀ m : Message, foldKids msgKid m (if b = [] then [] else [.elem ⟨ctx, ['b', 'o', 'd', 'y']⟩ [] [.text true b]]) =
      some (if b = [] then m else { m with body := b }) := by
    intro m; split
    · rfl
    · simp only [foldKids, msgKid_body ctx m b hx]
  have k3 : ∀ m : Message, foldKids msgKid m (if t = [] then [] else [.elem ⟨ctx, ['t', 'h', 'r', 'e', 'a', 'd']⟩ [] [.text true t]]) =
      some (if t = [] then m else { m with thread := t }) := by
    intro m; split
    · rfl
    · simp only [foldKids, msgKid_thread ctx m t hx]
  simp only [k1, k2, k3, Option.bind_some]
  rw [msg_fold_err ctx _ e hctx (by split <;> split <;> split <;> rfl) he]
  by_cases h1 : s = [] <;> by_cases h2 : b = [] <;> by_cases h3 : t = [] <;> cases h4 : e.isEmpty <;>
    simp [h1, h2, h3, Err.zero] <;> (try exact (isEmpty_zero e h4).symm) <;> (try simp [isEmpty_zero e h4, Err.zero])

end XmppVerif.Proofs.C01
