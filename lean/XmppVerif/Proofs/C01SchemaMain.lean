import XmppVerif.Proofs.C01SchemaRt
set_option linter.unusedSimpArgs false
/- Helper lemmas for Props/C01Schema.lean, part 5: the mutual induction over the (nested) schema type. -/
namespace XmppVerif.Proofs.C01S
open XmppVerif.Model.C01 hiding Schema Field FKind FVal FlatVal schemas fld conforms fvalOk encField decField decFields
open XmppVerif.Model.C01S XmppVerif.Spec.C01 XmppVerif.Props.C01 XmppVerif.Proofs.C01

theorem nameOk_ne_nil (s : Str) (h : nameOk s = true) : s ≠ [] := by
  intro e; rw [e] at h; simp [nameOk] at h

theorem fitsF_prim (fn : Name) (om : Bool) (k : Prim) (v : Val) :
    Val.fitsF fn om (.prim k) v = Val.fitsE fn (.prim k) v := by
  cases v <;> simp [Val.fitsF]

theorem fitsF_struct (fn : Name) (om : Bool) (tn : Str) (xn : XN) (hs : List Hdr) (ts : List Ty) (v : Val) :
    Val.fitsF fn om (.struct tn xn hs ts) v = Val.fitsE fn (.struct tn xn hs ts) v := by
  cases v <;> simp [Val.fitsF]

mutual
theorem rtE (t : Ty) (fn : Name) (pns : Bool) (hne : fn.loc ≠ []) (hw : Ty.wfE fn pns t = true) : RtE t fn pns := by
  cases t with
  | prim k =>
    have : legal fn.space = true := by simp only [Ty.wfE, Bool.and_eq_true] at hw; exact hw.2
    exact prim_rt k fn pns this hne
  | struct tn xn hs ts =>
    have hw' := hw
    simp only [Ty.wfE, Bool.and_eq_true] at hw'
    exact struct_rt pns tn xn hs ts fn hne hw (rtFs ts (ownNs fn xn) hs hw'.1.1.1.1.2 hw'.2)
  | _ => simp [Ty.wfE] at hw
theorem rtFs (ts : List Ty) (pns : Bool) (hs : List Hdr) (hok : hs.all hdrOk = true)
    (hwf : Ty.wfFields pns hs ts = true) : AllFieldsOK pns hs ts := by
  cases ts with
  | nil => cases hs <;> simp [AllFieldsOK]
  | cons t ts =>
    cases hs with
    | nil => simp [AllFieldsOK]
    | cons h hs =>
      simp only [List.all_cons, Bool.and_eq_true] at hok
      rw [wfFields_cons, Bool.and_eq_true] at hwf
      refine ⟨?_, ?_, rtFs ts pns hs hok.2 hwf.2⟩
      · intro hm
        have hna : ¬ h.mode = .attr := by rw [hm]; simp
        have hny : ¬ h.mode = .any := by rw [hm]; simp
        have hwF : Ty.wfF h.name pns t = true := by simpa [hna, hny] using hwf.1
        have hne : h.name.loc ≠ [] := by
          have := hok.1; simp only [hdrOk, hm] at this; exact nameOk_ne_nil _ this
        cases t with
        | iface => exact field_iface pns h
        | history =>
          simp only [Ty.wfF, Bool.and_eq_true, beq_iff_eq, List.isEmpty_iff] at hwF
          exact field_history pns h hm hwF.1 hwF.2
        | ptr t' =>
          cases t' with
          | unsupported w => exact field_ptrU pns h w
          | prim k =>
            exact field_ptr pns h hm _ (by simpa [Ty.wfF] using hwF) (rtE (.prim k) h.name pns hne (by simpa [Ty.wfF] using hwF))
          | struct tn xn hs' ts' =>
            exact field_ptr pns h hm _ (by simpa [Ty.wfF] using hwF)
              (rtE (.struct tn xn hs' ts') h.name pns hne (by simpa [Ty.wfF] using hwF))
          | _ => simp [Ty.wfF, Ty.wfE] at hwF
        | slice t' =>
          cases t' with
          | ptr t'' =>
            have hw2 : Ty.wfE h.name pns t'' = true := by simpa [Ty.wfF] using hwF
            exact field_slicePtr pns h hm t'' hw2 (rtE t'' h.name pns hne hw2)
          | prim k =>
            exact field_slice pns h hm _ (by simpa [Ty.wfF] using hwF) (rtE (.prim k) h.name pns hne (by simpa [Ty.wfF] using hwF))
          | struct tn xn hs' ts' =>
            exact field_slice pns h hm _ (by simpa [Ty.wfF] using hwF)
              (rtE (.struct tn xn hs' ts') h.name pns hne (by simpa [Ty.wfF] using hwF))
          | _ => simp [Ty.wfF, Ty.wfE] at hwF
        | prim k =>
          have hw2 : Ty.wfE h.name pns (.prim k) = true := by simpa [Ty.wfF] using hwF
          exact field_E pns h hm _ (rtE (.prim k) h.name pns hne hw2) (fitsF_prim h.name h.om k)
            (fun v hv he => empty_is_zero k v (by simpa [Val.fitsE] using hv) he)
        | struct tn xn hs' ts' =>
          have hw2 : Ty.wfE h.name pns (.struct tn xn hs' ts') = true := by simpa [Ty.wfF] using hwF
          exact field_E pns h hm _ (rtE (.struct tn xn hs' ts') h.name pns hne hw2) (fitsF_struct h.name h.om tn xn hs' ts')
            (fun v hv he => by cases v <;> simp [Val.fitsE, isEmptyVal] at hv he)
        | _ => simp [Ty.wfF, Ty.wfE] at hwF
      · intro hm
        have hna : ¬ h.mode = .attr := by rw [hm]; simp
        have hwA : Ty.wfAny t = true := by simpa [hna, hm] using hwf.1
        cases t with
        | ptr t' => cases t' <;> simp [Ty.wfAny] at hwA ⊢
        | _ => simp [Ty.wfAny] at hwA
end

end XmppVerif.Proofs.C01S
