import XmppVerif.Proofs.C01Flat
import XmppVerif.Spec.C01Schema
set_option linter.unusedSimpArgs false
/- Helper lemmas for Props/C01Schema.lean: the generic round trip of the schema-driven codec. -/
namespace XmppVerif.Proofs.C01S
open XmppVerif.Model.C01 hiding Schema Field FKind FVal FlatVal schemas fld conforms fvalOk encField decField decFields
open XmppVerif.Model.C01S XmppVerif.Spec.C01 XmppVerif.Props.C01 XmppVerif.Proofs.C01

/-! ### primitives -/
theorem copyValue_primText (k : Prim) (v : Val) (h : primFits k v = true) : copyValue k (primText v) = some v := by
  cases k with
  | str => cases v <;> simp_all [primFits, copyValue, primText]
  | bool =>
    cases v with
    | bool b =>
      have h1 : showBool b ≠ [] := by cases b <;> decide
      have h2 : parseBool (trimSpace (showBool b)) = some b := by cases b <;> decide
      simp [copyValue, primText, h1, h2]
    | _ => simp [primFits] at h
  | int bits =>
    cases v with
    | int i =>
      have hf : intFits bits i = true := by simpa [primFits] using h
      simp only [copyValue, primText, showInt_ne_nil, if_false, trimSpace_id _ (showInt_noSpace i),
        parseIntBits_showInt bits i hf, Option.map]
    | _ => simp [primFits] at h
  | uint =>
    cases v with
    | uint n =>
      have hn : n < 2 ^ 64 := by simpa [primFits] using h
      simp only [copyValue, primText, showNat_ne_nil, if_false, trimSpace_showNat, parseUint64_showNat n hn, Option.map]
    | _ => simp [primFits] at h

theorem legal_primText (k : Prim) (v : Val) (h : primFits k v = true) : legal (primText v) = true := by
  cases k <;> cases v <;> simp_all [primFits, primText, legal_showInt, legal_showNat]
  rename_i b; cases b <;> decide

/-- an empty primitive value is the zero value -/
theorem empty_is_zero (k : Prim) (v : Val) (h : primFits k v = true) (he : isEmptyVal v = true) : v = zero (.prim k) := by
  cases k <;> cases v <;> simp_all [primFits, isEmptyVal, zero]


/-! ### unfolding the per-field conditions -/
theorem wfFields_cons (pns : Bool) (h : Hdr) (hs : List Hdr) (t : Ty) (ts : List Ty) :
    Ty.wfFields pns (h :: hs) (t :: ts) =
      ((if h.mode = .attr then attrTyOk t else if h.mode = .any then Ty.wfAny t else Ty.wfF h.name pns t) &&
        Ty.wfFields pns hs ts) := by
  cases t with
  | ptr t' => cases t' <;> simp [Ty.wfFields, Ty.wfF, Ty.wfAny]
  | slice t' => cases t' <;> simp [Ty.wfFields, Ty.wfF, Ty.wfAny]
  | _ => simp [Ty.wfFields, Ty.wfF, Ty.wfAny]

theorem fitsFields_cons (tk : List Str) (h : Hdr) (hs : List Hdr) (t : Ty) (ts : List Ty) (v : Val) (vs : List Val) :
    Val.fitsFields tk (h :: hs) (t :: ts) (v :: vs) =
      ((if h.mode = .any then anyFits tk v else Val.fitsF h.name h.om t v) && Val.fitsFields tk hs ts vs) := by
  cases t with
  | ptr t' => cases t' <;> cases v <;> simp [Val.fitsFields, Val.fitsF]
  | slice t' => cases t' <;> cases v <;> simp [Val.fitsFields, Val.fitsF]
  | _ => cases v <;> simp [Val.fitsFields, Val.fitsF]

/-! ### `viewS`: basic facts -/
theorem viewS_elem (ctx : Str) (n : Name) (a : List Attr) (ks : List El) :
    viewS ctx (.elem n a ks) = .elem ⟨nsOfS ctx n a, n.loc⟩
      ((if n.space = [] then [] else [⟨⟨[], xmlnsL⟩, sanitize n.space⟩]) ++ viewAttrs a []) (viewSL (nsOfS ctx n a) ks) := by
  simp [viewS]

theorem viewSL_append (ctx : Str) (a b : List El) : viewSL ctx (a ++ b) = viewSL ctx a ++ viewSL ctx b := by
  induction a with
  | nil => simp [viewSL]
  | cons x xs ih => simp [viewSL, ih]

theorem viewSL_txt (ctx : Str) (nl : Bool) (c : Str) (h : legal c = true) : viewSL ctx (txt nl c) = txt nl c := by
  unfold txt
  split
  · simp [viewSL]
  · simp [viewSL, viewS, sanitize_legal c h]

theorem viewSL_one (ctx : Str) (e : El) : viewSL ctx [e] = [viewS ctx e] := by simp [viewSL]

mutual
theorem shape_viewS (ctx : Str) (e : El) : shape (viewS ctx e) = shape e := by
  cases e with
  | elem n a ks => simp [viewS, shape, shapeL_viewS (nsOfS ctx n a) ks]
  | text nl s => simp [viewS, shape]
  | raw s => simp [viewS, shape]
theorem shapeL_viewS (ctx : Str) (l : List El) : shapeL (viewSL ctx l) = shapeL l := by
  cases l with
  | nil => simp [viewSL]
  | cons k ks => simp [viewSL, shapeL, shape_viewS ctx k, shapeL_viewS ctx ks]
end

/-- attributes written from (name, value) pairs whose names are not `xmlns` declare nothing -/
theorem declNs_mkAttrs (pairs : List (Str × Option Str)) (tail : List Attr)
    (h : (pairs.map (·.1)).all keyOk = true) : declNs (mkAttrs pairs ++ tail) = declNs tail := by
  induction pairs with
  | nil => simp [mkAttrs]
  | cons p ps ih =>
    obtain ⟨k, o⟩ := p
    simp only [List.map_cons, List.all_cons, Bool.and_eq_true] at h
    cases o with
    | none => simpa [mkAttrs] using ih h.2
    | some v =>
      have hk : k ≠ xmlnsL := by
        have := h.1; simp only [keyOk, Bool.and_eq_true, bne_iff_ne, ne_eq] at this; exact this.2
      have := ih h.2
      simp only [declNs] at this ⊢
      rw [← this]
      simp [mkAttrs, List.find?_cons, hk]

theorem nsOfS_plain (ctx : Str) (n : Name) (a : List Attr) (h : declNs a = none) : nsOfS ctx n a = nsOf ctx n := by
  simp [nsOfS, nsOf, h]

/-! ### attributes -/
def attrValsK (k : Str) (attrs : List Attr) : List Str := (attrs.filter fun a => a.name.loc == k).map (·.value)

theorem attrVals_plain (h : Hdr) (hs : h.name.space = []) (attrs : List Attr) :
    attrVals h attrs = attrValsK h.name.loc attrs := by
  simp [attrVals, attrValsK, hs]

theorem attrValsK_absent (k : Str) (pairs : List (Str × Option Str))
    (h : (pairs.map (·.1)).contains k = false) : attrValsK k (mkAttrs pairs) = [] := by
  induction pairs with
  | nil => simp [mkAttrs, attrValsK]
  | cons p ps ih =>
    obtain ⟨k', o⟩ := p
    simp only [List.map_cons, List.contains_cons, Bool.or_eq_false_iff, beq_eq_false_iff_ne, ne_eq] at h
    cases o with
    | none => simpa [mkAttrs] using ih h.2
    | some v =>
      have hne : ¬ k' = k := fun e => h.1 e.symm
      have := ih h.2
      simp only [attrValsK] at this ⊢
      simp [mkAttrs, List.filter_cons, hne, this]

theorem attrValsK_mkAttrs (k : Str) (o : Option Str) (pairs : List (Str × Option Str))
    (hd : distinct (pairs.map (·.1)) = true) (hm : (k, o) ∈ pairs) : attrValsK k (mkAttrs pairs) = o.toList := by
  induction pairs with
  | nil => simp at hm
  | cons p ps ih =>
    obtain ⟨k', o'⟩ := p
    simp only [List.map_cons, distinct, Bool.and_eq_true, Bool.not_eq_true'] at hd
    rcases List.mem_cons.mp hm with e | e
    · have e1 : k = k' := congrArg Prod.fst e
      have e2 : o = o' := congrArg Prod.snd e
      subst e1 e2
      have hab := attrValsK_absent k ps hd.1
      cases o with
      | none => simpa [mkAttrs] using hab
      | some v =>
        simp only [attrValsK] at hab ⊢
        simp [mkAttrs, List.filter_cons, hab]
    · have ih' := ih hd.2 e
      have hne : k' ≠ k := by
        intro e'; subst e'
        have : (ps.map (·.1)).contains k' = true := by
          simp only [List.contains_iff_mem, List.mem_map]
          exact ⟨(k', o), e, rfl⟩
        rw [this] at hd; exact absurd hd.1 (by simp)
      cases o' with
      | none => simpa [mkAttrs] using ih'
      | some v =>
        simp only [attrValsK] at ih' ⊢
        simp [mkAttrs, List.filter_cons, hne, ih']

theorem attrValsK_own (k : Str) (sp v : Str) (l : List Attr) (h : k ≠ xmlnsL) :
    attrValsK k ((if sp = [] then [] else [⟨⟨[], xmlnsL⟩, v⟩]) ++ l) = attrValsK k l := by
  have hne : ¬ xmlnsL = k := fun e => h e.symm
  split <;> simp [attrValsK, List.filter_cons, hne]

/-- what the attribute loop leaves in a fresh struct: the attribute fields decoded, the others still zero -/
def attrPart : List Hdr → List Ty → List Val → List Val
  | h :: hs, t :: ts, v :: vs => (if h.mode = .attr then v else zero t) :: attrPart hs ts vs
  | _, _, _ => []

/-- the attribute text of one field (none = not written) -/
def attrOut (h : Hdr) (t : Ty) (v : Val) : Option Str := if h.om && isEmptyVal v then none else attrText t v

/-- an attribute field: what is written is legal text that decodes to the value; nothing written = the zero value -/
theorem attr_field (h : Hdr) (t : Ty) (v : Val) (ht : attrTyOk t = true) (hf : Val.fitsF h.name h.om t v = true) :
    match attrOut h t v with
    | some s => legal s = true ∧ decAttrVal t s = some v
    | none => v = zero t := by
  cases t with
  | prim k =>
    have hp : primFits k v = true := by cases v <;> simpa [Val.fitsF, Val.fitsE] using hf
    by_cases he : (h.om && isEmptyVal v) = true
    · simp only [attrOut, he, if_true]
      exact empty_is_zero k v hp (by simp at he; exact he.2)
    · simp only [attrOut, he, attrText]
      exact ⟨legal_primText k v hp, by simp [decAttrVal, copyValue_primText k v hp]⟩
  | ptr t' =>
    cases t' with
    | prim k =>
      cases v with
      | nil => simp [attrOut, attrText, zero]
      | ref x =>
        have hp : primFits k x = true := by simpa [Val.fitsF, Val.fitsE] using hf
        simp only [attrOut, isEmptyVal, Bool.and_false, attrText]
        exact ⟨legal_primText k x hp, by simp [decAttrVal, copyValue_primText k x hp]⟩
      | _ => simp [Val.fitsF] at hf
    | _ => simp [attrTyOk] at ht
  | _ => simp [attrTyOk] at ht

theorem attrPairs_cons (h : Hdr) (hs : List Hdr) (t : Ty) (ts : List Ty) (v : Val) (vs : List Val) :
    attrPairs (h :: hs) (t :: ts) (v :: vs) =
      (if h.mode = .attr then [(h.name.loc, attrOut h t v)] else []) ++ attrPairs hs ts vs := by
  simp [attrPairs, attrOut]

theorem attrPairs_keys : ∀ (hs : List Hdr) (ts : List Ty) (vs : List Val),
    hs.length = ts.length → hs.length = vs.length → (attrPairs hs ts vs).map (·.1) = attrNames hs
  | [], _, _, _, _ => by simp [attrPairs, attrNames]
  | h :: hs, [], _, h1, _ => by simp at h1
  | h :: hs, t :: ts, [], _, h2 => by simp at h2
  | h :: hs, t :: ts, v :: vs, h1, h2 => by
    have ih := attrPairs_keys hs ts vs (by simpa using h1) (by simpa using h2)
    rw [attrPairs_cons]
    by_cases hm : h.mode = .attr <;> simp [hm, attrNames, ih]

end XmppVerif.Proofs.C01S
