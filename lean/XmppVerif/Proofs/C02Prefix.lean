import XmppVerif.Props.C02
/-
Token-level helper lemmas for the byte-cut theorems: a decoder run that succeeded on a token list succeeds in the same
way on every extension of it (it never looked at the tokens it did not consume), hence a proper prefix of an element's
tokens yields no packet.
-/
namespace XmppVerif.Proofs.C02Prefix
open XmppVerif.Model.C02 XmppVerif.Spec.C02 XmppVerif.Props.C02

theorem run_extend (A : Dec → Name → Arm) : ∀ (f g : Nat) (dec : Dec) (self : Name) (d : Nat) (ts r : List Tok) (i : Info)
    (more : List Tok), f ≤ g → run A f dec self d ts = .ok r i → run A g dec self d (ts ++ more) = .ok (r ++ more) i := by
  intro f
  induction f with
  | zero => intro g dec self d ts r i more _ h; simp [run] at h
  | succ f ih =>
    intro g dec self d ts r i more hg h
    cases g with
    | zero => omega
    | succ g =>
    have hfg : f ≤ g := by omega
    cases ts with
    | nil => simp [run] at h
    | cons t ts =>
      cases t with
      | text s =>
        simp only [run] at h
        split at h
        · rename_i r' i' h'
          injection h with h1 h2
          subst h1 h2
          simp only [List.cons_append, run, ih _ _ _ _ _ _ _ more hfg h']
        · simp at h
      | misc =>
        simp only [run] at h
        simp only [List.cons_append, run, ih _ _ _ _ _ _ _ more hfg h]
      | stop n =>
        simp only [run] at h
        split at h
        · rename_i hd
          split at h
          · simp at h
          · rename_i hb
            injection h with h1 h2
            subst h1 h2
            simp only [List.cons_append, run, hd, if_true, hb]
            simp
        · rename_i hd
          split at h
          · simp at h
          · rename_i hb
            simp only [List.cons_append, run, hd, if_false, hb]
            simp only [Bool.false_eq_true, if_false]
            exact ih _ _ _ _ _ _ _ more hfg h
      | start n as =>
        simp only [run] at h
        split at h
        · rename_i harm
          simp only [List.cons_append, run, harm]
          exact ih _ _ _ _ _ _ _ more hfg h
        · simp at h
        · rename_i c harm
          split at h
          · rename_i r' ci h'
            split at h
            · rename_i hv
              split at h
              · rename_i r'' i'' h''
                injection h with h3 h4
                subst h3 h4
                simp only [List.cons_append, run, harm, ih _ _ _ _ _ _ _ more hfg h', hv, if_true,
                  ih _ _ _ _ _ _ _ more hfg h'']
              · simp at h
            · simp at h
          · simp at h

theorem nextPacket_extend : ∀ (ts r more : List Tok) (p : Packet),
    nextPacket ts = (.pkt p, r) → nextPacket (ts ++ more) = (.pkt p, r ++ more) := by
  intro ts
  induction ts with
  | nil => intro r more p h; simp [nextPacket, nextPacketWith] at h
  | cons t ts ih =>
    intro r more p h
    unfold nextPacket at h ih ⊢
    cases t with
    | text s => simp only [nextPacketWith, List.cons_append] at h ⊢; exact ih _ _ _ h
    | misc => simp only [nextPacketWith, List.cons_append] at h ⊢; exact ih _ _ _ h
    | stop n =>
      simp only [nextPacketWith, List.cons_append] at h ⊢
      split at h
      · rename_i hn
        injection h with h1 h2
        subst h2
        simp [hn, h1]
      · rename_i hn
        simp only [hn, if_false]
        exact ih _ _ _ h
    | start n as =>
      simp only [nextPacketWith, List.cons_append] at h ⊢
      split at h
      · simp at h
      · rename_i k hk
        split at h
        · rename_i r' i hr
          split at h
          · rename_i hta
            injection h with h1 h2
            subst h2
            have := run_extend armFix (ts.length + 1) ((ts ++ more).length + 1) (kindDec k) n 0 ts r' i more
              (by simp) hr
            simp only [hk, this, hta, if_true, h1]
          · simp at h
        · simp at h

/-- a proper prefix of the tokens of an element yields no packet: the first call of NextPacket fails -/
theorem no_packet_from_proper_prefix (n : Name) (as : List Attr) (kk : List Tree) (P more : List Tok)
    (hsplit : toks (.elem n as kk) = P ++ more) (hmore : more ≠ []) : ∃ e, packets P = [.err e] := by
  rw [packets_unfold]
  cases hnp : nextPacket P with
  | mk res r =>
    cases res with
    | err e => exact ⟨e, rfl⟩
    | pkt p =>
      exfalso
      have h1 := nextPacket_extend P r more p hnp
      rw [← hsplit] at h1
      have h2 : toks (.elem n as kk) = toks (.elem n as kk) ++ [] := (List.append_nil _).symm
      rw [h2] at h1
      cases hd : dispatch n with
      | none =>
        have := nextPacket_unknown n as kk [] hd
        rw [h1] at this
        simp at this
      | some k =>
        rw [nextPacket_elem n as kk [] k hd] at h1
        split at h1
        · injection h1 with _ h3
          have : more = [] := by
            have := congrArg List.length h3
            simp only [List.length_append, List.length_nil] at this
            exact List.eq_nil_of_length_eq_zero (by omega)
          exact hmore this
        · simp at h1

end XmppVerif.Proofs.C02Prefix
