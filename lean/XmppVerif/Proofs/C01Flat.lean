import XmppVerif.Proofs.C01Attr
namespace XmppVerif.Proofs.C01
open XmppVerif.Model.C01 XmppVerif.Spec.C01 XmppVerif.Props.C01

/-! ### reflection-coded flat elements -/
theorem decField_encField (k : FKind) (v : FVal) (h : fvalOk k v = true) :
    decField k (encField k v) = some v := by
  cases k with
  | str om =>
    cases v with
    | str s =>
      cases om <;> cases s <;> simp [encField, decField]
    | _ => simp [fvalOk] at h
  | uint om =>
    cases v with
    | uint n =>
      have hn : n < 2 ^ 64 := by simpa [fvalOk] using h
      by_cases hz : (om && n == 0) = true
      · have h0 : n = 0 := by simp at hz; exact hz.2
        have ho : om = true := by simp at hz; exact hz.1
        subst h0 ho
        simp [encField, decField]
      · simp [encField, decField, hz, showNat_ne_nil, trimSpace_showNat, parseUint64_showNat n hn]
    | _ => simp [fvalOk] at h
  | uintPtr =>
    cases v with
    | uintPtr o =>
      cases o with
      | none => simp [encField, decField]
      | some n =>
        have hn : n < 2 ^ 64 := by simpa [fvalOk] using h
        simp [encField, decField, showNat_ne_nil, trimSpace_showNat, parseUint64_showNat n hn]
    | _ => simp [fvalOk] at h
  | boolPtr =>
    cases v with
    | boolPtr o =>
      cases o with
      | none => simp [encField, decField]
      | some b => cases b <;> decide
    | _ => simp [fvalOk] at h

theorem decFields_ok (attrs : List Attr) (pairs : List (Str × Option Str))
    (hlook : ∀ k o, (k, o) ∈ pairs → lastAttr? k attrs = o) :
    ∀ (fs : List Field) (vs : List FVal), conforms fs vs = true →
      (∀ p ∈ pairsOf fs vs, p ∈ pairs) → decFields attrs fs = some vs := by
  intro fs
  induction fs with
  | nil => intro vs hc _; cases vs with
    | nil => rfl
    | cons _ _ => simp [conforms] at hc
  | cons f fs ih =>
    intro vs hc hsub
    cases vs with
    | nil => simp [conforms] at hc
    | cons v vs =>
      simp only [conforms, Bool.and_eq_true] at hc
      have h1 := hlook f.name (encField f.kind v) (hsub _ (by simp [pairsOf]))
      have h2 := ih vs hc.2 (fun p hp => hsub p (by simp [pairsOf, hp]))
      simp only [decFields, h1, decField_encField f.kind v hc.1, h2]

theorem pairsOf_keys (fs : List Field) (vs : List FVal) (h : conforms fs vs = true) :
    (pairsOf fs vs).map (·.1) = fs.map (·.name) := by
  induction fs generalizing vs with
  | nil => cases vs <;> simp [pairsOf]
  | cons f fs ih =>
    cases vs with
    | nil => simp [conforms] at h
    | cons v vs =>
      simp only [conforms, Bool.and_eq_true] at h
      simp [pairsOf, ih vs h.2]

theorem legal_encField (k : FKind) (v : FVal) (h : fvalOk k v = true) :
    (match encField k v with | some t => legal t | none => true) = true := by
  cases k with
  | str om => cases v with
    | str s =>
      have : legal s = true := by simpa [fvalOk] using h
      by_cases hc : (om && s.isEmpty) = true <;> simp [encField, hc, this]
    | _ => simp [fvalOk] at h
  | uint om => cases v with
    | uint n => by_cases hc : (om && n == 0) = true <;> simp [encField, hc, legal_showNat]
    | _ => simp [fvalOk] at h
  | uintPtr => cases v with
    | uintPtr o => cases o <;> simp [encField, legal_showNat]
    | _ => simp [fvalOk] at h
  | boolPtr => cases v with
    | boolPtr o => cases o with
      | none => simp [encField]
      | some b => cases b <;> decide
    | _ => simp [fvalOk] at h

theorem pairsOf_ok (fs : List Field) (vs : List FVal) (hk : (fs.map (·.name)).all keyOk = true)
    (h : conforms fs vs = true) : (pairsOf fs vs).all pairOk = true := by
  induction fs generalizing vs with
  | nil => cases vs <;> simp [pairsOf]
  | cons f fs ih =>
    cases vs with
    | nil => simp [conforms] at h
    | cons v vs =>
      simp only [conforms, Bool.and_eq_true] at h
      simp only [List.map_cons, List.all_cons, Bool.and_eq_true] at hk
      simp only [pairsOf, List.all_cons, Bool.and_eq_true, pairOk]
      exact ⟨⟨hk.1, legal_encField f.kind v h.1⟩, ih vs hk.2 h.2⟩


theorem view_elem (ctx : Str) (n : Name) (a : List Attr) (ks : List El) :
    view ctx (.elem n a ks) = .elem ⟨nsOf ctx n, n.loc⟩
      ((if n.space = [] then [] else [⟨⟨[], xmlnsL⟩, sanitize n.space⟩]) ++ viewAttrs a []) (viewL (nsOf ctx n) ks) := by
  simp [view]

theorem flat_rt (ctx : Str) (s : Schema) (v : FlatVal) (hs : s.wf = true) (hv : v.wf s = true) :
    decFlat s (view ctx (encFlat s v)) = some v := by
  obtain ⟨vals, inner⟩ := v
  simp only [Schema.wf, Bool.and_eq_true, Bool.not_eq_true', List.isEmpty_eq_false_iff] at hs
  obtain ⟨⟨⟨⟨hname, hsp⟩, hleg⟩, hkeys⟩, hdist⟩ := hs
  simp only [FlatVal.wf, Bool.and_eq_true] at hv
  obtain ⟨hconf, hinner⟩ := hv
  have hns : nsOf ctx s.name = s.name.space := by
    simp [nsOf, hsp, sanitize_legal _ hleg]
  have hpk := pairsOf_keys s.fields vals hconf
  have hpo := pairsOf_ok s.fields vals hkeys hconf
  have hlook : ∀ k o, (k, o) ∈ pairsOf s.fields vals →
      lastAttr? k (⟨⟨[], xmlnsL⟩, sanitize s.name.space⟩ :: mkAttrs (pairsOf s.fields vals)) = o := by
    intro k o hm
    have hk : keyOk k = true := by
      have : k ∈ (pairsOf s.fields vals).map (·.1) := List.mem_map.mpr ⟨(k, o), hm, rfl⟩
      rw [hpk] at this
      exact List.all_eq_true.mp hkeys k this
    have hne : k ≠ xmlnsL := by
      simp only [keyOk, Bool.and_eq_true, bne_iff_ne, ne_eq] at hk; exact hk.2
    rw [lastAttr?_own k _ _ hne]
    exact lastAttr?_mkAttrs k o _ (by rw [hpk]; exact hdist) hm
  have hf := decFields_ok _ _ hlook s.fields vals hconf (fun p hp => hp)
  rw [encFlat, view_elem]
  simp only [hsp, if_false, viewAttrs_mkAttrs _ [] hpo, List.singleton_append, decFlat, hns, true_and, or_true,
    and_self, if_true, hf]
  cases hi : s.inner with
  | false =>
    rw [hi] at hinner
    have : inner = [] := by simpa using hinner
    simp [this]
  | true =>
    cases inner with
    | nil => simp [viewL, innerOf]
    | cons c r => simp [viewL, view, innerOf]

end XmppVerif.Proofs.C01
