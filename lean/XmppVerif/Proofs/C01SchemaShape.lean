import XmppVerif.Proofs.C01SchemaMain
set_option linter.unusedSimpArgs false
/- Helper lemmas for Props/C01Schema.lean, part 6: what a well-formed schema writes consists of named elements and
plain attributes only, whatever the value - so the text never adds structure. -/
namespace XmppVerif.Proofs.C01S
open XmppVerif.Model.C01 hiding Schema Field FKind FVal FlatVal schemas fld conforms fvalOk encField decField decFields
open XmppVerif.Model.C01S XmppVerif.Spec.C01 XmppVerif.Props.C01 XmppVerif.Proofs.C01

theorem namesOkL_flatMap {α : Type} (f : α → List El) (l : List α) (h : ∀ x, El.namesOkL (f x) = true) :
    El.namesOkL (l.flatMap f) = true := by
  induction l with
  | nil => simp [El.namesOkL]
  | cons x xs ih => simp [List.flatMap_cons, namesOkL_append, h x, ih]

theorem namesOkL_nil : El.namesOkL [] = true := by simp [El.namesOkL]

theorem namesOkL_flatMap_mem {α : Type} (f : α → List El) (l : List α) (h : ∀ x ∈ l, El.namesOkL (f x) = true) :
    El.namesOkL (l.flatMap f) = true := by
  induction l with
  | nil => simp [El.namesOkL]
  | cons x xs ih =>
    rw [List.flatMap_cons, namesOkL_append, h x (by simp), ih (fun y hy => h y (by simp [hy]))]; rfl

theorem namesOkL_mem (l : List Val) (h : Val.namesOkL l = true) : ∀ x ∈ l, x.namesOk = true := by
  induction l with
  | nil => simp
  | cons x xs ih =>
    simp only [Val.namesOkL, Bool.and_eq_true] at h
    intro y hy
    rcases List.mem_cons.mp hy with e | e
    · rw [e]; exact h.1
    · exact ih h.2 y e

theorem mkAttrs_plain (pairs : List (Str × Option Str)) (h : (pairs.map (·.1)).all keyOk = true) :
    (mkAttrs pairs).all plainAttr = true := by
  induction pairs with
  | nil => simp [mkAttrs]
  | cons p ps ih =>
    obtain ⟨k, o⟩ := p
    simp only [List.map_cons, List.all_cons, Bool.and_eq_true] at h
    cases o with
    | none => simpa [mkAttrs] using ih h.2
    | some v =>
      have hk : nameOk k = true := by
        have := h.1; simp only [keyOk, Bool.and_eq_true] at this; exact this.1
      simp [mkAttrs, plainAttr, hk, ih h.2]

theorem attrPairs_keysOk : ∀ (hs : List Hdr) (ts : List Ty) (vs : List Val), hs.all hdrOk = true →
    ((attrPairs hs ts vs).map (·.1)).all keyOk = true
  | [], _, _, _ => by simp [attrPairs]
  | _ :: _, [], _, _ => by simp [attrPairs]
  | _ :: _, _ :: _, [], _ => by simp [attrPairs]
  | h :: hs, t :: ts, v :: vs, hok => by
    simp only [List.all_cons, Bool.and_eq_true] at hok
    have ih := attrPairs_keysOk hs ts vs hok.2
    rw [attrPairs_cons]
    by_cases hm : h.mode = .attr
    · have hk : keyOk h.name.loc = true := by
        have := hok.1; simp only [hdrOk, hm, Bool.and_eq_true] at this; exact this.2
      simp [hm, hk, ih]
    · simpa [hm] using ih

theorem encKids_short (ps : Str) (hs : List Hdr) (ts : List Ty) (vs : List Val)
    (h : hs = [] ∨ ts = [] ∨ vs = []) : encKids ps hs ts vs = [] := by
  rcases h with e | e | e <;> subst e
  · simp [encKids]
  · cases hs <;> simp [encKids]
  · cases hs <;> cases ts <;> simp [encKids]

theorem startName_nameOk (tn : Str) (xn : XN) (dn fn : Name) (pns : Bool) (hn : nameOk fn.loc = true)
    (hx : xnOk fn pns xn = true) (hd : (dn.loc.isEmpty || nameOk dn.loc) = true) :
    nameOk (startName tn xn dn fn).loc = true := by
  have hne := nameOk_ne_nil _ hn
  cases xn with
  | dyn =>
    by_cases hz : dn.loc = []
    · simp [startName, hz, hne, hn]
    · simp only [startName, hz, ne_eq, not_false_eq_true, if_true]
      simpa [hz] using hd
  | absent => simp [startName, hne, hn]
  | tag n =>
    simp only [xnOk, Bool.and_eq_true, beq_iff_eq] at hx
    simp [startName, hx.1.1, hn]

theorem emptyNsAttr_plain (xn : XN) (nm : Name) (ps : Str) : (emptyNsAttr xn nm ps).all plainAttr = true := by
  unfold emptyNsAttr
  split
  · decide
  · rfl

theorem namesOkL_all_append (a b : List Attr) (ha : a.all plainAttr = true) (hb : b.all plainAttr = true) :
    (a ++ b).all plainAttr = true := by simp [List.all_append, ha, hb]

mutual
theorem namesE (t : Ty) (fn : Name) (pns : Bool) (hn : nameOk fn.loc = true) (hw : Ty.wfE fn pns t = true) :
    ∀ (ps : Str) (om : Bool) (v : Val), v.namesOk = true → El.namesOkL (encD ps fn om t v) = true := by
  intro ps om v hv
  have hne := nameOk_ne_nil _ hn
  cases t with
  | prim k => simp [encD, hne, El.namesOkL, El.namesOk, hn, namesOkL_txt]
  | struct tn xn hs ts =>
    simp only [Ty.wfE, Bool.and_eq_true] at hw
    obtain ⟨⟨⟨⟨⟨⟨hxn, _⟩, hok⟩, _⟩, _⟩, _⟩, hwf⟩ := hw
    cases v with
    | struct dn vs =>
      simp only [Val.namesOk, Bool.and_eq_true] at hv
      rw [encD_struct, innerVal_nil hs vs hok]
      simp only [El.namesOkL, El.namesOk, startName_nameOk tn xn dn fn pns hn hxn hv.1,
        namesOkL_all_append _ _ (mkAttrs_plain _ (attrPairs_keysOk hs ts vs hok)) (emptyNsAttr_plain _ _ _),
        List.isEmpty_nil, if_true, List.append_nil, namesFs ts (ownNs fn xn) hs hok hwf _ vs hv.2, Bool.and_self]
    | _ => simp [encD, El.namesOkL]
  | _ => simp [Ty.wfE] at hw
theorem namesFs (ts : List Ty) (pns : Bool) (hs : List Hdr) (hok : hs.all hdrOk = true)
    (hwf : Ty.wfFields pns hs ts = true) :
    ∀ (ps : Str) (vs : List Val), Val.namesOkL vs = true → El.namesOkL (encKids ps hs ts vs) = true := by
  intro ps vs hvs
  cases ts with
  | nil => rw [encKids_short ps hs [] vs (by simp)]; exact namesOkL_nil
  | cons t ts =>
    cases hs with
    | nil => rw [encKids_short ps [] _ vs (by simp)]; exact namesOkL_nil
    | cons h hs =>
      cases vs with
      | nil => rw [encKids_short ps _ _ [] (by simp)]; exact namesOkL_nil
      | cons v vs =>
        simp only [List.all_cons, Bool.and_eq_true] at hok
        simp only [Val.namesOkL, Bool.and_eq_true] at hvs
        rw [wfFields_cons, Bool.and_eq_true] at hwf
        rw [encKids_cons, namesOkL_append, namesFs ts pns hs hok.2 hwf.2 ps vs hvs.2, Bool.and_true]
        rcases hdrOk_mode h hok.1 with hm | hm | hm
        · simp [fieldKids, hm, El.namesOkL]
        · have hna : ¬ h.mode = .attr := by rw [hm]; simp
          have hny : ¬ h.mode = .any := by rw [hm]; simp
          have hwF : Ty.wfF h.name pns t = true := by simpa [hna, hny] using hwf.1
          have hn : nameOk h.name.loc = true := by have := hok.1; simpa [hdrOk, hm] using this
          simp only [fieldKids, hm, true_or, if_true]
          split
          · exact namesOkL_nil
          · cases t with
            | iface => simp [encD_iface, El.namesOkL]
            | history =>
              cases v with
              | history a b c =>
                have hk : ([(maxcharsL, a.map showInt), (maxstanzasL, b.map showInt), (secondsL, c.map showInt)].map
                    (·.1)).all keyOk = true := by
                  simp only [List.map_cons, List.map_nil]; decide
                have hnm : nameOk historyL = true := by decide
                simp only [encD, encHistory]
                split
                · exact namesOkL_nil
                · simp [El.namesOkL, El.namesOk, hnm, mkAttrs_plain _ hk]
              | _ => simp [encD, El.namesOkL]
            | ptr t' =>
              cases v with
              | ref x =>
                have hx : x.namesOk = true := by simpa [Val.namesOk] using hvs.1
                rw [encD_ptr_ref]
                cases t' with
                | prim k => exact namesE (.prim k) h.name pns hn (by simpa [Ty.wfF] using hwF) ps h.om x hx
                | struct tn xn hs' ts' =>
                  exact namesE (.struct tn xn hs' ts') h.name pns hn (by simpa [Ty.wfF] using hwF) ps h.om x hx
                | unsupported w => simp [encD, El.namesOkL]
                | _ => simp [Ty.wfF, Ty.wfE] at hwF
              | _ => simp [encD, El.namesOkL]
            | slice t' =>
              cases v with
              | slice l =>
                have hl : Val.namesOkL l = true := by simpa [Val.namesOk] using hvs.1
                rw [encD_slice]
                apply namesOkL_flatMap_mem
                intro x hxl
                have hx : x.namesOk = true := namesOkL_mem l hl x hxl
                split
                · exact namesOkL_nil
                · cases t' with
                  | ptr t'' =>
                    have hw2 : Ty.wfE h.name pns t'' = true := by simpa [Ty.wfF] using hwF
                    cases x with
                    | ref y =>
                      rw [encD_ptr_ref]
                      exact namesE t'' h.name pns hn hw2 ps h.om y (by simpa [Val.namesOk] using hx)
                    | _ => simp [encD, El.namesOkL]
                  | prim k => exact namesE (.prim k) h.name pns hn (by simpa [Ty.wfF] using hwF) ps h.om x hx
                  | struct tn xn hs' ts' =>
                    exact namesE (.struct tn xn hs' ts') h.name pns hn (by simpa [Ty.wfF] using hwF) ps h.om x hx
                  | _ => simp [Ty.wfF, Ty.wfE] at hwF
              | _ => simp [encD, El.namesOkL]
            | prim k => exact namesE (.prim k) h.name pns hn (by simpa [Ty.wfF] using hwF) ps h.om v hvs.1
            | struct tn xn hs' ts' =>
              exact namesE (.struct tn xn hs' ts') h.name pns hn (by simpa [Ty.wfF] using hwF) ps h.om v hvs.1
            | _ => simp [Ty.wfF, Ty.wfE] at hwF
        · have hna : ¬ h.mode = .attr := by rw [hm]; simp
          have hwA : Ty.wfAny t = true := by simpa [hna, hm] using hwf.1
          simp only [fieldKids, hm, or_true, if_true]
          split
          · exact namesOkL_nil
          · cases t with
            | ptr t' =>
              cases t' with
              | node =>
                cases v with
                | ref x =>
                  cases x with
                  | node tr =>
                    have : tr.namesOk = true := by simpa [Val.namesOk] using hvs.1
                    simp [encD, El.namesOkL, encNode_namesOk tr this]
                  | _ => simp [encD, El.namesOkL]
                | _ => simp [encD, El.namesOkL]
              | _ => simp [Ty.wfAny] at hwA
            | _ => simp [Ty.wfAny] at hwA
end

/-! ### the skeleton depends on the value's structure only -/
theorem shapeL_append (a b : List El) : shapeL (a ++ b) = shapeL a ++ shapeL b := by
  induction a with
  | nil => simp [shapeL]
  | cons x xs ih => simp [shapeL, ih]

theorem shapeL_txt (nl : Bool) (s : Str) : shapeL (txt nl s) = [] := by
  unfold txt; split <;> simp [shapeL, shape]

theorem isEmptyVal_mask (v : Val) : isEmptyVal v.mask = isEmptyVal v := by
  cases v with
  | str s => cases s <;> simp [Val.mask, isEmptyVal]
  | slice l => cases l <;> simp [Val.mask, Val.maskL, isEmptyVal]
  | _ => simp [Val.mask, isEmptyVal]

theorem shapeL_raw_opt (s : Str) : shapeL (if s.isEmpty then [] else [El.raw s]) = [] := by
  split <;> simp [shapeL, shape]

mutual
theorem maskE (t : Ty) : ∀ (ps : Str) (fn : Name) (om : Bool) (v : Val),
    shapeL (encD ps fn om t v.mask) = shapeL (encD ps fn om t v) := by
  intro ps fn om v
  cases t with
  | prim k => simp [encD, shapeL, shape, shapeL_txt]
  | ptr t' =>
    cases v with
    | ref x => simp only [Val.mask, encD_ptr_ref]; exact maskE t' ps fn om x
    | _ => simp [Val.mask, encD]
  | slice t' =>
    cases v with
    | slice l =>
      simp only [Val.mask, encD_slice]
      induction l with
      | nil => simp [Val.maskL]
      | cons x xs ih =>
        simp only [Val.maskL, List.flatMap_cons, shapeL_append, ih, isEmptyVal_mask]
        congr 1
        split
        · rfl
        · exact maskE t' ps fn om x
    | _ => simp [Val.mask, encD]
  | struct tn xn hs ts =>
    cases v with
    | struct dn vs =>
      simp only [Val.mask, encD_struct, shapeL, shape, shapeL_append, shapeL_raw_opt]
      rw [maskFs ts _ hs vs]
    | _ => simp [Val.mask, encD]
  | iface => simp [encD_iface]
  | history => cases v <;> simp [Val.mask, encD]
  | node => cases v <;> simp [Val.mask, encD]
  | unsupported w => simp [encD]
theorem maskFs (ts : List Ty) : ∀ (ps : Str) (hs : List Hdr) (vs : List Val),
    shapeL (encKids ps hs ts (Val.maskL vs)) = shapeL (encKids ps hs ts vs) := by
  intro ps hs vs
  cases ts with
  | nil => rw [encKids_short ps hs [] _ (by simp), encKids_short ps hs [] vs (by simp)]
  | cons t ts =>
    cases hs with
    | nil => rw [encKids_short ps [] _ _ (by simp), encKids_short ps [] _ vs (by simp)]
    | cons h hs =>
      cases vs with
      | nil => simp [Val.maskL]
      | cons v vs =>
        simp only [Val.maskL, encKids_cons, shapeL_append, maskFs ts ps hs vs, fieldKids, isEmptyVal_mask]
        congr 1
        split
        · split
          · rfl
          · exact maskE t ps h.name h.om v
        · rfl
end


/-! ### fitting values have names in their name fields -/
mutual
theorem tree_names (t : Tree) (hq : t.inQ = true) (ha : t.hasNsAttr = false) : t.namesOk = true := by
  cases t with
  | mk n a c ns =>
    simp only [Tree.inQ, Bool.and_eq_true] at hq
    obtain ⟨⟨⟨⟨hn, _⟩, hattr⟩, _⟩, hqs⟩ := hq
    simp only [Tree.hasNsAttr, Bool.or_eq_false_iff] at ha
    have hpl : a.all plainAttr = true := by
      rw [List.all_eq_true] at hattr ⊢
      intro x hx
      have h1 := hattr x hx
      have h2 : (!x.name.space.isEmpty) = false := by
        have := ha.1; rw [List.any_eq_false] at this; simpa using this x hx
      simp only [attrInQ, Bool.and_eq_true] at h1
      simp only [plainAttr, h1.1.1.1, Bool.and_true]
      simpa using h2
    simp [Tree.namesOk, hn, hpl, trees_names ns hqs ha.2]
theorem trees_names (l : List Tree) (hq : Tree.inQL l = true) (ha : Tree.hasNsAttrL l = false) :
    Tree.namesOkL l = true := by
  cases l with
  | nil => simp [Tree.namesOkL]
  | cons t r =>
    simp only [Tree.inQL, Bool.and_eq_true] at hq
    simp only [Tree.hasNsAttrL, Bool.or_eq_false_iff] at ha
    simp [Tree.namesOkL, tree_names t hq.1 ha.1, trees_names r hq.2 ha.2]
end

theorem all_namesOkL (l : List Val) (h : ∀ x ∈ l, x.namesOk = true) : Val.namesOkL l = true := by
  induction l with
  | nil => simp [Val.namesOkL]
  | cons x xs ih => simp [Val.namesOkL, h x (by simp), ih (fun y hy => h y (by simp [hy]))]

mutual
theorem fits_names (t : Ty) (fn : Name) (pns : Bool) (hn : nameOk fn.loc = true) (hw : Ty.wfE fn pns t = true) :
    ∀ v, Val.fitsE fn t v = true → v.namesOk = true := by
  intro v hf
  cases t with
  | prim k => cases v <;> simp [Val.fitsE, primFits] at hf <;> simp [Val.namesOk]
  | struct tn xn hs ts =>
    simp only [Ty.wfE, Bool.and_eq_true] at hw
    obtain ⟨⟨⟨⟨⟨⟨_, _⟩, hok⟩, _⟩, _⟩, _⟩, hwf⟩ := hw
    cases v with
    | struct dn vs =>
      simp only [Val.fitsE, Bool.and_eq_true, beq_iff_eq] at hf
      have hdn : (dn.loc.isEmpty || nameOk dn.loc) = true := by
        rw [hf.1]; by_cases hd : xn = .dyn <;> simp [hd, hn, noName]
      simp [Val.namesOk, hdn, fits_namesFs ts (ownNs fn xn) hs hok hwf _ vs hf.2]
    | _ => simp [Val.fitsE] at hf
  | _ => simp [Ty.wfE] at hw
theorem fits_namesFs (ts : List Ty) (pns : Bool) (hs : List Hdr) (hok : hs.all hdrOk = true)
    (hwf : Ty.wfFields pns hs ts = true) :
    ∀ (tk : List Str) (vs : List Val), Val.fitsFields tk hs ts vs = true → Val.namesOkL vs = true := by
  intro tk vs hf
  cases ts with
  | nil => cases hs <;> cases vs <;> simp [Val.fitsFields] at hf <;> simp [Val.namesOkL]
  | cons t ts =>
    cases hs with
    | nil => cases vs <;> simp [Val.fitsFields] at hf
    | cons h hs =>
      cases vs with
      | nil => simp [Val.fitsFields] at hf
      | cons v vs =>
        simp only [List.all_cons, Bool.and_eq_true] at hok
        rw [wfFields_cons, Bool.and_eq_true] at hwf
        rw [fitsFields_cons, Bool.and_eq_true] at hf
        simp only [Val.namesOkL, fits_namesFs ts pns hs hok.2 hwf.2 tk vs hf.2, Bool.and_true]
        rcases hdrOk_mode h hok.1 with hm | hm | hm
        · have hna : ¬ h.mode = .any := by rw [hm]; simp
          have hty : attrTyOk t = true := by simpa [hm] using hwf.1
          have hff : Val.fitsF h.name h.om t v = true := by simpa [hna] using hf.1
          cases t with
          | prim k => cases v <;> simp [Val.fitsF, Val.fitsE, primFits] at hff <;> simp [Val.namesOk]
          | ptr t' =>
            cases t' with
            | prim k =>
              cases v with
              | nil => simp [Val.namesOk]
              | ref x => cases x <;> simp [Val.fitsF, Val.fitsE, primFits] at hff <;> simp [Val.namesOk]
              | _ => simp [Val.fitsF] at hff
            | _ => simp [attrTyOk] at hty
          | _ => simp [attrTyOk] at hty
        · have hna : ¬ h.mode = .attr := by rw [hm]; simp
          have hny : ¬ h.mode = .any := by rw [hm]; simp
          have hwF : Ty.wfF h.name pns t = true := by simpa [hna, hny] using hwf.1
          have hff : Val.fitsF h.name h.om t v = true := by simpa [hny] using hf.1
          have hn : nameOk h.name.loc = true := by have := hok.1; simpa [hdrOk, hm] using this
          cases t with
          | iface => cases v <;> simp [Val.fitsF] at hff <;> simp [Val.namesOk]
          | history => cases v <;> simp [Val.fitsF] at hff <;> simp [Val.namesOk]
          | ptr t' =>
            cases v with
            | nil => simp [Val.namesOk]
            | ref x =>
              cases t' with
              | prim k =>
                exact fits_names (.prim k) h.name pns hn (by simpa [Ty.wfF] using hwF) x (by simpa [Val.fitsF] using hff)
              | struct tn xn hs' ts' =>
                exact fits_names (.struct tn xn hs' ts') h.name pns hn (by simpa [Ty.wfF] using hwF) x
                  (by simpa [Val.fitsF] using hff)
              | unsupported w => simp [Val.fitsF] at hff
              | _ => simp [Ty.wfF, Ty.wfE] at hwF
            | _ => cases t' <;> simp [Val.fitsF] at hff
          | slice t' =>
            cases v with
            | slice l =>
              simp only [Val.namesOk]
              apply all_namesOkL
              intro x hx
              cases t' with
              | ptr t'' =>
                have hw2 : Ty.wfE h.name pns t'' = true := by simpa [Ty.wfF] using hwF
                simp only [Val.fitsF, List.all_eq_true] at hff
                have := hff x hx
                cases x with
                | ref y => exact fits_names t'' h.name pns hn hw2 y (by simpa using this)
                | _ => simp at this
              | prim k =>
                simp only [Val.fitsF, List.all_eq_true, Bool.and_eq_true] at hff
                exact fits_names (.prim k) h.name pns hn (by simpa [Ty.wfF] using hwF) x (hff x hx).1
              | struct tn xn hs' ts' =>
                simp only [Val.fitsF, List.all_eq_true, Bool.and_eq_true] at hff
                exact fits_names (.struct tn xn hs' ts') h.name pns hn (by simpa [Ty.wfF] using hwF) x (hff x hx).1
              | _ => simp [Ty.wfF, Ty.wfE] at hwF
            | _ => cases t' <;> simp [Val.fitsF] at hff
          | prim k =>
            exact fits_names (.prim k) h.name pns hn (by simpa [Ty.wfF] using hwF) v (by simpa [Val.fitsF] using hff)
          | struct tn xn hs' ts' =>
            exact fits_names (.struct tn xn hs' ts') h.name pns hn (by simpa [Ty.wfF] using hwF) v
              (by rw [fitsF_struct] at hff; exact hff)
          | _ => simp [Ty.wfF, Ty.wfE] at hwF
        · have hfa : anyFits tk v = true := by simpa [hm] using hf.1
          cases v with
          | nil => simp [Val.namesOk]
          | ref x =>
            cases x with
            | node tr =>
              cases tr with
              | mk n a c ns =>
                simp only [anyFits, Bool.and_eq_true, Bool.not_eq_true'] at hfa
                simp [Val.namesOk, tree_names _ hfa.1.1.1 hfa.1.2]
            | _ => simp [anyFits] at hfa
          | _ => simp [anyFits] at hfa
end

end XmppVerif.Proofs.C01S
