import XmppVerif.Proofs.C01Pres
namespace XmppVerif.Proofs.C01
open XmppVerif.Model.C01 XmppVerif.Spec.C01 XmppVerif.Props.C01

/-! ### IQ -/
theorem iqKid_error (ctx : Str) (q : IQ) (a : List Attr) (ks : List El) :
    iqKid q (.elem ⟨ctx, ['e', 'r', 'r', 'o', 'r']⟩ a ks) =
      some { q with error := some (decErrOnto Err.zero (.elem ⟨ctx, ['e', 'r', 'r', 'o', 'r']⟩ a ks)) } := by
  rw [iqKid]; dsimp only
  rw [if_pos rfl]

theorem iq_err_kid (ctx : Str) (q : IQ) (e : Err) (he : e.wf = true) :
    iqKid q (view ctx (errElem e)) = some { q with error := some e } := by
  have hrt := err_rt ctx e he
  obtain ⟨a, ks, hv⟩ := view_errElem ctx e
  rw [hv] at hrt ⊢
  rw [iqKid_error ctx q a ks, hrt]

theorem iq_any_kid (ctx : Str) (q : IQ) (t : Tree) (h : anyOk ctx (some t) = true) :
    iqKid q (view ctx (encNode t)) = some { q with any := some t } := by
  cases t with
  | mk n a c ns =>
    simp only [anyOk, Bool.and_eq_true, bne_iff_ne, ne_eq, Bool.not_eq_true'] at h
    obtain ⟨⟨hwf, hne⟩, hnp⟩ := h
    simp only [Tree.wf, Bool.and_eq_true, Bool.not_eq_true'] at hwf
    have hrt := node_rt ctx (.mk n a c ns) hwf.1.1 hwf.1.2 hwf.2
    rw [encNode, view_elem] at hrt ⊢
    rw [iqKid]; dsimp only
    rw [if_neg hne, hnp]
    simp only [Bool.false_eq_true, if_false, hrt]

theorem iq_rt (ctx : Str) (q : IQ) (hw : q.wf ctx = true) :
    decIQ (view ctx (encIQ q)) = some (iqCanon q) := by
  obtain ⟨a, e, t⟩ := q
  have hns : nsOf ctx ⟨[], ['i', 'q']⟩ = ctx := by simp [nsOf]
  cases e with
  | none =>
    cases t with
    | none =>
      simp only [IQ.wf, Bool.and_eq_true] at hw
      rw [encIQ, view_elem]
      simp [attrs_view a hw.1.1, decIQ, decAttrs_encAttrs, viewL, foldKids, iqCanon]
    | some t =>
      simp only [IQ.wf, Bool.and_eq_true] at hw
      rw [encIQ, view_elem]
      simp [attrs_view a hw.1.1, decIQ, decAttrs_encAttrs, viewL, foldKids, iqCanon, hns, iq_any_kid ctx _ t hw.2]
  | some e =>
    cases t with
    | none =>
      simp only [IQ.wf, Bool.and_eq_true, Bool.not_eq_true'] at hw
      rw [encIQ, view_elem]
      simp [attrs_view a hw.1.1, decIQ, decAttrs_encAttrs, viewL, foldKids, iqCanon, hns, encErr, hw.1.2.2,
        iq_err_kid ctx _ e hw.1.2.1]
    | some t =>
      simp only [IQ.wf, Bool.and_eq_true, Bool.not_eq_true'] at hw
      rw [encIQ, view_elem]
      simp [attrs_view a hw.1.1, decIQ, decAttrs_encAttrs, viewL, foldKids, iqCanon, hns, encErr, hw.1.2.2,
        iq_err_kid ctx _ e hw.1.2.1, iq_any_kid ctx _ t hw.2]

end XmppVerif.Proofs.C01
