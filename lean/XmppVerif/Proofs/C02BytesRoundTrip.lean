import XmppVerif.Proofs.C02BytesRender
/-
The round trip at tree level: the decoder, in any state, reading a rendered source tree (forest) followed by anything,
delivers exactly the tokens of the tree and is then in the same state in front of the rest.
-/
namespace XmppVerif.Proofs.C02Bytes
open XmppVerif.Model.C02Bytes XmppVerif.Spec.C02Bytes

theorem applyEv_none (st : Stack) : applyEv st .none = some (st, []) := rfl

theorem step_content {st : Stack} {a r : List Char} {m' : Mode} {ev : Ev} (h : lexContent a = .ok (m', ev) r) :
    tokenizeFrom .content st a =
      (match applyEv st ev with
       | some (st', ts) => (tokenizeFrom m' st' r).pre ts
       | none => ⟨[], .syntax, false⟩) := tokenizeFrom_step (m := .content) h

theorem step_tag {q : QName} {as : List RawAttr} {st : Stack} {a r : List Char} {m' : Mode} {ev : Ev}
    (h : lexTag q as a = .ok (m', ev) r) :
    tokenizeFrom (.tag q as) st a =
      (match applyEv st ev with
       | some (st', ts) => (tokenizeFrom m' st' r).pre ts
       | none => ⟨[], .syntax, false⟩) := tokenizeFrom_step (m := .tag q as) h

/-- the attributes of a start tag, one lexical step each -/
theorem tok_attrs (q : QName) (st : Stack) (y : List Char) : ∀ (as : List SAttr) (as0 : List RawAttr),
    as.all SAttr.ok = true →
    tokenizeFrom (.tag q as0) st (renderAttrs as ++ y) = tokenizeFrom (.tag q (as0 ++ as.map SAttr.raw)) st y := by
  intro as
  induction as with
  | nil => intro as0 _; simp [renderAttrs]
  | cons a as ih =>
    intro as0 h
    simp only [List.all_cons, Bool.and_eq_true] at h
    simp only [renderAttrs, List.append_assoc]
    rw [step_tag (lexTag_attr q as0 a _ h.1), applyEv_none]
    simp only [pre_nil]
    rw [ih (as0 ++ [a.raw]) h.2]
    simp

theorem noName_attrs (as : List SAttr) (tail : List Char) (c : Char) (z : List Char)
    (has : as.all SAttr.ok = true) (ht : wsOk tail = true) (hc : isNameChar c = false) :
    NoName (renderAttrs as ++ (tail ++ c :: z)) := by
  cases as with
  | nil => simpa [renderAttrs] using noName_ws tail c z ht hc
  | cons a as =>
    simp only [List.all_cons, Bool.and_eq_true, SAttr.ok, Bool.not_eq_true'] at has
    obtain ⟨⟨⟨⟨⟨⟨hne, hpre⟩, _⟩, _⟩, _⟩, _⟩, _⟩ := has
    cases hp : a.pre with
    | nil => simp [hp] at hne
    | cons x xs =>
      rw [hp] at hpre
      simp only [wsOk, List.all_cons, Bool.and_eq_true] at hpre
      simp only [renderAttrs, SAttr.render, hp, List.cons_append, List.append_assoc]
      exact ⟨x, _, rfl, space_not_name x hpre.1⟩

theorem startsLt_of_nonText (t : STree) (x : List Char) (h : t.isText = false) : StartsLt (render t ++ x) := by
  unfold StartsLt
  cases t with
  | elem q as tail kids etail => simp [render]
  | empty q as tail => simp [render]
  | text ps => simp [STree.isText] at h
  | cdata s => simp [render]
  | comment s => simp [render]
  | pi t sep d => simp [render]

/-- the whole start tag: `<q as tail` up to (not including) `>` or `/>` -/
theorem tok_open (q : QName) (as : List SAttr) (tail : List Char) (st : Stack) (c : Char) (z : List Char)
    (hq : qnameOk q = true) (has : as.all SAttr.ok = true) (ht : wsOk tail = true) (hc : isNameChar c = false) :
    tokenizeFrom .content st ('<' :: (renderQ q ++ (renderAttrs as ++ (tail ++ c :: z)))) =
      tokenizeFrom (.tag q (as.map SAttr.raw)) st (tail ++ c :: z) := by
  rw [step_content (lexContent_open q _ hq (noName_attrs as tail c z has ht hc)), applyEv_none]
  simp only [pre_nil]
  rw [tok_attrs q st _ as [] has]
  simp

mutual
theorem rt_tree (t : STree) : ∀ (st : Stack) (rest : List Char), t.ok = true → (t.isText = true → StartsLt rest) →
    tokenizeFrom .content st (render t ++ rest) = (tokenizeFrom .content st rest).pre (btoks (curEnv st) t) := by
  cases t with
  | elem q as tail kids etail =>
    intro st rest hok _
    simp only [STree.ok, Bool.and_eq_true] at hok
    obtain ⟨⟨⟨⟨hq, has⟩, ht⟩, het⟩, hkids⟩ := hok
    have hk := rt_list kids
    simp only [render, List.cons_append, List.append_assoc, List.nil_append]
    rw [tok_open q as tail st '>' _ hq has ht (by decide)]
    rw [step_tag (lexTag_close q _ tail _ ht)]
    simp only [applyEv, Bool.false_eq_true, if_false]
    rw [hk (⟨q, addDecls (curEnv st) (as.map SAttr.raw)⟩ :: st) _ hkids (fun _ => ⟨_, rfl⟩)]
    rw [step_content (lexContent_endTag q etail rest hq het)]
    simp only [applyEv, ne_eq, not_true_eq_false, if_false, pre_pre, curEnv, btoks, startTok, stopTok, envOf]
    simp
  | empty q as tail =>
    intro st rest hok _
    simp only [STree.ok, Bool.and_eq_true] at hok
    obtain ⟨⟨hq, has⟩, ht⟩ := hok
    simp only [render, List.cons_append, List.append_assoc, List.nil_append]
    rw [tok_open q as tail st '/' _ hq has ht (by decide)]
    rw [step_tag (lexTag_selfClose q _ tail _ ht)]
    simp only [applyEv, if_true, btoks, startTok, stopTok, envOf]
  | text ps =>
    intro st rest hok hlt
    simp only [STree.ok, Bool.and_eq_true, Bool.not_eq_true'] at hok
    obtain ⟨r, hr⟩ := hlt rfl
    subst hr
    simp only [render]
    rw [step_content (lexContent_text ps r hok.1 hok.2)]
    simp only [applyEv, btoks]
  | cdata s =>
    intro st rest hok _
    simp only [STree.ok] at hok
    simp only [render, List.append_assoc]
    have hl := lexContent_cdata s rest hok
    simp only [List.append_assoc] at hl
    rw [step_content hl]
    simp only [applyEv, btoks]
  | comment s =>
    intro st rest hok _
    simp only [STree.ok] at hok
    simp only [render, List.append_assoc]
    have hl := lexContent_comment s rest hok
    simp only [List.append_assoc] at hl
    rw [step_content hl]
    simp only [applyEv, btoks]
  | pi t sep d =>
    intro st rest hok _
    simp only [STree.ok] at hok
    simp only [render, List.cons_append, List.append_assoc, List.nil_append]
    rw [step_content (lexContent_pi t sep d rest hok)]
    simp only [applyEv, btoks]
theorem rt_list (ts : List STree) : ∀ (st : Stack) (rest : List Char), okL ts = true → (lastIsText ts = true → StartsLt rest) →
    tokenizeFrom .content st (renderL ts ++ rest) = (tokenizeFrom .content st rest).pre (btoksL (curEnv st) ts) := by
  cases ts with
  | nil => intro st rest _ _; simp [renderL, btoksL, pre_nil]
  | cons t us =>
    intro st rest hok hlast
    have ht := rt_tree t
    have hus := rt_list us
    cases us with
    | nil =>
      simp only [okL] at hok
      simp only [renderL, List.append_nil, btoksL]
      rw [ht st rest hok (fun h => hlast (by simpa [lastIsText] using h))]
    | cons u r =>
      simp only [okL, Bool.and_eq_true, Bool.not_eq_true'] at hok
      obtain ⟨⟨hto, hadj⟩, hrest⟩ := hok
      simp only [renderL, List.append_assoc, btoksL]
      have hnext : t.isText = true → StartsLt (render u ++ (renderL r ++ rest)) := by
        intro htx
        have : u.isText = false := by simpa [htx] using hadj
        exact startsLt_of_nonText u _ this
      rw [ht st _ hto hnext]
      have := hus st rest hrest (fun h => hlast (by simpa [lastIsText] using h))
      simp only [renderL, List.append_assoc, btoksL] at this
      rw [this, pre_pre]
end

/-! ### the stream header, the closing tag, the XML declaration -/

theorem tok_header (q : QName) (as : List SAttr) (tail : List Char) (st : Stack) (rest : List Char)
    (hq : qnameOk q = true) (has : as.all SAttr.ok = true) (ht : wsOk tail = true) :
    tokenizeFrom .content st (renderOpen q as tail ++ rest) =
      (tokenizeFrom .content (⟨q, envOf (curEnv st) as⟩ :: st) rest).pre [startTok (curEnv st) q as] := by
  simp only [renderOpen, List.cons_append, List.append_assoc, List.nil_append]
  rw [tok_open q as tail st '>' _ hq has ht (by decide)]
  rw [step_tag (lexTag_close q _ tail _ ht)]
  simp only [applyEv, Bool.false_eq_true, if_false, startTok, envOf]

theorem tok_close (q : QName) (env : Env) (st : Stack) (rest : List Char) (hq : qnameOk q = true) :
    tokenizeFrom .content (⟨q, env⟩ :: st) (renderClose q ++ rest) =
      (tokenizeFrom .content st rest).pre [.stop (mkName (translate env true q))] := by
  have := lexContent_endTag q [] rest hq (by decide)
  simp only [List.nil_append] at this
  simp only [renderClose, List.cons_append, List.append_assoc, List.nil_append]
  rw [step_content this]
  simp [applyEv]

theorem lex_xmlDecl (rest : List Char) :
    lexContent (xmlDecl ++ rest) =
      .ok (.content, .pi ['x', 'm', 'l'] ['v', 'e', 'r', 's', 'i', 'o', 'n', '=', '\'', '1', '.', '0', '\'']) rest := by
  have hx : xmlDeclOk ['v', 'e', 'r', 's', 'i', 'o', 'n', '=', '\'', '1', '.', '0', '\''] = true := by decide
  simp [xmlDecl, lexContent, lexMarkup, lexPI, scanName, spanName, skipSpace, scanPI, scan, R.bind, R.cons,
    isNameChar, isNameByte, isSpace, classifyName, isAscii, isBad, isNameStart, hx]

theorem tok_xmlDecl (st : Stack) (rest : List Char) :
    tokenizeFrom .content st (xmlDecl ++ rest) =
      (tokenizeFrom .content st rest).pre [.pi "xml" "version='1.0'"] := by
  rw [step_content (lex_xmlDecl rest)]
  simp only [applyEv]

/-! ### the token alphabet of the packet model -/

mutual
theorem erase_tree (env : Env) (t : STree) :
    eraseL (btoks env t) = XmppVerif.Model.C02.toks (resolve env t) := by
  cases t with
  | elem q as tail kids etail =>
    have := erase_list (envOf env as) kids
    simp only [eraseL] at this
    simp [btoks, resolve, XmppVerif.Model.C02.toks, eraseL, startTok, stopTok, BTok.erase, this]
  | empty q as tail =>
    simp [btoks, resolve, XmppVerif.Model.C02.toks, XmppVerif.Model.C02.toksL, eraseL, startTok, stopTok, BTok.erase]
  | text ps => simp [btoks, resolve, XmppVerif.Model.C02.toks, eraseL, BTok.erase]
  | cdata s => simp [btoks, resolve, XmppVerif.Model.C02.toks, eraseL, BTok.erase]
  | comment s => simp [btoks, resolve, XmppVerif.Model.C02.toks, eraseL, BTok.erase]
  | pi t sep d => simp [btoks, resolve, XmppVerif.Model.C02.toks, eraseL, BTok.erase]
theorem erase_list (env : Env) (ts : List STree) :
    eraseL (btoksL env ts) = XmppVerif.Model.C02.toksL (resolveL env ts) := by
  cases ts with
  | nil => simp [btoksL, resolveL, XmppVerif.Model.C02.toksL, eraseL]
  | cons t us =>
    have h1 := erase_tree env t
    have h2 := erase_list env us
    simp only [eraseL] at h1 h2
    simp [btoksL, resolveL, XmppVerif.Model.C02.toksL, eraseL, h1, h2]
end

end XmppVerif.Proofs.C02Bytes
