import XmppVerif.Props.C01Schema
import XmppVerif.Model.C01Compose
import XmppVerif.Proofs.C01IQ
set_option linter.unusedSimpArgs false
/- Helper lemmas for Props/C01Compose.lean: a stanza together with its registered extensions / payload. -/
namespace XmppVerif.Proofs.C01S
open XmppVerif.Model.C01 hiding Schema Field FKind FVal FlatVal schemas fld conforms fvalOk encField decField decFields
open XmppVerif.Model.C01S XmppVerif.Spec.C01 XmppVerif.Props.C01 XmppVerif.Proofs.C01 XmppVerif.Props.C01S

/-! ### `viewS` is `view` where no `xmlns` attribute is written -/
mutual
def noDecl : El → Bool
  | .elem _ a ks => (declNs a).isNone && noDeclL ks
  | _ => true
def noDeclL : List El → Bool
  | [] => true
  | k :: ks => noDecl k && noDeclL ks
end

mutual
theorem viewS_eq_view (ctx : Str) (e : El) (h : noDecl e = true) : viewS ctx e = view ctx e := by
  cases e with
  | elem n a ks =>
    simp only [noDecl, Bool.and_eq_true, Option.isNone_iff_eq_none] at h
    simp only [viewS, view, nsOfS_plain ctx n a h.1, viewSL_eq_viewL (nsOf ctx n) ks h.2]
  | text nl s => simp [viewS, view]
  | raw s => simp [viewS, view]
theorem viewSL_eq_viewL (ctx : Str) (l : List El) (h : noDeclL l = true) : viewSL ctx l = viewL ctx l := by
  cases l with
  | nil => simp [viewSL, viewL]
  | cons k ks =>
    simp only [noDeclL, Bool.and_eq_true] at h
    simp only [viewSL, viewL, viewS_eq_view ctx k h.1, viewSL_eq_viewL ctx ks h.2]
end

theorem noDeclL_append (a b : List El) : noDeclL (a ++ b) = (noDeclL a && noDeclL b) := by
  induction a with
  | nil => simp [noDeclL]
  | cons x xs ih => simp [noDeclL, ih, Bool.and_assoc]

theorem declNs_encAttrs (a : Attrs) : declNs (encAttrs a) = none := by
  have := declNs_mkAttrs [(['t', 'y', 'p', 'e'], omitEmpty a.typ), (['i', 'd'], omitEmpty a.id),
    (['f', 'r', 'o', 'm'], omitEmpty a.frm), (['t', 'o'], omitEmpty a.to), (['l', 'a', 'n', 'g'], omitEmpty a.lang)] []
    (by simp only [List.map_cons, List.map_nil]; decide)
  simpa [encAttrs, declNs] using this

theorem noDecl_optText (name s : Str) : noDeclL (optText name s) = true := by
  unfold optText; split <;> simp [noDeclL, noDecl, declNs]

theorem noDecl_errElem (e : Err) : noDecl (errElem e) = true := by
  have h1 := declNs_mkAttrs [(['c', 'o', 'd', 'e'], if e.code = 0 then none else some (showInt e.code)),
    (['t', 'y', 'p', 'e'], omitEmpty e.typ)] [] (by simp only [List.map_cons, List.map_nil]; decide)
  simp only [List.append_nil] at h1
  have h2 : declNs ([] : List Attr) = none := by simp [declNs]
  rw [h2] at h1
  simp only [errElem, noDecl, h1, Option.isNone_none, Bool.true_and, noDeclL_append]
  split <;> split <;> simp [noDeclL, noDecl, declNs]

theorem noDecl_encErr (e : Err) : noDeclL (encErr e) = true := by
  unfold encErr; split <;> simp [noDeclL, noDecl_errElem]

/-! ### the registry -/
theorem regWinner_none (pkt : String) (ctx : Str) (loc : String) (h : ctxOkX ctx = true) :
    regWinner pkt (String.ofList ctx) loc = none := by
  have : regEntries.filter (fun e => e.1 == pkt && e.2.1 == String.ofList ctx && e.2.2.1 == loc) = [] := by
    rw [List.filter_eq_nil_iff]
    intro e he
    have := List.all_eq_true.mp h e he
    simp only [bne_iff_ne, ne_eq] at this
    simp [this]
  simp [regWinner, this]

theorem regLookup_none (pkt : String) (ctx loc : Str) (h : ctxOkX ctx = true) : regLookup pkt ⟨ctx, loc⟩ = none := by
  simp only [regLookup, regWinner_none pkt ctx _ h]
  split <;> rfl


/-! ### one extension / payload -/
theorem encExt_eq (field : String) (x : Ext) (tn : Str) (n : Name) (hs : List Hdr) (ts : List Ty)
    (h : x.schema = .struct tn (.tag n) hs ts) : encExt field x = encS x.schema x.v := by
  rw [encExt, encS, h]
  cases x.v with
  | struct dn vs => simp [encD_struct, startName, emptyNsAttr]
  | _ => simp [encD]

/-- one extension: written as one element under its tagged name, which the registry maps back to its type, and which
DecodeElement on a fresh value of that type reads back -/
theorem ext_rt (pkt field : String) (ctx : Str) (x : Ext) (h : extOk pkt x = true) :
    ∃ n a ks, encExt field x = [.elem n a ks] ∧ n.space ≠ [] ∧ legal n.space = true ∧
      regLookup pkt n = some x.ty ∧ decExt x.ty (viewS ctx (.elem n a ks)) = some x := by
  unfold extOk at h
  split at h
  · rename_i tn n hs ts hsch
    simp only [Bool.and_eq_true, Bool.not_eq_true', List.isEmpty_eq_false_iff, beq_iff_eq] at h
    obtain ⟨⟨⟨⟨hwf, hfit⟩, hsp⟩, hleg⟩, hreg⟩ := h
    obtain ⟨n', a, ks, henc, hdec⟩ := C01_schema_roundtrip_el ctx x.schema x.v hwf hfit
    have hn : n' = n := by
      rw [hsch, encS] at henc
      cases hv : x.v with
      | struct dn vs =>
        rw [hv, encD_struct] at henc
        simp only [startName, List.cons.injEq, El.elem.injEq, and_true] at henc
        exact henc.1.symm
      | _ => rw [hv] at henc; simp [encD] at henc
    subst hn
    refine ⟨n', a, ks, by rw [encExt_eq field x tn n' hs ts hsch, henc], hsp, hleg, hreg, ?_⟩
    simp only [decExt, Ext.schema] at hdec ⊢
    rw [hdec]; cases x; rfl
  · cases h

theorem nsOfS_own (ctx : Str) (n : Name) (a : List Attr) (h : n.space ≠ []) (hl : legal n.space = true) :
    nsOfS ctx n a = n.space := by
  simp [nsOfS, h, sanitize_legal _ hl]

/-! ### Message -/
/-- every element of the list is in the namespace `ctx` -/
def allIn (ctx : Str) : List El → Bool
  | [] => true
  | .elem n _ _ :: r => n.space == ctx && allIn ctx r
  | _ :: r => allIn ctx r

theorem allIn_append (ctx : Str) (a b : List El) : allIn ctx (a ++ b) = (allIn ctx a && allIn ctx b) := by
  induction a with
  | nil => simp [allIn]
  | cons x xs ih => cases x <;> simp [allIn, ih, Bool.and_assoc]

theorem msg_fold_base (ctx : Str) (hctx : ctxOkX ctx = true) : ∀ (ks : List El) (m : MessageX), allIn ctx ks = true →
    foldKids msgKidX m ks = some { m with base := ks.foldl msgKidB m.base }
  | [], m, _ => by simp [foldKids]
  | k :: ks, m, h => by
    cases k with
    | elem n a kk =>
      simp only [allIn, Bool.and_eq_true, beq_iff_eq] at h
      have hn : n = ⟨ctx, n.loc⟩ := by cases n; simp at h ⊢; exact h.1
      have hl : regLookup "PKTMessage" n = none := by rw [hn]; exact regLookup_none _ ctx _ hctx
      simp only [foldKids, msgKidX, hl, List.foldl_cons]
      exact msg_fold_base ctx hctx ks _ h.2
    | text nl s =>
      simp only [allIn] at h
      simp only [foldKids, msgKidX, List.foldl_cons, msgKidB]
      exact msg_fold_base ctx hctx ks m h
    | raw s =>
      simp only [allIn] at h
      simp only [foldKids, msgKidX, List.foldl_cons, msgKidB]
      exact msg_fold_base ctx hctx ks m h

theorem msg_ext_kid (ctx : Str) (m : MessageX) (x : Ext) (hx : extOk "PKTMessage" x = true) :
    foldKids msgKidX m (viewSL ctx (encExt "Extensions" x)) = some { m with exts := m.exts ++ [x] } := by
  obtain ⟨n, a, ks, henc, hsp, hleg, hreg, hdec⟩ := ext_rt "PKTMessage" "Extensions" ctx x hx
  rw [henc, viewSL_one, foldKids_one]
  rw [viewS_elem] at hdec ⊢
  have hname : (⟨nsOfS ctx n a, n.loc⟩ : Name) = n := by rw [nsOfS_own ctx n a hsp hleg]
  rw [hname] at hdec ⊢
  simp only [msgKidX, hreg, hdec, Option.map]

theorem msg_fold_exts (ctx : Str) : ∀ (xs : List Ext) (m : MessageX), (∀ x ∈ xs, extOk "PKTMessage" x = true) →
    foldKids msgKidX m (viewSL ctx (xs.flatMap (encExt "Extensions"))) = some { m with exts := m.exts ++ xs }
  | [], m, _ => by simp [viewSL, foldKids]
  | x :: xs, m, h => by
    rw [List.flatMap_cons, viewSL_append, foldKids_append, msg_ext_kid ctx m x (h x (by simp))]
    simp only [Option.bind]
    rw [msg_fold_exts ctx xs _ (fun y hy => h y (by simp [hy]))]
    simp


theorem allIn_optText (ctx name s : Str) (hs : legal s = true) : allIn ctx (viewL ctx (optText name s)) = true := by
  rw [view_optText ctx name s hs]; split <;> simp [allIn]

theorem allIn_encErr (ctx : Str) (e : Err) : allIn ctx (viewL ctx (encErr e)) = true := by
  unfold encErr; split
  · simp [viewL, allIn]
  · obtain ⟨a, ks, hv⟩ := view_errElem ctx e
    simp [viewL, hv, allIn]

theorem msgB_subject (ctx : Str) (b : Message) (s : Str) (hs : legal s = true) :
    (viewL ctx (optText subjectL s)).foldl msgKidB b = if s = [] then b else { b with subject := s } := by
  rw [view_optText ctx _ s hs]; split
  · rfl
  · simp [msgKidB, contentOf, subjectL, bodyL, threadL]

theorem msgB_body (ctx : Str) (b : Message) (s : Str) (hs : legal s = true) :
    (viewL ctx (optText bodyL s)).foldl msgKidB b = if s = [] then b else { b with body := s } := by
  rw [view_optText ctx _ s hs]; split
  · rfl
  · simp [msgKidB, contentOf, bodyL]

theorem msgB_thread (ctx : Str) (b : Message) (s : Str) (hs : legal s = true) :
    (viewL ctx (optText threadL s)).foldl msgKidB b = if s = [] then b else { b with thread := s } := by
  rw [view_optText ctx _ s hs]; split
  · rfl
  · simp [msgKidB, contentOf, threadL, bodyL]

theorem msgB_err (ctx : Str) (b : Message) (e : Err) (hb : b.error = Err.zero) (he : e.wf = true) :
    (viewL ctx (encErr e)).foldl msgKidB b = if e.isEmpty then b else { b with error := e } := by
  unfold encErr
  cases h : e.isEmpty with
  | true => simp [viewL]
  | false =>
    have hrt := err_rt ctx e he
    obtain ⟨a, ks, hv⟩ := view_errElem ctx e
    rw [hv] at hrt
    simp [viewL, hv, msgKidB, errorL, bodyL, threadL, subjectL, hb, hrt]

theorem msgx_rt (ctx : Str) (m : MessageX) (hctx : ctxOkX ctx = true) (hw : m.wf = true) :
    decMessageX (viewS ctx (encMessageX m)) = some m := by
  obtain ⟨⟨a, s, b, t, e⟩, xs⟩ := m
  simp only [MessageX.wf, Message.wf, Bool.and_eq_true] at hw
  obtain ⟨⟨⟨⟨⟨ha, hs⟩, hb⟩, ht⟩, he⟩, hx⟩ := hw
  have hns : nsOfS ctx ⟨[], ['m', 'e', 's', 's', 'a', 'g', 'e']⟩ (encAttrs a) = ctx := by
    rw [nsOfS_plain _ _ _ (declNs_encAttrs a)]; simp [nsOf]
  have hnd : noDeclL (optText subjectL s ++ optText bodyL b ++ optText threadL t ++ encErr e) = true := by
    simp [noDeclL_append, noDecl_optText, noDecl_encErr]
  have hall : allIn ctx (viewL ctx (optText subjectL s ++ optText bodyL b ++ optText threadL t ++ encErr e)) = true := by
    simp [viewL_append, allIn_append, allIn_optText _ _ _ hs, allIn_optText _ _ _ hb, allIn_optText _ _ _ ht, allIn_encErr]
  rw [encMessageX, viewS_elem, hns]
  simp only [if_true, List.nil_append, attrs_view a ha, decMessageX, decAttrs_encAttrs, viewSL_append]
  rw [← viewSL_append, ← viewSL_append, ← viewSL_append, viewSL_eq_viewL ctx _ hnd, foldKids_append,
    msg_fold_base ctx hctx _ _ hall]
  simp only [Option.bind]
  rw [msg_fold_exts ctx xs _ (fun x hx' => List.all_eq_true.mp hx x hx')]
  simp only [List.nil_append, viewL_append, List.foldl_append, msgB_subject ctx _ s hs, msgB_body ctx _ b hb,
    msgB_thread ctx _ t ht]
  rw [msgB_err ctx _ e (by split <;> split <;> split <;> rfl) he]
  by_cases h1 : s = [] <;> by_cases h2 : b = [] <;> by_cases h3 : t = [] <;> cases h4 : e.isEmpty <;>
    simp [h1, h2, h3, Err.zero] <;> (try exact (isEmpty_zero e h4).symm) <;> (try simp [isEmpty_zero e h4, Err.zero])


/-! ### Presence -/
theorem pres_fold_base (ctx : Str) (hctx : ctxOkX ctx = true) : ∀ (ks : List El) (p : PresenceX), allIn ctx ks = true →
    foldKids presKidX p ks = (foldKids presKidB p.base ks).map fun b => { p with base := b }
  | [], p, _ => by simp [foldKids]
  | k :: ks, p, h => by
    cases k with
    | elem n a kk =>
      simp only [allIn, Bool.and_eq_true, beq_iff_eq] at h
      have hn : n = ⟨ctx, n.loc⟩ := by cases n; simp at h ⊢; exact h.1
      have hl : regLookup "PKTPresence" n = none := by rw [hn]; exact regLookup_none _ ctx _ hctx
      simp only [foldKids, presKidX, hl]
      cases hb : presKidB p.base (.elem n a kk) with
      | none => simp
      | some b =>
        simp only [Option.map]
        exact pres_fold_base ctx hctx ks _ h.2
    | text nl s =>
      simp only [allIn] at h
      simp only [foldKids, presKidX, presKidB]
      exact pres_fold_base ctx hctx ks p h
    | raw s =>
      simp only [allIn] at h
      simp only [foldKids, presKidX, presKidB]
      exact pres_fold_base ctx hctx ks p h

theorem pres_ext_kid (ctx : Str) (p : PresenceX) (x : Ext) (hx : extOk "PKTPresence" x = true) :
    foldKids presKidX p (viewSL ctx (encExt "Extensions" x)) = some { p with exts := p.exts ++ [x] } := by
  obtain ⟨n, a, ks, henc, hsp, hleg, hreg, hdec⟩ := ext_rt "PKTPresence" "Extensions" ctx x hx
  rw [henc, viewSL_one, foldKids_one]
  rw [viewS_elem] at hdec ⊢
  have hname : (⟨nsOfS ctx n a, n.loc⟩ : Name) = n := by rw [nsOfS_own ctx n a hsp hleg]
  rw [hname] at hdec ⊢
  simp only [presKidX, hreg, hdec, Option.map]

theorem pres_fold_exts (ctx : Str) : ∀ (xs : List Ext) (p : PresenceX), (∀ x ∈ xs, extOk "PKTPresence" x = true) →
    foldKids presKidX p (viewSL ctx (xs.flatMap (encExt "Extensions"))) = some { p with exts := p.exts ++ xs }
  | [], p, _ => by simp [viewSL, foldKids]
  | x :: xs, p, h => by
    rw [List.flatMap_cons, viewSL_append, foldKids_append, pres_ext_kid ctx p x (h x (by simp))]
    simp only [Option.bind]
    rw [pres_fold_exts ctx xs _ (fun y hy => h y (by simp [hy]))]
    simp

theorem presB_show (ctx : Str) (b : Presence) (s : Str) (hs : legal s = true) :
    foldKids presKidB b (viewL ctx (optText showL s)) = some (if s = [] then b else { b with show_ := s }) := by
  rw [view_optText ctx _ s hs]; split
  · rfl
  · simp [foldKids, presKidB, contentOf, showL]

theorem presB_status (ctx : Str) (b : Presence) (s : Str) (hs : legal s = true) :
    foldKids presKidB b (viewL ctx (optText statusL s)) = some (if s = [] then b else { b with status := s }) := by
  rw [view_optText ctx _ s hs]; split
  · rfl
  · simp [foldKids, presKidB, contentOf, statusL, showL]

def prioKids (i : Int) : List El :=
  if i = 0 then [] else [.elem ⟨[], priorityL⟩ [] [.text true (showInt i)]]

theorem view_prio (ctx : Str) (i : Int) :
    viewL ctx (prioKids i) = if i = 0 then [] else [.elem ⟨ctx, priorityL⟩ [] [.text true (showInt i)]] := by
  unfold prioKids; split
  · simp [viewL]
  · simp [viewL, view, nsOf, viewAttrs, sanitize_legal _ (legal_showInt i)]

theorem presB_prio (ctx : Str) (b : Presence) (i : Int) (hi : intFits 8 i = true) :
    foldKids presKidB b (viewL ctx (prioKids i)) = some (if i = 0 then b else { b with priority := i }) := by
  rw [view_prio]; split
  · rfl
  · have hc : contentOf [El.text true (showInt i)] = showInt i := by simp [contentOf]
    have e1 : ¬ (priorityL = showL) := by decide
    have e2 : ¬ (priorityL = statusL) := by decide
    simp only [foldKids, presKidB, e1, e2, if_false, if_true, hc, showInt_ne_nil i,
      trimSpace_id _ (showInt_noSpace i), parseIntBits_showInt 8 i hi, Option.map]

theorem presB_err (ctx : Str) (b : Presence) (e : Err) (hb : b.error = Err.zero) (he : e.wf = true) :
    foldKids presKidB b (viewL ctx (encErr e)) = some (if e.isEmpty then b else { b with error := e }) := by
  unfold encErr
  cases h : e.isEmpty with
  | true => simp [viewL, foldKids]
  | false =>
    have hrt := err_rt ctx e he
    obtain ⟨a, ks, hv⟩ := view_errElem ctx e
    rw [hv] at hrt
    simp [viewL, hv, foldKids, presKidB, errorL, showL, statusL, priorityL, hb, hrt]

theorem noDecl_prio (i : Int) : noDeclL (prioKids i) = true := by
  unfold prioKids; split <;> simp [noDeclL, noDecl, declNs]

theorem allIn_prio (ctx : Str) (i : Int) : allIn ctx (viewL ctx (prioKids i)) = true := by
  rw [view_prio]; split <;> simp [allIn]

theorem presx_rt (ctx : Str) (p : PresenceX) (hctx : ctxOkX ctx = true) (hw : p.wf = true) :
    decPresenceX (viewS ctx (encPresenceX p)) = some p := by
  obtain ⟨⟨a, s, t, i, e⟩, xs⟩ := p
  simp only [PresenceX.wf, Presence.wf, Bool.and_eq_true] at hw
  obtain ⟨⟨⟨⟨⟨ha, hs⟩, ht⟩, hi⟩, he⟩, hx⟩ := hw
  have hns : nsOfS ctx ⟨[], ['p', 'r', 'e', 's', 'e', 'n', 'c', 'e']⟩ (encAttrs a) = ctx := by
    rw [nsOfS_plain _ _ _ (declNs_encAttrs a)]; simp [nsOf]
  have hnd : noDeclL (optText showL s ++ optText statusL t ++ prioKids i ++ encErr e) = true := by
    simp [noDeclL_append, noDecl_optText, noDecl_encErr, noDecl_prio]
  have hall : allIn ctx (viewL ctx (optText showL s ++ optText statusL t ++ prioKids i ++ encErr e)) = true := by
    simp [viewL_append, allIn_append, allIn_optText _ _ _ hs, allIn_optText _ _ _ ht, allIn_encErr, allIn_prio]
  have henc : encPresenceX ⟨⟨a, s, t, i, e⟩, xs⟩ = .elem ⟨[], ['p', 'r', 'e', 's', 'e', 'n', 'c', 'e']⟩ (encAttrs a)
      ((optText showL s ++ optText statusL t ++ prioKids i ++ encErr e) ++ xs.flatMap (encExt "Extensions")) := by
    simp [encPresenceX, prioKids]
  rw [henc, viewS_elem, hns]
  simp only [if_true, List.nil_append, attrs_view a ha, decPresenceX, decAttrs_encAttrs]
  rw [viewSL_append, viewSL_eq_viewL ctx _ hnd, foldKids_append, pres_fold_base ctx hctx _ _ hall]
  simp only [viewL_append, foldKids_append, presB_show ctx _ s hs, presB_status ctx _ t ht, presB_prio ctx _ i hi,
    Option.bind_some]
  rw [presB_err ctx _ e (by split <;> split <;> split <;> rfl) he]
  simp only [Option.map, Option.bind]
  rw [pres_fold_exts ctx xs _ (fun x hx' => List.all_eq_true.mp hx x hx')]
  by_cases h1 : s = [] <;> by_cases h2 : t = [] <;> by_cases h3 : i = 0 <;> cases h4 : e.isEmpty <;>
    simp [h1, h2, h3, Err.zero] <;> (try exact (isEmpty_zero e h4).symm) <;> (try simp [isEmpty_zero e h4, Err.zero])


/-! ### IQ -/
theorem iqx_payload_kid (ctx : Str) (q : IQX) (x : Ext) (hx : extOk "PKTIQ" x = true)
    (hne : (match x.schema with | .struct _ (.tag n) _ _ => n.loc != errorL | _ => false) = true) :
    foldKids iqKidX q (viewSL ctx (encExt "Payload" x)) = some { q with payload := some x } := by
  obtain ⟨n, a, ks, henc, hsp, hleg, hreg, hdec⟩ := ext_rt "PKTIQ" "Payload" ctx x hx
  have hloc : n.loc ≠ errorL := by
    unfold extOk at hx
    split at hx
    · rename_i tn n' hs ts hsch
      rw [hsch] at hne
      have hn' : n = n' := by
        have h2 := encExt_eq "Payload" x tn n' hs ts hsch
        rw [henc, encS, hsch] at h2
        cases hv : x.v with
        | struct dn vs =>
          rw [hv, encD_struct] at h2
          simp only [startName, List.cons.injEq, El.elem.injEq, and_true] at h2
          exact h2.1
        | _ => rw [hv] at h2; simp [encD] at h2
      rw [hn']; simpa using hne
    · cases hx
  rw [henc, viewSL_one, foldKids_one]
  rw [viewS_elem] at hdec ⊢
  have hname : (⟨nsOfS ctx n a, n.loc⟩ : Name) = n := by rw [nsOfS_own ctx n a hsp hleg]
  rw [hname] at hdec ⊢
  simp only [iqKidX, hloc, if_false, hreg, hdec, Option.map]

theorem iqx_err_kid (ctx : Str) (q : IQX) (e : Err) (he : e.wf = true) :
    iqKidX q (viewS ctx (errElem e)) = some { q with error := some e } := by
  rw [viewS_eq_view ctx _ (noDecl_errElem e)]
  have hrt := err_rt ctx e he
  obtain ⟨a, ks, hv⟩ := view_errElem ctx e
  rw [hv] at hrt ⊢
  simp only [iqKidX, errorL, if_true, hrt]

theorem iqx_any_kid (ctx : Str) (q : IQX) (n : Name) (a : List Attr) (c : Str) (ns : List Tree)
    (hwf : (Tree.mk n a c ns).wf ctx = true) (hne : n.loc ≠ errorL)
    (hreg : regLookup "PKTIQ" ⟨nsOf ctx n, n.loc⟩ = none) :
    iqKidX q (viewS ctx (encNode (.mk n a c ns))) = some { q with any := some (.mk n a c ns) } := by
  simp only [Tree.wf, Bool.and_eq_true, Bool.not_eq_true'] at hwf
  have hrt := node_rt ctx (.mk n a c ns) hwf.1.1 hwf.1.2 hwf.2
  rw [viewS_encNode ctx _ hwf.1.1]
  rw [encNode, view_elem] at hrt ⊢
  simp only [iqKidX, hne, if_false, hreg, hrt, Option.map]

theorem iqx_rt (ctx : Str) (q : IQX) (hw : q.wf ctx = true) : decIQX (viewS ctx (encIQX q)) = some q := by
  obtain ⟨a, pl, e, t⟩ := q
  simp only [IQX.wf, Bool.and_eq_true] at hw
  obtain ⟨⟨⟨ha, hpl⟩, he⟩, ht⟩ := hw
  have hns : nsOfS ctx ⟨[], ['i', 'q']⟩ (encAttrs a) = ctx := by
    rw [nsOfS_plain _ _ _ (declNs_encAttrs a)]; simp [nsOf]
  rw [encIQX, viewS_elem, hns]
  simp only [if_true, List.nil_append, attrs_view a ha, decIQX, decAttrs_encAttrs, viewSL_append, foldKids_append]
  have P : ∀ x, pl = some x → ∀ q : IQX,
      foldKids iqKidX q (viewSL ctx (encExt "Payload" x)) = some { q with payload := some x } := by
    intro x hx q
    subst hx
    simp only [Bool.and_eq_true] at hpl
    exact iqx_payload_kid ctx q x hpl.1 hpl.2
  have E : ∀ e', e = some e' → ∀ q : IQX,
      foldKids iqKidX q (viewSL ctx (encErr e')) = some { q with error := some e' } := by
    intro e' hx q
    subst hx
    simp only [Bool.and_eq_true, Bool.not_eq_true'] at he
    simp only [encErr, he.2, Bool.false_eq_true, if_false, viewSL_one, foldKids_one, iqx_err_kid ctx q e' he.1]
  have T : ∀ t', t = some t' → ∀ q : IQX,
      foldKids iqKidX q [viewS ctx (encNode t')] = some { q with any := some t' } := by
    intro t' hx q
    subst hx
    cases t' with
    | mk n a' c ns =>
      simp only [Bool.and_eq_true, bne_iff_ne, ne_eq, Option.isNone_iff_eq_none] at ht
      simp only [foldKids_one, iqx_any_kid ctx q n a' c ns ht.1.1 ht.1.2 ht.2]
  cases pl <;> cases e <;> cases t <;>
    simp [viewSL, foldKids_nil, P, E, T]

end XmppVerif.Proofs.C01S
